"""C07 - restart after a crash at any point recovers a consistent chain state.

spec/ChainStore.tla : the data directory (block index + data, UTXO.db / UTXO.old / *.db.tmp, undo files) with one
action per file-system effect, Crash at any point, Recover transcribed from NewUnspentDb + LoadBlockIndex +
NewChainExt.
  1. TLC, exhaustive: RecoverNeverPanics (known finding exempted; the strict form must be refuted),
     RecoveredStateConsistent, SnapshotBlockOnDisk, IndexImpliesData, SomeSnapshotExists, CleanRestartIsIdentity
  2. R->V: the hook trace of the real node running each workload is validated by TraceChainStore (order of
     effects, tip after every delivery)
  3. fault enumeration on the real code: for every named point reached by a workload the process is SIGKILLed
     there (VERIF_CRASH_AT), a fresh process reopens the directory and must (a) not panic, (b) be at a delivered
     block whose chain an uninterrupted node accepts, with exactly that chain's UTXO set, (c) after being fed the
     remaining blocks reach the final state of an uninterrupted run, (d) survive a clean restart unchanged.
     Torn tails of the index / data file are added at block-writer crash points.
"""
import json, os, re, shutil, time, concurrent.futures
from vf import Infra
import ledger_common as L

FAM = "Crash"
# block ids of the Crash family: A1=1 A2=2 A3=7 | B1=3 B2=4 B3=5 B4=8 | B3x=6 (invalid on its branch)
WORKLOADS = {
    "W1": dict(ops="D1,D2,I,W,D7", target=0),                      # extend, save, extend
    "W2": dict(ops="D1,I,D2,I,H,W", target=600),                     # a save aborted by the next block
    "W3": dict(ops="D1,D2,I,W,D3,D4,D5,I,W", target=0),            # reorganise after a save
    "W4": dict(ops="D1,D2,I,W,D3,D4,D6,I,W", target=0),            # reorganise onto a branch invalid at its 3rd block
    "W5": dict(ops="D1,D2,D7,C,D3,I,W", target=0),                 # clean restart in the middle
    "W6": dict(ops="D3,D4,I,H,W,D1,D2,D7,I,D8,I,H,W", target=600),        # reorganise the other way, hurry-up
    "W7": dict(ops="D1,D2,I,W,D3,D4,D6,D7,C", target=0),           # an invalidated block still queued, blocks queued behind it, clean restart
    # family Long: 36 blocks queued between two idle calls, snapshot, two more blocks
    "W8": dict(fam="Long", ops=",".join("D%d" % i for i in range(1, 37)) + ",I,W,D37,D38", target=0),
}
SKIP_POINTS = {"save_iter"}      # one per UTXO record: sampled, not enumerated
# hook points TraceChainStore knows (other modules may add points of their own to the same files: not its business)
KNOWN_EVENTS = {"op_deliver", "blk_data_written", "blk_index_written", "save_start", "save_db_to_old", "writer_created",
                "save_exit_sent", "writer_renamed", "writer_removed", "blk_published", "blk_flag_written", "cb_block_added",
                "cb_side_block_added", "cb_utxo_committed", "cb_tip_set", "commit_start", "commit_mem_done", "commit_done",
                "undo_tmp_written", "undo_renamed", "undo_start", "undo_deleted", "undo_done", "ulb_undone", "ulb_tip_set",
                "ptb_utxo_committed", "ptb_tip_set", "db_invalid_marked", "abort_send", "abort_waited", "save_done",
                "writer_chunk", "writer_before_rename", "writer_before_remove"}


def last_json(text):
    for ln in reversed(text.splitlines()):
        ln = ln.strip()
        if ln.startswith("{"):
            try:
                return json.loads(ln)
            except ValueError:
                continue
    return None


def run(ctx):
    quick = ctx.tier == "quick"
    binp = ctx.build("chainstore")
    states = transitions = 0

    # ---- 1. the design
    r = ctx.tlc("ChainStore", "ChainStore_mc", defines=dict(FAM=FAM, MAXDELIVER=4 if quick else 5, MAXSAVES=1 if quick else 2,
                                                             MAXCRASHES=1, NOPANIC="RecoverNeverPanics"), timeout=3000)
    if r.invariant:
        raise Infra("design-level counterexample in ChainStore (%s)\n%s" % (r.invariant, r.tail))
    r.require_ok("mc")
    states, transitions = r.distinct, r.generated
    rs = ctx.tlc("ChainStore", "ChainStore_mc", defines=dict(FAM=FAM, MAXDELIVER=3, MAXSAVES=1, MAXCRASHES=1,
                                                              NOPANIC="RecoverNeverPanicsStrict"), timeout=900)
    if rs.invariant != "RecoverNeverPanicsStrict":
        raise Infra("sanity: RecoverNeverPanicsStrict should be refuted (known finding), got %s\n%s" % (rs.invariant, rs.tail))
    ctx.cov["design_counterexample"] = "RecoverNeverPanicsStrict refuted: snapshot on a branch that lost a reorganisation"

    # ---- scenario + base chain (one world per scenario family)
    gt = int(time.time()) - 5 * 24 * 3600
    worlds = {}
    for fam in sorted(set(wl.get("fam", FAM) for wl in WORKLOADS.values())):
        ex, lines, scen, n = L.export(ctx, fam, 1, "crash-" + fam)
        wdir = os.path.join(ctx.scratch, "world-" + fam)
        os.makedirs(wdir)
        com = ["-dir", wdir, "-scenario", scen, "-gt", str(gt), "-pad", "600"]
        p = ctx.run([binp, "mkbase"] + com, timeout=300)
        if p.returncode != 0:
            raise Infra("mkbase failed: " + p.stderr[-2000:])
        worlds[fam] = (wdir, com)

    def wdir_of(wl):
        return worlds[wl.get("fam", FAM)][0]

    def work(node, wl, env=None):
        common = worlds[wl.get("fam", FAM)][1]
        return ctx.run([binp, "work"] + common + ["-node", node, "-ops", wl["ops"], "-target", str(wl["target"])], timeout=300, env=env)

    def recover(node, wl, tear=None):
        common = worlds[wl.get("fam", FAM)][1]
        argv = [binp, "recover"] + common + ["-node", node, "-ops", wl["ops"]]
        if tear:
            argv += ["-tear", tear]
        p = ctx.run(argv, timeout=300)
        j = last_json(p.stdout)
        if j is None:
            # the process died without a report: os.Exit / fatal error inside the library while reopening
            return {"problems": ["reopening process died: rc=%d %s" % (p.returncode, (p.stderr or "")[-300:])], "kind": ["reopen-died"]}
        return j

    # ---- 2. uncrashed runs: hook traces validated against the specification, points collected
    traces = []
    points = {}
    for name, wl in WORKLOADS.items():
        node = os.path.join(wdir_of(wl), "t-" + name)
        tr = os.path.join(wdir_of(wl), name + ".trace")
        p = work(node, wl, env={"VERIF_TRACE": tr})
        j = last_json(p.stdout)
        if p.returncode != 0 or not j or not j.get("ok"):
            what = (j or {}).get("what") or (j or {}).get("problems") or p.stderr[-500:]
            if j and ("clean restart" in str(what) or "after clean restart" in str(what)):
                ctx.violation("C07:clean-restart:%s" % name, {"workload": wl, "what": what}, str(what))
                continue
            raise Infra("workload %s failed uncrashed: %s" % (name, what))
        evs = [json.loads(l) for l in open(tr)]
        pts = {}
        for e in evs:
            if e["ev"].startswith("op_"):
                continue
            pts.setdefault(e["ev"], 0)
            pts[e["ev"]] = max(pts[e["ev"]], e["n"])
        points[name] = pts
        if "C" not in wl["ops"].split(","):     # a reopen in the middle restarts the model's volatile state: not traced
            traces.append((name, evs, wl.get("fam", FAM)))
        # an uncrashed run that simply ends (no Close) must also recover
        rep = recover(node, wl)
        judge(ctx, name, wl, "end-of-run", rep)
        shutil.rmtree(node, ignore_errors=True)
    tv = 0
    allev_by_fam = {}
    for fam in sorted(set(t[2] for t in traces)):
        allev = []
        for name, evs, f in traces:
            if f != fam:
                continue
            allev.append({"ev": "reset", "b": 0, "acc": False, "tip": 0, "abort": False})
            for e in evs:
                if e["ev"] in SKIP_POINTS or e["ev"] not in KNOWN_EVENTS:
                    continue
                allev.append({"ev": e["ev"], "b": e.get("b", 0), "acc": bool(e.get("acc", False)), "tip": e.get("tip", 0), "abort": bool(e.get("abort", False))})
        allev_by_fam[fam] = allev
        trp = os.path.join(ctx.scratch, "cs-trace-%s.ndjson" % fam)
        open(trp, "w").write("\n".join(json.dumps(e) for e in allev) + "\n")
        acc, hw, rt = validate(ctx, trp, fam)
        if not acc:
            line = allev[hw - 1] if hw and hw <= len(allev) else None
            what = "hook trace of the real node is not a behaviour of ChainStore at event %s: %s" % (hw, json.dumps(line))
            if rt.invariant:
                what = "invariant %s violated on the hook trace of the real node (event %s)" % (rt.invariant, hw)
            ctx.violation("C07:trace:%s" % (line or {}).get("ev", rt.invariant), {"family": fam, "trace_tail": allev[max(0, (hw or 1) - 25):(hw or 1) + 1], "tlc": rt.tail[-2000:]}, what)
        else:
            tv += len([t for t in traces if t[2] == fam])
            states += rt.distinct or 0
    allev = allev_by_fam.get(FAM, [])

    # ---- 3. crash-point enumeration
    jobs = []
    for name, wl in WORKLOADS.items():
        for pt, cnt in sorted(points.get(name, {}).items()):
            ns = list(range(1, cnt + 1))
            if pt in SKIP_POINTS:
                ns = sorted(set(ctx.rng.sample(ns, min(len(ns), 3 if quick else 12))))
            elif quick and len(ns) > 3:
                ns = sorted(set([1, cnt] + ctx.rng.sample(ns, 1)))
            for k in ns:
                jobs.append((name, pt, k, None))
                if pt in ("blk_data_written", "blk_index_written") and (not quick or k == cnt):
                    jobs.append((name, pt, k, "idx" if pt == "blk_index_written" else "dat"))
    ctx.log("%d crash experiments over %d workloads" % (len(jobs), len(WORKLOADS)))
    done = {"killed": 0, "notreached": 0}
    samples = []

    def one(job):
        name, pt, k, tear = job
        wl = WORKLOADS[name]
        node = os.path.join(wdir_of(wl), "c-%s-%s-%d-%s" % (name, pt, k, tear or "x"))
        try:
            p = work(node, wl, env={"VERIF_CRASH_AT": "%s#%d" % (pt, k)})
            if p.returncode != -9:
                return job, None          # the point was not reached in this schedule: nothing to judge
            return job, recover(node, wl, tear)
        finally:
            shutil.rmtree(node, ignore_errors=True)
            for suf in (".progress", ".oracle1", ".oracle2"):
                shutil.rmtree(node + suf, ignore_errors=True) if os.path.isdir(node + suf) else (os.path.exists(node + suf) and os.remove(node + suf))

    with concurrent.futures.ThreadPoolExecutor(12) as ex:
        for job, rep in ex.map(one, jobs):
            name, pt, k, tear = job
            if rep is None:
                done["notreached"] += 1
                continue
            done["killed"] += 1
            judge(ctx, name, WORKLOADS[name], "%s#%d%s" % (pt, k, "+torn-" + tear if tear else ""), rep)
            if len(samples) < 3 and not rep.get("problems"):
                samples.append({"workload": name, "ops": WORKLOADS[name]["ops"], "crash_at": "%s#%d" % (pt, k), "tear": tear,
                                "recovered_tip": (rep.get("recovered") or {}).get("tip"), "final_tip": (rep.get("final") or {}).get("tip")})
    if done["killed"] < len(jobs) * 0.8:
        raise Infra("only %d of %d crash points were reached" % (done["killed"], len(jobs)))
    for s in samples:
        ctx.sample(s)

    # ---- 4. binding self-test: a hook trace with two events swapped (index record before its data) must be rejected
    if not ctx.violations and tv:
        mut = list(allev)
        i = next(k for k, e in enumerate(mut) if e["ev"] == "blk_data_written")
        j = next(k for k in range(i, len(mut)) if mut[k]["ev"] == "blk_index_written")
        mut[i], mut[j] = mut[j], mut[i]
        mp = os.path.join(ctx.scratch, "cs-trace-mut.ndjson")
        open(mp, "w").write("\n".join(json.dumps(e) for e in mut[:j + 3]) + "\n")
        acc2, hw2, _ = validate(ctx, mp, FAM)
        if acc2:
            raise Infra("binding self-test failed: a trace with index-before-data was accepted")

    ctx.level = "model_checking"
    ctx.cov.update({"states": states, "transitions": transitions, "traces_validated_against_impl": tv + done["killed"],
                    "hook_traces_validated": tv, "crash_experiments": done["killed"], "crash_points_not_reached": done["notreached"],
                    "workloads": {k: v["ops"] for k, v in WORKLOADS.items()},
                    "rule": "every named point reached by each workload (save_iter sampled), SIGKILL there, reopen in a fresh process; torn index/data tails at block-writer points"})
    ctx.assumptions += ["crash = process death: completed system calls are durable, plus torn tails of the two append-only files",
                        "client/main.go is not started: recovery as far as it goes through lib/chain.NewChainExt"]


def judge(ctx, name, wl, where, rep):
    for kind, what in zip(rep.get("kind", []), rep.get("problems", [])):
        if any(m in what for m in ("unknown path to block", "reached the starting node height", "end block is not higher")):
            cls = "snapshot-off-branch"      # the three ways BlockTreeNode.FindPathTo panics when asked for a path that does not exist
        else:
            cls = what.split("panics: ")[-1]
            cls = re.sub(r"[0-9a-f]{16,}", "<hash>", cls)
            cls = re.sub(r"\d+", "N", cls)[:60]
        sig = "C07:%s:%s:%s" % (kind, name, cls)
        ctx.violation(sig, {"workload": name, "ops": wl["ops"], "target": wl["target"], "crash_at": where, "report": rep}, "%s crash at %s: %s" % (name, where, what))


def validate(ctx, trace_path, fam=FAM):
    r = ctx.tlc("TraceChainStore", "ChainStore_trace", workers=1, defines=dict(FAM=fam), timeout=900, files={"trace.ndjson": trace_path})
    hw = None
    for line in open(r.outpath, errors="replace"):
        m = re.search(r"VFREJECT\", (\d+)", line)
        if m:
            hw = int(m.group(1))
    if r.ok:
        return True, None, r
    if hw is None and not r.invariant:
        raise Infra("trace validation run broke\n" + r.tail)
    return False, hw, r


def replay_cmd(ctx, path):
    j = json.load(open(path))
    print(json.dumps(j, indent=1)[:6000])
    print("re-run: VERIF_SEED=%d bin/check C07 --tier %s" % (j["seed"], j["tier"]))
    return 2
