"""C12 - the mempool stays conflict-free, spendable and internally consistent.

spec/Mempool.tla     model of client/txpool index by index (pool, SpentOutputs, MemInputs marks, waiting orphans,
                     the incrementally kept sorted list, the CPFP listing); policy (what is refused, dropped,
                     expired) is left open; invariants = the property; StepOK = what an observed step may look like
  1. TLC, exhaustive, three six-transaction universes (chain + double spends + a replacement that spends what
     it replaces; diamond; orphan chain / immature coinbase / bad script / bad index), <= MaxBlocks blocks,
     disconnections, expiry, eviction, save/load: all invariants + StepsOK.  The design WITHOUT the rule
     "a replacement must not spend an output of a transaction it replaces" must be refuted (non-vacuity, and
     it is how processTx is written today).
  2. G->R (outcome-agnostic): the operation sequences of every transition of a bounded model (+ simulated
     deeper ones) are performed on the real client/txpool over a real chain; what the pool shows after every
     step is recorded.
  3. R->V: those recordings and long seeded random histories over larger random universes (and, thorough tier,
     an 11 MB pool that is evicted) are validated by spec/TraceMempool.tla: the pool part of the state is what
     the implementation showed, the chain part evolves by the specification; every invariant in every state,
     every step within the step relation, MempoolCheck() clean, listing blocks accepted by the chain.
  4. binding self-test: corrupted recordings (fee, listing order, spent index) must be rejected with the
     right invariant at the right event.
"""
import json, os, re, copy, threading, random, zlib
from vf import Infra

FAMS = ["FamChain", "FamDiamond", "FamOrphan", "FamConfl"]
KNOWN_SIG = "C12:InputsSpendable:replacement-spends-output-of-replaced-tx"
HANG_SIG = "C12:hang:txAccepted-retries-forever"
MAX_DEATHS = 10     # per driver chunk: every death costs a restart (a hang: the watchdog's patience as well)


# ------------------------------------------------------------------ helpers

def par(fn, items, maxpar):
    """run fn(item, k) for all items with at most maxpar threads; exceptions are re-raised"""
    res = [None] * len(items)
    errs = []
    sem = threading.Semaphore(maxpar)

    def one(k):
        with sem:
            try:
                res[k] = fn(items[k], k)
            except Exception as e:  # noqa
                errs.append(e)
    th = [threading.Thread(target=one, args=(k,)) for k in range(len(items))]
    for t in th:
        t.start()
    for t in th:
        t.join()
    if errs:
        raise errs[0]
    return res


class TlcPool:
    """ctx.tlc from several threads: every call gets its own run counter (scratch directories must not collide)"""
    def __init__(self, ctx):
        self.ctx = ctx
        self.lock = threading.Lock()
        self.n = 1000

    def tlc(self, *a, **kw):
        with self.lock:
            self.n += 1
            sub = copy.copy(self.ctx)
            sub._tlc_n = self.n
        return sub.tlc(*a, **kw)


def mc_defs(fam, blocks, undo, fgn, rbf="TRUE", retry="TRUE", evict="TRUE"):
    return dict(FAM=fam, MAXBLOCKS=blocks, MAXUNDO=undo, MAXFGN=fgn, REPAIREDRBF=rbf, REPAIREDRETRY=retry, EVICT=evict)


# ------------------------------------------------------------------ operation sequences from TLC

def convert_ops(ops):
    """model operations -> driver operations: a run of Undo steps and the blocks connected after it is one
    reorganisation (a competing branch one block longer than what it disconnects)"""
    out = []
    i = 0
    while i < len(ops):
        o = ops[i]
        if o["a"] != "Undo":
            out.append({"a": o["a"], "t": o["t"], "mode": o["mode"], "k": o["k"], "txs": o["txs"], "d": 0, "blks": []})
            i += 1
            continue
        d = 0
        while i < len(ops) and ops[i]["a"] == "Undo":
            d += 1
            i += 1
        blks = []
        while i < len(ops) and len(blks) < d + 1 and ops[i]["a"] == "MineForeign":
            blks.append(ops[i]["txs"])
            i += 1
        out.append({"a": "Reorg", "t": 0, "mode": "", "k": 0, "txs": [], "d": d, "blks": blks})
    return out


def export_ops(tp, ctx, fam, blocks, undo, fgn, tag, simulate=None, depth=0, timeout=1500):
    d = dict(FAM=fam, MAXBLOCKS=blocks, MAXUNDO=undo, MAXFGN=fgn, EMITAT=depth)
    r = tp.tlc("MempoolGen", "Mempool_gen", workers=1, defines=d, simulate=simulate, depth=depth or None, timeout=timeout, heap="3g")
    if not r.ok:
        r.require_ok("export " + tag)
    scen = list(r.lines("VFS"))
    if not scen:
        raise Infra("export %s printed no scenario" % tag)
    sc = json.loads(scen[0])
    badscript = {int(t) for t, d_ in sc["tx"].items() if any(not i["ok"] for i in d_["ins"])}
    rng = random.Random(ctx.seed * 1000003 + zlib.crc32(tag.encode()) % 1000)
    seen = set()
    lines = []
    ntrans = 0
    for s in r.lines("VFT"):
        ntrans += 1
        ops = convert_ops(json.loads(s)["ops"])
        key = json.dumps(ops, sort_keys=True)
        if key in seen:
            continue
        seen.add(key)
        # the transactions of somebody else's block were usually offered to this node before: whatever it did with
        # them (pooled, refused and kept in the reject cache, waiting), the block has to clean up after them
        if rng.random() < 0.5:
            rich = []
            for o in ops:
                if o["a"] == "MineForeign" and o["txs"]:
                    rich += [{"a": "Submit", "t": t, "mode": "net", "k": 0, "txs": [], "d": 0, "blks": []} for t in o["txs"]]
                rich.append(o)
            ops = rich
        for o in ops:       # where the pool file is damaged is the driver's choice
            if o["a"] == "SaveCutLoad":
                o["k"] = rng.randrange(1 << 20)
                o["mode"] = "corrupt" if rng.random() < 0.2 else "cut"
        for o in ops:       # "trusted" and the operator's own transactions differ from "net" only outside the model
            if o["a"] == "Submit" and o["mode"] == "net" and o["t"] not in badscript and rng.random() < 0.25:
                o["mode"] = "trusted"
        lines.append({"ops": ops, "obs": rng.choice([1, 1, 1000])})
    return r, scen[0], lines, ntrans


# ------------------------------------------------------------------ driver

def run_driver(ctx, binp, scen_path, lines, tag, bulk=0, sigops=0):
    """perform the operation sequences on the real pool; returns (events per trace, model scenario path, stats).
    The driver is restarted after a panic of the pool (its mutex may stay locked) or when the process dies
    (BlockUndone calls os.Exit(1) on its own inconsistency)."""
    d = os.path.join(ctx.scratch, "mp-" + tag)
    os.makedirs(d, exist_ok=True)
    opsp = os.path.join(d, "ops.ndjson")
    with open(opsp, "w") as f:
        for ln in lines:
            f.write(json.dumps(ln) + "\n")
    outp = os.path.join(d, "trace.ndjson")
    model = os.path.join(d, "model.json")
    skip = 0
    deaths = []
    stderr_tail = ""
    for attempt in range(200):
        argv = [binp, "run", "-scenario", scen_path, "-ops", opsp, "-out", outp, "-model", model, "-dir", os.path.join(d, "w"),
                "-skip", str(skip)]
        if attempt:
            argv.append("-append")
        if bulk:
            argv += ["-bulk", str(bulk)]
        if sigops:
            argv += ["-sigops", str(sigops)]
        p = ctx.run(argv, timeout=3000)
        stderr_tail = p.stderr[-1500:]
        started = 0
        if os.path.exists(outp):
            with open(outp) as f:
                for l in f:
                    if l.startswith('{"ev":"Reset"'):
                        started += 1
        summ = None
        for l in p.stdout.splitlines():
            if l.startswith("{") and '"summary"' in l:
                summ = json.loads(l)
        if p.returncode == 0 and summ and summ["stopped"] < 0:
            break
        if p.returncode == 2:
            raise Infra("mempool driver failed (%s): %s" % (tag, p.stderr[-2000:]))
        if p.returncode != 0:
            deaths.append((started - 1, p.returncode, p.stderr[-800:]))
        if started <= skip and p.returncode != 0:
            raise Infra("mempool driver dies before the first operation (%s) rc=%d: %s" % (tag, p.returncode, p.stderr[-1500:]))
        skip = started
        if skip >= len(lines):
            break
        if len(deaths) >= MAX_DEATHS:
            ctx.log("driver chunk %s: %d deaths of the pool, the remaining %d operation sequences are not performed" % (tag, len(deaths), len(lines) - skip))
            break
    else:
        raise Infra("mempool driver restarted too often (%s)" % tag)
    traces = []
    cur = None
    with open(outp) as f:
        for l in f:
            e = json.loads(l)
            if e["ev"] == "Reset":
                cur = {"line": len(traces), "events": [], "ops": [], "fail": None}
                traces.append(cur)
            elif e["ev"] == "Op":
                cur["ops"].append(e["op"])
            elif e["ev"] == "Fail":
                if cur["fail"] is None:
                    cur["fail"] = e["what"]
            elif cur["fail"] is None:
                cur["events"].append(l.rstrip("\n"))
    for (idx, rc, err) in deaths:
        if 0 <= idx < len(traces) and traces[idx]["fail"] is None:
            traces[idx]["fail"] = "the process ended with exit code %d inside operation %s: %s" % (
                rc, json.dumps(traces[idx]["ops"][-1]) if traces[idx]["ops"] else "?", err[-400:])
    return traces, model, {"stderr": stderr_tail}


# ------------------------------------------------------------------ trace validation

def pool_ids(ev):
    o = ev.get("obs")
    return {p["t"] for p in o["pool"]} if o else None


def self_conflicting(scn):
    """transactions that spend an output of a transaction (or of a descendant of a transaction) they double-spend:
    they can never be confirmed, and a pool that holds one holds an input that is neither confirmed nor pooled"""
    anc = {}

    def ancestors(t):
        if t not in anc:
            anc[t] = {t}
            for i in scn[t]["ins"]:
                if i["tx"] in scn:
                    anc[t] |= ancestors(i["tx"])
        return anc[t]
    res = set()
    for x, d in scn.items():
        mine = {(i["tx"], i["vout"]) for i in d["ins"]}
        for i in d["ins"]:
            if i["tx"] in scn and any(a != x and mine & {(j["tx"], j["vout"]) for j in scn[a]["ins"]} for a in ancestors(i["tx"])):
                res.add(x)
    return res


def spends_replaced(sc, pre, ev):
    """a transaction that spends what it replaces entered the pool in this step (sc = self_conflicting(scn))"""
    post = pool_ids(ev)
    if post is None or pre is None:
        return False
    return bool((post - set(pre)) & sc)


def validate(tp, ctx, events_path, model_path, evict, timeout=3000):
    r = tp.tlc("TraceMempool", "Mempool_trace", workers=1, defines=dict(EVICT="TRUE" if evict else "FALSE"), timeout=timeout, heap="3g",
               files={"trace.ndjson": events_path, "scenario.json": model_path})
    if r.ok:
        return None, None, r
    hw = last_l = None
    with open(r.outpath, errors="replace") as f:
        for line in f:
            m = re.match(r"l = (\d+)$", line.strip())
            if m:
                last_l = int(m.group(1))
            m = re.search(r'VFREJECT", (\d+)', line)
            if m:
                hw = int(m.group(1))
    if r.invariant and last_l:
        return r.invariant, last_l - 1, r          # the state after event l-1 violates the invariant
    if hw and not r.invariant and r.rc != -9 and not [e for e in r.errors if "Postcondition" not in e and "VFREJECT" not in e]:
        return "NotABehaviour", hw, r               # event hw cannot be taken by any action of the specification
    raise Infra("trace validation run broke\n" + r.tail)


class Validator:
    def __init__(self, ctx, tp, tag, model_path, scen_json, evict=False, bulk=0, sigops=0):
        self.ctx, self.tp, self.tag, self.model, self.evict, self.bulk, self.sigops = ctx, tp, tag, model_path, evict, bulk, sigops
        self.scen_json = scen_json
        m = json.load(open(model_path))
        self.scn = {int(t): d for t, d in m["tx"].items()}
        self.sc = self_conflicting(self.scn)
        self.known_samples = []
        self.events = 0
        self.traces_ok = 0

    def replay_obj(self, tr, upto=None):
        return {"scenario": json.loads(self.scen_json), "ops": {"ops": tr["ops"], "obs": tr.get("obs", 1)}, "evict": self.evict,
                "bulk": self.bulk, "sigops": self.sigops, "failing_event": upto}

    def report(self, tr, inv, k):
        """violation of `inv` in the state after event k (0-based) of trace tr"""
        ev = json.loads(tr["events"][k])
        pre = pool_ids(json.loads(tr["events"][k - 1])) if k > 0 else set()
        if inv in ("InputsSpendable", "IndexesAgree", "MempoolCheckClean") and spends_replaced(self.sc, pre, ev):
            sig = KNOWN_SIG
        else:
            sig = "C12:%s:%s" % (inv, ev["ev"])
            if ev["ev"] == "Submit":
                sig += ":" + ev["res"]
        o = ev.get("obs") or {}
        what = "%s violated after event %d of a recorded history: %s" % (inv, k + 1, short(ev))
        if o.get("mptext"):
            what += " | MempoolCheck: " + o["mptext"][:300].replace("\n", " / ")
        if o.get("bad"):
            what += " | driver: " + "; ".join(o["bad"])[:300]
        self.ctx.violation(sig, self.replay_obj(tr, k + 1), what)

    def check(self, traces):
        """validate a list of traces (one TLC run, repeated after cutting a violating trace)"""
        ctx = self.ctx
        # cut at the known pattern before TLC sees it (each cut costs a TLC start otherwise); samples are
        # validated separately: the model, not this script, decides that they are violations
        for tr in traces:
            pre = set()
            for k, l in enumerate(tr["events"]):
                ev = json.loads(l)
                if spends_replaced(self.sc, pre, ev):
                    self.known_samples.append({"ops": tr["ops"], "events": tr["events"][:k + 1], "obs": tr.get("obs", 1)})
                    tr["events"] = tr["events"][:k]
                    tr["fail"] = None       # whatever happened later in this history happened to a pool already broken
                    break
                p = pool_ids(ev)
                if p is not None:
                    pre = p
        # panics / process deaths are violations by themselves
        for tr in traces:
            if tr["fail"]:
                w = tr["fail"]
                cands = set()
                if tr["ops"] and tr["ops"][-1]["a"] == "Submit":
                    cands.add(tr["ops"][-1]["t"])
                if tr["events"]:
                    o = json.loads(tr["events"][-1]).get("obs") or {}
                    cands |= {r["t"] for r in o.get("rej", []) if r["kind"] == "orphan"}
                if w.startswith("hang:") and "txAccepted" in w.split("\n")[0]:
                    sig = HANG_SIG
                elif w.startswith("panic:") and cands & self.sc and ("findWorstParent" in w or "getAllTopParents" in w or "GetAllParents" in w):
                    sig = KNOWN_SIG     # the same defect, met before the pool could be looked at: the missing parent is dereferenced
                    w = "a transaction that spends what it replaces was accepted and its missing parent dereferenced: " + w
                else:
                    sig = "C12:crash:" + re.sub(r"0x[0-9a-f]+|\d+", "N", w.split("\n")[0])[:80]
                ctx.violation(sig, self.replay_obj(tr), "the pool crashed / did not return: " + w[:1500])
        for rnd in range(6):
            path = os.path.join(ctx.scratch, "ev-%s-%d.ndjson" % (self.tag, rnd))
            index = []      # line number (1-based) -> (trace, event index)
            with open(path, "w") as f:
                for tr in traces:
                    f.write('{"ev":"Reset"}\n')
                    index.append(None)
                    for k, l in enumerate(tr["events"]):
                        f.write(l + "\n")
                        index.append((tr, k))
            inv, line, r = validate(self.tp, ctx, path, self.model, self.evict)
            if inv is None:
                self.events += len(index)
                self.traces_ok += len(traces)
                return r
            if line < 1 or line > len(index) or index[line - 1] is None:
                raise Infra("trace validation stopped at line %s (%s)\n%s" % (line, inv, r.tail))
            tr, k = index[line - 1]
            self.report(tr, inv, k)
            tr["events"] = tr["events"][:k]
        if ctx.violations or ctx.known_hits:
            ctx.log("trace file %s: validation given up after 6 cuts (violations are recorded)" % self.tag)
            return None
        raise Infra("more than 6 cuts in one trace file (%s) although nothing was reported - the driver or the model is off" % self.tag)

    def confirm_known(self):
        """the shortest cut-off history must be refused by the model with InputsSpendable at its last event"""
        if not self.known_samples:
            return 0
        s = min(self.known_samples, key=lambda x: len(x["events"]))
        path = os.path.join(self.ctx.scratch, "ev-%s-known.ndjson" % self.tag)
        with open(path, "w") as f:
            f.write('{"ev":"Reset"}\n' + "\n".join(s["events"]) + "\n")
        inv, line, r = validate(self.tp, self.ctx, path, self.model, self.evict)
        if inv != "InputsSpendable" or line != len(s["events"]) + 1:
            raise Infra("a history cut at 'replacement spends what it replaces' was not refused as expected (%s at %s)\n%s" % (inv, line, r.tail))
        ev = json.loads(s["events"][-1])
        o = ev["obs"]
        what = ("InputsSpendable violated: a transaction was accepted as a replacement although it spends an output of a transaction it "
                "replaces; the pool now holds it with an input that is neither confirmed nor pooled (event %d: %s)" % (len(s["events"]), short(ev)))
        if o.get("mptext"):
            what += " | MempoolCheck: " + o["mptext"][:300].replace("\n", " / ")
        self.ctx.violation(KNOWN_SIG, {"scenario": json.loads(self.scen_json), "ops": {"ops": s["ops"], "obs": s["obs"]}, "evict": self.evict,
                                       "bulk": self.bulk, "sigops": self.sigops, "failing_event": len(s["events"])}, what)
        return len(self.known_samples)


def short(ev):
    o = ev.get("obs") or {}
    s = ev["ev"]
    if ev["ev"] == "Submit":
        s += " t=%d %s -> %s(%d)" % (ev["t"], ev["mode"], ev["res"], ev["code"])
    if ev["ev"] in ("Mined", "Undone", "Deliver"):
        s += " block %d txs=%s %s%s" % (ev["b"], ev["txs"], ev.get("src", ""), "" if ev["ev"] != "Deliver" else (" accepted" if ev["acc"] else " REFUSED"))
    s += " pool=" + str([(p["t"], "".join("M" if m else "." for m in p["mem"])) for p in o.get("pool", [])])
    if o.get("haslst"):
        s += " listing=" + str(o["lst"])
    return s[:700]


STATS_LOCK = threading.Lock()


def count_events(stats, events):
    """what the recordings exercised (coverage report only)"""
    def inc(k, n=1):
        stats[k] = stats.get(k, 0) + n
    pre = {}
    for l in events:
        e = json.loads(l)
        ev = e["ev"]
        inc(ev + (":" + e["res"] if ev == "Submit" else "") + (":" + e["src"] if ev == "Deliver" else ""))
        o = e.get("obs")
        if not o:
            continue
        post = {p["t"]: p for p in o["pool"]}
        stats["max_pool"] = max(stats.get("max_pool", 0), len(post))
        gone, new = set(pre) - set(post), set(post) - set(pre)
        if ev == "Submit" and e["res"] == "accepted":
            if gone:
                inc("replacements")
            if len(gone) > 1:
                inc("replacements_with_descendants")
            if len(new) > 1:
                inc("orphans_resolved_on_submit", len(new) - 1)
        if ev == "Mined":
            if e["txs"]:
                inc("blocks_with_txs")
            if new:
                inc("orphans_resolved_on_block", len(new))
            if gone - set(e["txs"]):
                inc("pooled_conflicting_with_block_removed", len(gone - set(e["txs"])))
            if any(t in pre and t in post and sum(pre[t]["mem"]) > sum(post[t]["mem"]) for t in post):
                inc("children_unmarked_by_block")
        if ev == "Undone":
            if new:
                inc("txs_put_back_by_undo", len(new))
            if any(t in pre and sum(post[t]["mem"]) > sum(pre[t]["mem"]) for t in post):
                inc("children_remarked_by_undo")
        if ev == "Tick" and gone:
            inc("ticks_removing", 1)
            inc("removed_by_tick", len(gone))
        if ev == "SaveLoad" and not e["acc"]:
            inc("restarts_on_damaged_pool_file")
            if pre:
                inc("restarts_on_damaged_pool_file_with_pooled_txs")
        if ev == "SaveLoad" and post:
            inc("saveload_nonempty")
            if set(pre) != set(post):
                inc("saveload_changed_pool")
        if o["haslst"] and o["lst"] != o["srt"]:
            inc("listings_reordered_by_cpfp")
        if o["haslst"] and any(any(m) for m in (p["mem"] for p in o["pool"])):
            inc("listings_with_unconfirmed_parents")
        pre = post


def split(lst, n):
    n = max(1, min(n, len(lst)))
    return [lst[i::n] for i in range(n)]


def drive_and_validate(ctx, tp, binp, scen_json, lines, tag, nproc, evict=False, bulk=0, sigops=0, stats=None):
    """operation sequences -> real pool -> recordings -> TLC; returns (traces validated, events)"""
    scen_path = os.path.join(ctx.scratch, "scen-%s.json" % tag)
    open(scen_path, "w").write(scen_json)
    chunks = split(lines, nproc)

    def one(chunk, k):
        traces, model, st = run_driver(ctx, binp, scen_path, chunk, "%s-%d" % (tag, k), bulk=bulk, sigops=sigops)
        for tr, ln in zip(traces, chunk):
            tr["obs"] = ln.get("obs", 1)
        v = Validator(ctx, tp, "%s-%d" % (tag, k), model, scen_json, evict=evict, bulk=bulk, sigops=sigops)
        v.check(traces)
        return v, traces
    res = par(one, chunks, nproc)
    known = 0
    vs = [v for v, _ in res]
    withk = [v for v in vs if v.known_samples]
    if withk:
        best = min(withk, key=lambda v: min(len(s["events"]) for s in v.known_samples))
        best.confirm_known()
        known = sum(len(v.known_samples) for v in withk)
    if stats is not None:
        with STATS_LOCK:
            for _, traces in res:
                for tr in traces:
                    count_events(stats, tr["events"])
            stats["cut_at_known_finding"] = stats.get("cut_at_known_finding", 0) + known
    return sum(v.traces_ok for v in vs), sum(v.events for v in vs), res


# ------------------------------------------------------------------ the check

def run(ctx):
    quick = ctx.tier == "quick"
    binp = ctx.build("mempool")
    tp = TlcPool(ctx)
    vlock, vorig = threading.Lock(), ctx.violation

    def locked_violation(*a, **kw):     # violations are reported from worker threads
        with vlock:
            return vorig(*a, **kw)
    ctx.violation = locked_violation
    ncpu = os.cpu_count() or 4
    nproc = min(16, ncpu)
    states = transitions = 0
    traces_validated = events_validated = 0
    stats = {}

    # ---- 1. the design, exhaustively
    bounds = (1, 1, 1) if quick else (3, 2, 2)
    jobs = [(f, mc_defs(f, *bounds)) for f in FAMS]
    jobs.append(("FamChain-unrepaired", mc_defs("FamChain", 1, 0, 1, rbf="FALSE", evict="FALSE")))
    jobs.append(("FamOrphan-unrepaired", mc_defs("FamOrphan", 1, 0, 2, retry="FALSE", evict="FALSE")))

    def mc(job, k):
        return tp.tlc("Mempool", "Mempool_mc", defines=job[1], workers=max(2, ncpu // len(jobs)), timeout=3000, heap="4g")
    res = par(mc, jobs, len(jobs))
    for (name, _), r in zip(jobs, res):
        if name.endswith("unrepaired"):
            if not r.invariant:
                raise Infra("sanity: the design as written (%s) should violate an invariant, TLC found none\n%s" % (name, r.tail))
            ctx.cov.setdefault("refuted_variants", []).append("%s: %s violates %s" % (
                name, "RepairedRbf=FALSE (processTx as written)" if "Chain" in name else "RepairedRetry=FALSE (txAccepted as written)", r.invariant))
            continue
        if r.invariant:
            raise Infra("design-level counterexample in Mempool/%s (%s) - model and code must be re-examined\n%s" % (name, r.invariant, r.tail))
        r.require_ok("mc " + name)
        states += r.distinct
        transitions += r.generated

    # ---- 2. operation sequences of the bounded model, performed on the real pool, recordings validated
    gen_bounds = (1, 1, 1) if quick else (2, 2, 2)
    cap = 180 if quick else 5000
    ejobs = [(f, m) for f in FAMS for m in ("bfs", "sim")]
    per = max(1, nproc // len(ejobs)) if quick else max(2, nproc // 3)

    def ex(job, k):
        fam, mode = job
        if mode == "bfs":
            r, scen, lines, ntrans = export_ops(tp, ctx, fam, *gen_bounds, tag=fam + "-bfs")
            if ntrans != r.generated - 1:
                raise Infra("export %s: %d lines for %s generated states" % (fam, ntrans, r.generated))
        else:
            r, scen, lines, ntrans = export_ops(tp, ctx, fam, 3, 2, 2, tag=fam + "-sim", simulate="num=%d" % (20 if quick else 600), depth=12)
        if not lines:
            raise Infra("export %s/%s produced no operation sequences\n%s" % (fam, mode, r.tail))
        if len(lines) > cap:
            random.Random(ctx.seed).shuffle(lines)
            lines = lines[:cap]
        tv, evs, _ = drive_and_validate(ctx, tp, binp, scen, lines, "%s-%s" % (fam, mode), per, stats=stats)
        ctx.log("%s/%s: %d transitions -> %d distinct operation sequences performed, %d recordings (%d events) accepted" % (fam, mode, ntrans, len(lines), tv, evs))
        return tv, evs, lines
    gen_sequences = 0
    for (fam, mode), (tv, evs, lines) in zip(ejobs, par(ex, ejobs, len(ejobs) if quick else 3)):
        traces_validated += tv
        events_validated += evs
        gen_sequences += len(lines)
        if len(ctx.cov["samples"]) < 2 and lines:
            ctx.sample({"universe": fam, "ops": lines[len(lines) // 2]["ops"]})

    # ---- 3. long seeded random histories over larger random universes
    nuni = 4 if quick else 24
    ntr, nops, ntx = (5, 80, 40) if quick else (24, 140, 60)
    uni = []
    for u in range(nuni):
        d = os.path.join(ctx.scratch, "uni%d" % u)
        os.makedirs(d, exist_ok=True)
        sp, op = os.path.join(d, "scen.json"), os.path.join(d, "ops.ndjson")
        p = ctx.run([binp, "gen", "-seed", str(ctx.seed * 1000 + u), "-ntx", str(ntx + 7 * (u % 4)), "-traces", str(ntr), "-ops", str(nops),
                     "-scenario", sp, "-opsout", op], timeout=600)
        if p.returncode != 0:
            raise Infra("mempool gen failed: " + p.stderr[-2000:])
        uni.append((open(sp).read(), [json.loads(l) for l in open(op)]))
    first_random = None

    def rnd(job, k):
        scen, lines = job
        return drive_and_validate(ctx, tp, binp, scen, lines, "rnd%d" % k, 1 if quick else 2, stats=stats)
    rres = par(rnd, uni, min(nuni, nproc if quick else nproc // 2))
    for tv, evs, res in rres:
        traces_validated += tv
        events_validated += evs
        if first_random is None and tv:
            first_random = res
    ctx.log("random histories: %d universes x %d traces x %d operations performed and validated" % (nuni, ntr, nops))

    # ---- 3b. rank run: about 50 insertions into the same gap of the incrementally kept sorted list (the rank space
    # between two neighbours is used up and the list has to renumber), two-parent children after each one
    d = os.path.join(ctx.scratch, "rankrun")
    os.makedirs(d, exist_ok=True)
    sp, op = os.path.join(d, "scen.json"), os.path.join(d, "ops.ndjson")
    nrk, nrt = (52, 1) if quick else (64, 4)
    p = ctx.run([binp, "gen", "-seed", str(ctx.seed * 1000 + 997), "-ntx", "4", "-traces", str(nrt), "-ops", "0", "-rankrun", str(nrk),
                 "-scenario", sp, "-opsout", op], timeout=600)
    if p.returncode != 0:
        raise Infra("mempool gen failed: " + p.stderr[-2000:])
    rst = {}
    tv, evs, _ = drive_and_validate(ctx, tp, binp, open(sp).read(), [json.loads(l) for l in open(op)], "rankrun", nrt, stats=rst)
    traces_validated += tv
    events_validated += evs
    ctx.cov["rank_run_tier"] = {"insertions_per_history": nrk, "max_pool": rst.get("max_pool"), "events": evs}
    if not ctx.violations and (rst.get("max_pool") or 0) < nrk:
        raise Infra("rank run: the pool never held the run (%s transactions)" % rst.get("max_pool"))
    ctx.log("rank-run tier: %d traces, %d events, largest pool %s transactions" % (tv, evs, rst.get("max_pool")))

    # ---- 3c. sigop family: scripts that carry signature operations (P2SH redeem scripts, P2WSH and P2SH-P2WSH witness
    # scripts, P2WPKH, bare CHECKSIG outputs); together more than a block may carry, so the assembly - which cuts
    # the listing on the pool's RECORDED cost, as client/rpcapi does - matters; every recorded cost is compared
    # with the driver's own BIP141 count (AttrsExact)
    d = os.path.join(ctx.scratch, "sigops")
    os.makedirs(d, exist_ok=True)
    sp, op = os.path.join(d, "scen.json"), os.path.join(d, "ops.ndjson")
    nsg, nst = (72, 1) if quick else (72, 2)
    p = ctx.run([binp, "gen", "-seed", str(ctx.seed * 1000 + 996), "-ntx", "4", "-traces", str(nst), "-ops", "0", "-sigops", str(nsg),
                 "-scenario", sp, "-opsout", op], timeout=600)
    if p.returncode != 0:
        raise Infra("mempool gen failed: " + p.stderr[-2000:])
    sst = {}
    tv, evs, sres = drive_and_validate(ctx, tp, binp, open(sp).read(), [json.loads(l) for l in open(op)], "sigops", nst, sigops=nsg, stats=sst)
    traces_validated += tv
    events_validated += evs
    cut = 0
    for _, trs in sres:
        for tr in trs:
            for l in tr["events"]:
                e = json.loads(l)
                if e["ev"] == "Deliver" and e["src"] == "listing" and e["acc"] and e.get("obs") and e["obs"]["pool"]:
                    cut += 1        # a listing block was accepted and the pool was not empty afterwards: the assembly had to cut
    ctx.cov["sigop_tier"] = {"transactions": nsg, "max_pool": sst.get("max_pool"), "events": evs, "listing_blocks_that_had_to_cut": cut}
    if not ctx.violations and not cut:
        raise Infra("sigop tier: no block assembly had to cut the listing")
    ctx.log("sigop tier: %d traces, %d events, largest pool %s transactions, %d assemblies cut" % (tv, evs, sst.get("max_pool"), cut))

    # ---- 4. thorough: an 11 MB pool (bulky transactions), size-limit eviction on the way
    if not quick:
        d = os.path.join(ctx.scratch, "evict")
        os.makedirs(d, exist_ok=True)
        sp, op = os.path.join(d, "scen.json"), os.path.join(d, "ops.ndjson")
        p = ctx.run([binp, "gen", "-seed", str(ctx.seed * 1000 + 999), "-ntx", "30", "-traces", "3", "-ops", "0", "-bulky", "132",
                     "-scenario", sp, "-opsout", op], timeout=600)
        if p.returncode != 0:
            raise Infra("mempool gen failed: " + p.stderr[-2000:])
        est = {}
        tv, evs, _ = drive_and_validate(ctx, tp, binp, open(sp).read(), [json.loads(l) for l in open(op)], "evict", 3, evict=True, bulk=95000, stats=est)
        traces_validated += tv
        events_validated += evs
        ctx.cov["eviction_tier"] = {"max_pool": est.get("max_pool"), "events": evs, "submissions_that_shrank_the_pool": est.get("replacements", 0)}
        if not est.get("replacements"):
            raise Infra("eviction tier: the size limit never fired")
        ctx.log("eviction tier: %d traces, %d events, largest pool %s transactions" % (tv, evs, est.get("max_pool")))

        # a chain of 110 unconfirmed transactions and double spends that replace more than 100 of them at once
        d = os.path.join(ctx.scratch, "longchain")
        os.makedirs(d, exist_ok=True)
        sp, op = os.path.join(d, "scen.json"), os.path.join(d, "ops.ndjson")
        p = ctx.run([binp, "gen", "-seed", str(ctx.seed * 1000 + 998), "-ntx", "20", "-traces", "6", "-ops", "0", "-longchain", "110",
                     "-scenario", sp, "-opsout", op], timeout=600)
        if p.returncode != 0:
            raise Infra("mempool gen failed: " + p.stderr[-2000:])
        lst = {}
        tv, evs, _ = drive_and_validate(ctx, tp, binp, open(sp).read(), [json.loads(l) for l in open(op)], "longchain", 6, stats=lst)
        traces_validated += tv
        events_validated += evs
        ctx.cov["long_chain_tier"] = {k: lst.get(k) for k in ("max_pool", "replacements_with_descendants", "Submit:accepted", "Submit:refused")}
        ctx.log("long-chain tier: %d traces, %d events, largest pool %s transactions" % (tv, evs, lst.get("max_pool")))

    # ---- 5. binding self-test: corrupted recordings must be rejected, by the right invariant, at the right event
    if not ctx.violations:
        selftest(ctx, tp, first_random)

    ctx.level = "model_checking"
    ctx.cov.update({"states": states, "transitions": transitions, "traces_validated_against_impl": traces_validated,
                    "events_validated": events_validated, "generated_operation_sequences": gen_sequences,
                    "recorded_event_kinds": stats, "exhaustive": True, "universes": FAMS, "mc_bounds": dict(zip(("blocks", "undo", "foreign_txs"), bounds)),
                    "rule": "TLC BFS over Mempool with three 6-transaction universes; operation sequences of every transition of a bounded model "
                            "and seeded random histories performed on client/txpool over a real chain, every recording validated by TraceMempool"})
    ctx.assumptions += [
        "submissions follow the client's protocol: NeedThisTxExt before HandleNetTx, DeleteRejectedByIdx + NeedThisTxExt before SubmitLocalTx, BlockCommitInProgress around block commits",
        "trusted / own transactions carry valid scripts (the pool does not verify them)",
        "valid spends are anyone-can-spend P2SH/P2WSH scripts or signed with gocoin's own signer (script semantics are C01-C03)",
        "sigop costs are compared with the driver's own count from the transaction bytes and the spent scripts; blocks from the listing are cut on the pool's recorded weight and sigop cost (as client/rpcapi does) and delivered with full script checks",
        "expiry is reached through the verif-tagged setter of nextTxsPoolExpire and by ageing Lastseen; eviction only in the thorough tier",
        "policy (fee floor, RBF rules, which orphan is dropped, what expires) is not constrained"]


def selftest(ctx, tp, res):
    if not res:
        raise Infra("self-test: no accepted random recording to corrupt")
    v, traces = res[0]
    cases = []
    for tr in traces:
        evs = [json.loads(l) for l in tr["events"]]
        for k, e in enumerate(evs):
            o = e.get("obs")
            if not o or not o["pool"]:
                continue
            if not any(c[0] == "FeeExact" for c in cases):
                m = copy.deepcopy(e)
                m["obs"]["pool"][0]["fee"]["e"] += 1
                cases.append(("FeeExact", tr, k, m))
            if not any(c[0] == "IndexesAgree" for c in cases) and len(o["spent"]) > 1:
                m = copy.deepcopy(e)
                m["obs"]["spent"].pop()
                cases.append(("IndexesAgree", tr, k, m))
            if not any(c[0] == "ParentsBeforeChildren" for c in cases) and o["haslst"] and e["ev"] != "Deliver":
                lst = o["lst"]
                for a in range(len(lst)):
                    for b in range(a + 1, len(lst)):
                        if any(i["tx"] == lst[a] for i in v.scn[lst[b]]["ins"]):
                            m = copy.deepcopy(e)
                            m["obs"]["lst"][a], m["obs"]["lst"][b] = lst[b], lst[a]
                            cases.append(("ParentsBeforeChildren", tr, k, m))
                            break
                    else:
                        continue
                    break
        if len(cases) == 3:
            break
    if len(cases) < 3:
        raise Infra("self-test: the random recordings offer no place for the %d corruptions" % (3 - len(cases)))

    def one(case, k):
        inv, tr, idx, mut = case
        path = os.path.join(ctx.scratch, "selftest-%d.ndjson" % k)
        with open(path, "w") as f:
            f.write('{"ev":"Reset"}\n')
            for l in tr["events"][:idx]:
                f.write(l + "\n")
            f.write(json.dumps(mut) + "\n")
            for l in tr["events"][idx + 1:idx + 3]:
                f.write(l + "\n")
        got, line, r = validate(tp, ctx, path, v.model, v.evict)
        if got != inv or line != idx + 2:
            raise Infra("binding self-test failed: corrupted recording (%s at line %d) gave %s at %s" % (inv, idx + 2, got, line))
        return True
    par(one, cases, 3)
    ctx.cov["selftest"] = [c[0] for c in cases]


def replay_cmd(ctx, path):
    j = json.load(open(path))
    rp = j["replay"]
    binp = ctx.build("mempool")
    tp = TlcPool(ctx)
    found = []
    ctx.violation = lambda sig, rp_, what="": found.append((sig, what)) or True      # no new replay files
    drive_and_validate(ctx, tp, binp, json.dumps(rp["scenario"]), [rp["ops"]], "replay", 1, evict=rp.get("evict", False), bulk=rp.get("bulk", 0), sigops=rp.get("sigops", 0))
    for sig, what in found:
        print("reproduced:", sig, "-", what[:600])
    return 1 if found else 0
