"""C19 - the embedded key-value store (lib/others/qdb) behaves as a durable map.

spec/Qdb.tla   model of qdb: index map + pending set + sequence numbers + <seq>.dat / qdbidx.0 / qdbidx.1 / qdbidx.log;
               every file operation of sync(), defrag(), checklogfile(), writedatfile(), cleanupold(), NewDBidx() is a step,
               Crash may strike between any two.
  1. TLC, exhaustive, several option sets: MapEquivalence, NoDanglingRef, ReopenNeverFails, PendingCovers,
     DurableAfterReopen (the repaired design); the design "as the code stands" (FixNoCache / FixLogHdr = FALSE) must be refuted
  2. G->R: every completed API transition of bounded models (QdbGen) + simulated deeper behaviours are replayed on the
     real qdb.DB (worker subprocesses: the store exits / panics when it breaks); Get / Browse / Count / Defrag results and
     the contents after every reopen are compared
  3. R->V: seeded random histories of the real store (values of 0..64 KiB, all flags, both modes, abandoned processes)
     with the hook trace of every file operation AND the directory state at every hook (which files exist, their sizes,
     FINI complete or not) are validated by TraceQdb, all invariants evaluated in every state
  4. fault enumeration: workloads of several processes; for every (process, hook, n) reached the run is repeated with a
     SIGKILL at that hook; the event stream (calls, hooks, Crash, recovery, later processes) must be a behaviour of Qdb -
     i.e. the recovered contents are exactly what Qdb's Reopen computes from the files the crash left, and
     DurableAfterReopen / MapEquivalence hold on it
  5. binding self-tests: a corrupted prediction, a corrupted observation, a dropped hook must each be rejected
"""
import json, os, re, random
from vf import Infra

DEF = dict(KEYS="1,2", VALS="1,2", MAXPENDING=1, MAXPENDINGNOSYNC=2, DEFRAGPERC=50, FORCEDPERC=300,
           VOLMODES="FALSE", LOADMODES="TRUE", PUTFLAGS="0", BROWSERES="", ALLRES="", APPLYRES="",
           MAXOPS=4, MAXCRASH=1, MAXREOPEN=3, FIXNOCACHE="TRUE", FIXLOGHDR="TRUE")


def defs(**kw):
    d = dict(DEF)
    d.update(kw)
    return d


def S(*xs):
    return ",".join('"%s"' % x for x in xs)


def opts_for(d, salt, vlen=None):
    keys = [int(x) for x in str(d["KEYS"]).split(",")]
    vals = [int(x) for x in str(d["VALS"]).split(",")]
    vl = vlen or {v: 8 * v for v in vals}
    return {"keys": keys, "vlen": {str(v): vl[v] for v in vals}, "vlenseq": [vl[v] for v in sorted(vals)],
            "maxpending": int(d["MAXPENDING"]), "maxpendingnosync": int(d["MAXPENDINGNOSYNC"]),
            "defragperc": int(d["DEFRAGPERC"]), "forcedperc": int(d["FORCEDPERC"]), "salt": salt}


def norm(s):
    s = re.sub(r"/\S*/", "", s)
    s = re.sub(r"0x[0-9a-f]+", "X", s)
    s = re.sub(r"\d+", "N", s)
    return s


def death_signature(text):
    """stable shape of a process death inside the store: the qdb frames of the panic, or the exit message"""
    frames = re.findall(r"lib/others/qdb\.(?:\(\*?\w+\)\.)?(\w+)", text)
    if frames:
        out = []
        for f in frames:
            if f not in out:
                out.append(f)
        return "C19:died:" + "<".join(out[:2])      # innermost two frames of the store, e.g. Slice<sync
    if "00000000.dat not found" in text:
        return "C19:died:file 00000000.dat not found"       # a record that was never written is read from disk
    m = re.search(r"(file \S+ not found|Database corrupt[^|]*|panic: [^|]*)", text)
    return "C19:died:" + norm(m.group(1) if m else text)[:80].strip()


def signature(what):
    if "killed the process" in what or what.startswith("died:") or what.startswith("panic:"):
        return death_signature(what)
    return "C19:" + norm(what)[:80]


# ------------------------------------------------------------------------------------------------ G->R
def replay(ctx, binp, lines_path, o, tag, maxfail=3):
    p = ctx.run([binp, "replay", "-in", lines_path, "-opts", json.dumps(o), "-workers", "12",
                 "-dir", os.path.join(ctx.scratch, "rp-" + tag), "-maxfail", str(maxfail)], timeout=3000)
    if p.returncode != 0:
        raise Infra("replay driver failed: " + p.stderr[-2000:])
    fails, summary = [], None
    for ln in p.stdout.splitlines():
        if not ln.startswith("{"):
            continue
        j = json.loads(ln)
        if j.get("summary"):
            summary = j
        elif not j.get("ok", True):
            fails.append(j)
    if summary is None:
        raise Infra("replay driver gave no summary")
    return summary, fails


def export(ctx, d, tag, simulate=None, depth=None, timeout=2400):
    r = ctx.tlc("QdbGen", "Qdb_gen", workers=1, defines=d, simulate=simulate, depth=depth, timeout=timeout)
    if not r.ok:
        r.require_ok("export " + tag)
    path = os.path.join(ctx.scratch, "lines-%s.json" % tag)
    n = 0
    with open(path, "w") as f:
        for s in r.lines("VFT"):
            f.write(s + "\n")
            n += 1
    return r, path, n


def report_replay_fails(ctx, fails, o):
    for f in fails:
        ctx.violation(signature(f["what"]), {"kind": "line", "opts": o, "line": f.get("line"), "step": f.get("step")}, f["what"])


# ------------------------------------------------------------------------------------------------ trace validation
def tlc_validate(ctx, trace_path, o, fixed=True):
    d = dict(KEYS=",".join(map(str, o["keys"])), VALS=",".join(str(i + 1) for i in range(len(o["vlenseq"]))),
             VLENCODES=",".join(str((i + 1) * 100000 + n) for i, n in enumerate(o["vlenseq"])),
             MAXPENDING=o["maxpending"], MAXPENDINGNOSYNC=o["maxpendingnosync"], DEFRAGPERC=o["defragperc"],
             FORCEDPERC=o["forcedperc"], FIXNOCACHE="TRUE" if fixed else "FALSE", FIXLOGHDR="TRUE" if fixed else "FALSE",
             # the diagnosis run (design as the code stands) only uses what is bound to an observation
             INVS="MapEquivalence NoDanglingRef ReopenNeverFails PendingCovers" if fixed else "ReopenNeverFails")
    r = ctx.tlc("TraceQdb", "Qdb_trace", workers=1, defines=d, timeout=2400,
                files={"trace.ndjson": trace_path})
    hw, lastl = None, None
    for line in open(r.outpath, errors="replace"):
        if "VFREJECT" in line:
            m = re.search(r"VFREJECT\", (\d+)", line)
            if m:
                hw = int(m.group(1))
        m = re.match(r"/\\ l = (\d+)", line)
        if m:
            lastl = int(m.group(1))
    if r.ok:
        return True, None, None, r
    if r.invariant:
        # the state that breaks the property is the one reached by consuming event l-1
        return False, (lastl - 1) if lastl else None, r.invariant, r
    if hw is None:
        raise Infra("trace validation run broke\n" + r.tail)
    return False, hw, None, r


def split_runs(lines):
    runs, cur = [], None
    for i, l in enumerate(lines):
        if '"ev":"Reset"' in l:
            cur = [i, i]
            runs.append(cur)
        if cur is not None:
            cur[1] = i
    return runs


def validate_all(ctx, trace_path, o, kind, meta, max_rounds=12):
    """Validate a concatenation of runs against the repaired design. A rejected run is reported (with the diagnosis of the
    design 'as the code stands' when that one follows the code), removed, and validation continues.
    Returns (#runs accepted, #runs rejected, distinct states)."""
    lines = open(trace_path).read().splitlines()
    rejected, states = 0, 0
    # runs in which the store killed the process need no model: report and set aside
    for a, b in reversed(split_runs(lines)):
        dead = [json.loads(l) for l in lines[a:b + 1] if '"ev":"Died"' in l]
        if dead:
            tag = json.loads(lines[a]).get("tag", "")
            ctx.violation(death_signature(dead[0].get("tag", "")), dict(meta, kind=kind, opts=o, tag=tag, trace=lines[a:b + 1][-80:]),
                          "%s: the store killed the process: %s" % (tag, dead[0].get("tag", "")))
            rejected += 1
            lines = lines[:a] + lines[b + 1:]
    if not lines:
        return 0, rejected, states, None
    for rnd in range(max_rounds):
        p = os.path.join(ctx.scratch, "%s-round%d.ndjson" % (kind, rnd))
        open(p, "w").write("\n".join(lines) + "\n")
        acc, hw, inv, r = tlc_validate(ctx, p, o)
        if acc:
            states += r.distinct or 0
            return len(split_runs(lines)), rejected, states, p
        if hw is None or hw < 1 or hw > len(lines):
            raise Infra("cannot locate the rejected event\n" + r.tail)
        runs = split_runs(lines)
        a, b = next((a, b) for a, b in runs if a <= hw - 1 <= b)
        run = lines[a:b + 1]
        ev = json.loads(lines[hw - 1])
        tag = json.loads(run[0]).get("tag", "")
        # diagnosis with the design as the code stands
        p1 = os.path.join(ctx.scratch, "%s-diag%d.ndjson" % (kind, rnd))
        open(p1, "w").write("\n".join(run) + "\n")
        acc1, hw1, inv1, r1 = tlc_validate(ctx, p1, o, fixed=False)
        where = re.sub(r"#\d+", "", tag.split("crash at ")[-1]) if "crash at " in tag else "history"
        if acc1 and ev["ev"] != "Died" and not inv:
            # the run is a behaviour of the design as the code stands (a named, reported deviation) and no property is
            # violated on it: not a violation of C19 by itself (the runs where the deviation does harm are reported)
            ctx.log("%s: follows the design as the code stands (FixNoCache/FixLogHdr = FALSE), no property violated on this run" % tag)
            ctx.cov["runs_following_unrepaired_design"] = ctx.cov.get("runs_following_unrepaired_design", 0) + 1
            lines = lines[:a] + lines[b + 1:]
            if not lines:
                return 0, rejected, states, None
            continue
        if ev["ev"] == "Died":
            what = "%s: the store killed the process: %s" % (tag, ev.get("tag", ""))
            sig = death_signature(ev.get("tag", ""))
        elif inv:
            what = "%s: %s violated on the recorded run (event %d: %s)" % (tag, inv, hw - a, ev["ev"])
            sig = "C19:%s:%s" % (where, inv)
        elif inv1 == "TDurableAfterReopen" and hw1 and json.loads(run[hw1 - 1])["ev"] == "open_end" and json.loads(run[hw1 - 1])["cont"]:
            # the recovered contents were observed (walk function of NewDBExt) and are outside the allowed set
            what = "%s: the run follows the design as the code stands and violates %s (event %d); the repaired design rejects event %d (%s)" % (
                tag, inv1, (hw1 or 0), hw - a, ev["ev"])
            sig = "C19:%s:%s" % (where, inv1.lstrip("T"))
        elif not acc1 and hw1 is not None and json.loads(run[hw1 - 1])["ev"] == "Died":
            e1 = json.loads(run[hw1 - 1])
            what = "%s: the store killed the process: %s" % (tag, e1.get("tag", ""))
            sig = death_signature(e1.get("tag", ""))
        else:
            what = "%s: recorded run is not a behaviour of Qdb at event %d: %s" % (tag, hw - a, json.dumps({k: v for k, v in ev.items() if v not in (0, -9, [], False, "")}))
            sig = "C19:%s:not-a-behaviour:%s" % (where, ev["ev"])
        ctx.violation(sig, dict(meta, kind=kind, opts=o, tag=tag, rejected_event=hw - a, trace=run[:hw - a + 3][-80:], tlc=r.tail[-1500:]), what)
        rejected += 1
        if tag.endswith(" baseline"):
            # the undisturbed run of the workload already deviates: its crash runs share the deviation
            ctx.log("baseline run of %s rejected: crash runs of this workload not evaluated" % tag.split()[0])
            return 0, rejected, states, None
        lines = lines[:a] + lines[b + 1:]
        if not lines:
            return 0, rejected, states, None
    raise Infra("more than %d rejected runs in one %s trace file: giving up (violations recorded so far stand)" % (max_rounds, kind))


# ------------------------------------------------------------------------------------------------ workloads
WL1 = [
    [dict(a="Open", b2=True), dict(a="Put", k=1, v=1), dict(a="Put", k=2, v=2), dict(a="Sync"), dict(a="Put", k=1, v=2),
     dict(a="Del", k=2), dict(a="Put", k=3, v=4), dict(a="Defrag", b1=True), dict(a="Put", k=2, v=1), dict(a="Close")],
    [dict(a="Open", b2=True), dict(a="Get", k=1), dict(a="Put", k=3, v=1), dict(a="Put", k=1, v=4), dict(a="Close")],
    [dict(a="Open", b2=True), dict(a="Get", k=1), dict(a="Get", k=2), dict(a="Get", k=3), dict(a="Put", k=2, v=2),
     dict(a="Defrag", b1=True), dict(a="Close")],
    [dict(a="Open", b2=True), dict(a="BrowseAll", k=1), dict(a="Close")],
]
# volatile session in the middle, lazy loading, automatic defragmentation (forcedperc is low in its option set)
WL2 = [
    [dict(a="Open", b2=False), dict(a="Put", k=1, v=3), dict(a="Put", k=2, v=1), dict(a="Put", k=1, v=1), dict(a="Put", k=1, v=2),
     dict(a="Del", k=2), dict(a="Put", k=3, v=2), dict(a="Close")],
    [dict(a="Open", b1=True, b2=True), dict(a="Put", k=2, v=4), dict(a="Del", k=1), dict(a="Get", k=3), dict(a="Close")],
    [dict(a="Open", b2=False), dict(a="Get", k=2), dict(a="Put", k=1, v=1), dict(a="NoSync"), dict(a="Put", k=3, v=3), dict(a="Sync"),
     dict(a="Defrag", b1=False), dict(a="Put", k=2, v=2)],     # ends without Close
    [dict(a="Open", b2=True), dict(a="Put", k=1, v=4), dict(a="Close")],
    [dict(a="Open", b2=True), dict(a="Browse", k=1), dict(a="Close")],
]


def random_workload(rng, nphases, keys, vals):
    phases = []
    for p in range(nphases):
        ops = [dict(a="Open", b1=rng.random() < 0.2, b2=rng.random() < 0.7)]
        for i in range(rng.randint(3, 8)):
            x = rng.random()
            if x < 0.45:
                ops.append(dict(a="Put", k=rng.choice(keys), v=rng.choice(vals), fl=rng.choice([0, 0, 0, 1])))
            elif x < 0.6:
                ops.append(dict(a="Del", k=rng.choice(keys)))
            elif x < 0.7:
                ops.append(dict(a="Sync"))
            elif x < 0.8:
                ops.append(dict(a="Defrag", b1=rng.random() < 0.6))
            elif x < 0.9:
                ops.append(dict(a="Get", k=rng.choice(keys)))
            else:
                ops.append(dict(a="NoSync"))
        if rng.random() < 0.75:
            ops.append(dict(a="Close"))
        phases.append(ops)
    phases.append([dict(a="Open", b2=True), dict(a="BrowseAll", k=keys[0]), dict(a="Close")])
    return phases


def crash_enum(ctx, binp, wl, o, name, maxruns=0):
    out = os.path.join(ctx.scratch, "crash-%s.ndjson" % name)
    if os.path.exists(out):
        os.remove(out)
    p = ctx.run([binp, "crash", "-out", out, "-opts", json.dumps(o), "-workload", json.dumps(wl),
                 "-dir", os.path.join(ctx.scratch, "cr-" + name), "-name", name, "-max", str(maxruns), "-seed", str(ctx.seed)], timeout=3000)
    if p.returncode != 0:
        raise Infra("crash driver failed: " + p.stderr[-2000:])
    summ = json.loads(p.stdout.strip().splitlines()[-1])
    if summ["not_reached"]:
        raise Infra("crash enumeration %s: %d crash points were not reached on the re-run (non-deterministic hook sequence)" % (name, summ["not_reached"]))
    return out, summ


# ------------------------------------------------------------------------------------------------ the check
def run(ctx):
    quick = ctx.tier == "quick"
    binp = ctx.build("qdb")
    states = transitions = 0
    replayed = 0
    traces_validated = 0
    crash_runs = 0
    hooknames = set()

    # ---- 1. the design, exhaustively (the repaired design must hold)
    flagset = dict(PUTFLAGS="0,2", BROWSERES=S("none", "NC"), ALLRES=S("YB"), APPLYRES=S("NB"))
    if quick:
        mcsets = [defs(MAXOPS=5),
                  defs(MAXOPS=4, MAXREOPEN=2, VOLMODES="TRUE,FALSE", MAXPENDING=0, MAXPENDINGNOSYNC=1, FORCEDPERC=100),
                  defs(MAXOPS=4, MAXCRASH=0, LOADMODES="TRUE,FALSE", **flagset)]
    else:
        mcsets = [defs(MAXOPS=6),
                  defs(MAXOPS=5, MAXCRASH=2, VALS="1,2,3"),
                  defs(MAXOPS=5, VOLMODES="TRUE,FALSE", LOADMODES="TRUE,FALSE", MAXPENDING=0, MAXPENDINGNOSYNC=1, FORCEDPERC=100),
                  defs(MAXOPS=4, VOLMODES="TRUE,FALSE", LOADMODES="TRUE,FALSE", MAXPENDING=0, MAXPENDINGNOSYNC=1, FORCEDPERC=100,
                       PUTFLAGS="0,2", BROWSERES=S("none", "NC"), ALLRES=S("YB"), APPLYRES=S("NB"))]
    for d in mcsets:
        r = ctx.tlc("Qdb", "Qdb_mc", defines=d, timeout=6000)
        if r.invariant:
            raise Infra("design-level counterexample in Qdb (%s) - model and code must be re-examined\n%s" % (r.invariant, r.tail))
        r.require_ok("mc")
        states += r.distinct
        transitions += r.generated
    # the design as the code stands must be refuted (the invariants bite; these are the reported defects)
    ref = []
    r = ctx.tlc("Qdb", "Qdb_mc", defines=defs(MAXOPS=4, FIXLOGHDR="FALSE"), timeout=1200)
    if r.invariant != "DurableAfterReopen":
        raise Infra("sanity: the design with loadlog() accepting a header-less log should violate DurableAfterReopen, TLC says %s" % r.invariant)
    ref.append("FixLogHdr=FALSE violates " + r.invariant)
    r = ctx.tlc("Qdb", "Qdb_mc", defines=defs(MAXOPS=4, MAXCRASH=0, FIXNOCACHE="FALSE", PUTFLAGS="0,2", BROWSERES=S("none")), timeout=1200)
    if not r.invariant:
        raise Infra("sanity: the design with freerec() dropping unwritten data should violate an invariant, TLC found none")
    ref.append("FixNoCache=FALSE violates " + r.invariant)
    ctx.cov["refuted_variants"] = ref

    # ---- 2. every completed API transition of bounded models, replayed on the real store
    if quick:
        gensets = [("A", defs(MAXOPS=4, MAXREOPEN=2, PUTFLAGS="0,1", BROWSERES=S("none"))),
                   ("B", defs(MAXOPS=3, MAXREOPEN=2, **flagset))]
    else:
        gensets = [("A", defs(MAXOPS=5, MAXREOPEN=2, LOADMODES="TRUE,FALSE", PUTFLAGS="0,1", BROWSERES=S("none"))),
                   ("B", defs(MAXOPS=4, MAXREOPEN=2, LOADMODES="TRUE,FALSE", PUTFLAGS="0,1,2", BROWSERES=S("none", "NB", "NC"),
                              ALLRES=S("none", "YB"), APPLYRES=S("NB", "YB", "NC", "YC"))),
                   ("C", defs(MAXOPS=4, MAXREOPEN=3, VOLMODES="TRUE,FALSE", MAXPENDING=0, MAXPENDINGNOSYNC=1, FORCEDPERC=100))]
    first_lines = None
    for tag, d in gensets:
        r, path, n = export(ctx, dict(d, EMITAT=0), tag)
        if n == 0:
            raise Infra("export %s produced nothing" % tag)
        o = opts_for(d, ctx.seed)
        summ, fails = replay(ctx, binp, path, o, tag)
        replayed += summ["lines"]
        ctx.log("replayed %d transitions (%d calls) of gen set %s: %d failures (%d process deaths)" % (summ["lines"], summ["steps"], tag, summ["fail"], summ["died"]))
        report_replay_fails(ctx, fails, o)
        if first_lines is None:
            first_lines = (path, o)
            with open(path) as fh:
                for i, l in enumerate(fh):
                    if i in (40, 4000):
                        ctx.sample(json.loads(l))

    # ---- 2b. simulated deeper behaviours over more keys / values / all flags / both modes
    simsets = [("S1", defs(KEYS="1,2,3", VALS="1,2,3", MAXOPS=14, MAXREOPEN=4, LOADMODES="TRUE,FALSE", PUTFLAGS="0,1,2,3",
                           BROWSERES=S("none", "NB", "NC"), ALLRES=S("none", "YB", "YC"), APPLYRES=S("NB", "YB", "NC", "YC"))),
               ("S2", defs(KEYS="1,2,3", VALS="1,2,3", MAXOPS=14, MAXREOPEN=5, VOLMODES="TRUE,FALSE", LOADMODES="TRUE,FALSE",
                           MAXPENDING=0, MAXPENDINGNOSYNC=2, FORCEDPERC=120, DEFRAGPERC=30, PUTFLAGS="0,1", BROWSERES=S("none")))]
    for tag, d in simsets:
        calls = 12
        num = 250 if quick else 3000
        r, path, n = export(ctx, dict(d, EMITAT=calls), tag, simulate="num=%d" % num, depth=calls * 16, timeout=2400)
        if n == 0:
            raise Infra("simulation export %s produced nothing\n%s" % (tag, r.tail))
        o = opts_for(d, ctx.seed)
        summ, fails = replay(ctx, binp, path, o, tag)
        replayed += summ["lines"]
        ctx.log("replayed %d simulated behaviours of set %s: %d failures (%d process deaths)" % (summ["lines"], tag, summ["fail"], summ["died"]))
        report_replay_fails(ctx, fails, o)

    # ---- 3. record -> validate
    big = {1: 8, 2: 16, 3: 0, 4: 300, 5: 65536, 6: 1}
    recsets = [("R1", dict(KEYS="1,2,3", VALS="1,2,3,4", MAXPENDING=1, MAXPENDINGNOSYNC=3, DEFRAGPERC=50, FORCEDPERC=300), {v: big[v] for v in (1, 2, 3, 4)}),
               ("R2", dict(KEYS="1,2,3,4", VALS="1,2,3,4,5,6", MAXPENDING=0, MAXPENDINGNOSYNC=2, DEFRAGPERC=20, FORCEDPERC=90), big),
               ("R3", dict(KEYS="1,2,3,4,5", VALS="1,2,3,4,5,6", MAXPENDING=3, MAXPENDINGNOSYNC=4, DEFRAGPERC=50, FORCEDPERC=200), big)]
    ntr = 25 if quick else 200
    good_trace = None
    for tag, d, vl in recsets:
        o = opts_for(d, ctx.seed, vlen=vl)
        tr = os.path.join(ctx.scratch, "trace-%s.ndjson" % tag)
        p = ctx.run([binp, "record", "-out", tr, "-opts", json.dumps(o), "-seed", str(ctx.seed * 7 + len(tag)),
                     "-traces", str(ntr), "-ops", "45", "-dir", os.path.join(ctx.scratch, "rec-" + tag)], timeout=2400)
        if p.returncode != 0:
            raise Infra("record driver failed: " + p.stderr[-2000:])
        nev = sum(1 for _ in open(tr))
        ok_runs, bad_runs, st, accp = validate_all(ctx, tr, o, "record-" + tag, {"seed": ctx.seed * 7 + len(tag)})
        traces_validated += ok_runs
        states += st
        ctx.log("trace set %s: %d events, %d runs accepted, %d rejected" % (tag, nev, ok_runs, bad_runs))
        if good_trace is None and accp:
            good_trace = (accp, o)

    # ---- 4. fault enumeration: SIGKILL at every hook reached by each workload
    oc1 = opts_for(dict(KEYS="1,2,3", VALS="1,2,3,4", MAXPENDING=1, MAXPENDINGNOSYNC=3, DEFRAGPERC=50, FORCEDPERC=300), ctx.seed,
                   vlen={1: 8, 2: 16, 3: 0, 4: 300})
    oc2 = opts_for(dict(KEYS="1,2,3", VALS="1,2,3,4", MAXPENDING=0, MAXPENDINGNOSYNC=2, DEFRAGPERC=30, FORCEDPERC=100), ctx.seed,
                   vlen={1: 8, 2: 16, 3: 0, 4: 300})
    work = [("wl1", WL1, oc1, 0), ("wl2", WL2, oc2, 0)]
    rng = random.Random(ctx.seed * 1000003 + 19)
    for i in range(1 if quick else 10):
        work.append(("rnd%d" % i, random_workload(rng, rng.randint(2, 3), [1, 2, 3], [1, 2, 3, 4]), oc2 if i % 2 else oc1, 40 if quick else 0))
    good_crash = None
    for name, wl, o, mx in work:
        out, summ = crash_enum(ctx, binp, wl, o, name, mx)
        hooknames |= set(summ["hook_names"] or [])
        ok_runs, bad_runs, st, accp = validate_all(ctx, out, o, "crash-" + name, {"workload": wl})
        crash_runs += ok_runs
        states += st
        ctx.log("fault enumeration %s: %d hooks, %d runs (%d crash points), %d accepted, %d rejected" % (
            name, summ["hooks"], summ["runs"], summ["crash_points"], ok_runs, bad_runs))
        if good_crash is None and accp:
            good_crash = (accp, o)
        if name == "wl1":
            ctx.sample({"workload": name, "crash_points": summ["crash_points"], "hooks": summ["hook_names"]})
    allhooks = {"sync_begin", "dat_create", "dat_hdr", "sync_data", "log_create", "log_hdr", "log_append", "sync_end", "defrag_begin",
                "defrag_flush", "idx_create", "idx_write", "log_remove", "idx_remove", "dat_remove", "cleanup_end", "defrag_end",
                "close_end", "load_idx", "load_log", "open_end"}
    if not allhooks <= hooknames:
        raise Infra("fault enumeration never reached hooks %s - are the verif hooks of lib/others/qdb in place?" % sorted(allhooks - hooknames))

    # ---- 5. binding self-tests
    selftests(ctx, binp, first_lines, good_trace, good_crash)
    # ---- 6. the record layer on top of the store: client/peersdb (spec/PeersDB.tla)
    import c19_peers
    pr = c19_peers.stage(ctx)
    states += pr["states"]
    transitions += pr["transitions"]
    replayed += pr["replayed"]
    ctx.cov["peers_database"] = pr
    finish_cov(ctx, states, transitions, traces_validated, replayed, crash_runs)


def selftests(ctx, binp, first_lines, good_trace, good_crash):
    # 5a corrupted prediction must be rejected by the replay driver
    path, o = first_lines
    mut = os.path.join(ctx.scratch, "mut.json")
    done = 0
    with open(path) as f, open(mut, "w") as g:
        for l in f:
            j = json.loads(l)
            if done == 0 and j["last"]["a"] == "Get" and j["last"]["get"] > 0 and len(j["path"]) >= 3:
                j["last"]["get"] = j["last"]["get"] % 2 + 1
                done += 1
                g.write(json.dumps(j) + "\n")
            elif done == 1 and j["last"]["a"] == "Open" and j["last"]["b2"] and any(j["last"]["cont"]):
                j["last"]["cont"] = [0 for _ in j["last"]["cont"]]
                done += 1
                g.write(json.dumps(j) + "\n")
    if done == 2:
        summ, fails = replay(ctx, binp, mut, o, "mut")
        fails = [f for f in fails if "killed the process" not in f["what"]]
        if len(fails) != 2:
            raise Infra("binding self-test failed: %d of 2 corrupted predictions were rejected" % len(fails))
    else:
        raise Infra("binding self-test: no suitable exported lines")
    # 5b corrupted observation / dropped hook in a recorded history must be rejected by TLC at that event
    for what, src in (("record", good_trace), ("crash", good_crash)):
        if src is None:
            raise Infra("binding self-test: no accepted %s trace" % what)
        tr, o = src
        lines = open(tr).read().splitlines()[:4000]
        if what == "record":
            k = next(i for i, l in enumerate(lines) if '"ev":"Get"' in l and json.loads(l)["get"] > 0 and i > 30)
            j = json.loads(lines[k])
            j["get"] = j["get"] % len(o["vlenseq"]) + 1
            lines[k] = json.dumps(j)
        else:
            # the contents reported by the recovery after a SIGKILL
            c = next(i for i, l in enumerate(lines) if '"ev":"Crash"' in l and i > 200)
            k = next(i for i, l in enumerate(lines) if i > c and '"ev":"open_end"' in l and any(json.loads(l)["cont"]))
            j = json.loads(lines[k])
            j["cont"] = [(x % len(o["vlenseq"])) + 1 for x in j["cont"]]
            lines[k] = json.dumps(j)
        trm = os.path.join(ctx.scratch, "selftest-%s.ndjson" % what)
        open(trm, "w").write("\n".join(lines[:k + 3]) + "\n")
        acc, hw, inv, r = tlc_validate(ctx, trm, o)
        if acc or hw != k + 1 or inv:
            raise Infra("binding self-test failed: corrupted %s trace accepted=%s high-water=%s (expected %d) %s" % (what, acc, hw, k + 1, inv))
        if what == "record":
            # a file effect the specification does not have at this hook (directory projection)
            lines = open(tr).read().splitlines()[:4000]
            k = next(i for i, l in enumerate(lines) if '"ev":"sync_data"' in l and i > 30)
            j = json.loads(lines[k])
            j["log"] = [0, 0] if j["log"][0] else [1, 4]
            keep = lines[k]
            lines[k] = json.dumps(j)
            open(trm, "w").write("\n".join(lines[:k + 3]) + "\n")
            acc, hw, inv, r = tlc_validate(ctx, trm, o)
            if acc or hw != k + 1:
                raise Infra("binding self-test failed: history with a wrong directory state accepted=%s high-water=%s (expected %d)" % (acc, hw, k + 1))
            lines[k] = keep
            k = next(i for i, l in enumerate(lines) if '"ev":"log_append"' in l and i > 30)
            del lines[k]
            open(trm, "w").write("\n".join(lines[:k + 3]) + "\n")
            acc, hw, inv, r = tlc_validate(ctx, trm, o)
            if acc or hw != k + 1:
                raise Infra("binding self-test failed: history with a dropped hook accepted=%s high-water=%s (expected %d)" % (acc, hw, k + 1))


def finish_cov(ctx, states, transitions, traces_validated, replayed, crash_runs):
    ctx.level = "model_checking"
    ctx.cov.update({"states": states, "transitions": transitions,
                    "traces_validated_against_impl": traces_validated + replayed + crash_runs,
                    "replayed_transitions_and_behaviours": replayed, "recorded_traces_validated": traces_validated,
                    "crash_runs_validated": crash_runs, "exhaustive": True,
                    "rule": "TLC BFS over Qdb with the constants in checks/c19.py; every exported completed API transition replayed on "
                            "lib/others/qdb; SIGKILL at every hook reached by each workload, recovery validated against Qdb"})
    ctx.assumptions += [
        "crash = process death between two file operations: completed operations are durable, no torn writes, no power loss",
        "a buffered write (bufio < 1 MB) of defrag() / writedatfile() is one file operation",
        "value ids stand for pseudo-random byte strings of the configured lengths (0 .. 65536 bytes); keys are 64-bit values whose low 32 bits are large",
        "Go map iteration order inside sync() / defrag() / Browse is not observable and is left free",
        "flags (NO_BROWSE / NO_CACHE) are not required to survive a reopen: the reference map takes the recovered flags",
        "single client goroutine (calls are serialised by DB.Mutex anyway); uint32 sequence / position wrap-around not modelled",
    ]


def replay_cmd(ctx, path):
    j = json.load(open(path))
    rp = j["replay"]
    if rp.get("kind", "").startswith("peers-"):
        import c19_peers
        return c19_peers.replay_line(ctx, rp)
    binp = ctx.build("qdb")
    if rp.get("kind") == "line":
        p = os.path.join(ctx.scratch, "one.json")
        open(p, "w").write(json.dumps(rp["line"]) + "\n")
        summ, fails = replay(ctx, binp, p, rp["opts"], "rp")
        for f in fails:
            print("reproduced:", f["what"])
        return 1 if fails else 0
    if rp.get("kind", "").startswith("crash-") and "workload" in rp:
        name = rp["kind"][6:]
        out, summ = crash_enum(ctx, binp, rp["workload"], rp["opts"], name, 0)
        lines = open(out).read().splitlines()
        for a, b in split_runs(lines):
            if json.loads(lines[a]).get("tag") == rp["tag"]:
                p = os.path.join(ctx.scratch, "one.ndjson")
                open(p, "w").write("\n".join(lines[a:b + 1]) + "\n")
                acc, hw, inv, r = tlc_validate(ctx, p, rp["opts"])
                print("run %s: accepted=%s rejected_event=%s %s" % (rp["tag"], acc, hw, inv or ""))
                return 0 if acc else 1
        print("run not found:", rp["tag"])
        return 2
    if rp.get("kind", "").startswith("record-") and "seed" in rp:
        m = re.match(r"trace (\d+) seed", rp.get("tag", ""))
        if m:
            t = int(m.group(1))
            tr = os.path.join(ctx.scratch, "re-record.ndjson")
            p = ctx.run([binp, "record", "-out", tr, "-opts", json.dumps(rp["opts"]), "-seed", str(rp["seed"]),
                         "-traces", str(t + 1), "-ops", "45", "-dir", os.path.join(ctx.scratch, "rec-rp")], timeout=2400)
            lines = open(tr).read().splitlines()
            a, b = split_runs(lines)[t]
            run = lines[a:b + 1]
            if any('"ev":"Died"' in l for l in run):
                print("reproduced: the store killed the process:", [json.loads(l)["tag"] for l in run if '"ev":"Died"' in l][0][:300])
                return 1
            p1 = os.path.join(ctx.scratch, "one.ndjson")
            open(p1, "w").write("\n".join(run) + "\n")
            acc, hw, inv, r = tlc_validate(ctx, p1, rp["opts"])
            print("run %s: accepted=%s rejected_event=%s %s" % (rp["tag"], acc, hw, inv or ""))
            return 0 if acc else 1
    print("cannot replay this file: re-run the check with the same VERIF_SEED")
    return 2
