"""C18 - bytes from untrusted peers never crash or wedge the node.

spec/P2P.tla   one peer session of client/network: the wire grammar of every command, the payload classes derived
               from it, FetchMessage + the dispatch of OneConnection.Run, misbehaviour score and ban, and every
               handler as a lock program; HandlerReturnsClean, LockOrder
  1. TLC, exhaustive: the design (Defects = {}) over the whole class alphabet, a deep narrow run that reaches the ban,
     and the named defects of the current code switched on one at a time (each must be refuted: the invariants bite)
  2. G->R: every transition of the bounded model (every abstract session state x every payload class) is exported
     with the shortest message sequence that reaches it; the class alphabet and the grammars of the specification
     are compared with the concretiser's; every session is replayed on the REAL OneConnection.Run() of a harness
     node over a net.Pipe. Observed after each message: the recover() hook of Run (panic), every mutex of the held
     universe (TryLock / liveness probe), the barrier that proves the handler returned (time bound), process death.
     For messages whose effect the model determines (valid payloads, dispatch rules, frame header) outcome and
     session state are compared as well (a mismatch is model drift: exit 2, never a verdict).
  2b. "repeat until banned": every class the node answers with misbehaviour points is sent again and again until the
     score rule of the model (BanScore) predicts the ban, and once more; all locks probed after every message
  3. every violation is re-run alone in a fresh process before it is reported; the replay file holds the bytes
  4. the library entry points named by the property, with the same perturbation classes and seeded mutations, and
     script verification with an enumeration of witness shapes at the structural boundaries (harness/cmd/p2p/shapes.go)
  5. self-tests of the observer (injected leaked lock / panic event / stuck handler must be seen) and of the
     comparator (a corrupted prediction must be flagged)
"""
import json, os, re, collections, random
from vf import Infra

DEFECTS = ["VersionAgentLen", "CmpctSameSid", "BlkTxnNoColLock", "CmpctPrefilledIdx", "GetHeadersRecoverReturn", "InvCountWrap", "BlockTxCount", "CmpctTxSize", "GetBlockTxnIdx",
           "BlockTxnMissing", "EncFlagNoKey", "TeardownLockOrder"]
PEERS = dict(MAXPRE=1, MAXPOST=3, CMDS='"version","peersfull","addr","getaddr"', KINDS="")      # the peers database at its limit
PEERB = dict(MAXPRE=1, MAXPOST=5, CMDS='"version","cmpctblock","headers","idle","Bblock","Bheaders","blocktxn","block"', KINDS='"valid"')
IDLE = dict(MAXPRE=1, MAXPOST=5, CMDS='"version","headers","idle","blocktxn","blocktxn2","block","cmpctblock"', KINDS='"valid"')
ORPH = dict(MAXPRE=1, MAXPOST=4, CMDS='"version","txo1","txo2","cmpctblock4","sendcmpct"', KINDS='"valid"')
INIT = {"alive": True, "ver": False, "cmpct": 0, "auth": "no", "addrd": False, "ahr": False, "bip": False, "gd": False,
        "h1": "no", "h2": False, "mp": False, "pf": False, "o1": False, "o2": False}


def workers():
    return max(2, min(12, (os.cpu_count() or 4) - 2))


def ckey(c):
    return (c["cmd"], c["k"], c["f"])


def cname(c):
    return "%s/%s@%d" % (c["cmd"], c["k"], c["f"])


def project(st):
    """observed session state -> the variables of the specification"""
    if st is None:
        return None
    return {"alive": st["alive"], "ver": st["ver"], "cmpct": st["cmpct"],
            "auth": "ok" if st["authd"] else ("got" if st["auth"] else "no"),
            "addrd": st["addrd"], "ahr": st["ahr"], "bip": st["bip"], "gd": st.get("gd", False), "h1": st["h1"], "h2": st["h2"], "mp": st["mp"],
            "pf": st.get("pf", False), "o1": st.get("o1", False), "o2": st.get("o2", False)}


def frozen(d):
    return tuple(sorted(d.items()))


# ------------------------------------------------------------------ harness calls
def harness_json(ctx, binp, sub, tag):
    d = os.path.join(ctx.scratch, "h-" + tag)
    p = ctx.run([binp, sub, "-dir", d], timeout=300)
    if p.returncode != 0:
        raise Infra("p2p %s failed: %s" % (sub, p.stderr[-2000:]))
    return [json.loads(l) for l in p.stdout.split("\n") if l.startswith("{")]


def frames_of(ctx, binp, msgs):
    p = ctx.run([binp, "bytes", "-dir", os.path.join(ctx.scratch, "h-bytes"), "-seed", str(ctx.seed)],
                stdin=json.dumps({"id": 1, "msgs": msgs}) + "\n", timeout=120)
    for l in p.stdout.split("\n"):
        if l.startswith("{"):
            return json.loads(l).get("frames")
    return []


def replay(ctx, binp, sessions, tag, nworkers=None, msgms=20000, keep_bytes=False, selftest=None, timeout=3000, maxslow=40):
    """sessions: list of {"id", "msgs"}; returns {id: result}"""
    inp = os.path.join(ctx.scratch, "sess-%s.ndjson" % tag)
    with open(inp, "w") as f:
        for s in sessions:
            f.write(json.dumps({"id": s["id"], "msgs": s["msgs"]}) + "\n")
    argv = [binp, "replay", "-in", inp, "-dir", os.path.join(ctx.scratch, "rp-" + tag), "-seed", str(ctx.seed),
            "-workers", str(nworkers or workers()), "-msgms", str(msgms), "-maxslow", str(maxslow)]
    if keep_bytes:
        argv.append("-bytes")
    if selftest:
        argv += ["-selftest", selftest]
    p = ctx.run(argv, timeout=timeout)
    if p.returncode != 0:
        raise Infra("replay driver failed rc=%d: %s" % (p.returncode, p.stderr[-2000:]))
    res, summary = {}, None
    for ln in p.stdout.split("\n"):
        if not ln.startswith("{"):
            continue
        j = json.loads(ln)
        if j.get("summary"):
            summary = j
        else:
            res[j["id"]] = j
    if summary is None or (len(res) != len(sessions) and not summary.get("stopped_early")):
        raise Infra("replay driver: %d results for %d sessions" % (len(res), len(sessions)))
    for s in sessions:          # the driver stops early when it has seen many slow violations
        res.setdefault(s["id"], {"id": s["id"], "notrun": True, "steps": []})
    return res


FRAME = re.compile(r"github\.com/piotrnar/gocoin/([\w/]+\.[\w()*.]+?)\(")


def top_frame(what):
    for f in FRAME.findall(what or ""):
        if "Run.func1" in f or "others/verif" in f:
            continue
        return f
    return "?"


def run_callee(what):
    """the function OneConnection.Run() is in (from the goroutine dump of a stuck handler)"""
    for g in (what or "").split("\n\n"):
        fr = FRAME.findall(g)
        for i, f in enumerate(fr):
            if f.endswith("(*OneConnection).Run"):
                return fr[i - 1] if i > 0 else "Run(epilogue)"
    return "?"


def signature(r, sess):
    """stable identity of a violation: kind + innermost gocoin function (+ what stays locked)"""
    kind, what = r.get("viol"), r.get("what") or ""
    at = r.get("at") or 0
    step = (r.get("steps") or [{}] * at)[at - 1] if at and at <= len(r.get("steps") or []) else {}
    held = ",".join(step.get("held") or re.findall(r"locked[^:]*: ([\w., ]+)", what)[:1])
    cmd = sess["msgs"][at - 1]["cmd"] if at and at <= len(sess["msgs"]) else (sess["msgs"][-1]["cmd"] if sess["msgs"] else "teardown")
    cmd = re.sub(r"^(getheaders|getblocks)[A-Z]+$|^([a-z]+)\d$", lambda m: m.group(1) or m.group(2), cmd)   # the wire command of a further instance
    if kind == "crash":
        if "out of memory" in what:
            return "C18:oom:%s" % top_frame(what)
        m = re.search(r"panic: ([^\n]*)", what)
        return "C18:crash:%s:%s" % (top_frame(what), re.sub(r"[\d\[\]:x]+", "", m.group(1))[:50].strip() if m else "died")
    if kind == "panic":
        m = re.search(r"err=(.*?) stack=", what, re.S)
        err = re.sub(r"\s*[\[\d].*", "", m.group(1)) if m else ""
        return "C18:panic:%s:%s%s" % (top_frame(what), err[:50], (":held=" + held) if held else "")
    if kind == "lockheld":
        return "C18:lockheld:%s:%s" % (cmd, held)
    if kind == "timeout":
        return "C18:timeout:%s:%s%s" % (cmd, run_callee(what), (":held=" + held) if held else "")
    return "C18:%s:%s" % (kind, cmd)


# ------------------------------------------------------------------ TLC
def mc(ctx, defines, what, expect=None):
    d = dict(MAXPRE=1, MAXPOST=2, CMDS="", KINDS="", DEFECTS="")
    d.update(defines)
    r = ctx.tlc("P2P", "P2P_mc", workers=workers(), defines=d, timeout=1500)
    if expect:
        if r.invariant != expect:
            raise Infra("sanity: the model with defect %s should violate %s, TLC reports %s\n%s" % (what, expect, r.invariant, r.tail[-1500:]))
        return r
    if r.invariant:
        raise Infra("design-level counterexample in P2P (%s, %s)\n%s" % (r.invariant, what, r.tail[-3000:]))
    r.require_ok(what)
    return r


def export(ctx, cfg, defines, tag):
    r = ctx.tlc("P2PGen", cfg, workers=1, defines=defines, timeout=2400)
    r.require_ok("export " + tag)
    lines = [json.loads(s) for s in r.lines("VFT")]
    if len(lines) != r.generated - 1:
        raise Infra("export %s: %d lines for %s generated states" % (tag, len(lines), r.generated))
    return r, lines


def norm(out):
    """whether a handler adds misbehaviour points is the code's free choice: only 'goes on' vs 'disconnected' is compared"""
    return "ok" if out in ("ok", "ignored", "penalised") else out


def repeat_sessions(sessions, res, start_id, ban=1000, maxrep=22):
    """'repeat until banned' skeleton: every class the node answers with misbehaviour points is repeated until the
    score rule of the model (BanScore) predicts the ban, and once more. Before the handshake one class per command."""
    best = {}
    for s in sessions:
        r = res[s["id"]]
        steps = r.get("steps") or []
        if r.get("viol") or r.get("notrun") or len(steps) != len(s["msgs"]) or steps[-1].get("out") != "penalised":
            continue
        if not s["pre"]["ver"] and s["last"]["k"] != "valid" and s["last"]["cmd"] != "version":
            continue
        after = (steps[-1].get("st") or {}).get("score", 0)
        before = (steps[-2].get("st") or {}).get("score", 0) if len(steps) > 1 else 0
        d = after - before
        if d <= 0 or after >= ban:
            continue
        key = (s["pre"]["ver"], ckey(s["last"]))
        if key not in best or len(s["msgs"]) < len(best[key][0]["msgs"]):
            best[key] = (s, before, d)
    out = []
    for key in sorted(best, key=str):
        s, before, d = best[key]
        need = -(-(ban - before) // d)            # the repetition that takes the score to the threshold
        reps = min(need + 1, maxrep)
        out.append({"id": start_id + len(out), "msgs": s["msgs"][:-1] + [s["last"]] * reps, "path_len": len(s["msgs"]) - 1,
                    "ban_at": len(s["msgs"]) - 1 + need if need <= reps else None, "delta": d, "last": s["last"], "pre": s["pre"]})
    return out


def sessions_of(lines, start_id):
    """group exported transitions by message sequence; one session per sequence"""
    by = collections.OrderedDict()
    for ln in lines:
        key = tuple(ckey(c) for c in ln["path"]) + (ckey(ln["last"]),)
        s = by.get(key)
        if s is None:
            s = by[key] = {"msgs": ln["path"] + [ln["last"]], "pre": ln["pre"], "det": ln["det"], "preds": set(), "last": ln["last"]}
        s["preds"].add((norm(ln["out"]), frozen(ln["st"])))
    out = []
    for i, s in enumerate(by.values()):
        s["id"] = start_id + i
        out.append(s)
    return out


def tick_variants(d):
    """OneConnection.Tick runs on the wall clock: when all headers are in and B1 is announced but not in progress it may
    have asked for the block (plain getdata) at any moment"""
    out = [d]
    if d["ver"] and d["ahr"] and d["h1"] == "b2g" and not d["bip"] and not d["gd"]:
        out.append(dict(d, gd=True))
    return out


def compare(sess, r):
    """-> None (agrees / not comparable) or a description of the disagreement between model and node"""
    steps = r.get("steps") or []
    n = len(sess["msgs"])
    if r.get("viol") or r.get("notrun") or len(steps) != n or steps[-1].get("out") == "skipped":
        return None
    pre = project(steps[n - 2].get("st")) if n > 1 else dict(INIT)
    if pre is None or pre not in tick_variants(sess["pre"]):
        return "diverged"
    if not sess["det"]:
        return None
    st = project(steps[-1].get("st"))
    if st is None:
        return None
    if steps[-1].get("obs"):          # Run() left without its teardown: for the model that is "disconnected"
        st["alive"] = False
    got = (norm(steps[-1]["out"]), frozen(st))
    if got in sess["preds"] or any(got == (o, frozen(v)) for o, fs in sess["preds"] for v in tick_variants(dict(fs))):
        return None
    return "model predicts %s, node shows %s" % (sorted(sess["preds"])[:2], got)


# ------------------------------------------------------------------ the check
def run(ctx):
    quick = ctx.tier == "quick"
    ctx.level = "exploration"
    binp = ctx.build("p2p")
    states = transitions = 0

    # ---- 1. the design
    # (quick: one representative class kind per perturbation family; the lock programs do not depend on the kind)
    r = mc(ctx, dict(KINDS='"trunc","into","min","cnt+1","cntwrap","vec+1","lenover1","val+1","valff","badmagic","badsum","encflag","lenover1","cmdfull","oversize","encflag0"') if quick else {}, "whole alphabet")
    states, transitions = r.distinct, r.generated
    r = mc(ctx, dict(MAXPRE=11, MAXPOST=12, CMDS='"ping","version","getaddr","blocktxn"', KINDS='"valid"'), "score up to the ban")
    states += r.distinct
    transitions += r.generated
    refuted = []
    for d in (DEFECTS[:4] if quick else DEFECTS):
        # (these two need more messages than the bound of the wide run: their own deep, narrow alphabets)
        dd = dict(ORPH, DEFECTS='"%s"' % d) if d == "CmpctSameSid" else dict(IDLE, DEFECTS='"%s"' % d) if d == "BlkTxnNoColLock" else dict(DEFECTS='"%s"' % d)
        mc(ctx, dd, d, expect="LockOrder" if d == "TeardownLockOrder" else "HandlerReturnsClean")
        refuted.append(d)
    ctx.cov["refuted_variants"] = refuted

    # ---- 2. export; the two derivations of the alphabet and the grammars must agree
    # (quick: of the eight 2^63-ish values of every CompactSize field only 2^63-1; thorough: all)
    kinds = sorted(set(c["k"] for c in harness_json(ctx, binp, "alphabet", "a0")) - {"x63m1", "x63m8", "x63m80", "x63m89", "x63m100", "x63", "x62", "valid"})
    r, lines = export(ctx, "P2P_gen", dict(MAXPRE=1, MAXPOST=2 if quick else 4, CMDS="", KINDS=",".join('"%s"' % k for k in kinds) if quick else ""), "all")
    spec_alpha = set(ckey(json.loads(s)) for s in r.lines("VFC"))
    spec_gram = {}
    for s in r.lines("VFG"):
        j = json.loads(s)
        spec_gram[j["cmd"]] = [(f["k"], f["n"], f["e"]) for f in j["g"]]
    h_alpha = set(ckey(c) for c in harness_json(ctx, binp, "alphabet", "a"))
    h_gram = {c: [(f["k"], f["n"], f["e"]) for f in g] for c, g in harness_json(ctx, binp, "grammar", "g")[0].items()}
    if spec_alpha != h_alpha:
        raise Infra("class alphabets differ: only in spec %s, only in harness %s" % (sorted(spec_alpha - h_alpha)[:5], sorted(h_alpha - spec_alpha)[:5]))
    if spec_gram != h_gram:
        bad = [c for c in spec_gram if spec_gram.get(c) != h_gram.get(c)]
        raise Infra("grammars differ for %s: spec %s harness %s" % (bad[:3], spec_gram.get(bad[0]), h_gram.get(bad[0])))
    _, blines = export(ctx, "P2P_genban", dict(MAXPRE=11, MAXPOST=3, CMDS='"ping","version","getaddr","blocktxn"', KINDS='"valid"'), "ban")
    _, olines = export(ctx, "P2P_genorph", ORPH, "orphans")
    _, ilines = export(ctx, "P2P_gen", IDLE, "idle")      # the node's own tick: blocks requested with a plain getdata
    olines += ilines
    olines += export(ctx, "P2P_genenv", PEERS, "peers database full")[1]
    olines += export(ctx, "P2P_genenv", PEERB, "a second peer")[1]
    sessions = sessions_of(lines, 1)
    sessions += sessions_of(blines, len(sessions) + 1)
    have = set(tuple(ckey(m) for m in s["msgs"]) for s in sessions)
    sessions += [s for s in sessions_of(olines, len(sessions) + 1) if tuple(ckey(m) for m in s["msgs"]) not in have]
    cap = 15000 if quick else 60000
    ctx.cov["sessions_exported"] = len(sessions)
    if len(sessions) > cap:
        rnd = random.Random(ctx.seed)
        keep = [s for s in sessions if s["det"]]
        rest = [s for s in sessions if not s["det"]]
        rnd.shuffle(rest)
        sessions = keep + rest[:max(0, cap - len(keep))]
        ctx.cov["sampled"] = True
    ctx.log("%d exported transitions -> %d sessions (of %d) over %d payload classes" % (len(lines) + len(blines) + len(olines), len(sessions), ctx.cov["sessions_exported"], len(spec_alpha)))

    # ---- 3. replay on the real node
    res = replay(ctx, binp, sessions, "main")
    byid = {s["id"]: s for s in sessions}
    viol = [(s, res[s["id"]]) for s in sessions if res[s["id"]].get("viol")]
    notes = collections.Counter()
    drift, diverged, compared = [], 0, 0
    nontrivial = set()
    for s in sessions:
        rr = res[s["id"]]
        for st in rr.get("steps") or []:
            if st.get("obs"):
                notes[st["obs"].split(":")[0] + ":" + s["last"]["cmd"]] += 1
        c = compare(s, rr)
        if c == "diverged":
            diverged += 1
        elif c:
            drift.append((s, rr, c))
        elif s["det"] and not rr.get("viol"):
            compared += 1
        if (s["pre"]["ver"] or s["last"]["cmd"] in ("version", "frame")) and (rr.get("steps") or [{"out": "skipped"}])[-1].get("out") != "skipped":
            nontrivial.add((frozen(s["pre"]), ckey(s["last"])))
    notrun = sum(1 for s in sessions if res[s["id"]].get("notrun"))
    if notrun:
        ctx.log("%d sessions not run (a class that violated 12 times is not tried in further states; the driver stops after 40 slow violations)" % notrun)
        ctx.cov["sessions_not_run"] = notrun
    ctx.log("replayed %d sessions: %d with a violation, %d predictions compared, %d diverged before the last step, %d drifted"
            % (len(sessions), len(viol), compared, diverged, len(drift)))

    # ---- 3b. repeat until banned: every penalised class again and again, all locks probed after every message
    reps = repeat_sessions(sessions, res, len(sessions) + 1000000)
    res2 = replay(ctx, binp, reps, "repeat", maxslow=8) if reps else {}
    banned_ok = ban_other = 0
    for s in reps:
        rr = res2[s["id"]]
        if rr.get("viol"):
            viol.append((s, rr))
            continue
        steps = rr.get("steps") or []
        hit = next((i for i, st in enumerate(steps) if (st.get("st") or {}).get("score", 0) >= 1000), None)
        if hit is not None and (steps[hit].get("st") or {}).get("alive"):
            drift.append((s, rr, "score %s reached at message %d but the connection goes on (model: BannedIsDead)" % (steps[hit]["st"]["score"], hit + 1)))
        elif hit is not None and hit == (s["ban_at"] or 0) - 1:
            banned_ok += 1
        else:
            ban_other += 1
    ctx.log("repeat-until-banned: %d sessions (%d messages), %d banned exactly where the score rule predicts, %d ended otherwise, %d with a violation"
            % (len(reps), sum(len(s["msgs"]) for s in reps), banned_ok, ban_other, sum(1 for s in reps if res2[s["id"]].get("viol"))))
    ctx.cov["repeat_until_banned"] = {"sessions": len(reps), "banned_as_predicted": banned_ok, "ended_otherwise": ban_other}
    nrep = len(reps)

    # ---- 4. each kind of violation once more, alone, in a fresh process (this is the verdict and the replay file)
    bysig = collections.OrderedDict()
    for s, rr in sorted(viol, key=lambda x: (len(x[0]["msgs"]), x[0]["id"])):
        bysig.setdefault(signature(rr, s), []).append((s, rr))
    unconfirmed = []
    for sig, lst in bysig.items():
        ok = False
        for s, rr in lst[:3]:
            one = replay(ctx, binp, [{"id": 1, "msgs": s["msgs"]}], "confirm", nworkers=1, keep_bytes=True, msgms=30000)[1]
            if one.get("viol") and signature(one, s) == sig:
                frames = [st.get("bytes") for st in one.get("steps") or []]
                if not any(frames):     # the process died before it could report: concretise the session again
                    frames = frames_of(ctx, binp, s["msgs"])
                what = "%s in session [%s]: %s" % (one["viol"], " ; ".join(cname(m) for m in s["msgs"]), (one.get("what") or "")[:700])
                ctx.violation(sig, {"msgs": s["msgs"], "frames_hex": frames, "at": one.get("at"), "kind": one["viol"],
                                    "what": (one.get("what") or "")[:6000], "sessions_with_this_signature": len(lst)}, what)
                ok = True
                break
        if not ok:
            unconfirmed.append((sig, lst[0]))
    hard = [u for u in unconfirmed if not u[0].startswith("C18:timeout")]
    if hard:
        sig, (s, rr) = hard[0]
        raise Infra("a violation seen in the batch run did not reproduce alone: %s session %s\n%s" % (sig, [cname(m) for m in s["msgs"]], (rr.get("what") or "")[:1500]))
    for s, rr, c in drift[:10]:
        ctx.log("drift: [%s]: %s" % (" ; ".join(cname(m) for m in s["msgs"]), c))
    if drift:
        s, rr, c = drift[0]
        raise Infra("model drift (%d sessions): session [%s]: %s" % (len(drift), " ; ".join(cname(m) for m in s["msgs"]), c))
    if diverged > len(sessions) // 20:
        raise Infra("%d of %d sessions left the modelled path before their last message" % (diverged, len(sessions)))

    # ---- 5. library entry points
    lib_cases, lib_by_target = lib(ctx, binp, 150 if quick else 12000)

    # ---- 6. self-tests
    selftests(ctx, binp, sessions, res)

    # ---- coverage
    ctx.level = "exploration"
    for s in sessions:
        if len(s["msgs"]) == 3 and s["det"]:
            rr = res[s["id"]]
            ctx.sample({"session": [cname(m) for m in s["msgs"]], "model": sorted(s["preds"])[0][0],
                        "node": [st.get("out") for st in rr.get("steps") or []], "replies": (rr.get("steps") or [{}])[-1].get("rep")})
    ctx.cov.update({
        "evaluations": len(sessions) - notrun + nrep + lib_cases, "distinct_nontrivial": len(nontrivial),
        "sessions_replayed": len(sessions), "payload_classes": len(spec_alpha), "abstract_session_states": r.distinct,
        "states": states, "transitions": transitions, "predictions_compared": compared, "diverged_sessions": diverged,
        "library_cases": lib_cases, "library_cases_by_target": lib_by_target,
        "violating_sessions": len(viol), "violation_signatures": list(bysig.keys()),
        "unconfirmed_timeouts": [u[0] for u in unconfirmed], "observations": dict(notes),
        "rule": "TLC BFS over P2PGen (VIEW = abstract session state): every reachable session state within MaxPre=1/MaxPost=%d "
                "x every class of the alphabet derived from the grammars, each replayed once on OneConnection.Run(); "
                "distinct_nontrivial counts distinct (session state, command, class) triples that reached a handler" % (2 if quick else 4)})
    ctx.assumptions += [
        "payload bytes inside a field the grammar treats as opaque are those of one valid instance (class-based, not coverage-guided)",
        "one connection at a time; the main thread is represented by a goroutine that feeds NetTxs to txpool.HandleNetTx and drains NetBlocks",
        "process address space limited to 8 GiB: an allocation request beyond that (driven by a peer-supplied count) ends the process as it would on a node without that much free memory",
        "a handler is declared stuck after 20 s (30 s when re-run alone); a lock is declared leaked when it cannot be taken for 2 s",
        "regtest-like proof of work, so that block/cmpctblock/headers pass the header checks"]


def lib(ctx, binp, n):
    d = os.path.join(ctx.scratch, "lib")
    os.makedirs(d, exist_ok=True)
    p = ctx.run([binp, "lib", "-dir", d, "-seed", str(ctx.seed), "-n", str(n), "-workers", str(workers())], timeout=3000)
    if p.returncode != 0:
        raise Infra("lib driver failed: " + p.stderr[-2000:])
    summary, fails = None, []
    for ln in p.stdout.split("\n"):
        if not ln.startswith("{"):
            continue
        j = json.loads(ln)
        if j.get("summary"):
            summary = j
        else:
            for f in j.get("fails") or []:
                fails.append((j["target"], f))
    if summary is None:
        raise Infra("lib driver gave no summary")
    tnames = sorted(summary["by_target"])
    seen = collections.OrderedDict()
    for t, f in fails:
        w = f["what"]
        if f["kind"] == "crash":
            # same identity as for a session: the root cause is the function, whatever the way in
            if "out of memory" in w:
                sig = "C18:oom:%s" % top_frame(w)
            else:
                m = re.search(r"panic: ([^\n]*)", w)
                sig = "C18:crash:%s:%s" % (top_frame(w), re.sub(r"[\d\[\]:x]+", "", m.group(1))[:50].strip() if m else "died")
        elif f["kind"] == "panic":
            fr = [x for x in FRAME.findall(w) if "cmd/p2p" not in x]
            m = re.search(r"panic: ([^\n]*)", w)
            sig = "C18:lib-panic:%s:%s" % (fr[0] if fr else "?", re.sub(r"\s*[\[\d].*", "", m.group(1))[:40] if m else "")
        else:
            sig = "C18:lib-%s:%s" % (f["kind"], t)
        seen.setdefault(sig, []).append((t, f))
    for sig, lst in seen.items():
        lst.sort(key=lambda x: len(x[1]["hex"]))
        confirmed = False
        for t, f in lst[:3]:
            # alone, in a fresh process
            p = ctx.run([binp, "lib", "-dir", os.path.join(ctx.scratch, "libc"), "-seed", str(ctx.seed), "-workers", "1",
                         "-only", "%d:%d" % (target_index(ctx, binp, t), f["k"])], timeout=600)
            again = [json.loads(l) for l in p.stdout.split("\n") if l.startswith("{") and '"fails"' in l and '"summary"' not in l]
            if again and again[0]["fails"][0]["kind"] == f["kind"] and again[0]["fails"][0]["hex"] == f["hex"]:
                g = again[0]["fails"][0]
                ctx.violation(sig, {"lib_target": t, "k": f["k"], "input_hex": f["hex"], "derivation": f["desc"], "kind": f["kind"],
                                    "what": g["what"][:5000], "cases_with_this_signature": len(lst)},
                              "library entry point %s: %s on %d-byte input (%s): %s" % (t, f["kind"], len(f["hex"]) // 2, f["desc"], g["what"][:300]))
                confirmed = True
                break
        if not confirmed and not sig.startswith("C18:lib-slow") and not sig.startswith("C18:lib-timeout"):
            raise Infra("library failure did not reproduce alone: %s %s (k=%s; alone: %s)" % (sig, lst[0][1]["desc"], lst[0][1]["k"],
                        [(a["fails"][0]["kind"], a["fails"][0]["k"], a["fails"][0]["hex"] == f["hex"]) for a in again]))
    if summary.get("cases_not_run"):
        ctx.cov["library_cases_not_run"] = summary["cases_not_run"]
    ctx.log("library entry points: %d cases over %d targets, %d failing cases, %d signatures%s" % (summary["cases"], len(tnames), len(fails), len(seen),
            (", %d cases not run (a target with 60 failures is not driven further)" % summary["cases_not_run"]) if summary.get("cases_not_run") else ""))
    return summary["cases"], summary["by_target"]


_tidx = {}


def target_index(ctx, binp, name):
    if not _tidx:
        p = ctx.run([binp, "lib", "-list"], timeout=60)
        for i, l in enumerate(p.stdout.split("\n")):
            _tidx[l.strip()] = i
    if name not in _tidx:
        raise Infra("unknown library target " + name)
    return _tidx[name]


def selftests(ctx, binp, sessions, res):
    ver = {"cmd": "version", "k": "valid", "f": 0}
    ping = {"cmd": "ping", "k": "valid", "f": 0}
    # the observer: an injected leaked lock, panic event and stuck handler must each be reported
    for mode, want in (("lock", ("lockheld", "timeout")), ("panic", ("panic",)), ("hang", ("timeout",))):
        r = replay(ctx, binp, [{"id": 1, "msgs": [ver, ping, ping]}], "self-" + mode, nworkers=1, msgms=1500, selftest=mode)[1]
        if r.get("viol") not in want or (mode == "lock" and "network.MutexRcv" not in (r.get("what") or "")):
            raise Infra("observer self-test: injected %s was reported as %r %s" % (mode, r.get("viol"), (r.get("what") or "")[:200]))
    # the same session without injection must be clean (otherwise the self-test above proves nothing)
    r = replay(ctx, binp, [{"id": 1, "msgs": [ver, ping, ping]}], "self-none", nworkers=1)[1]
    if r.get("viol") or [s["out"] for s in r["steps"]] != ["ok", "ok", "ok"]:
        raise Infra("observer self-test: the clean session is not clean: %s" % r)
    # the comparator: one corrupted prediction must be flagged
    for s in sessions:
        rr = res[s["id"]]
        if s["det"] and not rr.get("viol") and compare(s, rr) is None and len(s["msgs"]) >= 2 and s["last"]["k"] == "valid":
            out, st = sorted(s["preds"])[0]
            bad = dict(s, preds={("disconnected" if out != "disconnected" else "ok", st)})
            if compare(bad, rr) in (None, "diverged"):
                raise Infra("comparator self-test: corrupted outcome prediction accepted")
            d = dict(st)
            d["ver"] = not d["ver"]
            bad = dict(s, preds={(out, frozen(d))})
            if compare(bad, rr) in (None, "diverged"):
                raise Infra("comparator self-test: corrupted state prediction accepted")
            return
    if not ctx.violations:
        raise Infra("comparator self-test: no comparable session found")


def replay_cmd(ctx, path):
    j = json.load(open(path))
    rp = j["replay"]
    binp = ctx.build("p2p")
    if "lib_target" in rp:
        p = ctx.run([binp, "lib", "-dir", os.path.join(ctx.scratch, "libc"), "-seed", str(j.get("seed", 1)), "-workers", "1",
                     "-only", "%d:%d" % (target_index(ctx, binp, rp["lib_target"]), rp["k"])], timeout=600)
        again = [json.loads(l) for l in p.stdout.split("\n") if l.startswith("{") and '"fails"' in l and '"summary"' not in l]
        if again:
            f = again[0]["fails"][0]
            print("reproduced:", f["kind"], f["desc"], f["what"][:600])
            return 1
        print("not reproduced")
        return 0
    ctx.seed = j.get("seed", ctx.seed)
    r = replay(ctx, binp, [{"id": 1, "msgs": rp["msgs"]}], "rp", nworkers=1, keep_bytes=True, msgms=30000)[1]
    if r.get("viol"):
        print("reproduced: %s at message %s: %s" % (r["viol"], r.get("at"), (r.get("what") or "")[:1200]))
        for st in r.get("steps") or []:
            print("  ", st.get("cls"), st.get("out"), st.get("viol", ""), (st.get("bytes") or "")[:160])
        return 1
    print("not reproduced:", [s.get("out") for s in r.get("steps") or []])
    return 0
