"""C02 - signature hashes equal the legacy, BIP143 and BIP341 definitions.

spec/SigHash.tla   part 1: Preimage(mode, shape, idx, hash type, script, annex, path) as a sequence of field
                   descriptors / "one" / "undefined", written from the original algorithm, BIP143, BIP341/342;
                   part 2: the cache machine of lib/btc (hashPrevouts/.../tapSingleHashes under hashLock)
  0. self-checks of the trusted reference: the driver's signer against its own verifier and the BIP340 vectors;
     model + reference over Bitcoin Core's 500 legacy vectors (lib/test/sighash.json) and over the real BIP143
     signatures of lib/test/tx_valid.json (verified with the driver's own ECDSA)
  1. TLC: the meaning of the SIGHASH flags as invariants over every enumerated case (+ broken rules refuted);
     CacheTransparent / MutualExclusion / SlotsStable over all request orders and interleavings (+ broken
     variants refuted)
  2. G->R: every enumerated case replayed: reference digest == Tx.SignatureHash / WitnessSigHash /
     TaprootSigHash, VerifyTxScript accepts a spend signed over the reference digest and refuses one signed over
     another digest; "undefined" => no candidate digest may be accepted
  3. G->R: request orders of the cache machine replayed on one Tx object, sequentially and concurrently
     (thorough: also under the race detector)
  4. binding self-test: corrupted predictions must be rejected
"""
import json, os, re
from vf import Infra

ALL = ",".join(map(str, range(256)))
# one-byte types: the named ones, 0/4/0xff, and the & 0x1f mask boundaries (0x13, 0x1f, 0x20.., 0x43, 0x62, 0x7f, 0x9f, 0xa2, 0xe3)
HT1 = "0,1,2,3,4,19,31,32,33,34,35,65,67,98,127,128,129,130,131,132,159,162,227,255"
# taproot bytes for the quick tier of the script path: the 7 defined ones and their neighbours / single bits
TAPSET = "0,1,2,3,4,5,7,8,16,32,64,65,67,127,128,129,130,131,132,133,135,136,144,160,192,193,195,255"
PINV = "DefinedExactly CommitsHashType CommitsOwnInput AnyoneCanPayOnlyOwnInput OtherInputsCommitted OutputsCommitted ScriptCommitted"
CINV = "CacheTransparent MutualExclusion"
CHT_FULL = "0,1,2,3,4,129,130,131"

BASE = dict(MODES='"legacy","bip143","bip341"', NINS="1,2", NOUTS="0,1,2", HT1=HT1, HT4LO="1,3,130", HT4HI="1,8388608,16777215",
            TAPKEY=ALL, TAPSCRIPT=TAPSET, MAXSEP=1, UCS="TRUE", SIG="TRUE", MULTI="TRUE", LONG="TRUE", BUG="none",
            CNIN=2, CNOUT=2, CMODES='"legacy","bip143","bip341"', CHT=CHT_FULL, THREADS=2, MAXREQ=3,
            SPEC="PSpec", INVS="", PROPLINE="", GENMODE="cases", VECFILE="none.json")


def D(**kw):
    d = dict(BASE)
    d.update(kw)
    return d


def gen_defs(d):
    return {k: v for k, v in d.items() if k not in ("SPEC", "PROPLINE", "BUG")}


def mc_defs(d):
    return {k: v for k, v in d.items() if k not in ("GENMODE", "VECFILE")}


def tlc(ctx, *a, **kw):
    """ctx.tlc, repeated when the JVM was killed from outside (other jobs on this machine clean up stray TLC
    processes with pkill): SIGTERM / SIGKILL of the process is never a result."""
    for attempt in range(4):
        r = ctx.tlc(*a, **kw)
        if r.rc not in (143, -15, 137, -9) or r.timeout or r.errors or r.invariant:
            return r
        ctx.log("TLC was killed from outside (rc=%s), running it again" % r.rc)
    return r


def lines_to(r, tag, path):
    n = 0
    with open(path, "w") as f:
        for s in r.lines(tag):
            f.write(s + "\n")
            n += 1
    return n


def driver(ctx, binp, args, timeout=3000, env=None):
    p = ctx.run([binp] + args, timeout=timeout, env=env)
    fails, summary = [], None
    for ln in p.stdout.splitlines():
        if not ln.startswith("{"):
            continue
        j = json.loads(ln)
        if j.get("summary"):
            summary = j
        elif j.get("ok") is False:
            fails.append(j)
    if p.returncode != 0 or summary is None:
        raise Infra("sighash %s failed rc=%d: %s %s" % (args[0], p.returncode, p.stdout[-1500:], p.stderr[-3000:]))
    return summary, fails, p.stderr


def signature(f):
    # stable shape of a failure: the rule (digest-<mode> / verdict-<mode> / undefined-accepted:<class> / cache-<mode>)
    return "C02:" + f.get("rule", "?")


def report(ctx, fails, kind, extra):
    # one replay file per signature: prefer a transaction that has outputs
    fails = sorted(fails, key=lambda f: isinstance(f.get("case"), dict) and f["case"].get("nout") == 0)
    for f in fails:
        if f.get("rule") == "driver":
            raise Infra("driver could not run a case: %s" % json.dumps(f)[:1500])
        ctx.violation(signature(f), dict(extra, kind=kind, case=f.get("case"), detail=f.get("detail")), f["what"])


def run(ctx):
    quick = ctx.tier == "quick"
    binp = ctx.build("sighash")
    test = os.path.join(ctx.repo, "lib", "test")
    cov = ctx.cov

    # ---- 0. the trusted reference checks itself
    p = ctx.run([binp, "selftest", "-seed", str(ctx.seed), "-bip340", os.path.join(test, "bip340_test_vectors.csv")], timeout=600)
    try:
        st = json.loads(p.stdout.strip().splitlines()[-1])
    except Exception:
        raise Infra("signer self-test gave no result: %s %s" % (p.stdout[-500:], p.stderr[-1500:]))
    if p.returncode != 0 or st.get("bad"):
        raise Infra("signer self-test failed: %s" % st)
    cov["signer_selftest"] = {"own_signatures": st.get("own_signatures"), "bip340_vectors": st.get("bip340_vectors")}

    vecfile = os.path.join(ctx.scratch, "vec.json")
    vargs = ["-sighash", os.path.join(test, "sighash.json"), "-txvalid", os.path.join(test, "tx_valid.json")]
    p = ctx.run([binp, "vecprep", "-out", vecfile] + vargs, timeout=600, check=True)
    nvec = json.loads(p.stdout.strip().splitlines()[-1])
    r = tlc(ctx, "SigHashGen", "SigHash_gen", workers=1, timeout=900, files={"vec.json": vecfile},
            defines=gen_defs(D(GENMODE="vectors", VECFILE="vec.json")))
    r.require_ok("vector export")
    vlines = os.path.join(ctx.scratch, "veclines.json")
    n = lines_to(r, "VFT", vlines)
    vs, vfails, _ = driver(ctx, binp, ["veccheck", "-in", vlines] + vargs)
    if n != nvec["vectors"] or vs["evaluated"] != n or vfails or vs["legacy_ok"] != vs["legacy"] or vs["bip143_ok"] != vs["bip143_sigs"]:
        raise Infra("reference self-check failed (the model or the reference misreads a definition): %s %s" % (vs, vfails[:3]))
    if vs["legacy"] < 400 or vs["bip143_sigs"] < 10:
        raise Infra("too few vectors found for the reference self-check: %s skipped=%s" % (vs, nvec.get("skipped")))
    cov["reference_selfcheck"] = {"core_legacy_vectors_reproduced": vs["legacy_ok"], "real_bip143_signatures_verified": vs["bip143_ok"]}
    ctx.log("reference self-check: %d legacy vectors, %d BIP143 signatures" % (vs["legacy_ok"], vs["bip143_ok"]))

    # ---- 1. the design
    states = transitions = 0
    refuted = []
    big = dict(NINS="1,2,3", NOUTS="0,1,2,3", MAXSEP=2, HT1=ALL)
    # the flag-meaning invariants are evaluated by TLC on every enumerated case during the export runs of step 2
    # (same constants, so a separate run of PSpec would only repeat them); here: the broken rules must be refuted
    for bug in ("acp_all_inputs", "none_keeps_outputs") + (() if quick else ("no_seq_zero",)):
        r = tlc(ctx, "SigHash", "SigHash_mc", defines=mc_defs(D(SPEC="PSpec", INVS=PINV, BUG=bug, TAPKEY=TAPSET, MAXSEP=0, MULTI="FALSE", LONG="FALSE")), timeout=900)
        if not r.invariant:
            raise Infra("sanity: the preimage rules broken by %s should violate an invariant, TLC found none\n%s" % (bug, r.tail))
        refuted.append("%s violates %s" % (bug, r.invariant))
    csets = [D(SPEC="CSpec", INVS=CINV, PROPLINE="PROPERTIES SlotsStable", CNOUT=2, MAXREQ=3, CHT="1,3,4,131" if quick else CHT_FULL)]
    if not quick:
        csets += [D(SPEC="CSpec", INVS=CINV, PROPLINE="PROPERTIES SlotsStable", CNOUT=1, MAXREQ=3, CHT="1,2,3,4,129,131"),
                  D(SPEC="CSpec", INVS=CINV, PROPLINE="PROPERTIES SlotsStable", CNOUT=2, MAXREQ=4, THREADS=1),
                  D(SPEC="CSpec", INVS=CINV, PROPLINE="PROPERTIES SlotsStable", CNIN=3, CNOUT=2, MAXREQ=3, CHT="1,3,4,131", CMODES='"bip143","bip341"')]
    cstates = 0
    for d in csets:
        r = tlc(ctx, "SigHash", "SigHash_mc", defines=mc_defs(d), timeout=3000)
        if r.invariant:
            raise Infra("design-level counterexample in the cache machine (%s)\n%s" % (r.invariant, r.tail))
        r.require_ok("mc cache")
        states += r.distinct
        transitions += r.generated
        cstates += r.distinct
    for bug in ("nolock", "single_cached") + (() if quick else ("wrong_input", "shared_outputs")):
        r = tlc(ctx, "SigHash", "SigHash_mc", defines=mc_defs(D(SPEC="CSpec", INVS=CINV, BUG=bug, CHT="1,3,129,131", MAXREQ=2)), timeout=900)
        if r.invariant != "CacheTransparent":
            raise Infra("sanity: the cache machine broken by %s should violate CacheTransparent, TLC says %s\n%s" % (bug, r.invariant, r.tail))
        refuted.append("%s violates %s" % (bug, r.invariant))
    cov["refuted_variants"] = refuted

    # ---- 2. every enumerated case on the real code
    if quick:
        gsets = [("all", D())]
    else:
        # what interacts is enumerated together: embedded signatures with script structure (smaller shapes, boundary
        # hash types); all 256 hash types with all shapes (scripts without embedded signature); for tapscript all
        # scripts with the boundary types and all 256 types with the scripts without code separator
        gsets = [("legacy-sig", D(MODES='"legacy"', MAXSEP=2)),
                 ("legacy-256", D(MODES='"legacy"', SIG="FALSE", LONG="FALSE", HT4LO="", HT4HI="", **big)),
                 ("bip143", D(MODES='"bip143"', **big)),
                 ("bip341-key", D(MODES='"bip341"', TAPKEY=ALL, TAPSCRIPT="", **big)),
                 ("bip341-scripts", D(MODES='"bip341"', TAPKEY="", TAPSCRIPT=TAPSET, **big)),
                 ("bip341-script-256", D(MODES='"bip341"', TAPKEY="", TAPSCRIPT=ALL, **dict(big, MAXSEP=0)))]
    tot = dict(lines=0, direct=0, e2e_pos=0, e2e_neg=0, undefined=0, candidates=0, ones=0, distinct_digests=0, distinct_layouts=0)
    by_mode = {}
    case_files = []
    for tag, d in gsets:
        r = tlc(ctx, "SigHashGen", "SigHash_gen", workers=1, defines=gen_defs(dict(d, INVS=PINV)), timeout=3000)
        if r.invariant:
            raise Infra("design-level counterexample during export (%s)\n%s" % (r.invariant, r.tail))
        r.require_ok("export " + tag)
        path = os.path.join(ctx.scratch, "cases-%s.json" % tag)
        n = lines_to(r, "VFT", path)
        if n != r.generated - 1 or n == 0:
            raise Infra("export %s: %d lines for %s generated states" % (tag, n, r.generated))
        states += r.distinct
        transitions += r.generated
        summ, fails, _ = driver(ctx, binp, ["replay", "-in", path, "-seed", str(ctx.seed)])
        if summ["lines"] != n:
            raise Infra("replay %s: %d of %d lines processed" % (tag, summ["lines"], n))
        ctx.log("replayed %d cases of set %s: %d digests compared, %d+%d spends verified, %d undefined cases (%d candidates): %d failures" % (
            n, tag, summ["direct"], summ["e2e_pos"], summ["e2e_neg"], summ["undefined"], summ["candidates"], summ["fail"]))
        report(ctx, fails, "case", {"seed": ctx.seed})
        for k in tot:
            tot[k] += summ[k]
        for k, v in summ["by_mode"].items():
            by_mode[k] = by_mode.get(k, 0) + v
        case_files.append(path)
        with open(path) as fh:
            for i, l in enumerate(fh):
                if i in (7, n // 2, n - 3) and len(cov["samples"]) < 4:
                    ctx.sample(json.loads(l), limit=4)

    # ---- 3. request orders of the cache machine on one Tx object
    full = D(GENMODE="cache", THREADS=1, CNIN=2, CNOUT=2, CHT=CHT_FULL)
    small = dict(CMODES='"bip143","bip341"', CHT="1,3,131")
    if quick:
        bsets = [("o2", dict(full, MAXREQ=2)),
                 ("o3", dict(full, MAXREQ=3, **small)),
                 ("t2", dict(full, MAXREQ=3, THREADS=2, CMODES='"bip143","bip341"', CHT="1,131"))]
    else:
        bsets = [("o3", dict(full, MAXREQ=3, CHT="0,1,3,4,129,131")),
                 ("o4", dict(full, MAXREQ=4, **small)),
                 ("t2", dict(full, MAXREQ=3, THREADS=2, **small)),
                 ("o3n1", dict(full, MAXREQ=3, CNOUT=1, CMODES='"bip143","bip341"', CHT="1,2,3,131")),
                 ("o3i3", dict(full, MAXREQ=3, CNIN=3, CNOUT=2, **small))]
    orders = calls = 0
    cfirst = None
    racebin = None if quick else ctx.build("sighash", race=True)
    for tag, d in bsets:
        r = tlc(ctx, "SigHashGen", "SigHash_gen", workers=1, defines=gen_defs(dict(d, INVS=CINV)), timeout=3000)
        if r.invariant:
            raise Infra("design-level counterexample in the cache machine during export (%s)\n%s" % (r.invariant, r.tail))
        r.require_ok("cache export " + tag)
        table = os.path.join(ctx.scratch, "table-%s.json" % tag)
        beh = os.path.join(ctx.scratch, "orders-%s.json" % tag)
        nt = lines_to(r, "VFR", table)
        nb = lines_to(r, "VFB", beh)
        if nt == 0 or nb == 0:
            raise Infra("cache export %s produced nothing\n%s" % (tag, r.tail))
        states += r.distinct
        transitions += r.generated
        args = ["cache", "-table", table, "-in", beh, "-nin", str(d["CNIN"]), "-nout", str(d["CNOUT"]), "-seed", str(ctx.seed)]
        summ, fails, _ = driver(ctx, binp, args + ["-conc", "2" if quick else "4"])
        if summ["lines"] != nb:
            raise Infra("cache replay %s: %d of %d lines processed" % (tag, summ["lines"], nb))
        ctx.log("replayed %d request orders of set %s (%d sequential, %d concurrent calls): %d failures" % (nb, tag, summ["calls"], summ["concurrent_calls"], summ["fail"]))
        report(ctx, fails, "cache", {"seed": ctx.seed, "nin": d["CNIN"], "nout": d["CNOUT"], "table": open(table).read().splitlines()})
        orders += nb
        calls += summ["calls"] + summ["concurrent_calls"]
        if cfirst is None:
            cfirst = (table, beh, d)
        if racebin:
            for procs in ("2", "16"):
                summ, fails, err = driver(ctx, racebin, args + ["-conc", "2"], env={"GOMAXPROCS": procs, "GORACE": "halt_on_error=0 exitcode=0"}, timeout=3000)
                report(ctx, fails, "cache", {"seed": ctx.seed, "nin": d["CNIN"], "nout": d["CNOUT"], "table": open(table).read().splitlines()})
                calls += summ["calls"] + summ["concurrent_calls"]
                if "DATA RACE" in err:
                    m = re.search(r"WARNING: DATA RACE(.*?)={10,}", err, re.S)
                    txt = (m.group(1) if m else err)[:3000]
                    fn = re.search(r"btc\.\(\*Tx\)\.(\w+)", txt)
                    ctx.violation("C02:data-race:" + (fn.group(1) if fn else "?"), {"kind": "race", "seed": ctx.seed, "report": txt},
                                  "the race detector reports unsynchronised access while digests are requested concurrently on one Tx object")
            with open(beh) as fh:
                for i, l in enumerate(fh):
                    if i == nb // 2 and len(cov["samples"]) < 5:
                        ctx.sample(json.loads(l), limit=5)

    # ---- coverage (measured)
    ctx.level = "exploration"
    cov.update({"evaluations": tot["lines"], "distinct_nontrivial": tot["distinct_layouts"],
                "rule": "TLC enumerates (mode, inputs, outputs, input index, hash type, script tokens, annex, path) exhaustively within the bounds of checks/c02.py; "
                        "every case is one evaluation (digest compared and / or spends verified on the real code). distinct_nontrivial = number of DISTINCT "
                        "preimage layouts (descriptor sequences incl. nested hashes, or the constant ONE) among the evaluated cases with a defined digest, "
                        "counted by the driver; undefined cases and repeated layouts are not counted",
                "exhaustive": True,
                "cases_by_mode_with_digest": by_mode, "digests_compared": tot["direct"], "distinct_reference_digests": tot["distinct_digests"],
                "legacy_single_bug_ONE_cases": tot["ones"], "spends_signed_over_reference_digest_verified": tot["e2e_pos"], "spends_signed_over_another_digest_verified": tot["e2e_neg"],
                "undefined_cases": tot["undefined"], "undefined_candidate_signatures": tot["candidates"],
                "cache_request_orders_replayed": orders, "cache_calls_compared": calls, "race_detector": bool(racebin),
                "states": states, "transitions": transitions, "cache_machine_states": cstates})
    ctx.assumptions += [
        "SHA-256, the descriptor -> bytes step, secp256k1 / ECDSA / BIP340 signing are the driver's own code (crypto/sha256, math/big), checked on every run against "
        "Bitcoin Core's legacy vectors, real BIP143 signatures and the BIP340 vectors; the model fixes the layout, not the bit-level serialisation",
        "scripts are well-formed, hold one signature check (OP_CHECKSIG, or 1-of-1 OP_CHECKMULTISIG before tapscript), 0..%d OP_CODESEPARATORs (executed or in an "
        "OP_0 OP_IF branch), 0..1 push of the signature itself (canonical push; also of a 76..128-byte zero-padded signature under pre-BIP66 flags); bare, P2WSH, "
        "P2WPKH, taproot key path and single-leaf script path; P2SH wrappers, n-of-m multisig and truncated pushes are not enumerated" % (1 if quick else 2),
        "transactions: %s, seeded random field values (scripts up to 300 bytes so CompactSize 0xfd occurs)" % ("1..2 inputs, 0..2 outputs" if quick else "1..3 inputs, 0..3 outputs"),
        "four-byte hash types reach only the function level (the interpreter takes the hash type from one signature byte)",
        "concurrent replays do not control the interleaving (no hooks): goroutines are released together, repeated, plus the race detector in the thorough tier"]

    # ---- 4. binding self-tests (only meaningful when the unmodified inputs were accepted)
    # (the self-test corrupts predictions of cases that pass; it does not depend on failing ones)
    mut = os.path.join(ctx.scratch, "mut.json")
    kinds = set()
    with open(mut, "w") as g:
        for cf in case_files:
            if len(kinds) == 3:
                break
            with open(cf) as f:
                for l in f:
                    if len(kinds) == 3:
                        break
                    if '"ht":[1,0]' not in l:
                        continue
                    j = json.loads(l)
                    q, pre = j["q"], j["pre"]
                    k = None
                    if pre["def"] == "digest" and q["nin"] >= 2 and q["ht"] == [1, 0]:
                        if q["mode"] == "legacy" and "legacy" not in kinds:
                            # swap two fields of the legacy serialisation
                            pre["fields"][2], pre["fields"][4] = pre["fields"][4], pre["fields"][2]
                            k = "legacy"
                        elif q["mode"] == "bip143" and "bip143" not in kinds:
                            pre["fields"][2] = {"k": "zerohash", "n": 0, "of": [], "t": []}
                            k = "bip143"
                        elif q["mode"] == "bip341" and q["path"] == "script" and "bip341" not in kinds:
                            pre["fields"][-1]["n"] += 1        # codesep_pos off by one
                            k = "bip341"
                    if k:
                        kinds.add(k)
                        g.write(json.dumps(j) + "\n")
    summ, fails, _ = driver(ctx, binp, ["replay", "-in", mut, "-seed", str(ctx.seed)])
    bad = [k for k in ("legacy", "bip143", "bip341") if k in kinds and not any(f["rule"] == "digest-" + k for f in fails)]
    if len(kinds) < 3 or bad:
        raise Infra("binding self-test failed: corrupted predictions %s not rejected (%s built)" % (bad, sorted(kinds)))
    table, beh, d = cfirst
    tmut = os.path.join(ctx.scratch, "table-mut.json")
    done = False
    with open(table) as f, open(tmut, "w") as g:
        for l in f:
            j = json.loads(l)
            if not done and j["req"]["mode"] == "bip143" and j["pre"]["def"] == "digest" and j["req"]["lo"] == 1:
                j["pre"]["fields"][1], j["pre"]["fields"][2] = j["pre"]["fields"][2], j["pre"]["fields"][1]
                done = True
            g.write(json.dumps(j) + "\n")
    summ, fails, _ = driver(ctx, binp, ["cache", "-table", tmut, "-in", beh, "-nin", str(d["CNIN"]), "-nout", str(d["CNOUT"]), "-seed", str(ctx.seed), "-conc", "1"])
    if not done or not any(f["rule"] == "cache-bip143" for f in fails):
        raise Infra("binding self-test failed: a corrupted request table was not rejected by the cache replay")
    cov["binding_selftest"] = "corrupted predictions rejected: " + ", ".join(sorted(kinds)) + ", cache table"


def replay_cmd(ctx, path):
    j = json.load(open(path))
    rp = j["replay"]
    binp = ctx.build("sighash")
    if rp.get("kind") == "case":
        # the driver derives the transaction from (seed, case), so the case is reproduced from its parameters:
        # re-export the one case is not needed - rebuild the exported line from the model for exactly this case
        q = rp["case"]
        d = D(GENMODE="cases", MODES='"%s"' % q["mode"], NINS=q["nin"], NOUTS=q["nout"], MAXSEP=2, UCS="TRUE", SIG="TRUE",
              HT1=q["ht"][0], HT4LO=q["ht"][0], HT4HI=q["ht"][1] or 1, TAPKEY=q["ht"][0], TAPSCRIPT=q["ht"][0])
        r = tlc(ctx, "SigHashGen", "SigHash_gen", workers=1, defines=gen_defs(d), timeout=900)
        r.require_ok("re-export")
        one = os.path.join(ctx.scratch, "one.json")
        n = 0
        with open(one, "w") as f:
            for s in r.lines("VFT"):
                if json.loads(s)["q"] == q:
                    f.write(s + "\n")
                    n += 1
        if n != 1:
            raise Infra("the case of the replay file was not re-generated by the model")
        summ, fails, _ = driver(ctx, binp, ["replay", "-in", one, "-seed", str(rp["seed"])])
    elif rp.get("kind") == "cache":
        table = os.path.join(ctx.scratch, "t.json")
        open(table, "w").write("\n".join(rp["table"]) + "\n")
        beh = os.path.join(ctx.scratch, "b.json")
        open(beh, "w").write(json.dumps({"steps": rp["case"]}) + "\n")
        summ, fails, _ = driver(ctx, binp, ["cache", "-table", table, "-in", beh, "-nin", str(rp["nin"]), "-nout", str(rp["nout"]), "-seed", str(rp["seed"]), "-conc", "8"])
    else:
        print("race reports: re-run the check in the thorough tier with the same VERIF_SEED")
        return 2
    for f in fails:
        print("reproduced:", f["what"])
        print(json.dumps(f.get("detail"))[:2000])
    return 1 if fails else 0
