"""C02 - signature hashes equal the legacy, BIP143 and BIP341 definitions.

spec/SigHash.tla   part 1: Preimage(mode, shape, idx, hash type, script, annex, path) as a sequence of field
                   descriptors / "one" / "undefined", written from the original algorithm, BIP143, BIP341/342;
                   part 2: the cache machine of lib/btc (hashPrevouts/.../tapSingleHashes under hashLock)
  0. self-checks of the trusted reference: the driver's signer against its own verifier and the BIP340 vectors;
     model + reference over Bitcoin Core's 500 legacy vectors (lib/test/sighash.json) and over the real BIP143
     signatures of lib/test/tx_valid.json (verified with the driver's own ECDSA)
  1. TLC: the meaning of the SIGHASH flags as invariants over every enumerated case (+ broken rules refuted);
     CacheTransparent / MutualExclusion / SlotsStable over all request orders and interleavings (+ broken
     variants refuted)
  2. G->R: every enumerated case replayed: reference digest == Tx.SignatureHash / WitnessSigHash /
     TaprootSigHash, VerifyTxScript accepts a spend signed over the reference digest and refuses one signed over
     another digest; "undefined" => no candidate digest may be accepted
  3. G->R: request orders of the cache machine replayed on one Tx object, sequentially and concurrently
     (thorough: also under the race detector)
  3b. warm-up prefix + concurrent burst: scenarios from the model (no warm-up / one completed request of a hash-type
     class - the classes fill different subsets of the cache slots, FillsAreNeeded - then a burst of request kinds) on
     fresh Tx objects of a transaction with hundreds..thousands of inputs, 8 goroutines asking digests of different
     inputs with different hash types at GOMAXPROCS 2/4/16, every digest compared with the uncached reference; once
     more under the race detector, reports with both accesses inside the repository are violations
  4. binding self-test: corrupted predictions must be rejected
"""
import glob, json, os, re
from vf import Infra

ALL = ",".join(map(str, range(256)))
# one-byte types: the named ones, 0/4/0xff, and the & 0x1f mask boundaries (0x13, 0x1f, 0x20.., 0x43, 0x62, 0x7f, 0x9f, 0xa2, 0xe3)
HT1 = "0,1,2,3,4,19,31,32,33,34,35,65,67,98,127,128,129,130,131,132,159,162,227,255"
# taproot bytes for the quick tier of the script path: the 7 defined ones and their neighbours / single bits
TAPSET = "0,1,2,3,4,5,7,8,16,32,64,65,67,127,128,129,130,131,132,133,135,136,144,160,192,193,195,255"
PINV = "DefinedExactly CommitsHashType CommitsOwnInput AnyoneCanPayOnlyOwnInput OtherInputsCommitted OutputsCommitted ScriptCommitted"
CINV = "CacheTransparent MutualExclusion"
CHT_FULL = "0,1,2,3,4,129,130,131"

BASE = dict(MODES='"legacy","bip143","bip341"', NINS="1,2", NOUTS="0,1,2", HT1=HT1, HT4LO="1,3,130", HT4HI="1,8388608,16777215",
            TAPKEY=ALL, TAPSCRIPT=TAPSET, MAXSEP=1, UCS="TRUE", SIG="TRUE", MULTI="TRUE", LONG="TRUE", MDEPTHS="0,1,2,3,128", BUG="none",
            CNIN=2, CNOUT=2, CIDX="0,1,2", BURSTLEN=1, CMODES='"legacy","bip143","bip341"', CHT=CHT_FULL, THREADS=2, MAXREQ=3,
            SPEC="PSpec", INVS="", PROPLINE="", GENMODE="cases", VECFILE="none.json")


def D(**kw):
    d = dict(BASE)
    d.update(kw)
    return d


def gen_defs(d):
    return {k: v for k, v in d.items() if k not in ("SPEC", "PROPLINE", "BUG")}


def mc_defs(d):
    return {k: v for k, v in d.items() if k not in ("GENMODE", "VECFILE", "BURSTLEN")}


def tlc(ctx, *a, **kw):
    """ctx.tlc, repeated when the JVM was killed from outside (other jobs on this machine clean up stray TLC
    processes with pkill): SIGTERM / SIGKILL of the process is never a result."""
    for attempt in range(4):
        r = ctx.tlc(*a, **kw)
        if r.rc not in (143, -15, 137, -9) or r.timeout or r.errors or r.invariant:
            return r
        ctx.log("TLC was killed from outside (rc=%s), running it again" % r.rc)
    return r


def tlc_many(ctx, jobs, width=8):
    """Run independent TLC jobs [(key, args, kwargs)] side by side (each in its own scratch copy of spec/); returns
    {key: TLCResult}.  ctx.tlc numbers its scratch directories without a lock: starts are staggered and a clash
    (FileExistsError from copytree) is simply repeated."""
    import concurrent.futures, time

    def one(i, a, kw):
        time.sleep(0.4 * i)
        for attempt in range(6):
            try:
                return tlc(ctx, *a, **kw)
            except FileExistsError:
                time.sleep(0.3)
        raise Infra("could not start TLC")
    out = {}
    with concurrent.futures.ThreadPoolExecutor(max_workers=width) as ex:
        futs = {key: ex.submit(one, i % width, a, kw) for i, (key, a, kw) in enumerate(jobs)}
        for key, f in futs.items():
            out[key] = f.result()
    return out


def lines_to(r, tag, path):
    n = 0
    with open(path, "w") as f:
        for s in r.lines(tag):
            f.write(s + "\n")
            n += 1
    return n


def driver(ctx, binp, args, timeout=3000, env=None):
    p = ctx.run([binp] + args, timeout=timeout, env=env)
    fails, summary = [], None
    for ln in p.stdout.splitlines():
        if not ln.startswith("{"):
            continue
        j = json.loads(ln)
        if j.get("summary"):
            summary = j
        elif j.get("ok") is False:
            fails.append(j)
    if p.returncode != 0 or summary is None:
        raise Infra("sighash %s failed rc=%d: %s %s" % (args[0], p.returncode, p.stdout[-1500:], p.stderr[-3000:]))
    return summary, fails, p.stderr


def race_env(ctx, tag, procs):
    return {"GOMAXPROCS": str(procs), "GORACE": "halt_on_error=0 exitcode=0 log_path=%s" % os.path.join(ctx.scratch, "race-" + tag)}


def race_reports(ctx, tag):
    """The detector's reports of a run (same classification as checks/c11.py): (in the repository, elsewhere), each a list
    of (signature, text).  A report counts against gocoin when the top non-runtime frames of BOTH accesses are in ctx.repo."""
    genuine, other = [], []
    repo = os.path.realpath(ctx.repo) + "/"
    for fn in glob.glob(os.path.join(ctx.scratch, "race-" + tag + ".*")):
        txt = open(fn, errors="replace").read()
        for blk in txt.split("=================="):
            if "WARNING: DATA RACE" not in blk:
                continue
            tops = []
            for sec in re.split(r"\n\s*\n", blk):
                m = re.search(r"^(?:Previous )?(?:[Aa]tomic )?(?:[Rr]ead|[Ww]rite) at 0x[0-9a-f]+ by .*?:\n((?:  .*\n?)+)", sec, re.M)
                if not m:
                    continue
                top = None
                for fun, path, line in re.findall(r"^  (\S.*)\n\s+(\S+?):(\d+)", m.group(1), re.M):
                    if "/go-" in path or "/go/src/" in path or path.startswith("/usr/lib/go") or "/golang" in path:
                        continue   # runtime / standard library frame: the caller is the one that matters
                    top = (re.sub(r"\(\)$", "", fun).replace("github.com/piotrnar/gocoin/", ""), path)
                    break
                tops.append(top)
            if len(tops) < 2 or any(t is None for t in tops[:2]):
                other.append(("unparsed", blk[:3000]))
                continue
            inrepo = [os.path.realpath(t[1]).startswith(repo) for t in tops[:2]]
            names = sorted(set("%s@%s" % (t[0], os.path.basename(t[1])) for t in tops[:2]))
            (genuine if all(inrepo) else other).append(("C02:race:" + "|".join(names), blk[:6000]))
    return genuine, other


def note_races(ctx, tag, replay):
    g, h = race_reports(ctx, tag)
    for sig, txt in g:
        ctx.violation(sig, dict(replay, kind="race", race_report=txt),
                      "data race inside the repository while digests are requested concurrently on one Tx object (%s)" % sig)
    if h:
        ctx.log("WARNING: %d race report(s) with an access outside the repository (not counted against gocoin): %s" % (len(h), h[0][1][:1500]))
        ctx.cov["harness_race_reports"] = ctx.cov.get("harness_race_reports", 0) + len(h)
    ctx.cov["race_reports_in_repo"] = ctx.cov.get("race_reports_in_repo", 0) + len(g)
    return len(g)


def signature(f):
    # stable shape of a failure: the rule (digest-<mode> / verdict-<mode> / undefined-accepted:<class> / cache-<mode>)
    return "C02:" + f.get("rule", "?")


def report(ctx, fails, kind, extra):
    # one replay file per signature: prefer a transaction that has outputs
    fails = sorted(fails, key=lambda f: isinstance(f.get("case"), dict) and f["case"].get("nout") == 0)
    for f in fails:
        if f.get("rule") == "driver":
            raise Infra("driver could not run a case: %s" % json.dumps(f)[:1500])
        ctx.violation(signature(f), dict(extra, kind=kind, case=f.get("case"), detail=f.get("detail")), f["what"])


def run(ctx):
    quick = ctx.tier == "quick"
    binp = ctx.build("sighash")
    test = os.path.join(ctx.repo, "lib", "test")
    cov = ctx.cov

    # ---- 0. the trusted reference checks itself
    p = ctx.run([binp, "selftest", "-seed", str(ctx.seed), "-bip340", os.path.join(test, "bip340_test_vectors.csv")], timeout=600)
    try:
        st = json.loads(p.stdout.strip().splitlines()[-1])
    except Exception:
        raise Infra("signer self-test gave no result: %s %s" % (p.stdout[-500:], p.stderr[-1500:]))
    if p.returncode != 0 or st.get("bad"):
        raise Infra("signer self-test failed: %s" % st)
    cov["signer_selftest"] = {"own_signatures": st.get("own_signatures"), "bip340_vectors": st.get("bip340_vectors")}

    vecfile = os.path.join(ctx.scratch, "vec.json")
    vargs = ["-sighash", os.path.join(test, "sighash.json"), "-txvalid", os.path.join(test, "tx_valid.json")]
    p = ctx.run([binp, "vecprep", "-out", vecfile] + vargs, timeout=600, check=True)
    nvec = json.loads(p.stdout.strip().splitlines()[-1])
    r = tlc(ctx, "SigHashGen", "SigHash_gen", workers=1, timeout=900, files={"vec.json": vecfile},
            defines=gen_defs(D(GENMODE="vectors", VECFILE="vec.json")))
    r.require_ok("vector export")
    vlines = os.path.join(ctx.scratch, "veclines.json")
    n = lines_to(r, "VFT", vlines)
    vs, vfails, _ = driver(ctx, binp, ["veccheck", "-in", vlines] + vargs)
    if n != nvec["vectors"] or vs["evaluated"] != n or vfails or vs["legacy_ok"] != vs["legacy"] or vs["bip143_ok"] != vs["bip143_sigs"]:
        raise Infra("reference self-check failed (the model or the reference misreads a definition): %s %s" % (vs, vfails[:3]))
    if vs["legacy"] < 400 or vs["bip143_sigs"] < 10:
        raise Infra("too few vectors found for the reference self-check: %s skipped=%s" % (vs, nvec.get("skipped")))
    cov["reference_selfcheck"] = {"core_legacy_vectors_reproduced": vs["legacy_ok"], "real_bip143_signatures_verified": vs["bip143_ok"]}
    ctx.log("reference self-check: %d legacy vectors, %d BIP143 signatures" % (vs["legacy_ok"], vs["bip143_ok"]))


    # ---- every TLC run of this check is independent of the replays: plan them all, run them side by side
    big = dict(NINS="1,2,3", NOUTS="0,1,2,3", MAXSEP=2, HT1=ALL)
    pbugs = ("acp_all_inputs", "none_keeps_outputs", "no_seq_zero")
    cbugs = ("nolock", "single_cached", "lock_if_nil", "wrong_input", "shared_outputs")
    SP = "PROPERTIES SlotsStable FillsAreNeeded"
    csets = [D(SPEC="CSpec", INVS=CINV, PROPLINE=SP, CNOUT=2, MAXREQ=3, CHT="1,3,131" if quick else CHT_FULL)]
    if not quick:
        csets += [D(SPEC="CSpec", INVS=CINV, PROPLINE=SP, CNOUT=1, MAXREQ=3, CHT="1,2,3,4,129,131"),
                  D(SPEC="CSpec", INVS=CINV, PROPLINE=SP, CNOUT=2, MAXREQ=4, THREADS=1),
                  D(SPEC="CSpec", INVS=CINV, PROPLINE=SP, CNIN=3, CNOUT=2, MAXREQ=3, CHT="1,3,4,131", CMODES='"bip143","bip341"')]
    if quick:
        gsets = [("all", D())]
    else:
        # what interacts is enumerated together: embedded signatures with script structure (smaller shapes, boundary
        # hash types); all 256 hash types with all shapes (scripts without embedded signature); for tapscript all
        # scripts with the boundary types and all 256 types with the scripts without code separator
        gsets = [("legacy-sig", D(MODES='"legacy"', MAXSEP=2)),
                 ("legacy-256", D(MODES='"legacy"', SIG="FALSE", LONG="FALSE", HT4LO="", HT4HI="", **big)),
                 ("bip143", D(MODES='"bip143"', **big)),
                 ("bip341-key", D(MODES='"bip341"', TAPKEY=ALL, TAPSCRIPT="", **big)),
                 ("bip341-scripts", D(MODES='"bip341"', TAPKEY="", TAPSCRIPT=TAPSET, **big)),
                 ("bip341-script-256", D(MODES='"bip341"', TAPKEY="", TAPSCRIPT=ALL, **dict(big, MAXSEP=0)))]
    full = D(GENMODE="cache", THREADS=1, CNIN=2, CNOUT=2, CHT=CHT_FULL)
    small = dict(CMODES='"bip143","bip341"', CHT="1,3,131")
    if quick:
        bsets = [("o2", dict(full, MAXREQ=2)),
                 ("t2", dict(full, MAXREQ=3, THREADS=2, CMODES='"bip143","bip341"', CHT="1,131"))]
    else:
        bsets = [("o3", dict(full, MAXREQ=3, CHT="0,1,3,4,129,131")),
                 ("o4", dict(full, MAXREQ=4, **small)),
                 ("t2", dict(full, MAXREQ=3, THREADS=2, **small)),
                 ("o3n1", dict(full, MAXREQ=3, CNOUT=1, CMODES='"bip143","bip341"', CHT="1,2,3,131")),
                 ("o3i3", dict(full, MAXREQ=3, CNIN=3, CNOUT=2, **small))]
    N = 1000 if quick else 2000
    cidx = sorted({0, 1, 2, N // 3, N // 2 - 1, N // 2, N - 2, N - 1})      # with and without a matching output (N/2 outputs)
    bdef = D(GENMODE="burst", CNIN=N, CNOUT=N // 2, CIDX=",".join(map(str, cidx)), CHT="0,1,2,3,129,130,131", BURSTLEN=1, INVS="")
    jobs = []
    for bug in pbugs:
        jobs.append(("pbug-" + bug, ("SigHash", "SigHash_mc"), dict(workers=2, timeout=900,
                     defines=mc_defs(D(SPEC="PSpec", INVS=PINV, BUG=bug, TAPKEY=TAPSET, MAXSEP=0, MULTI="FALSE", LONG="FALSE")))))
    for i, d in enumerate(csets):
        jobs.append(("cset-%d" % i, ("SigHash", "SigHash_mc"), dict(workers=4 if quick else 6, timeout=3000, defines=mc_defs(d))))
    for bug in cbugs:
        jobs.append(("cbug-" + bug, ("SigHash", "SigHash_mc"), dict(workers=2, timeout=900,
                     defines=mc_defs(D(SPEC="CSpec", INVS="CacheTransparent", BUG=bug, CHT="1,3,129,131", MAXREQ=3 if bug == "lock_if_nil" else 2)))))
    for tag, d in gsets:
        jobs.append(("gen-" + tag, ("SigHashGen", "SigHash_gen"), dict(workers=1, timeout=3000, defines=gen_defs(dict(d, INVS=PINV)))))
    for tag, d in bsets:
        jobs.append(("beh-" + tag, ("SigHashGen", "SigHash_gen"), dict(workers=1, timeout=3000, defines=gen_defs(dict(d, INVS=CINV)))))
    jobs.append(("burst", ("SigHashGen", "SigHash_gen"), dict(workers=1, timeout=3000, defines=gen_defs(bdef))))
    if not quick:
        # two request kinds per burst (also BIP143 and BIP341 requests mixed: they share hashLock)
        jobs.append(("burst2", ("SigHashGen", "SigHash_gen"), dict(workers=1, timeout=3000,
                     defines=gen_defs(dict(bdef, GENMODE="scenarios", CNIN=2, CNOUT=1, CIDX="0", CMODES='"bip143","bip341"', BURSTLEN=2)))))
    jobs.sort(key=lambda j: not j[0].startswith(("gen-", "cset-")))       # the long ones first
    R = tlc_many(ctx, jobs, width=10)

    # ---- 1. the design
    # (the flag-meaning invariants are evaluated by TLC on every enumerated case during the export runs of step 2;
    # here: the broken rules must be refuted, the cache machine must hold)
    states = transitions = cstates = 0
    refuted = []
    for bug in pbugs:
        r = R["pbug-" + bug]
        if not r.invariant:
            raise Infra("sanity: the preimage rules broken by %s should violate an invariant, TLC found none\n%s" % (bug, r.tail))
        refuted.append("%s violates %s" % (bug, r.invariant))
    for i, d in enumerate(csets):
        r = R["cset-%d" % i]
        if r.invariant:
            raise Infra("design-level counterexample in the cache machine (%s)\n%s" % (r.invariant, r.tail))
        r.require_ok("mc cache")
        states += r.distinct
        transitions += r.generated
        cstates += r.distinct
    for bug in cbugs:
        r = R["cbug-" + bug]
        if r.invariant != "CacheTransparent":
            raise Infra("sanity: the cache machine broken by %s should violate CacheTransparent, TLC says %s\n%s" % (bug, r.invariant, r.tail))
        refuted.append("%s violates %s" % (bug, r.invariant))
    cov["refuted_variants"] = refuted

    # ---- 2. every enumerated case on the real code
    tot = dict(lines=0, direct=0, e2e_pos=0, e2e_neg=0, undefined=0, candidates=0, ones=0, distinct_digests=0, distinct_layouts=0)
    by_mode = {}
    case_files = []
    for tag, d in gsets:
        r = R["gen-" + tag]
        if r.invariant:
            raise Infra("design-level counterexample during export (%s)\n%s" % (r.invariant, r.tail))
        r.require_ok("export " + tag)
        path = os.path.join(ctx.scratch, "cases-%s.json" % tag)
        n = lines_to(r, "VFT", path)
        if n != r.generated - 1 or n == 0:
            raise Infra("export %s: %d lines for %s generated states" % (tag, n, r.generated))
        states += r.distinct
        transitions += r.generated
        summ, fails, _ = driver(ctx, binp, ["replay", "-in", path, "-seed", str(ctx.seed)])
        if summ["lines"] != n:
            raise Infra("replay %s: %d of %d lines processed" % (tag, summ["lines"], n))
        ctx.log("replayed %d cases of set %s: %d digests compared, %d+%d spends verified, %d undefined cases (%d candidates): %d failures" % (
            n, tag, summ["direct"], summ["e2e_pos"], summ["e2e_neg"], summ["undefined"], summ["candidates"], summ["fail"]))
        report(ctx, fails, "case", {"seed": ctx.seed})
        for k in tot:
            tot[k] += summ[k]
        for k, v in summ["by_mode"].items():
            by_mode[k] = by_mode.get(k, 0) + v
        case_files.append(path)
        with open(path) as fh:
            for i, l in enumerate(fh):
                if i in (7, n // 2, n - 3) and len(cov["samples"]) < 4:
                    ctx.sample(json.loads(l), limit=4)

    # ---- 3. request orders of the cache machine on one Tx object
    orders = calls = 0
    cfirst = None
    racebin_all = ctx.build("sighash", race=True)
    racebin = None if quick else racebin_all
    for tag, d in bsets:
        r = R["beh-" + tag]
        if r.invariant:
            raise Infra("design-level counterexample in the cache machine during export (%s)\n%s" % (r.invariant, r.tail))
        r.require_ok("cache export " + tag)
        table = os.path.join(ctx.scratch, "table-%s.json" % tag)
        beh = os.path.join(ctx.scratch, "orders-%s.json" % tag)
        nt = lines_to(r, "VFR", table)
        nb = lines_to(r, "VFB", beh)
        if nt == 0 or nb == 0:
            raise Infra("cache export %s produced nothing\n%s" % (tag, r.tail))
        states += r.distinct
        transitions += r.generated
        args = ["cache", "-table", table, "-in", beh, "-nin", str(d["CNIN"]), "-nout", str(d["CNOUT"]), "-seed", str(ctx.seed)]
        summ, fails, _ = driver(ctx, binp, args + ["-conc", "2" if quick else "4"])
        if summ["lines"] != nb:
            raise Infra("cache replay %s: %d of %d lines processed" % (tag, summ["lines"], nb))
        ctx.log("replayed %d request orders of set %s (%d sequential, %d concurrent calls): %d failures" % (nb, tag, summ["calls"], summ["concurrent_calls"], summ["fail"]))
        report(ctx, fails, "cache", {"seed": ctx.seed, "nin": d["CNIN"], "nout": d["CNOUT"], "table": open(table).read().splitlines()})
        orders += nb
        calls += summ["calls"] + summ["concurrent_calls"]
        if cfirst is None:
            cfirst = (table, beh, d)
        if racebin:
            for procs in (2, 16):
                rtag = "c%s-%d" % (tag, procs)
                rp = {"seed": ctx.seed, "nin": d["CNIN"], "nout": d["CNOUT"], "table": open(table).read().splitlines()}
                summ, fails, err = driver(ctx, racebin, args + ["-conc", "2"], env=race_env(ctx, rtag, procs), timeout=3000)
                report(ctx, fails, "cache", rp)
                calls += summ["calls"] + summ["concurrent_calls"]
                note_races(ctx, rtag, {"seed": ctx.seed, "stage": "cache orders " + tag, "gomaxprocs": procs})
            with open(beh) as fh:
                for i, l in enumerate(fh):
                    if i == nb // 2 and len(cov["samples"]) < 5:
                        ctx.sample(json.loads(l), limit=5)


    # ---- 3b. warm-up prefix + concurrent burst on transactions with many inputs (filling a cache takes long)
    r = R["burst"]
    r.require_ok("burst export")
    btable = os.path.join(ctx.scratch, "burst-table.json")
    bscen = os.path.join(ctx.scratch, "burst-scen.json")
    nt, ns = lines_to(r, "VFR", btable), lines_to(r, "VFS", bscen)
    if not quick:
        r = R["burst2"]
        r.require_ok("burst scenario export")
        with open(bscen, "a") as f:
            for sline in r.lines("VFS"):
                if sline.count('"mode"') > 2:       # the one-kind bursts are in the file already
                    f.write(sline + "\n")
                    ns += 1
    if nt == 0 or ns == 0:
        raise Infra("burst export produced nothing\n" + r.tail)
    bargs = ["burst", "-table", btable, "-nin", str(N), "-nout", str(N // 2), "-seed", str(ctx.seed), "-g", "8", "-per", "3"]
    burst_runs = burst_calls = burst_nontrivial = 0
    for procs in (2, 4, 16):
        summ, fails, _ = driver(ctx, binp, bargs + ["-in", bscen, "-reps", "2" if quick else "3"], env={"GOMAXPROCS": str(procs)}, timeout=3000)
        if summ["scenarios"] != ns:
            raise Infra("burst replay: %d of %d scenarios processed" % (summ["scenarios"], ns))
        ctx.log("burst stage GOMAXPROCS=%d: %d scenarios (%d with cold cache slots) x %d repetitions on a %d-input transaction, %d digests compared: %d wrong in %d runs" % (
            procs, ns, summ["nontrivial"], 2 if quick else 3, N, summ["calls"], summ["fail"], summ["failed_runs"]))
        report(ctx, fails, "burst", {"seed": ctx.seed, "nin": N, "cidx": cidx, "gomaxprocs": procs})
        burst_runs += summ["runs"]
        burst_calls += summ["calls"]
        burst_nontrivial = summ["nontrivial"]
    # once under the race detector: the scenarios in which the burst has to fill a cache slot
    rscen = os.path.join(ctx.scratch, "burst-scen-race.json")
    with open(bscen) as f, open(rscen, "w") as g:
        k = 0
        for l in f:
            if '"cold":[]' not in l:
                k += 1
                if quick and k % 2:
                    continue
                g.write(l)
    summ, fails, _ = driver(ctx, racebin_all, bargs + ["-in", rscen, "-reps", "1"], env=race_env(ctx, "burst", 4), timeout=3000)
    report(ctx, fails, "burst", {"seed": ctx.seed, "nin": N, "cidx": cidx, "gomaxprocs": 4, "race_build": True})
    nraces = note_races(ctx, "burst", {"seed": ctx.seed, "stage": "burst", "nin": N, "gomaxprocs": 4})
    ctx.log("burst stage under the race detector: %d scenarios, %d digests compared, %d wrong, %d race report(s) inside the repository" % (
        summ["scenarios"], summ["calls"], summ["fail"], nraces))
    burst_runs += summ["runs"]
    burst_calls += summ["calls"]
    with open(bscen) as fh:
        for i, l in enumerate(fh):
            if i == ns // 3 and len(cov["samples"]) < 6:
                ctx.sample(json.loads(l), limit=6)

    # ---- coverage (measured)
    ctx.level = "exploration"
    cov.update({"evaluations": tot["lines"], "distinct_nontrivial": tot["distinct_layouts"],
                "rule": "TLC enumerates (mode, inputs, outputs, input index, hash type, script tokens, annex, path) exhaustively within the bounds of checks/c02.py; "
                        "every case is one evaluation (digest compared and / or spends verified on the real code). distinct_nontrivial = number of DISTINCT "
                        "preimage layouts (descriptor sequences incl. nested hashes, or the constant ONE) among the evaluated cases with a defined digest, "
                        "counted by the driver; undefined cases and repeated layouts are not counted",
                "exhaustive": True,
                "cases_by_mode_with_digest": by_mode, "digests_compared": tot["direct"], "distinct_reference_digests": tot["distinct_digests"],
                "legacy_single_bug_ONE_cases": tot["ones"], "spends_signed_over_reference_digest_verified": tot["e2e_pos"], "spends_signed_over_another_digest_verified": tot["e2e_neg"],
                "undefined_cases": tot["undefined"], "undefined_candidate_signatures": tot["candidates"],
                "cache_request_orders_replayed": orders, "cache_calls_compared": calls, "race_detector": True, "burst_scenarios": ns, "burst_scenarios_with_cold_slots": burst_nontrivial, "burst_inputs": N,
                "burst_runs": burst_runs, "burst_digests_compared": burst_calls,
                "states": states, "transitions": transitions, "cache_machine_states": cstates})
    ctx.assumptions += [
        "SHA-256, the descriptor -> bytes step, secp256k1 / ECDSA / BIP340 signing are the driver's own code (crypto/sha256, math/big), checked on every run against "
        "Bitcoin Core's legacy vectors, real BIP143 signatures and the BIP340 vectors; the model fixes the layout, not the bit-level serialisation",
        "scripts are well-formed, hold one signature check (OP_CHECKSIG, or 1-of-1 OP_CHECKMULTISIG before tapscript), 0..%d OP_CODESEPARATORs (executed or in an "
        "OP_0 OP_IF branch), 0..1 push of the signature itself (canonical push; also of a 76..128-byte zero-padded signature under pre-BIP66 flags); bare, P2WSH, "
        "P2WPKH, taproot key path and script path (OP_CHECKSIG / OP_CHECKSIGADD; Merkle paths of length 0, 1, 2, 3, 128 with both branch orders for the defined hash types); "
        "P2SH wrappers, n-of-m multisig and truncated pushes are not enumerated" % (1 if quick else 2),
        "transactions: %s, seeded random field values (scripts up to 300 bytes so CompactSize 0xfd occurs)" % ("1..2 inputs, 0..2 outputs" if quick else "1..3 inputs, 0..3 outputs"),
        "four-byte hash types reach only the function level (the interpreter takes the hash type from one signature byte)",
        "concurrent replays and bursts do not control the interleaving (no hooks): goroutines are released together, repeated, at GOMAXPROCS 2/4/16, "
        "on many-input transactions so that cache fills take long; plus the race detector (burst stage: both tiers; cache orders: thorough tier)"]

    # ---- 4. binding self-tests (only meaningful when the unmodified inputs were accepted)
    # (the self-test corrupts predictions of cases that pass; it does not depend on failing ones)
    mut = os.path.join(ctx.scratch, "mut.json")
    kinds = set()
    with open(mut, "w") as g:
        for cf in case_files:
            if len(kinds) == 3:
                break
            with open(cf) as f:
                for l in f:
                    if len(kinds) == 3:
                        break
                    if '"ht":[1,0]' not in l:
                        continue
                    j = json.loads(l)
                    q, pre = j["q"], j["pre"]
                    k = None
                    if pre["def"] == "digest" and q["nin"] >= 2 and q["ht"] == [1, 0]:
                        if q["mode"] == "legacy" and "legacy" not in kinds:
                            # swap two fields of the legacy serialisation
                            pre["fields"][2], pre["fields"][4] = pre["fields"][4], pre["fields"][2]
                            k = "legacy"
                        elif q["mode"] == "bip143" and "bip143" not in kinds:
                            pre["fields"][2] = {"k": "zerohash", "n": 0, "of": [], "t": []}
                            k = "bip143"
                        elif q["mode"] == "bip341" and q["path"] == "script" and "bip341" not in kinds:
                            pre["fields"][-1]["n"] += 1        # codesep_pos off by one
                            k = "bip341"
                    if k:
                        kinds.add(k)
                        g.write(json.dumps(j) + "\n")
    summ, fails, _ = driver(ctx, binp, ["replay", "-in", mut, "-seed", str(ctx.seed)])
    bad = [k for k in ("legacy", "bip143", "bip341") if k in kinds and not any(f["rule"] == "digest-" + k for f in fails)]
    if len(kinds) < 3 or bad:
        raise Infra("binding self-test failed: corrupted predictions %s not rejected (%s built)" % (bad, sorted(kinds)))
    table, beh, d = cfirst
    tmut = os.path.join(ctx.scratch, "table-mut.json")
    done = False
    with open(table) as f, open(tmut, "w") as g:
        for l in f:
            j = json.loads(l)
            if not done and j["req"]["mode"] == "bip143" and j["pre"]["def"] == "digest" and j["req"]["lo"] == 1:
                j["pre"]["fields"][1], j["pre"]["fields"][2] = j["pre"]["fields"][2], j["pre"]["fields"][1]
                done = True
            g.write(json.dumps(j) + "\n")
    summ, fails, _ = driver(ctx, binp, ["cache", "-table", tmut, "-in", beh, "-nin", str(d["CNIN"]), "-nout", str(d["CNOUT"]), "-seed", str(ctx.seed), "-conc", "1"])
    if not done or not any(f["rule"] == "cache-bip143" for f in fails):
        raise Infra("binding self-test failed: a corrupted request table was not rejected by the cache replay")
    cov["binding_selftest"] = "corrupted predictions rejected: " + ", ".join(sorted(kinds)) + ", cache table"


def replay_cmd(ctx, path):
    j = json.load(open(path))
    rp = j["replay"]
    binp = ctx.build("sighash")
    if rp.get("kind") == "case":
        # the driver derives the transaction from (seed, case), so the case is reproduced from its parameters:
        # re-export the one case is not needed - rebuild the exported line from the model for exactly this case
        q = rp["case"]
        d = D(GENMODE="cases", MODES='"%s"' % q["mode"], NINS=q["nin"], NOUTS=q["nout"], MAXSEP=2, UCS="TRUE", SIG="TRUE",
              HT1=q["ht"][0], HT4LO=q["ht"][0], HT4HI=q["ht"][1] or 1, TAPKEY=q["ht"][0], TAPSCRIPT=q["ht"][0])
        r = tlc(ctx, "SigHashGen", "SigHash_gen", workers=1, defines=gen_defs(d), timeout=900)
        r.require_ok("re-export")
        one = os.path.join(ctx.scratch, "one.json")
        n = 0
        with open(one, "w") as f:
            for s in r.lines("VFT"):
                if json.loads(s)["q"] == q:
                    f.write(s + "\n")
                    n += 1
        if n != 1:
            raise Infra("the case of the replay file was not re-generated by the model")
        summ, fails, _ = driver(ctx, binp, ["replay", "-in", one, "-seed", str(rp["seed"])])
    elif rp.get("kind") == "cache":
        table = os.path.join(ctx.scratch, "t.json")
        open(table, "w").write("\n".join(rp["table"]) + "\n")
        beh = os.path.join(ctx.scratch, "b.json")
        open(beh, "w").write(json.dumps({"steps": rp["case"]}) + "\n")
        summ, fails, _ = driver(ctx, binp, ["cache", "-table", table, "-in", beh, "-nin", str(rp["nin"]), "-nout", str(rp["nout"]), "-seed", str(rp["seed"]), "-conc", "8"])
    elif rp.get("kind") == "burst":
        n = rp["nin"]
        d = D(GENMODE="burst", CNIN=n, CNOUT=n // 2, CIDX=",".join(map(str, rp["cidx"])), CHT="0,1,2,3,129,130,131", BURSTLEN=1, INVS="")
        r = tlc(ctx, "SigHashGen", "SigHash_gen", workers=1, defines=gen_defs(d), timeout=3000)
        r.require_ok("re-export")
        table = os.path.join(ctx.scratch, "t.json")
        lines_to(r, "VFR", table)
        sc = os.path.join(ctx.scratch, "s.json")
        open(sc, "w").write(json.dumps(rp["case"]) + "\n")
        fails = []
        for procs in sorted({2, 4, 16, rp.get("gomaxprocs", 4)}):
            summ, f, _ = driver(ctx, binp, ["burst", "-table", table, "-in", sc, "-nin", str(n), "-nout", str(n // 2), "-seed", str(rp["seed"]),
                                            "-reps", "30"], env={"GOMAXPROCS": str(procs)})
            print("GOMAXPROCS=%d: %d of %d runs with a wrong digest" % (procs, summ["failed_runs"], summ["runs"]))
            fails += f[:2]
    else:
        print("race reports: re-run the check with the same VERIF_SEED (the burst stage runs under the race detector in both tiers)")
        return 2
    for f in fails:
        print("reproduced:", f["what"])
        print(json.dumps(f.get("detail"))[:2000])
    return 1 if fails else 0
