"""C06 - the tip is the most-work valid chain and the UTXO set equals its replay.

Ledger.tla (Deliver / MoveTo / UndoTo / ParseTill / DeleteBranch / Farthest, transcribed from lib/chain) over the
Fork scenario families: TLC checks UtxoIsReplay, TipIsBest, TreeOK, FirstSeenWins, RefusedLeavesNoTrace over every
delivery order (children before parents included); every transition is replayed on a real chain comparing
verdict, tip and the full UTXO dump (undo correctness = the dump after every reorganisation)."""
import json
from vf import Infra
import ledger_common as L

KINDS = ("tip", "utxo", "later", "finding", "verdict")


def run(ctx):
    quick = ctx.tier == "quick"
    binp = ctx.build("ledger")
    states = transitions = replayed = 0
    # (family, blocks, bound on deliveries quick / thorough, Idle calls interleaved)
    fams = [("ForkA", 6, 9, "FALSE"), ("ForkB", 6, 10, "FALSE"), ("ForkC", 8, 8, "FALSE"), ("ForkD", 5, 7, "TRUE"),
            ("ForkE", 7, 7, "TRUE"), ("Retarget", 6, 8, "FALSE")]
    if not quick:
        fams += [("ForkA", 9, 9, "TRUE"), ("ForkC", 8, 8, "TRUE")]
    first = None
    for fam, dq, dt, idle in fams:
        depth = dq if quick else dt
        r = L.mc(ctx, fam, depth, allowidle=idle)
        if r.invariant:
            raise Infra("design-level counterexample in Ledger/%s (%s)\n%s" % (fam, r.invariant, r.tail))
        r.require_ok("mc " + fam)
        states += r.distinct
        transitions += r.generated
        ex, lines, scen, n = L.export(ctx, fam, depth, fam, allowidle=idle)
        summ, fails = L.replay(ctx, binp, scen, lines, fam)
        ctx.log("%s depth %d idle=%s: %d transitions replayed, %d failures" % (fam, depth, idle, summ["lines"], summ["fail"]))
        L.report(ctx, fam, fails, KINDS)
        replayed += summ["lines"]
        if first is None:
            first = (scen, lines)
            with open(lines) as fh:
                for i, l in enumerate(fh):
                    if i in (10, 700):
                        ctx.sample(json.loads(l))
        if fam in ("ForkA", "ForkC") and idle == "FALSE":
            # compressed UTXO records: the record format must not matter for undo / replay
            summ, fails = L.replay(ctx, binp, scen, lines, fam + "-c", compress=True)
            L.report(ctx, fam, fails, KINDS)
            replayed += summ["lines"]
    # the strict form of "a refused block changes nothing" must be refuted by TLC: shows the property bites and
    # documents the known finding at design level
    rs = L.mc(ctx, "ForkA", 6, cfg="Ledger_mc_strict", timeout=900)
    if rs.invariant != "RefusedLeavesNoTraceStrict":
        raise Infra("sanity: RefusedLeavesNoTraceStrict should be refuted on ForkA, got %s\n%s" % (rs.invariant, rs.tail))
    ctx.cov["design_counterexample"] = "RefusedLeavesNoTraceStrict refuted on ForkA (tie after failed reorganisation)"
    if not ctx.violations:
        L.selftest(ctx, binp, first[0], first[1])
    # R->V: seeded random block trees with random (partly invalid) transactions, random delivery orders
    hist, events, st2 = L.record_validate(ctx, binp, 8 if quick else 120, 14 if quick else 18, 5 if quick else 8)
    ctx.log("R->V: %d random histories (%d events) validated by TraceLedger" % (hist, events))
    replayed += hist
    states += st2
    ctx.cov["recorded_random_histories"] = hist
    ctx.level = "model_checking"
    # header-first synchronisation (AcceptHeader, data arriving later, cached blocks): spec/HeaderSync.tla
    import c06_headers
    hdr = c06_headers.stage(ctx)   # violations carry signatures "C06:hdr:..."
    ctx.cov["header_first"] = hdr
    states += hdr["states"]
    transitions += hdr["transitions"]
    replayed += hdr["replayed"]
    ctx.cov.update({"states": states, "transitions": transitions, "traces_validated_against_impl": replayed,
                    "exhaustive": True, "families": sorted(set(f[0] for f in fams)),
                    "rule": "every delivery order (bounded length) of the ForkA / ForkB block trees; every transition replayed on lib/chain with plain and compressed UTXO records; tip + full UTXO dump compared"})
    ctx.assumptions += ["work differs between blocks only in family Retarget (first retarget at height 2016, difficulty x4 against x1); MorePOW's float arithmetic is exercised only there",
                        "header-first histories go through the real ProcessNewHeader / lib/chain; the client's unexported glue (HandleNetBlock, LocalAcceptBlock, retry_cached_blocks) is transcribed in the driver and guarded by a source-text check"]


def replay_cmd(ctx, path):
    j = json.load(open(path))
    print(json.dumps(j, indent=1)[:4000])
    print("re-run: VERIF_SEED=%d bin/check %s --tier %s" % (j["seed"], j["property"], j["tier"]))
    return 2
