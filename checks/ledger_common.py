"""Shared machinery of the Ledger-based checks (C04, C06, C17): spec/Ledger.tla + LedgerMC scenarios,
LedgerGen export, harness/cmd/ledger replay on the real lib/chain + lib/utxo (+ client/wallet)."""
import json, os
from vf import Infra


BASEH = {"Retarget": 2014}     # base-chain height per scenario family (default 120)


def mc(ctx, fam, maxdeliver, allowbal="FALSE", checkmoney="TRUE", checkbip68="TRUE", timeout=3000, cfg="Ledger_mc", allowidle="FALSE"):
    d = dict(FAM=fam, MAXDELIVER=maxdeliver, CHECKMONEY=checkmoney, CHECKBIP68=checkbip68, ALLOWBAL=allowbal, ALLOWIDLE=allowidle,
             BASEH=BASEH.get(fam, 120))
    return ctx.tlc("LedgerMC", cfg, defines=d, timeout=timeout)


def export(ctx, fam, maxdeliver, tag, allowbal="FALSE", emitat=0, simulate=None, depth=None, timeout=3000, allowidle="FALSE"):
    d = dict(FAM=fam, MAXDELIVER=maxdeliver, CHECKMONEY="TRUE", CHECKBIP68="TRUE", ALLOWBAL=allowbal, EMITAT=emitat, ALLOWIDLE=allowidle,
             BASEH=BASEH.get(fam, 120))
    r = ctx.tlc("LedgerGen", "Ledger_gen", workers=1, defines=d, simulate=simulate, depth=depth, timeout=timeout)
    r.require_ok("export " + tag)
    path = os.path.join(ctx.scratch, "lines-%s.json" % tag)
    scen = os.path.join(ctx.scratch, "scen-%s.json" % tag)
    n = 0
    with open(path, "w") as f:
        for s in r.lines("VFT"):
            f.write(s + "\n")
            n += 1
    ss = list(r.lines("VFS"))
    if not ss:
        raise Infra("export %s printed no scenario" % tag)
    open(scen, "w").write(ss[0])
    if n == 0:
        raise Infra("export %s printed no behaviours" % tag)
    return r, path, scen, n


def replay(ctx, binp, scen, lines, tag, bal=False, compress=False, workers=16, extra_env=None):
    d = os.path.join(ctx.scratch, "lg-" + tag)
    os.makedirs(d, exist_ok=True)
    argv = [binp, "replay", "-scenario", scen, "-in", lines, "-dir", d, "-workers", str(workers)]
    if bal:
        argv.append("-bal")
    if compress:
        argv.append("-compress")
    p = ctx.run(argv, timeout=3000, env=extra_env)
    import shutil
    shutil.rmtree(d, ignore_errors=True)
    if p.returncode != 0:
        raise Infra("ledger driver failed rc=%d: %s" % (p.returncode, p.stderr[-3000:]))
    fails, summary = [], None
    for ln in p.stdout.splitlines():
        if not ln.startswith("{"):
            continue
        try:
            j = json.loads(ln)
        except ValueError:
            continue
        if j.get("summary"):
            summary = j
        elif "kind" in j:
            fails.append(j)
    if summary is None:
        raise Infra("ledger driver gave no summary: " + p.stdout[-500:] + p.stderr[-1500:])
    return summary, fails


def split_parallel(ctx, binp, scen, lines, tag, nproc, **kw):
    """-bal replays are one chain per process (client/wallet is global): split the lines over processes."""
    import concurrent.futures
    allines = open(lines).read().splitlines()
    chunks = [allines[i::nproc] for i in range(nproc)]
    res = []
    with concurrent.futures.ThreadPoolExecutor(nproc) as ex:
        futs = []
        for i, ch in enumerate(chunks):
            if not ch:
                continue
            p = os.path.join(ctx.scratch, "lines-%s-%d.json" % (tag, i))
            open(p, "w").write("\n".join(ch) + "\n")
            futs.append(ex.submit(replay, ctx, binp, scen, p, "%s-%d" % (tag, i), **kw))
        for f in futs:
            res.append(f.result())
    summ = {"lines": sum(r[0]["lines"] for r in res), "steps": sum(r[0]["steps"] for r in res), "fail": sum(r[0]["fail"] for r in res)}
    fails = [x for r in res for x in r[1]]
    return summ, fails


def report(ctx, fam, fails, kinds):
    """Turn driver failures into violations. kinds: failure kinds this property owns."""
    n = 0
    for f in fails:
        k = f["kind"]
        if k == "infra":
            raise Infra("driver: " + f["what"])
        if k == "finding":
            sig = "%s:%s" % (ctx.pid, f["what"])
            what = "model of the code and the code agree on a step that breaks the property: " + f["what"]
        elif k == "verdict":
            sig = "%s:verdict:%s:b%d:%s" % (ctx.pid, fam, f.get("b", 0), "+".join(f.get("viol") or []) or "valid-refused")
            what = f["what"]
        else:
            sig = "%s:%s:%s:b%d" % (ctx.pid, k, fam, f.get("b", 0))
            what = f["what"]
        if k not in kinds and k != "panic":
            continue
        ctx.violation(sig, {"family": fam, "line": f.get("line"), "step": f.get("step"), "kind": k}, what)
        n += 1
    return n


def selftest(ctx, binp, scen, lines):
    """A corrupted prediction must be rejected by the replay driver."""
    mut = os.path.join(ctx.scratch, "mut.json")
    done = 0
    with open(lines) as f, open(mut, "w") as g:
        for l in f:
            j = json.loads(l)
            la = j.get("last")
            if la and la["a"] == "Deliver" and la["p"]["acc"] and la["p"]["unew"] and done == 0:
                la["p"]["unew"] = la["p"]["unew"][1:]
                g.write(json.dumps(j) + "\n")
                done += 1
            elif la and la["a"] == "Deliver" and la["p"]["acc"] and done == 1:
                la["p"]["acc"] = False
                g.write(json.dumps(j) + "\n")
                done += 1
            if done == 2:
                break
    if done < 2:
        raise Infra("self-test: no suitable lines")
    summ, fails = replay(ctx, binp, scen, mut, "mut", workers=2)
    if summ["fail"] != 2:
        raise Infra("binding self-test failed: %d of 2 corrupted predictions rejected" % summ["fail"])


def record_validate(ctx, binp, nscen, nblocks, orders, tag="rv", bal=False):
    """R->V: seeded random scenarios delivered in random orders to real chains; every observation must be what
    Ledger.tla computes (TraceLedger). Returns (#histories validated, #events, states)."""
    import concurrent.futures, re

    def one(i):
        seed = ctx.seed * 1000 + i
        d = os.path.join(ctx.scratch, "%s-%d" % (tag, i))
        os.makedirs(d, exist_ok=True)
        scen, tr = os.path.join(d, "scenario.json"), os.path.join(d, "trace.ndjson")
        argv = [binp, "record", "-dir", d, "-seed", str(seed), "-blocks", str(nblocks), "-orders", str(orders),
                "-scenario-out", scen, "-trace-out", tr]
        if i % 3 == 2 and not bal:
            argv.append("-compress")
        if bal:
            argv.append("-bal")
        p = ctx.run(argv, timeout=1200)
        if p.returncode != 0:
            raise Infra("ledger record failed: " + p.stderr[-2000:])
        summ = None
        for ln in reversed(p.stdout.splitlines()):
            if ln.startswith("{"):
                summ = json.loads(ln)
                break
        if summ is None:
            raise Infra("ledger record printed no summary")
        r = ctx.tlc("TraceLedger", "Ledger_trace", workers=1, timeout=1200, files={"scenario.json": scen, "trace.ndjson": tr})
        hw = None
        for line in open(r.outpath, errors="replace"):
            m = re.search(r"VFREJECT\", (\d+)", line)
            if m:
                hw = int(m.group(1))
        return i, seed, summ, r, hw, scen, tr

    hist = events = states = 0
    keep = None
    with concurrent.futures.ThreadPoolExecutor(8) as ex:
        for i, seed, summ, r, hw, scen, tr in ex.map(one, range(nscen)):
            for pr in summ.get("problems", []):
                kind = "balance" if pr.startswith("balance index") else "utxo-record"
                ctx.violation("%s:%s:%s" % (ctx.pid, kind, re.sub(r"\d+", "N", pr)[:60]), {"scenario_seed": seed, "problem": pr, "scenario": json.load(open(scen))}, pr)
            if r.ok:
                hist += orders
                events += summ["events"]
                states += r.distinct or 0
                if keep is None:
                    keep = (scen, tr)
                continue
            if hw is None and not r.invariant:
                raise Infra("TraceLedger run broke\n" + r.tail)
            lines = open(tr).read().splitlines()
            ev = json.loads(lines[hw - 1]) if hw and hw <= len(lines) else {}
            ev.pop("unew", None)
            what = "random history (scenario seed %d) is not a behaviour of Ledger at event %s: %s" % (seed, hw, json.dumps(ev)[:200])
            if r.invariant:
                what = "invariant %s violated on a recorded random history (scenario seed %d, event %s)" % (r.invariant, seed, hw)
            ctx.violation("%s:trace:%s" % (ctx.pid, r.invariant or ("acc=%s" % ev.get("acc"))),
                          {"scenario": json.load(open(scen)), "trace": lines[:(hw or 0) + 1][-40:], "tlc": r.tail[-2000:]}, what)
    # binding self-test: a corrupted observation must be rejected
    if keep and not ctx.violations:
        scen, tr = keep
        lines = open(tr).read().splitlines()
        k = next(i for i, l in enumerate(lines) if '"acc":true' in l)
        j = json.loads(lines[k])
        j["tip"] = j["tip"] + 1 if j["tip"] != 1 else 2
        lines[k] = json.dumps(j)
        mp = os.path.join(ctx.scratch, "rv-mut.ndjson")
        open(mp, "w").write("\n".join(lines[:k + 2]) + "\n")
        r = ctx.tlc("TraceLedger", "Ledger_trace", workers=1, timeout=600, files={"scenario.json": scen, "trace.ndjson": mp})
        if r.ok:
            raise Infra("binding self-test failed: a corrupted recorded observation was accepted by TraceLedger")
    return hist, events, states
