"""C05 - blocks violating header, structure or commitment rules are never accepted.

spec/BlockRules.tla   the acceptance predicate HeaderOK /\\ BodyOK written from the Bitcoin consensus rules over an
                      abstract context (network kind, timestamps / targets of the parent chain, activation heights)
                      and an abstract block descriptor (one class per rule input)
  1. TLC (BlockRules_mc): the decision table = every base descriptor + every single deviation + every pair of
     deviations in every context; invariants Agree (two formulations of the rules), BaseValid, Anchors (hand-stated
     boundary verdicts), NoUnmasking, CtxChainOK.  Deliberately wrong rules (Break) must be refuted.
  2. G->R (BlockRulesGen): every (context, descriptor) is exported with the verdict; harness/cmd/blockrules builds
     the context's parent chain for real (minimum difficulty, real retargets), builds the descriptor's block and calls
     Chain.CheckBlock (+ AcceptBlock): accepted must equal the verdict; a refusal must change nothing; a block that
     violates one of these rules must already be stopped by CheckBlock (the property's observation point), not only
     by AcceptBlock's transaction processing ("refused-late"); a parent chain that is valid by the rules must be
     accepted block by block ("parent-chain").
  3. compact-target encodings: the model's (exponent, mantissa) classes, lib/btc SetCompact / GetCompact /
     CheckProofOfWork against the harness's math/big reference.
  4. binding self-test: corrupted verdicts must be rejected by the driver.
"""
import json, os, random, shutil
from vf import Infra

NETS = ["main", "test3", "test4"]
DEPS = ["b34", "b66", "b65", "csv", "sw"]
SHORT = [0, 1, 2, 5, 10, 15, 16]
PLAIN = ["on", "off", "h255", "h256", "plain-main", "plain-test3"]
ACT = ["%s-%s" % (k, x) for k in ("at", "next", "prev") for x in DEPS]
SHORTS = ["short-%d" % p for p in SHORT]
RT = ["%s-%s-%d" % (r, n, k) for r in ("rt1", "rt2") for n in NETS for k in range(1, 10)] + ["rt3-%s-%d" % (n, k) for n in NETS for k in (1, 2, 3)]
PR = ["%s-%s" % (r, n) for r in ("pr1", "pr2", "pr3") for n in NETS]
ALL = PLAIN + ACT + SHORTS + RT + PR

# which descriptor fields a rule reads (for failure signatures)
RULE_FIELDS = {"pow": ["pow", "bits"], "bits": ["bits", "time"], "time-old": ["time"], "time-new": ["time"], "version": ["ver"],
               "length": ["cb"], "cb-missing": ["cb"], "cb-multiple": ["cb"], "cb-length": ["cblen"], "cb-height": ["b34", "cblen"],
               "nonfinal": ["lock", "seqfin", "ltx", "time"], "merkle": ["merkle"], "mutated": ["merkle", "ntx"],
               "wit-commit": ["commit", "witdata"], "wit-nonce": ["commit", "witdata"], "wit-unexpected": ["commit", "witdata"],
               "weight": ["weight"]}


def q(names):
    return ",".join('"%s"' % n for n in names)


def defines(ctxsel, pairs, heavy, heavypairs, brk=None):
    d = dict(CTXSEL=q(ctxsel), PAIRCTX=q(pairs), HEAVYCTX=q(heavy), HEAVYPAIRS="TRUE" if heavypairs else "FALSE")
    if brk is not None:
        d["BREAK"] = brk
    return d


def signature(f):
    k = f["kind"]
    ln = f.get("line") or {}
    d = ln.get("d") or {}
    devs = ln.get("devs") or []
    if k in ("invalid-accepted", "refused-late"):
        fields = sorted({x for v in f.get("viol") or [] for x in RULE_FIELDS.get(v, [])} & set(devs))
        return "C05:%s:%s:%s" % (k, "+".join(sorted(f.get("viol") or [])), ",".join("%s=%s" % (x, d.get(x)) for x in fields))
    if k == "valid-refused":
        return "C05:valid-refused:%s:%s" % (f.get("c"), ",".join("%s=%s" % (x, d.get(x)) for x in sorted(devs)))
    if k == "parent-chain":
        return "C05:parent-chain:%s" % f.get("c")
    return "C05:%s:%s:%s" % (k, f.get("c"), ",".join("%s=%s" % (x, d.get(x)) for x in sorted(devs)))


def run_driver(ctx, binp, argv, tag, timeout=3000):
    d = os.path.join(ctx.scratch, "br-" + tag)
    os.makedirs(d, exist_ok=True)
    p = ctx.run([binp] + argv + (["-dir", d] if argv[0] == "replay" else []), timeout=timeout)
    shutil.rmtree(d, ignore_errors=True)
    if p.returncode != 0:
        raise Infra("blockrules driver failed rc=%d: %s" % (p.returncode, p.stderr[-3000:]))
    fails, summary = [], None
    for ln in p.stdout.splitlines():
        if not ln.startswith("{"):
            continue
        try:
            j = json.loads(ln)
        except ValueError:
            continue
        if j.get("summary"):
            summary = j
        elif "kind" in j:
            fails.append(j)
    if summary is None:
        raise Infra("blockrules driver gave no summary: " + p.stdout[-500:] + p.stderr[-1500:])
    return summary, fails


def tlc(ctx, *a, **kw):
    """ctx.tlc, repeated once when the JVM was killed from outside (other jobs on this machine pkill TLC)."""
    r = ctx.tlc(*a, **kw)
    if r.rc in (143, 137, 130, 129) and not r.timeout:
        ctx.log("TLC was killed by a signal (rc=%d): running it again" % r.rc)
        r = ctx.tlc(*a, **kw)
    return r


def export(ctx, dd, tag):
    r = tlc(ctx, "BlockRulesGen", "BlockRules_gen", workers=1, defines=dd, timeout=3000)
    r.require_ok("export " + tag)
    paths = {}
    counts = {}
    for t, name in (("VFC", "ctx"), ("VFT", "lines"), ("VFB", "compact")):
        paths[name] = os.path.join(ctx.scratch, "%s-%s.json" % (tag, name))
        n = 0
        with open(paths[name], "w") as f:
            for s in r.lines(t):
                f.write(s + "\n")
                n += 1
        counts[name] = n
    if counts["lines"] != r.distinct:
        raise Infra("export %s: %d descriptor lines for %s distinct states" % (tag, counts["lines"], r.distinct))
    if counts["ctx"] == 0 or counts["compact"] == 0:
        raise Infra("export %s printed no contexts / compact classes" % tag)
    return r, paths, counts


def report(ctx, fails, ctxfile):
    ctxs = {}
    for l in open(ctxfile):
        j = json.loads(l)
        ctxs[j["id"]] = j
    for f in fails:
        if f["kind"] == "infra":
            raise Infra("driver: %s (context %s, line %s)" % (f["what"], f.get("c"), json.dumps(f.get("line"))[:600]))
    for f in fails:
        ctx.violation(signature(f), {"line": f.get("line"), "ctx": ctxs.get(f.get("c")), "kind": f["kind"], "stage": f.get("stage"), "err": f.get("err")},
                      "%s [%s%s]" % (f["what"], f.get("stage") or "", (": " + f["err"]) if f.get("err") else ""))


def run(ctx):
    quick = ctx.tier == "quick"
    binp = ctx.build("blockrules")
    if quick:
        pairs = ["on", "off", "short-10", "rt1-test4-1", "rt1-main-4", "rt2-main-8", "rt2-test4-2", "rt2-test3-7", "pr1-test4", "pr2-test3", "pr3-test3"]
        heavypairs = False
    else:
        pairs = ALL
        heavypairs = True
    heavy = ["on"]

    # ---- 1. the decision table: design checks
    r = tlc(ctx, "BlockRules", "BlockRules_mc", defines=defines(ALL, pairs, heavy, heavypairs, "none"), timeout=3000)
    if r.invariant:
        raise Infra("design-level counterexample in BlockRules (%s): the rule module contradicts itself\n%s" % (r.invariant, r.tail))
    r.require_ok("mc")
    states, transitions = r.distinct, r.generated
    refuted = []
    small = ["on", "off", "short-1", "short-5", "rt1-main-1", "rt1-test4-9", "rt2-main-8", "rt2-test4-2", "pr1-test4"]
    for brk in ("mtp_ge", "mtp_index", "clamps_swapped", "window", "csv_blocktime"):
        rr = tlc(ctx, "BlockRules", "BlockRules_mc", workers=2, defines=defines(small, [], [], False, brk), timeout=600)
        if not rr.invariant:
            raise Infra("sanity: the rule module with the wrong rule '%s' should violate an invariant, TLC found none\n%s" % (brk, rr.tail))
        refuted.append("%s violates %s" % (brk, rr.invariant))
    ctx.cov["refuted_variants"] = refuted

    # ---- 2. export and replay on the real chain
    ex, paths, counts = export(ctx, defines(ALL, pairs, heavy, heavypairs), "table")
    lines = open(paths["lines"]).read().splitlines()
    rnd = random.Random(ctx.seed)
    rnd.shuffle(lines)          # order / job assignment / coin selection vary with the seed; verdicts must not
    shuf = os.path.join(ctx.scratch, "table-shuffled.json")
    open(shuf, "w").write("\n".join(lines) + "\n")
    summ, fails = run_driver(ctx, binp, ["replay", "-ctx", paths["ctx"], "-in", shuf, "-workers", "8" if quick else "16", "-seed", str(ctx.seed)], "replay")
    ctx.log("replayed %d descriptors in %d contexts on %d real chains: %d accepted, %d refused, %d degenerate, %d retried (clock), %d failures; chains %.1fs, total %.1fs"
            % (summ["lines"], counts["ctx"], summ["chains"], summ["accepted"], summ["refused"], summ["degenerate"], summ["retried"], summ["fail"],
               summ["build_s"], summ["wall_s"]))
    nochain = {f["c"] for f in fails if f["kind"] == "parent-chain"}
    expected = sum(1 for l in lines if json.loads(l)["c"] not in nochain)
    if summ["lines"] != expected:
        report(ctx, fails, paths["ctx"])
        raise Infra("driver replayed %d of %d lines" % (summ["lines"], expected))
    if summ["degenerate"] > len(lines) // 50:
        raise Infra("too many descriptors whose target terms do not evaluate as the model assumes: %d" % summ["degenerate"])
    w = summ.get("weights") or {}
    if not w.get("max:4000000") or not w.get("over:4000001"):
        raise Infra("weight boundary blocks of exactly 4,000,000 / 4,000,001 were not built: %s" % w)
    report(ctx, fails, paths["ctx"])

    # ---- 3. compact encodings
    csum, cfails = run_driver(ctx, binp, ["compact", "-in", paths["compact"], "-seed", str(ctx.seed), "-extra", "2000" if quick else "200000"], "compact")
    for f in cfails:
        if f["kind"] == "infra":
            raise Infra("compact: " + f["what"])
        ctx.violation("C05:compact:%s:%s" % (f["kind"], f["bits"]), f, f["what"])
    ctx.log("compact encodings: %d classes + %d seeded, %d evaluations, %d failures, notes %s" % (csum["classes"], csum["extra"], csum["evaluations"], csum["fail"], csum["notes"]))

    # ---- 4. binding self-test: corrupted verdicts must be rejected
    selftest(ctx, binp, paths)

    for i in (0, len(lines) // 2, len(lines) - 1):
        j = json.loads(lines[i])
        ctx.sample({"context": j["c"], "deviations": {f: j["d"][f] for f in j["devs"]}, "model_verdict": "accept" if j["ok"] else "refuse", "violates": j["viol"]})
    ctx.level = "exploration"
    ctx.cov.update({"evaluations": summ["lines"] - summ["degenerate"] + csum["evaluations"],
                    "distinct_nontrivial": summ["distinct_blocks"] + csum["distinct"],
                    "descriptors": len(lines), "contexts": counts["ctx"], "real_chains": summ["chains"],
                    "accepted": summ["accepted"], "refused": summ["refused"], "degenerate_skipped": summ["degenerate"],
                    "stricter_than_rule_not_judged": summ["either"], "clock_retries": summ["retried"],
                    "weight_blocks": w, "compact": {k: csum[k] for k in ("classes", "extra", "evaluations", "distinct", "notes")},
                    "tlc_states": states, "tlc_transitions": transitions, "exhaustive_over_descriptor_space": True,
                    "rule": "TLC enumerates, per context, the base descriptor(s), every single deviation and (in the contexts of this tier) every pair of deviations of spec/BlockRules.tla; each is built as a real block on a real chain and delivered through Chain.CheckBlock + AcceptBlock; accepted must equal Valid(c, d), a refusal must leave tip / block index / UTXO set unchanged; distinct_nontrivial counts distinct block hashes delivered plus distinct compact encodings evaluated"})
    ctx.assumptions += ["NowLate: every chain timestamp is more than two hours in the past (model time 0 = 70 days before the run); now+7200 / now+7201 observations are kept only if the wall-clock second did not change across build + call",
                        "256-bit target arithmetic is uninterpreted in the model (terms); the harness evaluates terms with its own math/big code and skips (counts) descriptors whose term (in)equality the values do not reproduce",
                        "all chains at the minimum-difficulty limit 0x207fffff (public Consensus fields); retargets therefore start from the limit: first-period retargets can only lower the target, the upper clamp is observed at the second boundary (parent target = limit/4)",
                        "the retarget rule is exact integer arithmetic (base * span / T); the 256-bit wrap-around of Bitcoin Core's arith_uint256 for targets near 2^256 cannot occur with the real proof-of-work limits and is not modelled",
                        "spends use anyone-can-spend P2SH / P2WSH scripts (script semantics are C01-C03, amounts C04)",
                        "gocoin refuses version 0 at every height (Bitcoin: from BIP34 on): stricter than the rule, not judged (C05 is one-directional); the BIP94 time-warp rule of testnet4 is not part of the property",
                        "CheckProofOfWork accepting overflowing / zero targets is reported as a note: such header values can never equal the required target, the block-level descriptors (bits = neg / zero / ovf) confirm refusal"]


def selftest(ctx, binp, paths):
    mut = os.path.join(ctx.scratch, "mut.json")
    done = {"a": False, "b": False}
    with open(paths["lines"]) as f, open(mut, "w") as g:
        for l in f:
            j = json.loads(l)
            if j["c"] != "on" or j["either"]:
                continue
            if not done["a"] and j["ok"] and not j["devs"]:
                j["ok"] = False
                j["viol"] = ["selftest"]
                g.write(json.dumps(j) + "\n")
                done["a"] = True
            elif not done["b"] and not j["ok"] and j["devs"] == ["time"]:
                j["ok"] = True
                g.write(json.dumps(j) + "\n")
                done["b"] = True
    if not all(done.values()):
        raise Infra("self-test: no suitable lines")
    summ, fails = run_driver(ctx, binp, ["replay", "-ctx", paths["ctx"], "-in", mut, "-workers", "2"], "mut")
    kinds = sorted(f["kind"] for f in fails)
    if kinds != ["invalid-accepted", "valid-refused"]:
        raise Infra("binding self-test failed: corrupted verdicts gave %s" % kinds)
    ctx.log("binding self-test: both corrupted verdicts rejected")


def replay_cmd(ctx, path):
    j = json.load(open(path))
    rp = j["replay"]
    if "line" not in rp or not rp.get("ctx"):
        print(json.dumps(j, indent=1)[:3000])
        return 2
    binp = ctx.build("blockrules")
    cf = os.path.join(ctx.scratch, "one-ctx.json")
    lf = os.path.join(ctx.scratch, "one-line.json")
    open(cf, "w").write(json.dumps(rp["ctx"]) + "\n")
    open(lf, "w").write(json.dumps(rp["line"]) + "\n")
    summ, fails = run_driver(ctx, binp, ["replay", "-ctx", cf, "-in", lf, "-workers", "1"], "rp")
    for f in fails:
        print("reproduced:", f["kind"], f["what"])
    return 1 if fails else 0
