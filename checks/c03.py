"""C03 - ECDSA, Schnorr and taproot-tweak checks are exact; own signatures verify.

spec/SigCheck.tla   decision tables written from SEC 1 / BIP 66 / BIP 340 / BIP 341 / RFC 6979 (NOT from the code):
                    ECDSA acceptance over (public-key class x r class x s class x equation x DER class), public key
                    recovery, BIP 340 acceptance, the BIP 341 output-key check, the parsers, IsLowS / Bytes; plus a
                    small state machine of the library's three signers (sign / observe / tamper) with what the
                    property promises after every step.
  0. the reference (harness/ref: secp256k1, ECDSA, RFC 6979, DER, BIP 340/341 over math/big, no gocoin code) must
     pass its self-test against the published vectors (BIP 340 csv rows, RFC 6979 A.2.3/A.2.5, the HMAC-DRBG
     vectors, real chain signatures, the well-known deterministic secp256k1 vector)
  1. TLC enumerates the tables and the signer machine with sanity invariants; every deliberately broken rule
     (constant Bug) must be refuted
  2. G->R: every exported row gets concrete representatives built ALGEBRAICALLY by the reference (valid (r,s) then
     s+n in a 33-byte integer, key recovery to meet a prescribed r and s, two-scalar forgeries for prescribed keys,
     x+p / y+p for tiny coordinates, the chord rule on a "completed" unliftable key, ...) and is judged on
     btc.EcdsaVerify / SchnorrVerify / CheckPayToContract / NewPublicKey / XY.ParseXOnlyPubkey /
     Signature.RecoverPublicKey / IsLowS / Bytes; every transition of the signer machine is replayed on btc.EcdsaSign
     (both nonce modes), secp256k1.SchnorrSign, Signature.Sign and compared with the promise and the reference signer
  3. sweeps: key derivation / DeriveNextPublic / recovery over long arithmetic progressions against the reference
  4. single-bit mutations of valid triples, verdict by the reference
  4b. the transaction-level signers Tx.Sign / Tx.SignWitness over thousands of seeded transactions (strict DER, low S,
     reference verification, script.VerifyTxScript; the r / s length classes that need a DER pad byte are counted and
     must be reached); operand preservation of every signer (key / digest / aux passed as sub-slices of guarded
     buffers, then reused for a second signature); a concurrency stage (16 goroutines at GOMAXPROCS 2 / 4 / 16 calling
     the verifiers, parsers and recovery on table rows at once, every answer = the table's verdict) and the same
     under the Go race detector (a report with both accesses inside the repository is a violation)
  5. binding self-test: corrupted predictions must be rejected (by the spec-vs-reference cross-check, and - with that
     cross-check switched off - by the comparison with the code)
"""
import json, os, random, re
from vf import Infra

DER_ALL = ["strict", "strict_ht", "pad_r", "pad_s", "neg", "trail", "longlen", "seqlen", "badtag", "badinttag", "trunc", "zerolen", "empty"]
INVS = ["TypeOK", "AcceptIffNoRule", "RangeExact", "KeyRuleUniform", "InvalidKeysRefused", "EitherOnlyLax", "SchnorrExact",
        "TweakExact", "InfinityRefused", "RecoverExact", "WrapAccepted", "TamperRefused"]
BUGS = [("le_n", "RecoverExact"), ("hybrid", "InvalidKeysRefused"), ("oddR", "SchnorrExact"), ("parity", "TweakExact"),
        ("tamper", "TamperRefused")]


def q(names):
    return ",".join('"%s"' % n for n in names)


def driver(ctx, binp, args, timeout=6000):
    p = ctx.run([binp] + args, timeout=timeout)
    if p.returncode != 0:
        raise Infra("sigcheck %s failed: %s" % (args[0], p.stderr[-2000:]))
    fails, summ = [], None
    for ln in p.stdout.splitlines():
        if not ln.startswith("{"):
            continue
        j = json.loads(ln)
        if j.get("summary"):
            summ = j
        elif not j.get("ok", True):
            fails.append(j)
    if summ is None:
        raise Infra("sigcheck %s gave no summary" % args[0])
    return summ, fails


def record(ctx, fails, mode, extra):
    """Turn driver failures into violations.  A row that breaks several rules and is accepted is IMPLIED when each
    of its rules is, on its own, already accepted in this run (signature of a single-rule row): it is counted, not
    reported again - so that one missing range check does not produce one signature per combination."""
    single = set()
    for f in fails:
        if f["sig"].count(":accepted:") and len(f.get("rules") or []) == 1:
            single.add((f["sig"].split(":")[1], f["rules"][0]))
    implied = 0
    # the representative written to the replay file: fewest broken rules, canonical DER first, then by line text
    for f in sorted(fails, key=lambda f: (len(f.get("rules") or []), f["sig"], '"der":"strict"' not in (f.get("raw") or ""),
                                          f.get("raw") or "", f.get("inst") or 0)):
        rules = f.get("rules") or []
        tab = f["sig"].split(":")[1]
        if ":accepted:" in f["sig"] and len(rules) > 1 and all((tab, r) in single for r in rules):
            implied += 1
            continue
        rp = dict(extra, mode=mode, raw=f.get("raw"), inst=f.get("inst"), bytes=f.get("bytes"), sig=f["sig"])
        ctx.violation(f["sig"], rp, f["what"] + " " + json.dumps(f.get("bytes") or {}, sort_keys=True)[:700])
    return implied


def run(ctx):
    quick = ctx.tier == "quick"
    ncpu = os.cpu_count() or 4
    binp = ctx.build("sigcheck")
    cov = ctx.cov

    # ---- 0. the oracle itself
    summ, _ = driver(ctx, binp, ["selftest"], timeout=600)
    if summ["fails"]:
        raise Infra("reference self-test failed: %s" % summ["fails"][:5])
    cov["reference_selftest_checks"] = summ["checks"]

    # ---- 1. the tables and the signer machine, exhaustively; broken rules refuted
    r = ctx.tlc("SigCheck", "SigCheck_mc", defines=dict(BUG="none", DERSET=q(DER_ALL), INVS=" ".join(INVS)), timeout=1800)
    if r.invariant:
        raise Infra("SigCheck violates its own sanity invariant %s\n%s" % (r.invariant, r.tail))
    r.require_ok("mc")
    cov["states"], cov["transitions"] = r.distinct, r.generated
    refuted = []
    for bug, inv in BUGS:
        rr = ctx.tlc("SigCheck", "SigCheck_mc", workers=2, defines=dict(BUG=bug, DERSET=q(["strict", "pad_s"]), INVS="TypeOK " + inv), timeout=900)
        if rr.invariant != inv:
            raise Infra("sanity: SigCheck with Bug=%s should violate %s, TLC says %s\n%s" % (bug, inv, rr.invariant, rr.tail))
        refuted.append("%s violates %s" % (bug, inv))
    cov["refuted_variants"] = refuted

    # ---- 2. export and replay
    r = ctx.tlc("SigCheckGen", "SigCheck_gen", workers=1, defines=dict(DERSET=q(DER_ALL)), timeout=1800)
    r.require_ok("export")
    rows = list(r.lines("VFT"))
    sign = list(r.lines("VFS"))
    if r.generated - 1 - len(rows) - len(sign) != 6 * 5 * 3:   # the Begin steps (key x message x aux classes) print nothing
        raise Infra("export: %d rows + %d signer transitions for %s generated states" % (len(rows), len(sign), r.generated))
    cov["exported_rows"], cov["exported_signer_transitions"] = len(rows), len(sign)
    rnd = random.Random(ctx.seed)
    if quick:
        # quick tier: every row that breaks at most two rules (the boundary of the acceptance predicate),
        # a seeded tenth of the rest; every other table completely
        keep = []
        for s in rows:
            j = json.loads(s)
            if j["tab"] != "ecdsa" or len(j["rules"]) <= 2 or rnd.random() < 0.1:
                keep.append(s)
        rows_run = keep
        sign_run = [s for s in sign if len(json.loads(s)["steps"]) <= 2 or rnd.random() < 0.25]
    else:
        rows_run, sign_run = rows, sign
    inst_rows = 1 if quick else 6
    inst_sign = 1 if quick else 3
    rows_path = os.path.join(ctx.scratch, "rows.json")
    sign_path = os.path.join(ctx.scratch, "sign.json")
    open(rows_path, "w").write("\n".join(rows_run) + "\n")
    open(sign_path, "w").write("\n".join(sign_run) + "\n")

    total = {"cases": 0, "checks": 0, "fail": 0}
    nontriv = 0
    s1, f1 = driver(ctx, binp, ["replay", "-in", rows_path, "-seed", str(ctx.seed), "-inst", str(inst_rows), "-workers", str(ncpu)])
    if s1.get("infra"):
        raise Infra("table replay: specification and reference disagree / construction failed: %s" % s1["infra"][:3])
    if s1["lines"] != len(rows_run):
        raise Infra("table replay consumed %d of %d lines" % (s1["lines"], len(rows_run)))
    implied = record(ctx, f1, "replay", dict(seed=ctx.seed, ninst=inst_rows))
    ctx.log("replayed %d table rows x %d (%d cases, %d skipped as unconstructible): %d failures (%d implied by single-rule failures)" %
            (len(rows_run), inst_rows, s1["cases"], sum(s1["skipped"].values()), s1["fail"], implied))
    # the small tables (BIP 340, BIP 341, recovery, parsers, low-S) again with more representatives per row
    small_path = os.path.join(ctx.scratch, "rows-small.json")
    small = [s for s in rows if '"tab":"ecdsa"' not in s]
    open(small_path, "w").write("\n".join(small) + "\n")
    inst_small = 6 if quick else 24
    s1b, f1b = driver(ctx, binp, ["replay", "-in", small_path, "-seed", str(ctx.seed + 1000003), "-inst", str(inst_small), "-workers", str(ncpu)])
    if s1b.get("infra"):
        raise Infra("table replay (small tables): %s" % s1b["infra"][:3])
    record(ctx, f1b, "replay", dict(seed=ctx.seed + 1000003, ninst=inst_small))
    ctx.log("replayed %d rows of the small tables x %d: %d failures" % (len(small), inst_small, s1b["fail"]))
    for k in total:
        total[k] += s1b[k]
    s2, f2 = driver(ctx, binp, ["replay", "-in", sign_path, "-seed", str(ctx.seed), "-inst", str(inst_sign), "-workers", str(ncpu)])
    if s2.get("infra"):
        raise Infra("signer replay: %s" % s2["infra"][:3])
    record(ctx, f2, "replay", dict(seed=ctx.seed, ninst=inst_sign))
    ctx.log("replayed %d signer transitions x %d (%d comparisons): %d failures" % (len(sign_run), inst_sign, s2["checks"], s2["fail"]))
    for s in (s1, s2):
        for k in total:
            total[k] += s[k]
        nontriv += s["distinct_nontrivial"]
    cov["table_cases_by_table"] = s1["tabs"]
    cov["table_cases_by_verdict"] = s1["verdicts"]
    cov["not_judged_lax_encodings"] = s1["either"]
    cov["rows_not_constructible"] = s1["skipped"]
    cov["implied_multi_rule_failures"] = implied
    cov["parser_observations"] = s1.get("observations", {})
    for smp in (s1.get("samples") or [])[:2]:
        ctx.sample(smp)
    ctx.sample(json.loads(sign_run[len(sign_run) // 2]))

    # ---- 3. sweeps
    nsweep = 200000 if quick else 1000000
    s3, f3 = driver(ctx, binp, ["sweep", "-n", str(nsweep), "-seed", str(ctx.seed), "-workers", str(ncpu)])
    if s3.get("infra"):
        raise Infra("sweep: %s" % s3["infra"][:3])
    record(ctx, f3, "sweep", dict(seed=ctx.seed, n=nsweep))
    ctx.log("sweeps over %d scalars (%d comparisons): %s" % (nsweep, s3["checks"], s3.get("observations") or "no deviation"))
    cov["sweep_scalars"] = nsweep
    cov["sweep_hits"] = s3.get("observations", {})
    total["cases"] += s3["cases"]
    total["checks"] += s3["checks"]
    total["fail"] += s3["fail"]
    nontriv += nsweep

    # ---- 4. single-bit mutations
    nmut, flips = (60, 40) if quick else (60, 0)
    s4, f4 = driver(ctx, binp, ["mutate", "-n", str(nmut), "-flips", str(flips), "-seed", str(ctx.seed), "-workers", str(ncpu)])
    if s4.get("infra"):
        raise Infra("mutate: %s" % s4["infra"][:3])
    record(ctx, f4, "mutate", dict(seed=ctx.seed, n=nmut, flips=flips))
    ctx.log("single-bit mutations: %d cases, %d failures; verdicts %s" % (s4["cases"], s4["fail"], s4["verdicts"]))
    cov["mutation_cases_by_verdict"] = s4["verdicts"]
    total["cases"] += s4["cases"]
    total["checks"] += s4["checks"]
    total["fail"] += s4["fail"]
    nontriv += s4["distinct_nontrivial"]

    # ---- 4b. transaction-level signers
    ntx = 4000 if quick else 40000
    s5, f5 = driver(ctx, binp, ["txsign", "-n", str(ntx), "-seed", str(ctx.seed), "-workers", str(ncpu)])
    if s5.get("infra"):
        raise Infra("txsign: %s" % s5["infra"][:3])
    record(ctx, f5, "txsign", dict(seed=ctx.seed, n=ntx))
    ctx.log("Tx.Sign / Tx.SignWitness: %d transactions, %d failures; length classes reached %s" % (s5["cases"], s5["fail"], s5.get("observations")))
    cov["tx_signatures"] = s5["cases"]
    cov["tx_signature_length_classes"] = s5.get("observations", {})
    total["cases"] += s5["cases"]
    total["checks"] += s5["checks"]
    total["fail"] += s5["fail"]
    nontriv += s5["distinct_nontrivial"]

    # ---- 4c. concurrency: table rows from many goroutines at once, then the same under the race detector
    stress_rows = []
    for sline in rows:
        j = json.loads(sline)
        if j["tab"] == "lows" or (j["tab"] == "ecdsa" and not (len(j["rules"]) <= 1 and j["der"] == "strict")):
            continue
        stress_rows.append(sline)
    stress_path = os.path.join(ctx.scratch, "rows-stress.json")
    open(stress_path, "w").write("\n".join(stress_rows) + "\n")
    s6, f6 = driver(ctx, binp, ["stress", "-in", stress_path, "-seed", str(ctx.seed), "-inst", "2", "-workers", "16",
                                "-rounds", str(8 if quick else 60), "-procs", "2,4,16"])
    if s6.get("infra"):
        raise Infra("stress: %s" % s6["infra"][:3])
    record(ctx, f6, "stress", dict(seed=ctx.seed, path="rows-stress"))
    conc = dict(s6.get("observations") or {}, calls=s6["cases"], wrong=s6["fail"])
    total["cases"] += s6["cases"]
    total["checks"] += s6["checks"]
    total["fail"] += s6["fail"]
    ctx.log("concurrent calls on %d table rows x 2 from 16 goroutines: %s" % (len(stress_rows), conc))
    cov["concurrent_calls"] = conc
    binr = ctx.build("sigcheck", race=True)
    pr = ctx.run([binr, "stress", "-in", stress_path, "-seed", str(ctx.seed), "-inst", "1", "-workers", "8", "-rounds", "1" if quick else "4"],
                 timeout=3000, env={"GORACE": "halt_on_error=0"})
    if "summary" not in pr.stdout:
        raise Infra("race build of the stress stage failed: %s" % pr.stderr[-2000:])
    genuine, other = race_reports(ctx, pr.stderr)
    for sig, txt in genuine:
        ctx.violation(sig, dict(mode="race", seed=ctx.seed, report=txt), "the Go race detector reports a data race between calls that must be independent: " + txt[:1500])
    cov["race_detector"] = {"reports_in_repository": len(genuine), "other_reports": len(other)}
    if other:
        raise Infra("race detector reports outside the repository (harness?): %s" % other[0][1][:1500])
    ctx.log("race build: %d reports inside the repository" % len(genuine))

    # ---- 5. binding self-test
    selftest(ctx, binp, rows, sign)

    ctx.level = "exploration"
    cov.update({"evaluations": total["cases"], "comparisons": total["checks"], "failed_comparisons": total["fail"],
                "distinct_nontrivial": nontriv,
                "rule": "TLC enumerates every consistent row of the SigCheck tables and every transition of the signer machine; "
                        "each row is concretised %d time(s) per seed by the reference and judged on the real code. Counted as distinct and "
                        "non-trivial: table rows that break at most one rule (accepted rows and single-fault rows - the boundary of the "
                        "acceptance predicate), signer transitions, swept scalars, distinct (base triple, flipped bit) pairs" % inst_rows,
                "exhaustive": not quick})
    ctx.assumptions += [
        "numeric values come from harness/ref (math/big, stdlib hashes), self-tested on every run; the specification supplies classes and verdicts",
        "classes that would need a discrete logarithm (a valid BIP 340 signature with s+n < 2^256, a prescribed r or s for a prescribed public key) are enumerated by TLC but not concretised",
        "a valid signature in a readable non-canonical DER form is not judged (consensus reads it laxly, BIP 66 refuses it at the script layer): the code's answers are recorded in not_judged_lax_encodings",
        "x-only keys and BIP 340 signatures are offered with their exact lengths (32 / 64 bytes) only",
    ]


def race_reports(ctx, stderr):
    """Split the race detector's output; a report whose two accesses both have their innermost non-runtime frame
    inside the repository under test is genuine (signature = the two functions), anything else is the harness's."""
    repo = os.path.realpath(ctx.repo)
    genuine, other = [], []
    for blk in stderr.split("=================="):
        if "WARNING: DATA RACE" not in blk:
            continue
        tops = []
        for sec in re.split(r"\n\s*\n", blk):
            m = re.search(r"^(?:Previous )?(?:[Aa]tomic )?(?:[Rr]ead|[Ww]rite) at 0x[0-9a-f]+ by .*?:\n((?:  .*\n?)+)", sec, re.M)
            if not m:
                continue
            top = None
            for fun, path, line in re.findall(r"^  (\S.*)\n\s+(\S+?):(\d+)", m.group(1), re.M):
                if "/go-" in path or "/go/src/" in path or path.startswith("/usr/lib/go") or "/golang" in path:
                    continue
                top = (re.sub(r"\(\)$", "", fun).replace("github.com/piotrnar/gocoin/", ""), path)
                break
            tops.append(top)
        if len(tops) < 2 or any(t is None for t in tops[:2]):
            other.append(("unparsed", blk[:3000]))
            continue
        inrepo = [os.path.realpath(t[1]).startswith(repo) for t in tops[:2]]
        names = sorted(set("%s@%s" % (t[0], os.path.basename(t[1])) for t in tops[:2]))
        (genuine if all(inrepo) else other).append(("C03:race:" + "|".join(names), blk[:6000]))
    return genuine, other


def selftest(ctx, binp, rows, sign):
    """Corrupted predictions must be rejected."""
    pick = {}
    for s in rows:
        j = json.loads(s)
        k = (j["tab"], j["v"])
        if k in (("ecdsa", "accept"), ("schnorr", "accept"), ("tweak", "accept"), ("lows", "accept")) and k not in pick and (j["tab"] != "ecdsa" or j["der"] == "strict"):
            pick[k] = j
        if j["tab"] == "ecdsa" and j["v"] == "reject" and j["rules"] == ["equation"] and j["der"] == "strict" and j["pk"] == "uncomp" and ("ecdsa", "reject") not in pick:
            pick[("ecdsa", "reject")] = j
    if len(pick) != 5:
        raise Infra("binding self-test: rows to corrupt not found (%s)" % sorted(pick))
    mut = []
    for (tab, v), j in sorted(pick.items()):
        j = dict(j)
        if v == "accept":
            j["v"], j["rules"] = "reject", ["selftest"]
        else:
            j["v"], j["rules"] = "accept", []
        mut.append(json.dumps(j))
    path = os.path.join(ctx.scratch, "mut-rows.json")
    open(path, "w").write("\n".join(mut) + "\n")
    s, f = driver(ctx, binp, ["replay", "-in", path, "-seed", str(ctx.seed), "-inst", "1", "-workers", "2"])
    if len(s.get("infra") or []) != 5 or f:
        raise Infra("binding self-test: corrupted verdicts were not caught by the specification-vs-reference cross-check: %s" % s)
    s, f = driver(ctx, binp, ["replay", "-in", path, "-seed", str(ctx.seed), "-inst", "1", "-workers", "2", "-trustspec"])
    sigs = sorted(x["sig"] for x in f)
    want = ["C03:ecdsa:accepted:selftest", "C03:ecdsa:refused:", "C03:lows:accepted:selftest", "C03:schnorr:accepted:selftest", "C03:tweak:accepted:selftest"]
    if len(sigs) != 5 or any(not any(x.startswith(w) for x in sigs) for w in want):
        raise Infra("binding self-test: corrupted verdicts were not caught by the comparison with the code: %s" % sigs)
    # signer: promise that a random-nonce signature equals the reference, and that an untampered signature does not verify
    smut = []
    for sline in sign:
        j = json.loads(sline)
        if len(j["steps"]) == 1 and j["steps"][0]["x"] == "rand" and j["cls"]["mc"] == "mid" and not smut:
            j["steps"][0]["p"]["equalsRef"] = True
            smut.append(json.dumps(j))
        if len(j["steps"]) == 1 and j["steps"][0]["x"] == "bip340" and j["cls"]["mc"] == "mid" and len(smut) == 1:
            j["steps"][0]["p"]["verifies"] = False
            smut.append(json.dumps(j))
    if len(smut) != 2:
        raise Infra("binding self-test: signer lines to corrupt not found")
    path = os.path.join(ctx.scratch, "mut-sign.json")
    open(path, "w").write("\n".join(smut) + "\n")
    s, f = driver(ctx, binp, ["replay", "-in", path, "-seed", str(ctx.seed), "-inst", "1", "-workers", "2"])
    sigs = sorted(set(x["sig"] for x in f))
    if sigs != ["C03:signer:bip340:accepts-tampered", "C03:signer:rfc:not-reference:msg-lt-n"]:
        raise Infra("binding self-test: corrupted signer promises gave %s" % sigs)


def replay_cmd(ctx, path):
    j = json.load(open(path))
    rp = j["replay"]
    binp = ctx.build("sigcheck")
    mode = rp.get("mode")
    if mode == "replay":
        p = os.path.join(ctx.scratch, "one.json")
        open(p, "w").write(rp["raw"] + "\n")
        s, f = driver(ctx, binp, ["replay", "-in", p, "-seed", str(rp["seed"]), "-inst", str(rp["ninst"]), "-only", str(rp["inst"]), "-workers", "1"])
    elif mode == "sweep":
        s, f = driver(ctx, binp, ["sweep", "-n", str(rp["n"]), "-seed", str(rp["seed"]), "-workers", str(os.cpu_count() or 4)])
    elif mode == "txsign":
        s, f = driver(ctx, binp, ["txsign", "-n", str(rp["n"]), "-seed", str(rp["seed"]), "-workers", str(os.cpu_count() or 4)])
    elif mode in ("stress", "race"):
        print("concurrency findings: re-run the check with VERIF_SEED=%s" % rp.get("seed"))
        return 2
    elif mode == "mutate":
        s, f = driver(ctx, binp, ["mutate", "-n", str(rp["n"]), "-flips", str(rp["flips"]), "-seed", str(rp["seed"]), "-workers", str(os.cpu_count() or 4)])
    else:
        print("unknown replay mode", mode)
        return 2
    hit = [x for x in f if x["sig"] == j["signature"]]
    for x in hit[:3]:
        print("reproduced:", x["what"], json.dumps(x.get("bytes") or {}, sort_keys=True))
    return 1 if hit else 0
