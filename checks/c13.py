"""C13 - wallet-built transactions pay exactly what was asked and are fully valid.

spec/WalletTx.tla   a case = wallet configuration x ordered unspent list x request, built step by step;
                    Build transcribes wallet/send.go + signtx.go:make_signed_tx (owned outputs in file order
                    until the sum covers payments + fee, destinations in order, change to the first owned
                    line's script / -change, OP_RETURN), Build2 transcribes unspent.go:apply_to_balance and a
                    second send over the rewritten balance folder, SignRaw transcribes process_raw_tx.
  1. TLC, exhaustive over bounded families of cases: PaysExactly, ChangeExact (Amt arithmetic),
     OnlyListedInputs, InsufficientWritesNothing, SufficientWrites, FieldsAsAsked, BalanceAfter, RawUntouched.
     Each named rule is also broken on purpose (constant Bug) and TLC must refute the matching invariant.
  2. G->R: the cases TLC enumerates (breadth-first families, thinned by the seed; random walks over the wide
     space in simulation mode) are exported with the predicted transaction / refusal and replayed on the REAL
     wallet binary built from <repo>/wallet: harness/cmd/wallettx writes wallet.cfg, the seed password,
     balance/unspent.txt and balance/<txid>.tx (previous transactions that really pay to the addresses the wallet
     lists), runs `wallet -send/-batch/-raw ...`, parses the written file with its own parser, compares it with
     the prediction and verifies every input with lib/script (STANDARD_VERIFY_FLAGS) and, independently, with
     harness/ref (math/big secp256k1 + BIP340) over digests computed in the driver from BIP143 / BIP341 / legacy.
  3. binding self-test: corrupted predictions must be rejected by the driver.
There is no R->V step: the binary is a one-shot function from files + arguments to files; a recorded run is the same
comparison with the roles swapped.
"""
import copy, json, os, re, threading
from vf import Infra

INVS = ["TypeOK", "PaysExactly", "ChangeExact", "OnlyListedInputs", "InsufficientWritesNothing", "SufficientWrites",
        "FieldsAsAsked", "BalanceAfter", "RawUntouched"]

# deliberately broken rule -> the invariant that has to notice
BUGS = [("change_all", "ChangeExact"), ("subfee_twice", "PaysExactly"), ("write_insufficient", "InsufficientWritesNothing"),
        ("foreign_in", "OnlyListedInputs"), ("raw_seq", "RawUntouched")]


def q(*names):
    return ",".join('"%s"' % n for n in names)


BASE = dict(WTYPES="3", ATYPES=q("p2kh"), NETS="FALSE", STYPES=q("P2PKH"), UAMTS=q("mid"), MAXUNSP=1, VOFFS="0",
            DTYPES=q("P2PKH"), DAMTS=q("k5"), MAXDEST=1, FEES=q("k1"), USEALL="FALSE", CHANGES=q("none"),
            MSGS=q("none"), SEQS=q("def"), LOCKS=q("def"), VERS=q("def"), SUBFEES="FALSE", MODES=q("send"),
            TUNETARGETS=q("none"), TUNEDELTAS=q("z"), RAWS="", SECOND="", SIGOPTS=q("auto"))

ALL_ST = q("P2PKH", "P2SH", "P2WPKH", "P2TR", "FPKH", "FMS")
ALL_AT = q("p2kh", "segwit", "bech32", "tap")
ALL_DT = q("P2PKH", "P2SH", "P2WPKH", "P2WSH", "P2TR", "OWN")
ALL_SEQ = q("def", "m1", "m2", "zero", "n", "rbf")
ALL_LOCK = q("def", "h", "t", "max")
ALL_VER = q("def", "v1", "v2", "v3")
ALL_FEE = q("zero", "sat1", "k1", "def", "btc")
ALL_MSG = q("none", "short", "long", "m1", "m75", "m76", "m77", "m255", "m256", "m520")
ALL_TT = q("none", "first", "two", "all")
ALL_TD = q("m1", "z", "p1")
ALL_RAW = q("fwd", "fwd1", "rev", "first", "last")
# output index of a listed output inside its previous transaction (balance/unspent.txt spells it %03d): around the
# values an octal / truncating / off-by-one reading would confuse; the unlisted indexes below are decoy outputs
ALL_VOFF = "0,1,7,8,9,10,17,18,64,99,100,255"


def fam(**kw):
    d = dict(BASE)
    d.update(kw)
    return d


def families(quick, seed):
    """(name, constants, thinning target = number of cases to replay)"""
    f = []
    # selection / change / refusal boundaries
    f.append(("sel", fam(ATYPES=q("p2kh", "bech32"), STYPES=q("P2PKH", "P2SH", "P2TR", "FPKH") if quick else q("P2PKH", "P2SH", "P2WPKH", "P2TR", "FPKH"),
                         UAMTS=q("dust", "mid"), MAXUNSP=2, DAMTS=q("sat1"), FEES=q("zero", "k1"), USEALL="FALSE,TRUE",
                         SUBFEES="FALSE,TRUE", TUNETARGETS=ALL_TT, TUNEDELTAS=ALL_TD, RAWS=q("fwd", "rev")), 500 if quick else 6000))
    # destinations of every type, order, change address, -f, -batch, second send over the rewritten balance folder
    f.append(("dest", fam(ATYPES=ALL_AT, NETS="FALSE,TRUE", STYPES=q("P2WPKH", "P2TR"), UAMTS=q("big"), DTYPES=ALL_DT,
                          DAMTS=q("sat1") if quick else q("sat1", "k5"), MAXDEST=2, CHANGES=q("none", "own", "foreign"), SUBFEES="FALSE,TRUE",
                          MODES=q("send", "batch", "mixed"), SECOND=q("sweep")), 400 if quick else 6000))
    # option switches
    f.append(("flags", fam(WTYPES="4", ATYPES=q("tap"), NETS="TRUE", STYPES=q("P2TR", "P2PKH"), UAMTS=q("btc"), DTYPES=q("P2WSH"),
                           FEES=ALL_FEE, USEALL="FALSE,TRUE", MSGS=q("none", "short", "long"), SEQS=ALL_SEQ, LOCKS=ALL_LOCK, VERS=ALL_VER),
              300 if quick else 3000))
    # -msg lengths around the push-opcode boundaries (75 / 76 / 255 / 256), every input type
    f.append(("msg", fam(ATYPES=q("p2kh", "tap"), STYPES=q("P2PKH", "P2SH", "P2WPKH", "P2TR"), UAMTS=q("btc"), DTYPES=q("P2WPKH", "OWN"),
                         CHANGES=q("none", "own"), MSGS=ALL_MSG, MODES=q("send", "batch")), 80 if quick else 320))
    # amounts at the edges of 64-bit arithmetic: no balance covers them, the wallet must refuse
    f.append(("huge", fam(STYPES=q("P2WPKH"), UAMTS=q("mid"), DAMTS=q("k5", "p63", "max64", "wrapfee", "p64"), MAXDEST=2, FEES=q("zero", "k1"),
                          USEALL="FALSE,TRUE", SUBFEES="FALSE,TRUE", MODES=q("send", "batch", "mixed")), 120 if quick else 1000))
    # -minsig together with -rfc6979 must terminate
    f.append(("bothsig", fam(ATYPES=q("p2kh", "tap"), STYPES=q("P2PKH", "P2SH", "P2WPKH", "P2TR"), UAMTS=q("small"), MAXUNSP=2, USEALL="TRUE", SIGOPTS=q("both")),
              24 if quick else 144))
    # keys imported through .others (compressed / uncompressed), alone and mixed with the wallet's own
    f.append(("imp", fam(WTYPES="3,4", ATYPES=q("p2kh", "bech32"), STYPES=q("IMPC", "IMPU", "P2WPKH"), UAMTS=q("small", "btc"), MAXUNSP=2,
                         USEALL="FALSE,TRUE", TUNETARGETS=q("none", "all"), RAWS=q("rev")), 100 if quick else 600))
    # listed outputs at high / zero-padded output indexes of previous transactions full of decoy outputs
    f.append(("vout", fam(ATYPES=q("p2kh") if quick else q("p2kh", "bech32"), STYPES=q("P2PKH", "P2WPKH") if quick else q("P2PKH", "P2WPKH", "P2TR", "FPKH"), MAXUNSP=2, VOFFS=ALL_VOFF,
                          USEALL="FALSE,TRUE", TUNETARGETS=q("none", "first", "all"), TUNEDELTAS=q("z", "p1"), RAWS=q("rev")), 300 if quick else 4000))
    # P2SH multisig outputs made of the wallet's keys: skipped by -send, signed through -raw after -p2sh
    f.append(("msig", fam(ATYPES=q("p2kh", "tap"), STYPES=q("P2PKH", "P2TR", "MS22", "MS23", "MS13F", "MS23F"), UAMTS=q("small"), MAXUNSP=2,
                          USEALL="FALSE,TRUE", RAWS=q("fwd", "rev") if quick else ALL_RAW), 80 if quick else 800))
    if not quick:
        # three unspent outputs of every type, three destinations
        f.append(("sel3", fam(ATYPES=q("segwit", "tap"), NETS="TRUE", STYPES=q("P2PKH", "P2SH", "P2WPKH", "P2TR", "FMS"), UAMTS=q("sat1", "huge"), MAXUNSP=3,
                              DTYPES=q("P2TR"), DAMTS=q("dust"), FEES=q("sat1"), USEALL="FALSE,TRUE", TUNETARGETS=ALL_TT, TUNEDELTAS=ALL_TD,
                              RAWS=ALL_RAW), 6000))
        f.append(("dest3", fam(WTYPES="4", ATYPES=q("segwit", "bech32"), STYPES=q("P2PKH"), UAMTS=q("huge"), DTYPES=ALL_DT, DAMTS=q("dust", "btc"), MAXDEST=3,
                               CHANGES=q("none", "own"), SUBFEES="FALSE,TRUE", MODES=q("send", "mixed"), SECOND=q("sweep")), 5000))
    return f


def wide(quick):
    """the whole space, walked at random"""
    return fam(WTYPES="3,4", ATYPES=ALL_AT, NETS="FALSE,TRUE", STYPES=ALL_ST + "," + q("IMPC", "MS23", "MS13F"), UAMTS=q("sat1", "dust", "small", "mid", "btc", "big", "huge"),
               MAXUNSP=2 if quick else 4, VOFFS="0,8,10,100", DTYPES=ALL_DT, DAMTS=q("sat1", "dust", "k5", "mid", "btc"), MAXDEST=3, FEES=ALL_FEE, USEALL="FALSE,TRUE",
               CHANGES=q("none", "own", "foreign"), MSGS=ALL_MSG, SEQS=ALL_SEQ, LOCKS=ALL_LOCK, VERS=ALL_VER, SUBFEES="FALSE,TRUE",
               MODES=q("send", "batch", "mixed"), TUNETARGETS=ALL_TT, TUNEDELTAS=ALL_TD, RAWS=q("fwd1", "rev") if quick else ALL_RAW, SECOND=q("sweep"))


def lanes(ctx, jobs, width):
    """Run jobs (callables taking a private Ctx copy) on `width` threads; each lane has its own scratch subdirectory."""
    res = [None] * len(jobs)
    ctx._c13_lanes = getattr(ctx, "_c13_lanes", 0) + 1
    gen = ctx._c13_lanes
    err, lock, nxt = [], threading.Lock(), [0]

    def worker(w):
        c2 = copy.copy(ctx)
        c2.scratch = os.path.join(ctx.scratch, "lane%d-%d" % (gen, w))
        os.makedirs(c2.scratch, exist_ok=True)
        c2._tlc_n = 0
        while True:
            with lock:
                i = nxt[0]
                nxt[0] += 1
            if i >= len(jobs) or err:
                return
            try:
                res[i] = jobs[i](c2)
            except BaseException as e:  # noqa
                err.append(e)
                return

    th = [threading.Thread(target=worker, args=(w,)) for w in range(min(width, len(jobs)))]
    for t in th:
        t.start()
    for t in th:
        t.join()
    if err:
        raise err[0]
    return res


def build_wallet(ctx):
    """the program under test: <repo>/wallet, built as it is (no tags), on every run"""
    outp = os.path.join(ctx.scratch, "wallet")
    p = ctx.run(["go", "build", "-o", outp, "./wallet"], cwd=ctx.repo, timeout=900)
    if p.returncode != 0:
        raise Infra("building the wallet binary failed:\n" + (p.stdout + p.stderr)[-3000:])
    return outp


def replay(ctx, binp, wallet, path, tag, workers=16, timeout=3000, first=0):
    d = os.path.join(ctx.scratch, "wt-" + tag)
    os.makedirs(d, exist_ok=True)
    p = ctx.run([binp, "replay", "-in", path, "-wallet", wallet, "-dir", d, "-salt", str(ctx.seed), "-workers", str(workers),
                 "-first", str(first)], timeout=timeout)
    if p.returncode != 0:
        raise Infra("replay driver failed: " + p.stderr[-2000:])
    fails, summ = [], None
    for ln in p.stdout.splitlines():
        if not ln.startswith("{"):
            continue
        j = json.loads(ln)
        if j.get("summary"):
            summ = j
        elif not j.get("ok", True):
            fails.append(j)
    if summ is None:
        raise Infra("replay driver gave no summary")
    if summ.get("infra"):
        raise Infra("replay driver could not run cases: %s" % summ["infra"][:3])
    return summ, fails


def export_job(name, d, target, simulate=None, depth=None, timeout=3000, tlcseed=None):
    """TLC (1 worker) enumerates the family, checks the invariants on every case and prints the thinned subset."""
    def job(c2):
        dd = dict(d, THIN=1, SALT=0)
        if simulate is None:
            thin = prime_at_most(estimate(d) // max(1, target))   # keep about `target` cases (which ones depends on the seed);
                                                                  # a prime stride does not alias with the enumeration's inner loops
            dd.update(THIN=thin, SALT=c2.seed % thin)
        laneseed = c2.seed
        if tlcseed is not None:
            c2.seed = tlcseed                                 # only TLC's -seed: the walks of this lane (c2 is private to the lane)
        try:
            r = c2.tlc("WalletTxGen", "WalletTx_gen", workers=1, defines=dd, simulate=simulate, depth=depth, timeout=timeout)
        finally:
            c2.seed = laneseed
        if r.invariant:
            raise Infra("design-level counterexample in WalletTx (%s, family %s): model and code must be re-examined\n%s" % (r.invariant, name, r.tail))
        if simulate is None:
            r.require_ok("export " + name)
        elif r.errors:
            raise Infra("simulation export %s failed\n%s" % (name, r.tail))
        path = os.path.join(c2.scratch, "lines-%s.json" % name)
        n = 0
        seen = set()
        with open(path, "w") as f:
            for s in r.lines("VFT"):
                if simulate is not None:
                    if s in seen:
                        continue
                    seen.add(s)
                f.write(s + "\n")
                n += 1
        os.remove(r.outpath)
        return name, path, n, r.distinct or 0, r.generated or 0, dd.get("THIN", 1)
    return job


def prime_at_most(n):
    n = max(1, n)
    while n > 3 and any(n % k == 0 for k in range(2, int(n ** 0.5) + 1)):
        n -= 1
    return n


def count(s):
    return len([x for x in s.split(",") if x.strip()])


def estimate(d):
    """number of completed cases (Build / Build2 / SignRaw transitions) of a family, from the sizes of its constant sets"""
    cfgs = count(d["WTYPES"]) * count(d["ATYPES"]) * count(d["NETS"])
    per = count(d["STYPES"]) * count(d["UAMTS"])
    lists = 0
    nv = count(d["VOFFS"])
    for n in range(1, int(d["MAXUNSP"]) + 1):
        lists += per * nv * (2 * per * nv) ** (n - 1)
    optA = count(d["FEES"]) * count(d["USEALL"]) * count(d["CHANGES"]) * count(d["SUBFEES"])
    optB = count(d["MSGS"]) * count(d["SEQS"]) * count(d["LOCKS"]) * count(d["VERS"]) * count(d["SIGOPTS"])
    tt = count(d["TUNETARGETS"])
    tunes = (1 if '"none"' in d["TUNETARGETS"] else 0) + (tt - (1 if '"none"' in d["TUNETARGETS"] else 0)) * count(d["TUNEDELTAS"])
    modes = count(d["MODES"])
    pd = count(d["DTYPES"]) * count(d["DAMTS"])
    builds = 0
    for n in range(1, int(d["MAXDEST"]) + 1):
        m = modes if n >= 2 or '"mixed"' not in d["MODES"] else modes - 1
        builds += pd ** n * optA * optB * m * tunes
    return cfgs * lists * (builds + count(d["RAWS"]) if d["RAWS"] else builds)


def run(ctx):
    quick = ctx.tier == "quick"
    ncpu = os.cpu_count() or 4
    wallet = build_wallet(ctx)
    binp = ctx.build("wallettx")
    states = transitions = 0

    # ---- 1. the design, exhaustively over a combined family (all cores), and every broken variant refuted
    mc = fam(ATYPES=q("p2kh"), STYPES=q("P2PKH", "P2SH", "P2TR", "FPKH"), UAMTS=q("dust", "mid"), MAXUNSP=2, DTYPES=q("OWN"), DAMTS=q("sat1"), MAXDEST=2,
             FEES=q("zero", "k1"), USEALL="FALSE,TRUE", CHANGES=q("none", "own"), SUBFEES="FALSE,TRUE", MODES=q("send", "mixed"),
             TUNETARGETS=q("none", "first", "all"), TUNEDELTAS=q("m1", "z"), RAWS=q("rev"), SECOND=q("sweep"))
    if not quick:
        mc.update(ATYPES=q("p2kh", "tap"), DTYPES=q("P2PKH", "OWN"), MODES=q("send", "batch", "mixed"), TUNEDELTAS=ALL_TD)
    r = ctx.tlc("WalletTx", "WalletTx_mc", defines=dict(mc, BUG="none", INVS=" ".join(INVS)), timeout=3000)
    if r.invariant:
        raise Infra("design-level counterexample in WalletTx (%s)\n%s" % (r.invariant, r.tail))
    r.require_ok("mc")
    states += r.distinct
    transitions += r.generated
    ctx.cov["mc"] = {"states": r.distinct, "wall_s": round(r.wall, 1)}

    def bugjob(bug, inv):
        def job(c2):
            d = fam(STYPES=q("P2PKH", "FPKH"), UAMTS=q("dust", "mid"), MAXUNSP=2, DAMTS=q("sat1"), USEALL="FALSE,TRUE", SUBFEES="FALSE,TRUE",
                    TUNETARGETS=q("none", "first", "all"), TUNEDELTAS=ALL_TD, RAWS=q("rev"), BUG=bug, INVS="TypeOK " + inv)
            rr = c2.tlc("WalletTx", "WalletTx_mc", workers=2, defines=d, timeout=900)
            if rr.invariant != inv:
                raise Infra("sanity: WalletTx with Bug=%s should violate %s, TLC says %s\n%s" % (bug, inv, rr.invariant, rr.tail))
            return "%s violates %s" % (bug, inv)
        return job
    ctx.cov["refuted_variants"] = lanes(ctx, [bugjob(b, i) for b, i in BUGS], max(1, ncpu // 2))

    # ---- 2. export (families breadth-first + random walks over the wide space) and replay on the real binary
    jobs = [export_job(n, d, t) for n, d, t in families(quick, ctx.seed)]
    nlanes, nwalk = (1, 400) if quick else (8, 1200)
    for k in range(nlanes):
        jobs.append(export_job("walk%d" % k, wide(quick), 0, simulate="num=%d" % nwalk, depth=14, timeout=3000, tlcseed=ctx.seed * 100 + k))
    exported = lanes(ctx, jobs, max(1, ncpu - 2))
    total = {"lines": 0, "written": 0, "refused": 0, "raw": 0, "second": 0, "inputs_verified": 0, "inputs_verified_by_ref": 0, "wallet_runs": 0}
    by_stype, by_dtype, observations, fam_cov = {}, {}, {}, {}
    first = None
    for name, path, n, distinct, generated, thin in exported:
        if n == 0:
            raise Infra("export %s produced no case" % name)
        states += distinct
        transitions += generated
        summ, fails = replay(ctx, binp, wallet, path, name, workers=ncpu)
        for k in total:
            total[k] += summ[k]
        for src, dst in ((summ["by_stype"], by_stype), (summ["by_dtype"], by_dtype), (summ.get("observations") or {}, observations)):
            for k, v in src.items():
                dst[k] = dst.get(k, 0) + v
        fam_cov[name] = {"cases": n, "thin": thin, "states": distinct, "failures": summ["fail"]}
        ctx.log("family %s: %d cases replayed (1 of %d), %d written, %d refused, %d raw, %d second sends, %d inputs verified: %d failures" %
                (name, n, thin, summ["written"], summ["refused"], summ["raw"], summ["second"], summ["inputs_verified"], summ["fail"]))
        for f in fails:
            case = line_of(path, f["line"])
            ctx.violation(f["sig"], {"case": case, "salt": ctx.seed, "line": f["line"], "step": f.get("step")},
                          "%s | cmd: %s | wallet.cfg: %s | wrote: %s" % (f["what"], " ; ".join(" ".join(c) for c in f.get("cmds", [])),
                                                                    f.get("wallet_cfg", "").replace("\n", " / "), (f.get("wrote") or "")[:400]))
        if name == "sel":
            first = path
            with open(path) as fh:
                for i, l in enumerate(fh):
                    if i in (3, 40, 200):
                        j = json.loads(l)
                        ctx.sample({"cfg": j["cfg"], "unspent": [[u["st"], sat(u["amt"])] for u in j["unsp"]], "request": [[d["dt"], sat(d["req"])] for d in j["dests"]],
                                    "fee": sat(j["fee"]["amt"]), "predicted": {"written": j["res"]["written"], "ins": j["res"]["ins"],
                                                                              "outs": [[o["k"], sat(o["amt"])] for o in j["res"]["outs"]]} if j["phase"] != "rawsigned" else "raw"})

    # ---- 3. binding self-test: corrupted predictions must be rejected
    if not ctx.violations:
        selftest(ctx, binp, wallet, first)

    ctx.level = "exploration"
    nontrivial = total["written"] + total["refused"] + total["raw"]
    ctx.cov.update({"evaluations": total["lines"], "distinct_nontrivial": nontrivial, "states": states, "transitions": transitions,
                    "wallet_runs": total["wallet_runs"], "transactions_written": total["written"], "refusals": total["refused"],
                    "raw_transactions": total["raw"], "second_sends": total["second"], "inputs_verified": total["inputs_verified"],
                    "inputs_verified_by_ref": total["inputs_verified_by_ref"], "inputs_by_script_type": by_stype, "destinations_by_type": by_dtype,
                    "observations": observations, "families": fam_cov,
                    "rule": "cases enumerated by TLC from spec/WalletTx.tla (breadth-first families thinned 1 of N by the seed + random walks); "
                            "expected transaction computed by the model, signatures judged by lib/script and by harness/ref"})
    ctx.assumptions += ["previous transactions are synthetic (one dummy input) but pay to the scripts of the keys the wallet itself lists",
                        "RIPEMD-160 comes from lib/others/ripemd160 (trusted base, DESIGN 2.3)",
                        "-minsig with -rfc6979 is run under a 20 s limit (family bothsig); a run that does not end is reported once it is shown that the same request without -minsig ends at once; after two such hangs the remaining cases of the family are skipped",
                        "coin selection is compared with the transcribed rule but a different valid selection is only an observation",
                        "multisig: 2-of-2 / 2-of-3 / 1-of-3 P2SH outputs through -p2sh + -raw; -msign (one key at a time) is not covered"]


def sat(a):
    return a["h"] * 10 ** 16 + a["u"] * 10 ** 8 + a["e"]        # spec/Amt.tla: three base-10^8 digits


def line_of(path, n):
    with open(path) as f:
        for i, l in enumerate(f):
            if i == n:
                return json.loads(l)
    return None


def selftest(ctx, binp, wallet, first):
    """one prediction of each kind is corrupted; the driver must object to exactly those"""
    mut = os.path.join(ctx.scratch, "mut.json")
    want = set()
    kinds = {"pay": False, "refuse": False, "write": False, "rawseq": False}
    n = 0
    with open(first) as f, open(mut, "w") as g:
        for l in f:
            j = json.loads(l)
            k = None
            if j["phase"] in ("built", "built2") and j["res"]["written"] and not kinds["pay"] and j["dests"][0]["pay"]["e"] > 0:
                j["dests"][0]["pay"]["e"] -= 1          # the destination should have received one satoshi less
                k = "pay"
            elif j["phase"] in ("built", "built2") and j["res"]["written"] and not kinds["refuse"]:
                j["res"]["written"] = False              # claims the wallet must refuse
                j["res"]["why"] = "insufficient"
                j["phase"] = "built"
                k = "refuse"
            elif j["phase"] == "built" and not j["res"]["written"] and j["res"]["why"] == "insufficient" and not kinds["write"]:
                j["res"]["written"] = True               # claims the wallet must write
                k = "write"
            elif j["phase"] == "rawsigned" and not kinds["rawseq"] and j["raw"]["ins"]:
                j["raw"]["ins"][0]["sq"] = "00000009"    # the driver hands this to the wallet ...
                j["rres"]["signed"] = [not b for b in j["rres"]["signed"]]   # ... and expects the other inputs to be signed
                if not any(j["rres"]["signed"]):
                    continue
                k = "rawsigned"
                kinds["rawseq"] = True
                g.write(json.dumps(j) + "\n")
                want.add(n)
                n += 1
                continue
            if k:
                kinds[k] = True
                g.write(json.dumps(j) + "\n")
                want.add(n)
                n += 1
    if not (kinds["pay"] and kinds["refuse"]):
        raise Infra("binding self-test: no suitable case to corrupt (%s)" % kinds)
    summ, fails = replay(ctx, binp, wallet, mut, "mut", workers=4)
    got = set(f["line"] for f in fails)
    if got != want:
        raise Infra("binding self-test failed: corrupted predictions %s, driver objected to %s" % (sorted(want), sorted(got)))
    ctx.cov["selftest"] = {"corrupted": len(want), "rejected": len(got), "kinds": [k for k, v in kinds.items() if v]}


def replay_cmd(ctx, path):
    j = json.load(open(path))
    rp = j["replay"]
    wallet = build_wallet(ctx)
    binp = ctx.build("wallettx")
    p = os.path.join(ctx.scratch, "one.json")
    open(p, "w").write(json.dumps(rp["case"]) + "\n")
    ctx.seed = rp.get("salt", ctx.seed)
    summ, fails = replay(ctx, binp, wallet, p, "rp", workers=1, first=rp.get("line", 0))
    for f in fails:
        print("reproduced:", f["sig"], f["what"])
    return 1 if fails else 0
