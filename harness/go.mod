module verifharness

go 1.18

require github.com/piotrnar/gocoin v0.0.0

replace github.com/piotrnar/gocoin => /repo
