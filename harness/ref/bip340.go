package ref

import (
	"crypto/sha256"
	"errors"
	"math/big"
)

// TaggedHash is BIP 340's hash_tag(x) = SHA256(SHA256(tag) || SHA256(tag) || x).
func TaggedHash(tag string, parts ...[]byte) []byte {
	t := sha256.Sum256([]byte(tag))
	h := sha256.New()
	h.Write(t[:])
	h.Write(t[:])
	for _, p := range parts {
		h.Write(p)
	}
	return h.Sum(nil)
}

// LiftXEven is BIP 340's lift_x: the point with this x and even y; fails for x >= p and for x that is
// not the abscissa of a curve point.
func LiftXEven(x *big.Int) (Point, bool) { return LiftX(x, false) }

// SchnorrChallenge is int(hash_BIP0340/challenge(r || pk || m)) mod n.
func SchnorrChallenge(r32, pk32, msg []byte) *big.Int {
	return ModN(FromBytes(TaggedHash("BIP0340/challenge", r32, pk32, msg)))
}

// SchnorrVerify is BIP 340 "Verification" for a 32-byte public key and a 64-byte signature.
func SchnorrVerify(pk32, msg, sig64 []byte) bool {
	if len(pk32) != 32 || len(sig64) != 64 {
		return false
	}
	p, ok := LiftXEven(FromBytes(pk32))
	if !ok {
		return false
	}
	r := FromBytes(sig64[:32])
	s := FromBytes(sig64[32:])
	if r.Cmp(P) >= 0 || s.Cmp(N) >= 0 {
		return false
	}
	e := SchnorrChallenge(sig64[:32], pk32, msg)
	rp := BaseMul(s).Add(p.Mul(e).Neg())
	if rp.Inf || rp.YOdd() || rp.X.Cmp(r) != 0 {
		return false
	}
	return true
}

// SchnorrPubKey is BIP 340 "Public Key Generation": bytes(x(d*G)); it also returns the secret key negated
// when needed so that it belongs to the even-y point (the d of "Default Signing").
func SchnorrPubKey(d *big.Int) (pk32 []byte, evenD *big.Int, err error) {
	if !InRange(d) {
		return nil, nil, errors.New("secret key out of range")
	}
	p := BaseMul(d)
	evenD = new(big.Int).Set(d)
	if p.YOdd() {
		evenD.Sub(N, d)
	}
	return B32(p.X), evenD, nil
}

// SchnorrSign is BIP 340 "Default Signing" with 32 bytes of auxiliary randomness.
func SchnorrSign(sk32, msg, aux32 []byte) ([]byte, error) {
	sig, _, err := SchnorrSignEx(sk32, msg, aux32, false)
	return sig, err
}

// SchnorrSignEx is SchnorrSign; with keepOddR the nonce is NOT negated when R has an odd y, which yields
// a signature whose nonce point has odd y (a verifier must refuse it).  rOdd reports the parity of k'G.
func SchnorrSignEx(sk32, msg, aux32 []byte, keepOddR bool) (sig []byte, rOdd bool, err error) {
	pk32, d, err := SchnorrPubKey(FromBytes(sk32))
	if err != nil {
		return nil, false, err
	}
	t := TaggedHash("BIP0340/aux", aux32)
	db := B32(d)
	for i := range t {
		t[i] ^= db[i]
	}
	rand := TaggedHash("BIP0340/nonce", t, pk32, msg)
	k0 := ModN(FromBytes(rand))
	if k0.Sign() == 0 {
		return nil, false, errors.New("k' = 0")
	}
	rp := BaseMul(k0)
	rOdd = rp.YOdd()
	k := k0
	if rOdd && !keepOddR {
		k = new(big.Int).Sub(N, k0)
	}
	r32 := B32(rp.X)
	e := SchnorrChallenge(r32, pk32, msg)
	s := ModN(new(big.Int).Add(k, new(big.Int).Mul(e, d)))
	return append(r32, B32(s)...), rOdd, nil
}

// TapTweakHash is BIP 341's t = hash_TapTweak(p || k_m).
func TapTweakHash(p32, merkleRoot []byte) []byte { return TaggedHash("TapTweak", p32, merkleRoot) }

// TapTweakCheck is the output-key check of BIP 341 ("Script validation rules", the script path) given
// the 32-byte tweak t already hashed: fail if t >= n; P = lift_x(p) or fail; Q = P + t*G;
// accept iff x(Q) = q and the parity bit equals y(Q) mod 2.
func TapTweakCheck(q32, p32, t32 []byte, parityOdd bool) bool {
	if len(q32) != 32 || len(p32) != 32 || len(t32) != 32 {
		return false
	}
	t := FromBytes(t32)
	if t.Cmp(N) >= 0 {
		return false
	}
	p, ok := LiftXEven(FromBytes(p32))
	if !ok {
		return false
	}
	q := p.Add(BaseMul(t))
	if q.Inf {
		return false
	}
	return q.X.Cmp(FromBytes(q32)) == 0 && q.YOdd() == parityOdd
}
