package ref

import (
	"crypto/hmac"
	"crypto/sha256"
	"errors"
	"math/big"
)

// HashToInt is SEC 1 v2 section 4.1.3 step 5 / RFC 6979 bits2int for a digest that is exactly as
// long as n (256 bits): the big-endian integer, NOT yet reduced.
func HashToInt(h []byte) *big.Int { return new(big.Int).SetBytes(h) }

// Sig is an ECDSA signature as a pair of integers (whatever their range).
type Sig struct{ R, S *big.Int }

// InRange: SEC 1 v2 section 4.1.4 step 1: r and s must be integers in [1, n-1].
func InRange(v *big.Int) bool { return v.Sign() > 0 && v.Cmp(N) < 0 }

// EcdsaVerify is SEC 1 v2 section 4.1.4 for a public key Q that has already been validated.
func EcdsaVerify(q Point, hash []byte, sig Sig) bool {
	if !q.OnCurve() {
		return false
	}
	if !InRange(sig.R) || !InRange(sig.S) {
		return false
	}
	e := HashToInt(hash)
	w := InvN(sig.S)
	u1 := ModN(new(big.Int).Mul(e, w))
	u2 := ModN(new(big.Int).Mul(sig.R, w))
	x := BaseMul(u1).Add(q.Mul(u2))
	if x.Inf {
		return false
	}
	return ModN(x.X).Cmp(sig.R) == 0
}

// EcdsaModEquation tells whether the ECDSA equation holds for (r mod n, s mod n): the acceptance condition
// of an implementation that forgets the range check but otherwise computes modulo n.
func EcdsaModEquation(q Point, hash []byte, sig Sig) bool {
	return EcdsaVerify(q, hash, Sig{ModN(sig.R), ModN(sig.S)})
}

// EcdsaSignWithNonce is SEC 1 v2 section 4.1.3 with the nonce given, followed by the low-S rule of
// BIP 62 / BIP 146 (s > n/2 is replaced by n - s).  recid is the recovery id of the RETURNED
// signature: bit 0 = parity of the y coordinate of the point whose x gave r (after the low-S flip),
// bit 1 = that x was >= n.
func EcdsaSignWithNonce(d *big.Int, hash []byte, k *big.Int) (sig Sig, recid int, err error) {
	if !InRange(d) {
		return sig, 0, errors.New("secret key out of range")
	}
	if !InRange(k) {
		return sig, 0, errors.New("nonce out of range")
	}
	rp := BaseMul(k)
	r := ModN(rp.X)
	if r.Sign() == 0 {
		return sig, 0, errors.New("r = 0")
	}
	e := HashToInt(hash)
	s := new(big.Int).Mul(r, d)
	s.Add(s, e)
	s.Mul(s, InvN(k))
	s = ModN(s)
	if s.Sign() == 0 {
		return sig, 0, errors.New("s = 0")
	}
	if rp.YOdd() {
		recid |= 1
	}
	if rp.X.Cmp(N) >= 0 {
		recid |= 2
	}
	if s.Cmp(HalfN) > 0 {
		s.Sub(N, s)
		recid ^= 1
	}
	return Sig{r, s}, recid, nil
}

// EcdsaRecover is SEC 1 v2 section 4.1.6 for one candidate: x = r + (recid&2 ? n : 0), y parity = recid&1.
func EcdsaRecover(hash []byte, sig Sig, recid int) (Point, bool) {
	if !InRange(sig.R) || !InRange(sig.S) {
		return Infinity, false
	}
	x := new(big.Int).Set(sig.R)
	if recid&2 != 0 {
		x.Add(x, N)
	}
	rp, ok := LiftX(x, recid&1 != 0) // fails for x >= p and for x that is not on the curve
	if !ok {
		return Infinity, false
	}
	e := HashToInt(hash)
	ri := InvN(sig.R)
	// Q = r^-1 (s R - e G)
	q := rp.Mul(ModN(new(big.Int).Mul(sig.S, ri))).Add(BaseMul(ModN(new(big.Int).Neg(new(big.Int).Mul(e, ri)))))
	if q.Inf {
		return Infinity, false
	}
	return q, true
}

// ---- RFC 6979 -------------------------------------------------------------------------------------

func hmacSha256(key []byte, parts ...[]byte) []byte {
	m := hmac.New(sha256.New, key)
	for _, p := range parts {
		m.Write(p)
	}
	return m.Sum(nil)
}

// HmacDrbg is the HMAC_DRBG instantiation of RFC 6979 section 3.2 steps b-g (SHA-256) over an
// arbitrary seed string, exposed so that the libsecp256k1-style PRNG vectors can be reproduced.
type HmacDrbg struct {
	k, v  []byte
	retry bool
}

func NewHmacDrbg(seed []byte) *HmacDrbg {
	d := &HmacDrbg{k: make([]byte, 32), v: make([]byte, 32)}
	for i := range d.v {
		d.v[i] = 1 // step b
	} // step c: k = 0
	d.k = hmacSha256(d.k, d.v, []byte{0}, seed) // d
	d.v = hmacSha256(d.k, d.v)                  // e
	d.k = hmacSha256(d.k, d.v, []byte{1}, seed) // f
	d.v = hmacSha256(d.k, d.v)                  // g
	return d
}

// Next returns the next 32 output bytes (step h.2 with tlen = 256, and h.3's update before a retry).
func (d *HmacDrbg) Next() []byte {
	if d.retry {
		d.k = hmacSha256(d.k, d.v, []byte{0})
		d.v = hmacSha256(d.k, d.v)
	}
	d.v = hmacSha256(d.k, d.v)
	d.retry = true
	return append([]byte(nil), d.v...)
}

func bits2int(b []byte, qlen int) *big.Int {
	v := new(big.Int).SetBytes(b)
	if blen := len(b) * 8; blen > qlen {
		v.Rsh(v, uint(blen-qlen))
	}
	return v
}

func int2octets(v *big.Int, rolen int) []byte {
	b := v.Bytes()
	if len(b) > rolen {
		panic("int2octets: value too long")
	}
	out := make([]byte, rolen)
	copy(out[rolen-len(b):], b)
	return out
}

// RFC6979Nonce is RFC 6979 section 3.2 with HMAC-SHA-256 for a group of prime order q: x the private
// key, h1 the message digest (any length).  extra is appended to the seed (section 3.6), usually nil.
func RFC6979Nonce(q, x *big.Int, h1 []byte, extra []byte) *big.Int {
	qlen := q.BitLen()
	rolen := (qlen + 7) / 8
	z := bits2int(h1, qlen)
	z.Mod(z, q) // bits2octets = int2octets(bits2int(h1) mod q)
	seed := append(int2octets(x, rolen), int2octets(z, rolen)...)
	seed = append(seed, extra...)
	d := NewHmacDrbg(seed)
	for {
		var t []byte
		first := true
		for len(t)*8 < qlen {
			// within one candidate the V chain simply continues; the K/V update of step h.3 happens
			// only between candidates
			if first {
				t = append(t, d.Next()...)
				first = false
			} else {
				d.v = hmacSha256(d.k, d.v)
				t = append(t, d.v...)
			}
		}
		k := bits2int(t, qlen)
		if k.Sign() > 0 && k.Cmp(q) < 0 {
			return k
		}
	}
}

// EcdsaSignRFC6979 = deterministic ECDSA over secp256k1 with SHA-256 and the low-S rule.
func EcdsaSignRFC6979(d *big.Int, hash []byte) (Sig, int, error) {
	if !InRange(d) {
		return Sig{}, 0, errors.New("secret key out of range")
	}
	k := RFC6979Nonce(N, d, hash, nil)
	return EcdsaSignWithNonce(d, hash, k)
}
