package ref

import (
	"math/big"
)

// ---- public keys: SEC 1 v2 section 2.3.3 / 2.3.4, plus the X9.62 hybrid form -----------------------

// ParsePubKey decodes an elliptic-curve-point octet string as a PUBLIC KEY: the point at infinity
// (single 00 octet) is not a public key; coordinates must be field elements (integers below p,
// section 2.3.5 / 2.3.6) and satisfy the curve equation.  Hybrid (06 / 07) is the uncompressed form
// whose first octet also states the parity of y; the parity must be the real one.
func ParsePubKey(b []byte) (Point, bool) {
	switch {
	case len(b) == 33 && (b[0] == 2 || b[0] == 3):
		return LiftX(FromBytes(b[1:]), b[0] == 3)
	case len(b) == 65 && (b[0] == 4 || b[0] == 6 || b[0] == 7):
		pt := Point{X: FromBytes(b[1:33]), Y: FromBytes(b[33:])}
		if !pt.OnCurve() { // includes x < p, y < p
			return Infinity, false
		}
		if b[0] != 4 && pt.YOdd() != (b[0] == 7) {
			return Infinity, false
		}
		return pt, true
	}
	return Infinity, false
}

// SerializePubKey encodes a finite point: 33 bytes (02/03) or 65 bytes (04).
func SerializePubKey(a Point, compressed bool) []byte {
	if a.Inf {
		panic("SerializePubKey: infinity")
	}
	if compressed {
		out := make([]byte, 33)
		out[0] = 2
		if a.YOdd() {
			out[0] = 3
		}
		copy(out[1:], B32(a.X))
		return out
	}
	out := make([]byte, 65)
	out[0] = 4
	copy(out[1:], B32(a.X))
	copy(out[33:], B32(a.Y))
	return out
}

// ---- DER ------------------------------------------------------------------------------------------

// derInt is the minimal DER content of a non-negative INTEGER.
func derInt(v *big.Int) []byte {
	if v.Sign() < 0 {
		panic("derInt: negative")
	}
	b := v.Bytes()
	if len(b) == 0 {
		return []byte{0}
	}
	if b[0]&0x80 != 0 {
		b = append([]byte{0}, b...)
	}
	return b
}

// EncodeDER is the canonical (X.690 DER) Ecdsa-Sig-Value ::= SEQUENCE { r INTEGER, s INTEGER } for
// non-negative r, s whose total content stays below 128 bytes (short-form lengths).
func EncodeDER(sig Sig) []byte {
	return EncodeDERRaw(derInt(sig.R), derInt(sig.S))
}

// EncodeDERRaw builds 30 len 02 lr <rb> 02 ls <sb> from raw integer contents (no minimality applied).
func EncodeDERRaw(rb, sb []byte) []byte {
	out := []byte{0x30, byte(4 + len(rb) + len(sb)), 0x02, byte(len(rb))}
	out = append(out, rb...)
	out = append(out, 0x02, byte(len(sb)))
	out = append(out, sb...)
	return out
}

// IsStrictDER is BIP 66's IsValidSignatureEncoding for a signature WITHOUT the trailing hash-type byte.
func IsStrictDER(sig []byte) bool {
	if len(sig) < 8 || len(sig) > 72 {
		return false
	}
	if sig[0] != 0x30 || int(sig[1]) != len(sig)-2 || sig[2] != 0x02 {
		return false
	}
	lenR := int(sig[3])
	if 5+lenR >= len(sig) {
		return false
	}
	lenS := int(sig[5+lenR])
	if lenR+lenS+6 != len(sig) {
		return false
	}
	if lenR == 0 || sig[4]&0x80 != 0 {
		return false
	}
	if lenR > 1 && sig[4] == 0 && sig[5]&0x80 == 0 {
		return false
	}
	if sig[lenR+4] != 0x02 {
		return false
	}
	if lenS == 0 || sig[lenR+6]&0x80 != 0 {
		return false
	}
	if lenS > 1 && sig[lenR+6] == 0 && sig[lenR+7]&0x80 == 0 {
		return false
	}
	return true
}

// ParseDERStrict returns (r, s) of a strictly encoded signature.
func ParseDERStrict(sig []byte) (Sig, bool) {
	if !IsStrictDER(sig) {
		return Sig{}, false
	}
	lenR := int(sig[3])
	lenS := int(sig[5+lenR])
	return Sig{FromBytes(sig[4 : 4+lenR]), FromBytes(sig[6+lenR : 6+lenR+lenS])}, true
}

// ParseDERLax reads a signature the way Bitcoin's consensus code has always done for signatures that
// predate BIP 66 (ecdsa_signature_parse_der_lax): sequence length not enforced, long-form lengths
// allowed, integers read as unsigned with any number of leading zeros, trailing bytes ignored.
// It returns the two integers (unbounded) or false when the structure cannot be read at all.
func ParseDERLax(in []byte) (Sig, bool) {
	pos := 0
	n := len(in)
	if pos == n || in[pos] != 0x30 {
		return Sig{}, false
	}
	pos++
	if pos == n {
		return Sig{}, false
	}
	lb := int(in[pos])
	pos++
	if lb&0x80 != 0 {
		lb -= 0x80
		if lb > n-pos {
			return Sig{}, false
		}
		pos += lb
	}
	readInt := func() (*big.Int, bool) {
		if pos == n || in[pos] != 0x02 {
			return nil, false
		}
		pos++
		if pos == n {
			return nil, false
		}
		lb := int(in[pos])
		pos++
		l := 0
		if lb&0x80 != 0 {
			lb -= 0x80
			if lb > n-pos {
				return nil, false
			}
			for lb > 0 && in[pos] == 0 {
				pos++
				lb--
			}
			if lb >= 4 {
				return nil, false
			}
			for lb > 0 {
				l = l<<8 + int(in[pos])
				pos++
				lb--
			}
		} else {
			l = lb
		}
		if l > n-pos {
			return nil, false
		}
		v := FromBytes(in[pos : pos+l])
		pos += l
		return v, true
	}
	r, ok := readInt()
	if !ok {
		return Sig{}, false
	}
	s, ok := readInt()
	if !ok {
		return Sig{}, false
	}
	return Sig{r, s}, true
}
