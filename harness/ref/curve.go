// Package ref is the independent reference used as numeric oracle by the C03 / C08 checks.
//
// It is written from the specifications only - SEC 1 v2 (point encoding, ECDSA), SEC 2 v2
// (the secp256k1 domain parameters), RFC 6979 (deterministic nonces), BIP 66 (strict DER),
// BIP 340 (Schnorr signatures) and BIP 341 (the taproot output-key tweak) - over math/big
// and the standard library's hashes.  It does not import any gocoin package.
//
// All group arithmetic is textbook affine chord-and-tangent arithmetic.  It is slow and not
// constant time; it only has to be obviously right.  SelfTest() checks it against published
// vectors and must pass before anything in this package is trusted as an oracle.
package ref

import (
	"math/big"
	"sync"
)

func hexInt(s string) *big.Int {
	v, ok := new(big.Int).SetString(s, 16)
	if !ok {
		panic("bad hex constant " + s)
	}
	return v
}

// SEC 2 v2, section 2.4.1: recommended parameters secp256k1  T = (p, a, b, G, n, h), a = 0, b = 7, h = 1.
var (
	P  = hexInt("FFFFFFFFFFFFFFFFFFFFFFFFFFFFFFFFFFFFFFFFFFFFFFFFFFFFFFFEFFFFFC2F")
	N  = hexInt("FFFFFFFFFFFFFFFFFFFFFFFFFFFFFFFEBAAEDCE6AF48A03BBFD25E8CD0364141")
	Gx = hexInt("79BE667EF9DCBBAC55A06295CE870B07029BFCDB2DCE28D959F2815B16F81798")
	Gy = hexInt("483ADA7726A3C4655DA4FBFC0E1108A8FD17B448A68554199C47D08FFB10D4B8")
	B7 = big.NewInt(7)

	// Lambda is the non-trivial cube root of unity modulo n that the GLV endomorphism
	// (x, y) -> (beta*x, y) multiplies by; Beta the matching cube root of unity modulo p.
	// SelfTest checks Lambda^2 + Lambda + 1 = 0 (mod n), Beta^3 = 1 (mod p) and Lambda*G = (Beta*Gx, Gy).
	Lambda = hexInt("5363AD4CC05C30E0A5261C028812645A122E22EA20816678DF02967C1B23BD72")
	Beta   = hexInt("7AE96A2B657C07106E64479EAC3434E99CF0497512F58995C1396C28719501EE")

	HalfN  = new(big.Int).Rsh(N, 1) // (n-1)/2
	Two256 = new(big.Int).Lsh(big.NewInt(1), 256)

	one   = big.NewInt(1)
	two   = big.NewInt(2)
	three = big.NewInt(3)
)

// Point is an affine point of the curve y^2 = x^3 + 7 over GF(p), or the point at infinity.
// Values are immutable: no function in this package modifies a Point it was given.
type Point struct {
	X, Y *big.Int
	Inf  bool
}

var (
	Infinity = Point{Inf: true}
	G        = Point{X: Gx, Y: Gy}
)

func modP(v *big.Int) *big.Int { return v.Mod(v, P) }

// FAdd, FSub, FMul, FNeg, FInv, FSqr: arithmetic in GF(p) on canonical representatives.
func FAdd(a, b *big.Int) *big.Int { return modP(new(big.Int).Add(a, b)) }
func FSub(a, b *big.Int) *big.Int { return modP(new(big.Int).Sub(a, b)) }
func FMul(a, b *big.Int) *big.Int { return modP(new(big.Int).Mul(a, b)) }
func FSqr(a *big.Int) *big.Int    { return modP(new(big.Int).Mul(a, a)) }
func FNeg(a *big.Int) *big.Int    { return modP(new(big.Int).Neg(a)) }

// FInv returns a^(p-2) mod p (0 for 0), by Fermat, so that it does not rely on big.Int.ModInverse.
func FInv(a *big.Int) *big.Int {
	return new(big.Int).Exp(new(big.Int).Mod(a, P), new(big.Int).Sub(P, two), P)
}

func fInvFast(a *big.Int) *big.Int {
	r := new(big.Int).ModInverse(new(big.Int).Mod(a, P), P)
	if r == nil {
		return new(big.Int)
	}
	return r
}

// IsQR tells whether a is a square modulo p (0 counts as a square), by Euler's criterion.
func IsQR(a *big.Int) bool {
	a = new(big.Int).Mod(a, P)
	if a.Sign() == 0 {
		return true
	}
	e := new(big.Int).Rsh(new(big.Int).Sub(P, one), 1)
	return new(big.Int).Exp(a, e, P).Cmp(one) == 0
}

// FSqrtCandidate returns a^((p+1)/4) mod p.  Because p = 3 (mod 4) this is a square root of a
// when a is a square, and a square root of -a otherwise.
func FSqrtCandidate(a *big.Int) *big.Int {
	e := new(big.Int).Rsh(new(big.Int).Add(P, one), 2)
	return new(big.Int).Exp(new(big.Int).Mod(a, P), e, P)
}

// FSqrt returns a square root of a and true, or nil and false when a is not a square.
func FSqrt(a *big.Int) (*big.Int, bool) {
	r := FSqrtCandidate(a)
	if FSqr(r).Cmp(new(big.Int).Mod(a, P)) != 0 {
		return nil, false
	}
	return r, true
}

// CurveRHS returns x^3 + 7 mod p.
func CurveRHS(x *big.Int) *big.Int {
	return FAdd(FMul(FSqr(x), x), B7)
}

// OnCurve: 0 <= x, y < p and y^2 = x^3 + 7 (the point at infinity is not "on the curve" here).
func (a Point) OnCurve() bool {
	if a.Inf || a.X == nil || a.Y == nil {
		return false
	}
	if a.X.Sign() < 0 || a.Y.Sign() < 0 || a.X.Cmp(P) >= 0 || a.Y.Cmp(P) >= 0 {
		return false
	}
	return FSqr(a.Y).Cmp(CurveRHS(a.X)) == 0
}

func (a Point) Equal(b Point) bool {
	if a.Inf || b.Inf {
		return a.Inf == b.Inf
	}
	return a.X.Cmp(b.X) == 0 && a.Y.Cmp(b.Y) == 0
}

func (a Point) Neg() Point {
	if a.Inf {
		return a
	}
	return Point{X: a.X, Y: FNeg(a.Y)}
}

func (a Point) YOdd() bool { return a.Y.Bit(0) == 1 }

// Chord applies the chord rule to two finite points with different x (no check that they are on the
// curve): lambda = (y2-y1)/(x2-x1), x3 = lambda^2 - x1 - x2, y3 = lambda (x1 - x3) - y1.
func Chord(a, b Point) Point {
	l := FMul(FSub(b.Y, a.Y), fInvFast(FSub(b.X, a.X)))
	x3 := FSub(FSub(FSqr(l), a.X), b.X)
	y3 := FSub(FMul(l, FSub(a.X, x3)), a.Y)
	return Point{X: x3, Y: y3}
}

// Double: tangent rule for a = 0: lambda = 3 x^2 / (2 y); the result is infinity when y = 0.
func (a Point) Double() Point {
	if a.Inf || a.Y.Sign() == 0 {
		return Infinity
	}
	l := FMul(FMul(three, FSqr(a.X)), fInvFast(FMul(two, a.Y)))
	x3 := FSub(FSqr(l), FMul(two, a.X))
	y3 := FSub(FMul(l, FSub(a.X, x3)), a.Y)
	return Point{X: x3, Y: y3}
}

// Add is the group law.
func (a Point) Add(b Point) Point {
	switch {
	case a.Inf:
		return b
	case b.Inf:
		return a
	}
	if a.X.Cmp(b.X) == 0 {
		if a.Y.Cmp(b.Y) == 0 {
			return a.Double()
		}
		return Infinity // b = -a (the only other point with this x)
	}
	return Chord(a, b)
}

// Mul returns k*a for any integer k (negative k: (-k)*(-a)); plain left-to-right double-and-add.
func (a Point) Mul(k *big.Int) Point {
	if k.Sign() < 0 {
		return a.Neg().Mul(new(big.Int).Neg(k))
	}
	r := Infinity
	for i := k.BitLen() - 1; i >= 0; i-- {
		r = r.Double()
		if k.Bit(i) == 1 {
			r = r.Add(a)
		}
	}
	return r
}

// BaseMul returns k*G.  For speed it adds up entries of a table T[j][d] = d*16^j*G (j < 64, d < 16) that is
// built once with the plain group law above; SelfTest compares it with G.Mul.
func BaseMul(k *big.Int) Point {
	if k.Sign() < 0 || k.BitLen() > 256 {
		return G.Mul(k)
	}
	baseOnce.Do(func() {
		b := G
		for j := 0; j < 64; j++ {
			baseTab[j][0] = Infinity
			for d := 1; d < 16; d++ {
				baseTab[j][d] = baseTab[j][d-1].Add(b)
			}
			b = baseTab[j][15].Add(b)
		}
	})
	r := Infinity
	for j := 0; j < 64; j++ {
		d := k.Bit(4*j) | k.Bit(4*j+1)<<1 | k.Bit(4*j+2)<<2 | k.Bit(4*j+3)<<3
		if d != 0 {
			r = r.Add(baseTab[j][d])
		}
	}
	return r
}

var (
	baseOnce sync.Once
	baseTab  [64][16]Point
)

// LiftX returns the point with the given x (0 <= x < p required) and the requested y parity.
func LiftX(x *big.Int, odd bool) (Point, bool) {
	if x.Sign() < 0 || x.Cmp(P) >= 0 {
		return Infinity, false
	}
	y, ok := FSqrt(CurveRHS(x))
	if !ok {
		return Infinity, false
	}
	if (y.Bit(0) == 1) != odd {
		y = FNeg(y)
	}
	return Point{X: new(big.Int).Set(x), Y: y}, true
}

// B32 is the 32-byte big-endian encoding of v (which must satisfy 0 <= v < 2^256).
func B32(v *big.Int) []byte {
	if v.Sign() < 0 || v.BitLen() > 256 {
		panic("B32: value out of range")
	}
	b := v.Bytes()
	out := make([]byte, 32)
	copy(out[32-len(b):], b)
	return out
}

func FromBytes(b []byte) *big.Int { return new(big.Int).SetBytes(b) }

// ModN reduces into [0, n).
func ModN(v *big.Int) *big.Int { return new(big.Int).Mod(v, N) }

// InvN is the inverse modulo n (by Fermat: n is prime); 0 for 0.
func InvN(v *big.Int) *big.Int {
	return new(big.Int).Exp(ModN(v), new(big.Int).Sub(N, two), N)
}
