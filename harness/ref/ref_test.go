package ref

import "testing"

func TestSelf(t *testing.T) {
	fails, n := SelfTest()
	t.Logf("%d checks", n)
	for _, f := range fails {
		t.Error(f)
	}
}

func BenchmarkBaseMul(b *testing.B) {
	k := hexInt("8F8A276C19F4149656B280621E358CCE24F5F52542772691EE69063B74F15D15")
	for i := 0; i < b.N; i++ {
		BaseMul(k)
	}
}
