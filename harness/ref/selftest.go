package ref

import (
	"bytes"
	"crypto/sha256"
	"encoding/hex"
	"fmt"
	"math/big"
)

func unhex(s string) []byte {
	b, err := hex.DecodeString(s)
	if err != nil {
		panic(err)
	}
	return b
}

// bip340Vectors: the official BIP 340 test vectors (test-vectors.csv rows 0..14):
// secret key, public key, aux_rand, message, signature, verification result.
var bip340Vectors = []struct {
	sk, pk, aux, msg, sig string
	ok                    bool
}{
	{"0000000000000000000000000000000000000000000000000000000000000003", "F9308A019258C31049344F85F89D5229B531C845836F99B08601F113BCE036F9", "0000000000000000000000000000000000000000000000000000000000000000", "0000000000000000000000000000000000000000000000000000000000000000", "E907831F80848D1069A5371B402410364BDF1C5F8307B0084C55F1CE2DCA821525F66A4A85EA8B71E482A74F382D2CE5EBEEE8FDB2172F477DF4900D310536C0", true}, // 0
	{"B7E151628AED2A6ABF7158809CF4F3C762E7160F38B4DA56A784D9045190CFEF", "DFF1D77F2A671C5F36183726DB2341BE58FEAE1DA2DECED843240F7B502BA659", "0000000000000000000000000000000000000000000000000000000000000001", "243F6A8885A308D313198A2E03707344A4093822299F31D0082EFA98EC4E6C89", "6896BD60EEAE296DB48A229FF71DFE071BDE413E6D43F917DC8DCF8C78DE33418906D11AC976ABCCB20B091292BFF4EA897EFCB639EA871CFA95F6DE339E4B0A", true}, // 1
	{"C90FDAA22168C234C4C6628B80DC1CD129024E088A67CC74020BBEA63B14E5C9", "DD308AFEC5777E13121FA72B9CC1B7CC0139715309B086C960E18FD969774EB8", "C87AA53824B4D7AE2EB035A2B5BBBCCC080E76CDC6D1692C4B0B62D798E6D906", "7E2D58D8B3BCDF1ABADEC7829054F90DDA9805AAB56C77333024B9D0A508B75C", "5831AAEED7B44BB74E5EAB94BA9D4294C49BCF2A60728D8B4C200F50DD313C1BAB745879A5AD954A72C45A91C3A51D3C7ADEA98D82F8481E0E1E03674A6F3FB7", true}, // 2
	{"0B432B2677937381AEF05BB02A66ECD012773062CF3FA2549E44F58ED2401710", "25D1DFF95105F5253C4022F628A996AD3A0D95FBF21D468A1B33F8C160D8F517", "FFFFFFFFFFFFFFFFFFFFFFFFFFFFFFFFFFFFFFFFFFFFFFFFFFFFFFFFFFFFFFFF", "FFFFFFFFFFFFFFFFFFFFFFFFFFFFFFFFFFFFFFFFFFFFFFFFFFFFFFFFFFFFFFFF", "7EB0509757E246F19449885651611CB965ECC1A187DD51B64FDA1EDC9637D5EC97582B9CB13DB3933705B32BA982AF5AF25FD78881EBB32771FC5922EFC66EA3", true}, // 3 test fails if msg is reduced modulo p or n
	{"", "D69C3509BB99E412E68B0FE8544E72837DFA30746D8BE2AA65975F29D22DC7B9", "", "4DF3C3F68FCC83B27E9D42C90431A72499F17875C81A599B566C9889B9696703", "00000000000000000000003B78CE563F89A0ED9414F5AA28AD0D96D6795F9C6376AFB1548AF603B3EB45C9F8207DEE1060CB71C04E80F593060B07D28308D7F4", true},                                                                                                                                 // 4
	{"", "EEFDEA4CDB677750A420FEE807EACF21EB9898AE79B9768766E4FAA04A2D4A34", "", "243F6A8885A308D313198A2E03707344A4093822299F31D0082EFA98EC4E6C89", "6CFF5C3BA86C69EA4B7376F31A9BCB4F74C1976089B2D9963DA2E5543E17776969E89B4C5564D00349106B8497785DD7D1D713A8AE82B32FA79D5F7FC407D39B", false},                                                                                                                                // 5 public key not on the curve
	{"", "DFF1D77F2A671C5F36183726DB2341BE58FEAE1DA2DECED843240F7B502BA659", "", "243F6A8885A308D313198A2E03707344A4093822299F31D0082EFA98EC4E6C89", "FFF97BD5755EEEA420453A14355235D382F6472F8568A18B2F057A14602975563CC27944640AC607CD107AE10923D9EF7A73C643E166BE5EBEAFA34B1AC553E2", false},                                                                                                                                // 6 has_even_y(R) is false
	{"", "DFF1D77F2A671C5F36183726DB2341BE58FEAE1DA2DECED843240F7B502BA659", "", "243F6A8885A308D313198A2E03707344A4093822299F31D0082EFA98EC4E6C89", "1FA62E331EDBC21C394792D2AB1100A7B432B013DF3F6FF4F99FCB33E0E1515F28890B3EDB6E7189B630448B515CE4F8622A954CFE545735AAEA5134FCCDB2BD", false},                                                                                                                                // 7 negated message
	{"", "DFF1D77F2A671C5F36183726DB2341BE58FEAE1DA2DECED843240F7B502BA659", "", "243F6A8885A308D313198A2E03707344A4093822299F31D0082EFA98EC4E6C89", "6CFF5C3BA86C69EA4B7376F31A9BCB4F74C1976089B2D9963DA2E5543E177769961764B3AA9B2FFCB6EF947B6887A226E8D7C93E00C5ED0C1834FF0D0C2E6DA6", false},                                                                                                                                // 8 negated s value
	{"", "DFF1D77F2A671C5F36183726DB2341BE58FEAE1DA2DECED843240F7B502BA659", "", "243F6A8885A308D313198A2E03707344A4093822299F31D0082EFA98EC4E6C89", "0000000000000000000000000000000000000000000000000000000000000000123DDA8328AF9C23A94C1FEECFD123BA4FB73476F0D594DCB65C6425BD186051", false},                                                                                                                                // 9 sG - eP is infinite. Test fails in single verification if has_even_y(inf) is defined as true and x(inf) as 0
	{"", "DFF1D77F2A671C5F36183726DB2341BE58FEAE1DA2DECED843240F7B502BA659", "", "243F6A8885A308D313198A2E03707344A4093822299F31D0082EFA98EC4E6C89", "00000000000000000000000000000000000000000000000000000000000000017615FBAF5AE28864013C099742DEADB4DBA87F11AC6754F93780D5A1837CF197", false},                                                                                                                                // 10 sG - eP is infinite. Test fails in single verification if has_even_y(inf) is defined as true and x(inf) as 1
	{"", "DFF1D77F2A671C5F36183726DB2341BE58FEAE1DA2DECED843240F7B502BA659", "", "243F6A8885A308D313198A2E03707344A4093822299F31D0082EFA98EC4E6C89", "4A298DACAE57395A15D0795DDBFD1DCB564DA82B0F269BC70A74F8220429BA1D69E89B4C5564D00349106B8497785DD7D1D713A8AE82B32FA79D5F7FC407D39B", false},                                                                                                                                // 11 sig[0:32] is not an X coordinate on the curve
	{"", "DFF1D77F2A671C5F36183726DB2341BE58FEAE1DA2DECED843240F7B502BA659", "", "243F6A8885A308D313198A2E03707344A4093822299F31D0082EFA98EC4E6C89", "FFFFFFFFFFFFFFFFFFFFFFFFFFFFFFFFFFFFFFFFFFFFFFFFFFFFFFFEFFFFFC2F69E89B4C5564D00349106B8497785DD7D1D713A8AE82B32FA79D5F7FC407D39B", false},                                                                                                                                // 12 sig[0:32] is equal to field size
	{"", "DFF1D77F2A671C5F36183726DB2341BE58FEAE1DA2DECED843240F7B502BA659", "", "243F6A8885A308D313198A2E03707344A4093822299F31D0082EFA98EC4E6C89", "6CFF5C3BA86C69EA4B7376F31A9BCB4F74C1976089B2D9963DA2E5543E177769FFFFFFFFFFFFFFFFFFFFFFFFFFFFFFFEBAAEDCE6AF48A03BBFD25E8CD0364141", false},                                                                                                                                // 13 sig[32:64] is equal to curve order
	{"", "FFFFFFFFFFFFFFFFFFFFFFFFFFFFFFFFFFFFFFFFFFFFFFFFFFFFFFFEFFFFFC30", "", "243F6A8885A308D313198A2E03707344A4093822299F31D0082EFA98EC4E6C89", "6CFF5C3BA86C69EA4B7376F31A9BCB4F74C1976089B2D9963DA2E5543E17776969E89B4C5564D00349106B8497785DD7D1D713A8AE82B32FA79D5F7FC407D39B", false},                                                                                                                                // 14 public key is not a valid X coordinate because it exceeds the field size
}

// Real signatures from the block chain (public key, DER signature + hash type, transaction to be hashed with
// the 4-byte hash type appended; digest = SHA256d).  The first is a compressed-era uncompressed key etc.
var chainVectors = [][3]string{
	{"040eaebcd1df2df853d66ce0e1b0fda07f67d1cabefde98514aad795b86a6ea66dbeb26b67d7a00e2447baeccc8a4cef7cd3cad67376ac1c5785aeebb4f6441c16",
		"3045022100fe00e013c244062847045ae7eb73b03fca583e9aa5dbd030a8fd1c6dfcf11b1002207d0d04fed8fa1e93007468d5a9e134b0a7023b6d31db4e50942d43a250f4d07c01",
		"01000000014d276db8e3a547cc3eaff4051d0d158da21724634d7c67c51129fa403dded5de010000001976a914718950ac3039e53fbd6eb0213de333b689a1ca1288acffffffff02a8d39b0f000000001976a914db641fc6dff262fe2504725f2c4c1852b18ffe3588ace693f205000000001976a9141321c4f37c5b2be510c1c7725a83e561ad27876b88ac00000000"},
	{"0411db93e1dcdb8a016b49840f8c53bc1eb68a382e97b1482ecad7b148a6909a5cb2e0eaddfb84ccf9744464f82e160bfa9b8b64f9d4c03f999b8643f656b412a3",
		"304402204e45e16932b8af514961a1d3a1a25fdf3f4f7732e9d624c6c61548ab5fb8cd410220181522ec8eca07de4860a4acdd12909d831cc56cbbac4622082221a8768d1d0901",
		"0100000001c997a5e56e104102fa209c6a852dd90660a20b2d9c352423edce25857fcd37040000000043410411db93e1dcdb8a016b49840f8c53bc1eb68a382e97b1482ecad7b148a6909a5cb2e0eaddfb84ccf9744464f82e160bfa9b8b64f9d4c03f999b8643f656b412a3acffffffff0200ca9a3b00000000434104ae1a62fe09c5f51b13905f07f06b99a2f7159b2225f374cd378d71302fa28414e7aab37397f554a7df5f142c21c1b7303b8a0626f1baded5c72a704f7e6cd84cac00286bee0000000043410411db93e1dcdb8a016b49840f8c53bc1eb68a382e97b1482ecad7b148a6909a5cb2e0eaddfb84ccf9744464f82e160bfa9b8b64f9d4c03f999b8643f656b412a3ac00000000"},
	{"0428f42723f81c70664e200088437282d0e11ae0d4ae139f88bdeef1550471271692970342db8e3f9c6f0123fab9414f7865d2db90c24824da775f00e228b791fd",
		"3045022100d557da5d9bf886e0c3f98fd6d5d337487cd01d5b887498679a57e3d32bd5d0af0220153217b63a75c3145b14f58c64901675fe28dba2352c2fa9f2a1579c74a2de1701",
		"0100000001402a2443bb5f1d8582ac06e1cc4232a75ba98c3db339ab4e036b8a0ed7e9e602010000001976a9143ad4ff2b7712c0c41a46324031bc7e55e4341f1a88acffffffff0100e1f505000000001976a91440e6fd9a591bb2e6ce886b317959fb3ffa906f6988ac00000000"},
}

// SelfTest checks the reference against published vectors and algebraic identities.  It returns the
// list of failed checks (empty = trusted) and the number of checks performed.
func SelfTest() (fails []string, n int) {
	chk := func(ok bool, f string, a ...interface{}) {
		n++
		if !ok {
			fails = append(fails, fmt.Sprintf(f, a...))
		}
	}
	// --- SEC 2 parameters and the group law
	chk(P.Cmp(new(big.Int).Sub(new(big.Int).Sub(Two256, new(big.Int).Lsh(one, 32)), big.NewInt(977))) == 0, "p = 2^256 - 2^32 - 977")
	chk(P.ProbablyPrime(32) && N.ProbablyPrime(32), "p, n prime")
	chk(G.OnCurve(), "G on curve")
	chk(BaseMul(N).Inf && G.Mul(N).Inf, "n*G = infinity")
	m256 := new(big.Int).Sub(Two256, one)
	chk(BaseMul(m256).Equal(G.Mul(m256)) && BaseMul(new(big.Int)).Inf, "BaseMul(2^256-1), BaseMul(0)")
	chk(BaseMul(new(big.Int).Add(N, one)).Equal(G), "(n+1)*G = G")
	chk(BaseMul(new(big.Int).Sub(N, one)).Equal(G.Neg()), "(n-1)*G = -G")
	g2 := Point{X: hexInt("C6047F9441ED7D6D3045406E95C07CD85C778E4B8CEF3CA7ABAC09B95C709EE5"), Y: hexInt("1AE168FEA63DC339A3C58419466CEAEEF7F632653266D0E1236431A950CFE52A")}
	g3 := Point{X: hexInt("F9308A019258C31049344F85F89D5229B531C845836F99B08601F113BCE036F9"), Y: hexInt("388F7B0F632DE8140FE337E62A37F3566500A99934C2231B6CB9FD7584B8E672")}
	chk(G.Double().Equal(g2) && G.Add(G).Equal(g2), "2G")
	chk(g2.Add(G).Equal(g3) && BaseMul(three).Equal(g3) && G.Add(g2).Equal(g3), "3G")
	chk(G.Add(G.Neg()).Inf && Infinity.Add(G).Equal(G) && G.Add(Infinity).Equal(G) && Infinity.Double().Inf, "identity / inverse")
	// distributivity on pseudo-random scalars (derived from sha256 so that the test is deterministic)
	for i := 0; i < 8; i++ {
		ha := sha256.Sum256([]byte{byte(i), 1})
		hb := sha256.Sum256([]byte{byte(i), 2})
		a, b := FromBytes(ha[:]), FromBytes(hb[:])
		pa, pb := BaseMul(a), BaseMul(b)
		chk(pa.OnCurve() && pb.OnCurve(), "multiples on curve %d", i)
		chk(pa.Equal(G.Mul(a)) && pb.Equal(G.Mul(b)), "table-driven BaseMul = double-and-add %d", i)
		chk(pa.Add(pb).Equal(BaseMul(new(big.Int).Add(a, b))), "aG + bG = (a+b)G %d", i)
		chk(pa.Mul(b).Equal(pb.Mul(a)), "b(aG) = a(bG) %d", i)
		chk(pa.Mul(b).Equal(BaseMul(ModN(new(big.Int).Mul(a, b)))), "b(aG) = (ab mod n)G %d", i)
		chk(pa.Add(pb).Add(pa.Neg()).Equal(pb), "(A+B)-A = B %d", i)
		chk(FInv(a).Cmp(fInvFast(a)) == 0 && FMul(FInv(a), a).Cmp(one) == 0, "field inverse %d", i)
		if r, ok := FSqrt(FSqr(a)); true {
			am := new(big.Int).Mod(a, P)
			chk(ok && (r.Cmp(am) == 0 || r.Cmp(FNeg(am)) == 0), "sqrt(a^2) = +-a %d", i)
		}
		l, ok := LiftX(pa.X, pa.YOdd())
		chk(ok && l.Equal(pa), "lift_x round trip %d", i)
	}
	chk(new(big.Int).Mod(P, big.NewInt(4)).Int64() == 3, "p = 3 mod 4")
	// --- GLV constants
	l2 := new(big.Int).Mul(Lambda, Lambda)
	chk(ModN(l2.Add(l2, new(big.Int).Add(Lambda, one))).Sign() == 0, "lambda^2 + lambda + 1 = 0 mod n")
	chk(FMul(FMul(Beta, Beta), Beta).Cmp(one) == 0 && Beta.Cmp(one) != 0, "beta^3 = 1 mod p")
	lg := BaseMul(Lambda)
	chk(lg.X.Cmp(FMul(Beta, Gx)) == 0 && lg.Y.Cmp(Gy) == 0, "lambda*G = (beta*Gx, Gy)")
	// --- public key parsing
	for _, c := range []bool{true, false} {
		b := SerializePubKey(g3, c)
		q, ok := ParsePubKey(b)
		chk(ok && q.Equal(g3), "pubkey round trip compressed=%v", c)
	}
	hyb := SerializePubKey(g3, false)
	hyb[0] = 6 // g3.y is even
	_, ok := ParsePubKey(hyb)
	chk(ok, "hybrid 06 with even y")
	hyb[0] = 7
	_, ok = ParsePubKey(hyb)
	chk(!ok, "hybrid 07 with even y refused")
	// --- HMAC-DRBG (the rfc6979_hmac_sha256 vectors of libsecp256k1's tests; also in lib/btc/hash_test.go)
	key1 := unhex("0102030405060708090a0b0c0d0e0f101112131415161718191a1b1c1d1e1f004bf5122f344554c53bde2ebb8cd2b7e3d1600ad631c385a5d7cce23c7785459a")
	out1 := []string{"4fe29525b2086809159acdf0506efb86b0ec932c7ba44256ab321e421e67e9fb", "2bf0fff1d3c378a22dc5de1d856522325c65b504491a0cbd01cb8f3aa67ffd4a", "f528b410cb541f77000d7afb6c5b53c5c471eab43e466d9ac5190c39c82fd82e"}
	d := NewHmacDrbg(key1)
	for i, o := range out1 {
		chk(hex.EncodeToString(d.Next()) == o, "hmac-drbg vector 1.%d", i)
	}
	key2 := unhex("ffffffffffffffffffffffffffffffffffffffffffffffffffffffffffffffffe3b0c44298fc1c149afbf4c8996fb92427ae41e4649b934ca495991b7852b855")
	out2 := []string{"9c236c165b82ae0cd590659e100b6bab3036e7ba8b06749baf6981e16f1a2b95", "df471061625bc0ea14b682feee2c9c02f235da04204c1d62a1536c6e17aed7a9", "7597887cbd76321f32e30440679a22cf7f8d9d2eac390e581fea091ce202ba94"}
	d = NewHmacDrbg(key2)
	for i, o := range out2 {
		chk(hex.EncodeToString(d.Next()) == o, "hmac-drbg vector 2.%d", i)
	}
	// --- RFC 6979 appendix A.2.5 (NIST P-256, SHA-256): the nonce derivation is curve independent
	q256 := hexInt("FFFFFFFF00000000FFFFFFFFFFFFFFFFBCE6FAADA7179E84F3B9CAC2FC632551")
	x256 := hexInt("C9AFA9D845BA75166B5C215767B1D6934E50C3DB36E89B127B8A622B120F6721")
	hs := sha256.Sum256([]byte("sample"))
	chk(RFC6979Nonce(q256, x256, hs[:], nil).Cmp(hexInt("A6E3C57DD01ABE90086538398355DD4C3B17AA873382B0F24D6129493D8AAD60")) == 0, "RFC 6979 A.2.5 sample")
	ht := sha256.Sum256([]byte("test"))
	chk(RFC6979Nonce(q256, x256, ht[:], nil).Cmp(hexInt("D16B6AE827F17175E040871A1C7EC3500192C4C92677336EC2537ACAEE0008E0")) == 0, "RFC 6979 A.2.5 test")
	// RFC 6979 A.2.3 (P-192, SHA-256): a group whose order is SHORTER than the digest exercises bits2int / bits2octets
	q192 := hexInt("FFFFFFFFFFFFFFFFFFFFFFFF99DEF836146BC9B1B4D22831")
	x192 := hexInt("6FAB034934E4C0FC9AE67F5B5659A9D7D1FEFD187EE09FD4")
	chk(RFC6979Nonce(q192, x192, hs[:], nil).Cmp(hexInt("32B1B6D7D42A05CB449065727A84804FB1A3E34D8F261496")) == 0, "RFC 6979 A.2.3 sample")
	// --- deterministic ECDSA over secp256k1: the widely published vector (key 1, "Satoshi Nakamoto")
	hsn := sha256.Sum256([]byte("Satoshi Nakamoto"))
	chk(RFC6979Nonce(N, one, hsn[:], nil).Cmp(hexInt("8F8A276C19F4149656B280621E358CCE24F5F52542772691EE69063B74F15D15")) == 0, "RFC 6979 secp256k1 nonce (Satoshi Nakamoto)")
	sg, _, err := EcdsaSignRFC6979(one, hsn[:])
	chk(err == nil && hex.EncodeToString(EncodeDER(sg)) == "3045022100934b1ea10a4b3c1757e2b0c017d0b6143ce3c9a7e6a4a49860d7a6ab210ee3d802202442ce9d2b916064108014783e923ec36b49743e2ffa1c4496f01a512aafd9e5", "deterministic ECDSA vector (Satoshi Nakamoto)")
	// --- ECDSA verification of real chain signatures, DER strict and lax
	for i, v := range chainVectors {
		q, ok := ParsePubKey(unhex(v[0]))
		chk(ok, "chain vector %d key", i)
		sigb := unhex(v[1])
		sigb = sigb[:len(sigb)-1]
		s1, ok1 := ParseDERStrict(sigb)
		s2, ok2 := ParseDERLax(sigb)
		chk(ok1 && ok2 && s1.R.Cmp(s2.R) == 0 && s1.S.Cmp(s2.S) == 0 && bytes.Equal(EncodeDER(s1), sigb), "chain vector %d DER", i)
		h1 := sha256.Sum256(append(unhex(v[2]), 1, 0, 0, 0))
		h2 := sha256.Sum256(h1[:])
		chk(ok && ok1 && EcdsaVerify(q, h2[:], s1), "chain vector %d verifies", i)
		h2[7] ^= 4
		chk(ok && ok1 && !EcdsaVerify(q, h2[:], s1), "chain vector %d refuses another digest", i)
	}
	// --- sign / verify / recover round trips and the range rules
	for i := 0; i < 6; i++ {
		hd := sha256.Sum256([]byte{byte(i), 3})
		hm := sha256.Sum256([]byte{byte(i), 4})
		dd := ModN(FromBytes(hd[:]))
		q := BaseMul(dd)
		sig, recid, err := EcdsaSignRFC6979(dd, hm[:])
		chk(err == nil && EcdsaVerify(q, hm[:], sig) && sig.S.Cmp(HalfN) <= 0, "own signature verifies, low S %d", i)
		rq, ok := EcdsaRecover(hm[:], sig, recid)
		chk(ok && rq.Equal(q), "recover %d", i)
		rq, ok = EcdsaRecover(hm[:], sig, recid^1)
		chk(!ok || !rq.Equal(q), "recover with the other parity gives another key %d", i)
		hi := Sig{sig.R, new(big.Int).Sub(N, sig.S)}
		chk(EcdsaVerify(q, hm[:], hi), "high-S twin verifies %d", i)
		chk(!EcdsaVerify(q, hm[:], Sig{sig.R, new(big.Int).Add(sig.S, N)}) && EcdsaModEquation(q, hm[:], Sig{sig.R, new(big.Int).Add(sig.S, N)}), "s+n refused %d", i)
		chk(!EcdsaVerify(q, hm[:], Sig{new(big.Int).Add(sig.R, N), sig.S}), "r+n refused %d", i)
		chk(!EcdsaVerify(q, hm[:], Sig{new(big.Int), sig.S}) && !EcdsaVerify(q, hm[:], Sig{sig.R, new(big.Int)}) && !EcdsaVerify(q, hm[:], Sig{sig.R, N}), "0 / n refused %d", i)
		der := EncodeDER(sig)
		chk(IsStrictDER(der), "own DER strict %d", i)
		pad := EncodeDERRaw(append([]byte{0}, derInt(sig.R)...), derInt(sig.S))
		lx, okl := ParseDERLax(pad)
		chk(!IsStrictDER(pad) && okl && lx.R.Cmp(sig.R) == 0, "padded DER lax only %d", i)
	}
	// --- BIP 340 vectors
	for i, v := range bip340Vectors {
		pk, msg, sig := unhex(v.pk), unhex(v.msg), unhex(v.sig)
		chk(SchnorrVerify(pk, msg, sig) == v.ok, "BIP340 vector %d verification", i)
		if v.sk != "" {
			got, err := SchnorrSign(unhex(v.sk), msg, unhex(v.aux))
			chk(err == nil && bytes.Equal(got, sig), "BIP340 vector %d signing", i)
			pk2, _, err := SchnorrPubKey(FromBytes(unhex(v.sk)))
			chk(err == nil && bytes.Equal(pk2, pk), "BIP340 vector %d public key", i)
		}
	}
	// --- BIP 341 tweak: construct and check
	for i := 0; i < 4; i++ {
		hd := sha256.Sum256([]byte{byte(i), 5})
		pk, _, _ := SchnorrPubKey(ModN(FromBytes(hd[:])))
		t := TapTweakHash(pk, nil)
		pp, _ := LiftXEven(FromBytes(pk))
		q := pp.Add(BaseMul(FromBytes(t)))
		chk(TapTweakCheck(B32(q.X), pk, t, q.YOdd()), "tweak check accepts %d", i)
		chk(!TapTweakCheck(B32(q.X), pk, t, !q.YOdd()), "tweak check refuses the wrong parity %d", i)
		t[31] ^= 1
		chk(!TapTweakCheck(B32(q.X), pk, t, q.YOdd()), "tweak check refuses another tweak %d", i)
	}
	return
}
