// blockrules: conformance driver binding spec/BlockRules.tla (C05) to lib/chain block checking.
//
//	blockrules replay -ctx <contexts.json> -in <lines.json> -dir <scratch> -workers N
//	    every line is one (context, block descriptor) of the TLC-generated decision table with the verdict
//	    of the rules. The context's parent chain is built for real (shared prefixes built once), the
//	    descriptor's block is built on top of it and handed to Chain.CheckBlock (+ AcceptBlock when that
//	    passes). accepted must equal the verdict; a refusal must leave tip, block index and UTXO set
//	    untouched. now-relative timestamps: observation kept only if the wall-clock second did not change.
//	blockrules compact -in <classes.json> -seed S -extra N
//	    lib/btc SetCompact / GetCompact / CheckProofOfWork against this harness's math/big reference on the
//	    model's (exponent, mantissa) classes.
package main

import (
	"encoding/json"
	"flag"
	"fmt"
	"math/big"
	"math/rand"
	"os"
	"path/filepath"
	"runtime/debug"
	"sort"
	"strings"
	"sync"
	"sync/atomic"
	"time"

	"github.com/piotrnar/gocoin/lib/btc"

	"verifharness/conc"
	"verifharness/vio"
)

type Line struct {
	C      string      `json:"c"`
	Base   string      `json:"base"`
	Devs   []string    `json:"devs"`
	D      conc.BRDesc `json:"d"`
	R      conc.BRRes  `json:"r"`
	OK     bool        `json:"ok"`
	Either bool        `json:"either"`
	Viol   []string    `json:"viol"`
	n      int
	raw    json.RawMessage
}

type result struct {
	N     int             `json:"n"`
	Kind  string          `json:"kind"` // invalid-accepted | refused-late | valid-refused | state | panic | infra | parent-chain
	C     string          `json:"c"`
	Viol  []string        `json:"viol,omitempty"`
	Devs  []string        `json:"devs,omitempty"`
	What  string          `json:"what"`
	Stage string          `json:"stage,omitempty"`
	Err   string          `json:"err,omitempty"`
	Line  json.RawMessage `json:"line,omitempty"`
}

type chainDir struct {
	dir string
	bc  *conc.BRChain // closed; carries hashes and coinbases
	err error
}

var genesisTime uint32
var explain bool // development aid: print the code's refusal reason for every refused block (never part of a verdict)

// buildChains builds one closed data directory per distinct parent chain.
func buildChains(ctxs map[string]*conc.BRCtx, used map[string]bool, dir string, out *vio.Out) map[string]*chainDir {
	groups := map[string][]*conc.BRCtx{}
	for id, c := range ctxs {
		if used[id] {
			groups[c.StemKey()] = append(groups[c.StemKey()], c)
		}
	}
	res := map[string]*chainDir{}
	var mu sync.Mutex
	var wg sync.WaitGroup
	gi := 0
	for _, g := range groups {
		gi++
		wg.Add(1)
		go func(gi int, g []*conc.BRCtx) {
			defer wg.Done()
			defer func() {
				if r := recover(); r != nil {
					mu.Lock()
					for _, c := range g {
						if res[c.ChainKey()] == nil {
							res[c.ChainKey()] = &chainDir{err: fmt.Errorf("panic while building the parent chain: %v\n%s", r, debug.Stack())}
						}
					}
					mu.Unlock()
				}
			}()
			sort.Slice(g, func(a, b int) bool {
				la, lb := stemLen(g[a]), stemLen(g[b])
				if la != lb {
					return la < lb
				}
				return g[a].ID < g[b].ID
			})
			stemDir := filepath.Join(dir, fmt.Sprintf("stem%d", gi))
			stem := conc.BRNewChain(stemDir, g[0].Net, genesisTime)
			open := true
			var stemErr error
			n := 0
			for i := 0; i < len(g); {
				// all contexts of one stem length: extend the stem once, then build their chains concurrently
				lvl := stemLen(g[i])
				k := i
				for k < len(g) && stemLen(g[k]) == lvl {
					k++
				}
				if stemErr == nil && lvl > len(stem.Hashes)-1 {
					if !open {
						stem.Ch = conc.BROpen(stemDir, stem.Net, genesisTime, conc.BRAllActive)
						open = true
					}
					stemErr = stem.Extend(g[i], lvl)
				}
				if open {
					stem.Close()
					open = false
				}
				var lw sync.WaitGroup
				for _, c := range g[i:k] {
					mu.Lock()
					_, have := res[c.ChainKey()]
					cd := &chainDir{}
					if !have {
						res[c.ChainKey()] = cd
					}
					mu.Unlock()
					if have {
						continue
					}
					if stemErr != nil {
						cd.err = stemErr
						continue
					}
					n++
					cd.dir = filepath.Join(dir, fmt.Sprintf("chain%d-%d", gi, n))
					lw.Add(1)
					go func(c *conc.BRCtx, cd *chainDir) {
						defer lw.Done()
						defer func() {
							if r := recover(); r != nil {
								cd.err = fmt.Errorf("panic while building the parent chain: %v", r)
							}
						}()
						bc, err := stem.CloneTo(cd.dir, conc.BRAllActive)
						if err == nil {
							// own copies of the slices: Extend appends
							bc.Hashes = append([][32]byte{}, bc.Hashes...)
							bc.Cbs = append([]*btc.Tx{}, bc.Cbs...)
							err = bc.Extend(c, c.P)
							bc.Close()
						}
						cd.bc, cd.err = bc, err
					}(c, cd)
				}
				lw.Wait()
				i = k
			}
		}(gi, g)
	}
	wg.Wait()
	return res
}

func stemLen(c *conc.BRCtx) int {
	l := c.TailStart() - 1
	if l < 0 {
		l = 0
	}
	return l
}

type job struct {
	ctx   *conc.BRCtx
	cd    *chainDir
	lines []*Line
}

type stats struct {
	lines, accepted, refused, degenerate, retried, fail, either, resets int64
	mu                                                                  sync.Mutex
	weights                                                             map[string]int // "class:weight" of every block built for a weight class
}

type worker struct {
	id    int
	dir   string
	out   *vio.Out
	st    *stats
	seen  *sync.Map // block hash -> struct{}
	nonce int
}

func (w *worker) fail(ln *Line, kind, what, stage, err string) {
	atomic.AddInt64(&w.st.fail, 1)
	w.out.Put(result{N: ln.n, Kind: kind, C: ln.C, Viol: ln.Viol, Devs: ln.Devs, What: what, Stage: stage, Err: err, Line: ln.raw})
}

// deliver: CheckBlock then AcceptBlock. stage tells where it stopped.
func deliver(bc *conc.BRChain, raw []byte) (accepted bool, stage string, err error, hash [32]byte) {
	bl, e := btc.NewBlock(raw)
	if e != nil {
		return false, "decode", e, hash
	}
	hash = bl.Hash.Hash
	bc.Ch.BlockIndexAccess.Lock()
	_, later, e := bc.Ch.CheckBlock(bl)
	bc.Ch.BlockIndexAccess.Unlock()
	if e != nil {
		if later {
			return false, "check-later", e, hash
		}
		return false, "check", e, hash
	}
	e = bc.Ch.AcceptBlock(bl)
	if e != nil {
		return false, "accept", e, hash
	}
	return true, "", nil, hash
}

func (w *worker) run(j *job) {
	var bc *conc.BRChain
	var baseline string
	wdir := filepath.Join(w.dir, fmt.Sprintf("w%d", w.id))
	reset := func() error {
		if bc != nil {
			bc.Close()
		}
		var err error
		bc, err = j.cd.bc.CloneTo(wdir, j.ctx.Act)
		if err != nil {
			bc = nil
			return err
		}
		atomic.AddInt64(&w.st.resets, 1)
		baseline = bc.StateDigest()
		return nil
	}
	defer func() {
		if bc != nil {
			bc.Close()
		}
		os.RemoveAll(wdir)
	}()
	if err := reset(); err != nil {
		for _, ln := range j.lines {
			w.fail(ln, "infra", "cannot open a copy of the parent chain: "+err.Error(), "", "")
		}
		return
	}
	for _, ln := range j.lines {
		atomic.AddInt64(&w.st.lines, 1)
		w.one(j, ln, &bc, &baseline, reset)
		if bc == nil {
			if err := reset(); err != nil {
				w.fail(ln, "infra", "cannot re-open the parent chain: "+err.Error(), "", "")
				return
			}
		}
	}
}

func (w *worker) one(j *job, ln *Line, pbc **conc.BRChain, baseline *string, reset func() error) {
	defer func() {
		if r := recover(); r != nil {
			w.fail(ln, "panic", fmt.Sprint("panic: ", r, "\n", string(debug.Stack())), "", "")
			if *pbc != nil {
				func() { defer func() { recover() }(); (*pbc).Close() }()
			}
			*pbc = nil
		}
	}()
	nowRel := ln.R.Time.K == "now" || ln.R.Lock.K == "now"
	for attempt := 0; ; attempt++ {
		bc := *pbc
		if nowRel {
			// start early in a second
			if ns := time.Now().Nanosecond(); ns > 600e6 {
				time.Sleep(time.Duration(1e9-ns) + 2*time.Millisecond)
			}
		}
		now := time.Now().Unix()
		w.nonce++
		b, err := bc.Build(j.ctx, &ln.D, &ln.R, ln.n*8+attempt, now)
		if err != nil {
			w.fail(ln, "infra", "concretiser: "+err.Error(), "", "")
			return
		}
		if b.Degenerate != "" {
			atomic.AddInt64(&w.st.degenerate, 1)
			if explain {
				w.out.Put(map[string]interface{}{"degenerate": true, "n": ln.n, "c": ln.C, "why": b.Degenerate})
			}
			return
		}
		if nowRel && time.Now().Unix() != now {
			atomic.AddInt64(&w.st.retried, 1)
			if attempt > 8 {
				w.fail(ln, "infra", "cannot build the block within one wall-clock second", "", "")
				return
			}
			continue
		}
		if ln.D.Weight != "normal" {
			w.st.mu.Lock()
			w.st.weights[fmt.Sprintf("%s:%d", ln.D.Weight, b.Weight)]++
			w.st.mu.Unlock()
		}
		accepted, stage, derr, hash := deliver(bc, b.Raw)
		after := time.Now().Unix()
		if nowRel && after != now {
			// the verdict may belong to either second: discard the observation
			atomic.AddInt64(&w.st.retried, 1)
			if accepted || bc.StateDigest() != *baseline {
				if err := reset(); err != nil {
					w.fail(ln, "infra", "reset: "+err.Error(), "", "")
					return
				}
			}
			if attempt > 8 {
				w.fail(ln, "infra", "wall-clock second kept changing across the call", "", "")
				return
			}
			continue
		}
		w.seen.Store(hash, struct{}{})
		es := ""
		if derr != nil {
			es = derr.Error()
		}
		desc := fmt.Sprintf("context %s (height %d, net %s), deviations %v: bits %08x (required %08x) time %d lock %d weight %d ntx %d",
			ln.C, j.ctx.P+1, j.ctx.Net, ln.Devs, b.Bits, b.Req, b.Ts, b.LockTime, b.Weight, b.NTx)
		if accepted {
			atomic.AddInt64(&w.st.accepted, 1)
			tip := bc.Ch.LastBlock()
			if tip.BlockHash.Hash != hash || int(tip.Height) != j.ctx.P+1 {
				w.fail(ln, "state", "block reported accepted but it is not the tip; "+desc, stage, es)
			} else if !ln.OK {
				w.fail(ln, "invalid-accepted", fmt.Sprintf("block violating %v was accepted; %s", ln.Viol, desc), stage, es)
			}
			bc.Close()
			*pbc = nil
			return
		}
		atomic.AddInt64(&w.st.refused, 1)
		if explain {
			w.out.Put(map[string]interface{}{"explain": true, "n": ln.n, "c": ln.C, "viol": ln.Viol, "stage": stage, "err": es})
		}
		if dg := bc.StateDigest(); dg != *baseline {
			w.fail(ln, "state", fmt.Sprintf("refused block changed the state (tip/index/utxo %s -> %s); %s", *baseline, dg, desc), stage, es)
			bc.Close()
			*pbc = nil
			return
		}
		if ln.Either {
			atomic.AddInt64(&w.st.either, 1)
			return
		}
		if !ln.OK && stage == "accept" {
			// every rule of this property is a CheckBlock rule (the property's observation point): a block that
			// violates one and is only stopped by the transaction processing of AcceptBlock got through the check
			w.fail(ln, "refused-late", fmt.Sprintf("block violating %v passed Chain.CheckBlock (refused only by AcceptBlock); %s", ln.Viol, desc), stage, es)
			return
		}
		if ln.OK {
			w.fail(ln, "valid-refused", "block satisfying every rule was refused; "+desc, stage, es)
		}
		return
	}
}

func replay(args []string) {
	fs := flag.NewFlagSet("replay", flag.ExitOnError)
	ctxf := fs.String("ctx", "", "")
	in := fs.String("in", "-", "")
	dir := fs.String("dir", os.TempDir(), "")
	workers := fs.Int("workers", 8, "")
	chunk := fs.Int("chunk", 150, "")
	seed := fs.Int64("seed", 1, "")
	fs.BoolVar(&explain, "explain", false, "")
	fs.Parse(args)

	ctxs := map[string]*conc.BRCtx{}
	err := vio.ReadLines(*ctxf, func(n int, line []byte) error {
		c := &conc.BRCtx{}
		if e := json.Unmarshal(line, c); e != nil {
			return e
		}
		ctxs[c.ID] = c
		return nil
	})
	if err != nil {
		fmt.Fprintln(os.Stderr, "contexts:", err)
		os.Exit(2)
	}
	byCtx := map[string][]*Line{}
	used := map[string]bool{}
	total := 0
	err = vio.ReadLines(*in, func(n int, line []byte) error {
		ln := &Line{n: n, raw: append([]byte(nil), line...)}
		if e := json.Unmarshal(line, ln); e != nil {
			return fmt.Errorf("line %d: %v", n, e)
		}
		if ctxs[ln.C] == nil {
			return fmt.Errorf("line %d: unknown context %s", n, ln.C)
		}
		byCtx[ln.C] = append(byCtx[ln.C], ln)
		used[ln.C] = true
		total++
		return nil
	})
	if err != nil {
		fmt.Fprintln(os.Stderr, "read:", err)
		os.Exit(2)
	}
	// model time 0 is 70 days ago: every model time is far below now - 7200 (assumption NowLate)
	genesisTime = uint32(time.Now().Unix() - 70*86400)
	out := vio.NewOut()
	silenceStdout()
	t0 := time.Now()
	chains := buildChains(ctxs, used, *dir, out)
	tBuild := time.Since(t0)

	st := &stats{weights: map[string]int{}}
	var jobs []*job
	ids := make([]string, 0, len(byCtx))
	for id := range byCtx {
		ids = append(ids, id)
	}
	sort.Strings(ids)
	for _, id := range ids {
		c := ctxs[id]
		cd := chains[c.ChainKey()]
		if cd == nil || cd.err != nil {
			e := "not built"
			if cd != nil {
				e = cd.err.Error()
			}
			st.fail++
			out.Put(result{N: byCtx[id][0].n, Kind: "parent-chain", C: id, What: "the parent chain of context " + id + " (valid by the rules) could not be built on the real code: " + e})
			continue
		}
		ls := byCtx[id]
		for i := 0; i < len(ls); i += *chunk {
			e := i + *chunk
			if e > len(ls) {
				e = len(ls)
			}
			jobs = append(jobs, &job{ctx: c, cd: cd, lines: ls[i:e]})
		}
	}
	// big jobs first, deterministic shuffle of the rest by seed is not needed: results do not depend on order
	_ = seed
	jc := make(chan *job, len(jobs))
	for _, j := range jobs {
		jc <- j
	}
	close(jc)
	seen := &sync.Map{}
	var wg sync.WaitGroup
	for i := 0; i < *workers; i++ {
		wg.Add(1)
		go func(i int) {
			defer wg.Done()
			w := &worker{id: i, dir: *dir, out: out, st: st, seen: seen}
			for j := range jc {
				w.run(j)
			}
		}(i)
	}
	wg.Wait()
	distinct := 0
	seen.Range(func(k, v interface{}) bool { distinct++; return true })
	out.Put(map[string]interface{}{"summary": true, "lines": st.lines, "total": total, "accepted": st.accepted, "refused": st.refused,
		"degenerate": st.degenerate, "retried": st.retried, "either": st.either, "fail": st.fail, "resets": st.resets,
		"distinct_blocks": distinct, "weights": st.weights, "chains": len(chains), "build_s": tBuild.Seconds(), "wall_s": time.Since(t0).Seconds()})
	out.Flush()
}

// ------------------------------------------------------------------ compact encodings

type cclass struct {
	E     uint32 `json:"e"`
	M     uint32 `json:"m"`
	Neg   bool   `json:"neg"`
	Zero  bool   `json:"zero"`
	Ovf   bool   `json:"ovf"`
	Valid bool   `json:"valid"`
}

func numToHash(v *big.Int) (*btc.Uint256, bool) {
	if v.Sign() < 0 || v.BitLen() > 256 {
		return nil, false
	}
	be := v.FillBytes(make([]byte, 32))
	var le [32]byte
	for i := range be {
		le[31-i] = be[i]
	}
	return btc.NewUint256(le[:]), true
}

func compact(args []string) {
	fs := flag.NewFlagSet("compact", flag.ExitOnError)
	in := fs.String("in", "-", "")
	seed := fs.Int64("seed", 1, "")
	extra := fs.Int("extra", 0, "")
	fs.Parse(args)
	out := vio.NewOut()
	var classes []cclass
	err := vio.ReadLines(*in, func(n int, line []byte) error {
		var c cclass
		if e := json.Unmarshal(line, &c); e != nil {
			return e
		}
		classes = append(classes, c)
		return nil
	})
	if err != nil {
		fmt.Fprintln(os.Stderr, "read:", err)
		os.Exit(2)
	}
	nmodel := len(classes)
	rng := rand.New(rand.NewSource(*seed))
	for i := 0; i < *extra; i++ {
		e := uint32(rng.Intn(40))
		if rng.Intn(10) == 0 {
			e = uint32(rng.Intn(256))
		}
		m := uint32(rng.Intn(1 << 24))
		mag, neg, ovf := conc.RefDecodeCompact(e<<24 | m)
		zero := mag.Sign() == 0
		classes = append(classes, cclass{E: e, M: m, Neg: neg, Zero: zero, Ovf: ovf, Valid: !neg && !zero && !ovf})
	}
	evals, fails := 0, 0
	notes := map[string]int{}
	distinct := map[uint32]bool{}
	put := func(kind string, bits uint32, what string) {
		fails++
		out.Put(map[string]interface{}{"kind": kind, "bits": fmt.Sprintf("%08x", bits), "what": what})
	}
	for i, c := range classes {
		bits := c.E<<24 | c.M
		distinct[bits] = true
		mag, neg, ovf := conc.RefDecodeCompact(bits)
		zero := mag.Sign() == 0
		if i < nmodel && (neg != c.Neg || ovf != c.Ovf || zero != c.Zero || c.Valid != (!neg && !zero && !ovf)) {
			put("infra", bits, fmt.Sprintf("model class %+v disagrees with the harness reference (neg %v zero %v ovf %v)", c, neg, zero, ovf))
			continue
		}
		// (a) SetCompact numeric value
		evals++
		want := new(big.Int).Set(mag)
		if neg {
			want.Neg(want)
		}
		got := btc.SetCompact(bits)
		if got.Cmp(want) != 0 {
			put("setcompact", bits, fmt.Sprintf("SetCompact(%08x) = %s, the encoding denotes %s", bits, got.Text(16), want.Text(16)))
		}
		// (b) canonical re-encoding of valid targets
		if c.Valid {
			evals++
			if g, w := btc.GetCompact(new(big.Int).Set(mag)), conc.RefEncodeCompact(mag); g != w {
				put("getcompact", bits, fmt.Sprintf("GetCompact(%s) = %08x, canonical encoding is %08x", mag.Text(16), g, w))
			}
		}
		// (c) CheckProofOfWork around the target
		for _, dlt := range []int64{-1, 0, 1} {
			hv := new(big.Int).Add(mag, big.NewInt(dlt))
			h, ok := numToHash(hv)
			if !ok {
				continue
			}
			if conc.HashNum(h.Hash).Cmp(hv) != 0 || h.BigInt().Cmp(hv) != 0 {
				put("hashnum", bits, "Uint256.BigInt() does not return the little-endian number of the hash "+hv.Text(16))
				continue
			}
			evals++
			want := c.Valid && hv.Cmp(mag) <= 0
			if conc.RefPowOK(h.Hash, bits) != want {
				put("infra", bits, "reference RefPowOK disagrees with the class")
			}
			got := btc.CheckProofOfWork(h, bits)
			if got != want {
				switch {
				case ovf && !neg:
					notes["pow-accepts-overflowing-target"]++
				case zero:
					notes["pow-accepts-zero-hash-for-zero-target"]++
				default:
					put("checkpow", bits, fmt.Sprintf("CheckProofOfWork(hash=%s, bits=%08x) = %v, expected %v (target %s neg=%v)", hv.Text(16), bits, got, want, mag.Text(16), neg))
				}
			}
		}
	}
	out.Put(map[string]interface{}{"summary": true, "classes": nmodel, "extra": *extra, "evaluations": evals, "distinct": len(distinct), "fail": fails, "notes": notes})
	out.Flush()
}

// lib/utxo and lib/chain print progress on stdout: keep the result stream clean
func silenceStdout() {
	if f, err := os.OpenFile(os.DevNull, os.O_WRONLY, 0); err == nil {
		os.Stdout = f
	}
}

func main() {
	if len(os.Args) < 2 {
		fmt.Fprintln(os.Stderr, "usage: blockrules replay|compact ...")
		os.Exit(2)
	}
	switch os.Args[1] {
	case "replay":
		replay(os.Args[2:])
	case "compact":
		compact(os.Args[2:])
	default:
		fmt.Fprintln(os.Stderr, "unknown subcommand "+strings.Join(os.Args[1:], " "))
		os.Exit(2)
	}
}
