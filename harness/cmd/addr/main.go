// addr: conformance driver binding spec/Addr.tla (BIP173 / BIP350 / Base58Check / WIF rules) to
// lib/btc (NewAddrFromString, OutScript, NewAddrFromPkScript, String, Encodeb58, Decodeb58,
// DecodePrivateAddr, NewPrivateAddr) and lib/others/bech32 (Decode, Encode, SegwitDecode, SegwitEncode).
//
//	addr replay -in <lines> -salt N -inst K -workers N
//	    every line is one TLC-exported case {"c":{k,seed,x},"q":hrp,"d":{ver,prog},"s":string,"r":prediction}
//	    (strings are arrays of character codes).  Bech32-level cases carry the string itself; Base58Check
//	    and WIF cases carry a structural class, for which the driver builds -inst concrete strings with
//	    crypto/sha256 and its own Base58 codec (gocoin's codec is never the oracle).
//	    One JSON line per failure {"ok":false,"sig":..,"what":..,"line":..}, then a summary line.
//
// There is no recording mode: the functions under test are pure, a recorded run would be the same
// comparison with the roles swapped.
package main

import (
	"bytes"
	"crypto/sha256"
	"encoding/hex"
	"encoding/json"
	"flag"
	"fmt"
	"math/big"
	"math/rand"
	"os"
	"sort"
	"strings"
	"sync"
	"sync/atomic"

	"github.com/piotrnar/gocoin/lib/btc"
	"github.com/piotrnar/gocoin/lib/others/bech32"

	"verifharness/vio"
)

// ---------------------------------------------------------------- exported case format

type Case struct {
	K    string `json:"k"`
	Seed int    `json:"seed"`
	X    []int  `json:"x"`
}

type Dest struct {
	Ver  int   `json:"ver"`
	Prog []int `json:"prog"`
}

type B32P struct {
	Ok   bool  `json:"ok"`
	Hrp  []int `json:"hrp"`
	Data []int `json:"data"`
	M    bool  `json:"m"`
}

type SegP struct {
	Ok   bool  `json:"ok"`
	Ver  int   `json:"ver"`
	Prog []int `json:"prog"`
}

type AddrP struct {
	Ok     bool  `json:"ok"`
	Script []int `json:"script"`
	Tn     bool  `json:"tn"`
}

type DecP struct {
	Ok bool  `json:"ok"`
	V  []int `json:"v"`
}

type Pred struct {
	// Bech32-level cases
	B32  *B32P  `json:"b32"`
	Seg  *SegP  `json:"seg"`
	Addr *AddrP `json:"addr"`
	Enc  []int  `json:"enc"`
	// Base58 digit cases
	Dec *DecP `json:"dec"`
	// Base58Check / WIF classes
	Ok         bool   `json:"ok"`
	Kind       string `json:"kind"`
	Tn         bool   `json:"tn"`
	Ones       int    `json:"ones"`
	Compressed bool   `json:"compressed"`
}

type Line struct {
	C Case  `json:"c"`
	Q []int `json:"q"`
	D Dest  `json:"d"`
	S []int `json:"s"`
	R Pred  `json:"r"`
}

func str(codes []int) string {
	b := make([]byte, len(codes))
	for i, c := range codes {
		b[i] = byte(c)
	}
	return string(b)
}

func bts(v []int) []byte {
	b := make([]byte, len(v))
	for i, c := range v {
		b[i] = byte(c)
	}
	return b
}

// ---------------------------------------------------------------- independent Base58 / Base58Check (oracle side)

const b58alphabet = "123456789ABCDEFGHJKLMNPQRSTUVWXYZabcdefghijkmnopqrstuvwxyz"

// refB58Encode: long division of the byte string by 58, one '1' per leading zero byte.
func refB58Encode(in []byte) string {
	z := 0
	for z < len(in) && in[z] == 0 {
		z++
	}
	num := append([]byte(nil), in[z:]...)
	var digits []byte // least significant first
	for len(num) > 0 {
		rem := 0
		for i := range num {
			cur := rem*256 + int(num[i])
			num[i] = byte(cur / 58)
			rem = cur % 58
		}
		digits = append(digits, b58alphabet[rem])
		k := 0
		for k < len(num) && num[k] == 0 {
			k++
		}
		num = num[k:]
	}
	out := bytes.Repeat([]byte{'1'}, z)
	for i := len(digits) - 1; i >= 0; i-- {
		out = append(out, digits[i])
	}
	return string(out)
}

// refB58Decode returns ok=false when a character is outside the alphabet.
func refB58Decode(s string) ([]byte, bool) {
	z := 0
	for z < len(s) && s[z] == '1' {
		z++
	}
	var num []byte // big endian
	for i := 0; i < len(s); i++ {
		v := strings.IndexByte(b58alphabet, s[i])
		if v < 0 {
			return nil, false
		}
		if i < z {
			continue
		}
		carry := v
		for j := len(num) - 1; j >= 0; j-- {
			cur := int(num[j])*58 + carry
			num[j] = byte(cur)
			carry = cur >> 8
		}
		for carry > 0 {
			num = append([]byte{byte(carry)}, num...)
			carry >>= 8
		}
	}
	return append(make([]byte, z), num...), true
}

func sha256d(b []byte) []byte {
	a := sha256.Sum256(b)
	c := sha256.Sum256(a[:])
	return c[:]
}

// refAddr58: is s a Base58Check address (version byte + 20-byte hash + 4 checksum bytes)?
func refAddr58(s string) (ver byte, hash []byte, ok bool) {
	dec, good := refB58Decode(s)
	if !good || len(dec) != 25 {
		return
	}
	if !bytes.Equal(sha256d(dec[:21])[:4], dec[21:]) {
		return
	}
	return dec[0], dec[1:21], true
}

func p2pkh(h []byte) []byte {
	return append(append([]byte{0x76, 0xa9, 20}, h...), 0x88, 0xac)
}

func p2sh(h []byte) []byte {
	return append(append([]byte{0xa9, 20}, h...), 0x87)
}

// ---------------------------------------------------------------- failure collection

type failure struct {
	OK   bool            `json:"ok"`
	Sig  string          `json:"sig"`
	What string          `json:"what"`
	Line json.RawMessage `json:"line,omitempty"`
	Inst int             `json:"inst"`
}

type collector struct {
	mu      sync.Mutex
	out     *vio.Out
	bySig   map[string]int
	infra   []string
	obs     map[string]int
	obsEx   []string
	checks  int64
	cases   int64
	lines   int64
	acc     int64
	ref     int64
	perKind map[string]int
}

func (c *collector) fail(raw []byte, inst int, sig, what string) {
	c.mu.Lock()
	c.bySig[sig]++
	n := c.bySig[sig]
	c.mu.Unlock()
	if n <= 3 {
		c.out.Put(failure{OK: false, Sig: "C15:" + sig, What: what, Line: json.RawMessage(raw), Inst: inst})
	}
}

// observe: behaviour outside what the property states (e.g. an encoder accepting an unsupported input); never a verdict
func (c *collector) observe(sig, f string, a ...interface{}) {
	c.mu.Lock()
	c.obs[sig]++
	if c.obs[sig] == 1 && len(c.obsEx) < 10 {
		c.obsEx = append(c.obsEx, sig+": "+fmt.Sprintf(f, a...))
	}
	c.mu.Unlock()
}

func (c *collector) infraf(f string, a ...interface{}) {
	c.mu.Lock()
	if len(c.infra) < 10 {
		c.infra = append(c.infra, fmt.Sprintf(f, a...))
	}
	c.mu.Unlock()
}

// one case being judged
type judge struct {
	c      *collector
	raw    []byte
	ln     *Line
	inst   int
	checks int
}

func (j *judge) bad(sig, f string, a ...interface{}) {
	j.c.fail(j.raw, j.inst, sig, fmt.Sprintf(f, a...))
}

func (j *judge) chk() { j.checks++ }

// protect runs f and reports a panic as a value
func protect(f func()) (panicked interface{}) {
	defer func() {
		if r := recover(); r != nil {
			panicked = r
		}
	}()
	f()
	return nil
}

// ---------------------------------------------------------------- Bech32-level cases

var encKinds = map[string]bool{"seed": true, "upper": true, "hrpswap": true, "enc": true, "raw": true, "long": true}

func isNet(h string) bool { return h == "bc" || h == "tb" }

func (j *judge) bech32Case() {
	ln := j.ln
	k := ln.C.K
	s := str(ln.S)
	q := str(ln.Q)
	r := ln.R
	if r.B32 == nil || r.Seg == nil || r.Addr == nil {
		j.c.infraf("case %s without a prediction", k)
		return
	}
	low := strings.ToLower(s)

	// --- bech32.Decode : generic BIP173 / BIP350 string
	var hrp string
	var data []byte
	var m bool
	if p := protect(func() { hrp, data, m = bech32.Decode(s) }); p != nil {
		j.bad("bech32.Decode:panic:"+k, "bech32.Decode(%q) panicked: %v", s, p)
	} else {
		j.chk()
		got := hrp != ""
		if got != r.B32.Ok {
			if got {
				j.bad("bech32.Decode:accepted:"+k, "bech32.Decode(%q) accepted (hrp %q, %d symbols, bech32m=%v); BIP173/350 refuse this string", s, hrp, len(data), m)
			} else {
				j.bad("bech32.Decode:refused:"+k, "bech32.Decode(%q) refused a valid %s string", s, map[bool]string{false: "Bech32", true: "Bech32m"}[r.B32.M])
			}
		} else if got {
			if hrp != str(r.B32.Hrp) || !bytes.Equal(data, bts(r.B32.Data)) || m != r.B32.M {
				j.bad("bech32.Decode:value:"+k, "bech32.Decode(%q) = (%q, %x, m=%v), the model says (%q, %x, m=%v)", s, hrp, data, m, str(r.B32.Hrp), bts(r.B32.Data), r.B32.M)
			}
			var re string
			protect(func() { re = bech32.Encode(hrp, data, m) })
			j.chk()
			if re != low {
				j.bad("bech32.Encode:reencode:"+k, "bech32.Encode(Decode(%q)) = %q", s, re)
			}
		} else if data != nil || m {
			j.bad("bech32.Decode:partial:"+k, "bech32.Decode(%q) refused but returned data=%x m=%v", s, data, m)
		}
	}

	// --- bech32.SegwitDecode(q, s)
	var ver int
	var prog []byte
	var er error
	if p := protect(func() { ver, prog, er = bech32.SegwitDecode(q, s) }); p != nil {
		j.bad("bech32.SegwitDecode:panic:"+k, "SegwitDecode(%q, %q) panicked: %v", q, s, p)
	} else {
		j.chk()
		got := prog != nil
		if got != (er == nil) {
			j.bad("bech32.SegwitDecode:ambiguous:"+k, "SegwitDecode(%q, %q) returned program=%x together with error=%v", q, s, prog, er)
		}
		if got != r.Seg.Ok {
			if got {
				j.bad("bech32.SegwitDecode:accepted:"+k, "SegwitDecode(%q, %q) accepted (version %d, program %x); BIP173/350 refuse this string", q, s, ver, prog)
			} else {
				j.bad("bech32.SegwitDecode:refused:"+k, "SegwitDecode(%q, %q) refused (%v); it is the valid address of version %d, program %x", q, s, er, r.Seg.Ver, bts(r.Seg.Prog))
			}
		} else if got {
			if ver != r.Seg.Ver || !bytes.Equal(prog, bts(r.Seg.Prog)) {
				j.bad("bech32.SegwitDecode:value:"+k, "SegwitDecode(%q, %q) = (%d, %x), the model says (%d, %x)", q, s, ver, prog, r.Seg.Ver, bts(r.Seg.Prog))
			}
			var re string
			protect(func() { re = bech32.SegwitEncode(q, ver, prog) })
			j.chk()
			if re != low {
				j.bad("bech32.SegwitEncode:reencode:"+k, "SegwitEncode(SegwitDecode(%q)) = %q", s, re)
			}
		}
	}

	// --- btc.NewAddrFromString(s): segwit address (model) or Base58Check address (driver's own decoder)
	wantOk, wantScript, wantTn := r.Addr.Ok, bts(r.Addr.Script), r.Addr.Tn
	isB58, judgeAddr := false, true
	if v, h, ok := refAddr58(s); ok && !wantOk {
		isB58 = true
		switch v {
		case 0, 111:
			wantOk, wantScript, wantTn = true, p2pkh(h), v == 111
		case 5, 196:
			wantOk, wantScript, wantTn = true, p2sh(h), v == 196
		default:
			wantOk = false // unknown version: the property does not say; not judged
		}
		if !wantOk {
			isB58, judgeAddr = false, false
		}
	}
	if judgeAddr {
		var a *btc.BtcAddr
		var e error
		if p := protect(func() { a, e = btc.NewAddrFromString(s) }); p != nil {
			j.bad("NewAddrFromString:panic:"+k, "NewAddrFromString(%q) panicked: %v", s, p)
		} else {
			j.chk()
			got := a != nil
			if got != (e == nil) {
				j.bad("NewAddrFromString:ambiguous:"+k, "NewAddrFromString(%q) returned address=%v together with error=%v", s, a != nil, e)
			}
			if got && !wantOk {
				var scr []byte
				pp := protect(func() { scr = a.OutScript() })
				j.bad("NewAddrFromString:accepted:"+k, "NewAddrFromString(%q) accepted (OutScript %x, panic %v); the string is not a valid address", s, scr, pp)
			} else if !got && wantOk {
				j.bad("NewAddrFromString:refused:"+k, "NewAddrFromString(%q) refused (%v); it is the valid address of script %x", s, e, wantScript)
			} else if got {
				atomicAdd(&j.c.acc, 1)
				var scr []byte
				if pp := protect(func() { scr = a.OutScript() }); pp != nil {
					j.bad("OutScript:panic:"+k, "NewAddrFromString(%q).OutScript() panicked: %v", s, pp)
				} else if !bytes.Equal(scr, wantScript) {
					j.bad("OutScript:value:"+k, "NewAddrFromString(%q).OutScript() = %x, the address denotes %x", s, scr, wantScript)
				}
				j.chk()
				want := low
				if isB58 {
					want = s
				}
				var re string
				protect(func() { re = a.String() })
				if re != want {
					j.bad("String:reencode:"+k, "NewAddrFromString(%q).String() = %q", s, re)
				}
				var re2 string
				protect(func() {
					if b := btc.NewAddrFromPkScript(wantScript, wantTn); b != nil {
						re2 = b.String()
					}
				})
				j.chk()
				if re2 != want {
					j.bad("NewAddrFromPkScript:reencode:"+k, "NewAddrFromPkScript(%x, testnet=%v).String() = %q, the script was decoded from %q", wantScript, wantTn, re2, s)
				}
			} else {
				atomicAdd(&j.c.ref, 1)
			}
		}
	}

	// --- encoders on the destination the case was built from
	if encKinds[k] && ln.D.Ver >= 0 {
		want := str(r.Enc)
		prog := bts(ln.D.Prog)
		var got string
		if p := protect(func() { got = bech32.SegwitEncode(q, ln.D.Ver, prog) }); p != nil {
			j.bad("bech32.SegwitEncode:panic:"+k, "SegwitEncode(%q, %d, %x) panicked: %v", q, ln.D.Ver, prog, p)
		} else {
			j.chk()
			if got != want && want == "" {
				// not a supported destination: the property does not say what an encoder does with it
				j.c.observe("bech32.SegwitEncode:encodes-unsupported", "SegwitEncode(%q, %d, %x) = %q although BIP173/350 define no address for it", q, ln.D.Ver, prog, got)
			} else if got != want {
				j.bad("bech32.SegwitEncode:value:"+k, "SegwitEncode(%q, %d, %x) = %q, BIP173/350 give %q", q, ln.D.Ver, prog, got, want)
			}
		}
		if isNet(q) && ln.D.Ver <= 16 && len(prog) >= 2 && len(prog) <= 40 {
			// a witness program script (BIP141): OP_n, push
			scr := []byte{0, byte(len(prog))}
			if ln.D.Ver > 0 {
				scr[0] = byte(0x50 + ln.D.Ver)
			}
			scr = append(scr, prog...)
			var a *btc.BtcAddr
			var as string
			if p := protect(func() {
				if a = btc.NewAddrFromPkScript(scr, q == "tb"); a != nil {
					as = a.String()
				}
			}); p != nil {
				j.bad("NewAddrFromPkScript:panic:"+k, "NewAddrFromPkScript(%x) panicked: %v", scr, p)
			} else {
				j.chk()
				if as != want && want == "" {
					j.c.observe("NewAddrFromPkScript:encodes-unsupported", "NewAddrFromPkScript(%x).String() = %q although BIP173/350 define no address for it", scr, as)
				} else if as != want {
					j.bad("NewAddrFromPkScript:value:"+k, "NewAddrFromPkScript(%x, testnet=%v).String() = %q, BIP173/350 give %q", scr, q == "tb", as, want)
				}
				if a != nil && as != "" {
					var back []byte
					var e error
					protect(func() {
						var b *btc.BtcAddr
						if b, e = btc.NewAddrFromString(as); b != nil {
							back = b.OutScript()
						}
					})
					j.chk()
					if !bytes.Equal(back, scr) {
						j.bad("roundtrip:script:"+k, "script %x -> %q -> %x (%v)", scr, as, back, e)
					}
				}
			}
		}
	}
	if k == "generic" && len(ln.C.X) >= 3 {
		want := str(r.Enc)
		var got string
		if p := protect(func() { got = bech32.Encode(q, bts(ln.D.Prog), ln.C.X[2] == 1) }); p != nil {
			j.bad("bech32.Encode:panic:"+k, "bech32.Encode(%q, %x) panicked: %v", q, bts(ln.D.Prog), p)
		} else {
			j.chk()
			if got != want && want == "" {
				j.c.observe("bech32.Encode:encodes-unsupported", "bech32.Encode(%q, %x) = %q although BIP173 allows no such string (hrp of 1..83 characters in 33..126, at most 90 characters)", q, bts(ln.D.Prog), got)
			} else if got != want {
				j.bad("bech32.Encode:value:"+k, "bech32.Encode(%q, %x, m=%v) = %q, BIP173 gives %q", q, bts(ln.D.Prog), ln.C.X[2] == 1, got, want)
			}
		}
	}
}

func atomicAdd(p *int64, d int64) { atomic.AddInt64(p, d) }

// ---------------------------------------------------------------- Base58 digit structure

func (j *judge) b58raw() {
	ln := j.ln
	s := str(ln.S)
	if ln.R.Dec == nil {
		j.c.infraf("b58 case without prediction")
		return
	}
	if ln.C.K == "b58raw" {
		in := bts(ln.D.Prog)
		if refB58Encode(in) != s {
			j.c.infraf("driver's Base58 encoder disagrees with the model: %x -> %q vs %q", in, refB58Encode(in), s)
			return
		}
		if back, ok := refB58Decode(s); !ok || !bytes.Equal(back, in) {
			j.c.infraf("driver's Base58 decoder disagrees with the model on %q", s)
			return
		}
		var got string
		if p := protect(func() { got = btc.Encodeb58(in) }); p != nil {
			j.bad("Encodeb58:panic", "Encodeb58(%x) panicked: %v", in, p)
		} else if got != s {
			j.bad("Encodeb58:value", "Encodeb58(%x) = %q, Base58 gives %q", in, got, s)
		}
		j.chk()
		var dec []byte
		if p := protect(func() { dec = btc.Decodeb58(s) }); p != nil {
			j.bad("Decodeb58:panic", "Decodeb58(%q) panicked: %v", s, p)
		} else if !bytes.Equal(dec, in) {
			j.bad("Decodeb58:value", "Decodeb58(%q) = %x, Base58 gives %x", s, dec, in)
		}
		j.chk()
		return
	}
	// b58bad: a character outside the alphabet
	if _, ok := refB58Decode(s); ok || ln.R.Dec.Ok {
		j.c.infraf("b58bad case %q is decodable", s)
		return
	}
	var dec []byte
	if p := protect(func() { dec = btc.Decodeb58(s) }); p != nil {
		j.bad("Decodeb58:panic", "Decodeb58(%q) panicked: %v", s, p)
	} else if dec != nil {
		j.bad("Decodeb58:accepted-bad-character", "Decodeb58(%q) = %x although the string has a character outside the Base58 alphabet", s, dec)
	}
	j.chk()
}

// ---------------------------------------------------------------- Base58Check / WIF classes

var badChars = []byte{'0', 'O', 'I', 'l', ' ', '+', 200}

// mutate applies the class attributes shared by b58 / wif: checksum byte off, leading '1' +-, bad character
func buildString(payload []byte, ck, bad, ones int, rnd *rand.Rand) (string, bool) {
	p := append([]byte(nil), payload...)
	if ck > 0 {
		p[len(p)-5+ck]++
	}
	s := refB58Encode(p)
	switch ones {
	case -1:
		if len(s) == 0 || s[0] != '1' {
			return "", false
		}
		s = s[1:]
	case 1:
		s = "1" + s
	}
	if bad > 0 && len(s) > 1 {
		b := []byte(s)
		pos := rnd.Intn(len(b))
		switch {
		case bad <= len(badChars): // a character outside the alphabet
			b[pos] = badChars[bad-1]
		case bad == len(badChars)+1: // another character of the alphabet
			for {
				ch := b58alphabet[rnd.Intn(58)]
				if ch != b[pos] {
					b[pos] = ch
					break
				}
			}
		case bad == len(badChars)+2: // one character deleted
			b = append(b[:pos], b[pos+1:]...)
		case bad == len(badChars)+3: // one character inserted
			b = append(b[:pos], append([]byte{b58alphabet[rnd.Intn(58)]}, b[pos:]...)...)
		default: // two different neighbours transposed
			for i := 0; i < len(b); i++ {
				p := (pos + i) % (len(b) - 1)
				if b[p] != b[p+1] {
					b[p], b[p+1] = b[p+1], b[p]
					break
				}
			}
		}
		s = string(b)
	}
	return s, true
}

// diagnose names the rule a concrete Base58Check string breaks, from the driver's own reading of the string
// (signature of a wrongly accepted string; independent of the class it was built for).  wif selects the WIF layout.
func diagnose(s string, wif bool) string {
	dec, good := refB58Decode(s)
	if !good {
		return "bad-character"
	}
	if len(dec) < 5 || !bytes.Equal(sha256d(dec[:len(dec)-4])[:4], dec[len(dec)-4:]) {
		if !wif && len(dec) != 25 {
			return fmt.Sprintf("payload-length-%d", len(dec))
		}
		if wif && len(dec) != 37 && len(dec) != 38 {
			return fmt.Sprintf("payload-length-%d", len(dec))
		}
		return "bad-checksum"
	}
	if !wif {
		if len(dec) != 25 {
			return fmt.Sprintf("payload-length-%d", len(dec))
		}
		return "well-formed"
	}
	switch {
	case len(dec) == 37:
		return "well-formed"
	case len(dec) == 38 && dec[33] == 1:
		return "well-formed"
	case len(dec) == 38:
		return "compression-flag-not-01"
	}
	return fmt.Sprintf("payload-length-%d", len(dec))
}

func (j *judge) b58class(salt int64) {
	ln := j.ln
	x := ln.C.X
	if len(x) != 6 {
		j.c.infraf("b58 class with %d parameters", len(x))
		return
	}
	vb, plen, lz, ck, bad, ones := byte(x[0]), x[1], x[2], x[3], x[4], x[5]
	rnd := rand.New(rand.NewSource(salt*1000003 + int64(x[0])*7919 + int64(plen)*104729 + int64(lz)*31 + int64(ck)*17 + int64(bad)*13 + int64(ones+1)*11 + int64(j.inst)*1299709))
	hash := make([]byte, plen-5)
	rnd.Read(hash)
	for i := 0; i < lz; i++ {
		hash[i] = 0
	}
	if hash[lz] == 0 {
		hash[lz] = 1
	}
	payload := append([]byte{vb}, hash...)
	payload = append(payload, sha256d(payload)[:4]...)
	s, ok := buildString(payload, ck, bad, ones, rnd)
	if !ok {
		j.c.infraf("b58 class %v: no leading '1' to remove in %q", x, s)
		return
	}
	if ck == 0 && bad == 0 && ones == 0 {
		n := 0
		for n < len(s) && s[n] == '1' {
			n++
		}
		if n != ln.R.Ones {
			j.c.infraf("b58 class %v: %d leading '1' in %q, the model says %d", x, n, s, ln.R.Ones)
			return
		}
	}
	// the driver's own Base58Check decoder must agree with the model's verdict for the class
	rv, rh, rok := refAddr58(s)
	if rok && !ln.R.Ok && bad > len(badChars) {
		return // the damage cancelled another attribute (e.g. deleted the prepended '1') or hit another valid address (2^-32): not a case
	}
	if rok != ln.R.Ok || (rok && (rv != vb || !bytes.Equal(rh, hash))) {
		j.c.infraf("b58 class %v: driver's decoder says %v for %q, the model says %v", x, rok, s, ln.R.Ok)
		return
	}
	j.judgeAddr58(s, vb, hash)
}

// judgeAddr58: s is the driver-built string for (version vb, hash); the model's verdict is in j.ln.R
func (j *judge) judgeAddr58(s string, vb byte, hash []byte) {
	ln := j.ln
	sigc := diagnose(s, false)
	var a *btc.BtcAddr
	var e error
	if p := protect(func() { a, e = btc.NewAddrFromString(s) }); p != nil {
		j.bad("b58:NewAddrFromString:panic:"+sigc, "NewAddrFromString(%q) panicked: %v", s, p)
		return
	}
	j.chk()
	got := a != nil
	if got != (e == nil) {
		j.bad("b58:NewAddrFromString:ambiguous", "NewAddrFromString(%q) returned address=%v together with error=%v", s, got, e)
	}
	if got && !ln.R.Ok {
		dec, _ := refB58Decode(s)
		j.bad("b58:NewAddrFromString:accepted:"+sigc, "NewAddrFromString(%q) accepted a string that is not a Base58Check address: %s (Base58 payload %x, %d bytes)", s, sigc, dec, len(dec))
		return
	}
	if !got && ln.R.Ok && ln.R.Kind == "unspecified" {
		// well-formed Base58Check, but not a P2PKH / P2SH version of mainnet / testnet: the property does not say
		// whether such a string is an address (e.g. version 128 strings may even start with "tb1")
		j.c.observe("b58:unspecified-version-refused", "NewAddrFromString(%q) refused (%v) the well-formed Base58Check string of version %d", s, e, vb)
		return
	}
	if !got && ln.R.Ok {
		j.bad("b58:NewAddrFromString:refused", "NewAddrFromString(%q) refused (%v) a valid Base58Check address: version %d hash %x", s, e, vb, hash)
		return
	}
	if !got {
		atomicAdd(&j.c.ref, 1)
		return
	}
	atomicAdd(&j.c.acc, 1)
	// decode -> re-encode
	var re string
	protect(func() { re = a.String() })
	if re != s {
		j.bad("b58:String:reencode", "NewAddrFromString(%q).String() = %q", s, re)
	}
	if a.Version != vb || !bytes.Equal(a.Hash160[:], hash) {
		j.bad("b58:fields", "NewAddrFromString(%q): version %d hash %x, expected %d %x", s, a.Version, a.Hash160[:], vb, hash)
	}
	var enc string
	protect(func() { enc = btc.NewAddrFromHash160(hash, vb).String() })
	j.chk()
	if enc != s {
		j.bad("b58:NewAddrFromHash160:encode", "NewAddrFromHash160(%x, %d).String() = %q, Base58Check gives %q", hash, vb, enc, s)
	}
	var want []byte
	switch ln.R.Kind {
	case "p2pkh":
		want = p2pkh(hash)
	case "p2sh":
		want = p2sh(hash)
	default:
		// version byte outside P2PKH / P2SH of mainnet / testnet: the property does not say what happens
		protect(func() { a.OutScript() })
		return
	}
	var scr []byte
	if p := protect(func() { scr = a.OutScript() }); p != nil {
		j.bad("b58:OutScript:panic", "NewAddrFromString(%q).OutScript() panicked: %v", s, p)
		return
	}
	j.chk()
	if !bytes.Equal(scr, want) {
		j.bad("b58:OutScript:value", "NewAddrFromString(%q).OutScript() = %x, the address denotes %x", s, scr, want)
	}
	// script -> string -> script
	var re2 string
	protect(func() {
		if b := btc.NewAddrFromPkScript(want, ln.R.Tn); b != nil {
			re2 = b.String()
		}
	})
	j.chk()
	if re2 != s {
		j.bad("b58:NewAddrFromPkScript:encode", "NewAddrFromPkScript(%x, testnet=%v).String() = %q, Base58Check gives %q", want, ln.R.Tn, re2, s)
	}
}

var curveN, _ = new(big.Int).SetString("FFFFFFFFFFFFFFFFFFFFFFFFFFFFFFFEBAAEDCE6AF48A03BBFD25E8CD0364141", 16)

func (j *judge) wifclass(salt int64) {
	ln := j.ln
	x := ln.C.X
	if len(x) != 5 {
		j.c.infraf("wif class with %d parameters", len(x))
		return
	}
	vb, form, ck, bad, ones := byte(x[0]), x[1], x[2], x[3], x[4]
	rnd := rand.New(rand.NewSource(salt*1000033 + int64(x[0])*7919 + int64(form)*104729 + int64(ck)*17 + int64(bad)*13 + int64(ones+1)*11 + int64(j.inst)*1299709))
	key := make([]byte, 32)
	for {
		rnd.Read(key)
		if k := new(big.Int).SetBytes(key); k.Sign() > 0 && k.Cmp(curveN) < 0 && key[0] != 0 {
			break
		}
	}
	var body []byte
	switch form {
	case 36:
		body = key[:31]
	case 37:
		body = key
	case 38:
		body = append(append([]byte(nil), key...), 1)
	case 380:
		body = append(append([]byte(nil), key...), 0)
	case 382:
		body = append(append([]byte(nil), key...), 2)
	case 383:
		body = append(append([]byte(nil), key...), 0xff)
	case 39:
		body = append(append([]byte(nil), key...), 1, 1)
	default:
		j.c.infraf("unknown wif form %d", form)
		return
	}
	payload := append([]byte{vb}, body...)
	payload = append(payload, sha256d(payload)[:4]...)
	s, ok := buildString(payload, ck, bad, ones, rnd)
	if !ok {
		j.c.infraf("wif class %v: cannot build", x)
		return
	}
	// the driver's own reading of the string: Base58Check with a 33- or 34-byte body, 34 only with flag 01
	refOk := false
	if dec, good := refB58Decode(s); good && len(dec) >= 5 && bytes.Equal(sha256d(dec[:len(dec)-4])[:4], dec[len(dec)-4:]) {
		b := dec[1 : len(dec)-4]
		refOk = len(b) == 32 || (len(b) == 33 && b[32] == 1)
	}
	if refOk && !ln.R.Ok && bad > len(badChars) {
		return // the damage cancelled another attribute or hit another valid key (2^-32): not a case
	}
	if refOk != ln.R.Ok {
		j.c.infraf("wif class %v: driver's decoder says %v for %q, the model says %v", x, refOk, s, ln.R.Ok)
		return
	}
	j.judgeWif(s, vb, key)
}

// judgeWif: s is the driver-built string for (version vb, key); the model's verdict and compression are in j.ln.R
func (j *judge) judgeWif(s string, vb byte, key []byte) {
	ln := j.ln
	sigc := diagnose(s, true)
	var pa *btc.PrivateAddr
	var e error
	if p := protect(func() { pa, e = btc.DecodePrivateAddr(s) }); p != nil {
		j.bad("wif:DecodePrivateAddr:panic:"+sigc, "DecodePrivateAddr(%q) panicked: %v", s, p)
		return
	}
	j.chk()
	got := pa != nil
	if got != (e == nil) {
		j.bad("wif:DecodePrivateAddr:ambiguous", "DecodePrivateAddr(%q) returned key=%v together with error=%v", s, got, e)
	}
	if got && !ln.R.Ok {
		var re string
		protect(func() { re = pa.String() })
		dec, _ := refB58Decode(s)
		j.bad("wif:DecodePrivateAddr:accepted:"+sigc, "DecodePrivateAddr(%q) accepted a string that is not WIF: %s (Base58 payload %x, %d bytes; WIF is version, 32-byte key, optional flag 01, 4-byte checksum); re-encoding the result gives %q", s, sigc, dec, len(dec), re)
		return
	}
	if !got && ln.R.Ok {
		j.bad("wif:DecodePrivateAddr:refused", "DecodePrivateAddr(%q) refused (%v) a valid WIF key", s, e)
		return
	}
	if !got {
		atomicAdd(&j.c.ref, 1)
		return
	}
	atomicAdd(&j.c.acc, 1)
	if !bytes.Equal(pa.Key, key) || pa.Version != vb {
		j.bad("wif:fields", "DecodePrivateAddr(%q): key %x version %d, expected %x %d", s, pa.Key, pa.Version, key, vb)
	}
	var compr bool
	if p := protect(func() { compr = pa.IsCompressed() }); p != nil || compr != ln.R.Compressed {
		dec, _ := refB58Decode(s)
		j.bad("wif:compressed", "DecodePrivateAddr(%q): compressed=%v (panic %v); the payload %x has %d bytes, so WIF says compressed=%v", s, compr, p, dec, len(dec), ln.R.Compressed)
	}
	// the address attached to the key must be the one of (key, compression)
	var h1, h2 [20]byte
	protect(func() { h1 = pa.BtcAddr.Hash160; h2 = btc.NewPrivateAddr(key, vb, ln.R.Compressed).BtcAddr.Hash160 })
	if h1 != h2 {
		j.bad("wif:address", "DecodePrivateAddr(%q): attached address hash %x, the key with compressed=%v has %x", s, h1, ln.R.Compressed, h2)
	}
	var re string
	protect(func() { re = pa.String() })
	j.chk()
	if re != s {
		j.bad("wif:String:reencode", "DecodePrivateAddr(%q).String() = %q", s, re)
	}
	var enc string
	protect(func() { enc = btc.NewPrivateAddr(key, vb, ln.R.Compressed).String() })
	j.chk()
	if enc != s {
		j.bad("wif:NewPrivateAddr:encode", "NewPrivateAddr(%x, %d, %v).String() = %q, WIF gives %q", key, vb, ln.R.Compressed, enc, s)
	}
}

// ---------------------------------------------------------------- constructed well-formed classes

func validKey(key []byte) bool {
	k := new(big.Int).SetBytes(key)
	return k.Sign() > 0 && k.Cmp(curveN) < 0
}

// construct searches the free bytes (key or hash, n of them) of a well-formed payload version || free || tail || checksum
// for the constraint (ctype, cval) of spec/Addr.tla; found=false only for an unreachable leading character.
func construct(rnd *rand.Rand, vb byte, n int, tail []byte, ctype, cval int, isKey bool) (free []byte, s string, found bool) {
	for try := 0; try < 1<<17; try++ {
		free = make([]byte, n)
		rnd.Read(free)
		switch ctype {
		case 3:
			free[n-1] = byte(cval)
		case 5:
			free[0] = byte(cval)
		case 4:
			if try < 256 {
				free[0] = byte(try) // the leading character follows the leading bytes
			} else if try < 512 {
				free[0], free[1] = 0, byte(try)
			} else if try > 4096 {
				return nil, "", false
			}
		}
		if isKey && !validKey(free) {
			continue
		}
		payload := append(append([]byte{vb}, free...), tail...)
		ck := sha256d(payload)[:4]
		payload = append(payload, ck...)
		switch ctype {
		case 1:
			if int(ck[0]) != cval {
				continue
			}
		case 2:
			if int(ck[3]) != cval {
				continue
			}
		}
		s = refB58Encode(payload)
		if ctype == 4 && s[0] != b58alphabet[cval] {
			continue
		}
		return free, s, true
	}
	return nil, "", false
}

func (j *judge) constructed(salt int64, wif bool) {
	x := j.ln.C.X
	want := 3
	if wif {
		want = 4
	}
	if len(x) != want {
		j.c.infraf("constructed class with %d parameters", len(x))
		return
	}
	vb := byte(x[0])
	ctype, cval := x[len(x)-2], x[len(x)-1]
	seed := salt*1000211 + int64(x[0])*7919 + int64(ctype)*104729 + int64(cval)*31 + int64(j.inst)*1299709
	if wif {
		seed += int64(x[1]) * 15485863
	}
	rnd := rand.New(rand.NewSource(seed))
	var free []byte
	var s string
	var found bool
	if wif {
		var tail []byte
		if x[1] == 38 {
			tail = []byte{1}
		}
		free, s, found = construct(rnd, vb, 32, tail, ctype, cval, true)
	} else {
		free, s, found = construct(rnd, vb, 20, nil, ctype, cval, false)
	}
	if !found {
		if ctype != 4 {
			j.c.infraf("constructed class %v: no payload found", x)
		} else {
			j.c.observe("constructed:leading-character-unreachable", "class %v", x)
		}
		return
	}
	if wif {
		j.judgeWif(s, vb, free)
	} else {
		if rv, rh, rok := refAddr58(s); !rok || rv != vb || !bytes.Equal(rh, free) {
			j.c.infraf("constructed class %v: driver's decoder refuses its own string %q", x, s)
			return
		}
		j.judgeAddr58(s, vb, free)
	}
}

// ---------------------------------------------------------------- replay

var b32Kinds = map[string]bool{"seed": true, "sub": true, "upper": true, "upsub": true, "del": true, "ins": true, "swap": true,
	"flip": true, "casepart": true, "trunc": true, "subk": true, "editk": true, "pad": true, "extra": true, "vswap": true, "hrpswap": true, "enc": true, "raw": true,
	"long": true, "generic": true, "odd": true, "short": true}

func cmdReplay(args []string) {
	fs := flag.NewFlagSet("replay", flag.ExitOnError)
	in := fs.String("in", "-", "")
	workers := fs.Int("workers", 8, "")
	salt := fs.Int64("salt", 1, "")
	inst := fs.Int("inst", 2, "concrete strings per Base58Check / WIF class")
	vol := fs.Int("vol", 0, "concrete strings per WELL-FORMED random Base58Check / WIF class (0 = same as -inst)")
	fs.Parse(args)
	col := &collector{out: vio.NewOut(), bySig: map[string]int{}, perKind: map[string]int{}, obs: map[string]int{}}
	jobs := make(chan []byte, 1024)
	done := make(chan struct{})
	go func() {
		vio.Pool(*workers, jobs, func(wk int, raw []byte) {
			var ln Line
			if err := json.Unmarshal(raw, &ln); err != nil {
				col.infraf("unparsable line: %v: %.200s", err, raw)
				return
			}
			col.mu.Lock()
			col.lines++
			col.perKind[ln.C.K]++
			col.mu.Unlock()
			n := 1
			switch ln.C.K {
			case "b58", "wif":
				n = *inst
				if ln.R.Ok && *vol > n {
					n = *vol
				}
			case "b58c", "wifc":
				n = *inst
			}
			for i := 0; i < n; i++ {
				j := &judge{c: col, raw: raw, ln: &ln, inst: i}
				switch {
				case b32Kinds[ln.C.K]:
					j.bech32Case()
				case ln.C.K == "b58raw" || ln.C.K == "b58bad":
					j.b58raw()
				case ln.C.K == "b58":
					j.b58class(*salt)
				case ln.C.K == "wif":
					j.wifclass(*salt)
				case ln.C.K == "b58c":
					j.constructed(*salt, false)
				case ln.C.K == "wifc":
					j.constructed(*salt, true)
				case ln.C.K == "start" || ln.C.K == "group":
					continue
				default:
					col.infraf("unknown case kind %q", ln.C.K)
					continue
				}
				col.mu.Lock()
				col.cases++
				col.checks += int64(j.checks)
				col.mu.Unlock()
			}
		})
		close(done)
	}()
	err := vio.ReadLines(*in, func(n int, line []byte) error {
		jobs <- append([]byte(nil), line...)
		return nil
	})
	close(jobs)
	<-done
	if err != nil {
		fmt.Fprintln(os.Stderr, "read:", err)
		os.Exit(2)
	}
	nf := 0
	sigs := make([]string, 0, len(col.bySig))
	for s, n := range col.bySig {
		nf += n
		sigs = append(sigs, fmt.Sprintf("%s x%d", s, n))
	}
	sort.Strings(sigs)
	col.out.Put(map[string]interface{}{"summary": true, "lines": col.lines, "cases": col.cases, "checks": col.checks,
		"fail": nf, "signatures": sigs, "infra": col.infra, "accepted": col.acc, "refused": col.ref, "kinds": col.perKind,
		"observations": col.obs, "observation_examples": col.obsEx})
	col.out.Flush()
}

// one: judge a single string given on the command line (debugging aid and replay of a saved violation)
func cmdOne(args []string) {
	for _, s := range args {
		a, e := btc.NewAddrFromString(s)
		fmt.Printf("%q: NewAddrFromString addr=%v err=%v", s, a != nil, e)
		if a != nil {
			protect(func() { fmt.Printf(" script=%s", hex.EncodeToString(a.OutScript())) })
		}
		pa, e2 := btc.DecodePrivateAddr(s)
		fmt.Printf(" | DecodePrivateAddr key=%v err=%v", pa != nil, e2)
		if pa != nil {
			fmt.Printf(" reencoded=%q", pa.String())
		}
		fmt.Println()
	}
}

func main() {
	if len(os.Args) < 2 {
		fmt.Fprintln(os.Stderr, "usage: addr replay|one ...")
		os.Exit(2)
	}
	switch os.Args[1] {
	case "replay":
		cmdReplay(os.Args[2:])
	case "one":
		cmdOne(os.Args[2:])
	default:
		os.Exit(2)
	}
}
