// chainstore: crash / restart driver for C07 (spec/ChainStore.tla).
//
//	chainstore mkbase  -dir W -scenario S -gt T -pad N            build the base chain once (W/base)
//	chainstore work    -dir W -node D -scenario S -gt T -pad N -ops "D1,D2,I,W,D3,C" -target <seconds>
//	    run the workload on node directory D (cloned from the base when absent). The hook package obeys
//	    VERIF_TRACE / VERIF_CRASH_AT, so the process may be SIGKILLed at a named point.
//	chainstore recover -dir W -node D -scenario S -gt T -pad N -ops "..." [-tear idx|dat]
//	    reopen D in this fresh process, report what recovery yields, compare with oracles, feed the rest.
package main

import (
	"encoding/json"
	"flag"
	"fmt"
	"os"
	"path/filepath"
	"strconv"
	"strings"
	"time"

	"github.com/piotrnar/gocoin/lib/others/verif"
	"github.com/piotrnar/gocoin/lib/utxo"

	"verifharness/conc"
)

type state struct {
	Tip  int            `json:"tip"`
	Utxo []conc.UtxoEnt `json:"utxo,omitempty"`
	N    int            `json:"n"`
}

type report struct {
	Panic     string   `json:"panic,omitempty"`
	Recovered *state   `json:"recovered,omitempty"`
	Final     *state   `json:"final,omitempty"`
	Problems  []string `json:"problems"`
	Kind      []string `json:"kind"`
	OpsDone   int      `json:"ops_done"`
}

func loadScenario(p string) conc.Scenario {
	var sc conc.Scenario
	b, err := os.ReadFile(p)
	if err == nil {
		err = json.Unmarshal(b, &sc)
	}
	if err != nil {
		fmt.Fprintln(os.Stderr, "scenario:", err)
		os.Exit(2)
	}
	return sc
}

func snap(n *conc.Node) (*state, []string) {
	tip, ok := n.Tip()
	ents, problems := n.DumpUtxo()
	if !ok {
		problems = append(problems, "tip is a block that was never delivered")
	}
	return &state{Tip: tip, Utxo: ents, N: len(ents)}, problems
}

func sameUtxo(a, b []conc.UtxoEnt) string {
	m := map[conc.UtxoEnt]int{}
	for _, e := range a {
		m[e]++
	}
	for _, e := range b {
		m[e]--
	}
	for e, c := range m {
		if c > 0 {
			return fmt.Sprintf("output %d:%d (height %d) only in the first", e.Tx, e.Vout, e.H)
		}
		if c < 0 {
			return fmt.Sprintf("output %d:%d (height %d) only in the second", e.Tx, e.Vout, e.H)
		}
	}
	return ""
}

func waitSaved(n *conc.Node, max time.Duration) bool {
	dl := time.Now().Add(max)
	for time.Now().Before(dl) {
		tmp, _ := filepath.Glob(filepath.Join(n.Dir, "*.db.tmp"))
		if !n.Ch.Unspent.WritingInProgress.Get() && len(tmp) == 0 {
			return true
		}
		time.Sleep(2 * time.Millisecond)
	}
	return false
}

// runOps executes ops[from:] on n; returns the (possibly reopened) node.
func runOps(w *conc.World, n *conc.Node, ops []string, progress func(i int)) (*conc.Node, error) {
	for i, op := range ops {
		switch {
		case op == "":
		case op[0] == 'D':
			b, _ := strconv.Atoi(op[1:])
			acc, _, _ := n.Deliver(w.Block(b))
			tip, _ := n.Tip()
			verif.Event("op_deliver", "b", b, "acc", acc, "tip", tip)
		case op == "I":
			n.Ch.Idle()
		case op == "W":
			if !waitSaved(n, 20*time.Second) {
				return n, fmt.Errorf("snapshot save did not finish")
			}
		case op == "H":
			n.Ch.Unspent.HurryUp()
		case op == "C":
			before, _ := snap(n)
			n.Close()
			var perr error
			func() {
				defer func() {
					if r := recover(); r != nil {
						perr = fmt.Errorf("clean restart panics: %v", r)
					}
				}()
				n = w.OpenNode(n.Dir, nil)
			}()
			if perr != nil {
				return n, perr
			}
			after, pr := snap(n)
			if len(pr) > 0 {
				return n, fmt.Errorf("after clean restart: %s", pr[0])
			}
			if before.Tip != after.Tip {
				return n, fmt.Errorf("clean restart changed the tip from %d to %d", before.Tip, after.Tip)
			}
			if d := sameUtxo(before.Utxo, after.Utxo); d != "" {
				return n, fmt.Errorf("clean restart changed the UTXO set: %s", d)
			}
		default:
			return n, fmt.Errorf("unknown op %q", op)
		}
		if progress != nil {
			progress(i)
		}
	}
	return n, nil
}

func main() {
	if len(os.Args) < 2 {
		os.Exit(2)
	}
	mode := os.Args[1]
	fs := flag.NewFlagSet(mode, flag.ExitOnError)
	dir := fs.String("dir", "", "world directory (holds base/)")
	node := fs.String("node", "", "node data directory")
	scen := fs.String("scenario", "", "")
	gt := fs.Uint("gt", 0, "genesis time")
	pad := fs.Int("pad", 0, "")
	opsS := fs.String("ops", "", "")
	target := fs.Int("target", 0, "UTXO_WRITING_TIME_TARGET in seconds")
	tear := fs.String("tear", "", "idx|dat: tear the tail of the index / data file before recovering")
	fs.Parse(os.Args[2:])
	sc := loadScenario(*scen)
	w, err := conc.NewWorldExt(sc, *dir, conc.WorldOpts{GenesisTime: uint32(*gt), Pad: *pad, ReuseBase: mode != "mkbase"})
	if err != nil {
		fmt.Fprintln(os.Stderr, "world:", err)
		os.Exit(2)
	}
	utxo.UTXO_WRITING_TIME_TARGET = time.Duration(*target) * time.Second
	ops := strings.Split(*opsS, ",")
	switch mode {
	case "mkbase":
		fmt.Println(`{"ok":true}`)

	case "work":
		if _, err := os.Stat(*node); err != nil {
			if err := w.CloneBase(*node); err != nil {
				fmt.Fprintln(os.Stderr, err)
				os.Exit(2)
			}
		}
		n := w.OpenNode(*node, nil)
		pf := *node + ".progress"
		n, err := runOps(w, n, ops, func(i int) {
			os.WriteFile(pf+".tmp", []byte(strconv.Itoa(i+1)), 0660)
			os.Rename(pf+".tmp", pf)
		})
		if err != nil {
			fmt.Printf("\n{\"ok\":false,\"what\":%q}\n", err.Error())
			os.Exit(3)
		}
		st, pr := snap(n)
		b, _ := json.Marshal(map[string]interface{}{"ok": len(pr) == 0, "state": st, "problems": pr})
		fmt.Println("\n" + string(b))
		// NOTE: no Close - the caller decides (op "C"); process exit here = a crash after the last op

	case "recover":
		rep := &report{Problems: []string{}, Kind: []string{}}
		add := func(kind, s string) { rep.Problems = append(rep.Problems, s); rep.Kind = append(rep.Kind, kind) }
		if b, err := os.ReadFile(*node + ".progress"); err == nil {
			rep.OpsDone, _ = strconv.Atoi(strings.TrimSpace(string(b)))
		}
		switch *tear {
		case "idx":
			if fi, err := os.Stat(filepath.Join(*node, "blockchain.new")); err == nil && fi.Size() >= 136 {
				os.Truncate(filepath.Join(*node, "blockchain.new"), fi.Size()-70)
			}
		case "dat":
			if fi, err := os.Stat(filepath.Join(*node, "blockchain.dat")); err == nil && fi.Size() > 100 {
				os.Truncate(filepath.Join(*node, "blockchain.dat"), fi.Size()-37)
			}
		}
		var n *conc.Node
		func() {
			defer func() {
				if r := recover(); r != nil {
					rep.Panic = fmt.Sprint(r)
				}
			}()
			n = w.OpenNode(*node, nil)
		}()
		if rep.Panic != "" {
			add("reopen-panic", "reopening the data directory panics: "+rep.Panic)
			out(rep)
			return
		}
		st, pr := snap(n)
		rep.Recovered = st
		for _, p := range pr {
			add("recovered-utxo", p)
		}
		// the recovered tip must be a delivered block whose chain replays to exactly this UTXO set
		delivered := map[int]bool{0: true}
		for _, op := range ops {
			if op != "" && op[0] == 'D' {
				b, _ := strconv.Atoi(op[1:])
				delivered[b] = true
			}
		}
		if !delivered[st.Tip] {
			add("recovered-tip", fmt.Sprintf("recovered tip %d was never delivered", st.Tip))
		} else {
			od := *node + ".oracle1"
			w.CloneBase(od)
			o := w.OpenNode(od, nil)
			var path []int
			for b := st.Tip; b > 0; b = sc.Blk[b].Parent {
				path = append([]int{b}, path...)
			}
			okAll := true
			for _, b := range path {
				acc, _, _ := o.Deliver(w.Block(b))
				okAll = okAll && acc
			}
			ost, _ := snap(o)
			o.Close()
			os.RemoveAll(od)
			if !okAll || ost.Tip != st.Tip {
				add("recovered-tip", fmt.Sprintf("recovered tip %d is not a valid chain for an uninterrupted node", st.Tip))
			} else if d := sameUtxo(st.Utxo, ost.Utxo); d != "" {
				add("recovered-utxo", fmt.Sprintf("UTXO set after recovery differs from the replay of tip %d: %s", st.Tip, d))
			}
		}
		// feed the remaining blocks (all of them, in the workload's order), then compare with an uninterrupted run
		var rest []string
		for _, op := range ops {
			if op != "" && op[0] == 'D' {
				rest = append(rest, op)
			}
		}
		func() {
			defer func() {
				if r := recover(); r != nil {
					add("continue-panic", fmt.Sprint("feeding the remaining blocks panics: ", r))
				}
			}()
			n, _ = runOps(w, n, rest, nil)
			// a second process death right after the blocks reached the disk and before any new snapshot: the
			// node must come back to the same state by replaying its block files
			n.Ch.Blocks.Idle()
			mid, _ := snap(n)
			func() {
				defer func() {
					if r := recover(); r != nil {
						add("reopen-panic", fmt.Sprint("second restart (blocks flushed, no new snapshot) panics: ", r))
					}
				}()
				n2 := w.OpenNode(*node, nil) // the first node object is simply abandoned, as a killed process would be
				st2, pr2 := snap(n2)
				for _, p := range pr2 {
					add("second-restart-utxo", p)
				}
				if delivered[st2.Tip] && st2.Tip == mid.Tip {
					if d := sameUtxo(st2.Utxo, mid.Utxo); d != "" {
						add("second-restart-utxo", "UTXO set after a second restart differs from the state before it: "+d)
					}
				} else if st2.Tip != mid.Tip && n.W.HeightOf(st2.Tip) >= n.W.HeightOf(mid.Tip) {
					add("second-restart-tip", fmt.Sprintf("second restart ends on block %d, the node was on %d", st2.Tip, mid.Tip))
				}
				n = n2
			}()
			n, _ = runOps(w, n, []string{"I", "W"}, nil)
			fst, fpr := snap(n)
			rep.Final = fst
			for _, p := range fpr {
				add("final-utxo", p)
			}
		}()
		if rep.Final != nil {
			od := *node + ".oracle2"
			w.CloneBase(od)
			o := w.OpenNode(od, nil)
			o, _ = runOps(w, o, rest, nil)
			ost, _ := snap(o)
			o.Close()
			os.RemoveAll(od)
			if ost.Tip != rep.Final.Tip {
				add("final-tip", fmt.Sprintf("after feeding the remaining blocks the tip is %d, an uninterrupted run ends at %d", rep.Final.Tip, ost.Tip))
			} else if d := sameUtxo(rep.Final.Utxo, ost.Utxo); d != "" {
				add("final-utxo", "final UTXO set differs from the uninterrupted run: "+d)
			}
			// and a clean shutdown + restart reproduces it
			func() {
				defer func() {
					if r := recover(); r != nil {
						add("reopen-panic", fmt.Sprint("clean restart after recovery panics: ", r))
					}
				}()
				if _, err := runOps(w, n, []string{"C"}, nil); err != nil {
					add("clean-restart", err.Error())
				}
			}()
		}
		rep.Recovered.Utxo, rep.Final = nil, stripUtxo(rep.Final)
		out(rep)
	}
}

func stripUtxo(s *state) *state {
	if s != nil {
		s.Utxo = nil
	}
	return s
}

func out(rep *report) {
	b, _ := json.Marshal(rep)
	fmt.Println("\n" + string(b))
}
