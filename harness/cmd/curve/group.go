package main

import (
	"bytes"
	"fmt"
	"math/big"
	"math/rand"
	"sync"

	"github.com/piotrnar/gocoin/lib/secp256k1"

	"verifharness/ref"
)

// groupEnv: numeric values of the named constants of Curve.tla for one instance
type groupEnv struct {
	k *big.Int
}

var (
	two128 = new(big.Int).Lsh(bi(1), 128)
	m256   = new(big.Int).Sub(ref.Two256, bi(1))
	w200   = new(big.Int).Sub(new(big.Int).Lsh(bi(1), 200), bi(1))
)

func (e *groupEnv) formValue(f FormJ) *big.Int {
	v := bi(f.O)
	v.Add(v, new(big.Int).Mul(bi(f.K), e.k))
	v.Add(v, new(big.Int).Mul(bi(f.L), ref.Lambda))
	v.Add(v, new(big.Int).Mul(bi(f.T), two128))
	v.Add(v, new(big.Int).Mul(bi(f.M), m256))
	v.Add(v, new(big.Int).Mul(bi(f.W), w200))
	return v.Mod(v, ref.N)
}

// scalar: the integer actually handed to ECmult / ECmultGen for a scalar name
func (e *groupEnv) scalar(name string) (*big.Int, error) {
	switch name {
	case "s0":
		return bi(0), nil
	case "s1":
		return bi(1), nil
	case "s2":
		return bi(2), nil
	case "s3":
		return bi(3), nil
	case "nm1":
		return new(big.Int).Sub(ref.N, bi(1)), nil
	case "n":
		return new(big.Int).Set(ref.N), nil
	case "np1":
		return new(big.Int).Add(ref.N, bi(1)), nil
	case "k":
		return e.k, nil
	case "lam":
		return ref.Lambda, nil
	case "lamp1":
		return new(big.Int).Add(ref.Lambda, bi(1)), nil
	case "t128":
		return two128, nil
	case "t128m":
		return new(big.Int).Sub(two128, bi(1)), nil
	case "t128p":
		return new(big.Int).Add(two128, bi(1)), nil
	case "m256":
		return m256, nil
	case "w200":
		return w200, nil
	}
	return nil, fmt.Errorf("unknown scalar %q", name)
}

var affForms = map[string]FormJ{"k": {K: 1}, "nk": {K: -1}, "g": {O: 1}, "ng": {O: -1}, "k2": {K: 2}, "inf": {}}

// cache of scalar multiples of G (the reference spends almost all its time there)
var (
	mulCache sync.Map
)

func baseMulCached(v *big.Int) ref.Point {
	key := string(v.Bytes())
	if p, ok := mulCache.Load(key); ok {
		return p.(ref.Point)
	}
	p := ref.BaseMul(v)
	mulCache.Store(key, p)
	return p
}

func setField(f *secp256k1.Field, v *big.Int) { f.SetB32(ref.B32(v)) }

func xyOf(p ref.Point) (xy secp256k1.XY) {
	if p.Inf {
		xy.Infinity = true
		return
	}
	setField(&xy.X, p.X)
	setField(&xy.Y, p.Y)
	return
}

func num(v *big.Int) *secp256k1.Number {
	var n secp256k1.Number
	n.Set(v)
	return &n
}

// affineOf reads a Jacobian register through the reference: (X/Z^2, Y/Z^3) from the normalised raw coordinates.
func affineOf(r *secp256k1.XYZ) (ref.Point, bool) {
	if r.Infinity {
		return ref.Infinity, true
	}
	x, y, z := ref.FromBytes(normBytes(&r.X)), ref.FromBytes(normBytes(&r.Y)), ref.FromBytes(normBytes(&r.Z))
	if z.Sign() == 0 {
		return ref.Infinity, false
	}
	zi := new(big.Int).ModInverse(z, ref.P)
	zi2 := ref.FSqr(zi)
	return ref.Point{X: ref.FMul(x, zi2), Y: ref.FMul(y, ref.FMul(zi2, zi))}, true
}

func ptHex(p ref.Point) string {
	if p.Inf {
		return "infinity"
	}
	return hx(ref.SerializePubKey(p, false))
}

func loadGroup(r *secp256k1.XYZ, e *groupEnv, l GLoad, rng *rand.Rand) (ref.Point, error) {
	p := baseMulCached(e.formValue(l.F))
	switch l.Rep {
	case "inf":
		// infinity flag with arbitrary coordinates: nothing may depend on them
		r.Infinity = true
		r.X.SetB32(rnd32(rng))
		r.Y.SetB32(rnd32(rng))
		r.Z.SetB32(rnd32(rng))
		if !p.Inf {
			return p, fmt.Errorf("load with rep inf and a non-zero form")
		}
	case "aff":
		if p.Inf {
			return p, fmt.Errorf("affine load of the zero form")
		}
		xy := xyOf(p)
		r.SetXY(&xy)
	case "scl":
		if p.Inf {
			return p, fmt.Errorf("scaled load of the zero form")
		}
		c := new(big.Int).Rand(rng, new(big.Int).Sub(ref.P, bi(2)))
		c.Add(c, bi(2))
		c2 := ref.FSqr(c)
		r.Infinity = false
		setField(&r.X, ref.FMul(p.X, c2))
		setField(&r.Y, ref.FMul(p.Y, ref.FMul(c2, c)))
		setField(&r.Z, c)
	default:
		return p, fmt.Errorf("unknown representation %q", l.Rep)
	}
	return p, nil
}

func coordsHex(r *secp256k1.XYZ) map[string]string {
	return map[string]string{"X": limbsHex(r.X.VerifLimbs()), "Y": limbsHex(r.Y.VerifLimbs()), "Z": limbsHex(r.Z.VerifLimbs()), "Infinity": fmt.Sprint(r.Infinity)}
}

func replayGroup(rp *reporter, ln *Line, rng *rand.Rand) {
	sum := rp.sum
	env := &groupEnv{}
	for {
		env.k = ref.FromBytes(rnd32(rng))
		env.k.Mod(env.k, ref.N)
		if env.k.BitLen() > 200 {
			break
		}
	}
	var reg [4]secp256k1.XYZ
	var want [4]ref.Point
	var wantV [4]*big.Int // the scalar of each register: want[i] = wantV[i]*G
	wantV[1], wantV[2], wantV[3] = env.formValue(ln.Ini.G1.F), env.formValue(ln.Ini.G2.F), bi(0)
	var err error
	if want[1], err = loadGroup(&reg[1], env, ln.Ini.G1, rng); err != nil {
		sum.infra("%v", err)
		return
	}
	if want[2], err = loadGroup(&reg[2], env, ln.Ini.G2, rng); err != nil {
		sum.infra("%v", err)
		return
	}
	want[3], _ = loadGroup(&reg[3], env, GLoad{Rep: "inf"}, rng)
	for i := range ln.Steps {
		st := &ln.Steps[i]
		if st.D < 1 || st.D > 3 || st.A < 1 || st.A > 3 || st.B < 0 || st.B > 3 {
			sum.infra("bad register in step %v", *st)
			return
		}
		a, d := &reg[st.A], &reg[st.D]
		bts := map[string]string{"k": hx(ref.B32(env.k)), "step": fmt.Sprintf("%d:%s d=%d a=%d b=%d x=%s na=%s ng=%s", i, st.Op, st.D, st.A, st.B, st.X, st.Na, st.Ng),
			"operand_a": ptHex(want[st.A])}
		for k, v := range coordsHex(a) {
			bts["a."+k] = v
		}
		a0 := *a                       // the input register as it was (the call may overwrite it when d = a)
		var again func(*secp256k1.XYZ) // the same call once more, with the very same operand objects
		var kept []func() string       // operand objects that must still hold their values after the call
		switch st.Op {
		case "Add":
			bts["operand_b"] = ptHex(want[st.B])
			for k, v := range coordsHex(&reg[st.B]) {
				bts["b."+k] = v
			}
			bReg := &reg[st.B]
			a.Add(d, bReg)
			switch {
			case st.A == st.B && st.D != st.A:
				again = func(t *secp256k1.XYZ) { a.Add(t, a) } // one object as both inputs
			case st.D != st.B:
				again = func(t *secp256k1.XYZ) { a0.Add(t, bReg) }
			}
		case "AddXY":
			f, ok := affForms[st.X]
			if !ok {
				sum.infra("unknown affine operand %q", st.X)
				return
			}
			p := baseMulCached(env.formValue(f))
			bts["operand_b"] = ptHex(p)
			xy := xyOf(p)
			if p.Inf {
				xy.X.SetB32(rnd32(rng))
				xy.Y.SetB32(rnd32(rng))
			}
			a.AddXY(d, &xy)
			again = func(t *secp256k1.XYZ) { a0.AddXY(t, &xy) }
			kept = append(kept, func() string {
				if xy.Infinity != p.Inf {
					return "the affine operand's infinity flag changed"
				}
				if !p.Inf && (!bytes.Equal(normBytes(&xy.X), ref.B32(p.X)) || !bytes.Equal(normBytes(&xy.Y), ref.B32(p.Y))) {
					return "the affine operand changed"
				}
				return ""
			})
		case "Double":
			a.Double(d)
			again = func(t *secp256k1.XYZ) { a0.Double(t) }
		case "Neg":
			a.Neg(d)
			again = func(t *secp256k1.XYZ) { a0.Neg(t) }
		case "ECmult":
			na, e1 := env.scalar(st.Na)
			ng, e2 := env.scalar(st.Ng)
			if e1 != nil || e2 != nil {
				sum.infra("scalars: %v %v", e1, e2)
				return
			}
			bts["na"], bts["ng"] = na.Text(16), ng.Text(16)
			naObj, ngObj := num(na), num(ng)
			a.ECmult(d, naObj, ngObj)
			again = func(t *secp256k1.XYZ) { a0.ECmult(t, naObj, ngObj) }
			kept = append(kept, func() string {
				if naObj.Cmp(na) != 0 || !bytes.Equal(naObj.Bytes(), na.Bytes()) {
					return fmt.Sprintf("the scalar na was changed by the call: now %x", naObj.Bytes())
				}
				if ngObj.Cmp(ng) != 0 || !bytes.Equal(ngObj.Bytes(), ng.Bytes()) {
					return fmt.Sprintf("the scalar ng was changed by the call: now %x", ngObj.Bytes())
				}
				return ""
			})
		case "ECmultGen":
			s, e1 := env.scalar(st.Na)
			if e1 != nil {
				sum.infra("scalar: %v", e1)
				return
			}
			bts["scalar"] = s.Text(16)
			sObj := num(s)
			secp256k1.ECmultGen(d, sObj)
			again = func(t *secp256k1.XYZ) { secp256k1.ECmultGen(t, sObj) }
			kept = append(kept, func() string {
				if sObj.Cmp(s) != 0 || !bytes.Equal(sObj.Bytes(), s.Bytes()) {
					return fmt.Sprintf("the scalar was changed by the call: now %x", sObj.Bytes())
				}
				return ""
			})
		case "Lift":
			// XY.SetXO with the abscissa of the operand; the behaviour continues only if its assumption about
			// which of P, -P has the requested parity is true for this k
			pa := want[st.A]
			if pa.Inf {
				sum.infra("lift of infinity")
				return
			}
			expect := pa
			if pa.YOdd() != st.Odd {
				expect = pa.Neg()
			}
			model := baseMulCached(env.formValue(st.F))
			var fx secp256k1.Field
			setField(&fx, pa.X)
			var xy secp256k1.XY
			xy.SetXO(&fx, st.Odd)
			sum.add(0, 1, 1)
			got := ref.Point{X: ref.FromBytes(normBytes(&xy.X)), Y: ref.FromBytes(normBytes(&xy.Y))}
			if xy.Infinity || !got.Equal(expect) {
				bts["got"], bts["want"] = ptHex(got), ptHex(expect)
				rp.fail(i, "C08:group:SetXO:point", "XY.SetXO does not return the point with the given abscissa and parity", bts)
				return
			}
			if !model.Equal(expect) {
				sum.inc(sum.Skipped, "lift parity assumption does not hold for this k")
				return
			}
			d.SetXY(&xy)
		case "Observe":
			sum.add(0, 1, 0)
			if !observeGroup(rp, i, a, want[st.A], wantV[st.A], bts, false) {
				return
			}
			continue
		default:
			sum.infra("unknown group op %q", st.Op)
			return
		}
		sum.add(0, 1, 0)
		// the model's prediction: the form of the destination and whether it is the point at infinity
		v := env.formValue(st.F)
		if (v.Sign() == 0) != st.F.isZero() || st.Inf != st.F.isZero() {
			sum.infra("form %+v: model says zero=%v inf=%v, numeric value %x", st.F, st.F.isZero(), st.Inf, v)
			return
		}
		wp := baseMulCached(v)
		want[st.D], wantV[st.D] = wp, v
		for k, v := range coordsHex(d) {
			bts["r."+k] = v
		}
		bts["want"] = ptHex(wp)
		sum.add(0, 0, 1)
		if d.Infinity != st.Inf {
			rp.fail(i, "C08:group:"+st.Op+":infinity-flag", fmt.Sprintf("XYZ.%s: Infinity = %v, the group law gives %s", st.Op, d.Infinity, ptHex(wp)), bts)
			return
		}
		if !st.Inf {
			got, ok := affineOf(d)
			sum.add(0, 0, 1)
			if !ok || !got.Equal(wp) {
				bts["got"] = ptHex(got)
				rp.fail(i, "C08:group:"+st.Op+":point", "XYZ."+st.Op+" does not return the point defined by the group law", bts)
				return
			}
			// every coordinate stays within the magnitude the group layer relies on (Curve.tla, GroupMagMax)
			sum.add(0, 0, 1)
			if !withinMagnitude(d.X.VerifLimbs(), 8) || !withinMagnitude(d.Y.VerifLimbs(), 8) || !withinMagnitude(d.Z.VerifLimbs(), 8) {
				rp.fail(i, "C08:group:"+st.Op+":magnitude", "a coordinate of the result exceeds magnitude 8", bts)
				return
			}
			// the conversion / serialisation API on every result
			if !observeGroup(rp, i, d, wp, v, bts, true) {
				return
			}
		}
		// operands are values: every other register and every operand object still denotes what it did
		sum.add(0, 0, 1)
		changed := ""
		for r := 1; r <= 3 && changed == ""; r++ {
			if r == st.D {
				continue
			}
			if reg[r].Infinity != want[r].Inf {
				changed = fmt.Sprintf("register %d: infinity flag changed", r)
			} else if !want[r].Inf {
				if g, ok := affineOf(&reg[r]); !ok || !g.Equal(want[r]) {
					changed = fmt.Sprintf("register %d no longer denotes %s", r, ptHex(want[r]))
				}
			}
		}
		for _, f := range kept {
			if changed == "" {
				changed = f()
			}
		}
		if changed != "" {
			rp.fail(i, "C08:group:"+st.Op+":operand-changed", "XYZ."+st.Op+" modified an input that is not its destination: "+changed, bts)
			return
		}
		// the same call again with the very same operand objects
		if st.Reuse && again != nil {
			var tmp secp256k1.XYZ
			again(&tmp)
			sum.add(0, 1, 1)
			g2, ok2 := affineOf(&tmp)
			if tmp.Infinity != st.Inf || (!st.Inf && (!ok2 || !g2.Equal(wp))) {
				bts["second_result"] = ptHex(g2)
				rp.fail(i, "C08:group:"+st.Op+":reuse", "XYZ."+st.Op+" called a second time with the same operand objects does not return the same point", bts)
				return
			}
		}

	}
}

// observeGroup: the read-only API on a register: IsValid, SetXYZ, GetPublicKey (both lengths), XY.Neg, XY.Bytes,
// DecompressPoint, ParsePubkey round trip.
// light = only what needs no further scalar multiplication by the reference (run after every step).
func observeGroup(rp *reporter, i int, a *secp256k1.XYZ, want ref.Point, v *big.Int, bts map[string]string, light bool) bool {
	sum := rp.sum
	sum.add(0, 0, 1)
	if a.IsValid() != !want.Inf {
		rp.fail(i, "C08:group:IsValid", fmt.Sprintf("XYZ.IsValid = %v for %s", a.IsValid(), ptHex(want)), bts)
		return false
	}
	if want.Inf {
		return true
	}
	cp := *a
	var xy secp256k1.XY
	xy.SetXYZ(&cp)
	// SetXYZ rescales its argument in place (Z = 1): it must still be the same point
	sum.add(0, 0, 1)
	if g, ok := affineOf(&cp); cp.Infinity || !ok || !g.Equal(want) {
		rp.fail(i, "C08:group:SetXYZ:operand-changed", "XY.SetXYZ left its XYZ argument denoting another point", bts)
		return false
	}
	wu, wc := ref.SerializePubKey(want, false), ref.SerializePubKey(want, true)
	var u [65]byte
	var c [33]byte
	x1 := xy
	x1.GetPublicKey(u[:])
	x2 := xy
	x2.GetPublicKey(c[:])
	sum.add(0, 0, 4)
	bts["want"] = hx(wu)
	if xy.Infinity || !bytes.Equal(u[:], wu) {
		bts["got"] = hx(u[:])
		rp.fail(i, "C08:group:SetXYZ:point", "XY.SetXYZ + GetPublicKey(65) is not the affine point", bts)
		return false
	}
	if !bytes.Equal(c[:], wc) {
		bts["got"] = hx(c[:])
		rp.fail(i, "C08:group:GetPublicKey:compressed-prefix-parity", "XY.GetPublicKey(33 bytes) states the wrong parity of y", bts)
		return false
	}
	if !xy.IsValid() {
		rp.fail(i, "C08:group:XY.IsValid", "XY.IsValid is false for a curve point", bts)
		return false
	}
	var ng secp256k1.XY
	xy.Neg(&ng)
	ng.GetPublicKey(u[:])
	if !bytes.Equal(u[:], ref.SerializePubKey(want.Neg(), false)) {
		bts["got"] = hx(u[:])
		rp.fail(i, "C08:group:XY.Neg:point", "XY.Neg is not the inverse point", bts)
		return false
	}
	if light {
		return true
	}
	// the endomorphism: (beta*x, y) = lambda*P
	var lam secp256k1.XYZ
	cl := *a
	cl.VerifMulLambda(&lam)
	wl := baseMulCached(ref.ModN(new(big.Int).Mul(v, ref.Lambda)))
	sum.add(0, 0, 2)
	if gl, ok := affineOf(&lam); !ok || lam.Infinity || !gl.Equal(wl) {
		bts["got"], bts["want"] = ptHex(gl), ptHex(wl)
		rp.fail(i, "C08:group:mul_lambda:point", "XYZ.mul_lambda is not multiplication by lambda", bts)
		return false
	}
	// affine addition of the generator
	pg := xy
	gxy := xyOf(ref.G)
	pg.AddXY(&gxy)
	wg := baseMulCached(ref.ModN(new(big.Int).Add(v, bi(1))))
	if wg.Inf != pg.Infinity {
		rp.fail(i, "C08:group:XY.AddXY:infinity-flag", "XY.AddXY: wrong infinity flag", bts)
		return false
	}
	if !wg.Inf {
		pg.GetPublicKey(u[:])
		if !bytes.Equal(u[:], ref.SerializePubKey(wg, false)) {
			bts["got"], bts["want"] = hx(u[:]), ptHex(wg)
			rp.fail(i, "C08:group:XY.AddXY:point", "XY.AddXY(G) is not P + G", bts)
			return false
		}
	}
	// decompression from x and the parity
	var y [32]byte
	secp256k1.DecompressPoint(ref.B32(want.X), want.YOdd(), y[:])
	sum.add(0, 0, 2)
	if !bytes.Equal(y[:], ref.B32(want.Y)) {
		bts["got"] = hx(y[:])
		rp.fail(i, "C08:group:DecompressPoint", "DecompressPoint does not return the y with the requested parity", bts)
		return false
	}
	var back secp256k1.XY
	if !back.ParsePubkey(wc) {
		rp.fail(i, "C08:group:ParsePubkey", "ParsePubkey refuses a valid compressed key", bts)
		return false
	}
	back.GetPublicKey(u[:])
	if !bytes.Equal(u[:], wu) {
		bts["got"] = hx(u[:])
		rp.fail(i, "C08:group:ParsePubkey:point", "ParsePubkey(compressed) is not the point", bts)
		return false
	}
	return true
}
