package main

import (
	"bytes"
	"fmt"
	"math/big"
	"math/rand"
	"strconv"
	"strings"

	"github.com/piotrnar/gocoin/lib/secp256k1"

	"verifharness/ref"
)

const (
	limbMax = uint64(1)<<52 - 1
	topMax  = uint64(1)<<48 - 1
)

var pLimbs = [5]uint64{0xFFFFEFFFFFC2F, 0xFFFFFFFFFFFFF, 0xFFFFFFFFFFFFF, 0xFFFFFFFFFFFFF, 0x0FFFFFFFFFFFF}

// limbsValue: the integer a 5x52 representation stands for
func limbsValue(n [5]uint64) *big.Int {
	v := new(big.Int)
	for i := 4; i >= 0; i-- {
		v.Lsh(v, 52)
		v.Add(v, new(big.Int).SetUint64(n[i]))
	}
	return v
}

// fieldEnv: the numeric meaning of the operand names for one instance, and observed values of results the
// property does not define (they replace the sub-expression in later evaluations)
type fieldEnv struct {
	mid, mid2 *big.Int
	override  map[string]*big.Int
}

func newFieldEnv(rng *rand.Rand) *fieldEnv {
	e := &fieldEnv{override: map[string]*big.Int{}}
	e.mid = new(big.Int).Rand(rng, ref.P)
	e.mid2 = new(big.Int).Rand(rng, ref.P)
	return e
}

// operand returns the bytes (for SetB32) or limbs (raw setter) or integer of a named operand and its integer value.
func (e *fieldEnv) operand(name string) (kind byte, b32 []byte, limbs [5]uint64, k uint64, val *big.Int, err error) {
	switch {
	case strings.HasPrefix(name, "B:"):
		var v *big.Int
		switch name[2:] {
		case "zero":
			v = bi(0)
		case "one":
			v = bi(1)
		case "pm1":
			v = new(big.Int).Sub(ref.P, bi(1))
		case "mid":
			v = e.mid
		case "mid2":
			v = e.mid2
		case "p":
			v = ref.P
		case "pp1":
			v = new(big.Int).Add(ref.P, bi(1))
		case "max":
			v = new(big.Int).Sub(ref.Two256, bi(1))
		default:
			return 0, nil, limbs, 0, nil, fmt.Errorf("unknown byte operand %q", name)
		}
		return 'B', ref.B32(v), limbs, 0, v, nil
	case strings.HasPrefix(name, "W:"):
		parts := strings.Split(name, ":")
		if len(parts) != 3 {
			return 0, nil, limbs, 0, nil, fmt.Errorf("bad raw operand %q", name)
		}
		m, err := strconv.ParseUint(parts[2], 10, 32)
		if err != nil {
			return 0, nil, limbs, 0, nil, err
		}
		switch parts[1] {
		case "lim":
			for i := 0; i < 4; i++ {
				limbs[i] = 2 * m * limbMax
			}
			limbs[4] = 2 * m * topMax
		case "kp":
			for i := 0; i < 5; i++ {
				limbs[i] = 2 * m * pLimbs[i]
			}
		default:
			return 0, nil, limbs, 0, nil, fmt.Errorf("bad raw operand %q", name)
		}
		return 'W', nil, limbs, 0, limbsValue(limbs), nil
	case strings.HasPrefix(name, "I:"):
		k, err := strconv.ParseUint(name[2:], 10, 32)
		if err != nil {
			return 0, nil, limbs, 0, nil, err
		}
		return 'I', nil, limbs, k, new(big.Int).SetUint64(k), nil
	}
	return 0, nil, limbs, 0, nil, fmt.Errorf("unknown operand %q", name)
}

// eval evaluates a model expression modulo p.
func (e *fieldEnv) eval(s string) (*big.Int, error) {
	v, rest, err := e.parse(s)
	if err != nil {
		return nil, err
	}
	if rest != "" {
		return nil, fmt.Errorf("trailing %q in expression", rest)
	}
	return v, nil
}

func (e *fieldEnv) parse(s string) (*big.Int, string, error) {
	// operand?
	if len(s) > 1 && s[1] == ':' {
		end := strings.IndexAny(s, ",)")
		if end < 0 {
			end = len(s)
		}
		_, _, _, _, v, err := e.operand(s[:end])
		if err != nil {
			return nil, "", err
		}
		return new(big.Int).Mod(v, ref.P), s[end:], nil
	}
	open := strings.IndexByte(s, '(')
	if open <= 0 {
		return nil, "", fmt.Errorf("cannot parse %q", s)
	}
	fn := s[:open]
	// find the matching parenthesis to know the text of this call (for overrides)
	depth, close := 0, -1
	for i := open; i < len(s); i++ {
		if s[i] == '(' {
			depth++
		} else if s[i] == ')' {
			depth--
			if depth == 0 {
				close = i
				break
			}
		}
	}
	if close < 0 {
		return nil, "", fmt.Errorf("unbalanced %q", s)
	}
	if v, ok := e.override[s[:close+1]]; ok {
		return v, s[close+1:], nil
	}
	var args []*big.Int
	rest := s[open+1:]
	for {
		v, r, err := e.parse(rest)
		if err != nil {
			return nil, "", err
		}
		args = append(args, v)
		if r == "" {
			return nil, "", fmt.Errorf("unterminated call in %q", s)
		}
		if r[0] == ',' {
			rest = r[1:]
			continue
		}
		if r[0] == ')' {
			rest = r[1:]
			break
		}
		return nil, "", fmt.Errorf("unexpected %q", r)
	}
	need := func(n int) error {
		if len(args) != n {
			return fmt.Errorf("%s takes %d arguments", fn, n)
		}
		return nil
	}
	switch {
	case fn == "mul":
		if err := need(2); err != nil {
			return nil, "", err
		}
		return ref.FMul(args[0], args[1]), rest, nil
	case fn == "add":
		if err := need(2); err != nil {
			return nil, "", err
		}
		return ref.FAdd(args[0], args[1]), rest, nil
	case fn == "sqr":
		if err := need(1); err != nil {
			return nil, "", err
		}
		return ref.FSqr(args[0]), rest, nil
	case fn == "inv":
		if err := need(1); err != nil {
			return nil, "", err
		}
		return ref.FInv(args[0]), rest, nil
	case fn == "sqrt":
		if err := need(1); err != nil {
			return nil, "", err
		}
		return ref.FSqrtCandidate(args[0]), rest, nil
	case strings.HasPrefix(fn, "neg"):
		if err := need(1); err != nil {
			return nil, "", err
		}
		return ref.FNeg(args[0]), rest, nil
	case strings.HasPrefix(fn, "mulint"):
		if err := need(1); err != nil {
			return nil, "", err
		}
		k, err := strconv.ParseInt(fn[6:], 10, 32)
		if err != nil {
			return nil, "", err
		}
		return ref.FMul(args[0], bi(k)), rest, nil
	}
	return nil, "", fmt.Errorf("unknown function %q", fn)
}

func loadField(f *secp256k1.Field, e *fieldEnv, name string) error {
	kind, b32, limbs, k, _, err := e.operand(name)
	if err != nil {
		return err
	}
	switch kind {
	case 'B':
		f.SetB32(b32)
	case 'W':
		f.VerifSetLimbs(limbs)
	case 'I':
		f.SetInt(k)
	}
	return nil
}

func normBytes(f *secp256k1.Field) []byte {
	c := *f
	c.Normalize()
	var b [32]byte
	c.GetB32(b[:])
	return b[:]
}

// withinMagnitude: every limb <= 2m(2^52-1), top limb <= 2m(2^48-1)
func withinMagnitude(n [5]uint64, m int) bool {
	for i := 0; i < 4; i++ {
		if n[i] > 2*uint64(m)*limbMax {
			return false
		}
	}
	return n[4] <= 2*uint64(m)*topMax
}

func canonicalLimbs(n [5]uint64) bool {
	for i := 0; i < 4; i++ {
		if n[i] > limbMax {
			return false
		}
	}
	return n[4] <= topMax
}

func limbsHex(n [5]uint64) string {
	return fmt.Sprintf("%x,%x,%x,%x,%x", n[0], n[1], n[2], n[3], n[4])
}

func replayField(rp *reporter, ln *Line, rng *rand.Rand) {
	sum := rp.sum
	env := newFieldEnv(rng)
	var reg [4]secp256k1.Field // 1..3
	if err := loadField(&reg[1], env, ln.Ini.R1); err != nil {
		sum.infra("%v", err)
		return
	}
	if err := loadField(&reg[2], env, ln.Ini.R2); err != nil {
		sum.infra("%v", err)
		return
	}
	reg[3].SetInt(0)
	exprOf := [4]string{"", ln.Ini.R1, ln.Ini.R2, "I:0"}
	ctx := func(i int, st *Step) map[string]string {
		return map[string]string{"r1": ln.Ini.R1, "r2": ln.Ini.R2, "mid": hx(ref.B32(env.mid)), "mid2": hx(ref.B32(env.mid2)),
			"expr": st.E, "step": fmt.Sprintf("%d:%s d=%d a=%d b=%d k=%d", i, st.Op, st.D, st.A, st.B, st.K)}
	}
	for i := range ln.Steps {
		st := &ln.Steps[i]
		if st.D < 1 || st.D > 3 || st.A < 1 || st.A > 3 || st.B < 0 || st.B > 3 {
			sum.infra("bad register in step %v", *st)
			return
		}
		a, d := &reg[st.A], &reg[st.D]
		before := a.VerifLimbs()
		held := [4][]byte{nil, normBytes(&reg[1]), normBytes(&reg[2]), normBytes(&reg[3])}
		observed, isObserver := false, false
		var got32 []byte
		switch st.Op {
		case "Normalize":
			d.Normalize()
		case "Mul":
			a.Mul(d, &reg[st.B])
		case "Sqr":
			a.Sqr(d)
		case "Negate":
			a.Negate(d, uint64(st.K))
		case "MulInt":
			d.MulInt(uint64(st.K))
		case "SetAdd":
			d.SetAdd(a)
		case "Inv":
			a.Inv(d)
		case "InvVar":
			a.InvVar(d)
		case "Sqrt":
			a.Sqrt(d)
		case "IsOdd":
			observed, isObserver = a.IsOdd(), true
		case "IsZero":
			observed, isObserver = a.IsZero(), true
		case "Equals":
			observed, isObserver = a.Equals(&reg[st.B]), true
		case "GetB32":
			got32 = make([]byte, 32)
			a.GetB32(got32)
			isObserver = true
		default:
			sum.infra("unknown field op %q", st.Op)
			return
		}
		sum.add(0, 1, 1)
		// operands are values: no register other than the destination may change (an observer has no destination)
		for r := 1; r <= 3; r++ {
			if (isObserver || r != st.D) && !bytes.Equal(normBytes(&reg[r]), held[r]) {
				rp.fail(i, "C08:field:"+st.Op+":operand-changed", fmt.Sprintf("Field.%s changed the value of register %d, which is not its destination", st.Op, r),
					map[string]string{"r1": ln.Ini.R1, "r2": ln.Ini.R2, "expr": st.E, "step": fmt.Sprintf("%d:%s d=%d a=%d b=%d", i, st.Op, st.D, st.A, st.B), "before": hx(held[r]), "after": hx(normBytes(&reg[r]))})
				return
			}
		}
		if !isObserver {
			exprOf[st.D] = st.E
		}
		want, err := env.eval(st.E)
		if err != nil {
			sum.infra("expression %q: %v", st.E, err)
			return
		}
		bts := ctx(i, st)
		bts["operand_limbs"] = limbsHex(before)
		// a result the property does not define: the square root of a non-residue
		if st.Op == "Inv" || st.Op == "InvVar" || st.Op == "Sqrt" {
			arg, err := env.eval(st.E[strings.IndexByte(st.E, '(')+1 : len(st.E)-1])
			if err != nil {
				sum.infra("argument of %q: %v", st.E, err)
				return
			}
			got := ref.FromBytes(normBytes(d))
			switch {
			case st.Op != "Sqrt" && arg.Sign() == 0:
				// a^(p-2) of zero is zero: judged as such (both Inv and InvVar promise it, libsecp256k1 documents it)
				sum.inc(sum.Unjudged, "inverse of zero (expected 0)")
			case st.Op == "Sqrt" && !ref.IsQR(arg):
				sum.inc(sum.Unjudged, "square root of a non-residue")
				env.override[st.E] = got
				want = got
			case st.Op == "Sqrt":
				// either root is a square root
				sum.add(0, 0, 1)
				if ref.FSqr(got).Cmp(arg) != 0 {
					bts["got"], bts["arg"] = hx(ref.B32(got)), hx(ref.B32(arg))
					rp.fail(i, "C08:field:Sqrt:value", "Field.Sqrt of a square does not square back to its argument", bts)
					return
				}
				env.override[st.E] = got
				want = got
			}
		}
		if st.Z && want.Sign() != 0 {
			sum.infra("model says %q is zero, reference says %x", st.E, want)
			return
		}
		w32 := ref.B32(want)
		if isObserver {
			sum.add(0, 0, 1)
			switch st.Op {
			case "IsOdd":
				if observed != (want.Bit(0) == 1) {
					rp.fail(i, "C08:field:IsOdd", fmt.Sprintf("Field.IsOdd of a normalised element = %v, value %x", observed, want), bts)
				}
			case "IsZero":
				if observed != (want.Sign() == 0) {
					rp.fail(i, "C08:field:IsZero", fmt.Sprintf("Field.IsZero of a normalised element = %v, value %x", observed, want), bts)
				}
			case "Equals":
				wb, err := env.eval(exprOf[st.B])
				if err != nil {
					sum.infra("expression %q: %v", exprOf[st.B], err)
					return
				}
				if observed != (want.Cmp(wb) == 0) {
					rp.fail(i, "C08:field:Equals", fmt.Sprintf("Field.Equals of normalised elements = %v, values %x and %x", observed, want, wb), bts)
				}
			case "GetB32":
				if !bytes.Equal(got32, w32) {
					bts["got"], bts["want"] = hx(got32), hx(w32)
					rp.fail(i, "C08:field:GetB32", "Field.GetB32 of a normalised element is not the canonical encoding of its value", bts)
				}
			}
			continue
		}
		limbs := d.VerifLimbs()
		bts["result_limbs"] = limbsHex(limbs)
		// 1. the value
		sum.add(0, 0, 1)
		if g := normBytes(d); !bytes.Equal(g, w32) {
			bts["got"], bts["want"] = hx(g), hx(w32)
			rp.fail(i, "C08:field:"+st.Op+":value", "Field."+st.Op+" does not return the value defined by arithmetic modulo p", bts)
			return
		}
		// 2. the representation: magnitude and normalised flag as the model tracks them
		sum.add(0, 0, 1)
		if st.M == 0 {
			if limbs != [5]uint64{} {
				rp.fail(i, "C08:field:"+st.Op+":magnitude", "representation exceeds the magnitude the contract promises (0)", bts)
				return
			}
		} else if !withinMagnitude(limbs, st.M) {
			rp.fail(i, "C08:field:"+st.Op+":magnitude", fmt.Sprintf("representation exceeds the magnitude the contract promises (%d)", st.M), bts)
			return
		}
		if st.Nz {
			sum.add(0, 0, 1)
			var direct [32]byte
			d.GetB32(direct[:])
			if !canonicalLimbs(limbs) || !bytes.Equal(direct[:], w32) {
				bts["got"], bts["want"] = hx(direct[:]), hx(w32)
				rp.fail(i, "C08:field:"+st.Op+":normalised", "result that should be normalised is not the canonical representation", bts)
				return
			}
		}
	}
}
