// curve: conformance driver binding spec/Curve.tla (field / group sequencer, table index rule) to lib/secp256k1.
//
//	curve selftest
//	    self-test of the reference (harness/ref) against published vectors.
//	curve replay -in <lines> -seed N -inst K -workers N
//	    every line is {"ini":{kind,r1,r2,g1,g2},"steps":[...]} exported by CurveGen: the initial loads and a
//	    sequence of steps, each with the model's prediction for the register it wrote / observed.
//	      field  (ini.kind = "field"): real registers are secp256k1.Field; after every step the reference
//	             evaluates the model's EXPRESSION modulo p and the driver compares the normalised bytes, checks
//	             the limbs against the model's MAGNITUDE (limb <= 2m(2^52-1), top limb <= 2m(2^48-1)), the
//	             normalised flag (canonical limbs, value < p) and the observers' answers.
//	      group  (ini.kind = "group"): real registers are secp256k1.XYZ; the reference evaluates the model's
//	             linear FORM (numeric values of k, lambda, 2^128, ... per instance) and multiplies G by it; the
//	             driver compares the infinity flag and the affine point (X/Z^2, Y/Z^3 computed by the reference
//	             from the raw coordinates), and the observers (SetXYZ, GetPublicKey, Neg, IsValid, DecompressPoint).
//	curve tables -in <lines> -every N -workers N
//	    every line is {"table","i","j","scalar":{c,sh,neg,sum}}: the embedded table entry must be scalar*G.
//	curve limbs -in <lines> -seed N -workers N
//	    every line is {"l":[5 symbolic limb values],"v":{kind,c},"m":magnitude,"ops":[...]}: the raw limb pattern is
//	    fed through the verif-only setter to every operation the model allows at that magnitude.
//	curve lift -n N -seed N -workers N
//	    decompression (SetXO, ParsePubkey, ParseXOnlyPubkey, DecompressPoint, RecoverPublicKey) of every point of
//	    two runs of n consecutive multiples of G (k = 1..n and a seeded start).
//	curve sweep -n N -seed N -workers N
//	    arithmetic-progression sweeps of ECmultGen / BaseMultiply / Multiply / BaseMultiplyAdd / GetPublicKey and
//	    random ECmult against the reference; the wNAF and lambda-split identities on the real helpers.
//
// Output: one JSON line per failure, then a summary line.  "infra" = the model and the reference disagree
// (a form the model calls zero is not, an expression cannot be parsed): broken machinery, never a verdict.
package main

import (
	"crypto/sha256"
	"encoding/binary"
	"encoding/hex"
	"encoding/json"
	"flag"
	"fmt"
	"math/big"
	"math/rand"
	"os"
	"sort"
	"strings"
	"sync"

	"verifharness/ref"
	"verifharness/vio"
)

type Fail struct {
	Ok    bool              `json:"ok"`
	Sig   string            `json:"sig"`
	What  string            `json:"what"`
	Raw   string            `json:"raw,omitempty"`
	Inst  int               `json:"inst"`
	Step  int               `json:"step"`
	Bytes map[string]string `json:"bytes,omitempty"`
}

type Summary struct {
	mu        sync.Mutex
	Lines     int            `json:"lines"`
	Cases     int            `json:"cases"`  // (line, instance) pairs replayed
	Steps     int            `json:"steps"`  // operations executed on the real code
	Checks    int            `json:"checks"` // individual comparisons
	Fail      int            `json:"fail"`
	Infra     []string       `json:"infra"`
	Ops       map[string]int `json:"ops"`      // last-step operation -> count
	Skipped   map[string]int `json:"skipped"`  // behaviours cut short (lift parity assumption false for this k, ...)
	Unjudged  map[string]int `json:"unjudged"` // results the property does not define (sqrt of a non-residue, inverse of 0)
	Distinct  map[string]int `json:"-"`
	NonTriv   int            `json:"distinct_nontrivial"`
	Hits      map[string]int `json:"hits,omitempty"`
	Samples   []interface{}  `json:"samples,omitempty"`
	IsSummary bool           `json:"summary"`
}

func newSummary() *Summary {
	return &Summary{Ops: map[string]int{}, Skipped: map[string]int{}, Unjudged: map[string]int{}, Distinct: map[string]int{}, Hits: map[string]int{}, IsSummary: true}
}

func (s *Summary) inc(m map[string]int, k string) { s.mu.Lock(); m[k]++; s.mu.Unlock() }
func (s *Summary) add(cases, steps, checks int) {
	s.mu.Lock()
	s.Cases += cases
	s.Steps += steps
	s.Checks += checks
	s.mu.Unlock()
}
func (s *Summary) infra(f string, a ...interface{}) {
	s.mu.Lock()
	if len(s.Infra) < 20 {
		s.Infra = append(s.Infra, fmt.Sprintf(f, a...))
	}
	s.mu.Unlock()
}
func (s *Summary) sample(v interface{}) {
	s.mu.Lock()
	if len(s.Samples) < 3 {
		s.Samples = append(s.Samples, v)
	}
	s.mu.Unlock()
}

type reporter struct {
	out  *vio.Out
	sum  *Summary
	raw  string
	inst int
}

var (
	repMu sync.Mutex
	fails []Fail
)

// fail records one failure; flushFails emits, per signature, the five smallest by (line, instance, step) so that
// the representatives written to the replay files do not depend on goroutine scheduling.
func (r *reporter) fail(step int, sig, what string, bts map[string]string) {
	r.sum.mu.Lock()
	r.sum.Fail++
	r.sum.Hits[sig]++
	r.sum.mu.Unlock()
	cp := map[string]string{}
	for k, v := range bts {
		cp[k] = v
	}
	repMu.Lock()
	fails = append(fails, Fail{Ok: false, Sig: sig, What: what, Raw: r.raw, Inst: r.inst, Step: step, Bytes: cp})
	repMu.Unlock()
}

func flushFails(out *vio.Out) {
	repMu.Lock()
	defer repMu.Unlock()
	sort.SliceStable(fails, func(i, j int) bool {
		a, b := &fails[i], &fails[j]
		if a.Sig != b.Sig {
			return a.Sig < b.Sig
		}
		if a.Raw != b.Raw {
			return a.Raw < b.Raw
		}
		if a.Inst != b.Inst {
			return a.Inst < b.Inst
		}
		return a.Step < b.Step
	})
	n := 0
	for i := range fails {
		if i > 0 && fails[i].Sig == fails[i-1].Sig {
			n++
		} else {
			n = 0
		}
		if n < 5 {
			out.Put(fails[i])
		}
	}
	fails = nil
}

func rngFor(seed int64, key string, inst int) *rand.Rand {
	h := sha256.New()
	var b [16]byte
	binary.LittleEndian.PutUint64(b[:8], uint64(seed))
	binary.LittleEndian.PutUint64(b[8:], uint64(inst))
	h.Write(b[:])
	h.Write([]byte(key))
	s := h.Sum(nil)
	return rand.New(rand.NewSource(int64(binary.LittleEndian.Uint64(s[:8]))))
}

func rnd32(r *rand.Rand) []byte { b := make([]byte, 32); r.Read(b); return b }
func hx(b []byte) string        { return hex.EncodeToString(b) }
func bi(v int64) *big.Int       { return big.NewInt(v) }

func safely(f func()) (p string) {
	defer func() {
		if e := recover(); e != nil {
			p = fmt.Sprint(e)
		}
	}()
	f()
	return ""
}

func main() {
	if len(os.Args) < 2 {
		fmt.Fprintln(os.Stderr, "usage: curve selftest|replay|tables|limbs|lift|sweep ...")
		os.Exit(2)
	}
	fs := flag.NewFlagSet(os.Args[1], flag.ExitOnError)
	in := fs.String("in", "-", "exported lines")
	seed := fs.Int64("seed", 1, "seed")
	inst := fs.Int("inst", 1, "instances per line")
	only := fs.Int("only", -1, "replay only this instance")
	workers := fs.Int("workers", 8, "workers")
	every := fs.Int("every", 1, "tables: check every n-th entry")
	n := fs.Int("n", 10000, "sweep length")
	fs.Parse(os.Args[2:])
	out := vio.NewOut()
	defer out.Flush()
	switch os.Args[1] {
	case "selftest":
		fails, cnt := ref.SelfTest()
		sort.Strings(fails)
		out.Put(map[string]interface{}{"summary": true, "selftest": true, "checks": cnt, "fails": fails})
	case "replay":
		replay(out, *in, *seed, *inst, *only, *workers)
	case "tables":
		tables(out, *in, *every, *workers)
	case "sweep":
		sweep(out, *seed, *n, *workers)
	case "limbs":
		limbs(out, *in, *seed, *workers)
	case "lift":
		lift(out, *seed, *n, *workers)
	default:
		fmt.Fprintln(os.Stderr, "unknown command", os.Args[1])
		os.Exit(2)
	}
}

// ---------------------------------------------------------------- line format

type FormJ struct {
	O int64 `json:"o"`
	K int64 `json:"k"`
	L int64 `json:"l"`
	T int64 `json:"t"`
	M int64 `json:"m"`
	W int64 `json:"w"`
}

func (f FormJ) isZero() bool { return f == FormJ{} }

type GLoad struct {
	F   FormJ  `json:"f"`
	Rep string `json:"rep"`
}

type Step struct {
	Op string `json:"op"`
	D  int    `json:"d"`
	A  int    `json:"a"`
	B  int    `json:"b"`
	// field
	K  int64  `json:"k"`
	E  string `json:"e"`
	M  int    `json:"m"`
	Nz bool   `json:"nz"`
	Z  bool   `json:"z"`
	// group
	X     string `json:"x"`
	Na    string `json:"na"`
	Ng    string `json:"ng"`
	Odd   bool   `json:"odd"`
	Sg    int64  `json:"sg"`
	F     FormJ  `json:"f"`
	Inf   bool   `json:"inf"`
	Reuse bool   `json:"reuse"`
}

type Line struct {
	Ini struct {
		Kind string `json:"kind"`
		R1   string `json:"r1"`
		R2   string `json:"r2"`
		G1   GLoad  `json:"g1"`
		G2   GLoad  `json:"g2"`
	} `json:"ini"`
	Steps []Step `json:"steps"`
}

func replay(out *vio.Out, in string, seed int64, inst, only, workers int) {
	sum := newSummary()
	jobs := make(chan []byte, 1024)
	go func() {
		if err := vio.ReadLines(in, func(n int, line []byte) error {
			jobs <- append([]byte(nil), line...)
			return nil
		}); err != nil {
			sum.infra("reading %s: %v", in, err)
		}
		close(jobs)
	}()
	vio.Pool(workers, jobs, func(w int, job []byte) {
		var ln Line
		if err := json.Unmarshal(job, &ln); err != nil {
			sum.infra("bad line: %v", err)
			return
		}
		raw := strings.TrimSpace(string(job))
		sum.mu.Lock()
		sum.Lines++
		sum.mu.Unlock()
		if len(ln.Steps) == 0 {
			sum.infra("line without steps")
			return
		}
		last := ln.Steps[len(ln.Steps)-1]
		sum.inc(sum.Ops, ln.Ini.Kind+":"+last.Op)
		for k := 0; k < inst; k++ {
			if only >= 0 && k != only {
				continue
			}
			rp := &reporter{out: out, sum: sum, raw: raw, inst: k}
			rng := rngFor(seed, raw, k)
			var p string
			switch ln.Ini.Kind {
			case "field":
				p = safely(func() { replayField(rp, &ln, rng) })
			case "group":
				p = safely(func() { replayGroup(rp, &ln, rng) })
			default:
				sum.infra("unknown kind %q", ln.Ini.Kind)
				return
			}
			if p != "" {
				rp.fail(-1, "C08:"+ln.Ini.Kind+":panic:"+last.Op, "the library panicked while replaying a behaviour: "+p, nil)
			}
			sum.add(1, 0, 0)
		}
		sum.inc(sum.Distinct, raw)
	})
	sum.mu.Lock()
	sum.NonTriv = len(sum.Distinct)
	sum.mu.Unlock()
	flushFails(out)
	out.Put(sum)
}
