package main

import (
	"bytes"
	"fmt"
	"math/big"
	"math/rand"

	"github.com/piotrnar/gocoin/lib/secp256k1"

	"verifharness/ref"
	"verifharness/vio"
)

const chunk = 2048

func rndScalar(r *rand.Rand) *big.Int {
	for {
		v := ref.FromBytes(rnd32(r))
		if v.Sign() > 0 && v.Cmp(ref.N) < 0 {
			return v
		}
	}
}

// sweep: scalars in arithmetic progression (one reference addition per element, every chunk restarted from a
// full multiplication) through ECmultGen / BaseMultiply / Multiply / BaseMultiplyAdd and the key serialisation;
// random (na, ng) through ECmult on a point whose discrete logarithm is known; the wNAF and lambda-split
// identities on the real helper functions.
func sweep(out *vio.Out, seed int64, n, workers int) {
	sum := newSummary()
	rng := rngFor(seed, "curve-sweep", 0)
	k0, delta := rndScalar(rng), rndScalar(rng)
	a := rndScalar(rng) // P = a*G
	pt := ref.BaseMul(a)
	pc := ref.SerializePubKey(pt, true)
	stepMul := ref.BaseMul(ref.ModN(new(big.Int).Mul(a, delta))) // delta*P
	dG := ref.BaseMul(delta)
	nchunks := (n + chunk - 1) / chunk
	jobs := make(chan []byte, nchunks)
	for c := 0; c < nchunks; c++ {
		jobs <- []byte(fmt.Sprint(c))
	}
	close(jobs)
	vio.Pool(workers, jobs, func(w int, job []byte) {
		var c int
		fmt.Sscan(string(job), &c)
		rp := &reporter{out: out, sum: sum, raw: fmt.Sprintf(`{"sweep":true,"chunk":%d}`, c)}
		lr := rngFor(seed, "curve-sweep-chunk", c)
		lo := c * chunk
		hi := lo + chunk
		if hi > n {
			hi = n
		}
		k := ref.ModN(new(big.Int).Add(k0, new(big.Int).Mul(bi(int64(lo)), delta)))
		gen := ref.BaseMul(k)                                 // k*G
		mulp := ref.BaseMul(ref.ModN(new(big.Int).Mul(a, k))) // k*P
		addp := pt.Add(gen)                                   // P + k*G
		for i := lo; i < hi; i++ {
			k32 := ref.B32(k)
			if !gen.Inf {
				// ECmultGen + SetXYZ + GetPublicKey
				var r secp256k1.XYZ
				secp256k1.ECmultGen(&r, num(k))
				var xy secp256k1.XY
				xy.SetXYZ(&r)
				var u [65]byte
				var cc [33]byte
				x1, x2 := xy, xy
				x1.GetPublicKey(u[:])
				x2.GetPublicKey(cc[:])
				wu, wc := ref.SerializePubKey(gen, false), ref.SerializePubKey(gen, true)
				sum.add(1, 1, 2)
				bts := map[string]string{"scalar": hx(k32), "got_uncompressed": hx(u[:]), "got_compressed": hx(cc[:]), "want_uncompressed": hx(wu)}
				if !bytes.Equal(u[:], wu) {
					rp.fail(i, "C08:ECmultGen:point", "ECmultGen(k) is not k*G", bts)
				} else if !bytes.Equal(cc[:], wc) {
					rp.fail(i, "C08:group:GetPublicKey:compressed-prefix-parity", "XY.GetPublicKey(33 bytes) states the wrong parity of y (the 65-byte form of the same point is right)", bts)
				}
				// XY.Bytes on the un-normalised result of SetXYZ
				bu, bc := xy.Bytes(false), xy.Bytes(true)
				sum.add(0, 0, 1)
				if bytes.Equal(u[:], wu) && (!bytes.Equal(bu, wu) || !bytes.Equal(bc, wc)) {
					bts["bytes_uncompressed"], bts["bytes_compressed"] = hx(bu), hx(bc)
					rp.fail(i, "C08:group:XY.Bytes:unnormalised", "XY.Bytes serialises the result of SetXYZ without normalising its coordinates: other bytes than the point's encoding", bts)
				}
				var o33 [33]byte
				secp256k1.BaseMultiply(k32, o33[:])
				sum.add(0, 1, 1)
				if !bytes.Equal(o33[1:], wc[1:]) {
					bts["got"] = hx(o33[:])
					rp.fail(i, "C08:BaseMultiply:point", "BaseMultiply(k) is not k*G", bts)
				} else if o33[0] != wc[0] {
					bts["got"] = hx(o33[:])
					rp.fail(i, "C08:group:GetPublicKey:compressed-prefix-parity", "BaseMultiply returns the wrong parity prefix (XY.GetPublicKey, 33 bytes)", bts)
				}
			}
			if !mulp.Inf {
				var o33 [33]byte
				pcIn, kIn := append([]byte(nil), pc...), append([]byte(nil), k32...)
				ok := secp256k1.Multiply(pcIn, kIn, o33[:])
				if !bytes.Equal(pcIn, pc) || !bytes.Equal(kIn, k32) {
					rp.fail(i, "C08:Multiply:operand-changed", "Multiply modified one of its input byte strings", map[string]string{"point": hx(pc), "scalar": hx(k32)})
				}
				want := ref.SerializePubKey(mulp, true)
				sum.add(0, 1, 1)
				bts := map[string]string{"point": hx(pc), "scalar": hx(k32), "got": hx(o33[:]), "want": hx(want)}
				if !ok || !bytes.Equal(o33[1:], want[1:]) {
					rp.fail(i, "C08:Multiply:point", "Multiply(P, k) is not k*P", bts)
				} else if o33[0] != want[0] {
					rp.fail(i, "C08:group:GetPublicKey:compressed-prefix-parity", "Multiply returns the wrong parity prefix (XY.GetPublicKey, 33 bytes)", bts)
				}
			}
			if !addp.Inf {
				var o33 [33]byte
				pcIn, kIn := append([]byte(nil), pc...), append([]byte(nil), k32...)
				ok := secp256k1.BaseMultiplyAdd(pcIn, kIn, o33[:])
				if !bytes.Equal(pcIn, pc) || !bytes.Equal(kIn, k32) {
					rp.fail(i, "C08:BaseMultiplyAdd:operand-changed", "BaseMultiplyAdd modified one of its input byte strings", map[string]string{"point": hx(pc), "scalar": hx(k32)})
				}
				want := ref.SerializePubKey(addp, true)
				sum.add(0, 1, 1)
				bts := map[string]string{"point": hx(pc), "scalar": hx(k32), "got": hx(o33[:]), "want": hx(want)}
				if !ok || !bytes.Equal(o33[1:], want[1:]) {
					rp.fail(i, "C08:BaseMultiplyAdd:point", "BaseMultiplyAdd(P, k) is not P + k*G", bts)
				} else if o33[0] != want[0] {
					rp.fail(i, "C08:group:GetPublicKey:compressed-prefix-parity", "BaseMultiplyAdd returns the wrong parity prefix (XY.GetPublicKey, 33 bytes)", bts)
				}
			}
			// ECmult with random 256-bit scalars (also above n) on P in a random Jacobian representation
			if i%4 == 0 {
				na, ng := ref.FromBytes(rnd32(lr)), ref.FromBytes(rnd32(lr))
				switch lr.Intn(8) {
				case 0:
					na.Rsh(na, 128) // short scalars
				case 1:
					ng.Rsh(ng, 128)
				case 2:
					na.Or(na, new(big.Int).Lsh(bi(1), 255))
				}
				var pj, res secp256k1.XYZ
				cfac := new(big.Int).Rand(lr, new(big.Int).Sub(ref.P, bi(2)))
				cfac.Add(cfac, bi(2))
				c2 := ref.FSqr(cfac)
				setField(&pj.X, ref.FMul(pt.X, c2))
				setField(&pj.Y, ref.FMul(pt.Y, ref.FMul(c2, cfac)))
				setField(&pj.Z, cfac)
				naObj, ngObj := num(na), num(ng)
				pj0 := pj
				pj.ECmult(&res, naObj, ngObj)
				want := ref.BaseMul(ref.ModN(new(big.Int).Add(new(big.Int).Mul(na, a), ng)))
				got, ok := affineOf(&res)
				sum.add(0, 2, 3)
				eb := map[string]string{"P": hx(pc), "na": na.Text(16), "ng": ng.Text(16), "got": ptHex(got), "want": ptHex(want)}
				if !ok || res.Infinity != want.Inf || (!want.Inf && !got.Equal(want)) {
					rp.fail(i, "C08:group:ECmult:point", "XYZ.ECmult(na, ng) is not na*P + ng*G", eb)
				} else if naObj.Cmp(na) != 0 || ngObj.Cmp(ng) != 0 {
					eb["na_after"], eb["ng_after"] = naObj.Text(16), ngObj.Text(16)
					rp.fail(i, "C08:group:ECmult:operand-changed", "XYZ.ECmult modified one of its scalar operands", eb)
				} else {
					// the same scalar objects once more
					var res2 secp256k1.XYZ
					pj0.ECmult(&res2, naObj, ngObj)
					if g2, ok2 := affineOf(&res2); !ok2 || res2.Infinity != want.Inf || (!want.Inf && !g2.Equal(want)) {
						eb["second_result"] = ptHex(g2)
						rp.fail(i, "C08:group:ECmult:reuse", "XYZ.ECmult called a second time with the same scalar objects does not return the same point", eb)
					}
				}
				// one tweak object applied to two keys: key + t*G (XY.ECPublicTweakAdd)
				tw := ref.FromBytes(rnd32(lr))
				twObj := num(tw)
				bases := []*big.Int{a, ref.ModN(new(big.Int).Add(a, bi(int64(i)+1)))}
				if i%16 != 0 {
					bases = nil // (four reference multiplications per pair: every 16th element only)
				}
				for rep, base := range bases {
					bp := ref.BaseMul(base)
					wantT := ref.BaseMul(ref.ModN(new(big.Int).Add(base, tw)))
					if bp.Inf || wantT.Inf {
						continue
					}
					key := xyOf(bp)
					okT := key.ECPublicTweakAdd(twObj)
					var u [65]byte
					key.GetPublicKey(u[:])
					sum.add(0, 1, 2)
					tb := map[string]string{"key": ptHex(bp), "tweak": tw.Text(16), "tweak_after": twObj.Text(16), "got": hx(u[:]), "want": ptHex(wantT), "application": fmt.Sprint(rep + 1)}
					if !okT || !bytes.Equal(u[:], ref.SerializePubKey(wantT, false)) {
						sig := "C08:group:ECPublicTweakAdd:point"
						if rep == 1 {
							sig = "C08:group:ECPublicTweakAdd:reuse"
						}
						rp.fail(i, sig, "XY.ECPublicTweakAdd(t) is not key + t*G (application "+fmt.Sprint(rep+1)+" of the same tweak object)", tb)
						break
					}
					if twObj.Cmp(tw) != 0 {
						rp.fail(i, "C08:group:ECPublicTweakAdd:operand-changed", "XY.ECPublicTweakAdd modified its tweak operand", tb)
						break
					}
				}
			}
			k = ref.ModN(new(big.Int).Add(k, delta))
			gen = gen.Add(dG)
			mulp = mulp.Add(stepMul)
			addp = addp.Add(dG)
		}
		if !gen.Equal(ref.BaseMul(k)) || !mulp.Equal(ref.BaseMul(ref.ModN(new(big.Int).Mul(a, k)))) {
			sum.infra("sweep: incremental reference diverged in chunk %d", c)
		}
	})
	helperIdentities(out, sum, seed, n)
	sum.NonTriv = n
	flushFails(out)
	out.Put(sum)
}

// helperIdentities checks ecmult_wnaf and Number.split_exp (through the verif exports) against their defining
// identities on boundary and random numbers.
func helperIdentities(out *vio.Out, sum *Summary, seed int64, n int) {
	rp := &reporter{out: out, sum: sum, raw: `{"sweep":true,"helpers":true}`}
	rng := rngFor(seed, "curve-helpers", 0)
	var vals []*big.Int
	one := bi(1)
	for _, sh := range []uint{1, 4, 5, 13, 14, 15, 63, 64, 65, 127, 128, 129, 200, 255, 256} {
		p := new(big.Int).Lsh(one, sh)
		vals = append(vals, p, new(big.Int).Sub(p, one), new(big.Int).Add(p, one))
	}
	vals = append(vals, bi(0), bi(1), bi(2), bi(3), ref.N, new(big.Int).Sub(ref.N, one), ref.Lambda, new(big.Int).Add(ref.Lambda, one),
		new(big.Int).Sub(ref.N, ref.Lambda), ref.HalfN, new(big.Int).Add(ref.HalfN, one))
	// alternating and all-ones patterns (long runs for the wNAF carry)
	for _, pat := range []string{"aaaaaaaaaaaaaaaaaaaaaaaaaaaaaaaaaaaaaaaaaaaaaaaaaaaaaaaaaaaaaaaa", "5555555555555555555555555555555555555555555555555555555555555555",
		"ffffffffffffffffffffffffffffffff00000000000000000000000000000000", "00000000000000000000000000000000ffffffffffffffffffffffffffffffff",
		"7fffffffffffffffffffffffffffffff7fffffffffffffffffffffffffffffff", "8000000000000000000000000000000080000000000000000000000000000000"} {
		v, _ := new(big.Int).SetString(pat, 16)
		vals = append(vals, v)
	}
	extra := n / 4
	if extra > 20000 {
		extra = 20000
	}
	for i := 0; i < extra; i++ {
		v := ref.FromBytes(rnd32(rng))
		if i%3 == 0 {
			v.Rsh(v, uint(rng.Intn(200)))
		}
		vals = append(vals, v)
	}
	for _, v := range vals {
		// split_exp: v = r1 + r2*lambda (mod n), both halves short enough for the 129-entry digit arrays of ECmult
		var r1, r2 secp256k1.Number
		vObj := num(v)
		p := safely(func() { r1, r2 = secp256k1.VerifSplitExp(vObj) })
		sum.add(1, 1, 2)
		if vObj.Cmp(v) != 0 {
			rp.fail(0, "C08:split_exp:operand-changed", "Number.split_exp modified its operand", map[string]string{"a": v.Text(16), "after": vObj.Text(16)})
		}
		chk := new(big.Int).Mul(&r2.Int, ref.Lambda)
		chk.Add(chk, &r1.Int)
		chk.Sub(chk, v)
		chk.Mod(chk, ref.N)
		bts := map[string]string{"a": v.Text(16), "r1": r1.Text(16), "r2": r2.Text(16)}
		if p != "" || chk.Sign() != 0 {
			rp.fail(0, "C08:split_exp:identity", "Number.split_exp: r1 + r2*lambda != a (mod n) "+p, bts)
		} else if v.BitLen() <= 256 && (r1.BitLen() > 128 || r2.BitLen() > 128) {
			rp.fail(0, "C08:split_exp:length", "Number.split_exp returns a half longer than 128 bits", bts)
		}
		// wNAF of the value itself, of the two halves (which may be negative) with both windows
		for _, x := range []*big.Int{v, &r1.Int, &r2.Int, new(big.Int).Neg(v)} {
			for _, w := range []uint{secp256k1.WINDOW_A, secp256k1.WINDOW_G, 2, 3} {
				var ds []int
				xObj := num(x)
				p := safely(func() { ds = secp256k1.VerifWnaf(xObj, w) })
				sum.add(0, 1, 2)
				if xObj.Cmp(x) != 0 {
					rp.fail(0, "C08:wnaf:operand-changed", "ecmult_wnaf modified its operand", map[string]string{"a": x.Text(16), "after": xObj.Text(16)})
				}
				acc := new(big.Int)
				okd := true
				lastNZ := -1000
				for i, d := range ds {
					if d == 0 {
						continue
					}
					ad := d
					if ad < 0 {
						ad = -ad
					}
					if ad%2 != 1 || ad >= 1<<(w-1) || i-lastNZ < int(w) {
						okd = false
					}
					lastNZ = i
					acc.Add(acc, new(big.Int).Lsh(bi(int64(d)), uint(i)))
				}
				if p != "" || !okd || acc.Cmp(x) != 0 || len(ds) > x.BitLen()+1 {
					rp.fail(0, "C08:wnaf:identity", fmt.Sprintf("ecmult_wnaf(w=%d) is not a width-w non-adjacent form of its argument %s", w, p),
						map[string]string{"a": x.Text(16), "digits": fmt.Sprint(ds)})
				}
			}
		}
	}
}
