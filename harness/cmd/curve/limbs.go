package main

import (
	"bytes"
	"encoding/json"
	"fmt"
	"math/big"
	"strings"

	"github.com/piotrnar/gocoin/lib/secp256k1"

	"verifharness/ref"
	"verifharness/vio"
)

// One line of the "limbs" export of Curve.tla: five symbolic limb values, a magnitude variant, the magnitude the
// model assigns and the operations the contract allows on such an operand.
type LimbLine struct {
	L []string `json:"l"`
	V struct {
		Kind string `json:"kind"`
		C    uint64 `json:"c"`
	} `json:"v"`
	M   int      `json:"m"`
	Ops []string `json:"ops"`
}

func limbSymbol(pos int, s string) (uint64, error) {
	switch s {
	case "0":
		return 0, nil
	case "1":
		return 1, nil
	case "M":
		return limbMax, nil
	case "Mm1":
		return limbMax - 1, nil
	case "Mp1":
		return limbMax + 1, nil
	case "T":
		return topMax, nil
	case "Tm1":
		return topMax - 1, nil
	case "Tp1":
		return topMax + 1, nil
	case "P":
		return pLimbs[0], nil
	case "Pm1":
		return pLimbs[0] - 1, nil
	case "Pp1":
		return pLimbs[0] + 1, nil
	}
	return 0, fmt.Errorf("unknown limb symbol %q at position %d", s, pos)
}

func limbs(out *vio.Out, in string, seed int64, workers int) {
	sum := newSummary()
	jobs := make(chan []byte, 1024)
	go func() {
		if err := vio.ReadLines(in, func(n int, line []byte) error {
			jobs <- append([]byte(nil), line...)
			return nil
		}); err != nil {
			sum.infra("reading %s: %v", in, err)
		}
		close(jobs)
	}()
	vio.Pool(workers, jobs, func(w int, job []byte) {
		var ln LimbLine
		if err := json.Unmarshal(job, &ln); err != nil || len(ln.L) != 5 {
			sum.infra("bad limb line: %v", err)
			return
		}
		raw := strings.TrimSpace(string(job))
		rp := &reporter{out: out, sum: sum, raw: raw}
		sum.mu.Lock()
		sum.Lines++
		sum.mu.Unlock()
		var n [5]uint64
		for i, s := range ln.L {
			v, err := limbSymbol(i, s)
			if err != nil {
				sum.infra("%v", err)
				return
			}
			switch ln.V.Kind {
			case "mul":
				v *= ln.V.C
			case "addp":
				v += 2 * ln.V.C * pLimbs[i]
			default:
				sum.infra("unknown variant %q", ln.V.Kind)
				return
			}
			n[i] = v
		}
		if !withinMagnitude(n, ln.M) {
			sum.infra("model assigns magnitude %d to limbs %s", ln.M, limbsHex(n))
			return
		}
		if p := safely(func() { limbCase(rp, &ln, n, rngFor(seed, raw, 0).Int63()) }); p != "" {
			rp.fail(0, "C08:limbs:panic", "the library panicked on a raw limb pattern: "+p, map[string]string{"limbs": limbsHex(n)})
		}
		sum.add(1, 0, 0)
		sum.inc(sum.Distinct, raw)
	})
	sum.NonTriv = len(sum.Distinct)
	flushFails(out)
	out.Put(sum)
}

func limbCase(rp *reporter, ln *LimbLine, n [5]uint64, salt int64) {
	sum := rp.sum
	val := new(big.Int).Mod(limbsValue(n), ref.P)
	v32 := ref.B32(val)
	// a generic second operand of magnitude 1, different per case
	gen := new(big.Int).Mod(new(big.Int).Add(new(big.Int).Mul(big.NewInt(salt), big.NewInt(0x9E3779B97F4A7C15>>1)), ref.Gx), ref.P)
	var g secp256k1.Field
	g.SetB32(ref.B32(gen))
	fresh := func() *secp256k1.Field { var f secp256k1.Field; f.VerifSetLimbs(n); return &f }
	bts := func() map[string]string {
		return map[string]string{"limbs": limbsHex(n), "value_mod_p": hx(v32), "magnitude": fmt.Sprint(ln.M), "other_operand": hx(ref.B32(gen))}
	}
	value := func(op string, f *secp256k1.Field, want *big.Int, mag int) {
		sum.add(0, 1, 2)
		b := bts()
		b["result_limbs"] = limbsHex(f.VerifLimbs())
		if gb := normBytes(f); !bytes.Equal(gb, ref.B32(want)) {
			b["got"], b["want"] = hx(gb), hx(ref.B32(want))
			rp.fail(0, "C08:field:"+op+":value", "Field."+op+" on a raw limb pattern does not return the value defined by arithmetic modulo p", b)
			return
		}
		if mag > 0 && !withinMagnitude(f.VerifLimbs(), mag) {
			rp.fail(0, "C08:field:"+op+":magnitude", fmt.Sprintf("Field.%s result exceeds magnitude %d", op, mag), b)
		}
	}
	norm := fresh()
	norm.Normalize()
	for _, op := range ln.Ops {
		switch op {
		case "Normalize":
			sum.add(0, 1, 1)
			var direct [32]byte
			norm.GetB32(direct[:])
			if !canonicalLimbs(norm.VerifLimbs()) || !bytes.Equal(direct[:], v32) {
				b := bts()
				b["got"], b["want"], b["result_limbs"] = hx(direct[:]), hx(v32), limbsHex(norm.VerifLimbs())
				rp.fail(0, "C08:field:Normalize:value", "Field.Normalize of a raw limb pattern is not the canonical representation of its value", b)
				return // the observers below are asked on the normalised element
			}
			// normalising twice changes nothing
			again := *norm
			again.Normalize()
			if again.VerifLimbs() != norm.VerifLimbs() {
				rp.fail(0, "C08:field:Normalize:idempotent", "Field.Normalize changes an already normalised element", bts())
			}
		case "IsOdd":
			sum.add(0, 1, 1)
			if norm.IsOdd() != (val.Bit(0) == 1) {
				rp.fail(0, "C08:field:IsOdd", "Field.IsOdd after Normalize disagrees with the value", bts())
			}
		case "IsZero":
			sum.add(0, 1, 1)
			if norm.IsZero() != (val.Sign() == 0) {
				rp.fail(0, "C08:field:IsZero", "Field.IsZero after Normalize disagrees with the value", bts())
			}
		case "GetB32":
			// covered by Normalize above (direct GetB32); here: the String / GetBig path, which normalises a copy
			sum.add(0, 1, 1)
			if fresh().String() != hx(v32) {
				rp.fail(0, "C08:field:GetB32", "Field.String (Normalize + GetB32 of a copy) is not the canonical encoding", bts())
			}
		case "Equals":
			var same, other secp256k1.Field
			same.SetB32(v32)
			other.SetB32(ref.B32(ref.FAdd(val, big.NewInt(1))))
			sum.add(0, 1, 2)
			if !norm.Equals(&same) || norm.Equals(&other) {
				rp.fail(0, "C08:field:Equals", "Field.Equals after Normalize disagrees with the values", bts())
			}
		case "Mul":
			var r1, r2 secp256k1.Field
			fresh().Mul(&r1, &g)
			g.Mul(&r2, fresh())
			value("Mul", &r1, ref.FMul(val, gen), 1)
			value("Mul", &r2, ref.FMul(val, gen), 1)
			a := fresh()
			a.Mul(a, fresh()) // destination = first operand, second operand the same pattern
			value("Mul", a, ref.FSqr(val), 1)
		case "Sqr":
			var r secp256k1.Field
			a := fresh()
			a.Sqr(&r)
			value("Sqr", &r, ref.FSqr(val), 1)
			if !bytes.Equal(normBytes(a), v32) {
				rp.fail(0, "C08:field:Sqr:operand-changed", "Field.Sqr changed its operand", bts())
			}
		case "Inv":
			var r, rv secp256k1.Field
			a := fresh()
			a.Inv(&r)
			a.InvVar(&rv)
			if !bytes.Equal(normBytes(a), v32) {
				rp.fail(0, "C08:field:Inv:operand-changed", "Field.Inv / InvVar changed its operand", bts())
			}
			value("Inv", &r, ref.FInv(val), 1)
			value("InvVar", &rv, ref.FInv(val), 1)
		case "Negate":
			var r secp256k1.Field
			a := fresh()
			a.Negate(&r, uint64(ln.M))
			if !bytes.Equal(normBytes(a), v32) {
				rp.fail(0, "C08:field:Negate:operand-changed", "Field.Negate changed its operand", bts())
			}
			value("Negate", &r, ref.FNeg(val), ln.M+1)
		case "SetAdd":
			a := fresh()
			a.SetAdd(&g)
			value("SetAdd", a, ref.FAdd(val, gen), ln.M+1)
			b := g
			b.SetAdd(fresh())
			value("SetAdd", &b, ref.FAdd(val, gen), ln.M+1)
		case "MulInt2":
			a := fresh()
			a.MulInt(2)
			value("MulInt", a, ref.FMul(val, big.NewInt(2)), 2*ln.M)
		default:
			sum.infra("unknown limb operation %q", op)
			return
		}
	}
	// the generic second operand was an input of Mul / SetAdd only: it still holds its value
	sum.add(0, 0, 1)
	if !bytes.Equal(normBytes(&g), ref.B32(gen)) {
		rp.fail(0, "C08:field:operand-changed", "a Field method changed the value of an operand that is not its destination", bts())
	}
}
