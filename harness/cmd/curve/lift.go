package main

import (
	"bytes"
	"fmt"
	"math/big"

	"github.com/piotrnar/gocoin/lib/secp256k1"

	"verifharness/ref"
	"verifharness/vio"
)

// lift: decompression of EVERY point of two long runs of consecutive multiples of G - k = 1..n (the small
// secret keys) and k = k0+1..k0+n for a seeded k0 - through every entry point that lifts an abscissa:
// XY.SetXO (both parities), XY.ParsePubkey (02 / 03), XY.ParseXOnlyPubkey, DecompressPoint, and (every 64th point)
// public key recovery, whose first step is the same lift.  The reference walks the run with one point addition
// per element ((k+1)G = kG + G) and restarts every chunk from a full scalar multiplication.  The parity decision
// after the square root depends on the representation the root happens to come out in; such classes have densities
// around 10^-5 .. 10^-6 and are only reached by volume.
func lift(out *vio.Out, seed int64, n, workers int) {
	sum := newSummary()
	rng := rngFor(seed, "curve-lift", 0)
	k0 := rndScalar(rng)
	s0 := rndScalar(rng) // recovery: s and e of the (r, s, e) triples
	e0 := rndScalar(rng)
	nchunks := (n + chunk - 1) / chunk
	jobs := make(chan []byte, 2*nchunks)
	for run := 0; run < 2; run++ {
		for c := 0; c < nchunks; c++ {
			jobs <- []byte(fmt.Sprintf("%d %d", run, c))
		}
	}
	close(jobs)
	vio.Pool(workers, jobs, func(w int, job []byte) {
		var run, c int
		fmt.Sscan(string(job), &run, &c)
		rp := &reporter{out: out, sum: sum, raw: fmt.Sprintf(`{"lift":true,"run":%d,"chunk":%d}`, run, c)}
		lo := c*chunk + 1
		hi := lo + chunk
		if hi > n+1 {
			hi = n + 1
		}
		k := big.NewInt(int64(lo))
		if run == 1 {
			k.Add(k, k0)
			k.Mod(k, ref.N)
		}
		p := ref.BaseMul(k)
		for i := lo; i < hi; i++ {
			if !p.Inf {
				liftOne(rp, i, k, p, s0, e0, i%128 == 0)
			}
			k = ref.ModN(new(big.Int).Add(k, bi(1)))
			p = p.Add(ref.G)
		}
		if !p.Equal(ref.BaseMul(k)) {
			sum.infra("lift: incremental reference diverged in run %d chunk %d", run, c)
		}
	})
	sum.NonTriv = 2 * n
	flushFails(out)
	out.Put(sum)
}

func liftOne(rp *reporter, i int, k *big.Int, p ref.Point, s0, e0 *big.Int, withRecover bool) {
	sum := rp.sum
	x32 := ref.B32(p.X)
	bts := func() map[string]string {
		return map[string]string{"k": k.Text(16), "x": hx(x32), "y": hx(ref.B32(p.Y))}
	}
	pts := [2]ref.Point{p, p.Neg()} // index by parity of y below
	if p.YOdd() {
		pts[0], pts[1] = pts[1], pts[0]
	}
	var u [65]byte
	sum.add(1, 2, 2)
	// every point: XY.SetXO and DecompressPoint (the two places that take a square root and read its parity), the
	// requested parity alternating; every 4th point additionally the parsers that are built on SetXO, both parities
	full := i%4 == 0
	for odd := 0; odd < 2; odd++ {
		want := ref.SerializePubKey(pts[odd], false)
		if !full && odd != i&1 {
			continue
		}
		// XY.SetXO
		var fx secp256k1.Field
		fx.SetB32(x32)
		var xy secp256k1.XY
		xy.SetXO(&fx, odd == 1)
		xy.GetPublicKey(u[:])
		if xy.Infinity || !bytes.Equal(u[:], want) {
			b := bts()
			b["got"], b["want"], b["odd"] = hx(u[:]), hx(want), fmt.Sprint(odd == 1)
			rp.fail(i, "C08:group:SetXO:point", "XY.SetXO does not return the point with the given abscissa and parity", b)
		}
		// DecompressPoint
		var y [32]byte
		secp256k1.DecompressPoint(x32, odd == 1, y[:])
		if !bytes.Equal(y[:], want[33:]) {
			b := bts()
			b["got"], b["want"], b["odd"] = hx(y[:]), hx(want[33:]), fmt.Sprint(odd == 1)
			rp.fail(i, "C08:group:DecompressPoint", "DecompressPoint does not return the y with the requested parity", b)
		}
		if !full {
			continue
		}
		sum.add(0, 1, 1)
		// XY.ParsePubkey of the compressed encoding
		comp := append([]byte{byte(2 + odd)}, x32...)
		var pk secp256k1.XY
		ok := pk.ParsePubkey(comp)
		pk.GetPublicKey(u[:])
		if !ok || !bytes.Equal(u[:], want) {
			b := bts()
			b["pubkey"], b["got"], b["want"] = hx(comp), hx(u[:]), hx(want)
			rp.fail(i, "C08:group:ParsePubkey:point", "XY.ParsePubkey of a compressed key is not the point it encodes", b)
		}
	}
	if !full {
		return
	}
	// x-only: the point with even y
	sum.add(0, 1, 1)
	var xo secp256k1.XY
	ok := xo.ParseXOnlyPubkey(x32)
	xo.GetPublicKey(u[:])
	if want := ref.SerializePubKey(pts[0], false); !ok || !bytes.Equal(u[:], want) {
		b := bts()
		b["got"], b["want"] = hx(u[:]), hx(want)
		rp.fail(i, "C08:group:ParseXOnlyPubkey:point", "XY.ParseXOnlyPubkey is not the even-y point with that abscissa", b)
	}
	if !withRecover || p.X.Cmp(ref.N) >= 0 {
		return
	}
	// recovery with r = x(kG): the lifted point is +-kG, so Q = r^-1 (s R - e G) = r^-1 (+-s k - e) G
	for recid := 0; recid < 2; recid++ {
		kk := k
		if pts[recid].Y.Cmp(p.Y) != 0 {
			kk = new(big.Int).Sub(ref.N, k)
		}
		ri := ref.InvN(p.X)
		q := ref.BaseMul(ref.ModN(new(big.Int).Mul(ri, new(big.Int).Sub(new(big.Int).Mul(s0, kk), e0))))
		var got secp256k1.XY
		okr := secp256k1.RecoverPublicKey(x32, ref.B32(s0), ref.B32(e0), recid, &got)
		sum.add(0, 1, 1)
		if q.Inf {
			continue
		}
		got.GetPublicKey(u[:])
		if want := ref.SerializePubKey(q, false); !okr || !bytes.Equal(u[:], want) {
			b := bts()
			b["r"], b["s"], b["msg"], b["recid"], b["got"], b["want"] = hx(x32), hx(ref.B32(s0)), hx(ref.B32(e0)), fmt.Sprint(recid), hx(u[:]), hx(want)
			rp.fail(i, "C08:group:RecoverPublicKey:point", "RecoverPublicKey does not return r^-1 (s R - e G) for the R with the requested parity", b)
		}
	}
}
