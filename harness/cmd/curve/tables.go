package main

import (
	"bytes"
	"encoding/json"
	"fmt"
	"math/big"
	"strings"

	"github.com/piotrnar/gocoin/lib/secp256k1"

	"verifharness/ref"
	"verifharness/vio"
)

type TableLine struct {
	Table  string `json:"table"`
	I      int    `json:"i"`
	J      int    `json:"j"`
	Scalar struct {
		C   int64 `json:"c"`
		Sh  uint  `json:"sh"`
		Neg bool  `json:"neg"`
		Sum int   `json:"sum"`
	} `json:"scalar"`
}

// scalarOf evaluates the symbolic TableScalar of Curve.tla: (neg ? -1 : 1) * c * 2^sh, or for sum > 0
// (neg ? -1 : 1) * sum_{j < sum} 2^(sh*j); reduced modulo n.
func scalarOf(t *TableLine) *big.Int {
	v := new(big.Int)
	if t.Scalar.Sum > 0 {
		for j := 0; j < t.Scalar.Sum; j++ {
			v.Add(v, new(big.Int).Lsh(bi(1), t.Scalar.Sh*uint(j)))
		}
	} else {
		v.Lsh(bi(t.Scalar.C), t.Scalar.Sh)
	}
	if t.Scalar.Neg {
		v.Neg(v)
	}
	return v.Mod(v, ref.N)
}

func tables(out *vio.Out, in string, every, workers int) {
	sum := newSummary()
	preG, preG128, prec, fin := secp256k1.VerifTables()
	sizes := map[string]int{"pre_g": len(preG), "pre_g_128": len(preG128), "prec": 64 * 16, "fin": 1}
	seen := map[string]int{}
	jobs := make(chan []byte, 1024)
	go func() {
		idx := 0
		if err := vio.ReadLines(in, func(n int, line []byte) error {
			var t TableLine
			if err := json.Unmarshal(line, &t); err != nil {
				return err
			}
			seen[t.Table]++
			if idx%every == 0 || t.Table == "fin" {
				jobs <- append([]byte(nil), line...)
			}
			idx++
			return nil
		}); err != nil {
			sum.infra("reading %s: %v", in, err)
		}
		close(jobs)
	}()
	vio.Pool(workers, jobs, func(w int, job []byte) {
		var t TableLine
		json.Unmarshal(job, &t)
		raw := strings.TrimSpace(string(job))
		rp := &reporter{out: out, sum: sum, raw: raw}
		var e *secp256k1.XY
		switch t.Table {
		case "pre_g":
			if t.I < len(preG) {
				e = &preG[t.I]
			}
		case "pre_g_128":
			if t.I < len(preG128) {
				e = &preG128[t.I]
			}
		case "prec":
			if t.J < 64 && t.I < 16 {
				e = &prec[t.J][t.I]
			}
		case "fin":
			e = fin
		}
		sum.mu.Lock()
		sum.Lines++
		sum.mu.Unlock()
		sum.inc(sum.Ops, "table:"+t.Table)
		if e == nil {
			rp.fail(0, "C08:table:"+t.Table+":missing", fmt.Sprintf("the model names entry %d/%d of %s, the embedded table has no such entry", t.I, t.J, t.Table), nil)
			return
		}
		k := scalarOf(&t)
		want := ref.BaseMul(k)
		sum.add(1, 0, 2)
		bts := map[string]string{"scalar": k.Text(16), "want": ptHex(want), "X_limbs": limbsHex(e.X.VerifLimbs()), "Y_limbs": limbsHex(e.Y.VerifLimbs())}
		if want.Inf || e.Infinity {
			rp.fail(0, "C08:table:"+t.Table+":infinity", "table entry or its scalar multiple is the point at infinity", bts)
			return
		}
		if !bytes.Equal(normBytes(&e.X), ref.B32(want.X)) || !bytes.Equal(normBytes(&e.Y), ref.B32(want.Y)) {
			bts["got"] = "04" + hx(normBytes(&e.X)) + hx(normBytes(&e.Y))
			rp.fail(0, "C08:table:"+t.Table+":entry", fmt.Sprintf("%s entry i=%d j=%d is not the multiple of G it stands for", t.Table, t.I, t.J), bts)
			return
		}
		if !withinMagnitude(e.X.VerifLimbs(), 8) || !withinMagnitude(e.Y.VerifLimbs(), 8) {
			rp.fail(0, "C08:table:"+t.Table+":magnitude", "table entry with a coordinate beyond magnitude 8", bts)
			return
		}
		sum.inc(sum.Distinct, raw)
	})
	// the model must name exactly the entries the code embeds
	for name, size := range sizes {
		if seen[name] != size {
			sum.infra("table %s: the model enumerates %d entries, the code embeds %d", name, seen[name], size)
		}
	}
	sum.NonTriv = len(sum.Distinct)
	flushFails(out)
	out.Put(sum)
}
