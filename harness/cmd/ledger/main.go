// ledger: conformance driver binding spec/Ledger.tla to lib/chain + lib/utxo (+ client/wallet balances).
//
//	ledger replay -scenario <json> -in <lines> -dir <scratch> -workers N [-bal] [-compress]
//	    every line is a TLC-exported behaviour of deliveries; it is replayed on a fresh copy of the base
//	    chain; verdict, tip and the full UTXO dump (and the balance index with -bal) are compared.
package main

import (
	"encoding/json"
	"flag"
	"fmt"
	"os"
	"path/filepath"
	"runtime/debug"
	"sort"
	"sync"
	"sync/atomic"

	"github.com/piotrnar/gocoin/client/common"
	"github.com/piotrnar/gocoin/client/wallet"
	"github.com/piotrnar/gocoin/lib/btc"
	"github.com/piotrnar/gocoin/lib/chain"
	"github.com/piotrnar/gocoin/lib/utxo"

	"verifharness/conc"
	"verifharness/vio"
)

type Pred struct {
	Tip      int            `json:"tip"`
	Unew     []conc.UtxoEnt `json:"unew"`
	Gone     []int          `json:"gone"`
	Acc      bool           `json:"acc"`
	Later    bool           `json:"later"`
	Viol     []string       `json:"viol"`
	Bal      int            `json:"bal"` // 0: index off; k: on with balLimits[k-1]
	Kf       string         `json:"kf"`       // the model flags this transition as an instance of a known finding
	PathOnly bool           `json:"pathonly"` // a step on the path to the tested transition: only the verdict is known
}

type Step struct {
	A string `json:"a"`
	B int    `json:"b"`
	P *Pred  `json:"p"`
}

type Line struct {
	Path  []Step `json:"path"`
	Last  *Step  `json:"last"`
	Steps []Step `json:"steps"`
}

type result struct {
	N    int             `json:"n"`
	OK   bool            `json:"ok"`
	Step int             `json:"step"`
	Kind string          `json:"kind"` // verdict | tip | utxo | balance | panic
	What string          `json:"what"`
	B    int             `json:"b"`
	Viol []string        `json:"viol,omitempty"` // rule ids the model says the refused block violates
	Line json.RawMessage `json:"line,omitempty"`
}

func mkfail(kind, what string, b ...int) *failure {
	f := &failure{kind: kind, what: what}
	if len(b) > 0 {
		f.b = b[0]
	}
	return f
}

type failure struct {
	kind, what string
	b          int
}

const minBal = 100000
// balLimits mirrors Ledger!BalLimit: the values AllBalances.MinValue takes when the model re-enables the index.
var balLimits = []uint64{minBal, 0}

// curMinBal is the AllBalances.MinValue in force (the client's UI changes CFG.AllBalances.MinValue and calls
// LoadBalancesFromUtxo, which applies it).
var curMinBal uint64 = minBal

func setMinBal(k int) {
	curMinBal = balLimits[k-1]
	common.CFG.AllBalances.MinValue = curMinBal
}

// unappliedMinBal is a value the configuration holds between two rebuilds of the index: an edit of
// CFG.AllBalances.MinValue takes effect only when LoadBalancesFromUtxo applies it, until then the limit the
// index was built with governs additions and removals alike.
const unappliedMinBal = 31337

// loadBalances rebuilds the index under curMinBal and then leaves an unapplied edit in the configuration.
func loadBalances() {
	common.CFG.AllBalances.MinValue = curMinBal
	wallet.LoadBalancesFromUtxo()
	common.CFG.AllBalances.MinValue = unappliedMinBal
}

// toggleMinBal is used by the random recorder: the index comes back with the other limit.
// installTxChecker installs chain.TrustedTxChecker the way the client does for transactions its mempool has already
// verified: it vouches for the scenario transactions with an odd id whose inputs all carry valid scripts. Vouching may
// only spare THAT transaction's script checks; everything else in the block is still checked.
func installTxChecker(w *conc.World) {
	chain.TrustedTxChecker = func(tx *btc.Tx) bool {
		id, ok := w.TxID[tx.Hash.Hash]
		if !ok || id%2 == 0 {
			return false
		}
		d, ok := w.Sc.Tx[id]
		if !ok {
			return false
		}
		for _, in := range d.Ins {
			if !in.Ok {
				return false
			}
		}
		return true
	}
}

func toggleMinBal() {
	if curMinBal == balLimits[0] {
		setMinBal(2)
	} else {
		setMinBal(1)
	}
}

func checkState(n *conc.Node, p *Pred, bal bool) *failure {
	tip, ok := n.Tip()
	if !ok || tip != p.Tip {
		return mkfail("tip", fmt.Sprintf("tip is block %d, model predicts %d", tip, p.Tip))
	}
	ents, problems := n.DumpUtxo()
	if len(problems) > 0 {
		return mkfail("utxo", problems[0])
	}
	want := map[conc.UtxoEnt]bool{}
	gone := map[int]bool{}
	for _, g := range p.Gone {
		gone[g] = true
	}
	for h := 1; h <= n.W.Sc.BaseH; h++ {
		if !gone[h] {
			want[conc.UtxoEnt{Tx: h, Vout: 1, H: h}] = true
		}
	}
	for _, e := range p.Unew {
		want[e] = true
	}
	for _, e := range ents {
		if !want[e] {
			return mkfail("utxo", fmt.Sprintf("UTXO set holds output %d:%d (height %d) which the model's replay of the chain does not", e.Tx, e.Vout, e.H))
		}
		delete(want, e)
	}
	for e := range want {
		return mkfail("utxo", fmt.Sprintf("UTXO set lacks output %d:%d (height %d) which the model's replay of the chain holds", e.Tx, e.Vout, e.H))
	}
	if bal && p.Bal != 0 {
		if f := checkBalances(n, ents); f != nil {
			return f
		}
	}
	return nil
}

// checkBalances: for every (addr, st) ever paid, GetAllUnspent and the browsed totals must equal the
// projection of the UTXO set (outputs at or above the minimum value).
func checkBalances(n *conc.Node, ents []conc.UtxoEnt) *failure {
	type key struct{ addr, st int }
	proj := map[key]map[[2]int]uint64{}
	seen := map[key]bool{}
	add := func(t int) {
		for _, o := range n.W.OutsOf(t) {
			seen[key{o.Addr, o.St}] = true
		}
	}
	for t := range n.W.Sc.Tx {
		add(t)
	}
	for b := range n.W.Sc.Blk {
		add(conc.CbBase + b)
	}
	seen[key{0, conc.StP2SH}] = true
	for _, e := range ents {
		o := n.W.OutsOf(e.Tx)[e.Vout-1]
		if o.Amt.Sat() < curMinBal {
			continue
		}
		k := key{o.Addr, o.St}
		if proj[k] == nil {
			proj[k] = map[[2]int]uint64{}
		}
		proj[k][[2]int{e.Tx, e.Vout}] = o.Amt.Sat()
	}
	indexed := 0
	for k := range seen {
		if k.st == conc.StBare || k.st == conc.StSigops || k.st == conc.StRetSig {
			continue // non-standard scripts are not indexed
		}
		ad := btc.NewAddrFromPkScript(conc.PkScript(k.addr, k.st), common.Testnet)
		if ad == nil {
			return mkfail("balance", fmt.Sprintf("no address for script type %d", k.st))
		}
		got := wallet.GetAllUnspent(ad)
		want := proj[k]
		var sum uint64
		for _, u := range got {
			id, ok := n.W.TxID[u.TxPrevOut.Hash]
			if !ok {
				return mkfail("balance", "balance index lists an unknown transaction")
			}
			v, ok := want[[2]int{id, int(u.Vout) + 1}]
			if !ok {
				return mkfail("balance", fmt.Sprintf("address (%d,type %d): index lists output %d:%d which is not an unspent output paying it", k.addr, k.st, id, u.Vout+1))
			}
			if v != u.Value {
				return mkfail("balance", fmt.Sprintf("address (%d,type %d): output %d:%d listed with value %d, is %d", k.addr, k.st, id, u.Vout+1, u.Value, v))
			}
			sum += v
		}
		if len(got) != len(want) {
			return mkfail("balance", fmt.Sprintf("address (%d,type %d): index lists %d outputs, the UTXO set holds %d", k.addr, k.st, len(got), len(want)))
		}
		indexed += len(got)
	}
	// totals as browsed
	var total uint64
	var cnt int
	wallet.Browse(func(t int, h wallet.OneAddrIndex, r *wallet.OneAllAddrBal) {
		total += r.Value
		cnt += r.Count()
	})
	var wantTotal uint64
	wantCnt := 0
	for k, m := range proj {
		if k.st == conc.StBare || k.st == conc.StSigops || k.st == conc.StRetSig {
			continue
		}
		for _, v := range m {
			wantTotal += v
			wantCnt++
		}
	}
	if total != wantTotal || cnt != wantCnt {
		return mkfail("balance", fmt.Sprintf("balance index totals %d sat in %d outputs, projection of the UTXO set is %d sat in %d outputs", total, cnt, wantTotal, wantCnt))
	}
	return nil
}

func replayOne(w *conc.World, dir string, ln *Line, bal bool) (step int, f *failure, viol []string) {
	defer func() {
		if r := recover(); r != nil {
			f = mkfail("panic", fmt.Sprint("panic: ", r, "\n", string(debug.Stack())))
		}
	}()
	if err := w.CloneBase(dir); err != nil {
		return 0, mkfail("infra", err.Error()), nil
	}
	defer os.RemoveAll(dir)
	opts := &chain.NewChanOpts{}
	n := w.OpenNode(dir, opts)
	// no deferred Close: after a panic inside the library its locks may still be held (Close would hang);
	// the node is then simply abandoned, as a crashed process would be
	defer func() {
		if f == nil || f.kind != "panic" {
			if r := recover(); r != nil {
				f = mkfail("panic", fmt.Sprint("panic: ", r, "\n", string(debug.Stack())))
				return
			}
			n.Close()
		}
	}()
	if bal {
		common.BlockChain = n.Ch
		wallet.Disable()
		curMinBal = minBal
		loadBalances()
	}
	var steps []Step
	chk := map[int]bool{}
	if ln.Last != nil {
		steps = append(append(steps, ln.Path...), *ln.Last)
		chk[len(steps)-1] = true
	} else {
		steps = ln.Steps
		for i := range steps {
			chk[i] = true
		}
	}
	for i, st := range steps {
		step = i
		switch st.A {
		case "Deliver":
			acc, later, _ := n.Deliver(w.Block(st.B))
			if st.P != nil {
				if acc != st.P.Acc {
					return i, mkfail("verdict", fmt.Sprintf("block %d accepted=%v, model predicts accepted=%v (violates %v)", st.B, acc, st.P.Acc, st.P.Viol), st.B), st.P.Viol
				}
				if later != st.P.Later {
					return i, mkfail("later", fmt.Sprintf("block %d maybe-later=%v, model predicts %v", st.B, later, st.P.Later), st.B), nil
				}
			}
		case "Idle":
			n.Ch.Idle()
		case "BalEnable":
			if bal {
				setMinBal(st.B) // the limit the model chose for the rebuilt index
				loadBalances()
			}
		case "BalDisable":
			if bal {
				wallet.Disable()
			}
		}
		if chk[i] && st.P != nil && !st.P.PathOnly {
			if f := checkState(n, st.P, bal); f != nil {
				f.b = st.B
				return i, f, st.P.Viol
			}
			if st.P.Kf != "" { // the real code did exactly what the model of the code predicts, and that is a known finding
				return i, mkfail("finding", st.P.Kf, st.B), nil
			}
		}
	}
	return -1, nil, nil
}

func main() {
	if len(os.Args) >= 2 && os.Args[1] == "record" {
		cmdRecord(os.Args[2:])
		return
	}
	if len(os.Args) >= 3 && os.Args[1] == "subsidy" {
		cmdSubsidy(os.Args[2])
		return
	}
	if len(os.Args) < 2 || os.Args[1] != "replay" {
		fmt.Fprintln(os.Stderr, "usage: ledger replay|record ...")
		os.Exit(2)
	}
	fs := flag.NewFlagSet("replay", flag.ExitOnError)
	scen := fs.String("scenario", "", "")
	in := fs.String("in", "-", "")
	dir := fs.String("dir", os.TempDir(), "")
	workers := fs.Int("workers", 8, "")
	bal := fs.Bool("bal", false, "")
	compress := fs.Bool("compress", false, "")
	maxFail := fs.Int("maxfail", 200, "")
	mapcnt := fs.Int("usemapcnt", 3, "")
	fs.Parse(os.Args[2:])

	var sc conc.Scenario
	b, err := os.ReadFile(*scen)
	if err == nil {
		err = json.Unmarshal(b, &sc)
	}
	if err != nil {
		fmt.Fprintln(os.Stderr, "scenario:", err)
		os.Exit(2)
	}
	if *bal {
		*workers = 1 // client/wallet works on the one global common.BlockChain
		common.GocoinHomeDir = *dir + string(os.PathSeparator)
		common.Testnet = true
		common.CFG.Testnet = true
		common.CFG.AllBalances.MinValue = minBal
		common.CFG.AllBalances.UseMapCnt = uint32(*mapcnt)
		common.ApplyBalMinVal()
	}
	utxo.UTXO_WRITING_TIME_TARGET = 0
	w, err := conc.NewWorld(sc, *dir, *compress)
	if err != nil {
		fmt.Fprintln(os.Stderr, "world:", err)
		os.Exit(2)
	}
	installTxChecker(w)
	out := vio.NewOut()
	jobs := make(chan []byte, 256)
	var nLines, nSteps, nFail int64
	var seenMu sync.Mutex
	seen := map[string]int{}
	done := make(chan struct{})
	go func() {
		vio.Pool(*workers, jobs, func(wk int, raw []byte) {
			var ln Line
			n := atomic.AddInt64(&nLines, 1) - 1
			if err := json.Unmarshal(raw, &ln); err != nil {
				out.Put(result{N: int(n), Kind: "infra", What: "unparsable line: " + err.Error()})
				atomic.AddInt64(&nFail, 1)
				return
			}
			atomic.AddInt64(&nSteps, int64(len(ln.Path)+len(ln.Steps)))
			step, f, viol := replayOne(w, filepath.Join(*dir, fmt.Sprintf("w%d", wk)), &ln, *bal)
			if f != nil {
				sort.Strings(viol)
				atomic.AddInt64(&nFail, 1)
				key := fmt.Sprint(f.kind, f.b, viol)
				seenMu.Lock()
				dup := seen[key] >= 2 || len(seen) > *maxFail
				seen[key]++
				seenMu.Unlock()
				if !dup {
					out.Put(result{N: int(n), Step: step, Kind: f.kind, What: f.what, B: f.b, Viol: viol, Line: json.RawMessage(raw)})
				}
			}
		})
		close(done)
	}()
	err = vio.ReadLines(*in, func(n int, line []byte) error {
		jobs <- append([]byte(nil), line...)
		return nil
	})
	close(jobs)
	<-done
	if err != nil {
		fmt.Fprintln(os.Stderr, "read:", err)
		os.Exit(2)
	}
	out.Put(map[string]interface{}{"summary": true, "lines": nLines, "steps": nSteps, "fail": nFail})
	out.Flush()
}
