package main

// record: R->V for Ledger.tla. A seeded random scenario (block tree, random transactions, deliberately
// invalid ones mixed in) is delivered in several random orders to real chains; the observations are written
// as ndjson for TraceLedger, the scenario as JSON in the layout TraceLedger reads.

import (
	"encoding/json"
	"flag"
	"fmt"
	"math/rand"
	"os"
	"path/filepath"
	"sort"

	"github.com/piotrnar/gocoin/client/common"
	"github.com/piotrnar/gocoin/client/wallet"
	"github.com/piotrnar/gocoin/lib/utxo"

	"verifharness/conc"
)

type op2 struct{ tx, vout int }

type genState struct {
	rnd    *rand.Rand
	sc     conc.Scenario
	view   map[int]map[op2]int64 // block id -> believed unspent outputs (amount in satoshi)
	spent  map[int][]op2         // block id -> outpoints spent on its branch (for double spends)
	height map[int]int
	nextTx int
}

func amt(sat int64) conc.Amt { return conc.Amt{U: sat / 100000000, E: sat % 100000000} }

func copyView(v map[op2]int64) map[op2]int64 {
	n := make(map[op2]int64, len(v))
	for k, x := range v {
		n[k] = x
	}
	return n
}

func (g *genState) outsOf(t int) []conc.OutDef {
	if t > conc.CbBase {
		return g.sc.Blk[t-conc.CbBase].Cbouts
	}
	if t >= 1 && t <= g.sc.BaseH {
		return []conc.OutDef{{Amt: conc.Amt{U: 50}, Addr: 0, St: conc.StP2SH}}
	}
	return g.sc.Tx[t].Outs
}

func (g *genState) spendable(v map[op2]int64, height int) []op2 {
	var res []op2
	for o := range v {
		if o.tx > conc.CbBase {
			continue // a scenario block's coinbase never matures within a scenario
		}
		if o.tx <= g.sc.BaseH && height-o.tx < 100 {
			continue
		}
		st := g.outsOf(o.tx)[o.vout-1].St
		if st >= conc.StP2SH && st <= conc.StP2WPKH {
			res = append(res, o)
		}
	}
	sort.Slice(res, func(i, j int) bool {
		if res[i].tx != res[j].tx {
			return res[i].tx < res[j].tx
		}
		return res[i].vout < res[j].vout
	})
	return res
}

func genScenario(seed int64, nblocks int) conc.Scenario {
	g := &genState{rnd: rand.New(rand.NewSource(seed)), view: map[int]map[op2]int64{}, spent: map[int][]op2{}, height: map[int]int{}, nextTx: 201}
	g.sc = conc.Scenario{BaseH: 120, Blk: conc.IntMap[conc.BlkDef]{}, Tx: conc.IntMap[conc.TxDef]{}}
	g.view[0] = map[op2]int64{}
	for h := 1; h <= g.sc.BaseH; h++ {
		g.view[0][op2{h, 1}] = 50e8
	}
	g.height[0] = g.sc.BaseH
	const fee = 100000
	for b := 1; b <= nblocks; b++ {
		p := b - 1
		switch r := g.rnd.Intn(100); {
		case r < 20:
			p = 0
		case r < 45:
			p = g.rnd.Intn(b)
		}
		h := g.height[p] + 1
		g.height[b] = h
		v := copyView(g.view[p])
		sp := append([]op2{}, g.spent[p]...)
		var txs []int
		var fees int64
		broken := false
		for k := g.rnd.Intn(4); k > 0 && !broken; k-- {
			if g.nextTx > 201 && g.rnd.Intn(100) < 12 { // re-use a transaction of another block (valid or not here)
				t := 201 + g.rnd.Intn(g.nextTx-201)
				ok := true
				var sum, out int64
				for _, in := range g.sc.Tx[t].Ins {
					a, present := v[op2{in.Tx, in.Vout}]
					ok = ok && present && in.Ok
					sum += a
				}
				for _, o := range g.sc.Tx[t].Outs {
					out += int64(o.Amt.Sat())
				}
				dup := false
				for _, x := range txs {
					dup = dup || x == t
				}
				if dup {
					continue
				}
				txs = append(txs, t)
				if ok && out <= sum {
					for _, in := range g.sc.Tx[t].Ins {
						delete(v, op2{in.Tx, in.Vout})
						sp = append(sp, op2{in.Tx, in.Vout})
					}
					for i, o := range g.sc.Tx[t].Outs {
						v[op2{t, i + 1}] = int64(o.Amt.Sat())
					}
					fees += sum - out
				} else {
					broken = true
				}
				continue
			}
			cand := g.spendable(v, h)
			if len(cand) == 0 {
				break
			}
			nin := 1 + g.rnd.Intn(2)
			if nin > len(cand) {
				nin = len(cand)
			}
			g.rnd.Shuffle(len(cand), func(i, j int) { cand[i], cand[j] = cand[j], cand[i] })
			var ins []conc.InDef
			var total int64
			for _, o := range cand[:nin] {
				ins = append(ins, conc.InDef{Tx: o.tx, Vout: o.vout, Ok: true})
				total += v[o]
			}
			if total <= fee+10 {
				continue
			}
			nout := 1 + g.rnd.Intn(3)
			rest := total - fee
			var outs []conc.OutDef
			for i := 0; i < nout; i++ {
				a := rest
				if i < nout-1 {
					a = 1 + g.rnd.Int63n(rest-int64(nout-i))
					if g.rnd.Intn(6) == 0 {
						a = []int64{0, 0, 1, 999, 1000, 50000, 99999, 100000, 100001}[g.rnd.Intn(9)]
						if a >= rest-int64(nout-i) {
							a = 1
						}
					}
				}
				rest -= a
				outs = append(outs, conc.OutDef{Amt: amt(a), Addr: 1 + g.rnd.Intn(4), St: 1 + g.rnd.Intn(6)})
			}
			thisFee := int64(fee)
			if g.rnd.Intn(100) < 14 { // deliberately invalid
				broken = true
				switch g.rnd.Intn(5) {
				case 0:
					ins[g.rnd.Intn(len(ins))].Ok = false
				case 1:
					outs[len(outs)-1].Amt = amt(int64(outs[len(outs)-1].Amt.Sat()) + fee + 1)
				case 2:
					ins = append(ins, conc.InDef{Tx: 199, Vout: 1, Ok: true})
				case 3:
					if len(sp) > 0 {
						o := sp[g.rnd.Intn(len(sp))]
						ins = append(ins, conc.InDef{Tx: o.tx, Vout: o.vout, Ok: true})
					} else {
						ins[0].Ok = false
					}
				case 4:
					cbh := h - 1 - g.rnd.Intn(99)
					if cbh >= 1 && cbh <= g.sc.BaseH {
						if _, there := v[op2{cbh, 1}]; there {
							ins = append(ins, conc.InDef{Tx: cbh, Vout: 1, Ok: true})
							break
						}
					}
					ins[0].Ok = false
				}
			}
			t := g.nextTx
			g.nextTx++
			g.sc.Tx[t] = conc.TxDef{Ins: ins, Outs: outs, Ver: 2}
			txs = append(txs, t)
			if !broken {
				for _, in := range ins {
					delete(v, op2{in.Tx, in.Vout})
					sp = append(sp, op2{in.Tx, in.Vout})
				}
				for i, o := range outs {
					v[op2{t, i + 1}] = int64(o.Amt.Sat())
				}
				fees += thisFee
			}
		}
		if g.rnd.Intn(10) == 0 && len(txs) >= 2 { // an output spent before it is created
			txs[0], txs[len(txs)-1] = txs[len(txs)-1], txs[0]
		}
		claim := int64(50e8) + fees
		switch r := g.rnd.Intn(100); {
		case r < 7:
			claim++
		case r < 12:
			claim--
		}
		g.sc.Blk[b] = conc.BlkDef{Parent: p, Txs: txs, Cbouts: []conc.OutDef{{Amt: amt(claim), Addr: 9, St: conc.StP2SH}}}
		if g.sc.Blk[b].Txs == nil {
			d := g.sc.Blk[b]
			d.Txs = []int{}
			g.sc.Blk[b] = d
		}
		v[op2{conc.CbBase + b, 1}] = claim
		g.view[b] = v
		g.spent[b] = sp
	}
	return g.sc
}

func cmdRecord(args []string) {
	fs := flag.NewFlagSet("record", flag.ExitOnError)
	dir := fs.String("dir", os.TempDir(), "")
	seed := fs.Int64("seed", 1, "")
	nblocks := fs.Int("blocks", 12, "")
	orders := fs.Int("orders", 6, "")
	compress := fs.Bool("compress", false, "")
	bal := fs.Bool("bal", false, "check the client/wallet balance index after every delivery (one chain at a time)")
	outScen := fs.String("scenario-out", "scenario.json", "")
	outTrace := fs.String("trace-out", "trace.ndjson", "")
	fs.Parse(args)
	sc := genScenario(*seed, *nblocks)
	// the scenario in the layout TraceLedger reads: arrays indexed by block id / tx id - 200
	type tlaScen struct {
		Blocks []conc.BlkDef `json:"blocks"`
		Txs    []conc.TxDef  `json:"txs"`
		BaseH  int           `json:"baseh"`
	}
	ts := tlaScen{BaseH: sc.BaseH}
	for b := 1; b <= len(sc.Blk); b++ {
		ts.Blocks = append(ts.Blocks, sc.Blk[b])
	}
	for t := 201; t < 201+len(sc.Tx); t++ {
		d := sc.Tx[t]
		if d.Ins == nil {
			d.Ins = []conc.InDef{}
		}
		ts.Txs = append(ts.Txs, d)
	}
	bj, _ := json.Marshal(ts)
	os.WriteFile(*outScen, bj, 0660)

	utxo.UTXO_WRITING_TIME_TARGET = 0
	if *bal {
		common.GocoinHomeDir = *dir + string(os.PathSeparator)
		common.Testnet = true
		common.CFG.Testnet = true
		common.CFG.AllBalances.MinValue = minBal
		common.CFG.AllBalances.UseMapCnt = 3
		common.ApplyBalMinVal()
	}
	w, err := conc.NewWorld(sc, *dir, *compress)
	if err != nil {
		fmt.Fprintln(os.Stderr, "world:", err)
		os.Exit(2)
	}
	installTxChecker(w)
	f, _ := os.Create(*outTrace)
	defer f.Close()
	enc := json.NewEncoder(f)
	rnd := rand.New(rand.NewSource(*seed*31 + 7))
	nev := 0
	problems := []string{}
	for o := 0; o < *orders; o++ {
		d := filepath.Join(*dir, fmt.Sprintf("rec%d", o))
		if err := w.CloneBase(d); err != nil {
			fmt.Fprintln(os.Stderr, err)
			os.Exit(2)
		}
		n := w.OpenNode(d, nil)
		if *bal {
			common.BlockChain = n.Ch
			wallet.Disable()
			curMinBal = minBal
			loadBalances()
		}
		enc.Encode(map[string]interface{}{"ev": "reset", "b": 0, "acc": false, "later": false, "tip": 0, "unew": []conc.UtxoEnt{}, "gone": []int{}})
		nev++
		var order []int
		for b := 1; b <= len(sc.Blk); b++ {
			order = append(order, b)
		}
		if o > 0 { // first history: parents before children; others: local shuffles / full shuffle
			if o%2 == 1 {
				for i := 0; i+1 < len(order); i++ {
					if rnd.Intn(3) == 0 {
						order[i], order[i+1] = order[i+1], order[i]
					}
				}
			} else {
				rnd.Shuffle(len(order), func(i, j int) { order[i], order[j] = order[j], order[i] })
			}
		}
		var again []int
		deliver := func(b int) {
			acc, later, _ := n.Deliver(w.Block(b))
			tip, ok := n.Tip()
			ents, pr := n.DumpUtxo()
			if !ok {
				pr = append(pr, "tip is an unknown block")
			}
			for _, p := range pr {
				problems = append(problems, fmt.Sprintf("order %d block %d: %s", o, b, p))
			}
			if *bal {
				if rnd.Intn(7) == 0 { // the index rebuilt from the populated set must agree as well
					wallet.Disable()
					if rnd.Intn(2) == 0 {
						toggleMinBal() // ... also under the other dust limit
					}
					loadBalances()
				}
				if f := checkBalances(n, ents); f != nil {
					problems = append(problems, fmt.Sprintf("balance index after order %d block %d: %s", o, b, f.what))
				}
			}
			gone := []int{}
			have := map[int]bool{}
			unew := []conc.UtxoEnt{}
			for _, e := range ents {
				if e.Tx <= sc.BaseH {
					have[e.Tx] = true
				} else {
					unew = append(unew, e)
				}
			}
			for h := 1; h <= sc.BaseH; h++ {
				if !have[h] {
					gone = append(gone, h)
				}
			}
			enc.Encode(map[string]interface{}{"ev": "deliver", "b": b, "acc": acc, "later": later, "tip": tip, "unew": unew, "gone": gone})
			nev++
			if later {
				again = append(again, b)
			}
		}
		for _, b := range order {
			deliver(b)
		}
		sort.Ints(again)
		for _, b := range again {
			deliver(b)
		}
		n.Close()
		os.RemoveAll(d)
	}
	out, _ := json.Marshal(map[string]interface{}{"events": nev, "blocks": len(sc.Blk), "txs": len(sc.Tx), "problems": problems})
	fmt.Println("\n" + string(out))
}
