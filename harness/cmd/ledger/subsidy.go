package main

import (
	"encoding/json"
	"fmt"
	"os"

	"github.com/piotrnar/gocoin/lib/btc"
	"verifharness/conc"
	"verifharness/vio"
)

// cmdSubsidy compares btc.GetBlockReward with the subsidy the model exported for every halving boundary.
// Output: one JSON line per disagreement, then a summary line.
func cmdSubsidy(file string) {
	n, bad, kinds := 0, 0, map[uint64]bool{}
	err := vio.ReadLines(file, func(_ int, line []byte) error {
		var l struct {
			Height  uint32   `json:"height"`
			Subsidy conc.Amt `json:"subsidy"`
		}
		if e := json.Unmarshal(line, &l); e != nil {
			return e
		}
		n++
		got := btc.GetBlockReward(l.Height)
		kinds[got] = true
		if got != l.Subsidy.Sat() {
			bad++
			j, _ := json.Marshal(map[string]interface{}{"kind": "subsidy", "height": l.Height, "got": got, "want": l.Subsidy.Sat()})
			fmt.Println(string(j))
		}
		return nil
	})
	if err != nil {
		fmt.Fprintln(os.Stderr, err)
		os.Exit(2)
	}
	j, _ := json.Marshal(map[string]interface{}{"summary": true, "lines": n, "fail": bad, "distinct": len(kinds)})
	fmt.Println(string(j))
}
