package main

// BlockDB concurrency driver ("the background block writer", result independent of scheduling):
// rounds of { queue a batch with BlockAdd; goroutine A: Idle() writes the batch; goroutine B: BlockTrusted on
// the blocks of the previous (already written) batch }, then Close, reopen, LoadBlockIndex and compare every
// record (count, height, length, data, trusted flag).  Whatever the schedule, every block that was stored must
// come back exactly once: a lost / shifted / wrongly flagged record is a violation, no loss is a pass.
// (The shared state that matters here is the kernel's file offset of blockchain.new: the race detector cannot
// see it, only the outcome can.)

import (
	"bytes"
	"crypto/sha256"
	"encoding/binary"
	"flag"
	"fmt"
	"os"
	"path/filepath"
	"sync"

	"github.com/piotrnar/gocoin/lib/btc"
	"github.com/piotrnar/gocoin/lib/chain"
)

func bdbBlock(seed int64, i int) *btc.Block {
	raw := make([]byte, 80+1+100+i%57)
	binary.LittleEndian.PutUint32(raw[0:4], 0x20000000)
	h := sha256.Sum256([]byte(fmt.Sprint("vf-c11-blockdb-", seed, "-", i)))
	copy(raw[4:36], h[:])
	copy(raw[36:68], h[:])
	binary.LittleEndian.PutUint32(raw[68:72], uint32(1700000000+i))
	binary.LittleEndian.PutUint32(raw[76:80], uint32(i))
	raw[80] = 1
	for j := 81; j < len(raw); j++ {
		raw[j] = byte(i*7 + j)
	}
	bl, er := btc.NewBlock(raw)
	if er != nil {
		panic(er)
	}
	return bl
}

func cmdBlockDB(args []string) {
	fs := flag.NewFlagSet("blockdb", flag.ExitOnError)
	dir := fs.String("dir", os.TempDir(), "")
	seed := fs.Int64("seed", 1, "")
	rounds := fs.Int("rounds", 30, "")
	batch := fs.Int("batch", 400, "")
	fs.Parse(args)
	d := filepath.Join(*dir, "bdb") + string(os.PathSeparator)
	os.RemoveAll(d)
	os.MkdirAll(d, 0770)
	defer os.RemoveAll(d)
	noop := func(ch *chain.Chain, hash, hdr []byte, height, blen, txs uint32) {}
	db := chain.NewBlockDBExt(d, &chain.BlockDBOpts{})
	db.LoadBlockIndex(nil, noop)
	n := (*rounds + 1) * *batch
	blocks := make([]*btc.Block, n)
	for i := range blocks {
		blocks[i] = bdbBlock(*seed, i)
	}
	for i := 0; i < *batch; i++ {
		db.BlockAdd(uint32(i+1), blocks[i])
	}
	db.Idle()
	for r := 1; r <= *rounds; r++ {
		for i := r * *batch; i < (r+1)**batch; i++ {
			db.BlockAdd(uint32(i+1), blocks[i])
		}
		var wg sync.WaitGroup
		wg.Add(2)
		start := make(chan bool)
		go func() {
			<-start
			db.Idle()
			wg.Done()
		}()
		go func(r int) {
			<-start
			for i := (r - 1) * *batch; i < r**batch; i++ {
				db.BlockTrusted(blocks[i].Hash.Hash[:])
			}
			wg.Done()
		}(r)
		close(start)
		wg.Wait()
	}
	db.Close()

	type rec struct {
		height, blen uint32
		cnt          int
	}
	found := map[[32]byte]*rec{}
	records := 0
	db = chain.NewBlockDBExt(d, &chain.BlockDBOpts{})
	db.LoadBlockIndex(nil, func(ch *chain.Chain, hash, hdr []byte, height, blen, txs uint32) {
		var h [32]byte
		copy(h[:], hash)
		records++
		if r := found[h]; r != nil {
			r.cnt++
		} else {
			found[h] = &rec{height: height, blen: blen, cnt: 1}
		}
	})
	var missing, wrongrec, wrongdata, wrongflag, unknown int
	firstMissing := -1
	known := map[[32]byte]bool{}
	for i, bl := range blocks {
		known[bl.Hash.Hash] = true
		r := found[bl.Hash.Hash]
		if r == nil {
			missing++
			if firstMissing < 0 {
				firstMissing = i
			}
			continue
		}
		if r.cnt != 1 || r.height != uint32(i+1) || r.blen != uint32(len(bl.Raw)) {
			wrongrec++
		}
		dat, trusted, er := db.BlockGet(bl.Hash)
		if er != nil || !bytes.Equal(dat, bl.Raw) {
			wrongdata++
		}
		if trusted != (i < *rounds**batch) {
			wrongflag++
		}
	}
	for h := range found {
		if !known[h] {
			unknown++
		}
	}
	db.Close()
	size := int64(-1)
	if fi, e := os.Stat(d + "blockchain.new"); e == nil {
		size = fi.Size()
	}
	if missing+wrongrec+wrongdata+wrongflag+unknown > 0 || records != n || size != int64(n)*136 {
		out.Put(map[string]interface{}{"kind": "blockstore", "seed": *seed, "rounds": *rounds, "batch": *batch,
			"what": fmt.Sprintf("blocks stored while BlockTrusted ran next to the block writer do not all come back after a reopen: index lists %d of %d records (file %d bytes = %d x 136 + %d); %d blocks missing (first: #%d), %d with a wrong index record, %d with wrong data, %d with a wrong trusted flag, %d unknown records",
				records, n, size, size/136, size%136, missing, firstMissing, wrongrec, wrongdata, wrongflag, unknown)})
	}
	out.Put(map[string]interface{}{"summary": true, "blocks": n, "records": records, "rounds": *rounds, "batch": *batch})
}
