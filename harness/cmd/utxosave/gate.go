package main

// Gated replay (DESIGN 2.2 D): a TLC-chosen interleaving of UtxoSave is forced on the real UnspentDB.
// Every verif hook parks its goroutine; the driver releases exactly the goroutine whose step comes next in the
// schedule and waits until it is parked again (at the hook the model predicts) before it goes on.  After every
// step the files, the exported fields and the bucket locks are compared with the model's prediction, and any
// UTXO.db that is visible is parsed completely (the deterministic form of the watcher).

import (
	"encoding/json"
	"fmt"
	"os"
	"path/filepath"
	"reflect"
	"runtime"
	"sort"
	"strconv"
	"strings"
	"sync"
	"time"

	"github.com/piotrnar/gocoin/lib/others/verif"
	"github.com/piotrnar/gocoin/lib/utxo"
)

type Pred struct {
	Db      int    `json:"db"`
	DbGood  bool   `json:"dbgood"`
	Old     int    `json:"old"`
	OldGood bool   `json:"oldgood"`
	Tmps    []int  `json:"tmps"`
	Wip     bool   `json:"wip"`
	Abort   int    `json:"abort"` // tokens in abortwritingnow
	Dirty   bool   `json:"dirty"`
	Last    int    `json:"last"`
	OnDisk  int    `json:"ondisk"`
	Locks   []bool `json:"locks"`
	Quiet   bool   `json:"quiet"`
	Collide bool   `json:"collide"`
}

type Step struct {
	P    string `json:"p"`
	I    int    `json:"i"`
	Op   string `json:"op"`
	Hook string `json:"hook"`
	Ab   bool   `json:"ab"`
	Pr   *Pred  `json:"pr"`
}

type Line struct {
	Steps    []Step `json:"steps"`
	Complete bool   `json:"complete"`
	Dirty0   *bool  `json:"dirty0,omitempty"` // initial DirtyDB (derived from the first prediction when absent)
}

type GOpts struct {
	NB       int  `json:"nb"`
	RPB      int  `json:"rpb"`
	MaxH     int  `json:"maxh"`
	InitH    int  `json:"inith"`
	Throttle bool `json:"throttle"`
	// the schedules come from the refuted variant WaitWriter = FALSE (Save() without lastFileClosed.Wait()):
	// where that model starts a save while a file writer is alive, the repaired code blocks instead
	OldModel bool `json:"oldmodel"`
}

func goid() uint64 {
	var b [64]byte
	n := runtime.Stack(b[:], false)
	s := strings.TrimPrefix(string(b[:n]), "goroutine ")
	if i := strings.IndexByte(s, ' '); i > 0 {
		s = s[:i]
	}
	id, _ := strconv.ParseUint(s, 10, 64)
	return id
}

// hooks of goroutines the model does not follow (the undo-file writer of CommitBlockTxs, chain-level points)
func ignoredHook(name string) bool {
	switch name {
	case "undo_tmp_written", "undo_renamed":
		return true
	}
	return strings.HasPrefix(name, "blk_") || strings.HasPrefix(name, "cb_") || strings.HasPrefix(name, "ptb_") ||
		strings.HasPrefix(name, "ulb_") || strings.HasPrefix(name, "db_")
}

type arrival struct {
	gid  uint64
	name string
	ab   bool
	rel  chan struct{}
}

type proc struct {
	key    string
	gid    uint64
	parked *arrival
	box    chan *arrival
}

type failure struct {
	Kind string `json:"kind"` // visible | collision | diverge | state | files | locks | deadlock | infra
	What string `json:"what"`
	Step int    `json:"step"`
}

type gateRun struct {
	w      *world
	o      GOpts
	dir    string
	db     *utxo.UnspentDB
	mu     sync.Mutex
	kv     map[uint64]bool // last "abort" value per goroutine (set by the sink)
	in     chan *arrival
	procs  map[string]*proc
	byGid  map[uint64]*proc
	unk    []*arrival // arrivals of goroutines not yet bound to a process
	free   bool       // free-run: hooks do not park any more
	mainC  chan string
	events []string
	wait   time.Duration
	// collision bookkeeping from the hook stream: writer index -> tmp path (abstract block) while it owns it
	owns     map[int]int
	collided string
	pendingW int  // file writers spawned and not yet past writer_renamed / writer_removed
	waited   bool // (OldModel) Main blocked in Save() where the old model starts a save next to a live writer
}

// the hooks are installed once per process; they dispatch to the run that is current
type hookTarget interface {
	sink(seq uint64, name string, kv []interface{})
	gate(name string)
}

var (
	curMu  sync.RWMutex
	curRun hookTarget
)

func setRun(g hookTarget) {
	curMu.Lock()
	curRun = g
	curMu.Unlock()
}

func installGate() {
	verif.Sink = func(seq uint64, name string, kv []interface{}) {
		curMu.RLock()
		g := curRun
		curMu.RUnlock()
		if g != nil {
			g.sink(seq, name, kv)
		}
	}
	verif.Gate = func(name string) {
		curMu.RLock()
		g := curRun
		curMu.RUnlock()
		if g != nil {
			g.gate(name)
		}
	}
}

func (g *gateRun) sink(seq uint64, name string, kv []interface{}) {
	id := goid()
	ab := false
	for i := 0; i+1 < len(kv); i += 2 {
		if k, _ := kv[i].(string); k == "abort" {
			ab, _ = kv[i+1].(bool)
		}
	}
	g.mu.Lock()
	g.kv[id] = ab
	g.mu.Unlock()
}

func (g *gateRun) gate(name string) {
	if ignoredHook(name) {
		return
	}
	id := goid()
	g.mu.Lock()
	ab := g.kv[id]
	free := g.free
	g.mu.Unlock()
	a := &arrival{gid: id, name: name, ab: ab}
	if !free && name != "save_returned" {
		a.rel = make(chan struct{})
	}
	g.in <- a
	if a.rel != nil {
		<-a.rel
	}
}

func (g *gateRun) proc(p string, i int) *proc {
	k := p + strconv.Itoa(i)
	pr := g.procs[k]
	if pr == nil {
		pr = &proc{key: k, box: make(chan *arrival, 64)}
		g.procs[k] = pr
	}
	return pr
}

// pump moves arrivals from the gate into the mailbox of their process (or the unknown list).
func (g *gateRun) pump(block time.Duration) bool {
	var a *arrival
	if block > 0 {
		select {
		case a = <-g.in:
		case <-time.After(block):
			return false
		}
	} else {
		select {
		case a = <-g.in:
		default:
			return false
		}
	}
	g.events = append(g.events, fmt.Sprintf("%d:%s", a.gid, a.name))
	if pr := g.byGid[a.gid]; pr != nil {
		pr.box <- a
	} else {
		g.unk = append(g.unk, a)
	}
	return true
}

// await waits for the next arrival of pr.
func (g *gateRun) await(pr *proc) *arrival {
	deadline := time.Now().Add(g.wait)
	for {
		select {
		case a := <-pr.box:
			return a
		default:
		}
		if time.Now().After(deadline) {
			return nil
		}
		g.pump(50 * time.Millisecond)
	}
}

// awaitNew waits for the arrival of a goroutine not seen before at hook name and binds it to pr.
func (g *gateRun) awaitNew(pr *proc, name string) *arrival {
	deadline := time.Now().Add(g.wait)
	for {
		for i, a := range g.unk {
			if a.name == name {
				g.unk = append(g.unk[:i], g.unk[i+1:]...)
				pr.gid = a.gid
				g.byGid[a.gid] = pr
				return a
			}
		}
		if time.Now().After(deadline) {
			return nil
		}
		g.pump(50 * time.Millisecond)
	}
}

func (g *gateRun) release(pr *proc) {
	if pr.parked != nil {
		if pr.parked.rel != nil {
			close(pr.parked.rel)
		}
		pr.parked = nil
	}
}

// waitBlocked waits until the goroutine of pr is blocked in the runtime (WaitGroup / channel / mutex) or has
// reached its next hook.
func (g *gateRun) waitBlocked(pr *proc) bool {
	deadline := time.Now().Add(g.wait)
	buf := make([]byte, 1<<20)
	for time.Now().Before(deadline) {
		g.pump(0)
		if len(pr.box) > 0 {
			return true
		}
		n := runtime.Stack(buf, true)
		all := string(buf[:n])
		tag := fmt.Sprintf("goroutine %d [", pr.gid)
		if i := strings.Index(all, tag); i >= 0 {
			st := all[i+len(tag):]
			if j := strings.IndexByte(st, ']'); j >= 0 {
				st = st[:j]
			}
			if strings.HasPrefix(st, "semacquire") || strings.HasPrefix(st, "sync.WaitGroup") {
				// blocked in WaitGroup.Wait (a goroutine parked in the gate shows "chan receive" and has
				// delivered its arrival before): look once more for an arrival that came in meanwhile
				for g.pump(0) {
				}
				return true
			}
		}
		time.Sleep(100 * time.Microsecond)
	}
	return false
}

// mainLoop is the goroutine that plays Main: it performs the operations the driver hands it.
func (g *gateRun) mainLoop(cur *int) {
	id := goid()
	g.in <- &arrival{gid: id, name: "main_ready"}
	for op := range g.mainC {
		g.doOp(op, cur)
		g.in <- &arrival{gid: id, name: "ret"}
	}
}

func (g *gateRun) doOp(op string, cur *int) {
	db, w := g.db, g.w
	switch op {
	case "Commit":
		h := w.blockHash(*cur + 1)
		db.CommitBlockTxs(w.changes(*cur+1), h[:])
		*cur++
	case "Undo":
		h := w.blockHash(*cur - 1)
		db.UndoBlockTxs(w.undoBlock(*cur), h[:])
		*cur--
	case "Abort":
		db.AbortWriting()
	case "Idle":
		db.Idle()
	case "Save":
		db.Save()
	case "HurryUp":
		db.HurryUp()
	case "Close":
		db.Close()
	}
}

// observe compares what can be seen of the real system with the prediction after step n.
func (g *gateRun) observe(n int, st *Step, strict bool) *failure {
	pr := st.Pr
	// ---- files: every snapshot visible under its final name must be a complete snapshot of its header block
	s, err := parseSnap(filepath.Join(g.dir, "UTXO.db"))
	if err == nil {
		if p := g.w.checkSnap(s); p != "" {
			return &failure{"visible", "UTXO.db is visible but " + p, n}
		}
	}
	if !strict {
		return nil
	}
	got := -1
	if err == nil {
		got = g.w.hashOf[s.hash]
	}
	if got != pr.Db {
		return &failure{"files", fmt.Sprintf("UTXO.db holds block %d, model predicts %d (-1 = no file)", got, pr.Db), n}
	}
	so, err := parseSnap(filepath.Join(g.dir, "UTXO.old"))
	got = -1
	if err == nil {
		if p := g.w.checkSnap(so); p != "" {
			if pr.OldGood {
				return &failure{"files", "UTXO.old: " + p, n}
			}
			got = pr.Old
		} else {
			got = g.w.hashOf[so.hash]
		}
	}
	if got != pr.Old {
		return &failure{"files", fmt.Sprintf("UTXO.old holds block %d, model predicts %d (-1 = no file)", got, pr.Old), n}
	}
	tm := g.w.tmpFiles(g.dir)
	want := append([]int{}, pr.Tmps...)
	sort.Ints(want)
	if fmt.Sprint(tm) != fmt.Sprint(want) {
		return &failure{"files", fmt.Sprintf("tmp files of blocks %v exist, model predicts %v", tm, want), n}
	}
	if !pr.Quiet {
		return nil
	}
	// ---- exported fields
	db := g.db
	if db.WritingInProgress.Get() != pr.Wip || db.DirtyDB.Get() != pr.Dirty {
		return &failure{"state", fmt.Sprintf("WritingInProgress=%v DirtyDB=%v, model predicts %v %v", db.WritingInProgress.Get(), db.DirtyDB.Get(), pr.Wip, pr.Dirty), n}
	}
	// tokens waiting in abortwritingnow (unexported field: read through reflection, harness side only)
	if tok := reflect.ValueOf(db).Elem().FieldByName("abortwritingnow").Len(); tok != pr.Abort {
		return &failure{"state", fmt.Sprintf("abortwritingnow holds %d token(s), model predicts %d", tok, pr.Abort), n}
	}
	if int(db.LastBlockHeight) != H0+pr.Last || g.w.hashOf[*(*[32]byte)(db.LastBlockHash)] != pr.Last {
		return &failure{"state", fmt.Sprintf("LastBlockHeight=%d, model predicts block %d", db.LastBlockHeight, pr.Last), n}
	}
	if int(db.CurrentHeightOnDisk) != H0+pr.OnDisk {
		return &failure{"state", fmt.Sprintf("CurrentHeightOnDisk=%d, model predicts block %d", db.CurrentHeightOnDisk, pr.OnDisk), n}
	}
	// ---- bucket read locks (held by save() until it returns)
	for k, held := range pr.Locks {
		m := &db.MapMutex[bucketByte[k]]
		free := m.TryLock()
		if free {
			m.Unlock()
		}
		if free == held {
			return &failure{"locks", fmt.Sprintf("MapMutex of bucket %d is %s, model predicts %s", k+1, map[bool]string{true: "free", false: "held"}[free], map[bool]string{true: "read-locked by save()", false: "free"}[held]), n}
		}
	}
	return nil
}

// track follows who owns which tmp path from the hook stream (independent of the model).
func (g *gateRun) track(st *Step, a *arrival, wpath map[int]int) {
	if st.P != "W" {
		return
	}
	if a.name == "writer_renamed" || a.name == "writer_removed" {
		g.pendingW--
	}
	switch a.name {
	case "writer_created":
		for w2, p := range g.owns {
			if p == wpath[st.I] && w2 != st.I && g.collided == "" {
				g.collided = fmt.Sprintf("writer %d created %s.db.tmp of block %d while writer %d of an earlier save still owns that path", st.I, "<hash>", p, w2)
			}
		}
		g.owns[st.I] = wpath[st.I]
	case "writer_renamed", "writer_removed":
		delete(g.owns, st.I)
	}
}

var lastWaited bool // the last line ended with Main blocked in Save() (OldModel lines on the repaired code)

// runLine replays one schedule. Returns nil when everything agreed.
func runLine(w *world, o GOpts, base, dir string, ln *Line, wait time.Duration) (fail *failure, events []string) {
	lastWaited = false
	os.RemoveAll(dir)
	if err := copyDir(base, dir); err != nil {
		return &failure{"infra", err.Error(), 0}, nil
	}
	if o.Throttle {
		utxo.UTXO_WRITING_TIME_TARGET = time.Hour
	} else {
		utxo.UTXO_WRITING_TIME_TARGET = 0
	}
	g := &gateRun{w: w, o: o, dir: dir, kv: map[uint64]bool{}, in: make(chan *arrival, 4096), procs: map[string]*proc{},
		byGid: map[uint64]*proc{}, mainC: make(chan string), wait: wait, owns: map[int]int{}}
	setRun(nil)
	g.db = w.open(dir)
	if len(ln.Steps) > 0 && ln.Steps[0].Pr != nil {
		// initial DirtyDB: the first step never changes it except through Close/Commit/Undo, which set it later
		d := ln.Steps[0].Pr.Dirty
		if ln.Dirty0 != nil {
			d = *ln.Dirty0
		}
		if d {
			g.db.DirtyDB.Set()
		}
	}
	setRun(g)
	defer setRun(nil)
	cur := o.InitH
	go g.mainLoop(&cur)
	mp := g.proc("M", 0)
	if a := g.awaitNew(mp, "main_ready"); a == nil {
		return &failure{"infra", "main goroutine did not start", 0}, nil
	}
	wpath := map[int]int{}
	lastPred := &Pred{}
	strict := true
	bail := func(f *failure) (*failure, []string) {
		// the goroutines of this run stay parked where they are: the process reports and exits at once
		// (letting them run on would only race with the clean-up of the directory)
		return f, g.events
	}
	for n := range ln.Steps {
		st := &ln.Steps[n]
		pr := g.proc(st.P, st.I)
		fromHook := ""
		if pr.parked != nil {
			fromHook = pr.parked.name
		}
		var a *arrival
		switch {
		case st.P == "M" && st.Op != "":
			g.mainC <- st.Op
		case (st.P == "S" || st.P == "W") && pr.gid == 0:
			return bail(&failure{"infra", "schedule moves " + pr.key + " before it was spawned", n})
		default:
			g.release(pr)
		}
		if o.OldModel && st.P == "M" && st.Hook == "save_start" && g.pendingW > 0 {
			// the old model starts a save although a file writer of an earlier save is alive: the repaired
			// Save() waits for it (Main blocks in lastFileClosed.Wait()); the old code arrives at save_start
			if !g.waitBlocked(pr) {
				return bail(&failure{"deadlock", "Main neither blocked in Save() nor reached save_start", n})
			}
			if len(pr.box) == 0 {
				g.waited = true
				lastWaited = true
				ln.Steps = ln.Steps[:n+1]
				ln.Complete = false
				break
			}
		}
		if st.Hook != "" {
			if a == nil {
				if a = g.await(pr); a == nil {
					return bail(&failure{"deadlock", fmt.Sprintf("%s released from %q did not reach %q within %v (goroutines: %v)", pr.key, fromHook, st.Hook, g.wait, g.events), n})
				}
			}
			if a.name != st.Hook || (st.Hook == "save_exit_sent" && a.ab != st.Ab) {
				return bail(&failure{"diverge", fmt.Sprintf("%s went from %q to %q (abort=%v); the model of the protocol predicts %q (abort=%v)", pr.key, fromHook, a.name, a.ab, st.Hook, st.Ab), n})
			}
			if a.rel != nil {
				pr.parked = a
			}
			if a.name == "abort_sent" {
				// the segment behind this hook starts with writingDone.Wait(): Main may enter it at once (it blocks
				// there until the model lets the wait return); observing only after it is blocked (or has gone
				// on) makes everything it does before the wait visible to the comparison below
				g.release(pr)
				if !g.waitBlocked(pr) {
					return bail(&failure{"deadlock", "Main neither blocked nor arrived anywhere after abort_sent", n})
				}
			}
			// goroutines this step has spawned are bound now, so that two of a kind can never be confused
			if st.P == "M" && fromHook == "save_start" {
				ns := 1
				for g.procs["S"+strconv.Itoa(ns)] != nil && g.procs["S"+strconv.Itoa(ns)].gid != 0 {
					ns++
				}
				sp := g.proc("S", ns)
				na := g.awaitNew(sp, "save_begin")
				if na == nil {
					return bail(&failure{"deadlock", "save() goroutine did not start", n})
				}
				sp.box <- na // (the S_Begin step of the schedule consumes the arrival)
			}
			if st.P == "S" && fromHook == "save_db_to_old" {
				wp := g.proc("W", st.I)
				na := g.awaitNew(wp, "writer_start")
				if na == nil {
					return bail(&failure{"deadlock", "writer goroutine did not start", n})
				}
				wp.box <- na
				wpath[st.I] = st.Pr.Last
				g.pendingW++
			}
			g.track(st, a, wpath)
		}
		if st.Pr != nil {
			lastPred = st.Pr
			if st.Pr.Collide || (st.Pr.Db != -1 && !st.Pr.DbGood) {
				strict = false // the model itself is in a state it calls broken: only the property is judged from here on
			}
			if st.Hook != "" || st.Pr.Quiet {
				if f := g.observe(n, st, strict && st.Hook != ""); f != nil {
					if g.collided != "" {
						f.What += " (before that: " + g.collided + ")"
					}
					return bail(f)
				}
			}
		}
		if g.collided != "" && ln.Complete {
			return bail(&failure{"collision", g.collided, n})
		}
	}
	if !ln.Complete {
		// prefix of a behaviour (collision search): the rest runs freely, then Main closes the database
		busy := mainBusy(ln)
		g.mu.Lock()
		g.free = true
		g.mu.Unlock()
		for _, p := range g.procs {
			g.release(p)
			for len(p.box) > 0 { // arrivals bound to a goroutine the schedule has not moved yet
				if a := <-p.box; a.rel != nil {
					close(a.rel)
				}
			}
		}
		for _, a := range g.unk {
			if a.rel != nil {
				close(a.rel)
			}
		}
		g.unk = nil
		if !busy {
			g.mainC <- "Close"
		}
		deadline := time.Now().Add(g.wait)
		closed := false
		for !closed && time.Now().Before(deadline) {
			select {
			case a := <-g.in:
				if a.rel != nil {
					close(a.rel)
				}
				if a.gid == mp.gid && a.name == "ret" {
					if busy {
						busy = false
						g.mainC <- "Close"
					} else {
						closed = true
					}
				}
			case <-time.After(50 * time.Millisecond):
			}
		}
		if !closed {
			return bail(&failure{"deadlock", "Close did not return in the free run after the schedule prefix", len(ln.Steps)})
		}
	}
	close(g.mainC)
	// ---- final state: what is on disk after Close
	s, err := parseSnap(filepath.Join(dir, "UTXO.db"))
	final := ""
	if err != nil {
		final = "after Close there is no UTXO.db"
		if !g.db.DirtyDB.Get() {
			final += " although DirtyDB is clear"
		}
	} else if p := w.checkSnap(s); p != "" {
		final = "after Close, UTXO.db is visible but " + p
	}
	if g.collided != "" {
		if final != "" {
			final = "; " + final
		}
		return &failure{"collision", g.collided + final, len(ln.Steps)}, g.events
	}
	if err == nil && final != "" {
		return &failure{"visible", final, len(ln.Steps)}, g.events
	}
	if ln.Complete && strict {
		if len(g.unk) > 0 {
			return &failure{"diverge", fmt.Sprintf("a goroutine the model does not know reached %q", g.unk[0].name), len(ln.Steps)}, g.events
		}
		if err != nil {
			if lastPred.Db != -1 {
				return &failure{"files", "no UTXO.db after Close", len(ln.Steps)}, g.events
			}
		} else {
			// the real loader must rebuild exactly the set of the block in the header
			setRun(nil)
			db2 := w.open(dir)
			b := w.hashOf[s.hash]
			if int(db2.LastBlockHeight) != H0+b || !sameSet(memSet(db2), w.expect[b]) {
				return &failure{"visible", fmt.Sprintf("reloading the final UTXO.db (block %d) does not give the unspent-output set of that block", b), len(ln.Steps)}, g.events
			}
		}
	}
	os.RemoveAll(dir)
	return nil, g.events
}

// mainBusy: the prefix ends while Main is inside an operation (the last Main entry is not a return)
func mainBusy(ln *Line) bool {
	for i := len(ln.Steps) - 1; i >= 0; i-- {
		if ln.Steps[i].P == "M" {
			return ln.Steps[i].Hook != "ret"
		}
		if ln.Steps[i].P == "" {
			return false
		}
	}
	return false
}

func parseLine(raw []byte) (*Line, error) {
	var ln Line
	if err := json.Unmarshal(raw, &ln); err != nil {
		return nil, err
	}
	return &ln, nil
}
