package main

// Recording driver (R->V): seeded random histories of Main operations on the real UnspentDB, NOT gated but
// perturbed (VERIF_YIELD makes every hook yield / sleep pseudo-randomly); the hook trace goes to TraceUtxoSave.
// A watcher goroutine keeps parsing whatever is visible as UTXO.db.

import (
	"encoding/json"
	"flag"
	"fmt"
	"math/rand"
	"os"
	"path/filepath"
	"sync"
	"sync/atomic"
	"time"

	"github.com/piotrnar/gocoin/lib/others/verif"
	"github.com/piotrnar/gocoin/lib/utxo"
)

type ROpts struct {
	NB       int `json:"nb"`
	RPB      int `json:"rpb"`
	MaxH     int `json:"maxh"`
	InitH    int `json:"inith"`
	TargetMs int `json:"target_ms"` // UTXO_WRITING_TIME_TARGET; 0 = no throttling
}

type tev struct {
	Ev   string `json:"ev"`
	P    string `json:"p"`
	I    int    `json:"i"`
	Ab   bool   `json:"ab"`
	Op   string `json:"op"`
	D    bool   `json:"d"`
	Last int    `json:"last"`
}

type procTag struct {
	p string
	i int
}

type recRun struct {
	mu                sync.Mutex
	events            []tev
	procs             map[uint64]procTag
	mainGid           uint64
	nS, nW            int
	begun             int          // savers begun
	returned          int          // savers returned
	alive             map[int]int  // writer tag -> (unused value) while the writer goroutine lives
	started, finished int          // saves started (save_start) / writers finished
	since             map[int]bool // blocks of the saves started since the last moment every writer had finished
	cur               int
	strange           []string
}

func (r *recRun) gate(name string) {}

func (r *recRun) sink(seq uint64, name string, kv []interface{}) {
	if ignoredHook(name) {
		return
	}
	id := goid()
	r.mu.Lock()
	defer r.mu.Unlock()
	t, ok := r.procs[id]
	if !ok {
		switch {
		case id == r.mainGid:
			t = procTag{"M", 0}
		case name == "save_begin":
			r.nS++
			t = procTag{"S", r.nS}
		case name == "writer_start":
			r.nW++
			t = procTag{"W", r.nW}
		default:
			r.strange = append(r.strange, fmt.Sprintf("hook %s hit by an unknown goroutine", name))
			return
		}
		r.procs[id] = t
	}
	e := tev{Ev: name, P: t.p, I: t.i}
	for i := 0; i+1 < len(kv); i += 2 {
		switch k, _ := kv[i].(string); k {
		case "abort":
			e.Ab, _ = kv[i+1].(bool)
		case "op":
			e.Op, _ = kv[i+1].(string)
		}
	}
	switch name {
	case "save_begin":
		r.begun++
	case "save_returned":
		r.returned++
	case "save_start":
		r.started++
		r.since[r.cur] = true
	case "writer_start":
		r.alive[t.i] = r.cur
	case "writer_renamed", "writer_removed":
		delete(r.alive, t.i)
		r.finished++
		if r.finished == r.started {
			r.since = map[int]bool{}
		}
	case "ret":
		e.Last = r.cur
	}
	r.events = append(r.events, e)
}

func (r *recRun) quiet() bool {
	r.mu.Lock()
	defer r.mu.Unlock()
	return r.begun == r.returned && len(r.alive) == 0 && r.finished == r.started
}

func waitFor(cond func() bool, d time.Duration) bool {
	deadline := time.Now().Add(d)
	for !cond() {
		if time.Now().After(deadline) {
			return false
		}
		time.Sleep(200 * time.Microsecond)
	}
	return true
}

// watcher parses every UTXO.db it can open until stop is closed.
func watcher(path string, check func(*snap) string, stop chan struct{}, checks *int64, bad chan<- string) {
	for {
		select {
		case <-stop:
			return
		default:
		}
		if s, err := parseSnap(path); err == nil {
			atomic.AddInt64(checks, 1)
			if p := check(s); p != "" {
				select {
				case bad <- p:
				default:
				}
			}
		} else {
			time.Sleep(100 * time.Microsecond)
		}
	}
}

func cmdRecord(args []string) {
	fs := flag.NewFlagSet("record", flag.ExitOnError)
	outF := fs.String("out", "trace.ndjson", "")
	optsJ := fs.String("opts", "{}", "")
	seed := fs.Int64("seed", 1, "")
	traces := fs.Int("traces", 10, "")
	nops := fs.Int("ops", 8, "")
	dir := fs.String("dir", os.TempDir(), "")
	yield := fs.Bool("yield", true, "")
	fs.Parse(args)
	o := ROpts{NB: 2, RPB: 2, MaxH: 3, InitH: 1}
	if err := json.Unmarshal([]byte(*optsJ), &o); err != nil {
		fmt.Fprintln(os.Stderr, "bad opts:", err)
		os.Exit(2)
	}
	w := newWorld(o.NB, o.RPB, o.MaxH)
	base := filepath.Join(*dir, "rbase")
	if problem, err := w.buildBase(base, o.InitH); err != nil {
		fmt.Fprintln(os.Stderr, "base:", err)
		os.Exit(2)
	} else if problem != "" {
		out.Put(map[string]interface{}{"kind": "visible", "what": problem})
		out.Put(map[string]interface{}{"summary": true, "events": 0, "traces": 0, "aborted_saves": 0, "saves": 0, "max_saves": 0, "watcher_checks": 0, "violations": 1})
		os.Create(*outF)
		return
	}
	defer os.RemoveAll(base)
	f, err := os.Create(*outF)
	if err != nil {
		fmt.Fprintln(os.Stderr, err)
		os.Exit(2)
	}
	defer f.Close()
	enc := json.NewEncoder(f)
	rnd := rand.New(rand.NewSource(*seed))
	utxo.UTXO_WRITING_TIME_TARGET = time.Duration(o.TargetMs) * time.Millisecond
	var nEv, nAbort, nSaves int
	var checks int64
	var viol []map[string]interface{}
	maxSaves := 0
	for t := 0; t < *traces; t++ {
		d := filepath.Join(*dir, "rrun")
		os.RemoveAll(d)
		if err := copyDir(base, d); err != nil {
			fmt.Fprintln(os.Stderr, err)
			os.Exit(2)
		}
		setRun(nil)
		if *yield {
			os.Setenv("VERIF_YIELD", fmt.Sprint(*seed*1000+int64(t)))
		} else {
			os.Unsetenv("VERIF_YIELD")
		}
		verif.Reset()
		db := w.open(d)
		d0 := rnd.Intn(2) == 0
		if d0 {
			db.DirtyDB.Set()
		}
		r := &recRun{procs: map[uint64]procTag{}, mainGid: goid(), alive: map[int]int{}, since: map[int]bool{}, cur: o.InitH}
		r.events = append(r.events, tev{Ev: "Reset", P: "R", D: d0})
		setRun(r)
		stop := make(chan struct{})
		bad := make(chan string, 4)
		var wg sync.WaitGroup
		wg.Add(1)
		go func() {
			defer wg.Done()
			watcher(filepath.Join(d, "UTXO.db"), w.checkSnap, stop, &checks, bad)
		}()
		var oplist []string
		for i := 0; i < *nops; i++ {
			var op string
			if i == *nops-1 {
				op = "Close"
			} else {
				switch k := rnd.Intn(100); {
				case k < 25:
					op = "Commit"
					if r.cur >= o.MaxH {
						op = "Undo"
					}
				case k < 40:
					op = "Undo"
					if r.cur <= 0 {
						op = "Commit"
					}
				case k < 65:
					op = "Idle"
				case k < 80:
					op = "Save"
				case k < 90:
					op = "HurryUp"
				default:
					op = "Abort"
				}
			}
			oplist = append(oplist, op)
			verif.Event("begin", "op", op)
			switch op {
			case "Commit":
				h := w.blockHash(r.cur + 1)
				db.CommitBlockTxs(w.changes(r.cur+1), h[:])
				r.mu.Lock()
				r.cur++
				r.mu.Unlock()
				if !sameSet(memSet(db), w.expect[r.cur]) {
					viol = append(viol, map[string]interface{}{"kind": "memory", "what": fmt.Sprintf("in-memory set after connecting block %d is not the set of that block", r.cur), "trace": t, "ops": oplist})
				}
			case "Undo":
				h := w.blockHash(r.cur - 1)
				db.UndoBlockTxs(w.undoBlock(r.cur), h[:])
				r.mu.Lock()
				r.cur--
				r.mu.Unlock()
				if !sameSet(memSet(db), w.expect[r.cur]) {
					viol = append(viol, map[string]interface{}{"kind": "memory", "what": fmt.Sprintf("in-memory set after undoing to block %d is not the set of that block", r.cur), "trace": t, "ops": oplist})
				}
			case "Abort":
				db.AbortWriting()
			case "Idle":
				db.Idle()
			case "Save":
				db.Save()
			case "HurryUp":
				db.HurryUp()
			case "Close":
				db.Close()
			}
			verif.Event("ret")
		}
		if !waitFor(r.quiet, 300*time.Second) {
			fmt.Fprintln(os.Stderr, "goroutines of a closed database never ended")
			os.Exit(2)
		}
		setRun(nil)
		close(stop)
		wg.Wait()
		select {
		case p := <-bad:
			viol = append(viol, map[string]interface{}{"kind": "visible", "what": "watcher: UTXO.db is visible but " + p, "trace": t, "ops": oplist, "seed": *seed})
		default:
		}
		if s, err := parseSnap(filepath.Join(d, "UTXO.db")); err == nil {
			checks++
			if p := w.checkSnap(s); p != "" {
				viol = append(viol, map[string]interface{}{"kind": "visible", "what": "after Close, UTXO.db is visible but " + p, "trace": t, "ops": oplist, "seed": *seed})
			}
		}
		for _, s := range r.strange {
			viol = append(viol, map[string]interface{}{"kind": "infra", "what": s, "trace": t})
		}
		for _, e := range r.events {
			enc.Encode(e)
			nEv++
			if e.Ev == "save_exit_sent" && e.Ab {
				nAbort++
			}
		}
		nSaves += r.nS
		if r.nS > maxSaves {
			maxSaves = r.nS
		}
		os.RemoveAll(d)
	}
	for _, v := range viol {
		out.Put(v)
	}
	out.Put(map[string]interface{}{"summary": true, "events": nEv, "traces": *traces, "aborted_saves": nAbort, "saves": nSaves,
		"max_saves": maxSaves, "watcher_checks": checks, "violations": len(viol)})
}

func resetVerif() { verif.Reset() }
