package main

// Stress driver (schedule independence of verdict and state on a real chain): blocks that engage every fan-out
// (>= 33 UTXO adds / dels per block for commit()'s batches of 32, > 4096 bytes of transactions for
// BuildTxListExt's parallel hashing, multi-input transactions with real signatures for commitTxs' parallel
// script checks) are connected and reorganised while Idle / Save / HurryUp run in between, under VERIF_YIELD
// perturbation; after every delivery the verdict, the tip and the complete UTXO dump are compared with a
// reference run; a watcher parses every UTXO.db that appears.  Run under the race detector as well.

import (
	"crypto/sha256"
	"encoding/hex"
	"encoding/json"
	"flag"
	"fmt"
	"math/rand"
	"os"
	"path/filepath"
	"runtime"
	"sync"
	"time"

	"github.com/piotrnar/gocoin/lib/others/memory"
	"github.com/piotrnar/gocoin/lib/utxo"

	"verifharness/conc"
)

const (
	sBaseH = 175
	sNTx   = 36
	sExtra = 8 // sNTx * sExtra = 288 extra transactions in blocks 2 and 4
)

func amt(u int64) conc.Amt { return conc.Amt{U: u} }

// vfAlloc: an allocator for UTXO records (utxo.Memory_Malloc / Memory_Free) that makes any use of a freed record
// observable: Free overwrites the record with 0xEE and queues it; Malloc hands the oldest queued buffer of that
// size out again once `delay` others wait behind it (a recycling allocator, as lib/others/memory is, but with
// poisoning).  Freed memory must never be read, so on correct code nothing changes.
type vfAlloc struct {
	mu            sync.Mutex
	pool          map[int][]*[]byte
	delay         int
	frees, reuses int64
}

func (a *vfAlloc) vfAllocMalloc(le int) *[]byte {
	a.mu.Lock()
	if q := a.pool[le]; len(q) > a.delay {
		b := q[0]
		a.pool[le] = q[1:]
		a.reuses++
		a.mu.Unlock()
		return b
	}
	a.mu.Unlock()
	p := make([]byte, le)
	return &p
}

func (a *vfAlloc) vfAllocFree(b *[]byte) {
	for i := range *b {
		(*b)[i] = 0xEE
	}
	a.mu.Lock()
	a.frees++
	a.pool[len(*b)] = append(a.pool[len(*b)], b)
	a.mu.Unlock()
	runtime.Gosched() // let whoever might still be reading the record run now (matters at low GOMAXPROCS)
}

func (a *vfAlloc) nFrees() int64 {
	if a == nil {
		return 0
	}
	return a.frees
}

func (a *vfAlloc) nReuses() int64 {
	if a == nil {
		return 0
	}
	return a.reuses
}

// stressScenario: branch A = 1,2,3,7,8   branch B = 1,4,5,6 (longer than 1,2,3; shorter than A in the end)
func stressScenario() conc.Scenario {
	sc := conc.Scenario{Blk: conc.IntMap[conc.BlkDef]{}, Tx: conc.IntMap[conc.TxDef]{}, BaseH: sBaseH}
	cb := func(b int) []conc.OutDef { return []conc.OutDef{{Amt: amt(50), Addr: 900 + b, St: conc.StP2SH}} }
	var t1, t2, t2w, t3, t3b, t3w, t4, t4w, t5, t5w, t7 []int
	for i := 1; i <= sNTx; i++ {
		// block 1: two matured base coinbases in, three outputs of different types out
		id := 1000 + i
		sc.Tx[id] = conc.TxDef{Ver: 2, Ins: []conc.InDef{{Tx: 2*i - 1, Vout: 1, Ok: true}, {Tx: 2 * i, Vout: 1, Ok: true}},
			Outs: []conc.OutDef{{Amt: amt(30), Addr: 10 + i, St: conc.StP2WPKH}, {Amt: amt(30), Addr: 100 + i, St: conc.StP2PKH}, {Amt: amt(31), Addr: 200 + i, St: conc.StP2SH}}}
		// ... plus sExtra small anyone-can-spend outputs, spent one per transaction by the wide blocks 2 and 4
		// (several hundred transactions per block: commit() runs > 10 insert / delete batches side by side)
		for m := 0; m < sExtra; m++ {
			d := sc.Tx[id]
			d.Outs = append(d.Outs, conc.OutDef{Amt: amt(1), Addr: 3000 + i*sExtra + m, St: conc.StP2SH})
			sc.Tx[id] = d
			x := (i-1)*sExtra + m
			sc.Tx[20000+x] = conc.TxDef{Ver: 2, Ins: []conc.InDef{{Tx: id, Vout: 4 + m, Ok: true}},
				Outs: []conc.OutDef{{Amt: conc.Amt{E: 40000000}, Addr: 6000 + x, St: conc.StP2SH}, {Amt: conc.Amt{E: 40000000}, Addr: 7000 + x, St: conc.StP2PKH}}}
			t2w = append(t2w, 20000+x)
			// block 3 spends one output of each of them: 288 different records deleted / rewritten by one block,
			// which the first reorganisation undoes again (the undo file must restore them exactly)
			sc.Tx[30000+x] = conc.TxDef{Ver: 2, Ins: []conc.InDef{{Tx: 20000 + x, Vout: 1, Ok: true}},
				Outs: []conc.OutDef{{Amt: conc.Amt{E: 30000000}, Addr: 11000 + x, St: conc.StP2SH}}}
			t3w = append(t3w, 30000+x)
			sc.Tx[40000+x] = conc.TxDef{Ver: 2, Ins: []conc.InDef{{Tx: id, Vout: 4 + m, Ok: true}},
				Outs: []conc.OutDef{{Amt: conc.Amt{E: 30000000}, Addr: 8000 + x, St: conc.StP2SH}, {Amt: conc.Amt{E: 30000000}, Addr: 9000 + x, St: conc.StP2WPKH}, {Amt: conc.Amt{E: 30000000}, Addr: 10000 + x, St: conc.StP2SH}}}
			t4w = append(t4w, 40000+x)
			sc.Tx[50000+x] = conc.TxDef{Ver: 2, Ins: []conc.InDef{{Tx: 40000 + x, Vout: 1, Ok: true}, {Tx: 40000 + x, Vout: 3, Ok: true}},
				Outs: []conc.OutDef{{Amt: conc.Amt{E: 40000000}, Addr: 12000 + x, St: conc.StP2SH}}}
			t5w = append(t5w, 50000+x)
		}
		t1 = append(t1, id)
		// block 2 (branch A): all three outputs of the block-1 transaction, signatures verified in parallel
		id2 := 2000 + i
		sc.Tx[id2] = conc.TxDef{Ver: 2, Ins: []conc.InDef{{Tx: id, Vout: 1, Ok: true}, {Tx: id, Vout: 2, Ok: true}, {Tx: id, Vout: 3, Ok: true}},
			Outs: []conc.OutDef{{Amt: amt(45), Addr: 300 + i, St: conc.StP2WPKH}, {Amt: amt(45), Addr: 400 + i, St: conc.StP2WSH}}}
		t2 = append(t2, id2)
		// block 3 (branch A)
		id3 := 3000 + i
		sc.Tx[id3] = conc.TxDef{Ver: 2, Ins: []conc.InDef{{Tx: id2, Vout: 1, Ok: true}, {Tx: id2, Vout: 2, Ok: true}},
			Outs: []conc.OutDef{{Amt: amt(89), Addr: 500 + i, St: conc.StP2PKH}}}
		t3 = append(t3, id3)
		// ... and, still in block 3, a transaction that spends an output created in the same block (the main loop
		// marks it spent in the block-local pool while the script workers of its parent may still be running)
		id3b := 3500 + i
		sc.Tx[id3b] = conc.TxDef{Ver: 2, Ins: []conc.InDef{{Tx: id3, Vout: 1, Ok: true}},
			Outs: []conc.OutDef{{Amt: amt(88), Addr: 550 + i, St: conc.StP2WPKH}}}
		t3b = append(t3b, id3b)
		// block 4 (branch B): spends the same block-1 outputs differently
		id4 := 4000 + i
		sc.Tx[id4] = conc.TxDef{Ver: 2, Ins: []conc.InDef{{Tx: id, Vout: 2, Ok: true}, {Tx: id, Vout: 1, Ok: true}},
			Outs: []conc.OutDef{{Amt: amt(20), Addr: 600 + i, St: conc.StP2WSH}, {Amt: amt(39), Addr: 700 + i, St: conc.StP2PKH}}}
		t4 = append(t4, id4)
		// block 5 (branch B)
		id5 := 5000 + i
		sc.Tx[id5] = conc.TxDef{Ver: 2, Ins: []conc.InDef{{Tx: id4, Vout: 1, Ok: true}, {Tx: id, Vout: 3, Ok: true}, {Tx: id4, Vout: 2, Ok: true}},
			Outs: []conc.OutDef{{Amt: amt(89), Addr: 800 + i, St: conc.StP2WPKH}}}
		t5 = append(t5, id5)
		// block 7 (branch A again)
		id7 := 7000 + i
		sc.Tx[id7] = conc.TxDef{Ver: 2, Ins: []conc.InDef{{Tx: id3b, Vout: 1, Ok: true}},
			Outs: []conc.OutDef{{Amt: amt(43), Addr: 1100 + i, St: conc.StP2SH}, {Amt: amt(44), Addr: 1200 + i, St: conc.StP2WPKH}}}
		t7 = append(t7, id7)
	}
	sc.Blk[1] = conc.BlkDef{Parent: 0, Txs: t1, Cbouts: cb(1)}
	sc.Blk[2] = conc.BlkDef{Parent: 1, Txs: append(t2, t2w...), Cbouts: cb(2)}
	sc.Blk[3] = conc.BlkDef{Parent: 2, Txs: append(append(t3, t3b...), t3w...), Cbouts: cb(3)}
	sc.Blk[4] = conc.BlkDef{Parent: 1, Txs: append(t4, t4w...), Cbouts: cb(4)}
	sc.Blk[5] = conc.BlkDef{Parent: 4, Txs: append(t5, t5w...), Cbouts: cb(5)}
	sc.Blk[6] = conc.BlkDef{Parent: 5, Txs: nil, Cbouts: cb(6)}
	sc.Blk[7] = conc.BlkDef{Parent: 3, Txs: t7, Cbouts: cb(7)}
	sc.Blk[8] = conc.BlkDef{Parent: 7, Txs: nil, Cbouts: cb(8)}
	return sc
}

var stressOrder = []int{1, 2, 3, 4, 5, 6, 7, 8}

type stepObs struct {
	Acc  bool   `json:"acc"`
	Tip  int    `json:"tip"`
	Dump string `json:"dump"` // digest of the complete abstract UTXO dump
}

func dumpDigest(n *conc.Node) (string, []string) {
	ents, problems := n.DumpUtxo()
	b, _ := json.Marshal(ents)
	h := sha256.Sum256(b)
	return hex.EncodeToString(h[:8]), problems
}

// sinkOnly counts saves started / file writers finished from the hook stream (statistics only).
type sinkOnly struct {
	mu                sync.Mutex
	started, finished int
	since             map[[32]byte]bool
	tip               [32]byte
}

func (s *sinkOnly) gate(name string) {}
func (s *sinkOnly) sink(seq uint64, name string, kv []interface{}) {
	switch name {
	case "save_start", "writer_renamed", "writer_removed":
	default:
		return
	}
	s.mu.Lock()
	defer s.mu.Unlock()
	if name == "save_start" {
		s.started++
		s.since[s.tip] = true
		return
	}
	s.finished++
	if s.finished == s.started {
		s.since = map[[32]byte]bool{}
	}
}

// collides: a save started now could meet a live writer of an earlier save on the same tmp path
func (s *sinkOnly) collides() bool {
	s.mu.Lock()
	defer s.mu.Unlock()
	return s.finished < s.started && s.since[s.tip]
}

func (s *sinkOnly) anyAlive() bool {
	s.mu.Lock()
	defer s.mu.Unlock()
	return s.finished < s.started
}

func cmdStress(args []string) {
	fs := flag.NewFlagSet("stress", flag.ExitOnError)
	dir := fs.String("dir", os.TempDir(), "")
	seed := fs.Int64("seed", 1, "")
	rounds := fs.Int("rounds", 6, "")
	yield := fs.Bool("yield", true, "")
	compress := fs.Bool("compress", false, "compressed UTXO records (chain.NewChanOpts.CompressUTXO)")
	alloc := fs.String("alloc", "goheap", "goheap | memory (lib/others/memory, as the client installs it) | poison (freed records are overwritten with 0xEE and reused late)")
	fs.Parse(args)
	var pa *vfAlloc
	switch *alloc {
	case "goheap":
	case "memory":
		a := memory.NewAllocator()
		utxo.Memory_Malloc = a.Malloc
		utxo.Memory_Free = a.Free
	case "poison":
		pa = &vfAlloc{pool: map[int][]*[]byte{}, delay: 48}
		utxo.Memory_Malloc = pa.vfAllocMalloc
		utxo.Memory_Free = pa.vfAllocFree
	default:
		fmt.Fprintln(os.Stderr, "unknown allocator mode", *alloc)
		os.Exit(2)
	}
	w, err := conc.NewWorld(stressScenario(), *dir, *compress)
	if err != nil {
		fmt.Fprintln(os.Stderr, "world:", err)
		os.Exit(2)
	}
	var checks int64
	var viol []map[string]interface{}
	add := func(kind, what string, round int, ops []string) {
		if len(viol) < 20 {
			viol = append(viol, map[string]interface{}{"kind": kind, "what": what, "round": round, "seed": *seed, "ops": ops})
		}
	}
	var ref []stepObs
	saves := 0
	for round := 0; round <= *rounds; round++ {
		rnd := rand.New(rand.NewSource(*seed*7919 + int64(round)))
		d := filepath.Join(*dir, "node")
		if err := w.CloneBase(d); err != nil {
			fmt.Fprintln(os.Stderr, err)
			os.Exit(2)
		}
		so := &sinkOnly{since: map[[32]byte]bool{}}
		plain := round == 0 // the reference: nothing but the deliveries, no perturbation
		if plain || !*yield {
			os.Unsetenv("VERIF_YIELD")
		} else {
			os.Setenv("VERIF_YIELD", fmt.Sprint(*seed*100+int64(round)))
		}
		resetVerif()
		setRun(so)
		switch {
		case plain || round%3 == 1:
			utxo.UTXO_WRITING_TIME_TARGET = 0
		case round%3 == 2:
			utxo.UTXO_WRITING_TIME_TARGET = 40 * time.Millisecond
		default:
			utxo.UTXO_WRITING_TIME_TARGET = 2 * time.Second
		}
		n := w.OpenNode(d, nil)
		// expected raw sets by block hash, for the watcher
		var emu sync.Mutex
		expect := map[[32]byte]map[string]bool{}
		heights := map[[32]byte]uint32{}
		note := func() {
			var h [32]byte
			copy(h[:], n.Ch.Unspent.LastBlockHash)
			set := memSet(n.Ch.Unspent)
			emu.Lock()
			expect[h] = set
			heights[h] = n.Ch.Unspent.LastBlockHeight
			emu.Unlock()
			so.mu.Lock()
			so.tip = h
			so.mu.Unlock()
		}
		note()
		check := func(s *snap) string {
			if s.problem != "" {
				return s.problem
			}
			emu.Lock()
			set, ok := expect[s.hash]
			ht := heights[s.hash]
			emu.Unlock()
			if !ok {
				return "header names a block that was never the tip when a save could start"
			}
			if s.height != uint64(ht) {
				return fmt.Sprintf("header height %d is not the height %d of the header's block", s.height, ht)
			}
			return snapVsSet(s, set)
		}
		stop := make(chan struct{})
		bad := make(chan string, 4)
		var wg sync.WaitGroup
		wg.Add(1)
		go func() {
			defer wg.Done()
			watcher(filepath.Join(d, "UTXO.db"), check, stop, &checks, bad)
		}()
		var ops []string
		between := func() {
			if plain {
				return
			}
			for k := rnd.Intn(4); k > 0; k-- {
				switch c := rnd.Intn(10); {
				case c < 5:
					ops = append(ops, "Idle")
					if n.Ch.Idle() {
						saves++
					}
				case c < 7:
					ops = append(ops, "HurryUp")
					n.Ch.Unspent.HurryUp()
				case c < 8:
					ops = append(ops, "Abort")
					n.Ch.Unspent.AbortWriting()
				default:
					ops = append(ops, "Sleep")
					time.Sleep(time.Duration(rnd.Intn(3000)) * time.Microsecond)
				}
			}
		}
		for k, b := range stressOrder {
			between()
			ops = append(ops, fmt.Sprint("Deliver", b))
			acc, _, _ := n.Deliver(w.Block(b))
			note()
			tip, _ := n.Tip()
			dg, problems := dumpDigest(n)
			if len(problems) > 0 {
				add("utxo", problems[0], round, ops)
			}
			obs := stepObs{acc, tip, dg}
			if plain {
				ref = append(ref, obs)
				if !acc {
					// every block of the scenario is valid: refusing one even without any perturbation is a wrong verdict
					add("verdict", fmt.Sprintf("the valid block %d of the stress chain is refused (sequential reference run)", b), round, ops)
				}
			} else if obs != ref[k] {
				add("schedule", fmt.Sprintf("after delivering block %d: accepted=%v tip=%d utxo=%s; the reference run had accepted=%v tip=%d utxo=%s", b, acc, tip, dg, ref[k].Acc, ref[k].Tip, ref[k].Dump), round, ops)
				break
			}
		}
		between()
		n.Close()
		close(stop)
		wg.Wait()
		setRun(nil)
		select {
		case p := <-bad:
			add("visible", "watcher: UTXO.db is visible but "+p, round, ops)
		default:
		}
		if s, e := parseSnap(filepath.Join(d, "UTXO.db")); e == nil {
			checks++
			if p := check(s); p != "" {
				add("visible", "after Close, UTXO.db is visible but "+p, round, ops)
			}
		} else {
			add("visible", "no UTXO.db after Close", round, ops)
		}
		// reopen: the snapshot (plus the blocks behind it) must give the reference state again
		n2 := w.OpenNode(d, nil)
		dg, _ := dumpDigest(n2)
		tip, _ := n2.Tip()
		if len(ref) == len(stressOrder) && (dg != ref[len(ref)-1].Dump || tip != ref[len(ref)-1].Tip) {
			add("schedule", fmt.Sprintf("after reopening: tip=%d utxo=%s; the reference run ended with tip=%d utxo=%s", tip, dg, ref[len(ref)-1].Tip, ref[len(ref)-1].Dump), round, ops)
		}
		n2.Close()
		os.RemoveAll(d)
	}
	for _, v := range viol {
		out.Put(v)
	}
	out.Put(map[string]interface{}{"summary": true, "rounds": *rounds, "deliveries": (*rounds + 1) * len(stressOrder), "saves": saves,
		"watcher_checks": checks, "violations": len(viol), "ref": ref, "compress": *compress, "alloc": *alloc, "frees": pa.nFrees(), "reuses": pa.nReuses()})
}
