// utxosave: drivers binding spec/UtxoSave.tla to lib/utxo.UnspentDB (property C11).
//
//	utxosave replay -in <lines> -opts <json> -dir <scratch> [-start N]
//	    gated replay: every line is a TLC-chosen interleaving {"steps":[{p,i,op,hook,ab,pr}],"complete":bool};
//	    it is forced on the real UnspentDB through verif.Gate and compared with the model step by step.
//	    The process stops after the first failing line (the orchestrator restarts it behind that line).
//	utxosave record -out <ndjson> -opts <json> -seed S -traces K -ops N -dir <scratch>
//	    ungated, perturbed (VERIF_YIELD) random histories; the hook trace is written for TraceUtxoSave,
//	    a watcher goroutine parses every UTXO.db that appears.
//	utxosave refuse -dir <scratch> -seed S -rounds K
//	    blocks that pass CheckBlock but are refused inside commitTxs while the script workers of an earlier
//	    many-input transaction are running: refused, tip and UTXO unchanged, no crash (run as a child process).
//	utxosave blockdb -dir <scratch> -seed S -rounds K -batch N
//	    block writer (Idle) next to BlockTrusted of written blocks; every record must come back after a reopen.
//	utxosave stress -dir <scratch> -seed S -rounds K
//	    real chain (harness/conc) with blocks that engage every fan-out, connected / reorganised while
//	    Idle / Save / HurryUp run; watcher on UTXO.db; prints the digest of the final UTXO dumps.
package main

import (
	"encoding/json"
	"flag"
	"fmt"
	"os"
	"path/filepath"
	"time"

	"verifharness/vio"
)

var out *vio.Out

func quietStdout() {
	// lib/utxo prints progress on stdout: keep our JSON lines clean
	out = vio.NewOut()
	if dn, err := os.OpenFile(os.DevNull, os.O_WRONLY, 0); err == nil {
		os.Stdout = dn
	}
}

func cmdReplay(args []string) {
	fs := flag.NewFlagSet("replay", flag.ExitOnError)
	in := fs.String("in", "-", "")
	optsJ := fs.String("opts", "{}", "")
	dir := fs.String("dir", os.TempDir(), "")
	start := fs.Int("start", 0, "")
	wait := fs.Duration("wait", 120*time.Second, "")
	fs.Parse(args)
	o := GOpts{NB: 2, RPB: 1, MaxH: 2, InitH: 1, Throttle: true}
	if err := json.Unmarshal([]byte(*optsJ), &o); err != nil {
		fmt.Fprintln(os.Stderr, "bad opts:", err)
		os.Exit(2)
	}
	w := newWorld(o.NB, o.RPB, o.MaxH)
	base := filepath.Join(*dir, "base")
	if problem, err := w.buildBase(base, o.InitH); err != nil {
		fmt.Fprintln(os.Stderr, "base:", err)
		os.Exit(2)
	} else if problem != "" {
		out.Put(map[string]interface{}{"n": -1, "kind": "visible", "what": problem, "step": 0})
		out.Put(map[string]interface{}{"summary": true, "lines": 0, "steps": 0, "fail": 1, "stopped": -1, "aborted_saves": 0, "overlapping": 0})
		return
	}
	var nLines, nSteps, nFail, nAbort, nOverlap, nWaited int
	stopped := -1
	err := vio.ReadLines(*in, func(n int, raw []byte) error {
		if n < *start || stopped >= 0 {
			return nil
		}
		ln, err := parseLine(raw)
		if err != nil {
			out.Put(map[string]interface{}{"n": n, "kind": "infra", "what": "unparsable line: " + err.Error()})
			nFail++
			stopped = n
			return nil
		}
		nLines++
		nSteps += len(ln.Steps)
		alive := 0
		ov := false
		for _, st := range ln.Steps {
			if st.Hook == "save_exit_sent" && st.Ab {
				nAbort++
			}
			if st.P == "W" && st.Hook == "writer_start" {
				alive++
			}
			if st.P == "W" && (st.Hook == "writer_renamed" || st.Hook == "writer_removed") {
				alive--
			}
			if st.P == "S" && st.Hook == "save_begin" && alive > 0 {
				ov = true
			}
		}
		if ov {
			nOverlap++
		}
		f, events := runLine(w, o, base, filepath.Join(*dir, "run"), ln, *wait)
		if lastWaited {
			nWaited++
		}
		if f != nil {
			nFail++
			stopped = n
			out.Put(map[string]interface{}{"n": n, "kind": f.Kind, "what": f.What, "step": f.Step, "line": json.RawMessage(raw), "events": events})
			// goroutines of the failed run may still be parked or running: report and leave at once
			out.Put(map[string]interface{}{"summary": true, "lines": nLines, "steps": nSteps, "fail": nFail, "stopped": stopped,
				"aborted_saves": nAbort, "overlapping": nOverlap})
			out.Flush()
			os.Exit(0)
		}
		return nil
	})
	if err != nil {
		fmt.Fprintln(os.Stderr, "read:", err)
		os.Exit(2)
	}
	out.Put(map[string]interface{}{"summary": true, "lines": nLines, "steps": nSteps, "fail": nFail, "stopped": stopped,
		"aborted_saves": nAbort, "overlapping": nOverlap, "waited_in_save": nWaited})
	out.Flush()
	os.RemoveAll(base)
}

func main() {
	if len(os.Args) < 2 {
		fmt.Fprintln(os.Stderr, "usage: utxosave replay|record|stress ...")
		os.Exit(2)
	}
	quietStdout()
	installGate() // before any goroutine of the code under test exists
	switch os.Args[1] {
	case "replay":
		cmdReplay(os.Args[2:])
	case "record":
		cmdRecord(os.Args[2:])
	case "stress":
		cmdStress(os.Args[2:])
	case "refuse":
		cmdRefuse(os.Args[2:])
	case "blockdb":
		cmdBlockDB(os.Args[2:])
	default:
		os.Exit(2)
	}
	out.Flush()
}
