package main

// Refusal under concurrency: blocks that pass CheckBlock but are refused INSIDE commitTxs' loop over the
// transactions (overspending, double spend inside the block, unknown input, premature coinbase) after an earlier
// transaction with 150 signature-checked inputs has started its script workers.  Under every schedule the verdict
// must be "refused", tip and UTXO set unchanged, and nothing may crash afterwards (the workers of the refused
// block must be finished when commitTxs returns, CommitBlock cleans the transactions right after).  The driver is
// run as a child process for GOMAXPROCS 1..16, normal and race builds; a crash of the child is the finding.

import (
	"encoding/binary"
	"flag"
	"fmt"
	"math/rand"
	"os"
	"path/filepath"
	"time"

	"github.com/piotrnar/gocoin/lib/btc"
	"github.com/piotrnar/gocoin/lib/script"

	"verifharness/conc"
)

const (
	rNTx   = 50
	rBaseH = 175
	rFill  = 12 // rNTx * rFill = 600 filler transactions for the large blocks
)

func refuseScenario() (conc.Scenario, []int, []int) {
	sc := conc.Scenario{Blk: conc.IntMap[conc.BlkDef]{}, Tx: conc.IntMap[conc.TxDef]{}, BaseH: rBaseH}
	cb := func(b int) []conc.OutDef { return []conc.OutDef{{Amt: amt(50), Addr: 900 + b, St: conc.StP2SH}} }
	var t1, fill []int
	var all []conc.InDef
	for i := 1; i <= rNTx; i++ {
		id := 1000 + i
		sc.Tx[id] = conc.TxDef{Ver: 2, Ins: []conc.InDef{{Tx: i, Vout: 1, Ok: true}},
			Outs: []conc.OutDef{{Amt: amt(4), Addr: 10 + 3*i, St: conc.StP2WPKH}, {Amt: amt(4), Addr: 11 + 3*i, St: conc.StP2WPKH}, {Amt: amt(4), Addr: 12 + 3*i, St: conc.StP2PKH}}}
		for m := 0; m < rFill; m++ { // anyone-can-spend outputs for the filler transactions of the large blocks
			d := sc.Tx[id]
			d.Outs = append(d.Outs, conc.OutDef{Amt: amt(3), Addr: 2000 + i*rFill + m, St: conc.StP2SH})
			sc.Tx[id] = d
			f := 5000 + (i-1)*rFill + m
			sc.Tx[f] = conc.TxDef{Ver: 2, Ins: []conc.InDef{{Tx: id, Vout: 4 + m, Ok: true}}, Outs: []conc.OutDef{{Amt: amt(2), Addr: 4000 + f, St: conc.StP2SH}}}
			fill = append(fill, f)
		}
		t1 = append(t1, id)
		for v := 1; v <= 3; v++ {
			all = append(all, conc.InDef{Tx: id, Vout: v, Ok: true})
		}
	}
	sc.Blk[1] = conc.BlkDef{Parent: 0, Txs: t1, Cbouts: cb(1)}
	big := func(id, k int) { // 150 inputs with real signatures
		sc.Tx[id] = conc.TxDef{Ver: 2, Ins: all, Outs: []conc.OutDef{{Amt: amt(int64(580 + k)), Addr: 700 + k, St: conc.StP2WPKH}}}
	}
	bad := map[int]conc.TxDef{
		1: {Ver: 2, Ins: []conc.InDef{{Tx: 60, Vout: 1, Ok: true}}, Outs: []conc.OutDef{{Amt: amt(60), Addr: 801, St: conc.StP2WPKH}}},              // more spent than at the input
		2: {Ver: 2, Ins: []conc.InDef{{Tx: 1001, Vout: 1, Ok: true}}, Outs: []conc.OutDef{{Amt: amt(15), Addr: 802, St: conc.StP2WPKH}}},            // spent by the big transaction of the same block
		3: {Ver: 2, Ins: []conc.InDef{{Tx: 9999, Vout: 1, Ok: true}}, Outs: []conc.OutDef{{Amt: amt(1), Addr: 803, St: conc.StP2WPKH}}},             // unknown input
		4: {Ver: 2, Ins: []conc.InDef{{Tx: conc.CbBase + 1, Vout: 1, Ok: true}}, Outs: []conc.OutDef{{Amt: amt(49), Addr: 804, St: conc.StP2WPKH}}}, // premature coinbase
	}
	var refused []int
	for v := 1; v <= 4; v++ {
		big(2000+v, v)
		sc.Tx[3000+v] = bad[v]
		sc.Blk[10+v] = conc.BlkDef{Parent: 1, Txs: []int{2000 + v, 3000 + v}, Cbouts: cb(10 + v)}
		refused = append(refused, 10+v)
	}
	big(2005, 5)
	sc.Blk[20] = conc.BlkDef{Parent: 1, Txs: []int{2005}, Cbouts: cb(20)}
	sc.Blk[30] = conc.BlkDef{Parent: 20, Txs: fill, Cbouts: cb(30)} // a valid large block: all the fillers
	return sc, refused, fill
}

// ---- blocks that only CheckBlock's parallel, context-free CheckTransactions refuses

// mutate returns a copy of the (anyone-can-spend, signature-free) transaction tx that one context-free rule refuses.
func mutate(tx *btc.Tx, fault string) *btc.Tx {
	c, _ := btc.NewTx(tx.Raw)
	switch fault {
	case "nonfinal": // lock time far in the future and a sequence that does not disable it
		c.Lock_time = 0xf0000000
		c.TxIn[0].Sequence = 0xfffffffe
	case "toolarge": // one output above MAX_MONEY
		c.TxOut[0].Value = btc.MAX_MONEY + 1
	case "totaltoolarge": // every output in range, their sum above MAX_MONEY
		c.TxOut[0].Value = btc.MAX_MONEY - 5
		c.TxOut = append(c.TxOut, &btc.TxOut{Value: 10, Pk_script: c.TxOut[0].Pk_script})
	}
	raw := c.SerializeNew()
	n, _ := btc.NewTx(raw)
	if n == nil {
		panic("undecodable mutated transaction")
	}
	n.SetHash(raw)
	return n
}

func ownCoinbase(height uint32, extra int) *btc.Tx {
	tx := &btc.Tx{Version: 2}
	ti := &btc.TxIn{Sequence: 0xffffffff}
	ti.Input.Vout = 0xffffffff
	ti.ScriptSig = append(script.UintToScript(height), 4, byte(extra>>24), byte(extra>>16), byte(extra>>8), byte(extra))
	tx.TxIn = []*btc.TxIn{ti}
	tx.TxOut = []*btc.TxOut{{Value: 50e8, Pk_script: conc.PkScript(990, conc.StP2SH)}}
	raw := tx.SerializeNew()
	n, _ := btc.NewTx(raw)
	n.SetHash(raw)
	return n
}

// faultyBlock: a block on top of block 1 that is valid in every respect (all inputs exist, are mature and are
// spent once, scripts pass, amounts balance for the fillers) except for the one mutated transaction at position
// pos (1 = right after the coinbase, -1 = last); nonce makes every block distinct.
func faultyBlock(w *conc.World, fill []int, size int, fault string, pos int, nonce int) []byte {
	parent := w.Block(1)
	ts := binary.LittleEndian.Uint32(parent[68:72]) + 600 + uint32(nonce%500)
	txs := []*btc.Tx{ownCoinbase(uint32(w.HeightOf(1)+1), nonce)}
	for _, f := range fill[:size] {
		txs = append(txs, w.Tx(f))
	}
	k := pos
	if pos < 0 {
		k = len(txs) - 1
	}
	txs[k] = mutate(txs[k], fault)
	return conc.MakeBlock(0x20000000, w.BlockHash(1).Hash, ts, conc.MinBits, txs)
}

func cmdRefuse(args []string) {
	fs := flag.NewFlagSet("refuse", flag.ExitOnError)
	dir := fs.String("dir", os.TempDir(), "")
	seed := fs.Int64("seed", 1, "")
	rounds := fs.Int("rounds", 3, "")
	reps := fs.Int("reps", 5, "")
	fs.Parse(args)
	sc, refused, fill := refuseScenario()
	w, err := conc.NewWorld(sc, *dir, false)
	if err != nil {
		fmt.Fprintln(os.Stderr, "world:", err)
		os.Exit(2)
	}
	var viol []map[string]interface{}
	deliveries := 0
	{
		// self-test of the block builder: the same large / small block WITHOUT the mutation must be accepted and
		// connected (so the faulty ones are valid in every respect but the mutated transaction)
		d := filepath.Join(*dir, "rself")
		if err := w.CloneBase(d); err != nil {
			fmt.Fprintln(os.Stderr, err)
			os.Exit(2)
		}
		n := w.OpenNode(d, nil)
		acc1, _, _ := n.Deliver(w.Block(1))
		acc2, _, e2 := n.Deliver(faultyBlock(w, fill, len(fill), "", -1, 77))
		tip, known := n.Tip()
		if !acc1 || !acc2 || known {
			fmt.Fprintf(os.Stderr, "self-test: the unmutated own block is not connected: %v %v %v (tip %d)\n", acc1, acc2, e2, tip)
			os.Exit(2)
		}
		n.Close()
		os.RemoveAll(d)
	}
	for round := 0; round < *rounds; round++ {
		rnd := rand.New(rand.NewSource(*seed*104729 + int64(round)))
		d := filepath.Join(*dir, "rnode")
		if err := w.CloneBase(d); err != nil {
			fmt.Fprintln(os.Stderr, err)
			os.Exit(2)
		}
		if round == 0 {
			os.Unsetenv("VERIF_YIELD")
		} else {
			os.Setenv("VERIF_YIELD", fmt.Sprint(*seed*100+int64(round)))
		}
		resetVerif()
		n := w.OpenNode(d, nil)
		if acc, _, e := n.Deliver(w.Block(1)); !acc {
			fmt.Fprintln(os.Stderr, "the valid block 1 was refused:", e)
			os.Exit(2)
		}
		deliveries++
		tip0, _ := n.Tip()
		dump0, _ := dumpDigest(n)
		order := rnd.Perm(len(refused))
		for _, k := range order {
			b := refused[k]
			acc, _, _ := n.Deliver(w.Block(b))
			deliveries++
			tip, _ := n.Tip()
			dump, _ := dumpDigest(n)
			if acc || tip != tip0 || dump != dump0 {
				viol = append(viol, map[string]interface{}{"kind": "verdict", "round": round, "seed": *seed, "block": b,
					"what": fmt.Sprintf("block %d (refused inside commitTxs after the workers of a 150-input transaction started): accepted=%v tip=%d utxo=%s; must be refused with tip=%d utxo=%s unchanged", b, acc, tip, dump, tip0, dump0)})
			}
			time.Sleep(time.Duration(rnd.Intn(2000)) * time.Microsecond) // (stray workers of a refused block would run now)
		}
		// refused by CheckBlock's parallel CheckTransactions only: small and large blocks, fault early or last
		nonce := round * 100000
	faults:
		for _, fault := range []string{"nonfinal", "toolarge", "totaltoolarge"} {
			for _, shape := range [][2]int{{2, -1}, {len(fill), 1}, {len(fill), -1}} {
				for rep := 0; rep < *reps; rep++ {
					nonce++
					raw := faultyBlock(w, fill, shape[0], fault, shape[1], nonce)
					bl, e := btc.NewBlock(raw)
					if e != nil {
						fmt.Fprintln(os.Stderr, "own block does not parse:", e)
						os.Exit(2)
					}
					n.Ch.BlockIndexAccess.Lock()
					_, _, e = n.Ch.CheckBlock(bl)
					n.Ch.BlockIndexAccess.Unlock()
					deliveries++
					if e == nil { // follow the wrong verdict through, as the client would
						e2 := n.Ch.AcceptBlock(bl)
						tip, known := n.Tip()
						viol = append(viol, map[string]interface{}{"kind": "verdict", "round": round, "seed": *seed, "fault": fault, "txs": shape[0] + 1, "pos": shape[1],
							"what": fmt.Sprintf("CheckBlock accepts a block of %d transactions whose transaction at position %d is %s (delivery %d of this shape); AcceptBlock then says %v, tip is a scenario block: %v (%d)", shape[0]+1, shape[1], fault, rep+1, e2, known, tip)})
						break faults
					}
					if tip, _ := n.Tip(); tip != tip0 {
						viol = append(viol, map[string]interface{}{"kind": "verdict", "round": round, "seed": *seed, "fault": fault, "what": "tip moved after a block CheckBlock refused"})
						break faults
					}
				}
			}
		}
		if len(viol) == 0 {
			if dump, _ := dumpDigest(n); dump != dump0 {
				viol = append(viol, map[string]interface{}{"kind": "verdict", "round": round, "seed": *seed, "what": "UTXO set changed by blocks that CheckBlock refused"})
			}
		}
		if len(viol) > 0 {
			n.Close()
			os.RemoveAll(d)
			break
		}
		acc, _, _ := n.Deliver(w.Block(20))
		deliveries++
		if tip, _ := n.Tip(); !acc || tip != 20 {
			viol = append(viol, map[string]interface{}{"kind": "verdict", "round": round, "seed": *seed, "block": 20,
				"what": fmt.Sprintf("the valid block 20 after the refused siblings: accepted=%v tip=%d", acc, tip)})
		}
		acc, _, e30 := n.Deliver(w.Block(30))
		deliveries++
		if tip, _ := n.Tip(); !acc || tip != 30 {
			viol = append(viol, map[string]interface{}{"kind": "verdict", "round": round, "seed": *seed, "block": 30,
				"what": fmt.Sprintf("the valid block of %d filler transactions: accepted=%v (%v) tip=%d", len(fill), acc, e30, tip)})
		}
		time.Sleep(5 * time.Millisecond)
		n.Close()
		os.RemoveAll(d)
	}
	for _, v := range viol {
		out.Put(v)
	}
	out.Put(map[string]interface{}{"summary": true, "rounds": *rounds, "deliveries": deliveries, "violations": len(viol)})
}
