package main

// Refusal under concurrency: blocks that pass CheckBlock but are refused INSIDE commitTxs' loop over the
// transactions (overspending, double spend inside the block, unknown input, premature coinbase) after an earlier
// transaction with 150 signature-checked inputs has started its script workers.  Under every schedule the verdict
// must be "refused", tip and UTXO set unchanged, and nothing may crash afterwards (the workers of the refused
// block must be finished when commitTxs returns, CommitBlock cleans the transactions right after).  The driver is
// run as a child process for GOMAXPROCS 1..16, normal and race builds; a crash of the child is the finding.

import (
	"flag"
	"fmt"
	"math/rand"
	"os"
	"path/filepath"
	"time"

	"verifharness/conc"
)

const (
	rNTx   = 50
	rBaseH = 175
)

func refuseScenario() (conc.Scenario, []int) {
	sc := conc.Scenario{Blk: conc.IntMap[conc.BlkDef]{}, Tx: conc.IntMap[conc.TxDef]{}, BaseH: rBaseH}
	cb := func(b int) []conc.OutDef { return []conc.OutDef{{Amt: amt(50), Addr: 900 + b, St: conc.StP2SH}} }
	var t1 []int
	var all []conc.InDef
	for i := 1; i <= rNTx; i++ {
		id := 1000 + i
		sc.Tx[id] = conc.TxDef{Ver: 2, Ins: []conc.InDef{{Tx: i, Vout: 1, Ok: true}},
			Outs: []conc.OutDef{{Amt: amt(16), Addr: 10 + 3*i, St: conc.StP2WPKH}, {Amt: amt(16), Addr: 11 + 3*i, St: conc.StP2WPKH}, {Amt: amt(16), Addr: 12 + 3*i, St: conc.StP2PKH}}}
		t1 = append(t1, id)
		for v := 1; v <= 3; v++ {
			all = append(all, conc.InDef{Tx: id, Vout: v, Ok: true})
		}
	}
	sc.Blk[1] = conc.BlkDef{Parent: 0, Txs: t1, Cbouts: cb(1)}
	big := func(id, k int) { // 150 inputs with real signatures
		sc.Tx[id] = conc.TxDef{Ver: 2, Ins: all, Outs: []conc.OutDef{{Amt: amt(int64(2300 + k)), Addr: 700 + k, St: conc.StP2WPKH}}}
	}
	bad := map[int]conc.TxDef{
		1: {Ver: 2, Ins: []conc.InDef{{Tx: 60, Vout: 1, Ok: true}}, Outs: []conc.OutDef{{Amt: amt(60), Addr: 801, St: conc.StP2WPKH}}},              // more spent than at the input
		2: {Ver: 2, Ins: []conc.InDef{{Tx: 1001, Vout: 1, Ok: true}}, Outs: []conc.OutDef{{Amt: amt(15), Addr: 802, St: conc.StP2WPKH}}},            // spent by the big transaction of the same block
		3: {Ver: 2, Ins: []conc.InDef{{Tx: 9999, Vout: 1, Ok: true}}, Outs: []conc.OutDef{{Amt: amt(1), Addr: 803, St: conc.StP2WPKH}}},             // unknown input
		4: {Ver: 2, Ins: []conc.InDef{{Tx: conc.CbBase + 1, Vout: 1, Ok: true}}, Outs: []conc.OutDef{{Amt: amt(49), Addr: 804, St: conc.StP2WPKH}}}, // premature coinbase
	}
	var refused []int
	for v := 1; v <= 4; v++ {
		big(2000+v, v)
		sc.Tx[3000+v] = bad[v]
		sc.Blk[10+v] = conc.BlkDef{Parent: 1, Txs: []int{2000 + v, 3000 + v}, Cbouts: cb(10 + v)}
		refused = append(refused, 10+v)
	}
	big(2005, 5)
	sc.Blk[20] = conc.BlkDef{Parent: 1, Txs: []int{2005}, Cbouts: cb(20)}
	return sc, refused
}

func cmdRefuse(args []string) {
	fs := flag.NewFlagSet("refuse", flag.ExitOnError)
	dir := fs.String("dir", os.TempDir(), "")
	seed := fs.Int64("seed", 1, "")
	rounds := fs.Int("rounds", 3, "")
	fs.Parse(args)
	sc, refused := refuseScenario()
	w, err := conc.NewWorld(sc, *dir, false)
	if err != nil {
		fmt.Fprintln(os.Stderr, "world:", err)
		os.Exit(2)
	}
	var viol []map[string]interface{}
	deliveries := 0
	for round := 0; round < *rounds; round++ {
		rnd := rand.New(rand.NewSource(*seed*104729 + int64(round)))
		d := filepath.Join(*dir, "rnode")
		if err := w.CloneBase(d); err != nil {
			fmt.Fprintln(os.Stderr, err)
			os.Exit(2)
		}
		if round == 0 {
			os.Unsetenv("VERIF_YIELD")
		} else {
			os.Setenv("VERIF_YIELD", fmt.Sprint(*seed*100+int64(round)))
		}
		resetVerif()
		n := w.OpenNode(d, nil)
		if acc, _, e := n.Deliver(w.Block(1)); !acc {
			fmt.Fprintln(os.Stderr, "the valid block 1 was refused:", e)
			os.Exit(2)
		}
		deliveries++
		tip0, _ := n.Tip()
		dump0, _ := dumpDigest(n)
		order := rnd.Perm(len(refused))
		for _, k := range order {
			b := refused[k]
			acc, _, _ := n.Deliver(w.Block(b))
			deliveries++
			tip, _ := n.Tip()
			dump, _ := dumpDigest(n)
			if acc || tip != tip0 || dump != dump0 {
				viol = append(viol, map[string]interface{}{"kind": "verdict", "round": round, "seed": *seed, "block": b,
					"what": fmt.Sprintf("block %d (refused inside commitTxs after the workers of a 150-input transaction started): accepted=%v tip=%d utxo=%s; must be refused with tip=%d utxo=%s unchanged", b, acc, tip, dump, tip0, dump0)})
			}
			time.Sleep(time.Duration(rnd.Intn(2000)) * time.Microsecond) // (stray workers of a refused block would run now)
		}
		acc, _, _ := n.Deliver(w.Block(20))
		deliveries++
		if tip, _ := n.Tip(); !acc || tip != 20 {
			viol = append(viol, map[string]interface{}{"kind": "verdict", "round": round, "seed": *seed, "block": 20,
				"what": fmt.Sprintf("the valid block 20 after four refused siblings: accepted=%v tip=%d", acc, tip)})
		}
		time.Sleep(5 * time.Millisecond)
		n.Close()
		os.RemoveAll(d)
	}
	for _, v := range viol {
		out.Put(v)
	}
	out.Put(map[string]interface{}{"summary": true, "rounds": *rounds, "deliveries": deliveries, "violations": len(viol)})
}
