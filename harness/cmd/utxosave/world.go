package main

// The "direct" world of the gated replay and of the recording driver: a real utxo.UnspentDB driven through
// NewUnspentDb / CommitBlockTxs / UndoBlockTxs with hand-made BlockChanges.
//
// Abstract block b (0..MaxH) <-> height H0+b, hash sha256("vf-utxosave-block",b).
// The UTXO set of block b is { rec(k, j, b) : k in buckets, j in 1..RPB }: connecting block b+1 spends every
// record of block b and adds the records of b+1, so the set names its block.  The txid of rec(k,j,b) starts with
// bucketByte[k]: model bucket k is HashMap[bucketByte[k]] / MapMutex[bucketByte[k]]; all other buckets stay empty.
// Every record carries one output with a 66000-byte script, so that each record fills one 64 KiB buffer of
// save(): one save_iter hit = one chunk on the data channel = one record of the model.

import (
	"bufio"
	"crypto/sha256"
	"encoding/binary"
	"fmt"
	"io"
	"os"
	"path/filepath"
	"sort"
	"strings"
	"sync/atomic"
	"time"

	"github.com/piotrnar/gocoin/lib/btc"
	"github.com/piotrnar/gocoin/lib/utxo"
)

const H0 = 100

var bucketByte = []byte{0x10, 0x90, 0xd0}

type world struct {
	nb, rpb, maxH int
	scriptLen     int
	hashOf        map[[32]byte]int        // block hash -> abstract block
	expect        map[int]map[string]bool // abstract block -> set of serialised records
}

func newWorld(nb, rpb, maxH int) *world {
	w := &world{nb: nb, rpb: rpb, maxH: maxH, scriptLen: 66000, hashOf: map[[32]byte]int{}, expect: map[int]map[string]bool{}}
	for b := 0; b <= maxH; b++ {
		w.hashOf[w.blockHash(b)] = b
		set := map[string]bool{}
		for _, r := range w.recs(b) {
			set[string(*utxo.Serialize(r, nil))] = true
		}
		w.expect[b] = set
	}
	return w
}

func (w *world) blockHash(b int) [32]byte {
	return sha256.Sum256([]byte(fmt.Sprint("vf-utxosave-block", b)))
}

func (w *world) txid(k, j, b int) (h [32]byte) {
	h = sha256.Sum256([]byte(fmt.Sprint("vf-utxosave-rec", k, j, b)))
	h[0] = bucketByte[k]
	return
}

func (w *world) rec(k, j, b int) *utxo.UtxoRec {
	scr := make([]byte, w.scriptLen)
	seed := sha256.Sum256([]byte(fmt.Sprint("scr", k, j, b)))
	for i := range scr {
		scr[i] = seed[i%32] ^ byte(i>>8)
	}
	scr[0] = 0x6a
	return &utxo.UtxoRec{TxID: w.txid(k, j, b), InBlock: uint32(H0 + b), Coinbase: j == 1,
		Outs: []*utxo.UtxoTxOut{{Value: uint64(1000*b + 10*k + j + 1), PKScr: scr}}}
}

func (w *world) recs(b int) (res []*utxo.UtxoRec) {
	for k := 0; k < w.nb; k++ {
		for j := 1; j <= w.rpb; j++ {
			res = append(res, w.rec(k, j, b))
		}
	}
	return
}

// changes that connect block b on top of block b-1 (b = 0: on top of the empty set)
func (w *world) changes(b int) *utxo.BlockChanges {
	ch := &utxo.BlockChanges{Height: uint32(H0 + b), AddList: w.recs(b), DeledTxs: map[[32]byte][]bool{}, UndoData: map[[32]byte]*utxo.UtxoRec{}}
	if b > 0 {
		for _, r := range w.recs(b - 1) {
			ch.DeledTxs[r.TxID] = []bool{true}
			ch.UndoData[r.TxID] = r
		}
	}
	return ch
}

// the block as UndoBlockTxs wants it: the ids of its transactions
func (w *world) undoBlock(b int) *btc.Block {
	bl := &btc.Block{}
	for _, r := range w.recs(b) {
		tx := &btc.Tx{TxOut: []*btc.TxOut{{}}}
		tx.Hash.Hash = r.TxID
		bl.Txs = append(bl.Txs, tx)
	}
	return bl
}

// countTarget counts the savers that began / returned (hook stream).
type countTarget struct{ begun, returned int64 }

func (c *countTarget) gate(name string) {}
func (c *countTarget) sink(seq uint64, name string, kv []interface{}) {
	switch name {
	case "save_begin":
		atomic.AddInt64(&c.begun, 1)
	case "save_returned":
		atomic.AddInt64(&c.returned, 1)
	}
}

// buildBase creates dir with the snapshot of block initH on disk (UTXO.db) and undo files for 1..initH.
// A wrong snapshot after these sequential commits and Close is itself an observation about the code under test
// (returned as problem), not a machinery failure.
func (w *world) buildBase(dir string, initH int) (problem string, err error) {
	os.RemoveAll(dir)
	if err := os.MkdirAll(dir, 0770); err != nil {
		return "", err
	}
	old := utxo.UTXO_WRITING_TIME_TARGET
	utxo.UTXO_WRITING_TIME_TARGET = 0
	defer func() { utxo.UTXO_WRITING_TIME_TARGET = old }()
	ct := &countTarget{}
	setRun(ct)
	db := utxo.NewUnspentDb(&utxo.NewUnspentOpts{Dir: dir + string(os.PathSeparator)})
	for b := 0; b <= initH; b++ {
		h := w.blockHash(b)
		db.CommitBlockTxs(w.changes(b), h[:])
	}
	db.Close()
	// save() hits its last hook (deferred) after Close() has returned: wait for it, so that the goroutine cannot
	// show up in the first gated run as "a goroutine the model does not know"
	if !waitFor(func() bool { return atomic.LoadInt64(&ct.begun) == atomic.LoadInt64(&ct.returned) }, 300*time.Second) {
		return "", fmt.Errorf("the save() goroutine of the base build never returned")
	}
	setRun(nil)
	s, err := parseSnap(filepath.Join(dir, "UTXO.db"))
	if err != nil {
		return fmt.Sprintf("after connecting blocks 0..%d and Close there is no UTXO.db", initH), nil
	}
	if p := w.checkSnap(s); p != "" {
		return fmt.Sprintf("after connecting blocks 0..%d and Close, UTXO.db is visible but %s", initH, p), nil
	}
	if w.hashOf[s.hash] != initH {
		return fmt.Sprintf("after connecting blocks 0..%d and Close, UTXO.db is the snapshot of block %d", initH, w.hashOf[s.hash]), nil
	}
	return "", nil
}

func (w *world) open(dir string) *utxo.UnspentDB {
	return utxo.NewUnspentDb(&utxo.NewUnspentOpts{Dir: dir + string(os.PathSeparator)})
}

// memSet dumps the in-memory set (serialised records) of the database.
func memSet(db *utxo.UnspentDB) map[string]bool {
	res := map[string]bool{}
	for i := range db.HashMap {
		db.MapMutex[i].RLock()
		for _, v := range db.HashMap[i] {
			res[string(*v)] = true
		}
		db.MapMutex[i].RUnlock()
	}
	return res
}

func sameSet(a, b map[string]bool) bool {
	if len(a) != len(b) {
		return false
	}
	for k := range a {
		if !b[k] {
			return false
		}
	}
	return true
}

// ---------------------------------------------------------------- snapshot files

type snap struct {
	height  uint64
	compr   bool
	hash    [32]byte
	count   uint64
	recs    [][]byte
	problem string // structural problem: short header, truncated record, trailing bytes, undecodable record
	size    int64
}

// parseSnap reads a snapshot file completely (own parser: 8-byte height, 32-byte hash, 8-byte count,
// count x (CompactSize length, record)); an error is returned only when the file cannot be opened.
func parseSnap(path string) (*snap, error) {
	f, err := os.Open(path)
	if err != nil {
		return nil, err
	}
	defer f.Close()
	s := &snap{}
	if st, e := f.Stat(); e == nil {
		s.size = st.Size()
	}
	rd := bufio.NewReaderSize(f, 1<<16)
	var hd [48]byte
	if _, e := io.ReadFull(rd, hd[:]); e != nil {
		s.problem = "file shorter than its 48-byte header"
		return s, nil
	}
	u := binary.LittleEndian.Uint64(hd[0:8])
	s.compr = u&0x8000000000000000 != 0
	s.height = u &^ 0x8000000000000000
	copy(s.hash[:], hd[8:40])
	s.count = binary.LittleEndian.Uint64(hd[40:48])
	if s.count > 1<<24 {
		s.problem = fmt.Sprint("absurd record count ", s.count)
		return s, nil
	}
	for i := uint64(0); i < s.count; i++ {
		le, e := btc.ReadVLen(rd)
		if e != nil {
			s.problem = fmt.Sprintf("file ends after %d of %d records", i, s.count)
			return s, nil
		}
		if le > 1<<24 {
			s.problem = fmt.Sprintf("record %d claims %d bytes", i, le)
			return s, nil
		}
		b := make([]byte, le)
		if _, e := io.ReadFull(rd, b); e != nil {
			s.problem = fmt.Sprintf("file ends inside record %d of %d", i, s.count)
			return s, nil
		}
		s.recs = append(s.recs, b)
	}
	if n, _ := io.Copy(io.Discard, rd); n != 0 {
		s.problem = fmt.Sprintf("%d trailing bytes after the %d records the header announces", n, s.count)
	}
	return s, nil
}

func decodes(rec []byte, compr bool) (ok bool) {
	defer func() {
		if recover() != nil {
			ok = false
		}
	}()
	if len(rec) < 34 {
		return false
	}
	var r utxo.UtxoRec
	if compr {
		utxo.NewUtxoRecOwnC(rec, &r, nil)
	} else {
		utxo.NewUtxoRecOwnU(rec, &r, nil)
	}
	n := 0
	for _, o := range r.Outs {
		if o != nil {
			n++
		}
	}
	return n > 0
}

// snapVsSet: "" when the file is a complete snapshot whose records decode and equal the given set.
func snapVsSet(s *snap, want map[string]bool) string {
	if s.problem != "" {
		return s.problem
	}
	got := map[string]bool{}
	for i, r := range s.recs {
		if !decodes(r, s.compr) {
			return fmt.Sprintf("record %d does not decode", i)
		}
		if got[string(r)] {
			return fmt.Sprintf("record %d occurs twice", i)
		}
		got[string(r)] = true
	}
	if !sameSet(got, want) {
		miss, extra := 0, 0
		for k := range want {
			if !got[k] {
				miss++
			}
		}
		for k := range got {
			if !want[k] {
				extra++
			}
		}
		return fmt.Sprintf("record set differs from the unspent-output set of the block in the header (%d missing, %d foreign records)", miss, extra)
	}
	return ""
}

// checkSnap: the snapshot against the world: header names a known block at its height, content = its set.
func (w *world) checkSnap(s *snap) string {
	if s.problem != "" {
		return s.problem
	}
	b, ok := w.hashOf[s.hash]
	if !ok {
		return "header names an unknown block hash"
	}
	if s.height != uint64(H0+b) {
		return fmt.Sprintf("header height %d does not belong to the header hash (block %d, height %d)", s.height, b, H0+b)
	}
	return snapVsSet(s, w.expect[b])
}

// tmpFiles lists the abstract blocks for which a <hash>.db.tmp exists (-1 for a foreign name).
func (w *world) tmpFiles(dir string) []int {
	res := []int{}
	fs, _ := filepath.Glob(filepath.Join(dir, "*.db.tmp"))
	for _, f := range fs {
		name := strings.TrimSuffix(filepath.Base(f), ".db.tmp")
		id := -1
		for h, b := range w.hashOf {
			if btc.NewUint256(h[:]).String() == name {
				id = b
			}
		}
		res = append(res, id)
	}
	sort.Ints(res)
	return res
}

func copyDir(src, dst string) error {
	return filepath.Walk(src, func(p string, info os.FileInfo, err error) error {
		if err != nil {
			return err
		}
		rel, _ := filepath.Rel(src, p)
		t := filepath.Join(dst, rel)
		if info.IsDir() {
			return os.MkdirAll(t, 0770)
		}
		b, err := os.ReadFile(p)
		if err != nil {
			return err
		}
		return os.WriteFile(t, b, 0660)
	})
}
