// Command sighash: conformance driver for property C02 (signature hashes).
//
//	replay    every case exported by spec/SigHashGen.tla (GenMode "cases"): the descriptor sequence is
//	          serialised on a seeded random transaction of the case's shape and hashed by the reference
//	          (ref.go, ec.go); compared with Tx.SignatureHash / Tx.WitnessSigHash / Tx.TaprootSigHash
//	          (function level) and with the verdict of script.VerifyTxScript for a spend signed by the
//	          independent signer over the reference digest (interpreter level: scriptCode selection,
//	          FindAndDelete, code separators, leaf hash, annex, codesep_pos, hash-type extraction).
//	          "undefined": no signature over any candidate digest may be accepted.
//	cache     request orders exported from the cache machine, replayed on ONE Tx object sequentially and
//	          from concurrent goroutines; every result must equal the uncached reference.
//	burst     cache warm-up prefix + concurrent burst scenarios on a transaction with thousands of inputs, G goroutines
//	          asking for digests of different inputs with different hash types; compared with the uncached reference.
//	vecprep / veccheck   self-check of the reference against Bitcoin Core's sighash.json (legacy digests)
//	          and the real BIP143 signatures of tx_valid.json.
//	selftest  the signer against its own verifier and the BIP340 vectors.
package main

import (
	"bytes"
	"crypto/sha256"
	"encoding/binary"
	"encoding/csv"
	"encoding/hex"
	"encoding/json"
	"flag"
	"fmt"
	"math/rand"
	"os"
	"runtime"
	"strings"
	"sync"

	"verifharness/vio"

	"github.com/piotrnar/gocoin/lib/btc"
	"github.com/piotrnar/gocoin/lib/script"
)

// consensus flags of a block after taproot activation (no policy flags: STRICTENC would refuse the
// unusual hash types whose digests this property is about)
const verifyFlags = script.VER_P2SH | script.VER_DERSIG | script.VER_CLTV | script.VER_CSV |
	script.VER_NULLDUMMY | script.VER_WITNESS | script.VER_TAPROOT

type query struct {
	Mode   string `json:"mode"`
	Nin    int    `json:"nin"`
	Nout   int    `json:"nout"`
	Idx    int    `json:"idx"`
	Ht     []int  `json:"ht"`
	Script []int  `json:"script"`
	Annex  bool   `json:"annex"`
	Path   string `json:"path"`
	X0     bool   `json:"x0"`
	Long   bool   `json:"long"`
	Mp     struct {
		N    int `json:"n"`
		Side int `json:"side"`
	} `json:"mp"`
}

type gcase struct {
	Q    query    `json:"q"`
	Code []int    `json:"code"`
	Feed bool     `json:"feed"`
	Csp  int      `json:"csp"`
	Pre  preimage `json:"pre"`
	Vec  *int     `json:"vec,omitempty"`
}

type failure struct {
	Ok     bool        `json:"ok"`
	Line   int         `json:"line"`
	What   string      `json:"what"`
	Rule   string      `json:"rule"`
	Case   interface{} `json:"case,omitempty"`
	Detail interface{} `json:"detail,omitempty"`
}

type world struct {
	seed   int64
	keys   [3]*key
	nonces [4]*nonce
	mu     sync.Mutex
	tweaks map[string][2][]byte // leaf hash -> (Q.x, parity)
	filler []byte               // the bytes of PDATA pushes (fixed per seed so that leaf hashes repeat)
}

func newWorld(seed int64) *world {
	w := &world{seed: seed, tweaks: map[string][2][]byte{}}
	w.filler = sha([]byte(fmt.Sprintf("c02-filler-%d", seed)))
	w.filler = append(w.filler, w.filler...)[:3+int(w.filler[0])%60]
	if seed%3 == 0 {
		w.filler = append(w.filler, sha(w.filler)...)
		w.filler = append(w.filler, sha(w.filler)...) // > 75 bytes: OP_PUSHDATA1, still one opcode
	}
	for i := range w.keys {
		w.keys[i] = newKey([]byte(fmt.Sprintf("c02-key-%d-%d", seed, i)))
	}
	for i := range w.nonces {
		w.nonces[i] = newNonce([]byte(fmt.Sprintf("c02-nonce-%d-%d", seed, i)))
	}
	return w
}

func (w *world) rng(tag []byte) *rand.Rand {
	h := sha256.Sum256(append([]byte(fmt.Sprintf("c02-%d-", w.seed)), tag...))
	return rand.New(rand.NewSource(int64(binary.LittleEndian.Uint64(h[:8]))))
}

func (w *world) tweak(internal *key, leaf []byte) (qx []byte, parity byte, err error) {
	w.mu.Lock()
	defer w.mu.Unlock()
	if t, ok := w.tweaks[string(leaf)]; ok {
		return t[0], t[1][0], nil
	}
	qx, parity, ok := taprootOutput(internal, leaf)
	if !ok {
		return nil, 0, fmt.Errorf("tweak out of range")
	}
	w.tweaks[string(leaf)] = [2][]byte{qx, {parity}}
	return qx, parity, nil
}

// toBtc builds the implementation's transaction object from the reference transaction
func toBtc(t *rtx) (*btc.Tx, error) {
	raw := t.serialize()
	tx, off := btc.NewTx(raw)
	if tx == nil || off != len(raw) {
		return nil, fmt.Errorf("btc.NewTx could not parse the reference serialisation (%d of %d bytes)", off, len(raw))
	}
	tx.SetHash(raw)
	tx.AllocVerVars()
	tx.Spent_outputs = make([]*btc.TxOut, len(t.ins))
	for i := range t.spent {
		tx.Spent_outputs[i] = &btc.TxOut{Value: t.spent[i].value, Pk_script: t.spent[i].spk}
	}
	tx.SegWit = make([][][]byte, len(t.ins))
	return tx, nil
}

func ht32(ht []int) int32 { return int32(uint32(ht[0]) | uint32(ht[1])<<8) }

func hx(b []byte) string { return hex.EncodeToString(b) }

// safely: a panic of the implementation is a result, not a crash of the driver
func safely(f func()) (panicked string) {
	defer func() {
		if r := recover(); r != nil {
			panicked = fmt.Sprint(r)
		}
	}()
	f()
	return
}

type stats struct {
	mu                                          sync.Mutex
	lines, direct, e2ePos, e2eNeg, undef, cands int
	ones                                        int
	fail                                        int
	digests                                     map[[32]byte]struct{}
	layouts                                     map[[32]byte]struct{}
	byMode                                      map[string]int
}

// ---------------------------------------------------------------- one case

type caseRun struct {
	w     *world
	c     *gcase
	fails []failure
	line  int
	st    *stats
}

func (r *caseRun) failf(rule, format string, detail interface{}, a ...interface{}) {
	r.fails = append(r.fails, failure{Ok: false, Line: r.line, Rule: rule, What: fmt.Sprintf(format, a...), Case: r.c.Q, Detail: detail})
}

func (r *caseRun) verify(tx *btc.Tx, t *rtx, spk []byte, idx int, amount uint64) (res bool, panicked string) {
	flags := uint32(verifyFlags)
	if r.c.Q.Long {
		flags = script.VER_P2SH // the rules before BIP66: signatures need not be strict DER
	}
	panicked = safely(func() {
		// a fresh cache for every verification, as every block / mempool acceptance has
		tx.Clean()
		tx.AllocVerVars()
		tx.Spent_outputs = make([]*btc.TxOut, len(t.ins))
		for i := range t.spent {
			tx.Spent_outputs[i] = &btc.TxOut{Value: t.spent[i].value, Pk_script: t.spent[i].spk}
		}
		res = script.VerifyTxScript(spk, &script.SigChecker{Tx: tx, Idx: idx, Amount: amount}, flags)
	})
	return
}

func (r *caseRun) run() {
	c, w := r.c, r.w
	q := &c.Q
	tag, _ := json.Marshal(q)
	rng := w.rng(tag)
	t := randTx(rng, q.Nin, q.Nout)
	no := w.nonces[rng.Intn(len(w.nonces))]
	ctx := &evalCtx{tx: t, idx: q.Idx}
	lo := byte(q.Ht[0])
	oneByte := q.Ht[1] == 0

	switch q.Mode {
	case "legacy", "bip143":
		k := w.keys[0]
		ctx.pk = k.comp
		// RIPEMD-160 is the one primitive taken from the repository (lib/others/ripemd160, see DESIGN 2.3)
		h160 := btc.Rimp160AfterSha256(k.comp)
		ctx.pkh = h160[:]
		multi := false // the signature is checked by 1 <pubkey> 1 OP_CHECKMULTISIG: a dummy element precedes it
		for _, tk := range q.Script {
			if tk == 174 {
				multi = true
			}
		}
		want, err := ctx.digest(&c.Pre)
		if err != nil {
			r.failf("driver", "reference could not evaluate the preimage: %v", nil, err)
			return
		}
		code, err := ctx.render(c.Code)
		if err != nil {
			r.failf("driver", "scriptCode argument: %v", nil, err)
			return
		}
		pad := 0
		if q.Long {
			// 70..72 bytes + pad + hash-type byte: 75..128 bytes (one-byte DER lengths); the push is OP_PUSHDATA1 from 76 on
			pad = []int{4, 5, 6, 10, 30, 55}[rng.Intn(6)]
		}
		sig := append(ecdsaSignPadded(k, no, want, pad), lo)
		wrong := append([]byte{}, want...)
		wrong[rng.Intn(32)] ^= 1 << uint(rng.Intn(8))
		sigWrong := append(ecdsaSignPadded(k, no, wrong, pad), lo)
		var spk []byte
		var ws []byte
		if q.Mode == "legacy" {
			// the script itself may hold a push of the signature: the digest does not depend on it (FindAndDelete)
			ctx.sig = sig
			spk, err = ctx.render(q.Script)
		} else if q.Path == "p2wpkh" {
			spk = append([]byte{0x00, 0x14}, ctx.pkh...)
		} else {
			ws, err = ctx.render(q.Script)
			spk = append([]byte{0x00, 0x20}, sha(ws)...)
		}
		if err != nil {
			r.failf("driver", "script: %v", nil, err)
			return
		}
		t.spent[q.Idx].spk = spk
		t.ins[q.Idx].script = nil
		tx, err := toBtc(t)
		if err != nil {
			r.failf("driver", "%v", nil, err)
			return
		}
		// ---- function level
		var got []byte
		p := safely(func() {
			if q.Mode == "legacy" {
				got = tx.SignatureHash(code, q.Idx, ht32(q.Ht))
			} else {
				got = tx.WitnessSigHash(code, t.spent[q.Idx].value, q.Idx, ht32(q.Ht))
			}
		})
		r.st.count(q.Mode, want, &c.Pre, c.Pre.Def == "one")
		if p != "" || !bytes.Equal(got, want) {
			fn := map[string]string{"legacy": "Tx.SignatureHash", "bip143": "Tx.WitnessSigHash"}[q.Mode]
			r.failf("digest-"+q.Mode, "%s differs from the %s definition (hash type 0x%x, input %d of %d, %d outputs)",
				map[string]interface{}{"want": hx(want), "got": hx(got), "panic": p, "tx": hx(t.serialize()), "scriptCode": hx(code), "amount": t.spent[q.Idx].value},
				fn, q.Mode, uint32(ht32(q.Ht)), q.Idx, q.Nin, q.Nout)
		}
		if !oneByte {
			return // the interpreter takes the hash type from one signature byte
		}
		// ---- interpreter level
		for pass, s := range [][]byte{sig, sigWrong} {
			if q.Mode == "legacy" {
				if pass == 1 {
					// a different signature: the embedded copy changes with it
					ctx.sig = s
					spk, _ = ctx.render(q.Script)
					t.spent[q.Idx].spk = spk
				}
				t.ins[q.Idx].script = nil
				if multi {
					t.ins[q.Idx].script = []byte{0x00}
				}
				if c.Feed {
					t.ins[q.Idx].script = append(t.ins[q.Idx].script, pushData(s)...)
				}
				tx.TxIn[q.Idx].ScriptSig = t.ins[q.Idx].script
			} else {
				tx.TxIn[q.Idx].ScriptSig = nil
				switch {
				case q.Path == "p2wpkh":
					tx.SegWit[q.Idx] = [][]byte{s, k.comp}
				case multi:
					tx.SegWit[q.Idx] = [][]byte{{}, s, ws}
				default:
					tx.SegWit[q.Idx] = [][]byte{s, ws}
				}
			}
			res, p := r.verify(tx, t, spk, q.Idx, t.spent[q.Idx].value)
			wantRes := pass == 0
			if wantRes {
				r.st.add(func(s *stats) { s.e2ePos++ })
			} else {
				r.st.add(func(s *stats) { s.e2eNeg++ })
			}
			if p != "" || res != wantRes {
				over := "the reference digest"
				if !wantRes {
					over = "a different digest"
				}
				rule := "verdict-" + q.Mode
				if q.Long {
					rule += ":long-signature" // 76..255-byte signature: its push is OP_PUSHDATA1 (rules before BIP66)
				}
				r.failf(rule, "VerifyTxScript returned %v for a signature over %s (hash type 0x%02x, script tokens %v)",
					map[string]interface{}{"digest": hx(want), "panic": p, "tx": hx(t.serialize()), "spk": hx(spk), "scriptSig": hx(tx.TxIn[q.Idx].ScriptSig),
						"witness": hexs(tx.SegWit[q.Idx]), "amount": t.spent[q.Idx].value, "signature_bytes": len(s)}, res, over, lo, q.Script)
			}
		}

	case "bip341":
		kOut, kInt, kLeaf := w.keys[0], w.keys[1], w.keys[2]
		if q.Annex {
			ctx.annex = append([]byte{0x50}, rbytes(rng, []int{0, 1, 31, 252, 253, 300}[rng.Intn(6)])...)
		}
		var spk, leafScript, control, leafHash []byte
		signer := kOut
		if q.Path == "script" {
			ctx.pk = kLeaf.xonly
			ctx.data = w.filler
			signer = kLeaf
			var err error
			leafScript, err = ctx.render(q.Script)
			if err != nil {
				r.failf("driver", "script: %v", nil, err)
				return
			}
			leafHash = taggedHash("TapLeaf", []byte{0xc0}, varbytes(leafScript))
			// the script tree: the leaf sits below q.Mp.N branch nodes; BIP341: k' = hash_TapBranch(smaller || larger)
			root, nodes := merklePath(w, leafHash, q.Mp.N, q.Mp.Side)
			qx, parity, err := w.tweak(kInt, root)
			if err != nil {
				r.failf("driver", "%v", nil, err)
				return
			}
			spk = append([]byte{0x51, 0x20}, qx...)
			control = append([]byte{0xc0 | parity}, kInt.xonly...)
			control = append(control, nodes...)
		} else {
			spk = append([]byte{0x51, 0x20}, kOut.xonly...)
		}
		t.spent[q.Idx].spk = spk
		t.ins[q.Idx].script = nil // native witness program: empty scriptSig
		tx, err := toBtc(t)
		if err != nil {
			r.failf("driver", "%v", nil, err)
			return
		}
		witness := func(sig []byte) [][]byte {
			st := [][]byte{sig}
			if q.Path == "script" {
				st = append(st, leafScript, control)
			}
			if q.Annex {
				st = append(st, ctx.annex)
			}
			return st
		}
		exec := &btc.ScriptExecutionData{M_codeseparator_pos: uint32(int32(c.Csp)), M_codeseparator_pos_init: true}
		if q.Annex {
			exec.M_annex_hash = sha(varbytes(ctx.annex))
		}
		if q.Path == "script" {
			exec.M_tapleaf_hash = leafHash
		}
		var got []byte
		p := safely(func() { got = tx.TaprootSigHash(exec, q.Idx, lo, q.Path == "script") })

		if c.Pre.Def == "digest" {
			want, err := ctx.digest(&c.Pre)
			if err != nil {
				r.failf("driver", "reference could not evaluate the preimage: %v", nil, err)
				return
			}
			r.st.count(q.Mode, want, &c.Pre, false)
			if p != "" || !bytes.Equal(got, want) {
				r.failf("digest-bip341", "Tx.TaprootSigHash differs from the BIP341 definition (hash type 0x%02x, %s path, annex %v, input %d of %d, %d outputs)",
					map[string]interface{}{"want": hx(want), "got": hx(got), "panic": p, "tx": hx(t.serialize()), "spent": spentHex(t)},
					lo, q.Path, q.Annex, q.Idx, q.Nin, q.Nout)
			}
			wrong := append([]byte{}, want...)
			wrong[rng.Intn(32)] ^= 1 << uint(rng.Intn(8))
			for pass, d := range [][]byte{want, wrong} {
				s := schnorrSign(signer, no, d)
				if lo != 0 {
					s = append(s, lo)
				}
				tx.SegWit[q.Idx] = witness(s)
				res, p := r.verify(tx, t, spk, q.Idx, t.spent[q.Idx].value)
				wantRes := pass == 0
				if wantRes {
					r.st.add(func(s *stats) { s.e2ePos++ })
				} else {
					r.st.add(func(s *stats) { s.e2eNeg++ })
				}
				if p != "" || res != wantRes {
					over := "the reference digest"
					if !wantRes {
						over = "a different digest"
					}
					rule := "verdict-bip341"
					if q.Mp.N > 0 {
						rule += ":merkle-path" // script tree with several leaves
					}
					r.failf(rule, "VerifyTxScript returned %v for a %s-path taproot spend signed over %s (hash type 0x%02x, annex %v, Merkle path of %d, script tokens %v)",
						map[string]interface{}{"digest": hx(d), "panic": p, "tx": hx(t.serialize()), "spent": spentHex(t), "witness": hexs(tx.SegWit[q.Idx])},
						res, q.Path, over, lo, q.Annex, q.Mp.N, q.Script)
				}
			}
			return
		}
		// ---- BIP341 defines no digest: whatever is signed, the spend must be refused
		r.st.add(func(s *stats) { s.undef++ })
		type cand struct {
			name string
			d    []byte
		}
		cands := []cand{{"32 zero bytes", make([]byte, 32)}}
		if p == "" && len(got) == 32 && !bytes.Equal(got, cands[0].d) {
			cands = append(cands, cand{"the value Tx.TaprootSigHash returns", got})
		}
		cands = append(cands, cand{"the BIP341 message computed as if the hash type were defined", lenientTapDigest(ctx, q, lo, leafHash, c.Csp)})
		if v := lo & 0x83; v != lo && v >= 1 {
			cands = append(cands, cand{fmt.Sprintf("the digest of the defined hash type 0x%02x", v), lenientTapDigest(ctx, q, v, leafHash, c.Csp)})
		}
		for _, cd := range cands {
			s := append(schnorrSign(signer, no, cd.d), lo) // 65 bytes: also for x0 (explicit 0x00)
			tx.SegWit[q.Idx] = witness(s)
			res, p := r.verify(tx, t, spk, q.Idx, t.spent[q.Idx].value)
			r.st.add(func(s *stats) { s.cands++ })
			if p != "" || res {
				why, class := "hash type 0x%02x is not defined by BIP341", "hashtype"
				if lo == 0 {
					why, class = "a 65-byte signature must not carry hash type 0x%02x", "explicit-default"
				} else if lo == 3 || lo == 0x83 {
					why, class = "SIGHASH_SINGLE (0x%02x) without a matching output", "single-without-output"
				}
				r.failf("undefined-accepted:"+class, "VerifyTxScript accepted a %s-path taproot spend of input %d (%d outputs) whose signature is over %s: "+why+", the signature check must fail",
					map[string]interface{}{"digest": hx(cd.d), "candidate": cd.name, "panic": p, "tx": hx(t.serialize()), "spent": spentHex(t), "witness": hexs(tx.SegWit[q.Idx]), "pubkey": hx(signer.xonly)},
					q.Path, q.Idx, q.Nout, cd.name, lo)
				break
			}
		}
	default:
		r.failf("driver", "unknown mode %q", nil, q.Mode)
	}
}

// merklePath: sibling hashes for a leaf n levels below the root.  side says how the running hash compares with its
// sibling at each level (0 always smaller, 1 always larger, 2 / 3 alternating starting smaller / larger), so both
// orders of the branch hash occur.  Deterministic in (seed, leaf, n, side): equal trees give equal output keys.
func merklePath(w *world, leaf []byte, n, side int) (root, nodes []byte) {
	k := leaf
	rng := w.rng(append([]byte(fmt.Sprintf("merkle-%d-%d-", n, side)), leaf...))
	for i := 0; i < n; i++ {
		smaller := side == 0 || (side == 2 && i%2 == 0) || (side == 3 && i%2 == 1)
		var node []byte
		for {
			node = rbytes(rng, 32)
			if c := bytes.Compare(k, node); (smaller && c < 0) || (!smaller && c > 0) {
				break
			}
		}
		nodes = append(nodes, node...)
		if smaller {
			k = taggedHash("TapBranch", k, node)
		} else {
			k = taggedHash("TapBranch", node, k)
		}
	}
	return k, nodes
}

// lenientTapDigest: candidate digests for the undefined cases only (never a prediction): the BIP341 message
// built from the bits of the hash-type byte without the validity checks
func lenientTapDigest(c *evalCtx, q *query, ht byte, leafHash []byte, csp int) []byte {
	t := c.tx
	msg := []byte{0, ht}
	msg = append(msg, le32(t.version)...)
	msg = append(msg, le32(t.lock)...)
	acp := ht&0x80 != 0
	out := ht & 3
	if !acp {
		var a, b, cc, d []byte
		for i := range t.ins {
			a = append(a, t.ins[i].outpoint()...)
			b = append(b, le64(t.spent[i].value)...)
			cc = append(cc, varbytes(t.spent[i].spk)...)
			d = append(d, le32(t.ins[i].seq)...)
		}
		msg = append(msg, sha(a)...)
		msg = append(msg, sha(b)...)
		msg = append(msg, sha(cc)...)
		msg = append(msg, sha(d)...)
	}
	if out != 2 && out != 3 {
		var o []byte
		for i := range t.outs {
			o = append(o, t.outs[i].ser()...)
		}
		msg = append(msg, sha(o)...)
	}
	st := byte(0)
	if q.Path == "script" {
		st = 2
	}
	if c.annex != nil {
		st++
	}
	msg = append(msg, st)
	if acp {
		msg = append(msg, t.ins[q.Idx].outpoint()...)
		msg = append(msg, le64(t.spent[q.Idx].value)...)
		msg = append(msg, varbytes(t.spent[q.Idx].spk)...)
		msg = append(msg, le32(t.ins[q.Idx].seq)...)
	} else {
		msg = append(msg, le32(uint32(q.Idx))...)
	}
	if c.annex != nil {
		msg = append(msg, sha(varbytes(c.annex))...)
	}
	if out == 3 && q.Idx < len(t.outs) {
		msg = append(msg, sha(t.outs[q.Idx].ser())...)
	}
	if q.Path == "script" {
		msg = append(msg, leafHash...)
		msg = append(msg, 0)
		msg = append(msg, le32(uint32(int32(csp)))...)
	}
	return taggedHash("TapSighash", msg)
}

func hexs(st [][]byte) []string {
	out := []string{}
	for _, b := range st {
		out = append(out, hx(b))
	}
	return out
}

func spentHex(t *rtx) []string {
	out := []string{}
	for i := range t.spent {
		out = append(out, hx(t.spent[i].ser()))
	}
	return out
}

func (s *stats) add(f func(*stats)) { s.mu.Lock(); f(s); s.mu.Unlock() }

func (s *stats) count(mode string, digest []byte, p *preimage, one bool) {
	var d [32]byte
	copy(d[:], digest)
	js, _ := json.Marshal(p)
	l := sha256.Sum256(append([]byte(mode), js...))
	s.mu.Lock()
	s.direct++
	if one {
		s.ones++
	} else {
		s.digests[d] = struct{}{}
	}
	s.layouts[l] = struct{}{}
	s.byMode[mode]++
	s.mu.Unlock()
}

func cmdReplay(args []string) {
	fs := flag.NewFlagSet("replay", flag.ExitOnError)
	in := fs.String("in", "-", "VFT lines")
	seed := fs.Int64("seed", 1, "seed")
	workers := fs.Int("workers", runtime.NumCPU(), "workers")
	fs.Parse(args)
	script.DBG_ERR = false
	w := newWorld(*seed)
	out := vio.NewOut()
	st := &stats{digests: map[[32]byte]struct{}{}, layouts: map[[32]byte]struct{}{}, byMode: map[string]int{}}
	type job struct {
		n    int
		line []byte
	}
	jobs := make(chan job, 1024)
	var wg sync.WaitGroup
	for i := 0; i < *workers; i++ {
		wg.Add(1)
		go func() {
			defer wg.Done()
			for j := range jobs {
				var c gcase
				if err := json.Unmarshal(j.line, &c); err != nil || len(c.Q.Ht) != 2 {
					out.Put(failure{Line: j.n, Rule: "driver", What: fmt.Sprintf("bad input line: %v", err)})
					st.add(func(s *stats) { s.fail++ })
					continue
				}
				r := &caseRun{w: w, c: &c, line: j.n, st: st}
				r.run()
				st.add(func(s *stats) { s.lines++; s.fail += len(r.fails) })
				for _, f := range r.fails {
					out.Put(f)
				}
			}
		}()
	}
	err := vio.ReadLines(*in, func(n int, line []byte) error {
		jobs <- job{n, append([]byte{}, line...)}
		return nil
	})
	close(jobs)
	wg.Wait()
	if err != nil {
		fmt.Fprintln(os.Stderr, err)
		os.Exit(2)
	}
	out.Put(map[string]interface{}{"summary": true, "lines": st.lines, "direct": st.direct, "e2e_pos": st.e2ePos, "e2e_neg": st.e2eNeg,
		"undefined": st.undef, "candidates": st.cands, "ones": st.ones, "fail": st.fail, "distinct_digests": len(st.digests),
		"distinct_layouts": len(st.layouts), "by_mode": st.byMode})
	out.Flush()
}

// ---------------------------------------------------------------- cache behaviours

type creq struct {
	Mode string `json:"mode"`
	Idx  int    `json:"idx"`
	Lo   int    `json:"lo"`
}

type cstep struct {
	T int  `json:"t"`
	R creq `json:"r"`
}

func cmdCache(args []string) {
	fs := flag.NewFlagSet("cache", flag.ExitOnError)
	in := fs.String("in", "-", "VFB lines")
	table := fs.String("table", "", "VFR lines")
	seed := fs.Int64("seed", 1, "seed")
	nin := fs.Int("nin", 2, "inputs")
	nout := fs.Int("nout", 2, "outputs")
	conc := fs.Int("conc", 2, "concurrent repetitions per behaviour")
	workers := fs.Int("workers", runtime.NumCPU(), "workers")
	fs.Parse(args)
	script.DBG_ERR = false
	w := newWorld(*seed)
	out := vio.NewOut()
	pre := map[creq]*preimage{}
	if err := vio.ReadLines(*table, func(n int, line []byte) error {
		var e struct {
			Req creq     `json:"req"`
			Pre preimage `json:"pre"`
		}
		if err := json.Unmarshal(line, &e); err != nil {
			return err
		}
		pre[e.Req] = &e.Pre
		return nil
	}); err != nil {
		fmt.Fprintln(os.Stderr, err)
		os.Exit(2)
	}
	var mu sync.Mutex
	lines, calls, fail, concCalls := 0, 0, 0, 0
	type job struct {
		n    int
		line []byte
	}
	jobs := make(chan job, 1024)
	var wg sync.WaitGroup
	keyScript := []int{tokPPK, 172}
	for i := 0; i < *workers; i++ {
		wg.Add(1)
		go func() {
			defer wg.Done()
			for j := range jobs {
				var b struct {
					Steps []cstep `json:"steps"`
				}
				if err := json.Unmarshal(j.line, &b); err != nil || len(b.Steps) == 0 {
					out.Put(failure{Line: j.n, Rule: "driver", What: fmt.Sprintf("bad behaviour line: %v", err)})
					mu.Lock()
					fail++
					mu.Unlock()
					continue
				}
				t := randTx(w.rng([]byte(orderString(b.Steps))), *nin, *nout)
				code, _ := (&evalCtx{pk: w.keys[0].comp}).render(keyScript)
				// the uncached reference of every request
				want := make([][]byte, len(b.Steps))
				bad := false
				for k, s := range b.Steps {
					p := pre[s.R]
					if p == nil {
						out.Put(failure{Line: j.n, Rule: "driver", What: fmt.Sprintf("request %v not in the table", s.R)})
						bad = true
						break
					}
					if p.Def == "undefined" {
						continue // no digest is defined: the return value of the function is not an observable
					}
					ctx := &evalCtx{tx: t, idx: s.R.Idx, pk: w.keys[0].comp}
					d, err := ctx.digest(p)
					if err != nil {
						out.Put(failure{Line: j.n, Rule: "driver", What: err.Error()})
						bad = true
						break
					}
					want[k] = d
				}
				if bad {
					mu.Lock()
					fail++
					mu.Unlock()
					continue
				}
				call := func(tx *btc.Tx, r creq) (got []byte, p string) {
					p = safely(func() {
						switch r.Mode {
						case "legacy":
							got = tx.SignatureHash(code, r.Idx, int32(r.Lo))
						case "bip143":
							got = tx.WitnessSigHash(code, t.spent[r.Idx].value, r.Idx, int32(r.Lo))
						case "bip341":
							got = tx.TaprootSigHash(&btc.ScriptExecutionData{M_codeseparator_pos: 0xffffffff}, r.Idx, byte(r.Lo), false)
						}
					})
					return
				}
				report := func(how string, k int, got []byte, p string) {
					out.Put(failure{Line: j.n, Rule: "cache-" + b.Steps[k].R.Mode,
						What: fmt.Sprintf("request %d of the order (%s, %s) returned a digest that differs from the uncached definition: %s input %d hash type 0x%02x",
							k+1, orderString(b.Steps), how, b.Steps[k].R.Mode, b.Steps[k].R.Idx, b.Steps[k].R.Lo),
						Case: b.Steps, Detail: map[string]interface{}{"want": hx(want[k]), "got": hx(got), "panic": p, "tx": hx(t.serialize()), "spent": spentHex(t)}})
				}
				nf, nc, ncc := 0, 0, 0
				// sequentially on ONE object
				tx, err := toBtc(t)
				if err != nil {
					out.Put(failure{Line: j.n, Rule: "driver", What: err.Error()})
					mu.Lock()
					fail++
					mu.Unlock()
					continue
				}
				for k, s := range b.Steps {
					got, p := call(tx, s.R)
					nc++
					if want[k] != nil && (p != "" || !bytes.Equal(got, want[k])) {
						report("sequential", k, got, p)
						nf++
					}
				}
				// concurrently on ONE object: one goroutine per model thread (per request when the model had one thread)
				for rep := 0; rep < *conc; rep++ {
					tx, _ := toBtc(t)
					groups := map[int][]int{}
					multi := false
					for _, s := range b.Steps {
						if s.T != b.Steps[0].T {
							multi = true
						}
					}
					for k, s := range b.Steps {
						g := k
						if multi {
							g = s.T
						}
						groups[g] = append(groups[g], k)
					}
					gots := make([][]byte, len(b.Steps))
					panics := make([]string, len(b.Steps))
					start := make(chan struct{})
					var cw sync.WaitGroup
					for _, ks := range groups {
						cw.Add(1)
						go func(ks []int) {
							defer cw.Done()
							<-start
							for _, k := range ks {
								gots[k], panics[k] = call(tx, b.Steps[k].R)
							}
						}(ks)
					}
					close(start)
					cw.Wait()
					for k := range b.Steps {
						ncc++
						if want[k] != nil && (panics[k] != "" || !bytes.Equal(gots[k], want[k])) {
							report("concurrent", k, gots[k], panics[k])
							nf++
						}
					}
				}
				mu.Lock()
				lines++
				calls += nc
				concCalls += ncc
				fail += nf
				mu.Unlock()
			}
		}()
	}
	err := vio.ReadLines(*in, func(n int, line []byte) error {
		jobs <- job{n, append([]byte{}, line...)}
		return nil
	})
	close(jobs)
	wg.Wait()
	if err != nil {
		fmt.Fprintln(os.Stderr, err)
		os.Exit(2)
	}
	out.Put(map[string]interface{}{"summary": true, "lines": lines, "calls": calls, "concurrent_calls": concCalls, "fail": fail, "requests": len(pre)})
	out.Flush()
}

// ---------------------------------------------------------------- concurrent bursts on a transaction with many inputs

type bkind struct {
	Mode string `json:"mode"`
	Lo   int    `json:"lo"`
}

type scenario struct {
	Warm  bkind    `json:"warm"`
	Burst []bkind  `json:"burst"`
	Cold  []string `json:"cold"`
}

func scenString(sc *scenario) string {
	var p []string
	for _, k := range sc.Burst {
		p = append(p, fmt.Sprintf("%s/0x%02x", k.Mode, k.Lo))
	}
	w := "no warm-up"
	if sc.Warm.Mode != "none" {
		w = fmt.Sprintf("warm-up %s/0x%02x", sc.Warm.Mode, sc.Warm.Lo)
	}
	return w + ", burst " + strings.Join(p, " ")
}

// cmdBurst: for every scenario a fresh Tx object of a transaction with many inputs (so that filling the lazily
// cached hashes takes long): the warm-up request (if any) completes, then G goroutines released together request
// digests for different sampled inputs, cycling through the request kinds of the burst; every digest is compared
// with the reference computed without any cache.
func cmdBurst(args []string) {
	fs := flag.NewFlagSet("burst", flag.ExitOnError)
	in := fs.String("in", "-", "VFS lines")
	table := fs.String("table", "", "VFR lines")
	seed := fs.Int64("seed", 1, "seed")
	nin := fs.Int("nin", 2000, "inputs")
	nout := fs.Int("nout", 1000, "outputs")
	gor := fs.Int("g", 8, "goroutines of a burst")
	per := fs.Int("per", 3, "requests per goroutine")
	reps := fs.Int("reps", 2, "repetitions of every scenario (fresh object each)")
	fs.Parse(args)
	script.DBG_ERR = false
	w := newWorld(*seed)
	out := vio.NewOut()
	pre := map[creq]*preimage{}
	idxSet := map[int]bool{}
	if err := vio.ReadLines(*table, func(n int, line []byte) error {
		var e struct {
			Req creq     `json:"req"`
			Pre preimage `json:"pre"`
		}
		if err := json.Unmarshal(line, &e); err != nil {
			return err
		}
		pre[e.Req] = &e.Pre
		idxSet[e.Req.Idx] = true
		return nil
	}); err != nil {
		fmt.Fprintln(os.Stderr, err)
		os.Exit(2)
	}
	var idxs []int
	for i := 0; i < *nin; i++ {
		if idxSet[i] {
			idxs = append(idxs, i)
		}
	}
	if len(idxs) == 0 {
		fmt.Fprintln(os.Stderr, "empty request table")
		os.Exit(2)
	}
	// one transaction per (seed, GOMAXPROCS): short scripts, the cost is in the number of inputs / outputs
	rng := w.rng([]byte(fmt.Sprintf("burst-%d-%d-%d", *nin, *nout, runtime.GOMAXPROCS(0))))
	t := randTx(rng, *nin, *nout)
	code, _ := (&evalCtx{pk: w.keys[0].comp}).render([]int{tokPPK, 172})
	raw := t.serialize()
	want := map[creq][]byte{}
	var wmu sync.Mutex
	ref := func(r creq) ([]byte, error) { // the sequential, uncached reference (memoised)
		wmu.Lock()
		defer wmu.Unlock()
		if d, ok := want[r]; ok {
			return d, nil
		}
		p := pre[r]
		if p == nil {
			return nil, fmt.Errorf("request %v not in the table", r)
		}
		var d []byte
		if p.Def != "undefined" {
			var err error
			d, err = (&evalCtx{tx: t, idx: r.Idx, pk: w.keys[0].comp}).digest(p)
			if err != nil {
				return nil, err
			}
		}
		want[r] = d
		return d, nil
	}
	fresh := func() *btc.Tx {
		tx, off := btc.NewTx(raw)
		if tx == nil || off != len(raw) {
			return nil
		}
		tx.SetHash(raw)
		tx.AllocVerVars()
		tx.Spent_outputs = make([]*btc.TxOut, len(t.ins))
		for i := range t.spent {
			tx.Spent_outputs[i] = &btc.TxOut{Value: t.spent[i].value, Pk_script: t.spent[i].spk}
		}
		return tx
	}
	call := func(tx *btc.Tx, r creq) (got []byte, p string) {
		p = safely(func() {
			switch r.Mode {
			case "legacy":
				got = tx.SignatureHash(code, r.Idx, int32(r.Lo))
			case "bip143":
				got = tx.WitnessSigHash(code, t.spent[r.Idx].value, r.Idx, int32(r.Lo))
			case "bip341":
				got = tx.TaprootSigHash(&btc.ScriptExecutionData{M_codeseparator_pos: 0xffffffff}, r.Idx, byte(r.Lo), false)
			}
		})
		return
	}
	scen, nontrivial, calls, fail, bad, failedRuns := 0, 0, 0, 0, 0, 0
	err := vio.ReadLines(*in, func(n int, line []byte) error {
		var sc scenario
		if err := json.Unmarshal(line, &sc); err != nil || len(sc.Burst) == 0 {
			return fmt.Errorf("bad scenario line %d: %v", n, err)
		}
		scen++
		if len(sc.Cold) > 0 {
			nontrivial++
		}
		// the programs of the goroutines: different inputs and different kinds, fixed by (scenario, g, j)
		type rq struct {
			r    creq
			want []byte
		}
		progs := make([][]rq, *gor)
		for g := range progs {
			for j := 0; j < *per; j++ {
				k := sc.Burst[(g+j)%len(sc.Burst)]
				r := creq{Mode: k.Mode, Idx: idxs[(g*(*per)+j+n)%len(idxs)], Lo: k.Lo}
				d, err := ref(r)
				if err != nil {
					return err
				}
				progs[g] = append(progs[g], rq{r, d})
			}
		}
		for rep := 0; rep < *reps; rep++ {
			tx := fresh()
			if tx == nil {
				return fmt.Errorf("btc.NewTx could not parse the reference serialisation")
			}
			before := fail
			report := func(stage string, r creq, want, got []byte, p string) {
				fail++
				if bad < 40 {
					out.Put(failure{Line: n, Rule: "burst-" + r.Mode,
						What: fmt.Sprintf("a %s request on a %d-input transaction (%s; GOMAXPROCS %d, %d goroutines) returned a digest that differs from the uncached definition: %s input %d hash type 0x%02x",
							stage, *nin, scenString(&sc), runtime.GOMAXPROCS(0), *gor, r.Mode, r.Idx, r.Lo),
						Case: sc, Detail: map[string]interface{}{"want": hx(want), "got": hx(got), "panic": p, "rep": rep, "nin": *nin, "nout": *nout}})
				}
				bad++
			}
			if sc.Warm.Mode != "none" {
				r := creq{Mode: sc.Warm.Mode, Idx: idxs[n%len(idxs)], Lo: sc.Warm.Lo}
				d, err := ref(r)
				if err != nil {
					return err
				}
				got, p := call(tx, r)
				calls++
				if d != nil && (p != "" || !bytes.Equal(got, d)) {
					report("warm-up", r, d, got, p)
				}
			}
			gots := make([][][]byte, *gor)
			panics := make([][]string, *gor)
			start := make(chan struct{})
			var cw sync.WaitGroup
			for g := range progs {
				gots[g] = make([][]byte, len(progs[g]))
				panics[g] = make([]string, len(progs[g]))
				cw.Add(1)
				go func(g int) {
					defer cw.Done()
					<-start
					for j, q := range progs[g] {
						gots[g][j], panics[g][j] = call(tx, q.r)
					}
				}(g)
			}
			close(start)
			cw.Wait()
			for g := range progs {
				for j, q := range progs[g] {
					calls++
					if q.want != nil && (panics[g][j] != "" || !bytes.Equal(gots[g][j], q.want)) {
						report("concurrent", q.r, q.want, gots[g][j], panics[g][j])
					}
				}
			}
			if fail > before {
				failedRuns++
			}
		}
		return nil
	})
	if err != nil {
		fmt.Fprintln(os.Stderr, err)
		os.Exit(2)
	}
	out.Put(map[string]interface{}{"summary": true, "scenarios": scen, "nontrivial": nontrivial, "runs": scen * *reps, "failed_runs": failedRuns, "calls": calls, "fail": fail,
		"requests": len(pre), "gomaxprocs": runtime.GOMAXPROCS(0), "nin": *nin, "nout": *nout, "goroutines": *gor})
	out.Flush()
}

func orderString(st []cstep) string {
	var p []string
	for _, s := range st {
		p = append(p, fmt.Sprintf("t%d:%s/%d/0x%02x", s.T, s.R.Mode, s.R.Idx, s.R.Lo))
	}
	return strings.Join(p, " ")
}

// ---------------------------------------------------------------- vectors (self-check of the reference)

type vecShape struct {
	ID   int    `json:"id"`
	Mode string `json:"mode"`
	Nin  int    `json:"nin"`
	Nout int    `json:"nout"`
	Idx  int    `json:"idx"`
	Lo   int    `json:"lo"`
	Hi   int    `json:"hi"`
	Toks []int  `json:"toks"`
}

type vector struct {
	shape  vecShape
	tx     *rtx
	runs   [][]byte
	expect []byte // legacy: the digest
	sig    []byte // bip143: a real signature (without hash-type byte) and its key
	pk     []byte
	what   string
}

func toksOfRuns(n int) []int {
	t := []int{}
	for i := 0; i < n; i++ {
		if i > 0 {
			t = append(t, 0xab)
		}
		t = append(t, tokRun+i)
	}
	return t
}

func loadVectors(sighashPath, txvalidPath string) (vs []*vector, skipped []string, err error) {
	if sighashPath != "" {
		var arr [][]interface{}
		dat, e := os.ReadFile(sighashPath)
		if e != nil {
			return nil, nil, e
		}
		d := json.NewDecoder(bytes.NewReader(dat))
		d.UseNumber()
		if e = d.Decode(&arr); e != nil {
			return nil, nil, e
		}
		for i, a := range arr {
			if len(a) != 5 {
				continue
			}
			raw, _ := hex.DecodeString(a[0].(string))
			scr, _ := hex.DecodeString(a[1].(string))
			idx, _ := a[2].(json.Number).Int64()
			ht, _ := a[3].(json.Number).Int64()
			exp, _ := hex.DecodeString(a[4].(string))
			tx, e := parseTx(raw)
			if e != nil || len(exp) != 32 || int(idx) >= len(tx.ins) {
				skipped = append(skipped, fmt.Sprintf("sighash.json[%d]: %v", i, e))
				continue
			}
			for l, r := 0, 31; l < r; l, r = l+1, r-1 { // uint256 hex is printed byte-reversed
				exp[l], exp[r] = exp[r], exp[l]
			}
			runs, malformed := splitAtSeps(scr)
			if malformed {
				skipped = append(skipped, fmt.Sprintf("sighash.json[%d]: script with a truncated push", i))
				continue
			}
			u := uint32(int32(ht))
			vs = append(vs, &vector{shape: vecShape{Mode: "legacy", Nin: len(tx.ins), Nout: len(tx.outs), Idx: int(idx), Lo: int(u & 0xff), Hi: int(u >> 8), Toks: toksOfRuns(len(runs))},
				tx: tx, runs: runs, expect: exp, what: fmt.Sprintf("sighash.json[%d]", i)})
		}
	}
	if txvalidPath != "" {
		var arr []interface{}
		dat, e := os.ReadFile(txvalidPath)
		if e != nil {
			return nil, nil, e
		}
		d := json.NewDecoder(bytes.NewReader(dat))
		d.UseNumber()
		if e = d.Decode(&arr); e != nil {
			return nil, nil, e
		}
		for i, ent := range arr {
			a, ok := ent.([]interface{})
			if !ok || len(a) != 3 {
				continue
			}
			prevs, ok1 := a[0].([]interface{})
			rawhex, ok2 := a[1].(string)
			flags, ok3 := a[2].(string)
			if !ok1 || !ok2 || !ok3 || !strings.Contains(flags, "WITNESS") {
				continue
			}
			raw, _ := hex.DecodeString(rawhex)
			tx, e := parseTx(raw)
			if e != nil || tx.wit == nil {
				continue
			}
			for _, pv := range prevs {
				p, ok := pv.([]interface{})
				if !ok || len(p) != 4 {
					continue
				}
				h, _ := hex.DecodeString(p[0].(string))
				vout, _ := p[1].(json.Number).Int64()
				spkText, _ := p[2].(string)
				amount, _ := p[3].(json.Number).Int64()
				if len(h) != 32 {
					continue
				}
				for l, r := 0, 31; l < r; l, r = l+1, r-1 {
					h[l], h[r] = h[r], h[l]
				}
				for k := range tx.ins {
					if !bytes.Equal(tx.ins[k].hash[:], h) || tx.ins[k].vout != uint32(vout) || len(tx.ins[k].script) != 0 {
						continue
					}
					tx.spent[k].value = uint64(amount)
					wit := tx.wit[k]
					f := strings.Fields(spkText)
					var code, sig, pk []byte
					switch {
					case len(f) == 3 && f[0] == "0x00" && f[1] == "0x14" && len(wit) == 2 && len(wit[0]) > 8:
						// P2WPKH: scriptCode is the P2PKH script of the program (BIP143)
						prog, _ := hex.DecodeString(strings.TrimPrefix(f[2], "0x"))
						code = append(append([]byte{0x76, 0xa9, 0x14}, prog...), 0x88, 0xac)
						sig, pk = wit[0], wit[1]
					case len(f) == 3 && f[0] == "0x00" && f[1] == "0x20" && len(wit) == 2 && len(wit[1]) == 35 && wit[1][0] == 33 && wit[1][34] == 0xac && len(wit[0]) > 8:
						// P2WSH of <pubkey> OP_CHECKSIG
						code = wit[1]
						sig, pk = wit[0], wit[1][1:34]
					default:
						continue
					}
					vs = append(vs, &vector{shape: vecShape{Mode: "bip143", Nin: len(tx.ins), Nout: len(tx.outs), Idx: k, Lo: int(sig[len(sig)-1]), Toks: []int{tokRun}},
						tx: tx, runs: [][]byte{code}, sig: sig[:len(sig)-1], pk: pk, what: fmt.Sprintf("tx_valid.json[%d] input %d", i, k)})
				}
			}
		}
	}
	for i, v := range vs {
		v.shape.ID = i
	}
	return
}

func cmdVecPrep(args []string) {
	fs := flag.NewFlagSet("vecprep", flag.ExitOnError)
	sh := fs.String("sighash", "", "sighash.json")
	tv := fs.String("txvalid", "", "tx_valid.json")
	outp := fs.String("out", "", "shape file for SigHashGen")
	fs.Parse(args)
	vs, skipped, err := loadVectors(*sh, *tv)
	if err != nil {
		fmt.Fprintln(os.Stderr, err)
		os.Exit(2)
	}
	shapes := []vecShape{}
	for _, v := range vs {
		shapes = append(shapes, v.shape)
	}
	b, _ := json.Marshal(shapes)
	if err := os.WriteFile(*outp, b, 0644); err != nil {
		fmt.Fprintln(os.Stderr, err)
		os.Exit(2)
	}
	j, _ := json.Marshal(map[string]interface{}{"vectors": len(vs), "skipped": skipped})
	fmt.Println(string(j))
}

func cmdVecCheck(args []string) {
	fs := flag.NewFlagSet("veccheck", flag.ExitOnError)
	sh := fs.String("sighash", "", "sighash.json")
	tv := fs.String("txvalid", "", "tx_valid.json")
	in := fs.String("in", "-", "VFT lines of the vector cases")
	fs.Parse(args)
	vs, _, err := loadVectors(*sh, *tv)
	if err != nil {
		fmt.Fprintln(os.Stderr, err)
		os.Exit(2)
	}
	out := vio.NewOut()
	seen := map[int]bool{}
	legacy, legacyOK, w143, w143OK := 0, 0, 0, 0
	err = vio.ReadLines(*in, func(n int, line []byte) error {
		var c gcase
		if e := json.Unmarshal(line, &c); e != nil || c.Vec == nil || *c.Vec < 0 || *c.Vec >= len(vs) {
			return fmt.Errorf("bad vector line %d: %v", n, e)
		}
		v := vs[*c.Vec]
		seen[*c.Vec] = true
		ctx := &evalCtx{tx: v.tx, idx: v.shape.Idx, runs: v.runs}
		d, e := ctx.digest(&c.Pre)
		if e != nil {
			return fmt.Errorf("%s: %v", v.what, e)
		}
		if v.shape.Mode == "legacy" {
			legacy++
			if bytes.Equal(d, v.expect) {
				legacyOK++
			} else {
				out.Put(map[string]interface{}{"ok": false, "what": v.what + ": the reference digest differs from Bitcoin Core's vector", "want": hx(v.expect), "got": hx(d)})
			}
		} else {
			w143++
			if ecdsaVerify(v.pk, v.sig, d) {
				w143OK++
			} else {
				out.Put(map[string]interface{}{"ok": false, "what": v.what + ": the real signature does not verify under the reference BIP143 digest", "digest": hx(d)})
			}
		}
		return nil
	})
	if err != nil {
		fmt.Fprintln(os.Stderr, err)
		os.Exit(2)
	}
	out.Put(map[string]interface{}{"summary": true, "vectors": len(vs), "evaluated": len(seen), "legacy": legacy, "legacy_ok": legacyOK, "bip143_sigs": w143, "bip143_ok": w143OK})
	out.Flush()
}

// ---------------------------------------------------------------- signer self-test

func cmdSelfTest(args []string) {
	fs := flag.NewFlagSet("selftest", flag.ExitOnError)
	csvp := fs.String("bip340", "", "bip340_test_vectors.csv")
	seed := fs.Int64("seed", 1, "seed")
	fs.Parse(args)
	w := newWorld(*seed)
	res := map[string]interface{}{"summary": true}
	bad := []string{}
	if !onCurve(ecG) || !ptMul(ecN, ecG).inf() {
		bad = append(bad, "curve constants")
	}
	n := 0
	for i, k := range w.keys {
		for j, no := range w.nonces {
			m := sha([]byte(fmt.Sprintf("msg-%d-%d", i, j)))
			es := ecdsaSign(k, no, m)
			ss := schnorrSign(k, no, m)
			m2 := append([]byte{}, m...)
			m2[7] ^= 4
			if !ecdsaVerify(k.comp, es, m) || ecdsaVerify(k.comp, es, m2) || !schnorrVerify(k.xonly, m, ss) || schnorrVerify(k.xonly, m2, ss) {
				bad = append(bad, fmt.Sprintf("own signature key %d nonce %d", i, j))
			}
			// and by the implementation's verifiers (C03 is the property about those; here: the signer is usable)
			if !btc.EcdsaVerify(k.comp, es, m) || !btc.SchnorrVerify(k.xonly, ss, m) {
				bad = append(bad, fmt.Sprintf("gocoin refuses own signature key %d nonce %d", i, j))
			}
			n++
		}
	}
	res["own_signatures"] = n
	if *csvp != "" {
		f, err := os.Open(*csvp)
		if err == nil {
			rows, _ := csv.NewReader(f).ReadAll()
			f.Close()
			cnt := 0
			for _, r := range rows[1:] {
				if len(r) < 7 {
					continue
				}
				pk, _ := hex.DecodeString(r[2])
				msg, _ := hex.DecodeString(r[4])
				sig, _ := hex.DecodeString(r[5])
				want := strings.EqualFold(r[6], "TRUE")
				if schnorrVerify(pk, msg, sig) != want {
					bad = append(bad, "BIP340 vector "+r[0])
				}
				cnt++
			}
			res["bip340_vectors"] = cnt
		}
	}
	res["bad"] = bad
	j, _ := json.Marshal(res)
	fmt.Println(string(j))
	if len(bad) > 0 {
		os.Exit(1)
	}
}

func main() {
	if len(os.Args) < 2 {
		fmt.Fprintln(os.Stderr, "usage: sighash replay|cache|burst|vecprep|veccheck|selftest ...")
		os.Exit(2)
	}
	switch os.Args[1] {
	case "replay":
		cmdReplay(os.Args[2:])
	case "cache":
		cmdCache(os.Args[2:])
	case "burst":
		cmdBurst(os.Args[2:])
	case "vecprep":
		cmdVecPrep(os.Args[2:])
	case "veccheck":
		cmdVecCheck(os.Args[2:])
	case "selftest":
		cmdSelfTest(os.Args[2:])
	default:
		fmt.Fprintln(os.Stderr, "unknown subcommand", os.Args[1])
		os.Exit(2)
	}
}
