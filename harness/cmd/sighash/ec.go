package main

// Independent signer / verifier: secp256k1 over math/big (affine formulas, SEC 1), ECDSA (SEC 1 4.1.3 / 4.1.4,
// strict DER as BIP66) and Schnorr signatures + tagged hashes as BIP340.  Nothing of gocoin is used here.

import (
	"crypto/sha256"
	"errors"
	"math/big"
)

var (
	ecP, _  = new(big.Int).SetString("FFFFFFFFFFFFFFFFFFFFFFFFFFFFFFFFFFFFFFFFFFFFFFFFFFFFFFFEFFFFFC2F", 16)
	ecN, _  = new(big.Int).SetString("FFFFFFFFFFFFFFFFFFFFFFFFFFFFFFFEBAAEDCE6AF48A03BBFD25E8CD0364141", 16)
	ecGx, _ = new(big.Int).SetString("79BE667EF9DCBBAC55A06295CE870B07029BFCDB2DCE28D959F2815B16F81798", 16)
	ecGy, _ = new(big.Int).SetString("483ADA7726A3C4655DA4FBFC0E1108A8FD17B448A68554199C47D08FFB10D4B8", 16)
	ecG     = pt{ecGx, ecGy}
	big0    = big.NewInt(0)
	big1    = big.NewInt(1)
	big2    = big.NewInt(2)
	big3    = big.NewInt(3)
	big7    = big.NewInt(7)
)

type pt struct{ x, y *big.Int } // x == nil: point at infinity

func (a pt) inf() bool { return a.x == nil }

func modp(v *big.Int) *big.Int { return v.Mod(v, ecP) }

func ptAdd(a, b pt) pt {
	if a.inf() {
		return b
	}
	if b.inf() {
		return a
	}
	var lam *big.Int
	if a.x.Cmp(b.x) == 0 {
		if a.y.Cmp(b.y) != 0 || a.y.Sign() == 0 {
			return pt{}
		}
		// lambda = 3x^2 / 2y
		num := new(big.Int).Mul(a.x, a.x)
		num.Mul(num, big3)
		den := new(big.Int).Mul(a.y, big2)
		den.ModInverse(modp(den), ecP)
		lam = modp(num.Mul(num, den))
	} else {
		num := new(big.Int).Sub(b.y, a.y)
		den := new(big.Int).Sub(b.x, a.x)
		den.ModInverse(modp(den), ecP)
		lam = modp(num.Mul(modp(num), den))
	}
	x3 := new(big.Int).Mul(lam, lam)
	x3.Sub(x3, a.x)
	x3.Sub(x3, b.x)
	modp(x3)
	y3 := new(big.Int).Sub(a.x, x3)
	y3.Mul(y3, lam)
	y3.Sub(y3, a.y)
	modp(y3)
	return pt{x3, y3}
}

func ptMul(k *big.Int, p pt) pt {
	var r pt
	kk := new(big.Int).Mod(k, ecN)
	for i := kk.BitLen() - 1; i >= 0; i-- {
		r = ptAdd(r, r)
		if kk.Bit(i) == 1 {
			r = ptAdd(r, p)
		}
	}
	return r
}

func onCurve(p pt) bool {
	if p.inf() {
		return false
	}
	l := new(big.Int).Mul(p.y, p.y)
	r := new(big.Int).Mul(p.x, p.x)
	r.Mul(r, p.x)
	r.Add(r, big7)
	return modp(l).Cmp(modp(r)) == 0
}

func b32(v *big.Int) []byte {
	out := make([]byte, 32)
	v.FillBytes(out)
	return out
}

func evenY(p pt) bool { return p.y.Bit(0) == 0 }

// liftX: BIP340 lift_x
func liftX(x *big.Int) (pt, bool) {
	if x.Cmp(ecP) >= 0 {
		return pt{}, false
	}
	c := new(big.Int).Mul(x, x)
	c.Mul(c, x)
	c.Add(c, big7)
	modp(c)
	e := new(big.Int).Add(ecP, big1)
	e.Rsh(e, 2)
	y := new(big.Int).Exp(c, e, ecP)
	if new(big.Int).Exp(y, big2, ecP).Cmp(c) != 0 {
		return pt{}, false
	}
	if y.Bit(0) == 1 {
		y.Sub(ecP, y)
	}
	return pt{new(big.Int).Set(x), y}, true
}

func sha(b ...[]byte) []byte {
	h := sha256.New()
	for _, x := range b {
		h.Write(x)
	}
	return h.Sum(nil)
}

func dsha(b ...[]byte) []byte { return sha(sha(b...)) }

// taggedHash: BIP340: SHA256(SHA256(tag) || SHA256(tag) || msg)
func taggedHash(tag string, b ...[]byte) []byte {
	t := sha([]byte(tag))
	return sha(append([][]byte{t, t}, b...)...)
}

// ---------------------------------------------------------------- keys

type key struct {
	d     *big.Int // secret
	pub   pt
	comp  []byte   // 33-byte compressed public key
	xonly []byte   // 32-byte x coordinate
	dEven *big.Int // secret of the even-y point with that x (BIP340)
}

func newKey(seed []byte) *key {
	d := new(big.Int).SetBytes(sha(seed))
	d.Mod(d, new(big.Int).Sub(ecN, big1))
	d.Add(d, big1)
	k := &key{d: d, pub: ptMul(d, ecG)}
	k.xonly = b32(k.pub.x)
	k.comp = append([]byte{byte(2 + k.pub.y.Bit(0))}, k.xonly...)
	k.dEven = new(big.Int).Set(d)
	if !evenY(k.pub) {
		k.dEven.Sub(ecN, d)
	}
	return k
}

// nonce: a secret scalar with its public point, computed once (the signatures of this driver need not be
// secure, they need to be valid: any k in 1..n-1 gives a valid signature)
type nonce struct {
	k *big.Int
	r pt
}

func newNonce(seed []byte) *nonce {
	k := new(big.Int).SetBytes(sha(seed))
	k.Mod(k, new(big.Int).Sub(ecN, big1))
	k.Add(k, big1)
	return &nonce{k, ptMul(k, ecG)}
}

// ---------------------------------------------------------------- ECDSA

func derInt(v *big.Int) []byte {
	b := v.Bytes()
	if len(b) == 0 {
		b = []byte{0}
	}
	if b[0] >= 0x80 {
		b = append([]byte{0}, b...)
	}
	return append([]byte{0x02, byte(len(b))}, b...)
}

// ecdsaSign returns a strict-DER, low-S signature of the 32-byte digest (without the hash-type byte)
func ecdsaSign(k *key, no *nonce, digest []byte) []byte { return ecdsaSignPadded(k, no, digest, 0) }

// ecdsaSignPadded: pad > 0 prepends that many zero bytes to the integer R: a valid signature for the lax DER
// parser of the rules before BIP66 (OpenSSL / ecdsa_signature_parse_der_lax ignore leading zeroes)
func ecdsaSignPadded(k *key, no *nonce, digest []byte, pad int) []byte {
	z := new(big.Int).SetBytes(digest)
	r := new(big.Int).Mod(no.r.x, ecN)
	s := new(big.Int).Mul(r, k.d)
	s.Add(s, z)
	s.Mul(s, new(big.Int).ModInverse(no.k, ecN))
	s.Mod(s, ecN)
	if s.Cmp(new(big.Int).Rsh(ecN, 1)) > 0 {
		s.Sub(ecN, s)
	}
	ri := derInt(r)
	if pad > 0 {
		ri = append([]byte{0x02, byte(int(ri[1]) + pad)}, append(make([]byte, pad), ri[2:]...)...)
	}
	body := append(ri, derInt(s)...)
	return append([]byte{0x30, byte(len(body))}, body...)
}

func parseDER(sig []byte) (r, s *big.Int, err error) {
	bad := errors.New("bad DER")
	if len(sig) < 8 || sig[0] != 0x30 || int(sig[1]) != len(sig)-2 || sig[2] != 0x02 {
		return nil, nil, bad
	}
	lr := int(sig[3])
	if 4+lr+2 > len(sig) || sig[4+lr] != 0x02 {
		return nil, nil, bad
	}
	ls := int(sig[5+lr])
	if 6+lr+ls != len(sig) {
		return nil, nil, bad
	}
	return new(big.Int).SetBytes(sig[4 : 4+lr]), new(big.Int).SetBytes(sig[6+lr:]), nil
}

func parsePub(pk []byte) (pt, bool) {
	if len(pk) == 33 && (pk[0] == 2 || pk[0] == 3) {
		p, ok := liftX(new(big.Int).SetBytes(pk[1:]))
		if !ok {
			return pt{}, false
		}
		if p.y.Bit(0) != uint(pk[0]&1) {
			p.y.Sub(ecP, p.y)
		}
		return p, true
	}
	if len(pk) == 65 && pk[0] == 4 {
		p := pt{new(big.Int).SetBytes(pk[1:33]), new(big.Int).SetBytes(pk[33:])}
		return p, onCurve(p)
	}
	return pt{}, false
}

func ecdsaVerify(pk, sig, digest []byte) bool {
	q, ok := parsePub(pk)
	if !ok {
		return false
	}
	r, s, err := parseDER(sig)
	if err != nil || r.Sign() <= 0 || s.Sign() <= 0 || r.Cmp(ecN) >= 0 || s.Cmp(ecN) >= 0 {
		return false
	}
	z := new(big.Int).SetBytes(digest)
	w := new(big.Int).ModInverse(s, ecN)
	u1 := new(big.Int).Mul(z, w)
	u1.Mod(u1, ecN)
	u2 := new(big.Int).Mul(r, w)
	u2.Mod(u2, ecN)
	x := ptAdd(ptMul(u1, ecG), ptMul(u2, q))
	if x.inf() {
		return false
	}
	return new(big.Int).Mod(x.x, ecN).Cmp(r) == 0
}

// ---------------------------------------------------------------- BIP340

// schnorrSign: BIP340 "Default Signing" with the nonce given instead of derived (k' = no.k)
func schnorrSign(k *key, no *nonce, msg []byte) []byte {
	kk := new(big.Int).Set(no.k)
	if !evenY(no.r) {
		kk.Sub(ecN, kk)
	}
	rx := b32(no.r.x)
	e := new(big.Int).SetBytes(taggedHash("BIP0340/challenge", rx, k.xonly, msg))
	e.Mod(e, ecN)
	s := new(big.Int).Mul(e, k.dEven)
	s.Add(s, kk)
	s.Mod(s, ecN)
	return append(rx, b32(s)...)
}

func schnorrVerify(pk, msg, sig []byte) bool {
	if len(pk) != 32 || len(sig) != 64 {
		return false
	}
	p, ok := liftX(new(big.Int).SetBytes(pk))
	if !ok {
		return false
	}
	r := new(big.Int).SetBytes(sig[:32])
	s := new(big.Int).SetBytes(sig[32:])
	if r.Cmp(ecP) >= 0 || s.Cmp(ecN) >= 0 {
		return false
	}
	e := new(big.Int).SetBytes(taggedHash("BIP0340/challenge", sig[:32], pk, msg))
	e.Mod(e, ecN)
	ne := new(big.Int).Sub(ecN, e)
	rr := ptAdd(ptMul(s, ecG), ptMul(ne, p))
	if rr.inf() || !evenY(rr) || rr.x.Cmp(r) != 0 {
		return false
	}
	return true
}

// taprootOutput: BIP341 script-path commitment with a single leaf: Q = P + int(hash_TapTweak(P || root))G
func taprootOutput(internal *key, root []byte) (qx []byte, parity byte, ok bool) {
	p, _ := liftX(internal.pub.x)
	t := new(big.Int).SetBytes(taggedHash("TapTweak", internal.xonly, root))
	if t.Cmp(ecN) >= 0 {
		return nil, 0, false
	}
	q := ptAdd(p, ptMul(t, ecG))
	if q.inf() {
		return nil, 0, false
	}
	return b32(q.x), byte(q.y.Bit(0)), true
}
