package main

// The reference side: a plain transaction structure, its serialisation (Bitcoin's wire format), a parser for
// the vector files, and the evaluation of the field descriptors of spec/SigHash.tla to bytes.
// Only crypto/sha256; nothing of gocoin.

import (
	"encoding/binary"
	"errors"
	"fmt"
	"math/rand"
)

type rin struct {
	hash   [32]byte
	vout   uint32
	script []byte
	seq    uint32
}

type rout struct {
	value uint64
	spk   []byte
}

type rtx struct {
	version uint32
	ins     []rin
	outs    []rout
	lock    uint32
	spent   []rout     // the outputs spent by the inputs
	wit     [][][]byte // witness stacks (vector files only)
}

func le32(v uint32) []byte { b := make([]byte, 4); binary.LittleEndian.PutUint32(b, v); return b }
func le64(v uint64) []byte { b := make([]byte, 8); binary.LittleEndian.PutUint64(b, v); return b }

func compact(n uint64) []byte {
	switch {
	case n < 253:
		return []byte{byte(n)}
	case n <= 0xffff:
		return []byte{253, byte(n), byte(n >> 8)}
	case n <= 0xffffffff:
		return append([]byte{254}, le32(uint32(n))...)
	}
	return append([]byte{255}, le64(n)...)
}

func varbytes(b []byte) []byte { return append(compact(uint64(len(b))), b...) }

func (o *rout) ser() []byte { return append(le64(o.value), varbytes(o.spk)...) }
func (i *rin) outpoint() []byte {
	return append(append([]byte{}, i.hash[:]...), le32(i.vout)...)
}

// serialize without witness
func (t *rtx) serialize() []byte {
	b := le32(t.version)
	b = append(b, compact(uint64(len(t.ins)))...)
	for i := range t.ins {
		b = append(b, t.ins[i].outpoint()...)
		b = append(b, varbytes(t.ins[i].script)...)
		b = append(b, le32(t.ins[i].seq)...)
	}
	b = append(b, compact(uint64(len(t.outs)))...)
	for i := range t.outs {
		b = append(b, t.outs[i].ser()...)
	}
	return append(b, le32(t.lock)...)
}

// pushData: the canonical push of CScript::operator<<(vector)
func pushData(d []byte) []byte {
	switch {
	case len(d) < 0x4c:
		return append([]byte{byte(len(d))}, d...)
	case len(d) <= 0xff:
		return append([]byte{0x4c, byte(len(d))}, d...)
	case len(d) <= 0xffff:
		return append([]byte{0x4d, byte(len(d)), byte(len(d) >> 8)}, d...)
	}
	return append(append([]byte{0x4e}, le32(uint32(len(d)))...), d...)
}

// ---------------------------------------------------------------- random transactions of a shape

func rbytes(r *rand.Rand, n int) []byte {
	b := make([]byte, n)
	r.Read(b)
	return b
}

var spkLens = []int{0, 1, 22, 23, 25, 34, 35, 67, 75, 76, 252, 253, 300}

func randScript(r *rand.Rand) []byte {
	n := spkLens[r.Intn(len(spkLens))]
	if n > 80 && r.Intn(4) != 0 {
		n = 20 + r.Intn(20)
	}
	return rbytes(r, n)
}

func randValue(r *rand.Rand) uint64 {
	switch r.Intn(6) {
	case 0:
		return 0
	case 1:
		return r.Uint64() // any 64-bit pattern: the digest functions do not judge amounts
	case 2:
		return 2100000000000000
	}
	return uint64(r.Int63n(2100000000000000))
}

func randTx(r *rand.Rand, nin, nout int) *rtx {
	t := &rtx{}
	switch r.Intn(4) {
	case 0:
		t.version = 1
	case 1:
		t.version = 2
	default:
		t.version = r.Uint32()
	}
	t.lock = r.Uint32()
	if r.Intn(3) == 0 {
		t.lock = 0
	}
	for i := 0; i < nin; i++ {
		var in rin
		r.Read(in.hash[:])
		in.vout = uint32(r.Intn(5))
		if r.Intn(8) == 0 {
			in.vout = r.Uint32()
		}
		switch r.Intn(4) {
		case 0:
			in.seq = 0xffffffff
		case 1:
			in.seq = 0xfffffffe
		case 2:
			in.seq = uint32(r.Intn(3))
		default:
			in.seq = r.Uint32()
		}
		in.script = pushData(rbytes(r, r.Intn(40))) // other inputs' scriptSig: never part of a digest
		t.ins = append(t.ins, in)
		t.spent = append(t.spent, rout{randValue(r), randScript(r)})
	}
	for i := 0; i < nout; i++ {
		t.outs = append(t.outs, rout{randValue(r), randScript(r)})
	}
	return t
}

// ---------------------------------------------------------------- descriptors

type desc struct {
	K  string `json:"k"`
	N  int    `json:"n"`
	Of []desc `json:"of"`
	T  []int  `json:"t"`
}

type preimage struct {
	Def    string `json:"def"`
	How    string `json:"how"`
	Fields []desc `json:"fields"`
}

const (
	tokPSIG = 1000
	tokPPK  = 1001
	tokPPKH = 1002
	tokDATA = 1003
	tokRun  = 2000
)

// evalCtx: what the descriptors refer to
type evalCtx struct {
	tx    *rtx
	idx   int
	annex []byte   // with the 0x50 prefix
	sig   []byte   // rendering of PSIG (signature with hash-type byte), nil when not available
	pk    []byte   // rendering of PPK
	pkh   []byte   // rendering of PPKH: HASH160 of the public key
	data  []byte   // rendering of PDATA
	runs  [][]byte // opaque runs of opcodes (vector cases)
}

func (c *evalCtx) render(toks []int) ([]byte, error) {
	var out []byte
	for _, t := range toks {
		switch {
		case t >= 0 && t < 256:
			out = append(out, byte(t))
		case t == tokPSIG:
			if c.sig == nil {
				return nil, errors.New("PSIG token but no signature to render")
			}
			out = append(out, pushData(c.sig)...)
		case t == tokPPK:
			out = append(out, pushData(c.pk)...)
		case t == tokDATA:
			out = append(out, pushData(c.data)...)
		case t == tokPPKH:
			if c.pkh == nil {
				return nil, errors.New("PPKH token but no key hash")
			}
			out = append(out, pushData(c.pkh)...)
		case t >= tokRun && t-tokRun < len(c.runs):
			out = append(out, c.runs[t-tokRun]...)
		default:
			return nil, fmt.Errorf("unknown script token %d", t)
		}
	}
	return out, nil
}

func (c *evalCtx) eval(d *desc) ([]byte, error) {
	tx := c.tx
	in := func() (*rin, error) {
		if d.N < 0 || d.N >= len(tx.ins) {
			return nil, fmt.Errorf("%s: no input %d", d.K, d.N)
		}
		return &tx.ins[d.N], nil
	}
	switch d.K {
	case "version":
		return le32(tx.version), nil
	case "locktime":
		return le32(tx.lock), nil
	case "count":
		return compact(uint64(d.N)), nil
	case "outpoint":
		i, e := in()
		if e != nil {
			return nil, e
		}
		return i.outpoint(), nil
	case "sequence":
		i, e := in()
		if e != nil {
			return nil, e
		}
		return le32(i.seq), nil
	case "zeroseq":
		return []byte{0, 0, 0, 0}, nil
	case "txout":
		if d.N < 0 || d.N >= len(tx.outs) {
			return nil, fmt.Errorf("txout: no output %d", d.N)
		}
		return tx.outs[d.N].ser(), nil
	case "blankout":
		return []byte{0xff, 0xff, 0xff, 0xff, 0xff, 0xff, 0xff, 0xff, 0}, nil
	case "varscript":
		b, e := c.render(d.T)
		if e != nil {
			return nil, e
		}
		return varbytes(b), nil
	case "amount":
		return le64(tx.spent[c.idx].value), nil
	case "spentamount":
		if _, e := in(); e != nil {
			return nil, e
		}
		return le64(tx.spent[d.N].value), nil
	case "spentscript":
		if _, e := in(); e != nil {
			return nil, e
		}
		return varbytes(tx.spent[d.N].spk), nil
	case "hashtype32":
		if len(d.T) != 2 {
			return nil, errors.New("hashtype32 wants <<lo, hi>>")
		}
		return le32(uint32(d.T[0]) | uint32(d.T[1])<<8), nil
	case "hashtype8", "spendtype", "keyver", "leafver":
		return []byte{byte(d.N)}, nil
	case "epoch":
		return []byte{0}, nil
	case "inpos":
		return le32(uint32(d.N)), nil
	case "codesep":
		if d.N < 0 {
			return le32(0xffffffff), nil
		}
		return le32(uint32(d.N)), nil
	case "varannex":
		if c.annex == nil {
			return nil, errors.New("varannex without annex")
		}
		return varbytes(c.annex), nil
	case "zerohash":
		return make([]byte, 32), nil
	case "dsha", "sha":
		b, e := c.cat(d.Of)
		if e != nil {
			return nil, e
		}
		if d.K == "dsha" {
			return dsha(b), nil
		}
		return sha(b), nil
	}
	if len(d.K) > 7 && d.K[:7] == "tagged_" {
		b, e := c.cat(d.Of)
		if e != nil {
			return nil, e
		}
		return taggedHash(d.K[7:], b), nil
	}
	return nil, fmt.Errorf("unknown descriptor kind %q", d.K)
}

func (c *evalCtx) cat(ds []desc) ([]byte, error) {
	var out []byte
	for i := range ds {
		b, e := c.eval(&ds[i])
		if e != nil {
			return nil, e
		}
		out = append(out, b...)
	}
	return out, nil
}

var digestONE = append([]byte{1}, make([]byte, 31)...) // uint256 1 as hash bytes

// digest: the reference digest of a defined preimage
func (c *evalCtx) digest(p *preimage) ([]byte, error) {
	switch p.Def {
	case "one":
		return digestONE, nil
	case "digest":
		b, e := c.cat(p.Fields)
		if e != nil {
			return nil, e
		}
		switch {
		case p.How == "dsha":
			return dsha(b), nil
		case len(p.How) > 7 && p.How[:7] == "tagged_":
			return taggedHash(p.How[7:], b), nil
		}
		return nil, fmt.Errorf("unknown digest construction %q", p.How)
	}
	return nil, fmt.Errorf("no digest for def=%q", p.Def)
}

// ---------------------------------------------------------------- parsing (vector files)

type rd struct {
	b   []byte
	p   int
	err error
}

func (r *rd) take(n int) []byte {
	if r.err != nil || n < 0 || r.p+n > len(r.b) {
		r.err = errors.New("short read")
		return make([]byte, n&0xffff)
	}
	o := r.b[r.p : r.p+n]
	r.p += n
	return o
}
func (r *rd) u32() uint32 { return binary.LittleEndian.Uint32(r.take(4)) }
func (r *rd) u64() uint64 { return binary.LittleEndian.Uint64(r.take(8)) }
func (r *rd) cs() uint64 {
	f := r.take(1)[0]
	switch f {
	case 253:
		return uint64(binary.LittleEndian.Uint16(r.take(2)))
	case 254:
		return uint64(r.u32())
	case 255:
		return r.u64()
	}
	return uint64(f)
}
func (r *rd) vb() []byte {
	n := r.cs()
	if n > uint64(len(r.b)) {
		r.err = errors.New("length")
		return nil
	}
	return append([]byte{}, r.take(int(n))...)
}

// parseTx: BIP144; a 0x00 marker followed by a non-zero flag announces witnesses
func parseTx(b []byte) (*rtx, error) {
	r := &rd{b: b}
	t := &rtx{version: r.u32()}
	witness := false
	if len(b) > 6 && b[4] == 0 && b[5] != 0 {
		witness = true
		r.take(2)
	}
	nin := r.cs()
	if nin > uint64(len(b)) {
		return nil, errors.New("input count")
	}
	for i := uint64(0); i < nin && r.err == nil; i++ {
		var in rin
		copy(in.hash[:], r.take(32))
		in.vout = r.u32()
		in.script = r.vb()
		in.seq = r.u32()
		t.ins = append(t.ins, in)
	}
	nout := r.cs()
	if nout > uint64(len(b)) {
		return nil, errors.New("output count")
	}
	for i := uint64(0); i < nout && r.err == nil; i++ {
		v := r.u64()
		t.outs = append(t.outs, rout{v, r.vb()})
	}
	if witness {
		for i := range t.ins {
			_ = i
			n := r.cs()
			if n > uint64(len(b)) {
				return nil, errors.New("witness count")
			}
			var st [][]byte
			for k := uint64(0); k < n && r.err == nil; k++ {
				st = append(st, r.vb())
			}
			t.wit = append(t.wit, st)
		}
	}
	t.lock = r.u32()
	if r.err != nil {
		return nil, r.err
	}
	if r.p != len(b) {
		return nil, errors.New("trailing bytes")
	}
	t.spent = make([]rout, len(t.ins))
	return t, nil
}

// splitAtSeps cuts a script into the runs of opcodes between OP_CODESEPARATORs (parsed opcode by opcode as
// CScript::GetOp does; push data is never cut).  malformed: a truncated push was met (the rest is one run).
func splitAtSeps(s []byte) (runs [][]byte, malformed bool) {
	start, p := 0, 0
	for p < len(s) {
		op := s[p]
		n := 1
		switch {
		case op < 0x4c:
			n += int(op)
		case op == 0x4c:
			if p+2 > len(s) {
				malformed = true
			} else {
				n += 1 + int(s[p+1])
			}
		case op == 0x4d:
			if p+3 > len(s) {
				malformed = true
			} else {
				n += 2 + int(binary.LittleEndian.Uint16(s[p+1:]))
			}
		case op == 0x4e:
			if p+5 > len(s) {
				malformed = true
			} else {
				n += 4 + int(binary.LittleEndian.Uint32(s[p+1:]))
			}
		}
		if malformed || p+n > len(s) || n < 0 {
			malformed = true
			break
		}
		if op == 0xab {
			runs = append(runs, s[start:p])
			start = p + 1
		}
		p += n
	}
	runs = append(runs, s[start:])
	return
}
