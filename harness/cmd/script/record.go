package main

// script record: R->V.  Seeded random programs (up to ~250 ops, far longer than TLC enumerates) are executed
// by the real interpreter as a bare script, a P2WSH witness script or a tapscript leaf; the per-opcode hook of
// lib/script (build tag verif) reports position, opcode, exec flag, stack / altstack / condition-stack depth and
// the top element after every processed opcode; spec/TraceScript.tla replays the trace on the specification's
// step function and compares every observation and the final verdict.

import (
	"encoding/hex"
	"encoding/json"
	"flag"
	"fmt"
	"math/rand"
	"os"
	"syscall"

	"github.com/piotrnar/gocoin/lib/others/verif"
	"github.com/piotrnar/gocoin/lib/script"
)

type gen struct {
	r    *rand.Rand
	ops  []Op
	d, a int // lower bounds of stack / altstack depth
	nonp int // non-push ops so far
}

func (g *gen) op(o int)               { g.ops = append(g.ops, Op{O: o, D: []int{}}); g.nonp++ }
func (g *gen) push(v []int)           { g.ops = append(g.ops, pushMinOp(v)); g.d++ }
func (g *gen) pushRaw(o int, v []int) { g.ops = append(g.ops, Op{O: o, D: v}); g.d++ }

func pushMinOp(v []int) Op {
	if len(v) == 1 && v[0] >= 1 && v[0] <= 16 {
		return Op{O: 0x50 + v[0], D: []int{}}
	}
	if len(v) == 1 && v[0] == 0x81 {
		return Op{O: 0x4f, D: []int{}}
	}
	return Op{O: canonPush(len(v)), D: v}
}

func encNum(n int64) []int {
	b := scriptNum(n)
	return ints(b)
}

func (g *gen) number() {
	switch g.r.Intn(40) {
	case 0, 10, 20:
		g.push([]int{})
	case 1, 2, 3, 11, 12, 13, 21, 22, 23, 31, 32, 33:
		g.push(encNum(int64(g.r.Intn(17))))
	case 4, 14, 24:
		g.push(encNum(-int64(g.r.Intn(5))))
	case 5, 15, 25, 35:
		g.push(encNum(int64(g.r.Intn(70000)) - 35000))
	case 6, 16:
		g.push(encNum([]int64{2147483647, -2147483647, 2147483646, 1073741824, 32767, 32768, 127, 128, 255, 256}[g.r.Intn(10)]))
	case 7: // not minimal
		g.pushRaw(2, []int{g.r.Intn(128), 0})
	case 8: // too long to be a number
		g.pushRaw(5, []int{0, 0, 0, 128, 0})
	default:
		g.push(encNum(int64(g.r.Intn(1000))))
	}
}

func (g *gen) block(depth int, budget *int) {
	for *budget > 0 {
		*budget--
		k := g.r.Intn(100)
		switch {
		case k < 22:
			g.number()
		case k < 25:
			n := 5 + g.r.Intn(20)
			v := make([]int, n)
			for i := range v {
				v[i] = g.r.Intn(256)
			}
			g.push(v)
		case k < 28:
			g.op(0x61)
		case k < 60: // stack ops whose requirement is met
			type so struct{ o, need, delta int }
			tab := []so{{0x6d, 2, -2}, {0x6e, 2, 2}, {0x6f, 3, 3}, {0x70, 4, 2}, {0x71, 6, 0}, {0x72, 4, 0}, {0x73, 1, 0}, {0x74, 0, 1},
				{0x75, 1, -1}, {0x76, 1, 1}, {0x77, 2, -1}, {0x78, 2, 1}, {0x7b, 3, 0}, {0x7c, 2, 0}, {0x7d, 2, 1}, {0x82, 1, 1}, {0x87, 2, -1}}
			s := tab[g.r.Intn(len(tab))]
			if g.d >= s.need || g.r.Intn(40) == 0 {
				g.op(s.o)
				g.d += s.delta
				if g.d < 0 {
					g.d = 0
				}
			}
		case k < 64:
			if g.d >= 1 {
				g.op(0x6b)
				g.d--
				g.a++
			}
		case k < 68:
			if g.a >= 1 || g.r.Intn(30) == 0 {
				g.op(0x6c)
				g.d++
				if g.a > 0 {
					g.a--
				}
			}
		case k < 73: // PICK / ROLL
			if g.d >= 1 {
				n := g.r.Intn(g.d + 1)
				if g.r.Intn(12) == 0 {
					n = g.d + g.r.Intn(3)
				}
				g.push(encNum(int64(n)))
				g.d--
				if g.r.Intn(2) == 0 {
					g.op(0x79)
					g.d++
				} else {
					g.op(0x7a)
				}
			}
		case k < 84: // arithmetic on fresh numbers
			un := []int{0x8b, 0x8c, 0x8f, 0x90, 0x91, 0x92}
			bin := []int{0x93, 0x94, 0x9a, 0x9b, 0x9c, 0x9e, 0x9f, 0xa0, 0xa1, 0xa2, 0xa3, 0xa4}
			switch g.r.Intn(4) {
			case 0:
				g.number()
				g.op(un[g.r.Intn(len(un))])
			case 1, 2:
				g.number()
				g.number()
				g.op(bin[g.r.Intn(len(bin))])
				g.d--
			default:
				g.number()
				g.number()
				g.number()
				g.op(0xa5)
				g.d -= 2
			}
		case k < 88: // arithmetic on whatever is there
			if g.d >= 2 && g.r.Intn(3) == 0 {
				g.op([]int{0x93, 0x94, 0x8b, 0x91, 0xa3, 0x9a}[g.r.Intn(6)])
			}
		case k < 96 && depth < 6: // conditional
			switch g.r.Intn(6) {
			case 0:
				g.push([]int{})
			case 1:
				g.pushRaw(1, []int{g.r.Intn(3)}) // 0x00 / 0x01 (not a minimal push) / 0x02
			case 2:
				g.pushRaw(2, []int{0, g.r.Intn(2) * 128})
			default:
				g.push([]int{1})
			}
			g.d--
			g.op(0x63 + g.r.Intn(2))
			d0, a0 := g.d, g.a
			b := 1 + g.r.Intn(8)
			if b > *budget {
				b = *budget
			}
			*budget -= b
			g.block(depth+1, &b)
			d1, a1 := g.d, g.a
			if g.r.Intn(3) > 0 {
				g.op(0x67)
				g.d, g.a = d0, a0
				b = g.r.Intn(6)
				if b > *budget {
					b = *budget
				}
				*budget -= b
				g.block(depth+1, &b)
			} else {
				g.d, g.a = d0, a0
			}
			if g.d > d1 {
				g.d = d1
			}
			if g.a > a1 {
				g.a = a1
			}
			if g.r.Intn(40) != 0 {
				g.op(0x68)
			}
		case k < 98:
			g.push([]int{1})
			g.op(0x69)
			g.d--
		default:
			switch g.r.Intn(12) {
			case 0:
				g.op([]int{0x6a, 0x50, 0x62, 0x65, 0x7e, 0x89, 0xba, 0xff, 0x67, 0x68}[g.r.Intn(10)])
			case 1:
				g.op(0xb0 + g.r.Intn(10)) // NOPs incl. CLTV / CSV (flags off: NOP)
			default:
				g.number()
			}
		}
	}
}

func randomProgram(r *rand.Rand) []Op {
	g := &gen{r: r}
	budget := 20 + r.Intn(230)
	if r.Intn(8) == 0 {
		budget = 240 + r.Intn(60) // reach the 201 non-push opcode limit
	}
	g.block(0, &budget)
	// try to end accepted: clean up
	if r.Intn(3) > 0 {
		for g.a > 0 && len(g.ops) < 400 {
			g.op(0x6c)
			g.op(0x75)
			g.a--
		}
		g.op(0x74) // DEPTH ... leaves something on the stack
	}
	return g.ops
}

func scriptLenOps(k *conc, ops []Op) int { return len(k.serialize(ops, "")) }

func record(args []string) {
	fs := flag.NewFlagSet("record", flag.ExitOnError)
	outp := fs.String("out", "trace.ndjson", "")
	seed := fs.Int64("seed", 1, "")
	n := fs.Int("traces", 50, "")
	fs.Parse(args)
	if !verif.Enabled {
		fmt.Fprintln(os.Stderr, "record needs the verif build tag")
		os.Exit(2)
	}
	outFd, _ := syscall.Dup(1)
	devnull, _ := os.OpenFile(os.DevNull, os.O_WRONLY, 0)
	os.Stdout = devnull
	script.DBG_ERR = false
	f, err := os.Create(*outp)
	if err != nil {
		fmt.Fprintln(os.Stderr, err)
		os.Exit(2)
	}
	defer f.Close()
	enc := json.NewEncoder(f)
	r := rand.New(rand.NewSource(*seed))

	type ev struct {
		pos, op, depth, alt, cond int
		exec                      bool
		top                       string
	}
	var evs []ev
	verif.Sink = func(seq uint64, name string, kv []interface{}) {
		if name != "script.op" {
			return
		}
		e := ev{}
		for i := 0; i+1 < len(kv); i += 2 {
			switch kv[i].(string) {
			case "pos":
				e.pos = kv[i+1].(int)
			case "op":
				e.op = kv[i+1].(int)
			case "exec":
				e.exec = kv[i+1].(bool)
			case "depth":
				e.depth = kv[i+1].(int)
			case "alt":
				e.alt = kv[i+1].(int)
			case "cond":
				e.cond = kv[i+1].(int)
			case "top":
				e.top = kv[i+1].(string)
			}
		}
		evs = append(evs, e)
	}
	events, accepted, maxlen := 0, 0, 0
	for t := 0; t < *n; t++ {
		prog := randomProgram(r)
		flags := []string{}
		if r.Intn(2) == 0 {
			flags = append(flags, "MINIMALDATA")
		}
		w := []string{"bare", "bare", "p2wsh", "tap"}[r.Intn(4)]
		c := Case{Sig: []Op{}, Pk: prog, Wit: [][]int{}, Scr: [][]Op{}, Tgt: 0, Tsv: "base", Tx: TxCtx{Ver: [2]int{0, 2}, Seq: [2]int{65535, 65534}}}
		sv := "base"
		skip := 0
		k0 := &conc{c: &c, memo: map[string][]byte{}, inprog: map[string]bool{}}
		slen := scriptLenOps(k0, prog)
		tok := []int{700, 1, slen, 1}
		switch w {
		case "p2wsh":
			sv = "v0"
			flags = append(flags, "P2SH", "WITNESS")
			if r.Intn(2) == 0 {
				flags = append(flags, "MINIMALIF")
			}
			c.Pk = []Op{{O: 0, D: []int{}}, {O: 32, D: append([]int{303}, tok...)}}
			c.Wit = [][]int{tok}
			c.Scr = [][]Op{prog}
			c.Tgt, c.Tsv, skip = 1, "v0", 2
		case "tap":
			sv = "tap"
			flags = append(flags, "P2SH", "WITNESS", "TAPROOT")
			c.Pk = []Op{{O: 0x51, D: []int{}}, {O: 32, D: []int{820, 9, 3, 1, 192, 0}}}
			c.Wit = [][]int{tok, {810, 192, 0, 9, 3, 0, 0}}
			c.Scr = [][]Op{prog}
			c.Tgt, c.Tsv, skip = 1, "tap", 2
		}
		bt := build(&c, *seed)
		fl, _ := flagsOf(flags)
		evs = evs[:0]
		v := runOne(bt, fl)
		if v.panicked != "" || v.timeout {
			enc.Encode(map[string]interface{}{"ev": "crash", "what": v.panicked, "timeout": v.timeout, "script": hex.EncodeToString(bt.pk)})
			continue
		}
		if len(evs) < skip {
			fmt.Fprintln(os.Stderr, "fewer events than the wrapper's own opcodes")
			os.Exit(2)
		}
		enc.Encode(map[string]interface{}{"ev": "begin", "sv": sv, "flags": flags, "prog": prog, "len": slen})
		for _, e := range evs[skip:] {
			tb, _ := hex.DecodeString(e.top)
			enc.Encode(map[string]interface{}{"ev": "op", "pos": e.pos, "op": e.op, "exec": e.exec, "depth": e.depth, "alt": e.alt, "cond": e.cond, "top": ints(tb)})
		}
		enc.Encode(map[string]interface{}{"ev": "end", "res": v.res})
		events += len(evs) - skip
		if v.res {
			accepted++
		}
		if len(evs)-skip > maxlen {
			maxlen = len(evs) - skip
		}
	}
	out := os.NewFile(uintptr(outFd), "out")
	fmt.Fprintf(out, "{\"summary\":true,\"traces\":%d,\"events\":%d,\"accepted\":%d,\"longest\":%d}\n", *n, events, accepted, maxlen)
}
