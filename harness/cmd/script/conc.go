package main

// script conc: CONCURRENCY stage.  A mix of exported cases with known verdicts (accept and reject rows of every
// script kind) plus P2WPKH / P2SH-P2WPKH / P2PKH spends with several different keys is first judged sequentially,
// then script.VerifyTxScript is called on the same prepared inputs from many goroutines at once (different
// goroutines on different cases and on the same case, as lib/chain and client/txpool do with one goroutine per
// input); every concurrent verdict must equal the sequential one (and the model's).  Run under the race build the
// same mix lets the Go race detector watch the interpreter.

import (
	"encoding/json"
	"flag"
	"fmt"
	"os"
	"runtime"
	"strconv"
	"strings"
	"sync"
	"sync/atomic"
	"syscall"

	"github.com/piotrnar/gocoin/lib/script"
	"verifharness/vio"
)

type concItem struct {
	fam, w, tag string
	flags       []string
	fl          uint32
	bt          *built
	want        bool
}

func verdictOf(bt *built, fl uint32) (res bool, panicked string) {
	defer func() {
		if p := recover(); p != nil {
			panicked = fmt.Sprint(p)
		}
	}()
	res = script.VerifyTxScript(bt.pk, &script.SigChecker{Tx: bt.tx, Idx: bt.idx, Amount: bt.amount}, fl)
	return
}

func keyHashSpends(seed int64) []Line {
	var out []Line
	push := func(v []int) Op { return Op{O: canonPush((&conc{}).sizeOf(v)), D: v} }
	tx := TxCtx{Ver: [2]int{0, 2}, Seq: [2]int{65535, 65534}}
	for k := 11; k <= 18; k++ {
		pk := []int{400, k}
		h160 := append([]int{301, 303}, pk...)
		wprog := []Op{{O: 0, D: []int{}}, {O: 20, D: h160}}
		for _, good := range []bool{true, false} {
			m, v := 1, "T"
			if !good {
				m, v = 0, "F"
			}
			sg := []int{500, k, 1, m}
			fw := []FV{{F: []string{"P2SH", "WITNESS"}, V: v}, {F: []string{"P2SH", "WITNESS", "NULLFAIL", "WITNESS_PUBKEYTYPE", "CLEANSTACK"}, V: v}}
			out = append(out, Line{Fam: "conc-keyhash", W: "p2wpkh", Tag: fmt.Sprintf("key%d-%v", k, good), Kind: "set",
				C: Case{Sig: []Op{}, Pk: wprog, Wit: [][]int{sg, pk}, Scr: [][]Op{}, Tgt: -1, Tsv: "v0", Tx: tx}, Fv: fw})
			tok := []int{700, 1, 22, 1}
			out = append(out, Line{Fam: "conc-keyhash", W: "p2sh-p2wpkh", Tag: fmt.Sprintf("key%d-%v", k, good), Kind: "set",
				C: Case{Sig: []Op{push(tok)}, Pk: []Op{{O: 0xa9, D: []int{}}, {O: 20, D: append([]int{301, 303}, tok...)}, {O: 0x87, D: []int{}}},
					Wit: [][]int{sg, pk}, Scr: [][]Op{wprog}, Tgt: -1, Tsv: "v0", Tx: tx}, Fv: fw})
			out = append(out, Line{Fam: "conc-keyhash", W: "p2pkh", Tag: fmt.Sprintf("key%d-%v", k, good), Kind: "set",
				C: Case{Sig: []Op{push(sg), push(pk)}, Pk: []Op{{O: 0x76, D: []int{}}, {O: 0xa9, D: []int{}}, {O: 20, D: h160}, {O: 0x88, D: []int{}}, {O: 0xac, D: []int{}}},
					Wit: [][]int{}, Scr: [][]Op{}, Tgt: 0, Tsv: "base", Tx: tx}, Fv: []FV{{F: []string{}, V: v}, {F: []string{"P2SH", "STRICTENC", "DERSIG", "NULLFAIL"}, V: v}}})
		}
	}
	return out
}

func concStage(args []string) {
	fs := flag.NewFlagSet("conc", flag.ExitOnError)
	in := fs.String("in", "-", "ndjson of exported cases")
	seed := fs.Int64("seed", 1, "")
	procsArg := fs.String("procs", "2,4,16", "GOMAXPROCS settings")
	calls := fs.Int("calls", 100000, "calls per GOMAXPROCS setting")
	perGroup := fs.Int("pergroup", 12, "exported lines taken per (family, wrapper)")
	fs.Parse(args)
	outFd, _ := syscall.Dup(1)
	devnull, _ := os.OpenFile(os.DevNull, os.O_WRONLY, 0)
	os.Stdout = devnull
	script.DBG_ERR = false
	out := newOut(os.NewFile(uintptr(outFd), "out"))

	// ---- the mix: per (family, wrapper) lines with accepted and with rejected rows, and the key-hash spends
	type grp struct{ t, f int }
	groups := map[string]*grp{}
	var lines []Line
	err := vio.ReadLines(*in, func(n int, raw []byte) error {
		var l Line
		if e := json.Unmarshal(raw, &l); e != nil {
			return e
		}
		g := groups[l.Fam+"/"+l.W]
		if g == nil {
			g = &grp{}
			groups[l.Fam+"/"+l.W] = g
		}
		hasT := false
		for _, fv := range l.Fv {
			if fv.V == "T" {
				hasT = true
			}
		}
		if hasT && g.t < *perGroup {
			g.t++
			lines = append(lines, l)
		} else if !hasT && g.f < *perGroup/2 && l.Steps != 0 {
			g.f++
			lines = append(lines, l)
		}
		return nil
	})
	if err != nil {
		fmt.Fprintln(os.Stderr, "read:", err)
		os.Exit(2)
	}
	hotFrom := len(lines)
	lines = append(lines, keyHashSpends(*seed)...)

	// ---- sequential verdicts
	var items []concItem
	var hot []int
	seqWrong := 0
	for li := range lines {
		l := &lines[li]
		var bt *built
		func() {
			defer func() {
				if p := recover(); p != nil {
					bt = nil
				}
			}()
			bt = build(&l.C, *seed)
		}()
		if bt == nil {
			fmt.Fprintln(os.Stderr, "concretiser failed on", l.Fam, l.W, l.Tag)
			os.Exit(2)
		}
		for _, fv := range l.Fv {
			if len(fv.Alt) > 0 {
				continue // rows on which a known deviation answers differently are judged by the replay stage
			}
			fl, e := flagsOf(fv.F)
			if e != nil {
				fmt.Fprintln(os.Stderr, e)
				os.Exit(2)
			}
			res, pan := verdictOf(bt, fl)
			if pan != "" || res != (fv.V == "T") {
				seqWrong++ // reported by the replay stage; not part of the concurrent comparison
				continue
			}
			if li >= hotFrom {
				hot = append(hot, len(items))
			}
			items = append(items, concItem{l.Fam, l.W, l.Tag, fv.F, fl, bt, res})
		}
	}
	if len(items) == 0 || len(hot) == 0 {
		fmt.Fprintln(os.Stderr, "empty mix")
		os.Exit(2)
	}
	acc := 0
	kinds := map[string]bool{}
	for _, it := range items {
		if it.want {
			acc++
		}
		kinds[it.fam+"/"+it.w] = true
	}

	// ---- concurrent
	var total, wrong int64
	for _, ps := range strings.Split(*procsArg, ",") {
		procs, _ := strconv.Atoi(ps)
		if procs <= 0 {
			continue
		}
		runtime.GOMAXPROCS(procs)
		G := 2 * procs
		if G < 8 {
			G = 8
		}
		per := *calls / G
		var wg sync.WaitGroup
		var reported int64
		for g := 0; g < G; g++ {
			wg.Add(1)
			go func(g int) {
				defer wg.Done()
				for i := 0; i < per; i++ {
					var it *concItem
					switch i % 4 {
					case 0: // different goroutines on different cases
						it = &items[(g*7919+i*31)%len(items)]
					case 1: // every goroutine on the same case at about the same time
						it = &items[(i*13)%len(items)]
					case 2: // key-hash spends with different keys side by side
						it = &items[hot[(g+i)%len(hot)]]
					default: // and the same key-hash spend everywhere
						it = &items[hot[(i/4)%len(hot)]]
					}
					res, pan := verdictOf(it.bt, it.fl)
					atomic.AddInt64(&total, 1)
					if pan != "" || res != it.want {
						atomic.AddInt64(&wrong, 1)
						if atomic.AddInt64(&reported, 1) <= 40 {
							got := "F"
							if res {
								got = "T"
							}
							if pan != "" {
								got = "panic: " + pan
							}
							want := "F"
							if it.want {
								want = "T"
							}
							out.Put(map[string]interface{}{"ok": false, "conc": true, "fam": it.fam, "w": it.w, "tag": it.tag, "flags": it.flags,
								"want": want, "got": got, "gomaxprocs": procs, "goroutines": G})
						}
					}
				}
			}(g)
		}
		wg.Wait()
	}
	out.Put(map[string]interface{}{"summary": true, "lines": len(lines), "items": len(items), "items_accepted": acc, "kinds": len(kinds),
		"hot_items": len(hot), "calls": total, "fail": wrong, "sequential_disagreements_skipped": seqWrong})
	out.Flush()
}
