package main

// Decoding of Bitcoin Core's script_tests.json / tx_valid.json / tx_invalid.json (as shipped in /repo/lib/test)
// into abstract cases for the MODEL.  gocoin's interpreter is not involved: the byte strings are parsed into
// ops, and an abstraction step replaces literals that are hashes of other literals of the same vector by the
// model's hash tokens and the serialised P2SH redeem script / witness script by a script token, so that the
// model (which has no SHA-256) can evaluate HASH160 <h> EQUAL and the witness program checks structurally.
// Signatures and keys stay raw bytes: where the verdict depends on a real signature verification the model
// answers "U" and the vector counts as outside the modelled subset.

import (
	"bytes"
	"crypto/sha1"
	"encoding/hex"
	"encoding/json"
	"flag"
	"fmt"
	"math/big"
	"os"
	"path/filepath"
	"strconv"
	"strings"

	"github.com/piotrnar/gocoin/lib/btc"
	"github.com/piotrnar/gocoin/lib/others/ripemd160"
)

var opNames = map[string]byte{}

func init() {
	names := map[byte]string{0x50: "RESERVED", 0x61: "NOP", 0x62: "VER", 0x63: "IF", 0x64: "NOTIF", 0x65: "VERIF", 0x66: "VERNOTIF",
		0x67: "ELSE", 0x68: "ENDIF", 0x69: "VERIFY", 0x6a: "RETURN", 0x6b: "TOALTSTACK", 0x6c: "FROMALTSTACK", 0x6d: "2DROP",
		0x6e: "2DUP", 0x6f: "3DUP", 0x70: "2OVER", 0x71: "2ROT", 0x72: "2SWAP", 0x73: "IFDUP", 0x74: "DEPTH", 0x75: "DROP",
		0x76: "DUP", 0x77: "NIP", 0x78: "OVER", 0x79: "PICK", 0x7a: "ROLL", 0x7b: "ROT", 0x7c: "SWAP", 0x7d: "TUCK", 0x7e: "CAT",
		0x7f: "SUBSTR", 0x80: "LEFT", 0x81: "RIGHT", 0x82: "SIZE", 0x83: "INVERT", 0x84: "AND", 0x85: "OR", 0x86: "XOR",
		0x87: "EQUAL", 0x88: "EQUALVERIFY", 0x89: "RESERVED1", 0x8a: "RESERVED2", 0x8b: "1ADD", 0x8c: "1SUB", 0x8d: "2MUL",
		0x8e: "2DIV", 0x8f: "NEGATE", 0x90: "ABS", 0x91: "NOT", 0x92: "0NOTEQUAL", 0x93: "ADD", 0x94: "SUB", 0x95: "MUL",
		0x96: "DIV", 0x97: "MOD", 0x98: "LSHIFT", 0x99: "RSHIFT", 0x9a: "BOOLAND", 0x9b: "BOOLOR", 0x9c: "NUMEQUAL",
		0x9d: "NUMEQUALVERIFY", 0x9e: "NUMNOTEQUAL", 0x9f: "LESSTHAN", 0xa0: "GREATERTHAN", 0xa1: "LESSTHANOREQUAL",
		0xa2: "GREATERTHANOREQUAL", 0xa3: "MIN", 0xa4: "MAX", 0xa5: "WITHIN", 0xa6: "RIPEMD160", 0xa7: "SHA1", 0xa8: "SHA256",
		0xa9: "HASH160", 0xaa: "HASH256", 0xab: "CODESEPARATOR", 0xac: "CHECKSIG", 0xad: "CHECKSIGVERIFY", 0xae: "CHECKMULTISIG",
		0xaf: "CHECKMULTISIGVERIFY", 0xb0: "NOP1", 0xb1: "CHECKLOCKTIMEVERIFY", 0xb2: "CHECKSEQUENCEVERIFY", 0xb3: "NOP4",
		0xb4: "NOP5", 0xb5: "NOP6", 0xb6: "NOP7", 0xb7: "NOP8", 0xb8: "NOP9", 0xb9: "NOP10", 0xba: "CHECKSIGADD", 0xff: "INVALIDOPCODE"}
	for b, n := range names {
		opNames[n] = b
		opNames["OP_"+n] = b
	}
	opNames["NOP2"], opNames["OP_NOP2"] = 0xb1, 0xb1
	opNames["NOP3"], opNames["OP_NOP3"] = 0xb2, 0xb2
}

func scriptNum(n int64) []byte {
	if n == 0 {
		return nil
	}
	neg := n < 0
	if neg {
		n = -n
	}
	var b []byte
	for n > 0 {
		b = append(b, byte(n))
		n >>= 8
	}
	if b[len(b)-1]&0x80 != 0 {
		if neg {
			b = append(b, 0x80)
		} else {
			b = append(b, 0)
		}
	} else if neg {
		b[len(b)-1] |= 0x80
	}
	return b
}

func pushData(d []byte) []byte {
	var b []byte
	switch {
	case len(d) < 76:
		b = []byte{byte(len(d))}
	case len(d) <= 0xff:
		b = []byte{76, byte(len(d))}
	case len(d) <= 0xffff:
		b = []byte{77, byte(len(d)), byte(len(d) >> 8)}
	default:
		b = []byte{78, byte(len(d)), byte(len(d) >> 8), byte(len(d) >> 16), byte(len(d) >> 24)}
	}
	return append(b, d...)
}

// Core's ParseScript (core_read.cpp)
func parseAsm(s string) ([]byte, error) {
	var out []byte
	for _, w := range strings.FieldsFunc(s, func(r rune) bool { return r == ' ' || r == '\t' || r == '\n' }) {
		isNum := len(w) > 0
		for i, c := range w {
			if !(c >= '0' && c <= '9') && !(i == 0 && c == '-' && len(w) > 1) {
				isNum = false
				break
			}
		}
		switch {
		case isNum:
			n, err := strconv.ParseInt(w, 10, 64)
			if err != nil || n < -0xffffffff || n > 0xffffffff {
				return nil, fmt.Errorf("number out of range: %s", w)
			}
			switch {
			case n == -1 || (n >= 1 && n <= 16):
				out = append(out, byte(n+0x50))
			case n == 0:
				out = append(out, 0)
			default:
				out = append(out, pushData(scriptNum(n))...)
			}
		case strings.HasPrefix(w, "0x") && len(w) > 2:
			d, err := hex.DecodeString(w[2:])
			if err != nil {
				return nil, fmt.Errorf("bad hex: %s", w)
			}
			out = append(out, d...)
		case len(w) >= 2 && w[0] == '\'' && w[len(w)-1] == '\'':
			out = append(out, pushData([]byte(w[1:len(w)-1]))...)
		default:
			b, ok := opNames[w]
			if !ok {
				return nil, fmt.Errorf("unknown word: %s", w)
			}
			out = append(out, b)
		}
	}
	return out, nil
}

func ints(b []byte) []int {
	out := make([]int, len(b))
	for i, x := range b {
		out[i] = int(x)
	}
	return out
}

// bytes -> ops (mirrors Script!Parse)
func parseOps(b []byte) []Op {
	ops := []Op{}
	i := 0
	for i < len(b) {
		o := int(b[i])
		if o > 78 {
			ops = append(ops, Op{O: o, D: []int{}})
			i++
			continue
		}
		hdr, sz := 0, o
		switch o {
		case 76:
			hdr = 1
		case 77:
			hdr = 2
		case 78:
			hdr = 4
		}
		if i+1+hdr > len(b) {
			ops = append(ops, Op{O: o, D: ints(b[i+1:]), T: true})
			return ops
		}
		if hdr > 0 {
			sz = 0
			for j := hdr - 1; j >= 0; j-- {
				sz = sz<<8 | int(b[i+1+j])
			}
		}
		if i+1+hdr+sz > len(b) || sz < 0 {
			ops = append(ops, Op{O: o, D: ints(b[i+1:]), T: true})
			return ops
		}
		ops = append(ops, Op{O: o, D: ints(b[i+1+hdr : i+1+hdr+sz])})
		i += 1 + hdr + sz
	}
	return ops
}

func complete(ops []Op) bool {
	for _, o := range ops {
		if o.T {
			return false
		}
	}
	return true
}

func isP2SHOps(ops []Op) bool {
	return len(ops) == 3 && ops[0].O == 0xa9 && ops[1].O == 20 && !ops[1].T && len(ops[1].D) == 20 && ops[2].O == 0x87
}

func wprogOf(ops []Op) (ver int, prog []int, ok bool) {
	if len(ops) != 2 || ops[0].T || ops[1].T {
		return
	}
	if !(ops[0].O == 0 || (ops[0].O >= 0x51 && ops[0].O <= 0x60)) {
		return
	}
	if ops[1].O < 2 || ops[1].O > 40 || len(ops[1].D) != ops[1].O {
		return
	}
	ver = 0
	if ops[0].O != 0 {
		ver = ops[0].O - 0x50
	}
	return ver, ops[1].D, true
}

func bytesOf(v []int) []byte {
	b := make([]byte, len(v))
	for i, x := range v {
		b[i] = byte(x)
	}
	return b
}

func truthy(b []byte) int {
	for i, x := range b {
		if x != 0 && !(i == len(b)-1 && x == 0x80) {
			return 1
		}
	}
	return 0
}

type vecCase struct {
	Src    string   `json:"src"`
	Vec    int      `json:"vec"`
	Inp    int      `json:"inp"`
	Expect string   `json:"expect"` // "T" / "F" for a single-input vector; "" when the verdict is per transaction
	F      []string `json:"f"`
	C      vCase    `json:"C"`
	Note   string   `json:"note"`
}

// Case plus the deviation field the model expects
type vCase struct {
	Case
	Kf     []string        `json:"kf"`
	Oracle bool            `json:"oracle"`
	Sigok  [][]interface{} `json:"sigok"`
}

// the transaction a spend is checked in (for the signature oracle)
type spendCtx struct {
	tx     *btc.Tx
	idx    int
	amount uint64
}

// length in bytes of the opcode at the start of b (with its push data), -1 if it does not decode (CScript::GetOp)
func opLen(b []byte) int {
	if len(b) == 0 {
		return -1
	}
	o := int(b[0])
	if o > 78 {
		return 1
	}
	hdr, sz := 0, o
	switch o {
	case 76:
		hdr = 1
	case 77:
		hdr = 2
	case 78:
		hdr = 4
	}
	if 1+hdr > len(b) {
		return -1
	}
	if hdr > 0 {
		sz = 0
		for j := hdr - 1; j >= 0; j-- {
			sz = sz<<8 | int(b[1+j])
		}
	}
	if sz < 0 || 1+hdr+sz > len(b) {
		return -1
	}
	return 1 + hdr + sz
}

// Core's FindAndDelete (script.cpp): remove every occurrence of pat that starts at an opcode boundary
func findAndDelete(code, pat []byte) []byte {
	if len(pat) == 0 {
		return code
	}
	var out []byte
	pc, pc2 := 0, 0
	for {
		out = append(out, code[pc2:pc]...)
		for len(code)-pc >= len(pat) && bytes.Equal(code[pc:pc+len(pat)], pat) {
			pc += len(pat)
		}
		pc2 = pc
		if pc >= len(code) {
			break
		}
		n := opLen(code[pc:])
		if n < 0 {
			break
		}
		pc += n
	}
	if pc2 < len(code) {
		out = append(out, code[pc2:]...)
	}
	return out
}

// every (signature literal, key literal, script, code start) combination that verifies
func sigOracle(c *vCase, sp *spendCtx, pkRaw []byte, blobs [][]byte, blobSv []string, lits [][]byte) {
	c.Oracle = true
	c.Sigok = [][]interface{}{}
	type scr struct {
		sid int
		raw []byte
		sv  string
	}
	scrs := []scr{{0, pkRaw, "base"}}
	for i, b := range blobs {
		scrs = append(scrs, scr{i + 1, b, blobSv[i]})
	}
	for _, ops := range append([][]Op{c.Pk}, c.Scr...) {
		if ver, prog, ok := wprogOf(ops); ok && ver == 0 && len(prog) == 20 {
			p := append([]byte{0x76, 0xa9, 0x14}, bytesOf(prog)...)
			scrs = append(scrs, scr{-1, append(p, 0x88, 0xac), "v0"})
			break
		}
	}
	var sigs, keys [][]byte
	for _, l := range lits {
		if len(l) >= 9 && l[0] == 0x30 {
			sigs = append(sigs, l)
		}
		if (len(l) == 33 && (l[0] == 2 || l[0] == 3)) || (len(l) == 65 && (l[0] == 4 || l[0] == 6 || l[0] == 7)) {
			keys = append(keys, l)
		}
	}
	if len(sigs) == 0 || len(keys) == 0 {
		return
	}
	for _, sc := range scrs {
		// code start positions: 0 and after every OP_CODESEPARATOR
		type start struct{ cs, off int }
		starts := []start{{0, 0}}
		off, n := 0, 0
		for off < len(sc.raw) {
			l := opLen(sc.raw[off:])
			if l < 0 {
				break
			}
			op := sc.raw[off]
			off += l
			n++
			if op == 0xab {
				starts = append(starts, start{n, off})
			}
		}
		for _, st := range starts {
			code := sc.raw[st.off:]
			for _, sg := range sigs {
				ht := int32(sg[len(sg)-1])
				var digest []byte
				if sc.sv == "base" {
					digest = sp.tx.SignatureHash(findAndDelete(code, pushData(sg)), sp.idx, ht)
				} else {
					digest = sp.tx.WitnessSigHash(code, sp.amount, sp.idx, ht)
				}
				for _, k := range keys {
					if btc.EcdsaVerify(k, sg, digest) {
						c.Sigok = append(c.Sigok, []interface{}{ints(sg), ints(k), sc.sid, st.cs})
					}
				}
			}
		}
	}
}

// abstraction of one spend: literals -> tokens
func abstract(sigScr, pkScr []byte, wit [][]byte, tx TxCtx, sp *spendCtx) vCase {
	c := vCase{Kf: []string{}, Sigok: [][]interface{}{}}
	c.Tx = tx
	c.Tsv = "base"
	c.Sig = parseOps(sigScr)
	c.Pk = parseOps(pkScr)
	c.Scr = [][]Op{}
	c.Wit = [][]int{}
	for _, w := range wit {
		c.Wit = append(c.Wit, ints(w))
	}
	// script blobs: P2SH redeem script (last push of a scriptSig spending a P2SH-shaped output), witness script (last
	// witness item of a v0 32-byte program, bare or nested)
	type blob struct {
		raw []byte
		tok []int
		sv  string
	}
	var blobs []blob
	addBlob := func(raw []byte, sv string) []int {
		for _, b := range blobs {
			if bytes.Equal(b.raw, raw) {
				return b.tok
			}
		}
		ops := parseOps(raw)
		c.Scr = append(c.Scr, ops)
		tok := []int{700, len(c.Scr), len(raw), truthy(raw)}
		blobs = append(blobs, blob{raw, tok, sv})
		return tok
	}
	var redeemOps []Op
	if isP2SHOps(c.Pk) && len(c.Sig) > 0 && complete(c.Sig) {
		last := &c.Sig[len(c.Sig)-1]
		if last.O <= 78 {
			raw := bytesOf(last.D)
			redeemOps = parseOps(raw)
			last.D = addBlob(raw, "base")
		}
	}
	for _, ops := range [][]Op{c.Pk, redeemOps} {
		if ver, prog, ok := wprogOf(ops); ok && ver == 0 && len(prog) == 32 && len(c.Wit) > 0 {
			raw := bytesOf(c.Wit[len(c.Wit)-1])
			c.Wit[len(c.Wit)-1] = addBlob(raw, "v0")
		}
	}
	// literals
	type lit struct {
		raw []byte
		abs []int
	}
	var lits []lit
	seen := map[string]bool{}
	addLit := func(raw []byte, abs []int) {
		if !seen[string(raw)] {
			seen[string(raw)] = true
			lits = append(lits, lit{raw, abs})
		}
	}
	for _, b := range blobs {
		addLit(b.raw, b.tok)
	}
	collect := func(ops []Op) {
		for _, o := range ops {
			if o.O <= 78 && !o.T && (len(o.D) == 0 || o.D[0] < 256) {
				addLit(bytesOf(o.D), o.D)
			}
		}
	}
	collect(c.Sig)
	collect(c.Pk)
	for _, s := range c.Scr {
		collect(s)
	}
	for _, w := range c.Wit {
		if len(w) == 0 || w[0] < 256 {
			addLit(bytesOf(w), w)
		}
	}
	addLit([]byte{}, []int{})
	for i := 1; i <= 16; i++ {
		addLit([]byte{byte(i)}, []int{i})
	}
	addLit([]byte{0x81}, []int{0x81})
	if sp != nil {
		var braw [][]byte
		var bsv []string
		for _, b := range blobs {
			braw = append(braw, b.raw)
			bsv = append(bsv, b.sv)
		}
		var lraw [][]byte
		for _, l := range lits {
			lraw = append(lraw, l.raw)
		}
		sigOracle(&c, sp, pkScr, braw, bsv, lraw)
	}
	// hash table (two rounds: hashes of hashes)
	table := map[string][]int{}
	for round := 0; round < 2; round++ {
		cur := append([]lit{}, lits...)
		for _, l := range cur {
			r := ripemd160.New()
			r.Write(l.raw)
			s1 := sha1.Sum(l.raw)
			s2 := sha(l.raw)
			r2 := ripemd160.New()
			r2.Write(s2)
			for _, h := range []struct {
				b   []byte
				tag []int
			}{{r.Sum(nil), []int{301}}, {s1[:], []int{302}}, {s2, []int{303}}, {r2.Sum(nil), []int{301, 303}}, {sha(s2), []int{303, 303}}} {
				if _, ok := table[string(h.b)]; !ok {
					tok := append(append([]int{}, h.tag...), l.abs...)
					table[string(h.b)] = tok
					if round == 0 {
						addLit(h.b, tok)
					}
				}
			}
		}
	}
	// long chains of one hash function (SHA1 applied 20 times to '' ...)
	for _, l := range append([]lit{}, lits...) {
		if len(l.abs) > 0 && l.abs[0] >= 256 && l.abs[0] != 700 {
			continue
		}
		for kind := 0; kind < 3; kind++ {
			cur, tok := l.raw, l.abs
			for depth := 0; depth < 32; depth++ {
				switch kind {
				case 0:
					r := ripemd160.New()
					r.Write(cur)
					cur, tok = r.Sum(nil), append([]int{301}, tok...)
				case 1:
					x := sha1.Sum(cur)
					cur, tok = x[:], append([]int{302}, tok...)
				case 2:
					cur, tok = sha(cur), append([]int{303}, tok...)
				}
				if _, ok := table[string(cur)]; !ok {
					table[string(cur)] = tok
				}
			}
		}
	}
	repl := func(ops []Op) {
		for i := range ops {
			if ops[i].O <= 78 && !ops[i].T && len(ops[i].D) >= 20 && ops[i].D[0] < 256 {
				if tok, ok := table[string(bytesOf(ops[i].D))]; ok {
					ops[i].D = tok
				}
			}
		}
	}
	repl(c.Sig)
	repl(c.Pk)
	for _, s := range c.Scr {
		repl(s)
	}
	for i, w := range c.Wit {
		if len(w) >= 20 && w[0] < 256 {
			if tok, ok := table[string(bytesOf(w))]; ok {
				c.Wit[i] = tok
			}
		}
	}
	return c
}

func mapFlags(s string) ([]string, error) {
	out := []string{}
	has := map[string]bool{}
	for _, f := range strings.Split(s, ",") {
		f = strings.TrimSpace(f)
		switch f {
		case "", "NONE":
			continue
		case "CHECKLOCKTIMEVERIFY":
			f = "CLTV"
		case "CHECKSEQUENCEVERIFY":
			f = "CSV"
		}
		if _, ok := flagBits[f]; !ok {
			return nil, fmt.Errorf("unknown flag %s", f)
		}
		if !has[f] {
			has[f] = true
			out = append(out, f)
		}
	}
	// script_tests.cpp / transaction_tests.cpp: CLEANSTACK is always tested together with P2SH and WITNESS
	if has["CLEANSTACK"] {
		for _, f := range []string{"P2SH", "WITNESS"} {
			if !has[f] {
				has[f] = true
				out = append(out, f)
			}
		}
	}
	return out, nil
}

// the crediting / spending transaction pair of Core's script_tests (BuildCreditingTransaction / BuildSpendingTransaction)
func creditSpend(pkScr, sigScr []byte, value uint64) *spendCtx {
	credit := new(btc.Tx)
	credit.Version = 1
	credit.TxIn = []*btc.TxIn{{Input: btc.TxPrevOut{Vout: 0xffffffff}, ScriptSig: []byte{0, 0}, Sequence: 0xffffffff}}
	credit.TxOut = []*btc.TxOut{{Pk_script: pkScr, Value: value}}
	spend := new(btc.Tx)
	spend.Version = 1
	spend.TxIn = []*btc.TxIn{{Input: btc.TxPrevOut{Hash: btc.Sha2Sum(credit.Serialize()), Vout: 0}, ScriptSig: sigScr, Sequence: 0xffffffff}}
	spend.TxOut = []*btc.TxOut{{Value: value, Pk_script: []byte{}}}
	spend.AllocVerVars()
	return &spendCtx{spend, 0, value}
}

func split32(x uint32) [2]int { return [2]int{int(x >> 16), int(x & 0xffff)} }

// context-free transaction checks (consensus/tx_check.cpp), on the parsed transaction
func sanityFails(tx *btc.Tx) string {
	if len(tx.TxIn) == 0 {
		return "vin empty"
	}
	if len(tx.TxOut) == 0 {
		return "vout empty"
	}
	maxMoney := new(big.Int).SetUint64(21000000 * 100000000)
	sum := new(big.Int)
	for _, o := range tx.TxOut {
		if o.Value > 21000000*100000000 {
			return "output out of range"
		}
		sum.Add(sum, new(big.Int).SetUint64(o.Value))
		if sum.Cmp(maxMoney) > 0 {
			return "total out of range"
		}
	}
	seen := map[string]bool{}
	for _, in := range tx.TxIn {
		k := string(in.Input.Hash[:]) + fmt.Sprint(in.Input.Vout)
		if seen[k] {
			return "duplicate inputs"
		}
		seen[k] = true
	}
	null := func(p btc.TxPrevOut) bool { return p.Hash == [32]byte{} && p.Vout == 0xffffffff }
	if len(tx.TxIn) == 1 && null(tx.TxIn[0].Input) {
		if n := len(tx.TxIn[0].ScriptSig); n < 2 || n > 100 {
			return "coinbase script size"
		}
	} else {
		for _, in := range tx.TxIn {
			if null(in.Input) {
				return "null prevout"
			}
		}
	}
	return ""
}

func vectors(args []string) {
	fs := flag.NewFlagSet("vectors", flag.ExitOnError)
	dir := fs.String("dir", "/repo/lib/test", "")
	outp := fs.String("out", "-", "")
	fs.Parse(args)
	var w *os.File = os.Stdout
	if *outp != "-" {
		f, err := os.Create(*outp)
		if err != nil {
			fmt.Fprintln(os.Stderr, err)
			os.Exit(2)
		}
		defer f.Close()
		w = f
	}
	enc := json.NewEncoder(w)
	stats := map[string]int{}
	emit := func(v vecCase) {
		if err := enc.Encode(v); err != nil {
			fmt.Fprintln(os.Stderr, err)
			os.Exit(2)
		}
	}

	// ---- script_tests.json
	var raw []interface{}
	b, err := os.ReadFile(filepath.Join(*dir, "script_tests.json"))
	if err == nil {
		err = json.Unmarshal(b, &raw)
	}
	if err != nil {
		fmt.Fprintln(os.Stderr, "script_tests.json:", err)
		os.Exit(2)
	}
	for vi, e := range raw {
		arr, ok := e.([]interface{})
		if !ok || len(arr) < 4 {
			continue
		}
		var wit [][]byte
		var value uint64
		pos := 0
		bad := false
		if wa, ok := arr[0].([]interface{}); ok {
			for _, x := range wa {
				switch t := x.(type) {
				case string:
					d, err := hex.DecodeString(t)
					if err != nil {
						bad = true
					}
					wit = append(wit, d)
				case float64:
					value = uint64(t*1e8 + 0.5)
				}
			}
			pos = 1
		}
		if len(arr) < pos+4 || bad {
			continue
		}
		strs := make([]string, 0, 5)
		for _, x := range arr[pos:] {
			s, ok := x.(string)
			if !ok {
				bad = true
				break
			}
			strs = append(strs, s)
		}
		if bad || len(strs) < 4 {
			continue
		}
		stats["script_tests"]++
		sigScr, e1 := parseAsm(strs[0])
		pkScr, e2 := parseAsm(strs[1])
		fl, e3 := mapFlags(strs[2])
		if e1 != nil || e2 != nil || e3 != nil {
			stats["script_tests_undecodable"]++
			continue
		}
		exp := "F"
		if strs[3] == "OK" {
			exp = "T"
		}
		note := ""
		if len(strs) > 4 {
			note = strs[4]
		}
		tx := TxCtx{Ver: [2]int{0, 1}, Lock: [2]int{0, 0}, Seq: [2]int{65535, 65535}}
		emit(vecCase{Src: "script_tests", Vec: vi, Expect: exp, F: fl, C: abstract(sigScr, pkScr, wit, tx, creditSpend(pkScr, sigScr, value)), Note: note})
	}

	// ---- tx_valid.json / tx_invalid.json
	for _, name := range []string{"tx_valid", "tx_invalid"} {
		var txs []interface{}
		b, err := os.ReadFile(filepath.Join(*dir, name+".json"))
		if err == nil {
			err = json.Unmarshal(b, &txs)
		}
		if err != nil {
			fmt.Fprintln(os.Stderr, name, err)
			os.Exit(2)
		}
		for vi, e := range txs {
			arr, ok := e.([]interface{})
			if !ok || len(arr) != 3 {
				continue
			}
			prevs, ok1 := arr[0].([]interface{})
			txhex, ok2 := arr[1].(string)
			flstr, ok3 := arr[2].(string)
			if !ok1 || !ok2 || !ok3 {
				continue
			}
			stats[name]++
			rawtx, err := hex.DecodeString(txhex)
			if err != nil {
				stats[name+"_undecodable"]++
				continue
			}
			var tx *btc.Tx
			func() {
				defer func() { recover() }()
				t, n := btc.NewTx(rawtx)
				if t != nil && n == len(rawtx) {
					tx = t
					if tx.TxVerVars == nil {
						tx.AllocVerVars()
					}
				}
			}()
			fl, e3 := mapFlags(flstr)
			if tx == nil || e3 != nil {
				stats[name+"_undecodable"]++
				continue
			}
			type prev struct {
				pk     []byte
				amount uint64
			}
			pm := map[string]prev{}
			bad := false
			for _, p := range prevs {
				pa, ok := p.([]interface{})
				if !ok || len(pa) < 3 {
					bad = true
					break
				}
				hs, _ := pa[0].(string)
				idx, _ := pa[1].(float64)
				ps, _ := pa[2].(string)
				h, err := hex.DecodeString(hs)
				pk, err2 := parseAsm(ps)
				if err != nil || err2 != nil || len(h) != 32 {
					bad = true
					break
				}
				for i := 0; i < 16; i++ {
					h[i], h[31-i] = h[31-i], h[i]
				}
				var am uint64
				if len(pa) > 3 {
					if a, ok := pa[3].(float64); ok {
						am = uint64(a)
					}
				}
				pm[string(h)+fmt.Sprint(uint32(int64(idx)))] = prev{pk, am}
			}
			if bad {
				stats[name+"_undecodable"]++
				continue
			}
			if why := sanityFails(tx); why != "" {
				emit(vecCase{Src: name, Vec: vi, Inp: -1, Expect: "", F: fl, Note: "sanity: " + why, C: abstract(nil, nil, nil, TxCtx{}, nil)})
				continue
			}
			var outs []vecCase
			for i, in := range tx.TxIn {
				p, ok := pm[string(in.Input.Hash[:])+fmt.Sprint(in.Input.Vout)]
				if !ok {
					bad = true
					break
				}
				var wit [][]byte
				if tx.SegWit != nil && i < len(tx.SegWit) {
					wit = tx.SegWit[i]
				}
				ctx := TxCtx{Ver: split32(tx.Version), Lock: split32(tx.Lock_time), Seq: split32(in.Sequence), Nomatch: i >= len(tx.TxOut)}
				outs = append(outs, vecCase{Src: name, Vec: vi, Inp: i, Expect: "", F: fl, C: abstract(in.ScriptSig, p.pk, wit, ctx, &spendCtx{tx, i, p.amount})})
			}
			if bad {
				stats[name+"_undecodable"]++
				continue
			}
			for _, o := range outs {
				emit(o)
			}
		}
	}
	sj, _ := json.Marshal(stats)
	fmt.Fprintln(os.Stderr, string(sj))
}
