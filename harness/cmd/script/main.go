// Command script: conformance driver for spec/Script.tla (property C01) against lib/script.
//
//	script replay -in cases.ndjson -seed N [-workers W]
//	    every line exported by ScriptGen is one abstract case (scriptSig, scriptPubKey, witness, script table,
//	    tx context) with the model's verdict per flag set.  The concretiser below turns it into bytes (real
//	    pushes, real hashes, real keys and signatures), builds the spending transaction, and calls
//	    script.VerifyTxScript once per flag set; the result must equal the model's verdict.  A panic that
//	    escapes the call or a call that runs longer than the wall bound violates the totality clause.
//	script vectors -dir /repo/lib/test -out cases.ndjson
//	    decodes script_tests.json / tx_valid.json / tx_invalid.json into abstract cases for the MODEL
//	    (cross-validation of the oracle against Bitcoin Core's own vectors; gocoin's interpreter is not run)
//
// Trusted base of the concretiser: crypto/sha256, crypto/sha1, lib/others/ripemd160, and gocoin's signing /
// digest primitives (secp256k1 ECDSA and BIP340 signing, Tx.SignatureHash, Tx.WitnessSigHash,
// Tx.TaprootSigHash), which are judged independently by properties C02 / C03.
package main

import (
	"bufio"
	"bytes"
	"crypto/sha1"
	"crypto/sha256"
	"encoding/binary"
	"encoding/hex"
	"encoding/json"
	"flag"
	"fmt"
	"math/big"
	"os"
	"runtime"
	"sort"
	"strings"
	"sync"
	"sync/atomic"
	"syscall"
	"time"

	"github.com/piotrnar/gocoin/lib/btc"
	"github.com/piotrnar/gocoin/lib/others/ripemd160"
	"github.com/piotrnar/gocoin/lib/script"
	"github.com/piotrnar/gocoin/lib/secp256k1"
	"verifharness/vio"
)

// ---------------------------------------------------------------------------------------------
// abstract cases (JSON as printed by ScriptGen)
// ---------------------------------------------------------------------------------------------

type Op struct {
	O int   `json:"o"`
	D []int `json:"d"`
	T bool  `json:"t"`
}

type TxCtx struct {
	Ver     [2]int `json:"ver"`
	Lock    [2]int `json:"lock"`
	Seq     [2]int `json:"seq"`
	Nomatch bool   `json:"nomatch"`
}

type Case struct {
	Sig []Op    `json:"sig"`
	Pk  []Op    `json:"pk"`
	Wit [][]int `json:"wit"`
	Scr [][]Op  `json:"scr"`
	Tgt int     `json:"tgt"`
	Tsv string  `json:"tsv"`
	Tx  TxCtx   `json:"tx"`
}

type Alt struct {
	D string `json:"d"`
	V string `json:"v"`
}

type FV struct {
	F   []string `json:"f"`
	V   string   `json:"v"`
	Alt []Alt    `json:"alt"`
}

type Line struct {
	Fam   string `json:"fam"`
	W     string `json:"w"`
	Kind  string `json:"kind"`
	Tag   string `json:"tag"`
	Steps int    `json:"steps"`
	C     Case   `json:"C"`
	Fv    []FV   `json:"fv"`
}

var flagBits = map[string]uint32{
	"P2SH": script.VER_P2SH, "STRICTENC": script.VER_STRICTENC, "DERSIG": script.VER_DERSIG, "LOW_S": script.VER_LOW_S,
	"NULLDUMMY": script.VER_NULLDUMMY, "SIGPUSHONLY": script.VER_SIGPUSHONLY, "MINIMALDATA": script.VER_MINDATA,
	"DISCOURAGE_UPGRADABLE_NOPS": script.VER_BLOCK_OPS, "CLEANSTACK": script.VER_CLEANSTACK, "CLTV": script.VER_CLTV,
	"CSV": script.VER_CSV, "WITNESS": script.VER_WITNESS, "DISCOURAGE_UPGRADABLE_WITNESS_PROGRAM": script.VER_WITNESS_PROG,
	"MINIMALIF": script.VER_MINIMALIF, "NULLFAIL": script.VER_NULLFAIL, "WITNESS_PUBKEYTYPE": script.VER_WITNESS_PUBKEY,
	"CONST_SCRIPTCODE": script.VER_CONST_SCRIPTCODE, "TAPROOT": script.VER_TAPROOT,
	"DISCOURAGE_UPGRADABLE_TAPROOT_VERSION": script.VER_DIS_TAPVER, "DISCOURAGE_OP_SUCCESS": script.VER_DIS_SUCCESS,
	"DISCOURAGE_UPGRADABLE_PUBKEYTYPE": script.VER_DIS_PUBKEYTYPE,
}

func flagsOf(names []string) (uint32, error) {
	var f uint32
	for _, n := range names {
		b, ok := flagBits[n]
		if !ok {
			return 0, fmt.Errorf("unknown flag %q", n)
		}
		f |= b
	}
	return f, nil
}

// ---------------------------------------------------------------------------------------------
// curve helpers (math/big; only for building inputs)
// ---------------------------------------------------------------------------------------------

var (
	fieldP, _ = new(big.Int).SetString("fffffffffffffffffffffffffffffffffffffffffffffffffffffffefffffc2f", 16)
	orderN, _ = new(big.Int).SetString("fffffffffffffffffffffffffffffffebaaedce6af48a03bbfd25e8cd0364141", 16)
	halfN     = new(big.Int).Rsh(orderN, 1)
)

func sha(b ...[]byte) []byte {
	h := sha256.New()
	for _, x := range b {
		h.Write(x)
	}
	return h.Sum(nil)
}

func tagged(tag string, b ...[]byte) []byte {
	t := sha([]byte(tag))
	h := sha256.New()
	h.Write(t)
	h.Write(t)
	for _, x := range b {
		h.Write(x)
	}
	return h.Sum(nil)
}

func onCurveX(x *big.Int) bool {
	if x.Cmp(fieldP) >= 0 {
		return false
	}
	y2 := new(big.Int).Exp(x, big.NewInt(3), fieldP)
	y2.Add(y2, big.NewInt(7))
	y2.Mod(y2, fieldP)
	return new(big.Int).ModSqrt(y2, fieldP) != nil
}

func pad32(x *big.Int) []byte {
	b := x.Bytes()
	if len(b) > 32 {
		panic("pad32")
	}
	out := make([]byte, 32)
	copy(out[32-len(b):], b)
	return out
}

func compactSize(n int) []byte {
	switch {
	case n < 253:
		return []byte{byte(n)}
	case n <= 0xffff:
		return []byte{253, byte(n), byte(n >> 8)}
	default:
		return []byte{254, byte(n), byte(n >> 8), byte(n >> 16), byte(n >> 24)}
	}
}

// ---------------------------------------------------------------------------------------------
// concretiser
// ---------------------------------------------------------------------------------------------

type infraErr struct{ s string }

func infra(f string, a ...interface{}) { panic(infraErr{fmt.Sprintf(f, a...)}) }

type conc struct {
	c      *Case
	seed   int64
	tx     *btc.Tx
	idx    int
	amount uint64
	pkScr  []byte // concretised scriptPubKey (set before signatures that need it)
	memo   map[string][]byte
	inprog map[string]bool
}

func key(v []int) string { return fmt.Sprint(v) }

func (k *conc) secret(id int) []byte {
	for ctr := 0; ; ctr++ {
		d := sha([]byte(fmt.Sprintf("verif-c01-key/%d/%d/%d", k.seed, id, ctr)))
		x := new(big.Int).SetBytes(d)
		if x.Sign() > 0 && x.Cmp(orderN) < 0 {
			pub := pubOf(d, true)
			if pub[1] != 0x50 { // no token starts with the annex tag
				return d
			}
		}
	}
}

// x coordinate that is not on the curve / x' + p with x' on the curve
func (k *conc) offCurveX(id int) []byte {
	for ctr := 0; ; ctr++ {
		d := sha([]byte(fmt.Sprintf("verif-c01-off/%d/%d/%d", k.seed, id, ctr)))
		x := new(big.Int).SetBytes(d)
		if x.Cmp(fieldP) < 0 && !onCurveX(x) && d[0] != 0x50 {
			return d
		}
	}
}

func (k *conc) bigX(id int) []byte {
	// 2^256 - p = 2^32 + 977: x' in [0, 2^32+977) with x' on the curve; bytes = x' + p
	start := new(big.Int).SetBytes(sha([]byte(fmt.Sprintf("verif-c01-big/%d/%d", k.seed, id)))[:3])
	lim := new(big.Int).Sub(new(big.Int).Lsh(big.NewInt(1), 256), fieldP)
	for x := start; ; x.Add(x, big.NewInt(1)) {
		if x.Cmp(lim) >= 0 {
			x.SetInt64(1)
		}
		if onCurveX(x) {
			return pad32(new(big.Int).Add(x, fieldP))
		}
	}
}

// public key of a secret.  The compressed form is derived from the uncompressed one: gocoin's own compressed
// serialisation (secp256k1.XY.GetPublicKey) takes the parity of a non-normalised Y and is wrong for about one
// secret in 20000 (reported separately; not part of C01).
func pubOf(d []byte, compressed bool) []byte {
	u := btc.PublicFromPrivate(d, false)
	if u == nil || !compressed {
		return u
	}
	c := make([]byte, 33)
	c[0] = 2 + (u[64] & 1)
	copy(c[1:], u[1:33])
	return c
}

func (k *conc) pubkey(id, form int) []byte {
	d := k.secret(id)
	switch form {
	case 0:
		return pubOf(d, true)
	case 1:
		return pubOf(d, false)
	case 2:
		u := pubOf(d, false)
		h := append([]byte{}, u...)
		h[0] = 6 + (u[64] & 1)
		return h
	case 3:
		return pubOf(d, true)[1:]
	case 4:
		return k.offCurveX(id)
	case 5:
		return k.bigX(id)
	case 6:
		p := pubOf(d, true)
		p[0] = 5
		return p
	case 8:
		return append([]byte{2}, k.offCurveX(id)...)
	}
	infra("unknown key form %d", form)
	return nil
}

// tweaked secret and output key of a taproot output <<820, k, form, sid, lv, m>>
func (k *conc) taproot(q []int) (outKey []byte, parity byte, tweakedSecret []byte, internal []byte, path [][]byte) {
	id, form, sid, lv, m := q[1], q[2], q[3], q[4], q[5]
	internal = k.pubkey(id, form)
	var root []byte
	if sid > 0 {
		if sid > len(k.c.Scr) {
			infra("taproot leaf script %d missing", sid)
		}
		scr := k.serialize(k.c.Scr[sid-1], "")
		node := tagged("TapLeaf", []byte{byte(lv)}, compactSize(len(scr)), scr)
		for j := 0; j < m; j++ {
			sib := sha([]byte(fmt.Sprintf("verif-c01-sibling/%d", j)))
			if len(q) > 6 && q[6] >= 0 {
				// leaf position: bit j of the pattern puts the sibling after (ff..) or before (00..) the node, so
				// that both orders of the lexicographic TapBranch hash occur
				if (q[6]>>uint(j%30))&1 == 1 {
					sib[0] = 0xff
				} else {
					sib[0] = 0x00
				}
			}
			path = append(path, sib)
			if bytes.Compare(node, sib) < 0 {
				node = tagged("TapBranch", node, sib)
			} else {
				node = tagged("TapBranch", sib, node)
			}
		}
		root = node
	}
	t := tagged("TapTweak", internal, root)
	tn := new(big.Int).SetBytes(t)
	if tn.Cmp(orderN) >= 0 {
		infra("tweak out of range")
	}
	if form == 3 {
		d := new(big.Int).SetBytes(k.secret(id))
		if pubOf(k.secret(id), true)[0] == 3 {
			d.Sub(orderN, d)
		}
		d.Add(d, tn)
		d.Mod(d, orderN)
		if d.Sign() == 0 {
			infra("tweaked key is zero")
		}
		tweakedSecret = pad32(d)
		Q := pubOf(tweakedSecret, true)
		return Q[1:], Q[0] & 1, tweakedSecret, internal, path
	}
	// an internal key that is not a valid x coordinate: no honest output key exists.  The adversarial
	// output key is what a verifier that skips the validity check of the internal key would compute.
	var pt secp256k1.XY
	var tw secp256k1.Number
	pt.ParseXOnlyPubkey(internal)
	tw.SetBytes(t)
	if !pt.ECPublicTweakAdd(&tw) {
		infra("lenient tweak failed")
	}
	pt.X.Normalize()
	pt.Y.Normalize()
	out := make([]byte, 32)
	pt.X.GetB32(out)
	par := byte(0)
	if pt.Y.IsOdd() {
		par = 1
	}
	return out, par, nil, internal, path
}

func canonPush(n int) int {
	switch {
	case n < 76:
		return n
	case n <= 255:
		return 76
	case n <= 65535:
		return 77
	}
	return 78
}

// serialize ops; pushes (in CScript << form) of the value whose key is elide are left out (FindAndDelete)
func (k *conc) serialize(ops []Op, elide string) []byte {
	var b []byte
	for _, op := range ops {
		if op.O < 0 || op.O > 255 {
			infra("opcode %d", op.O)
		}
		if op.T {
			b = append(b, byte(op.O))
			b = append(b, k.value(op.D)...)
			continue
		}
		if op.O > 78 {
			if len(op.D) != 0 {
				infra("data on non-push opcode %d", op.O)
			}
			b = append(b, byte(op.O))
			continue
		}
		if elide != "" && key(op.D) == elide {
			d := k.sizeOf(op.D)
			if canonPush(d) == op.O {
				continue
			}
			infra("signature embedded in its own script code with a push that FindAndDelete does not remove")
		}
		d := k.value(op.D)
		switch {
		case op.O <= 75:
			if len(d) != op.O {
				infra("direct push opcode %d with %d bytes (%v)", op.O, len(d), op.D)
			}
			b = append(b, byte(op.O))
		case op.O == 76:
			if len(d) > 255 {
				infra("PUSHDATA1 with %d bytes", len(d))
			}
			b = append(b, 76, byte(len(d)))
		case op.O == 77:
			if len(d) > 65535 {
				infra("PUSHDATA2 with %d bytes", len(d))
			}
			b = append(b, 77, byte(len(d)), byte(len(d)>>8))
		default:
			b = append(b, 78, byte(len(d)), byte(len(d)>>8), byte(len(d)>>16), byte(len(d)>>24))
		}
		b = append(b, d...)
	}
	return b
}

// size of a value without concretising signatures (mirrors Script!Size)
func (k *conc) sizeOf(v []int) int {
	if len(v) == 0 || v[0] < 256 {
		return len(v)
	}
	switch {
	case v[0] == 301 || v[0] == 302:
		return 20
	case v[0] == 303:
		return 32
	case v[0] >= 400 && v[0] <= 409:
		switch v[0] - 400 {
		case 0, 6, 8:
			return 33
		case 1, 2:
			return 65
		}
		return 32
	case v[0] == 500:
		return 71
	case v[0] == 501 || v[0] == 502:
		return 72
	case v[0] >= 510 && v[0] <= 513:
		switch v[0] - 510 {
		case 0:
			if v[2] == 0 {
				return 64
			}
			return 65
		case 1:
			return 65
		case 2:
			return 63
		}
		return 66
	case v[0] == 600:
		return v[1]
	case v[0] == 700:
		return v[2]
	case v[0] == 810:
		return 33 + 32*v[5] + v[6]
	case v[0] == 820:
		return 32
	}
	infra("sizeOf: unknown token %v", v)
	return 0
}

func (k *conc) value(v []int) []byte {
	if len(v) == 0 {
		return []byte{}
	}
	if v[0] < 256 {
		b := make([]byte, len(v))
		for i, x := range v {
			if x < 0 || x > 255 {
				infra("byte out of range in %v", v)
			}
			b[i] = byte(x)
		}
		return b
	}
	ks := key(v)
	if b, ok := k.memo[ks]; ok {
		return b
	}
	if k.inprog[ks] {
		infra("circular value %v", v)
	}
	k.inprog[ks] = true
	defer delete(k.inprog, ks)
	var b []byte
	switch {
	case v[0] == 301:
		h := ripemd160.New()
		h.Write(k.value(v[1:]))
		b = h.Sum(nil)
	case v[0] == 302:
		s := sha1.Sum(k.value(v[1:]))
		b = s[:]
	case v[0] == 303:
		b = sha(k.value(v[1:]))
	case v[0] >= 400 && v[0] <= 409:
		b = k.pubkey(v[1], v[0]-400)
	case v[0] >= 500 && v[0] <= 502:
		b = k.ecdsaSig(v)
	case v[0] >= 510 && v[0] <= 513:
		b = k.schnorrSig(v)
	case v[0] == 600:
		b = make([]byte, v[1])
		for i := range b {
			b[i] = byte(0xa1 + (v[2]*7+i)%0x5d)
		}
	case v[0] == 700:
		if v[1] < 1 || v[1] > len(k.c.Scr) {
			infra("script %d not in table", v[1])
		}
		b = k.serialize(k.c.Scr[v[1]-1], "")
	case v[0] == 810:
		// <<810, lv, par, k, form, m, pad>>; the commitment it belongs to is the case's taproot output
		q := k.taprootOutput()
		var par byte
		var internal []byte
		var path [][]byte
		if q != nil && q[1] == v[3] && q[2] == v[4] {
			_, par, _, internal, path = k.taproot(q)
		} else {
			internal = k.pubkey(v[3], v[4])
		}
		b = append(b, byte(v[1])|(par^byte(v[2])))
		b = append(b, internal...)
		for j := 0; j < v[5]; j++ {
			if j < len(path) {
				b = append(b, path[j]...)
			} else {
				b = append(b, sha([]byte(fmt.Sprintf("verif-c01-sibling/%d", j)))...)
			}
		}
		switch {
		case v[6] > 0:
			b = append(b, bytes.Repeat([]byte{0xee}, v[6])...)
		case v[6] < 0:
			b = b[:len(b)+v[6]]
		}
	case v[0] == 820:
		b, _, _, _, _ = k.taproot(v)
	default:
		infra("unknown token %v", v)
	}
	if len(b) != k.sizeOf(v) {
		infra("token %v concretised to %d bytes, model size %d", v, len(b), k.sizeOf(v))
	}
	k.memo[ks] = b
	return b
}

// the taproot output key token of the case's scriptPubKey, if any
func (k *conc) taprootOutput() []int {
	if len(k.c.Pk) == 2 && k.c.Pk[0].O == 0x51 && len(k.c.Pk[1].D) > 0 && k.c.Pk[1].D[0] == 820 {
		return k.c.Pk[1].D
	}
	return nil
}

// script code a signature token with designator m commits to: the target script from op m on
func (k *conc) targetOps() []Op {
	switch {
	case k.c.Tgt == 0:
		return k.c.Pk
	case k.c.Tgt > 0 && k.c.Tgt <= len(k.c.Scr):
		return k.c.Scr[k.c.Tgt-1]
	}
	return nil
}

func (k *conc) nonce(tag string, parts ...[]byte) []byte {
	h := sha256.New()
	fmt.Fprintf(h, "verif-c01-nonce/%d/%s/", k.seed, tag)
	for _, p := range parts {
		h.Write(p)
	}
	return h.Sum(nil)
}

func derInt(x *big.Int, extraPad bool) []byte {
	b := x.Bytes()
	if len(b) == 0 {
		b = []byte{0}
	}
	if b[0]&0x80 != 0 || extraPad {
		b = append([]byte{0}, b...)
	}
	return append([]byte{2, byte(len(b))}, b...)
}

func (k *conc) ecdsaSig(v []int) []byte {
	enc, id, ht, m := v[0]-500, v[1], v[2], v[3]
	var digest []byte
	switch {
	case m == 0:
		digest = sha([]byte(fmt.Sprintf("verif-c01-unrelated-message/%d", id)))
	case m >= 1 && m < 90:
		var code []byte
		if k.c.Tgt == -1 {
			// P2WPKH: the implied script of the key hash
			h := ripemd160.New()
			h.Write(sha(k.pubkey(id, k.wpkhForm())))
			code = append([]byte{0x76, 0xa9, 0x14}, h.Sum(nil)...)
			code = append(code, 0x88, 0xac)
		} else {
			ops := k.targetOps()
			if ops == nil {
				infra("signature designator %d without a target script", m)
			}
			if m-1 > len(ops) {
				// a position beyond the end of the script: no such script code
				return k.ecdsaSig([]int{v[0], id, ht, 0})
			}
			el := ""
			if k.c.Tsv == "base" {
				el = key(v)
			}
			code = k.serialize(ops[m-1:], el)
		}
		switch k.c.Tsv {
		case "base":
			digest = k.tx.SignatureHash(code, k.idx, int32(ht))
		case "v0":
			digest = k.tx.WitnessSigHash(code, k.amount, k.idx, int32(ht))
		default:
			infra("ECDSA signature for sigversion %q", k.c.Tsv)
		}
	default:
		infra("ECDSA designator %d", m)
	}
	d := k.secret(id)
	for ctr := 0; ctr < 10000; ctr++ {
		var sig secp256k1.Signature
		var sec, msg, non secp256k1.Number
		sec.SetBytes(d)
		msg.SetBytes(digest)
		non.SetBytes(k.nonce("ecdsa", d, digest, []byte{byte(ctr), byte(ctr >> 8)}))
		if non.Sign() <= 0 || non.Cmp(orderN) >= 0 {
			continue
		}
		if sig.Sign(&sec, &msg, &non, nil) != 1 {
			continue
		}
		r := new(big.Int).Set(&sig.R.Int)
		s := new(big.Int).Set(&sig.S.Int)
		if s.Cmp(halfN) > 0 {
			s.Sub(orderN, s)
		}
		rb, sb := r.Bytes(), s.Bytes()
		if len(rb) != 32 || rb[0]&0x80 != 0 || len(sb) != 32 || rb[0] == 0 {
			continue
		}
		// sanity: the canonical form verifies under the primitives (judged by C03, here only a guard
		// against a broken concretiser)
		canon := append([]byte{0x30, 68}, append(derInt(r, false), derInt(s, false)...)...)
		if !btc.EcdsaVerify(pubOf(d, true), append(append([]byte{}, canon...), byte(ht)), digest) {
			infra("concretiser: own ECDSA signature does not verify")
		}
		var body []byte
		switch enc {
		case 0:
			body = append(derInt(r, false), derInt(s, false)...)
		case 1:
			body = append(derInt(r, true), derInt(s, false)...)
		case 2:
			body = append(derInt(r, false), derInt(new(big.Int).Sub(orderN, s), false)...)
		default:
			infra("ECDSA encoding class %d", enc)
		}
		out := append([]byte{0x30, byte(len(body))}, body...)
		return append(out, byte(ht))
	}
	infra("could not grind an ECDSA signature of the modelled size")
	return nil
}

func (k *conc) wpkhForm() int {
	// the key form used in the witness of a P2WPKH spend: the pubkey element of the witness
	if len(k.c.Wit) == 2 && len(k.c.Wit[1]) == 2 && k.c.Wit[1][0] >= 400 && k.c.Wit[1][0] <= 409 {
		return k.c.Wit[1][0] - 400
	}
	return 0
}

func (k *conc) annexHash() []byte {
	w := k.c.Wit
	if len(w) >= 2 {
		last := w[len(w)-1]
		if len(last) > 0 && last[0] == 0x50 {
			a := k.value(last)
			return sha(compactSize(len(a)), a)
		}
	}
	return nil
}

func (k *conc) schnorrSig(v []int) []byte {
	enc, id, ht, m := v[0]-510, v[1], v[2], v[3]
	defined := ht <= 3 || (ht >= 0x81 && ht <= 0x83)
	var digest []byte
	d := k.secret(id)
	q := k.taprootOutput()
	// designators 100 + m: as m, but over a digest whose tapleaf hash is not the leaf's (tapscript only): the value a
	// verifier holds after the first TapBranch step of the control block, or an unrelated hash for a single-leaf tree
	wrongLeaf := false
	if m >= 100 && m < 190 && k.c.Tsv == "tap" {
		wrongLeaf = true
		m -= 100
	}
	switch {
	case !defined || (ht&3 == 3 && k.c.Tx.Nomatch) || m == 99:
		// no digest is defined (BIP341: the signature check fails).  The adversarial signature is one
		// over the all-zero string.
		digest = make([]byte, 32)
	case m == 0:
		digest = sha([]byte(fmt.Sprintf("verif-c01-unrelated-message/%d", id)))
	case m >= 2 && m < 90 && k.c.Tsv == "key":
		// the key path has no code position: a designator other than 1 names a message that is not this spend's
		digest = sha([]byte(fmt.Sprintf("verif-c01-unrelated-message/%d/%d", id, m)))
	case m >= 1 && m < 90:
		ed := &btc.ScriptExecutionData{M_annex_hash: k.annexHash(), M_codeseparator_pos: 0xffffffff, M_codeseparator_pos_init: true}
		switch k.c.Tsv {
		case "key":
		case "tap":
			ops := k.targetOps()
			if ops == nil || q == nil {
				infra("tapscript signature without a leaf script")
			}
			scr := k.serialize(ops, "")
			ed.M_tapleaf_hash = tagged("TapLeaf", []byte{byte(q[4])}, compactSize(len(scr)), scr)
			if wrongLeaf {
				if _, _, _, _, path := k.taproot(q); len(path) > 0 {
					if bytes.Compare(ed.M_tapleaf_hash, path[0]) < 0 {
						ed.M_tapleaf_hash = tagged("TapBranch", ed.M_tapleaf_hash, path[0])
					} else {
						ed.M_tapleaf_hash = tagged("TapBranch", path[0], ed.M_tapleaf_hash)
					}
				} else {
					ed.M_tapleaf_hash = tagged("TapLeaf", []byte("verif-c01-another-leaf"))
				}
			}
			if m > 1 {
				ed.M_codeseparator_pos = uint32(m - 2)
			}
		default:
			infra("Schnorr signature for sigversion %q", k.c.Tsv)
		}
		digest = k.tx.TaprootSigHash(ed, k.idx, byte(ht), k.c.Tsv == "tap")
	default:
		infra("Schnorr designator %d", m)
	}
	if k.c.Tsv == "key" && q != nil && q[1] == id && q[2] == 3 {
		_, _, tw, _, _ := k.taproot(q)
		d = tw
	}
	var sig []byte
	for ctr := 0; ctr < 10000; ctr++ {
		sig = secp256k1.SchnorrSign(digest, d, k.nonce("schnorr", d, digest, []byte{byte(ctr), byte(ctr >> 8)}))
		if sig == nil {
			infra("SchnorrSign failed")
		}
		if sig[0] != 0x50 {
			break
		}
	}
	switch enc {
	case 0:
		if ht != 0 {
			sig = append(sig, byte(ht))
		}
	case 1:
		sig = append(sig, byte(ht))
	case 2:
		sig = sig[:63]
	case 3:
		sig = append(sig, byte(ht), 0x01)
	}
	return sig
}

func u32(p [2]int) uint32 { return uint32(p[0])<<16 | uint32(p[1]) }

type built struct {
	tx     *btc.Tx
	idx    int
	amount uint64
	pk     []byte
}

func build(c *Case, seed int64) (bt *built) {
	k := &conc{c: c, seed: seed, memo: map[string][]byte{}, inprog: map[string]bool{}, amount: 100000}
	tx := new(btc.Tx)
	tx.AllocVerVars()
	tx.Version = u32(c.Tx.Ver)
	tx.Lock_time = u32(c.Tx.Lock)
	prev := btc.Sha2Sum([]byte("verif-c01-prevout"))
	if c.Tx.Nomatch {
		// two inputs, one output: the checked input (index 1) has no corresponding output
		other := &btc.TxIn{Input: btc.TxPrevOut{Hash: prev, Vout: 7}, Sequence: 0xffffffff}
		tx.TxIn = []*btc.TxIn{other, {Input: btc.TxPrevOut{Hash: prev, Vout: 0}, Sequence: u32(c.Tx.Seq)}}
		k.idx = 1
	} else {
		tx.TxIn = []*btc.TxIn{{Input: btc.TxPrevOut{Hash: prev, Vout: 0}, Sequence: u32(c.Tx.Seq)}}
	}
	tx.TxOut = []*btc.TxOut{{Value: 90000, Pk_script: []byte{0x51}}}
	k.tx = tx
	// the spent outputs are needed by the taproot digest; the scriptPubKey of a taproot output holds no signature
	tx.Spent_outputs = make([]*btc.TxOut, len(tx.TxIn))
	for i := range tx.Spent_outputs {
		tx.Spent_outputs[i] = &btc.TxOut{Value: 5000, Pk_script: []byte{0x51}}
	}
	spent := &btc.TxOut{Value: k.amount}
	tx.Spent_outputs[k.idx] = spent
	if k.taprootOutput() != nil {
		spent.Pk_script = k.serialize(c.Pk, "")
	}
	pk := k.serialize(c.Pk, "")
	spent.Pk_script = pk
	k.pkScr = pk
	tx.TxIn[k.idx].ScriptSig = k.serialize(c.Sig, "")
	if len(c.Wit) > 0 {
		tx.SegWit = make([][][]byte, len(tx.TxIn))
		for i := range tx.SegWit {
			tx.SegWit[i] = [][]byte{}
		}
		w := make([][]byte, len(c.Wit))
		for i := range c.Wit {
			w[i] = k.value(c.Wit[i])
		}
		tx.SegWit[k.idx] = w
	}
	return &built{tx: tx, idx: k.idx, amount: k.amount, pk: pk}
}

// ---------------------------------------------------------------------------------------------
// replay
// ---------------------------------------------------------------------------------------------

const wallBound = 20 * time.Second

type verdict struct {
	res      bool
	panicked string
	timeout  bool
}

func runOne(bt *built, flags uint32) (v verdict) {
	done := make(chan verdict, 1)
	go func() {
		var r verdict
		defer func() {
			if p := recover(); p != nil {
				r.panicked = fmt.Sprint(p)
			}
			done <- r
		}()
		r.res = script.VerifyTxScript(bt.pk, &script.SigChecker{Tx: bt.tx, Idx: bt.idx, Amount: bt.amount}, flags)
	}()
	select {
	case v = <-done:
	case <-time.After(wallBound):
		v.timeout = true
	}
	return
}

type failure struct {
	Ok    bool     `json:"ok"`
	Line  int      `json:"line"`
	Fam   string   `json:"fam"`
	W     string   `json:"w"`
	Kind  string   `json:"kind"`
	Tag   string   `json:"tag"`
	What  string   `json:"what"`
	Flags []string `json:"flags"`
	Want  string   `json:"want"`
	Got   string   `json:"got"`
	Sig   string   `json:"scriptSig"`
	Pk    string   `json:"scriptPubKey"`
	Wit   []string `json:"witness"`
	Tx    string   `json:"tx"`
	Dev   string   `json:"deviation,omitempty"` // the named deviation of the model that predicts exactly this answer
	Case  *Line    `json:"case,omitempty"`
}

func hexes(w [][]byte) []string {
	out := make([]string, len(w))
	for i := range w {
		out[i] = hex.EncodeToString(w[i])
	}
	return out
}

func replay(args []string) {
	fs := flag.NewFlagSet("replay", flag.ExitOnError)
	in := fs.String("in", "-", "ndjson of exported cases")
	seed := fs.Int64("seed", 1, "concretiser seed")
	workers := fs.Int("workers", runtime.NumCPU(), "")
	withCase := fs.Bool("withcase", true, "include the abstract case in failure lines")
	fs.Parse(args)

	// lib/script prints diagnostics on stdout: keep our channel, silence theirs
	outFd, err := syscall.Dup(1)
	if err != nil {
		fmt.Fprintln(os.Stderr, "dup:", err)
		os.Exit(2)
	}
	devnull, _ := os.OpenFile(os.DevNull, os.O_WRONLY, 0)
	os.Stdout = devnull
	script.DBG_ERR = false
	script.DBG_SCR = false
	out := newOut(os.NewFile(uintptr(outFd), "out"))

	var lines, evals, fails, accepted, infraN int64
	var mu sync.Mutex
	distinct := map[[16]byte]bool{}
	nontrivial := 0
	perFam := map[string]*[3]int64{}

	jobs := make(chan []byte, 256)
	type job struct {
		n int
		b []byte
	}
	_ = job{}
	var ln int64 = -1
	go func() {
		err := vio.ReadLines(*in, func(n int, line []byte) error {
			jobs <- append([]byte{}, line...)
			return nil
		})
		if err != nil {
			fmt.Fprintln(os.Stderr, "read:", err)
			os.Exit(2)
		}
		close(jobs)
	}()
	vio.Pool(*workers, jobs, func(w int, raw []byte) {
		n := int(atomic.AddInt64(&ln, 1))
		var l Line
		if err := json.Unmarshal(raw, &l); err != nil {
			atomic.AddInt64(&infraN, 1)
			out.Put(map[string]interface{}{"ok": false, "infra": true, "line": n, "what": "bad json: " + err.Error()})
			return
		}
		atomic.AddInt64(&lines, 1)
		var bt *built
		func() {
			defer func() {
				if p := recover(); p != nil {
					if ie, ok := p.(infraErr); ok {
						atomic.AddInt64(&infraN, 1)
						out.Put(map[string]interface{}{"ok": false, "infra": true, "line": n, "what": "concretiser: " + ie.s, "case": l})
						bt = nil
						return
					}
					panic(p)
				}
			}()
			bt = build(&l.C, *seed)
		}()
		if bt == nil {
			return
		}
		sigHex := hex.EncodeToString(bt.tx.TxIn[bt.idx].ScriptSig)
		pkHex := hex.EncodeToString(bt.pk)
		var wit [][]byte
		if bt.tx.SegWit != nil {
			wit = bt.tx.SegWit[bt.idx]
		}
		base := sha256.New()
		fmt.Fprintf(base, "%s|%s|%v|%v", sigHex, pkHex, hexes(wit), l.C.Tx)
		baseSum := base.Sum(nil)
		hasT, hasF := false, false
		for _, fv := range l.Fv {
			if fv.V == "T" {
				hasT = true
			} else {
				hasF = true
			}
		}
		for _, fv := range l.Fv {
			fl, err := flagsOf(fv.F)
			if err != nil {
				atomic.AddInt64(&infraN, 1)
				out.Put(map[string]interface{}{"ok": false, "infra": true, "line": n, "what": err.Error()})
				continue
			}
			if fv.V != "T" && fv.V != "F" {
				atomic.AddInt64(&infraN, 1)
				out.Put(map[string]interface{}{"ok": false, "infra": true, "line": n, "what": "model verdict " + fv.V + " on a generated case", "case": l})
				continue
			}
			v := runOne(bt, fl)
			atomic.AddInt64(&evals, 1)
			got := "F"
			if v.res {
				got = "T"
			}
			what := ""
			switch {
			case v.panicked != "":
				got, what = "panic", "panic escaped VerifyTxScript: "+v.panicked
			case v.timeout:
				got, what = "timeout", fmt.Sprintf("VerifyTxScript did not return within %v", wallBound)
			case got != fv.V:
				if got == "T" {
					what = "accepted what the rules reject"
				} else {
					what = "rejected what the rules accept"
				}
			}
			var dk [16]byte
			h := sha256.Sum256(append(append([]byte{}, baseSum...), []byte(strings.Join(fv.F, ","))...))
			copy(dk[:], h[:16])
			mu.Lock()
			if !distinct[dk] {
				distinct[dk] = true
				if fv.V == "T" || (hasT && hasF) || l.Kind != "plain" || l.Steps >= 2 {
					nontrivial++
				}
			}
			pf := perFam[l.Fam]
			if pf == nil {
				pf = new([3]int64)
				perFam[l.Fam] = pf
			}
			pf[0]++
			if fv.V == "T" {
				pf[1]++
			}
			if what != "" {
				pf[2]++
			}
			mu.Unlock()
			if fv.V == "T" {
				atomic.AddInt64(&accepted, 1)
			}
			if what != "" {
				atomic.AddInt64(&fails, 1)
				f := failure{Line: n, Fam: l.Fam, W: l.W, Kind: l.Kind, Tag: l.Tag, What: what, Flags: fv.F, Want: fv.V, Got: got,
					Sig: sigHex, Pk: pkHex, Wit: hexes(wit), Tx: hex.EncodeToString(bt.tx.SerializeNew())}
				for _, a := range fv.Alt {
					if a.V == got {
						f.Dev = a.D
						break
					}
				}
				if *withCase {
					one := l
					one.Fv = []FV{fv}
					f.Case = &one
				}
				out.Put(f)
			}
		}
	})
	fams := map[string][3]int64{}
	for k, v := range perFam {
		fams[k] = *v
	}
	out.Put(map[string]interface{}{"summary": true, "lines": lines, "evaluations": evals, "fail": fails, "model_accepts": accepted,
		"infra": infraN, "distinct": len(distinct), "distinct_nontrivial": nontrivial, "families": fams})
	out.Flush()
}

// concurrency-safe JSON-lines writer on our private copy of stdout
type outW struct {
	mu sync.Mutex
	w  *bufio.Writer
}

func newOut(f *os.File) *outW { return &outW{w: bufio.NewWriterSize(f, 1<<20)} }

func (o *outW) Put(v interface{}) {
	b, err := json.Marshal(v)
	if err != nil {
		b = []byte(fmt.Sprintf(`{"marshal_error":%q}`, err.Error()))
	}
	o.mu.Lock()
	o.w.Write(b)
	o.w.WriteByte('\n')
	o.mu.Unlock()
}

func (o *outW) Flush() { o.mu.Lock(); o.w.Flush(); o.mu.Unlock() }

func main() {
	if len(os.Args) < 2 {
		fmt.Fprintln(os.Stderr, "usage: script replay|vectors|record ...")
		os.Exit(2)
	}
	switch os.Args[1] {
	case "replay":
		replay(os.Args[2:])
	case "vectors":
		vectors(os.Args[2:])
	case "record":
		record(os.Args[2:])
	case "conc":
		concStage(os.Args[2:])
	default:
		fmt.Fprintln(os.Stderr, "unknown subcommand", os.Args[1])
		os.Exit(2)
	}
}

var _ = sort.Strings
var _ = binary.LittleEndian
