// headersync: conformance driver binding spec/HeaderSync.tla to lib/chain driven header-first, the way the
// client does it.
//
//	headersync replay -scenario <json> -in <lines> -dir <scratch> -procs N
//	    every line is a TLC-exported behaviour (path + last, or steps) of header / data arrivals; it is replayed on
//	    a fresh copy of the base chain; after every checked step tip, the full UTXO dump, which blocks are in
//	    BlockIndex and which of their nodes have data (BlockTreeNode.BlockSize != 0) are compared with the model's
//	    prediction, then the client's bookkeeping (BlocksToGet, ReceivedBlocks, DiscardedBlocks, CachedBlocks).
//	    A step the model flags as a finding (kf) must fail in exactly that way on the real code.
//
// What is real code and what is transcribed here:
//   - headers go through the real client function network.(*OneConnection).ProcessNewHeader on an 80-byte
//     btc.Block (DiscardedBlocks / ReceivedBlocks / BlocksToGet look-ups, Chain.PreCheckBlock under
//     BlockIndexAccess, Chain.AcceptHeader, AddB2G);
//   - block data: Chain.PostCheckBlock, Chain.DeleteBranch, Chain.HasAllParents, Blocks.BlockAdd,
//     Chain.CommitBlock(bl, node) are the real lib/chain; network.CachedBlocksAdd / CachedBlocksDel / DiscardBlock /
//     DelB2G and the maps they work on are the real client/network package;
//   - the glue between them lives in package main of the client (HandleNetBlock, LocalAcceptBlock,
//     retry_cached_blocks, CheckParentDiscarded) and in the unexported network.netBlockReceived, which cannot be
//     imported: those few lines are transcribed below, statement by statement (functions named after them).
//
// The client/network state is global, so one process replays one behaviour at a time; `replay` runs a pool of
// `worker` sub-processes. That also contains the failures this driver must survive: unbounded recursion in
// lib/chain ends in a fatal "stack overflow", which no recover() can catch.
package main

import (
	"bufio"
	"bytes"
	"encoding/json"
	"flag"
	"fmt"
	"io"
	"os"
	"os/exec"
	"path/filepath"
	"runtime/debug"
	"sort"
	"strings"
	"sync"
	"time"

	"github.com/piotrnar/gocoin/client/common"
	"github.com/piotrnar/gocoin/client/network"
	"github.com/piotrnar/gocoin/lib/btc"
	"github.com/piotrnar/gocoin/lib/chain"
	"github.com/piotrnar/gocoin/lib/utxo"

	"verifharness/conc"
)

// ------------------------------------------------------------------ exported behaviours

type Pred struct {
	Tip     int            `json:"tip"`
	Unew    []conc.UtxoEnt `json:"unew"`
	Gone    []int          `json:"gone"`
	Hdrs    []int          `json:"hdrs"`
	HasData []int          `json:"hasdata"`
	B2g     []int          `json:"b2g"`
	Rcvd    []int          `json:"rcvd"`
	Disc    []int          `json:"disc"`
	Cache   []int          `json:"cache"`
	Retry   bool           `json:"retry"`
	HiAcc   int            `json:"hiacc"`
	Acc     bool           `json:"acc"`
	Later   bool           `json:"later"`
	Viol    []string       `json:"viol"`
	Kf      string         `json:"kf"`
	Notes   []string       `json:"notes"`
}

type Step struct {
	A string `json:"a"`
	B int    `json:"b"`
	P *Pred  `json:"p"`
}

type Line struct {
	Path  []Step `json:"path"`
	Last  *Step  `json:"last"`
	Steps []Step `json:"steps"`
}

// result of one line. Kind: "" (agrees), verdict | tip | utxo | hdrs | hasdata (the chain differs from the model),
// client (the client's bookkeeping differs), panic | died (a failure the model does not predict), nofail (the model
// predicts a failure that did not happen), finding (the code fails exactly as the model of the code says), infra.
type Result struct {
	N     int             `json:"n"`
	Kind  string          `json:"kind"`
	What  string          `json:"what,omitempty"`
	Step  int             `json:"step"`
	B     int             `json:"b"`
	Kf    string          `json:"kf,omitempty"`
	Gap   bool            `json:"gap,omitempty"` // DEV_RetryGap was hit: the client itself would have panicked here
	Obs   *Observed       `json:"obs,omitempty"` // final observation (lines without predictions: probes)
	Steps int             `json:"steps"`         // steps executed
	Line  json.RawMessage `json:"line,omitempty"`
}

type Observed struct {
	Tip     int    `json:"tip"`
	Crash   string `json:"crash"`
	HasData []int  `json:"hasdata"`
	Hdrs    []int  `json:"hdrs"`
}

// ------------------------------------------------------------------ the client, transcribed (see header comment)

// fixCacheDel: the client's retry_cached_blocks was repaired (see checks/c06_headers.py, which selects the
// transcription that matches the source text of client/main.go)
var fixCacheDel = os.Getenv("HS_FIXCACHEDEL") == "1"

type client struct {
	w    *conc.World
	n    *conc.Node
	ch   *chain.Chain
	conn *network.OneConnection

	highestAcceptedBlock uint32 // main.highestAcceptedBlock
	retryCachedBlocks    bool   // main.retryCachedBlocks
	gap                  bool   // DEV_RetryGap
}

func resetNetwork() {
	// a panic of the previous behaviour may have left these locked
	network.MutexRcv = sync.Mutex{}
	network.CachedBlocksMutex = sync.Mutex{}
	network.ReceivedBlocks = make(map[btc.BIDX]*network.OneReceivedBlock)
	network.BlocksToGet = make(map[btc.BIDX]*network.OneBlockToGet)
	network.IndexToBlocksToGet = make(map[uint32][]btc.BIDX)
	network.LowestIndexToBlocksToGet.Store(0)
	network.CachedBlocksIdx = make(map[uint32][]*network.BlockRcvd)
	network.CachedMinHeight, network.CachedMaxHeight = 0, 0
	network.CachedBlocksBytes.Store(0)
	network.DiscardedBlocks = make(map[btc.BIDX]bool)
}

func newClient(w *conc.World, n *conc.Node) *client {
	resetNetwork()
	common.BlockChain = n.Ch
	network.LastCommitedHeader = n.Ch.LastBlock() // client/init.go: the top of the loaded tree
	c := &client{w: w, n: n, ch: n.Ch}
	c.conn = network.NewConnection(nil)
	return c
}

// a "headers" message with the one header: HandleHeaders -> ProcessNewHeader (real code)
func (c *client) header(raw []byte) (accepted bool) {
	network.MutexRcv.Lock()
	defer network.MutexRcv.Unlock()
	sta, b2g := c.conn.ProcessNewHeader(append([]byte(nil), raw[:80]...))
	_ = sta
	return b2g != nil // PH_STATUS_NEW or PH_STATUS_FRESH: there is a block to get
}

// network.netBlockReceived, the part that touches the chain
func (c *client) netBlockReceived(b []byte) (taken bool) {
	hash := btc.NewSha2Hash(b[:80])
	idx := hash.BIdx()
	network.MutexRcv.Lock()
	if rb, got := network.ReceivedBlocks[idx]; got {
		rb.DownloadCnt++
		network.MutexRcv.Unlock()
		return false
	}
	b2g := network.BlocksToGet[idx]
	if b2g == nil {
		_, b2g = c.conn.ProcessNewHeader(append([]byte(nil), b[:80]...))
		if b2g == nil {
			network.MutexRcv.Unlock()
			return false
		}
	}
	prev_block_raw := b2g.Block.Raw
	b2g.Block.Raw = b
	er := common.BlockChain.PostCheckBlock(b2g.Block)
	if er != nil {
		if b2g.Block.MerkleRootMatch() && !strings.Contains(er.Error(), "RPC_Result:bad-witness-nonce-size") {
			network.DelB2G(idx)
			if b2g.BlockTreeNode == network.LastCommitedHeader {
				network.LastCommitedHeader = network.LastCommitedHeader.Parent
			}
			common.BlockChain.DeleteBranch(b2g.BlockTreeNode, func(h *btc.Uint256) { network.DelB2G(h.BIdx()) }) // delB2G_callback
		} else {
			b2g.Block.Raw = prev_block_raw
			b2g.Block.BlockWeight, b2g.TotalInputs = 0, 0
			b2g.Block.TxCount, b2g.Block.TxOffset = 0, 0
			b2g.Block.Txs = nil
		}
		network.MutexRcv.Unlock()
		return false
	}
	orb := &network.OneReceivedBlock{TmStart: b2g.Started, TmPreproc: b2g.TmPreproc, DoInvs: b2g.SendInvs}
	network.ReceivedBlocks[idx] = orb
	network.DelB2G(idx)
	network.MutexRcv.Unlock()
	// queueNewBlock: the block goes to NetBlocks (the distance to the tip is far below cap(NetBlocks)/2) and the
	// main loop hands it to HandleNetBlock
	return c.HandleNetBlock(&network.BlockRcvd{Conn: c.conn, Block: b2g.Block, BlockTreeNode: b2g.BlockTreeNode,
		OneReceivedBlock: orb, Size: len(b2g.Block.Raw)})
}

// main.CheckParentDiscarded
func (c *client) CheckParentDiscarded(n *chain.BlockTreeNode) bool {
	network.MutexRcv.Lock()
	defer network.MutexRcv.Unlock()
	if network.DiscardedBlocks[n.Parent.BlockHash.BIdx()] {
		network.DiscardedBlocks[n.BlockHash.BIdx()] = true
		return true
	}
	return false
}

// main.HandleNetBlock
func (c *client) HandleNetBlock(newbl *network.BlockRcvd) (taken bool) {
	if c.CheckParentDiscarded(newbl.BlockTreeNode) {
		c.retryCachedBlocks = network.CachedBlocksLen() > 0
		return false
	}
	if !common.BlockChain.HasAllParents(newbl.BlockTreeNode) {
		network.CachedBlocksAdd(newbl)
		return true
	}
	e := c.LocalAcceptBlock(newbl)
	c.retryCachedBlocks = c.retry_cached_blocks()
	return e == nil
}

// main.LocalAcceptBlock (what concerns the chain and the network bookkeeping)
func (c *client) LocalAcceptBlock(newbl *network.BlockRcvd) (e error) {
	bl := newbl.Block
	if newbl.BlockTreeNode.Trusted.Get() {
		bl.Trusted.Set()
	}
	common.BlockChain.Unspent.AbortWriting()
	common.BlockChain.Blocks.BlockAdd(newbl.BlockTreeNode.Height, bl)
	network.MutexRcv.Lock()
	bl.LastKnownHeight = network.LastCommitedHeader.Height
	network.MutexRcv.Unlock()
	e = common.BlockChain.CommitBlock(bl, newbl.BlockTreeNode)
	if e == nil {
		if bl.Height > c.highestAcceptedBlock {
			c.highestAcceptedBlock = bl.Height
		}
	} else {
		new_end := common.BlockChain.LastBlock()
		network.MutexRcv.Lock()
		network.DiscardBlock(newbl.BlockTreeNode)
		if new_end.Height > network.LastCommitedHeader.Height {
			network.LastCommitedHeader, _ = new_end.FindFarthestNode()
		}
		network.MutexRcv.Unlock()
	}
	return
}

// main.retry_cached_blocks
func (c *client) retry_cached_blocks() bool {
	var newbl *network.BlockRcvd
	var lowest_cached_blocks []*network.BlockRcvd
	var lowest_cached_block_idx int

	cached_min_height := network.CachedMinHeight

try_next_one:
	network.CachedBlocksMutex.Lock()
	newbl = nil
	if len(network.CachedBlocksIdx) > 0 {
		if lowest_cached_blocks != nil {
			if lowest_cached_block_idx > 0 {
				lowest_cached_block_idx--
			} else {
				lowest_cached_blocks = nil
				cached_min_height++
				if cached_min_height > network.CachedMaxHeight {
					goto not_found
				}
			}
		}
		if lowest_cached_blocks == nil {
			lowest_cached_blocks = network.CachedBlocksIdx[cached_min_height]
			// DEV_RetryGap: the client indexes lowest_cached_blocks[len-1] here even when this height has no cached
			// block (index -1: it panics). That statement is in package main; the driver skips the empty heights and
			// flags the step.
			for len(lowest_cached_blocks) == 0 {
				c.gap = true
				cached_min_height++
				if cached_min_height > network.CachedMaxHeight {
					lowest_cached_blocks = nil
					goto not_found
				}
				lowest_cached_blocks = network.CachedBlocksIdx[cached_min_height]
			}
			lowest_cached_block_idx = len(lowest_cached_blocks) - 1
		}
		newbl = lowest_cached_blocks[lowest_cached_block_idx]
	}
not_found:
	network.CachedBlocksMutex.Unlock()

	if newbl == nil {
		return false
	}
	if int(newbl.BlockTreeNode.Height)-int(c.highestAcceptedBlock) > 1 {
		return false
	}
	if c.CheckParentDiscarded(newbl.BlockTreeNode) {
		network.CachedBlocksDel(newbl)
		return network.CachedBlocksLen() > 0
	}
	if !common.BlockChain.HasAllParents(newbl.BlockTreeNode) {
		goto try_next_one
	}
	e := c.LocalAcceptBlock(newbl)
	if e == nil || !fixCacheDel { // (the repaired client removes it only when LocalAcceptBlock succeeded)
		network.CachedBlocksDel(newbl)
	}
	return network.CachedBlocksLen() > 0
}

// ------------------------------------------------------------------ projection and comparison

func ints(s []int) string { sort.Ints(s); return fmt.Sprint(s) }

func (c *client) indexState() (hdrs, hasdata []int) {
	c.ch.BlockIndexAccess.Lock()
	defer c.ch.BlockIndexAccess.Unlock()
	for b := range c.w.Sc.Blk {
		h := c.w.BlockHash(b)
		if nd, ok := c.ch.BlockIndex[h.BIdx()]; ok && nd.BlockHash.Equal(h) {
			hdrs = append(hdrs, b)
			if nd.BlockSize != 0 {
				hasdata = append(hasdata, b)
			}
			if (nd.BlockSize != 0) != (nd.TxCount != 0) {
				hasdata = append(hasdata, -b) // BlockSize and TxCount must agree
			}
		}
	}
	sort.Ints(hdrs)
	sort.Ints(hasdata)
	return
}

type fail struct{ kind, what string }

func (c *client) check(p *Pred) *fail {
	tip, ok := c.n.Tip()
	if !ok || tip != p.Tip {
		return &fail{"tip", fmt.Sprintf("tip is block %d, model predicts %d", tip, p.Tip)}
	}
	ents, problems := c.n.DumpUtxo()
	if len(problems) > 0 {
		return &fail{"utxo", problems[0]}
	}
	want := map[conc.UtxoEnt]bool{}
	gone := map[int]bool{}
	for _, g := range p.Gone {
		gone[g] = true
	}
	for h := 1; h <= c.w.Sc.BaseH; h++ {
		if !gone[h] {
			want[conc.UtxoEnt{Tx: h, Vout: 1, H: h}] = true
		}
	}
	for _, e := range p.Unew {
		want[e] = true
	}
	for _, e := range ents {
		if !want[e] {
			return &fail{"utxo", fmt.Sprintf("UTXO set holds output %d:%d (height %d) which the replay of the chain to the tip does not", e.Tx, e.Vout, e.H)}
		}
		delete(want, e)
	}
	for e := range want {
		return &fail{"utxo", fmt.Sprintf("UTXO set lacks output %d:%d (height %d) which the replay of the chain to the tip holds", e.Tx, e.Vout, e.H)}
	}
	hdrs, hasdata := c.indexState()
	if ints(hdrs) != ints(p.Hdrs) {
		return &fail{"hdrs", fmt.Sprintf("BlockIndex holds blocks %v, model predicts %v", hdrs, p.Hdrs)}
	}
	if ints(hasdata) != ints(p.HasData) {
		return &fail{"hasdata", fmt.Sprintf("indexed nodes with data (BlockSize != 0): %v, model predicts %v", hasdata, p.HasData)}
	}
	// the client's bookkeeping
	var b2g, rcvd, disc []int
	for b := range c.w.Sc.Blk {
		idx := c.w.BlockHash(b).BIdx()
		if network.BlocksToGet[idx] != nil {
			b2g = append(b2g, b)
		}
		if network.ReceivedBlocks[idx] != nil {
			rcvd = append(rcvd, b)
		}
		if network.DiscardedBlocks[idx] {
			disc = append(disc, b)
		}
	}
	if ints(b2g) != ints(p.B2g) || ints(rcvd) != ints(p.Rcvd) || ints(disc) != ints(p.Disc) {
		return &fail{"client", fmt.Sprintf("BlocksToGet %v ReceivedBlocks %v DiscardedBlocks %v, model predicts %v %v %v", b2g, rcvd, disc, p.B2g, p.Rcvd, p.Disc)}
	}
	wantCache := map[uint32][]int{}
	for _, b := range p.Cache {
		h := uint32(c.w.HeightOf(b))
		wantCache[h] = append(wantCache[h], b)
	}
	gotCache := map[uint32][]int{}
	for h, l := range network.CachedBlocksIdx {
		for _, r := range l {
			id, _ := c.w.BlkID[r.BlockTreeNode.BlockHash.Hash]
			gotCache[h] = append(gotCache[h], id)
		}
	}
	if fmt.Sprint(wantCache) != fmt.Sprint(gotCache) {
		return &fail{"client", fmt.Sprintf("CachedBlocksIdx %v, model predicts %v", gotCache, wantCache)}
	}
	if c.retryCachedBlocks != p.Retry || int(c.highestAcceptedBlock) != p.HiAcc {
		return &fail{"client", fmt.Sprintf("retryCachedBlocks=%v highestAcceptedBlock=%d, model predicts %v %d", c.retryCachedBlocks, c.highestAcceptedBlock, p.Retry, p.HiAcc)}
	}
	return nil
}

// panicClass maps a recovered panic of the real code to the model's finding names.
func panicClass(msg string) string {
	switch {
	case strings.Contains(msg, "CachedBlocksDel called on block"):
		return "cachedel"
	case strings.Contains(msg, "unknown path to block"), strings.Contains(msg, "end block is not higher"),
		strings.Contains(msg, "reached the starting node height"), strings.Contains(msg, "Db.BlockGet()"),
		strings.Contains(msg, "Child not found"):
		return "panic"
	}
	return ""
}

// ------------------------------------------------------------------ worker: one behaviour at a time

var curStep int // step being executed (read by the recover handler)

func replayOne(w *conc.World, dir string, ln *Line, progress func(step int)) (res Result) {
	var c *client
	var steps []Step
	chk := map[int]bool{}
	if ln.Last != nil {
		steps = append(append(steps, ln.Path...), *ln.Last)
		chk[len(steps)-1] = true
	} else {
		steps = ln.Steps
		for i := range steps {
			chk[i] = true
		}
	}
	defer func() {
		if c != nil {
			res.Gap = c.gap
		}
		if r := recover(); r != nil {
			msg := fmt.Sprint(r)
			cls := panicClass(msg)
			if curStep >= len(steps) {
				res.Kind, res.What = "panic", "panic outside the steps: "+msg+"\n"+string(debug.Stack())
				return
			}
			st := steps[curStep]
			res.Step, res.B, res.Steps = curStep, st.B, curStep+1
			if st.P != nil && st.P.Kf != "" && st.P.Kf == cls && chk[curStep] {
				res.Kind, res.Kf, res.What = "finding", cls, "panic: "+msg
			} else if steps[len(steps)-1].P == nil { // a probe: report what happened
				res.Obs = &Observed{Crash: "panic: " + msg}
			} else {
				res.Kind, res.What = "panic", "panic: "+msg+"\n"+string(debug.Stack())
			}
		}
		// no Close after a failure: the library's locks may still be held; the node is abandoned like a crashed process
		if res.Kind == "" && res.Obs == nil && c != nil {
			c.n.Close()
		} else if res.Obs != nil && res.Obs.Crash == "" && c != nil {
			c.n.Close()
		}
		os.RemoveAll(dir)
	}()
	if err := w.CloneBase(dir); err != nil {
		return Result{Kind: "infra", What: err.Error()}
	}
	n := w.OpenNode(dir, &chain.NewChanOpts{})
	c = newClient(w, n)
	for i, st := range steps {
		curStep = i
		progress(i)
		var acc bool
		switch st.A {
		case "AcceptHeader":
			acc = c.header(w.Block(st.B))
		case "DeliverData", "DeliverBlock":
			acc = c.netBlockReceived(w.Block(st.B))
		case "RetryStep":
			if !c.retryCachedBlocks {
				return Result{Kind: "client", Step: i, What: "RetryStep exported while retryCachedBlocks is false"}
			}
			c.retryCachedBlocks = c.retry_cached_blocks()
			acc = true
		default:
			return Result{Kind: "infra", What: "unknown action " + st.A}
		}
		res.Steps = i + 1
		if !chk[i] || st.P == nil {
			continue
		}
		p := st.P
		if p.Kf != "" && p.Kf != "stranded" && p.Kf != "cachedrop" {
			return Result{Kind: "nofail", Step: i, B: st.B, Kf: p.Kf, Steps: i + 1,
				What: fmt.Sprintf("the model of the code predicts failure %q at this step; the code went on", p.Kf)}
		}
		if acc != p.Acc {
			return Result{Kind: "verdict", Step: i, B: st.B, Steps: i + 1, What: fmt.Sprintf("%s(%d) taken=%v, model predicts %v (violates %v)", st.A, st.B, acc, p.Acc, p.Viol)}
		}
		if f := c.check(p); f != nil {
			return Result{Kind: f.kind, What: f.what, Step: i, B: st.B, Steps: i + 1}
		}
		if p.Kf != "" { // the real code did exactly what the model of the code predicts, and that breaks the property
			what := fmt.Sprintf("tip %d after %s(%d): a complete valid branch with more work is held", p.Tip, st.A, st.B)
			if p.Kf == "cachedrop" {
				what = fmt.Sprintf("%s(%d): another block's data was dropped from CachedBlocks (cache now %v)", st.A, st.B, p.Cache)
			}
			return Result{Kind: "finding", Kf: p.Kf, Step: i, B: st.B, Steps: i + 1, What: what}
		}
	}
	if len(steps) > 0 && steps[len(steps)-1].P == nil { // a probe: report what happened
		tip, _ := c.n.Tip()
		hdrs, hasdata := c.indexState()
		res.Obs = &Observed{Tip: tip, Hdrs: hdrs, HasData: hasdata}
	}
	return
}

func loadScenario(path string) conc.Scenario {
	var sc conc.Scenario
	b, err := os.ReadFile(path)
	if err == nil {
		err = json.Unmarshal(b, &sc)
	}
	if err != nil {
		fmt.Fprintln(os.Stderr, "scenario:", err)
		os.Exit(2)
	}
	return sc
}

// worker: lines on stdin ("<n> <json>"), one result per line on fd 3. stdout / stderr belong to the library.
func cmdWorker(args []string) {
	fs := flag.NewFlagSet("worker", flag.ExitOnError)
	scen := fs.String("scenario", "", "")
	dir := fs.String("dir", "", "")
	base := fs.String("base", "", "")
	gt := fs.Uint("genesis", 0, "")
	id := fs.Int("id", 0, "")
	fs.Parse(args)
	debug.SetMaxStack(24 << 20) // unbounded recursion must end quickly
	utxo.UTXO_WRITING_TIME_TARGET = 0
	w, err := conc.NewWorldExt(loadScenario(*scen), *base, conc.WorldOpts{GenesisTime: uint32(*gt), ReuseBase: true})
	if err != nil {
		fmt.Fprintln(os.Stderr, "world:", err)
		os.Exit(2)
	}
	out := bufio.NewWriter(os.NewFile(3, "results"))
	in := bufio.NewReaderSize(os.Stdin, 1<<20)
	for {
		line, err := in.ReadBytes('\n')
		if len(line) > 1 {
			sp := bytes.IndexByte(line, ' ')
			var n int
			fmt.Sscan(string(line[:sp]), &n)
			var ln Line
			var res Result
			if e := json.Unmarshal(line[sp+1:], &ln); e != nil {
				res = Result{Kind: "infra", What: "unparsable line: " + e.Error()}
			} else {
				res = replayOne(w, filepath.Join(*dir, fmt.Sprintf("n%d", *id)), &ln, func(step int) {
					fmt.Fprintf(out, "s %d\n", step)
					out.Flush()
				})
			}
			res.N = n
			b, _ := json.Marshal(res)
			out.Write(b)
			out.WriteByte('\n')
			out.Flush()
		}
		if err != nil {
			return
		}
	}
}

// ------------------------------------------------------------------ replay: pool of worker processes

type proc struct {
	cmd *exec.Cmd
	in  io.WriteCloser
	out *bufio.Reader
	log string
}

func startProc(self string, id int, scen, dir, base string, gt uint32) (*proc, error) {
	p := &proc{log: filepath.Join(dir, fmt.Sprintf("w%d.log", id))}
	lf, err := os.OpenFile(p.log, os.O_CREATE|os.O_TRUNC|os.O_WRONLY, 0600)
	if err != nil {
		return nil, err
	}
	r, w, err := os.Pipe()
	if err != nil {
		return nil, err
	}
	p.cmd = exec.Command(self, "worker", "-scenario", scen, "-dir", dir, "-base", base, "-genesis", fmt.Sprint(gt), "-id", fmt.Sprint(id))
	p.cmd.Stdout, p.cmd.Stderr = lf, lf
	p.cmd.ExtraFiles = []*os.File{w}
	p.in, _ = p.cmd.StdinPipe()
	if err := p.cmd.Start(); err != nil {
		return nil, err
	}
	w.Close()
	lf.Close()
	p.out = bufio.NewReaderSize(r, 1<<20)
	return p, nil
}

func logTail(path string, n int64) string {
	f, err := os.Open(path)
	if err != nil {
		return ""
	}
	defer f.Close()
	st, _ := f.Stat()
	// the head of the log of a dying Go process names the reason ("fatal error: stack overflow" comes after the
	// library's own output, before megabytes of frames): look for it in the whole file, cheaply
	buf := make([]byte, 1<<16)
	reason := ""
	var off int64
	for off < st.Size() && reason == "" {
		m, _ := f.ReadAt(buf, off)
		if m == 0 {
			break
		}
		if i := bytes.Index(buf[:m], []byte("fatal error: ")); i >= 0 {
			line := make([]byte, 200)
			k, _ := f.ReadAt(line, off+int64(i))
			line = line[:k]
			if e := bytes.IndexByte(line, '\n'); e >= 0 {
				line = line[:e]
			}
			reason = string(line)
		}
		off += int64(m) - 64
	}
	if reason != "" {
		return reason
	}
	if st.Size() > n {
		f.Seek(st.Size()-n, 0)
	}
	b, _ := io.ReadAll(f)
	return string(b)
}

func cmdReplay(args []string) {
	fs := flag.NewFlagSet("replay", flag.ExitOnError)
	scen := fs.String("scenario", "", "")
	in := fs.String("in", "", "")
	dir := fs.String("dir", os.TempDir(), "")
	procs := fs.Int("procs", 8, "")
	maxFail := fs.Int("maxfail", 60, "")
	fs.Parse(args)
	self, _ := os.Executable()
	utxo.UTXO_WRITING_TIME_TARGET = 0
	gt := uint32(time.Now().Unix()) - 5*24*3600
	if _, err := conc.NewWorldExt(loadScenario(*scen), *dir, conc.WorldOpts{GenesisTime: gt}); err != nil { // builds <dir>/base
		fmt.Fprintln(os.Stderr, "world:", err)
		os.Exit(2)
	}
	data, err := os.ReadFile(*in)
	if err != nil {
		fmt.Fprintln(os.Stderr, "read:", err)
		os.Exit(2)
	}
	var lines [][]byte
	for _, l := range bytes.Split(data, []byte("\n")) {
		if len(l) > 1 {
			lines = append(lines, l)
		}
	}
	jobs := make(chan int, len(lines))
	for i := range lines {
		jobs <- i
	}
	close(jobs)
	var mu sync.Mutex
	stdout := bufio.NewWriterSize(os.Stdout, 1<<20)
	counts := map[string]int{}
	seen := map[string]int{}
	nSteps, nGap, nRespawn := 0, 0, 0
	put := func(r Result) {
		mu.Lock()
		defer mu.Unlock()
		nSteps += r.Steps
		if r.Gap {
			nGap++
		}
		k := r.Kind
		if k == "" {
			k = "ok"
		}
		if k == "finding" {
			k = "finding:" + r.Kf
		}
		counts[k]++
		if r.Kind == "" && r.Obs == nil {
			return
		}
		key := fmt.Sprint(r.Kind, r.Kf, r.B)
		seen[key]++
		if r.Obs == nil && (seen[key] > 2 || len(seen) > *maxFail) {
			return
		}
		r.Line = json.RawMessage(lines[r.N])
		b, _ := json.Marshal(r)
		stdout.Write(b)
		stdout.WriteByte('\n')
	}
	var wg sync.WaitGroup
	for id := 0; id < *procs; id++ {
		wg.Add(1)
		go func(id int) {
			defer wg.Done()
			var p *proc
			defer func() {
				if p != nil {
					p.in.Close()
					p.cmd.Wait()
				}
			}()
			for n := range jobs {
				if p == nil {
					var err error
					if p, err = startProc(self, id, *scen, *dir, *dir, gt); err != nil {
						put(Result{N: n, Kind: "infra", What: "cannot start worker: " + err.Error()})
						continue
					}
				}
				fmt.Fprintf(p.in, "%d %s\n", n, lines[n])
				atStep := -1
				var rl []byte
				var err error
				for {
					rl, err = p.out.ReadBytes('\n')
					if err != nil || len(rl) == 0 || rl[0] != 's' {
						break
					}
					fmt.Sscan(string(rl[2:]), &atStep)
				}
				if err == nil {
					var r Result
					if e := json.Unmarshal(rl, &r); e != nil {
						r = Result{N: n, Kind: "infra", What: "unparsable result: " + e.Error()}
					}
					put(r)
					continue
				}
				// the worker died while replaying line n
				p.in.Close()
				p.cmd.Wait()
				tail := logTail(p.log, 3000)
				p = nil
				mu.Lock()
				nRespawn++
				mu.Unlock()
				var ln Line
				json.Unmarshal(lines[n], &ln)
				var lastp *Pred
				lastb := 0
				all := ln.Steps
				if ln.Last != nil {
					all = append(append([]Step{}, ln.Path...), *ln.Last)
				}
				if atStep >= 0 && atStep < len(all) {
					lastb = all[atStep].B
					if atStep == len(all)-1 || ln.Last == nil {
						lastp = all[atStep].P
					} else {
						lastp = &Pred{} // died on the way to the tested transition: nothing predicts that
					}
				}
				cls := "died"
				if strings.Contains(tail, "stack overflow") {
					cls = "livelock"
				}
				switch {
				case lastp == nil:
					put(Result{N: n, Step: atStep, Obs: &Observed{Crash: cls + ": " + tail}})
				case lastp.Kf == cls:
					put(Result{N: n, Kind: "finding", Kf: cls, Step: atStep, Steps: atStep + 1, B: lastb, What: "the process died: " + tail})
				default:
					put(Result{N: n, Kind: "died", Step: atStep, B: lastb, What: "the process died (" + cls + "): " + tail})
				}
			}
		}(id)
	}
	wg.Wait()
	b, _ := json.Marshal(map[string]interface{}{"summary": true, "lines": len(lines), "steps": nSteps, "counts": counts,
		"retry_gap_lines": nGap, "workers_respawned": nRespawn})
	stdout.Write(b)
	stdout.WriteByte('\n')
	stdout.Flush()
}

// probe: two fixed histories on a fixed scenario (A1-A2 valid; B1 valid, B2 spends what B1 spent, B3 and B3' on top
// of B2), without predictions: reports what the code under test does. checks/c06_headers.py uses it to select the
// variant of the model (code as it is / repaired).
//
//	farthest: block A1, header A2, block B1, block B2            (B2 fails; the farthest node is the header A2)
//	detached: blocks A1 A2 B1 B2, headers B3 B3', data B3, data B3'  (B3 fails at B2, which deletes B3'; then B3' data)
func cmdProbe(args []string) {
	fs := flag.NewFlagSet("probe", flag.ExitOnError)
	dir := fs.String("dir", os.TempDir(), "")
	fs.Parse(args)
	amt := func(u, e int64) conc.Amt { return conc.Amt{U: u, E: e} }
	cb := func(u, e int64) []conc.OutDef { return []conc.OutDef{{Amt: amt(u, e), Addr: 9, St: conc.StP2SH}} }
	spend := func(base, addr int) conc.TxDef {
		return conc.TxDef{Ins: []conc.InDef{{Tx: base, Vout: 1, Ok: true}}, Outs: []conc.OutDef{{Amt: amt(49, 99900000), Addr: addr, St: conc.StP2SH}}, Ver: 2}
	}
	sc := conc.Scenario{BaseH: 120,
		Tx: conc.IntMap[conc.TxDef]{501: spend(1, 1), 502: spend(2, 2), 503: spend(2, 3)},
		Blk: conc.IntMap[conc.BlkDef]{
			1: {Parent: 0, Txs: []int{501}, Cbouts: cb(50, 100000)},
			2: {Parent: 1, Txs: []int{}, Cbouts: cb(50, 0)},
			4: {Parent: 0, Txs: []int{502}, Cbouts: cb(50, 100000)},
			5: {Parent: 4, Txs: []int{503}, Cbouts: cb(50, 100000)},
			6: {Parent: 5, Txs: []int{}, Cbouts: cb(50, 0)},
			7: {Parent: 5, Txs: []int{}, Cbouts: cb(49, 0)},
		}}
	type st struct {
		A string `json:"a"`
		B int    `json:"b"`
	}
	hist := [][]st{
		{{"DeliverBlock", 1}, {"AcceptHeader", 2}, {"DeliverBlock", 4}, {"DeliverBlock", 5}},
		{{"DeliverBlock", 1}, {"DeliverBlock", 2}, {"DeliverBlock", 4}, {"DeliverBlock", 5}, {"AcceptHeader", 6}, {"AcceptHeader", 7}, {"DeliverData", 6}, {"DeliverData", 7}},
	}
	// (IntMap has no MarshalJSON of its own: keys become decimal strings, which its UnmarshalJSON reads back)
	scb, _ := json.Marshal(map[string]interface{}{"blk": map[int]conc.BlkDef(sc.Blk), "tx": map[int]conc.TxDef(sc.Tx), "baseh": sc.BaseH})
	var lb bytes.Buffer
	for _, h := range hist {
		b, _ := json.Marshal(map[string]interface{}{"steps": h})
		lb.Write(b)
		lb.WriteByte('\n')
	}
	os.MkdirAll(*dir, 0770)
	sp, lp := filepath.Join(*dir, "probe-scen.json"), filepath.Join(*dir, "probe-lines.json")
	os.WriteFile(sp, scb, 0600)
	os.WriteFile(lp, lb.Bytes(), 0600)
	cmdReplay([]string{"-scenario", sp, "-in", lp, "-dir", *dir, "-procs", "2"})
}

func main() {
	if len(os.Args) >= 2 && os.Args[1] == "probe" {
		cmdProbe(os.Args[2:])
		return
	}
	if len(os.Args) >= 2 && os.Args[1] == "worker" {
		cmdWorker(os.Args[2:])
		return
	}
	if len(os.Args) >= 2 && os.Args[1] == "replay" {
		cmdReplay(os.Args[2:])
		return
	}
	fmt.Fprintln(os.Stderr, "usage: headersync replay -scenario <json> -in <lines> -dir <scratch> -procs N")
	os.Exit(2)
}
