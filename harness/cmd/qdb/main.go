// qdb: conformance driver binding spec/Qdb.tla to lib/others/qdb.
//
//	qdb replay -in <lines> -opts <json> -workers N -dir <scratch>
//	    every line is a TLC-exported behaviour {"path":[..],"last":{..}} or {"steps":[..]} of API calls;
//	    it is replayed on a fresh qdb.DB (in worker subprocesses, because the store calls os.Exit /
//	    panics in goroutines when it breaks) and the model's predictions are compared.
//	qdb record -out <ndjson> -opts <json> -seed S -traces K -ops N -dir <scratch>
//	    seeded random histories on the real store; one event per specification step: API calls and,
//	    through verif.Sink, every hook between the file operations (the order of file effects).
//	qdb crash -out <ndjson> -opts <json> -workload <json> -dir <scratch> [-max N] [-seed S]
//	    fault enumeration: a workload is a list of phases (one process each, every phase starts with Open).
//	    Baseline run, then for every (phase, hook, n) reached: the same run with VERIF_CRASH_AT=<hook>#<n>
//	    in that phase (SIGKILL), later phases in fresh processes; all events of all runs go to <ndjson>
//	    (runs separated by Reset) for validation by TraceQdb.
//	qdb phase ...   (internal) one phase of a workload / one recorded trace in its own process
package main

import (
	"bufio"
	"bytes"
	"encoding/json"
	"flag"
	"fmt"
	"io"
	"math/rand"
	"os"
	"os/exec"
	"path/filepath"
	"regexp"
	"runtime/debug"
	"sort"
	"strings"
	"sync"
	"syscall"

	"github.com/piotrnar/gocoin/lib/others/qdb"
	"github.com/piotrnar/gocoin/lib/others/verif"

	"verifharness/vio"
)

const NA = -9

type Opts struct {
	Keys             []int          `json:"keys"`
	VLen             map[string]int `json:"vlen"` // value id -> bytes
	MaxPending       uint32         `json:"maxpending"`
	MaxPendingNoSync uint32         `json:"maxpendingnosync"`
	DefragPerc       uint32         `json:"defragperc"`
	ForcedPerc       uint32         `json:"forcedperc"`
	Salt             int64          `json:"salt"`
}

type Step struct {
	A     string   `json:"a"`
	K     int      `json:"k"`
	V     int      `json:"v"`
	Fl    int      `json:"fl"`
	F     string   `json:"f"`
	B1    bool     `json:"b1"` // Open: Volatile; Defrag: force
	B2    bool     `json:"b2"` // Open: LoadData
	Abort int      `json:"abort"`
	Get   int      `json:"get"`
	Br    [][2]int `json:"br"`
	Doing bool     `json:"doing"`
	Cnt   int      `json:"cnt"`
	Cont  []int    `json:"cont"`
	Dat   [][2]int `json:"dat"` // hooks: data files present [seq, size]
	Idx   [][2]int `json:"idx"` // hooks: qdbidx.0 / qdbidx.1 [0 none | 1 without FINI | 2 complete, size]
	Log   []int    `json:"log"` // hooks: qdbidx.log [exists, size]
	chk   bool
}

type Line struct {
	Path  []Step `json:"path"`
	Last  *Step  `json:"last"`
	Steps []Step `json:"steps"`
}

// ---------------------------------------------------------------- concretisation

type world struct {
	o     Opts
	keys  map[int]qdb.KeyType
	kid   map[qdb.KeyType]int
	vals  map[int][]byte
	vid   map[string]int
	vlist []int
}

func newWorld(o Opts) *world {
	w := &world{o: o, keys: map[int]qdb.KeyType{}, kid: map[qdb.KeyType]int{}, vals: map[int][]byte{}, vid: map[string]int{}}
	for _, k := range o.Keys {
		r := rand.New(rand.NewSource(o.Salt*7919 + int64(k)*104729 + 17))
		// low 32 bits large and distinct: the first four bytes of a log entry never look like a small sequence number
		key := qdb.KeyType(r.Uint64()&0xffffffff00000000 | 0x80000000 | uint64(r.Uint32()&0x7fffff00) | uint64(k&0xff))
		w.keys[k] = key
		w.kid[key] = k
	}
	for s, n := range o.VLen {
		var id int
		fmt.Sscanf(s, "%d", &id)
		r := rand.New(rand.NewSource(o.Salt*15485863 + int64(id)*32452843 + 5))
		b := make([]byte, n)
		r.Read(b)
		if n > 0 {
			b[0] = byte(id)
		}
		if n > 1 {
			b[n-1] = byte(id) ^ 0x5a
		}
		w.vals[id] = b
		if _, dup := w.vid[string(b)]; dup {
			fmt.Fprintln(os.Stderr, "two value ids with the same bytes")
			os.Exit(2)
		}
		w.vid[string(b)] = id
		w.vlist = append(w.vlist, id)
	}
	sort.Ints(w.vlist)
	return w
}

// bytes -> value id; 0 = nil, -1 = bytes that were never written
func (w *world) idOf(b []byte) int {
	if b == nil {
		return 0
	}
	if id, ok := w.vid[string(b)]; ok {
		return id
	}
	return -1
}

func flagBits(f string) uint32 {
	switch f {
	case "NB":
		return qdb.NO_BROWSE
	case "YB":
		return qdb.YES_BROWSE
	case "NC":
		return qdb.NO_CACHE
	case "YC":
		return qdb.YES_CACHE
	}
	return 0
}

// ---------------------------------------------------------------- the system under test

type sut struct {
	w    *world
	dir  string
	db   *qdb.DB
	cont map[int]int // filled by the walk function of the last Open(LoadData)
	mu   sync.Mutex
}

func (s *sut) wait() {
	if s.db != nil {
		s.db.Mutex.Lock() // "go sync()" holds the mutex until it is done
		s.db.Mutex.Unlock()
	}
}

func (s *sut) contSeq() []int {
	res := []int{}
	for _, k := range s.w.o.Keys {
		res = append(res, s.cont[k])
	}
	return res
}

// do performs one API call; the observation is written into obs
func (s *sut) do(st *Step, obs *Step) (err string) {
	defer func() {
		if r := recover(); r != nil {
			// keep the frames: they say where in the store it broke
			err = fmt.Sprint("panic: ", r, " | ", headStr(strings.Replace(string(debug.Stack()), "\n", " | ", -1), 3000))
			s.db = nil // the store panicked with its mutex held: the object cannot be used (or closed) any more
		}
	}()
	*obs = Step{A: st.A, K: st.K, V: st.V, Fl: st.Fl, F: st.F, B1: st.B1, B2: st.B2, Abort: st.Abort, Get: NA, Cnt: NA, Br: [][2]int{}, Cont: []int{}}
	if s.db == nil && st.A != "Open" {
		return "call on a closed store: " + st.A
	}
	key := s.w.keys[st.K]
	switch st.A {
	case "Open":
		o := s.w.o
		s.mu.Lock()
		s.cont = map[int]int{}
		s.mu.Unlock()
		var walk qdb.QdbWalkFunction
		if st.B2 {
			walk = func(k qdb.KeyType, v []byte) uint32 {
				s.mu.Lock()
				if id, ok := s.w.kid[k]; ok {
					s.cont[id] = s.w.idOf(append([]byte{}, v...))
				} else {
					s.cont[-1] = -1
				}
				s.mu.Unlock()
				return 0
			}
		}
		qdb.NewDBExt(&s.db, &qdb.NewDBOpts{Dir: s.dir, LoadData: st.B2, Volatile: st.B1, WalkFunction: walk,
			ExtraOpts: &qdb.ExtraOpts{DefragPercentVal: o.DefragPerc, ForcedDefragPerc: o.ForcedPerc,
				MaxPending: o.MaxPending, MaxPendingNoSync: o.MaxPendingNoSync}})
		if st.B2 {
			obs.Cont = s.contSeq()
			if _, bad := s.cont[-1]; bad {
				return "the store holds a key that was never written"
			}
		}
	case "Put":
		val := append([]byte{}, s.w.vals[st.V]...)
		if s.w.vals[st.V] == nil {
			return fmt.Sprint("unknown value id ", st.V)
		}
		if st.Fl == 0 && st.V%2 == 0 {
			s.db.Put(key, val)
		} else {
			var fl uint32
			if st.Fl&1 != 0 {
				fl |= qdb.NO_BROWSE
			}
			if st.Fl&2 != 0 {
				fl |= qdb.NO_CACHE
			}
			s.db.PutExt(key, val, fl)
		}
		s.wait()
	case "Del":
		s.db.Del(key)
		s.wait()
	case "Get":
		obs.Get = s.w.idOf(s.db.Get(key))
	case "Browse", "BrowseAll":
		n := 0
		walk := func(k qdb.KeyType, v []byte) uint32 {
			id, ok := s.w.kid[k]
			if !ok {
				id = -1
			}
			obs.Br = append(obs.Br, [2]int{id, s.w.idOf(append([]byte{}, v...))})
			n++
			var res uint32
			if id == st.K {
				res = flagBits(st.F)
			}
			if st.Abort != 0 && n >= st.Abort {
				res |= qdb.BR_ABORT
			}
			return res
		}
		if st.A == "Browse" {
			s.db.Browse(walk)
		} else {
			s.db.BrowseAll(walk)
		}
		sort.Slice(obs.Br, func(i, j int) bool { return obs.Br[i][0] < obs.Br[j][0] })
	case "ApplyFlags":
		s.db.ApplyFlags(key, flagBits(st.F))
	case "Defrag":
		obs.Doing = s.db.Defrag(st.B1)
		s.wait()
	case "Sync":
		s.db.Sync()
		s.wait()
	case "NoSync":
		s.db.NoSync()
	case "Count":
		obs.Cnt = s.db.Count()
	case "Close":
		s.db.Close()
		s.db = nil
	default:
		return "unknown action " + st.A
	}
	if s.db != nil && st.A != "Count" {
		obs.Cnt = s.db.Count()
	}
	return ""
}

func samePairs(a, b [][2]int) bool {
	if len(a) != len(b) {
		return false
	}
	x := append([][2]int{}, a...)
	y := append([][2]int{}, b...)
	sort.Slice(x, func(i, j int) bool { return x[i][0] < x[j][0] })
	sort.Slice(y, func(i, j int) bool { return y[i][0] < y[j][0] })
	for i := range x {
		if x[i] != y[i] {
			return false
		}
	}
	return true
}

// compare the model's prediction (st) with the observation
func check(st, obs *Step) string {
	switch st.A {
	case "Get":
		if obs.Get != st.Get {
			return fmt.Sprintf("Get(key %d) = value %d, model predicts %d", st.K, obs.Get, st.Get)
		}
	case "Browse", "BrowseAll":
		if !samePairs(obs.Br, st.Br) {
			return fmt.Sprintf("%s visited %v, model predicts %v", st.A, obs.Br, st.Br)
		}
	case "Defrag":
		if obs.Doing != st.Doing {
			return fmt.Sprintf("Defrag(%v) = %v, model predicts %v", st.B1, obs.Doing, st.Doing)
		}
	case "Open":
		if st.B2 {
			if len(obs.Cont) != len(st.Cont) {
				return fmt.Sprintf("contents after open %v, model predicts %v", obs.Cont, st.Cont)
			}
			for i := range obs.Cont {
				if obs.Cont[i] != st.Cont[i] {
					return fmt.Sprintf("contents after open %v, model predicts %v", obs.Cont, st.Cont)
				}
			}
		}
	}
	if st.Cnt != NA && obs.Cnt != st.Cnt {
		return fmt.Sprintf("Count() after %s = %d, model predicts %d", st.A, obs.Cnt, st.Cnt)
	}
	return ""
}

// ---------------------------------------------------------------- replay (G->R)

type result struct {
	N    int         `json:"n"`
	OK   bool        `json:"ok"`
	Step int         `json:"step"`
	What string      `json:"what,omitempty"`
	Line interface{} `json:"line,omitempty"`
}

func replayOne(w *world, dir string, ln *Line, progress func(int)) (int, string) {
	os.RemoveAll(dir)
	s := &sut{w: w, dir: dir}
	defer func() {
		if s.db != nil {
			func() { defer func() { recover() }(); s.db.Close() }()
		}
		os.RemoveAll(dir)
	}()
	var steps []Step
	if ln.Last != nil {
		steps = append(steps, ln.Path...)
		l := *ln.Last
		l.chk = true
		steps = append(steps, l)
	} else {
		for _, st := range ln.Steps {
			st.chk = true
			steps = append(steps, st)
		}
	}
	for i := range steps {
		progress(i)
		var obs Step
		if err := s.do(&steps[i], &obs); err != "" {
			return i, err
		}
		if steps[i].chk {
			if d := check(&steps[i], &obs); d != "" {
				return i, d
			}
		}
	}
	return -1, ""
}

// worker: lines on stdin, one result per line on stdout; "@<step>" progress marks let the parent say where it died
func cmdWorker(args []string) {
	fs := flag.NewFlagSet("worker", flag.ExitOnError)
	optsJ := fs.String("opts", "{}", "")
	dir := fs.String("dir", "", "")
	fs.Parse(args)
	var o Opts
	json.Unmarshal([]byte(*optsJ), &o)
	w := newWorld(o)
	in := bufio.NewReaderSize(os.Stdin, 1<<20)
	for {
		raw, err := in.ReadBytes('\n')
		if len(raw) > 1 {
			var ln Line
			if e := json.Unmarshal(raw, &ln); e != nil {
				fmt.Printf("{\"ok\":false,\"step\":-1,\"what\":%q}\n", "unparsable line: "+e.Error())
			} else {
				step, what := replayOne(w, *dir, &ln, func(i int) { fmt.Printf("@%d\n", i) })
				b, _ := json.Marshal(result{OK: what == "", Step: step, What: what})
				fmt.Printf("%s\n", b)
			}
		}
		if err != nil {
			return
		}
	}
}

type workerProc struct {
	cmd    *exec.Cmd
	in     io.WriteCloser
	out    *bufio.Reader
	stderr *bytes.Buffer
}

func startWorker(optsJ, dir string) *workerProc {
	c := exec.Command(os.Args[0], "worker", "-opts", optsJ, "-dir", dir)
	in, _ := c.StdinPipe()
	out, _ := c.StdoutPipe()
	eb := &bytes.Buffer{}
	c.Stderr = eb
	if err := c.Start(); err != nil {
		fmt.Fprintln(os.Stderr, "cannot start worker:", err)
		os.Exit(2)
	}
	return &workerProc{cmd: c, in: in, out: bufio.NewReaderSize(out, 1<<20), stderr: eb}
}

func tailStr(s string, n int) string {
	if len(s) > n {
		return s[len(s)-n:]
	}
	return s
}

func cmdReplay(args []string) {
	fs := flag.NewFlagSet("replay", flag.ExitOnError)
	in := fs.String("in", "-", "")
	optsJ := fs.String("opts", "{}", "")
	workers := fs.Int("workers", 8, "")
	dir := fs.String("dir", os.TempDir(), "")
	maxFail := fs.Int("maxfail", 20, "")
	fs.Parse(args)
	var o Opts
	if err := json.Unmarshal([]byte(*optsJ), &o); err != nil {
		fmt.Fprintln(os.Stderr, "bad opts:", err)
		os.Exit(2)
	}
	os.MkdirAll(*dir, 0770)
	out := vio.NewOut()
	jobs := make(chan []byte, 1024)
	var mu sync.Mutex
	var nLines, nSteps, nFail, nDied int64
	shapes := map[string]int{} // failures are reported up to maxfail per distinct shape, so a frequent one cannot hide another
	var wg sync.WaitGroup
	for wk := 0; wk < *workers; wk++ {
		wg.Add(1)
		go func(wk int) {
			defer wg.Done()
			wdir := filepath.Join(*dir, fmt.Sprintf("qdb-%d", wk))
			var p *workerProc
			for raw := range jobs {
				if p == nil {
					p = startWorker(*optsJ, wdir)
				}
				var ln Line
				json.Unmarshal(raw, &ln)
				mu.Lock()
				n := nLines
				nLines++
				nSteps += int64(len(ln.Path) + len(ln.Steps))
				if ln.Last != nil {
					nSteps++
				}
				mu.Unlock()
				p.in.Write(raw)
				step := -1
				var res *result
				for {
					l, err := p.out.ReadBytes('\n')
					if len(l) > 1 && l[0] == '@' {
						fmt.Sscanf(string(l[1:]), "%d", &step)
					} else if len(l) > 1 {
						var r result
						if json.Unmarshal(l, &r) == nil {
							res = &r
							break
						}
					}
					if err != nil {
						break
					}
				}
				if res == nil { // the worker died: os.Exit / panic inside the store
					p.in.Close()
					werr := p.cmd.Wait()
					res = &result{OK: false, Step: step, What: fmt.Sprintf("the store killed the process (%v): %s", werr, strings.TrimSpace(headStr(firstLines(deathText(p.stderr.String()), 16), 1500)))}
					p = nil
					mu.Lock()
					nDied++
					mu.Unlock()
				}
				if !res.OK {
					mu.Lock()
					nFail++
					shape := headStr(shapeRe.ReplaceAllString(res.What, "N"), 70)
					shapes[shape]++
					show := shapes[shape] <= *maxFail && len(shapes) <= 200
					mu.Unlock()
					if show {
						res.N = int(n)
						res.Line = json.RawMessage(bytes.TrimSpace(raw))
						out.Put(res)
					}
				}
			}
			if p != nil {
				p.in.Close()
				p.cmd.Wait()
			}
			os.RemoveAll(wdir)
		}(wk)
	}
	err := vio.ReadLines(*in, func(n int, line []byte) error {
		l := append([]byte(nil), line...)
		if l[len(l)-1] != '\n' {
			l = append(l, '\n')
		}
		jobs <- l
		return nil
	})
	close(jobs)
	wg.Wait()
	if err != nil {
		fmt.Fprintln(os.Stderr, "read:", err)
		os.Exit(2)
	}
	out.Put(map[string]interface{}{"summary": true, "lines": nLines, "steps": nSteps, "fail": nFail, "died": nDied})
	out.Flush()
}

func headStr(s string, n int) string {
	if len(s) > n {
		return s[:n]
	}
	return s
}

// deathText: the part of a dead process's stderr that says why it died (the panic with its frames, else the last lines)
func deathText(s string) string {
	if i := strings.Index(s, "panic:"); i >= 0 {
		return s[i:]
	}
	if i := strings.Index(s, "fatal error:"); i >= 0 {
		return s[i:]
	}
	ls := strings.Split(strings.TrimSpace(s), "\n")
	if len(ls) > 3 {
		ls = ls[len(ls)-3:]
	}
	return strings.Join(ls, "\n")
}

var shapeRe = regexp.MustCompile(`[0-9]+|/[^ ]*/`)

func firstLines(s string, n int) string {
	ls := strings.Split(s, "\n")
	if len(ls) > n {
		ls = ls[:n]
	}
	return strings.Join(ls, " | ")
}

// ---------------------------------------------------------------- event log (R->V, fault enumeration)

type evlog struct {
	mu sync.Mutex
	f  *os.File
	n  int
}

func openLog(path string) *evlog {
	f, err := os.OpenFile(path, os.O_WRONLY|os.O_CREATE|os.O_APPEND, 0660)
	if err != nil {
		fmt.Fprintln(os.Stderr, err)
		os.Exit(2)
	}
	return &evlog{f: f}
}

// one write(2) per event: a SIGKILL right after it leaves the line complete
func (l *evlog) put(ev string, st *Step, tag string) {
	m := map[string]interface{}{"ev": ev, "k": 0, "v": 0, "fl": 0, "f": "", "b1": false, "b2": false, "abort": 0,
		"get": NA, "br": [][2]int{}, "doing": false, "cnt": NA, "cont": []int{}, "tag": tag,
		"dat": [][2]int{}, "idx": [][2]int{}, "log": []int{}}
	if st != nil {
		m["k"], m["v"], m["fl"], m["f"], m["b1"], m["b2"], m["abort"] = st.K, st.V, st.Fl, st.F, st.B1, st.B2, st.Abort
		m["get"], m["doing"], m["cnt"] = st.Get, st.Doing, st.Cnt
		if st.Br != nil {
			m["br"] = st.Br
		}
		if st.Cont != nil {
			m["cont"] = st.Cont
		}
		if st.Idx != nil {
			m["dat"], m["idx"], m["log"] = st.Dat, st.Idx, st.Log
		}
	}
	b, _ := json.Marshal(m)
	l.mu.Lock()
	l.f.Write(append(b, '\n'))
	l.n++
	l.mu.Unlock()
}

// fsState: what the directory holds right now (the projection of the specification's files)
func fsState(dir string, st *Step) {
	st.Dat, st.Idx, st.Log = [][2]int{}, [][2]int{{0, 0}, {0, 0}}, []int{0, 0}
	ents, _ := os.ReadDir(dir)
	for _, e := range ents {
		fi, err := e.Info()
		if err != nil {
			continue
		}
		fn := e.Name()
		switch {
		case len(fn) == 12 && fn[8:] == ".dat":
			var seq int
			fmt.Sscanf(fn[:8], "%x", &seq)
			st.Dat = append(st.Dat, [2]int{seq, int(fi.Size())})
		case fn == "qdbidx.0" || fn == "qdbidx.1":
			i := int(fn[7] - '0')
			st.Idx[i] = [2]int{1, int(fi.Size())}
			if d, _ := os.ReadFile(filepath.Join(dir, fn)); len(d) >= 16 && string(d[len(d)-4:]) == "FINI" {
				st.Idx[i][0] = 2
			}
		case fn == "qdbidx.log":
			st.Log = []int{1, int(fi.Size())}
		default:
			st.Dat = append(st.Dat, [2]int{-1, int(fi.Size())}) // a file the specification does not know
		}
	}
	sort.Slice(st.Dat, func(i, j int) bool { return st.Dat[i][0] < st.Dat[j][0] })
}

// calls whose hooks fire while they run are logged before the call, observations after it
var before = map[string]bool{"Open": true, "Put": true, "Del": true, "Defrag": true, "Sync": true, "Close": true}

// runOps performs the calls on s, writing one event per call and per hook
func runOps(s *sut, lg *evlog, ops []Step) string {
	verif.Sink = func(seq uint64, name string, kv []interface{}) {
		if !strings.HasPrefix(name, "qdb_") {
			return
		}
		st := &Step{Get: NA, Cnt: NA}
		fsState(s.dir, st)
		if name == "qdb_open_end" {
			s.mu.Lock()
			st.Cont = s.contSeq()
			if _, bad := s.cont[-1]; bad {
				st.Cont = append(st.Cont, -1)
			}
			s.mu.Unlock()
		}
		lg.put(name[4:], st, "")
	}
	for i := range ops {
		st := &ops[i]
		if before[st.A] {
			pre := *st
			pre.Get, pre.Cnt = NA, NA
			lg.put(st.A, &pre, "")
		}
		var obs Step
		if e := s.do(st, &obs); e != "" {
			lg.put("Died", nil, e)
			return e
		}
		if !before[st.A] {
			if st.A != "Count" {
				obs.Cnt = NA
			}
			lg.put(st.A, &obs, "")
		} else if s.db != nil {
			lg.put("Count", &Step{Get: NA, Cnt: obs.Cnt}, "")
		}
	}
	return ""
}

// phase: one process of a workload / one recorded trace
func cmdPhase(args []string) {
	fs := flag.NewFlagSet("phase", flag.ExitOnError)
	optsJ := fs.String("opts", "{}", "")
	dir := fs.String("dir", "", "")
	outF := fs.String("out", "", "")
	opsJ := fs.String("ops", "", "JSON list of calls; empty = random history")
	seed := fs.Int64("seed", 1, "")
	nops := fs.Int("n", 40, "")
	fs.Parse(args)
	var o Opts
	json.Unmarshal([]byte(*optsJ), &o)
	w := newWorld(o)
	lg := openLog(*outF)
	s := &sut{w: w, dir: *dir}
	if *opsJ != "" {
		var ops []Step
		if err := json.Unmarshal([]byte(*opsJ), &ops); err != nil {
			fmt.Fprintln(os.Stderr, "bad ops:", err)
			os.Exit(2)
		}
		if e := runOps(s, lg, ops); e != "" {
			os.Exit(3)
		}
		return
	}
	randomHistory(s, lg, rand.New(rand.NewSource(*seed)), *nops)
}

// a seeded random history: every call the property names, Close/Open cycles in both modes, abandoned objects (= Crash)
func randomHistory(s *sut, lg *evlog, rnd *rand.Rand, nops int) {
	w := s.w
	pick := func() int { return w.o.Keys[rnd.Intn(len(w.o.Keys))] }
	flags := []string{"NB", "YB", "NC", "YC"}
	open := false
	for i := 0; i < nops; i++ {
		var st Step
		if !open {
			st = Step{A: "Open", B1: rnd.Intn(4) == 0, B2: rnd.Intn(4) != 0}
		} else {
			switch r := rnd.Intn(100); {
			case r < 30:
				st = Step{A: "Put", K: pick(), V: w.vlist[rnd.Intn(len(w.vlist))]}
				if rnd.Intn(3) == 0 {
					st.Fl = rnd.Intn(4)
				}
			case r < 42:
				st = Step{A: "Del", K: pick()}
			case r < 55:
				st = Step{A: "Get", K: pick()}
			case r < 62:
				st = Step{A: "Browse", K: pick(), F: []string{"", "", "NB", "NC"}[rnd.Intn(4)]}
				if rnd.Intn(4) == 0 {
					st.Abort = 1 + rnd.Intn(2)
				}
			case r < 67:
				st = Step{A: "BrowseAll", K: pick(), F: []string{"", "YB", "YC", "NB", "NC"}[rnd.Intn(5)]}
			case r < 72:
				st = Step{A: "ApplyFlags", K: pick(), F: flags[rnd.Intn(4)]}
			case r < 77:
				st = Step{A: "Count"}
			case r < 82:
				st = Step{A: "Defrag", B1: rnd.Intn(2) == 0}
			case r < 87:
				st = Step{A: "Sync"}
			case r < 90:
				st = Step{A: "NoSync"}
			case r < 97:
				st = Step{A: "Close"}
			default:
				// the object is abandoned without Close: nothing of it is buffered in user space between calls,
				// so this is a process death at an idle moment
				s.db = nil
				open = false
				lg.put("Crash", nil, "")
				continue
			}
		}
		if e := runOps(s, lg, []Step{st}); e != "" {
			os.Exit(3)
		}
		if st.A == "Open" {
			open = true
		} else if st.A == "Close" {
			open = false
		}
	}
}

// runPhase runs one phase process; returns "" | "killed" | "died: ..."
func runPhase(optsJ, dir, out string, extra []string, crashAt string) string {
	c := exec.Command(os.Args[0], append([]string{"phase", "-opts", optsJ, "-dir", dir, "-out", out}, extra...)...)
	c.Env = append(os.Environ(), "VERIF_CRASH_AT="+crashAt)
	eb := &bytes.Buffer{}
	c.Stderr = eb
	c.Stdout = eb
	err := c.Run()
	if err == nil {
		return ""
	}
	if ee, ok := err.(*exec.ExitError); ok {
		if ws, ok := ee.Sys().(syscall.WaitStatus); ok && ws.Signaled() && ws.Signal() == syscall.SIGKILL {
			return "killed"
		}
	}
	return fmt.Sprintf("died: %v: %s", err, headStr(firstLines(deathText(eb.String()), 16), 1500))
}

func cmdRecord(args []string) {
	fs := flag.NewFlagSet("record", flag.ExitOnError)
	outF := fs.String("out", "trace.ndjson", "")
	optsJ := fs.String("opts", "{}", "")
	seed := fs.Int64("seed", 1, "")
	traces := fs.Int("traces", 10, "")
	nops := fs.Int("ops", 40, "")
	dir := fs.String("dir", os.TempDir(), "")
	fs.Parse(args)
	os.Remove(*outF)
	os.MkdirAll(*dir, 0770)
	died := 0
	for t := 0; t < *traces; t++ {
		d := filepath.Join(*dir, "qdbrec")
		os.RemoveAll(d)
		lg := openLog(*outF)
		lg.put("Reset", nil, fmt.Sprintf("trace %d seed %d", t, *seed*1000+int64(t)))
		lg.f.Close()
		r := runPhase(*optsJ, d, *outF, []string{"-seed", fmt.Sprint(*seed*1000 + int64(t)), "-n", fmt.Sprint(*nops)}, "")
		if r != "" {
			died++
			lg = openLog(*outF)
			lg.put("Died", nil, r)
			lg.f.Close()
		}
		os.RemoveAll(d)
	}
	n := 0
	vio.ReadLines(*outF, func(int, []byte) error { n++; return nil })
	fmt.Printf("{\"events\":%d,\"traces\":%d,\"died\":%d}\n", n, *traces, died)
}

// ---------------------------------------------------------------- fault enumeration

type hookRef struct {
	Phase int
	Name  string
	N     int
}

func cmdCrash(args []string) {
	fs := flag.NewFlagSet("crash", flag.ExitOnError)
	outF := fs.String("out", "crash.ndjson", "")
	optsJ := fs.String("opts", "{}", "")
	wlJ := fs.String("workload", "", "JSON: list of phases, each a list of calls")
	dir := fs.String("dir", os.TempDir(), "")
	maxRuns := fs.Int("max", 0, "0 = every crash point")
	seed := fs.Int64("seed", 1, "")
	name := fs.String("name", "w", "")
	fs.Parse(args)
	var phases [][]Step
	if err := json.Unmarshal([]byte(*wlJ), &phases); err != nil {
		fmt.Fprintln(os.Stderr, "bad workload:", err)
		os.Exit(2)
	}
	os.MkdirAll(*dir, 0770)
	d := filepath.Join(*dir, "qdbcrash")
	tmp := filepath.Join(*dir, "qdbcrash.ev")
	appendFile := func(dst, src string) []string {
		b, _ := os.ReadFile(src)
		f, _ := os.OpenFile(dst, os.O_WRONLY|os.O_CREATE|os.O_APPEND, 0660)
		f.Write(b)
		f.Close()
		return strings.Split(strings.TrimSpace(string(b)), "\n")
	}
	put := func(ev, tag string) {
		lg := openLog(*outF)
		lg.put(ev, nil, tag)
		lg.f.Close()
	}
	// run all phases, crashing in phase cp at hook crashAt (cp < 0: baseline). Returns the hooks seen (baseline) and an error.
	runAll := func(cp int, crashAt, tag string) (hooks []hookRef, problem string) {
		os.RemoveAll(d)
		put("Reset", tag)
		for p := range phases {
			os.Remove(tmp)
			ops, _ := json.Marshal(phases[p])
			ca := ""
			if p == cp {
				ca = crashAt
			}
			r := runPhase(*optsJ, d, tmp, []string{"-ops", string(ops)}, ca)
			lines := appendFile(*outF, tmp)
			cnt := map[string]int{}
			for _, l := range lines {
				var e struct {
					Ev string `json:"ev"`
				}
				json.Unmarshal([]byte(l), &e)
				if e.Ev != "" && e.Ev[0] >= 'a' && e.Ev[0] <= 'z' {
					cnt[e.Ev]++
					hooks = append(hooks, hookRef{p, e.Ev, cnt[e.Ev]})
				}
			}
			last := phases[p][len(phases[p])-1].A
			switch {
			case r == "killed" && p == cp:
				put("Crash", "")
			case r == "killed":
				return hooks, "phase killed without a crash point"
			case r != "":
				put("Died", r)
				return hooks, r
			case p == cp:
				return hooks, "crash point " + crashAt + " was not reached"
			case last != "Close":
				put("Crash", "") // the process ended without Close
			}
		}
		return hooks, ""
	}
	hooks, prob := runAll(-1, "", *name+" baseline")
	runs, died, notReached := 1, 0, 0
	if prob != "" {
		died++
	}
	idx := make([]int, len(hooks))
	for i := range idx {
		idx[i] = i
	}
	if *maxRuns > 0 && len(idx) > *maxRuns {
		rnd := rand.New(rand.NewSource(*seed))
		rnd.Shuffle(len(idx), func(i, j int) { idx[i], idx[j] = idx[j], idx[i] })
		idx = idx[:*maxRuns]
		sort.Ints(idx)
	}
	for _, i := range idx {
		h := hooks[i]
		_, prob := runAll(h.Phase, fmt.Sprintf("qdb_%s#%d", h.Name, h.N), fmt.Sprintf("%s phase %d crash at qdb_%s#%d", *name, h.Phase, h.Name, h.N))
		runs++
		if strings.Contains(prob, "not reached") {
			notReached++
		} else if prob != "" {
			died++
		}
	}
	os.RemoveAll(d)
	os.Remove(tmp)
	names := map[string]bool{}
	for _, h := range hooks {
		names[h.Name] = true
	}
	var nl []string
	for n := range names {
		nl = append(nl, n)
	}
	sort.Strings(nl)
	b, _ := json.Marshal(map[string]interface{}{"runs": runs, "hooks": len(hooks), "crash_points": len(idx), "died": died,
		"not_reached": notReached, "hook_names": nl})
	fmt.Println(string(b))
}

func main() {
	if len(os.Args) < 2 {
		fmt.Fprintln(os.Stderr, "usage: qdb replay|record|crash ...")
		os.Exit(2)
	}
	switch os.Args[1] {
	case "replay":
		cmdReplay(os.Args[2:])
	case "worker":
		cmdWorker(os.Args[2:])
	case "record":
		cmdRecord(os.Args[2:])
	case "phase":
		cmdPhase(os.Args[2:])
	case "crash":
		cmdCrash(os.Args[2:])
	default:
		os.Exit(2)
	}
}
