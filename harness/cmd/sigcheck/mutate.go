package main

import (
	"fmt"

	"github.com/piotrnar/gocoin/lib/btc"

	"verifharness/ref"
	"verifharness/vio"
)

// mutate: valid triples and every / some single-bit mutation of them; the verdict on the mutated bytes is the
// reference's (strictly encoded signature: exact; readable non-canonical encoding of a valid signature: not judged).
func mutate(out *vio.Out, seed int64, n, flips, workers int) {
	sum := newSummary()
	jobs := make(chan []byte, n)
	for i := 0; i < n; i++ {
		jobs <- []byte(fmt.Sprint(i))
	}
	close(jobs)
	vio.Pool(workers, jobs, func(w int, job []byte) {
		var idx int
		fmt.Sscan(string(job), &idx)
		rng := rngFor(seed, "mutate", idx)
		line := []byte(fmt.Sprintf(`{"tab":"mutate","base":%d}`, idx))
		d := rndScalar(rng)
		q := ref.BaseMul(d)
		msg := rnd32(rng)

		// ---- ECDSA
		sg, _, err := ref.EcdsaSignRFC6979(d, msg)
		if err != nil {
			sum.infra("reference signer: %v", err)
			return
		}
		var pk []byte
		switch rng.Intn(3) {
		case 0:
			pk = ref.SerializePubKey(q, true)
		case 1:
			pk = ref.SerializePubKey(q, false)
		default:
			pk = ref.SerializePubKey(q, false)
			pk[0] = 6 + byte(q.Y.Bit(0))
		}
		if rng.Intn(2) == 0 { // high-S twin: valid for the verifier as well
			sg.S = sub(ref.N, sg.S)
		}
		der := ref.EncodeDER(sg)
		if rng.Intn(2) == 0 {
			der = append(der, 1)
		}
		parts := [][]byte{pk, der, msg}
		names := []string{"pubkey", "sig", "msg"}
		mutateOne(out, sum, line, idx, parts, names, flips, rng, "ecdsa",
			func(p [][]byte) (string, string) { return refEcdsaVerdict(p[0], p[1], p[2]) },
			func(p [][]byte) bool { return btc.EcdsaVerify(p[0], p[1], p[2]) })

		// ---- BIP 340
		sk := ref.B32(d)
		s64, err := ref.SchnorrSign(sk, msg, rnd32(rng))
		if err != nil {
			sum.infra("reference signer: %v", err)
			return
		}
		xo, _, _ := ref.SchnorrPubKey(d)
		mutateOne(out, sum, line, idx, [][]byte{xo, s64, msg}, names, flips, rng, "schnorr",
			func(p [][]byte) (string, string) {
				if ref.SchnorrVerify(p[0], p[2], p[1]) {
					return "accept", ""
				}
				return "reject", "bip340"
			},
			func(p [][]byte) bool { return btc.SchnorrVerify(p[0], p[1], p[2]) })

		// ---- BIP 341
		t := ref.TapTweakHash(xo, rnd32(rng))
		pt, _ := ref.LiftXEven(ref.FromBytes(xo))
		qq := pt.Add(ref.BaseMul(ref.ModN(ref.FromBytes(t))))
		if qq.Inf || ref.FromBytes(t).Cmp(ref.N) >= 0 {
			return
		}
		par := []byte{0}
		if qq.YOdd() {
			par[0] = 1
		}
		mutateOne(out, sum, line, idx, [][]byte{ref.B32(qq.X), xo, t, par}, []string{"output_key", "internal_key", "tweak", "parity"}, flips, rng, "tweak",
			func(p [][]byte) (string, string) {
				if ref.TapTweakCheck(p[0], p[1], p[2], p[3][0]&1 == 1) {
					return "accept", ""
				}
				return "reject", "bip341"
			},
			func(p [][]byte) bool { return btc.CheckPayToContract(p[0], p[1], p[2], p[3][0]&1 == 1) })
	})
	for range sum.Distinct {
		sum.NonTriv++
	}
	flushFails(out)
	out.Put(sum)
}

func mutateOne(out *vio.Out, sum *Summary, line []byte, idx int, parts [][]byte, names []string, flips int, rng interface{ Intn(int) int },
	kind string, oracle func([][]byte) (string, string), lib func([][]byte) bool) {
	total := 0
	for i, p := range parts {
		if names[i] == "parity" {
			total++
		} else {
			total += len(p) * 8
		}
	}
	// the unmodified input first
	try := func(bit int) {
		mp := make([][]byte, len(parts))
		where := "none"
		b := bit
		for i, p := range parts {
			mp[i] = append([]byte(nil), p...)
			nb := len(p) * 8
			if names[i] == "parity" {
				nb = 1
			}
			if b >= 0 && b < nb {
				mp[i][b/8] ^= 1 << uint(b%8)
				where = names[i]
				b = -1
			} else if b >= nb {
				b -= nb
			}
		}
		want, why := oracle(mp)
		var got bool
		pn := safely(func() { got = lib(mp) })
		sum.count(1, 1, 0)
		sum.inc(sum.Tabs, "mutate-"+kind)
		sum.inc(sum.Verdicts, "mutate-"+kind+":"+want)
		bts := map[string]string{"bit": fmt.Sprint(bit), "flipped_in": where}
		for i := range mp {
			bts[names[i]] = hx(mp[i])
		}
		switch {
		case pn != "":
			report(out, sum, "C03:mutation:"+kind+":panic", "verifier panicked on a mutated input: "+pn, line, idx, bts, nil)
		case want == "accept" && !got:
			report(out, sum, "C03:mutation:"+kind+":refused-valid:"+where, "verifier refuses an input the reference accepts", line, idx, bts, nil)
		case want == "reject" && got:
			report(out, sum, "C03:mutation:"+kind+":accepted:"+where+":"+why, "verifier accepts a mutated input that is not a valid signature ("+why+")", line, idx, bts, nil)
		case want == "either":
			sum.inc(sum.Either, fmt.Sprintf("mutated-%s:%v", where, got))
		}
		if bit >= 0 {
			sum.inc(sum.Distinct, fmt.Sprintf("%s|%d|%d", kind, idx, bit))
		}
	}
	try(-1)
	if flips <= 0 || flips >= total {
		for b := 0; b < total; b++ {
			try(b)
		}
		return
	}
	for k := 0; k < flips; k++ {
		try(rng.Intn(total))
	}
}
