package main

import (
	"bytes"
	"fmt"
	"math/big"
	"sync"

	"github.com/piotrnar/gocoin/lib/btc"
	"github.com/piotrnar/gocoin/lib/script"

	"verifharness/ref"
	"verifharness/vio"
)

// txsign: the transaction-level signers as entry points: Tx.Sign (P2PKH) and Tx.SignWitness (P2WPKH) over many
// seeded transactions, in both nonce modes.  Every signature placed in the transaction must be canonical DER
// (BIP 66) with low S, verify under the signer's key for the digest of that input (reference verifier), and the
// signed input must pass script.VerifyTxScript with the standard flags.  The run counts the length classes of r
// and s it reached (first byte exactly 0x80, first byte >= 0x80 with 31 or fewer bytes, shorter than 32 bytes) -
// the cases in which the DER integer needs a pad byte or is short - and keeps signing until each has enough samples.
const txClassMin = 6

func intClass(v *big.Int) []string {
	b := v.Bytes()
	var c []string
	if len(b) < 32 {
		c = append(c, "short")
	}
	if len(b) > 0 && b[0] == 0x80 {
		c = append(c, "first-80")
	}
	if len(b) > 0 && b[0] >= 0x80 && len(b) <= 31 {
		c = append(c, "high-bit-short")
	}
	if len(b) == 32 && b[0] >= 0x80 {
		c = append(c, "high-bit-32")
	}
	return c
}

func txsign(out *vio.Out, seed int64, n, workers int) {
	sum := newSummary()
	var mu sync.Mutex
	classes := map[string]int{}
	done := 0
	enough := func() bool {
		// (a low s whose first byte is exactly 0x80 has density 2^-15: not required)
		for _, k := range []string{"s:short", "s:high-bit-short", "r:short", "r:first-80", "r:high-bit-short", "r:high-bit-32"} {
			if classes[k] < txClassMin {
				return false
			}
		}
		return true
	}
	batch := 0
	for {
		mu.Lock()
		stop := (done >= n && enough()) || done >= 40*n
		mu.Unlock()
		if stop {
			break
		}
		jobs := make(chan []byte, 64)
		go func(b int) {
			for i := 0; i < 64; i++ {
				jobs <- []byte(fmt.Sprintf("%d", b*64+i))
			}
			close(jobs)
		}(batch)
		batch++
		vio.Pool(workers, jobs, func(w int, job []byte) {
			var idx int
			fmt.Sscan(string(job), &idx)
			// 32 transactions per job
			for j := 0; j < 32; j++ {
				cl := txOne(out, sum, seed, idx*32+j)
				mu.Lock()
				done++
				for _, c := range cl {
					classes[c]++
				}
				mu.Unlock()
			}
		})
	}
	if !enough() {
		sum.infra("length classes not reached after %d signatures: %v", done, classes)
	}
	sum.Observed = classes
	sum.Tabs["txsign"] = done
	sum.NonTriv = done
	flushFails(out)
	out.Put(sum)
}

func txOne(out *vio.Out, sum *Summary, seed int64, idx int) (classes []string) {
	rng := rngFor(seed, "txsign", idx)
	line := []byte(fmt.Sprintf(`{"tab":"txsign","idx":%d}`, idx))
	d := rndScalar(rng)
	d32 := ref.B32(d)
	q := ref.BaseMul(d)
	witness := idx%2 == 1
	compressed := witness || rng.Intn(2) == 0
	pub := ref.SerializePubKey(q, compressed)
	h160 := btc.Rimp160AfterSha256(pub)
	p2pkh := append(append([]byte{0x76, 0xa9, 0x14}, h160[:]...), 0x88, 0xac)
	amount := uint64(1000 + rng.Int63n(1e9))
	tx := new(btc.Tx)
	tx.Version = 1 + uint32(rng.Intn(2))
	nin := 1 + rng.Intn(2)
	in := rng.Intn(nin)
	for i := 0; i < nin; i++ {
		ti := new(btc.TxIn)
		copy(ti.Input.Hash[:], rnd32(rng))
		ti.Input.Vout = uint32(rng.Intn(4))
		ti.Sequence = 0xffffffff
		tx.TxIn = append(tx.TxIn, ti)
	}
	tx.TxOut = []*btc.TxOut{{Value: amount / 2, Pk_script: p2pkh}}
	// through the parser, so that the transaction is initialised the way the wallet's transactions are
	if t2, _ := btc.NewTx(tx.Serialize()); t2 != nil {
		tx = t2
		if tx.TxVerVars == nil {
			tx.AllocVerVars() // the cache of the BIP 143 hashes (the wallet and the node allocate it before signing / verifying)
		}
	} else {
		sum.infra("btc.NewTx refuses the serialisation of the test transaction")
		return nil
	}
	ht := byte(btc.SIGHASH_ALL)
	rfc := idx%4 < 2
	var er error
	var digest []byte
	pn := ""
	signMu.Lock()
	pn = safely(func() {
		btc.EcdsaSignWithRFC6979 = rfc
		if witness {
			er = tx.SignWitness(in, p2pkh, amount, ht, pub, d32)
			digest = tx.WitnessSigHash(p2pkh, amount, in, int32(ht))
		} else {
			er = tx.Sign(in, p2pkh, ht, pub, d32)
			digest = tx.SignatureHash(p2pkh, in, int32(ht))
		}
	})
	signMu.Unlock()
	kind := map[bool]string{true: "SignWitness", false: "Sign"}[witness]
	sum.count(1, 1, 0)
	bts := map[string]string{"seckey": hx(d32), "pubkey": hx(pub), "digest": hx(digest), "rfc6979": fmt.Sprint(rfc), "input": fmt.Sprint(in)}
	if pn != "" || er != nil {
		report(out, sum, "C03:txsign:"+kind+":fails", fmt.Sprintf("Tx.%s fails: %v %s", kind, er, pn), line, 0, bts, nil)
		return nil
	}
	var sig []byte
	if witness {
		if len(tx.SegWit) <= in || len(tx.SegWit[in]) != 2 || !bytes.Equal(tx.SegWit[in][1], pub) {
			report(out, sum, "C03:txsign:"+kind+":shape", "Tx.SignWitness did not leave <sig> <pubkey> in the witness", line, 0, bts, nil)
			return nil
		}
		sig = tx.SegWit[in][0]
	} else {
		ss := tx.TxIn[in].ScriptSig
		if len(ss) < 2 || int(ss[0]) > len(ss)-1 {
			report(out, sum, "C03:txsign:"+kind+":shape", "Tx.Sign did not leave a signature push in scriptSig", line, 0, bts, nil)
			return nil
		}
		sig = ss[1 : 1+int(ss[0])]
		rest := ss[1+int(ss[0]):]
		if len(rest) != 1+len(pub) || int(rest[0]) != len(pub) || !bytes.Equal(rest[1:], pub) {
			report(out, sum, "C03:txsign:"+kind+":shape", "Tx.Sign did not leave <sig> <pubkey> in scriptSig", line, 0, bts, nil)
			return nil
		}
	}
	bts["sig"] = hx(sig)
	sum.count(0, 4, 0)
	if len(sig) < 9 || sig[len(sig)-1] != ht {
		report(out, sum, "C03:txsign:"+kind+":shape", "signature does not end with the hash type", line, 0, bts, nil)
		return nil
	}
	der := sig[:len(sig)-1]
	// what the integers are, read laxly (so that a non-canonical encoding can still be classified)
	if lx, ok := ref.ParseDERLax(der); ok {
		for _, c := range intClass(lx.R) {
			classes = append(classes, "r:"+c)
		}
		for _, c := range intClass(lx.S) {
			classes = append(classes, "s:"+c)
		}
	}
	sg, strict := ref.ParseDERStrict(der)
	if !strict {
		report(out, sum, "C03:txsign:"+kind+":der-not-canonical", "the signature Tx."+kind+" puts into the transaction is not canonical DER (BIP 66)", line, 0, bts, nil)
		return
	}
	if sg.S.Cmp(ref.HalfN) > 0 {
		report(out, sum, "C03:txsign:"+kind+":high-s", "the signature Tx."+kind+" puts into the transaction has s > (n-1)/2", line, 0, bts, nil)
	}
	// reference verification for the class samples and every 8th transaction (the rest: the library's own verifier below)
	if len(classes) > 0 || idx%8 == 0 {
		if !ref.EcdsaVerify(q, digest, sg) {
			report(out, sum, "C03:txsign:"+kind+":invalid-signature", "the signature Tx."+kind+" puts into the transaction is not valid for the signer's key and the input's digest", line, 0, bts, nil)
		}
		if rfc {
			if want, _, e := ref.EcdsaSignRFC6979(d, digest); e == nil && ref.HashToInt(digest).Cmp(ref.N) < 0 && (want.R.Cmp(sg.R) != 0 || want.S.Cmp(sg.S) != 0) {
				report(out, sum, "C03:txsign:"+kind+":not-reference", "the RFC 6979 signature in the transaction differs from the reference", line, 0, bts, nil)
			}
		}
	}
	// the signed input under the interpreter, standard flags
	pk := p2pkh
	if witness {
		pk = append([]byte{0x00, 0x14}, h160[:]...)
	}
	ok := false
	pv := safely(func() {
		ok = script.VerifyTxScript(pk, &script.SigChecker{Tx: tx, Idx: in, Amount: amount}, script.STANDARD_VERIFY_FLAGS)
	})
	if pv != "" || !ok {
		report(out, sum, "C03:txsign:"+kind+":script-refuses", "script.VerifyTxScript (standard flags) refuses the input the library has just signed "+pv, line, 0, bts, nil)
	}
	return
}
