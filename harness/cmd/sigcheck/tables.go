package main

import (
	"bytes"
	"fmt"
	"math/big"
	"math/rand"
	"strings"

	"github.com/piotrnar/gocoin/lib/btc"
	"github.com/piotrnar/gocoin/lib/secp256k1"

	"verifharness/ref"
	"verifharness/vio"
)

// ---------------------------------------------------------------- scalar classes -> integers

// rPick is a presented r (V), its residue modulo n (v0) and, when that residue is the abscissa of a curve point,
// such a point.
type rPick struct {
	V, v0 *big.Int
	R     ref.Point
	hasR  bool
}

func topBit(v *big.Int) bool { b := v.Bytes(); return len(b) > 0 && b[0]&0x80 != 0 }

func liftAny(x *big.Int, rng *rand.Rand) (ref.Point, bool) { return ref.LiftX(x, rng.Intn(2) == 1) }

// rndPointX: a random multiple of G whose x is below n (always, but for 2^-128) and, on request, has bit 255 set
func rndPointX(rng *rand.Rand, wantHigh bool, minX *big.Int) ref.Point {
	for {
		p := ref.BaseMul(rndScalar(rng))
		if p.X.Cmp(ref.N) >= 0 || p.X.Sign() == 0 {
			continue
		}
		if wantHigh && p.X.Bit(255) == 0 {
			continue
		}
		if minX != nil && p.X.Cmp(minX) < 0 {
			continue
		}
		return p
	}
}

var npkR = []int64{1, 2, 3, 4, 6} // small abscissae (SigCheck.tla, RIsAbscissa)

func pickR(rc string, rng *rand.Rand, wantHigh bool) (rPick, error) {
	fixed := func(V, v0 *big.Int) (rPick, error) {
		p := rPick{V: V, v0: v0}
		if v0.Sign() > 0 {
			p.R, p.hasR = liftAny(v0, rng)
		}
		return p, nil
	}
	switch rc {
	case "zero":
		return fixed(bi(0), bi(0))
	case "one":
		return fixed(bi(1), bi(1))
	case "nm2":
		return fixed(nMinus2, nMinus2)
	case "nm1":
		return fixed(nMinus1, nMinus1)
	case "n":
		return fixed(ref.N, bi(0))
	case "npk":
		k := bi(npkR[rng.Intn(len(npkR))])
		return fixed(add(ref.N, k), k)
	case "p":
		return fixed(ref.P, sub(ref.P, ref.N))
	case "max":
		return fixed(max256, sub(max256, ref.N))
	case "mid":
		p := rndPointX(rng, wantHigh, nil)
		return rPick{V: p.X, v0: p.X, R: p, hasR: true}, nil
	case "wrap":
		// r = k with n + k < p the abscissa of the nonce point: small k, or anywhere below p - n
		lim := sub(ref.P, ref.N)
		for {
			var k *big.Int
			if rng.Intn(2) == 0 {
				k = bi(1 + rng.Int63n(4096))
			} else {
				k = rndBelow(rng, lim)
			}
			if k.Sign() == 0 {
				continue
			}
			if pt, ok := liftAny(add(ref.N, k), rng); ok {
				return rPick{V: k, v0: k, R: pt, hasR: true}, nil
			}
		}
	case "b33":
		p := rndPointX(rng, false, slackN)
		V := add(p.X, ref.N)
		if rng.Intn(3) == 0 {
			V.Add(V, ref.N)
		}
		return rPick{V: V, v0: p.X, R: p, hasR: true}, nil
	}
	return rPick{}, fmt.Errorf("unknown r class %q", rc)
}

// pickS returns the presented s and its residue modulo n.
func pickS(sc string, rng *rand.Rand, wantHigh bool) (V, v0 *big.Int, err error) {
	switch sc {
	case "zero":
		return bi(0), bi(0), nil
	case "one":
		return bi(1), bi(1), nil
	case "nm2":
		return nMinus2, nMinus2, nil
	case "nm1":
		return nMinus1, nMinus1, nil
	case "n":
		return ref.N, bi(0), nil
	case "npk":
		k := bi(1 + rng.Int63n(1000))
		return add(ref.N, k), k, nil
	case "p":
		return ref.P, sub(ref.P, ref.N), nil
	case "max":
		return max256, sub(max256, ref.N), nil
	case "mid":
		for {
			v := rndScalar(rng)
			if wantHigh && v.Bit(255) == 0 {
				continue
			}
			return v, v, nil
		}
	case "b33":
		for {
			v := rndScalar(rng)
			if v.Cmp(slackN) < 0 {
				continue
			}
			V := add(v, ref.N)
			if rng.Intn(3) == 0 {
				V.Add(V, ref.N)
			}
			return V, v, nil
		}
	}
	return nil, nil, fmt.Errorf("unknown s class %q", sc)
}

// ---------------------------------------------------------------- public keys

func pkChosen(pk string) bool {
	return pk == "comp_x_ge_p" || pk == "uncomp_x_ge_p" || pk == "uncomp_y_ge_p"
}

func rndBelow(rng *rand.Rand, lim *big.Int) *big.Int {
	return new(big.Int).Rand(rng, lim)
}

// tinyXPoint: a curve point whose x is so small that x+p still fits in 32 bytes
func tinyXPoint(rng *rand.Rand) ref.Point {
	for {
		x := rndBelow(rng, slackP)
		if p, ok := liftAny(x, rng); ok {
			return p
		}
	}
}

// tinyYPoint: a curve point with a tiny y: x is a cube root of y^2 - 7 (p = 7 mod 9: a^((p+2)/9) when a is a cube)
func tinyYPoint(rng *rand.Rand) ref.Point {
	e3 := new(big.Int).Div(sub(ref.P, bi(1)), bi(3))
	e9 := new(big.Int).Div(add(ref.P, bi(2)), bi(9))
	for {
		y := rndBelow(rng, slackP)
		if y.Sign() == 0 {
			continue
		}
		a := ref.FSub(ref.FSqr(y), ref.B7)
		if a.Sign() == 0 || new(big.Int).Exp(a, e3, ref.P).Cmp(bi(1)) != 0 {
			continue
		}
		x := new(big.Int).Exp(a, e9, ref.P)
		for j := rng.Intn(3); j > 0; j-- {
			x = ref.FMul(x, ref.Beta)
		}
		p := ref.Point{X: x, Y: y}
		if p.OnCurve() {
			return p
		}
	}
}

func rndPoint(rng *rand.Rand) ref.Point { return ref.BaseMul(rndScalar(rng)) }

// parityWanted: -1 any, 0 even, 1 odd
func parityWanted(pk string) int {
	switch pk {
	case "comp_even":
		return 0
	case "comp_odd":
		return 1
	}
	return -1
}

func cat(parts ...[]byte) []byte { return bytes.Join(parts, nil) }

// encodePk writes the octet string of class pk for the curve point q.
func encodePk(pk string, q ref.Point, rng *rand.Rand) ([]byte, error) {
	x32, y32 := ref.B32(q.X), ref.B32(q.Y)
	par := byte(2)
	if q.YOdd() {
		par = 3
	}
	switch pk {
	case "comp_even", "comp_odd":
		return ref.SerializePubKey(q, true), nil
	case "uncomp":
		return ref.SerializePubKey(q, false), nil
	case "hyb_ok":
		return cat([]byte{par + 4}, x32, y32), nil
	case "hyb_bad":
		return cat([]byte{(par ^ 1) + 4}, x32, y32), nil
	case "comp_x_ge_p":
		return cat([]byte{par}, ref.B32(add(q.X, ref.P))), nil
	case "uncomp_x_ge_p":
		return cat([]byte{4}, ref.B32(add(q.X, ref.P)), y32), nil
	case "uncomp_y_ge_p":
		return cat([]byte{4}, x32, ref.B32(add(q.Y, ref.P))), nil
	case "comp_x_nosqrt":
		x := new(big.Int).Set(q.X)
		for {
			x.Add(x, bi(1))
			if x.Cmp(ref.P) >= 0 {
				x.SetInt64(1)
			}
			if !ref.IsQR(ref.CurveRHS(x)) {
				break
			}
		}
		return cat([]byte{byte(2 + rng.Intn(2))}, ref.B32(x)), nil
	case "uncomp_offcurve", "hyb_offcurve":
		var y *big.Int
		for {
			y = new(big.Int).Set(q.Y)
			b := rng.Intn(256)
			y.SetBit(y, b, y.Bit(b)^1)
			if y.Cmp(ref.P) < 0 && ref.FSqr(y).Cmp(ref.CurveRHS(q.X)) != 0 {
				break
			}
		}
		pre := byte(4)
		if pk == "hyb_offcurve" {
			pre = 6 + byte(y.Bit(0))
		}
		return cat([]byte{pre}, x32, ref.B32(y)), nil
	case "len_short":
		b := ref.SerializePubKey(q, rng.Intn(2) == 0)
		return b[:len(b)-1], nil
	case "len_long":
		return append(ref.SerializePubKey(q, rng.Intn(2) == 0), byte(rng.Intn(256))), nil
	case "bad_prefix":
		if rng.Intn(2) == 0 {
			pre := []byte{0, 1, 4, 5, 6, 7, 8, 0x82, 0xff}
			return cat([]byte{pre[rng.Intn(len(pre))]}, x32), nil
		}
		pre := []byte{0, 1, 2, 3, 5, 8, 0x84, 0xff}
		return cat([]byte{pre[rng.Intn(len(pre))]}, x32, y32), nil
	case "empty":
		return []byte{}, nil
	}
	return nil, fmt.Errorf("unknown pk class %q", pk)
}

// ---------------------------------------------------------------- DER classes

func derIntMin(v *big.Int) []byte {
	b := v.Bytes()
	if len(b) == 0 {
		return []byte{0}
	}
	if b[0]&0x80 != 0 {
		b = append([]byte{0}, b...)
	}
	return b
}

func derEncode(class string, vr, vs *big.Int, rng *rand.Rand) ([]byte, error) {
	rb, sb := derIntMin(vr), derIntMin(vs)
	canon := ref.EncodeDERRaw(rb, sb)
	switch class {
	case "strict":
		return canon, nil
	case "strict_ht":
		ht := []byte{1, 2, 3, 0x81, 0x82, 0x83, byte(rng.Intn(256))}
		return append(canon, ht[rng.Intn(len(ht))]), nil
	case "pad_r":
		return ref.EncodeDERRaw(append([]byte{0}, rb...), sb), nil
	case "pad_s":
		return ref.EncodeDERRaw(rb, append([]byte{0}, sb...)), nil
	case "neg":
		padded := func(b []byte) bool { return len(b) > 1 && b[0] == 0 && b[1]&0x80 != 0 }
		pr, ps := padded(rb), padded(sb)
		if !pr && !ps {
			return nil, fmt.Errorf("no component with the top bit set")
		}
		strip := rng.Intn(3) // 0: r, 1: s, 2: both (where possible)
		if pr && (strip != 1 || !ps) {
			rb = rb[1:]
		}
		if ps && (strip != 0 || !pr) {
			sb = sb[1:]
		}
		return ref.EncodeDERRaw(rb, sb), nil
	case "trail":
		extra := make([]byte, 2+rng.Intn(3))
		rng.Read(extra)
		return append(canon, extra...), nil
	case "longlen":
		return cat([]byte{0x30, 0x81, canon[1]}, canon[2:]), nil
	case "seqlen":
		out := append([]byte(nil), canon...)
		if rng.Intn(2) == 0 {
			out[1]++
		} else {
			out[1]--
		}
		return out, nil
	case "badtag":
		out := append([]byte(nil), canon...)
		t := []byte{0x31, 0x20, 0x00, 0xb0, 0x10}
		out[0] = t[rng.Intn(len(t))]
		return out, nil
	case "badinttag":
		out := append([]byte(nil), canon...)
		t := []byte{0x03, 0x82, 0x00, 0x22}
		pos := 2
		if rng.Intn(2) == 0 {
			pos = 4 + len(rb)
		}
		out[pos] = t[rng.Intn(len(t))]
		return out, nil
	case "trunc":
		k := 1 + rng.Intn(len(sb))
		return canon[:len(canon)-k], nil
	case "zerolen":
		if vr.Sign() != 0 {
			return nil, fmt.Errorf("zerolen needs r = 0")
		}
		out := []byte{0x30, byte(4 + len(sb)), 0x02, 0x00, 0x02, byte(len(sb))}
		return append(out, sb...), nil
	case "empty":
		return []byte{}, nil
	}
	return nil, fmt.Errorf("unknown der class %q", class)
}

// refEcdsaVerdict: what the standards say about these bytes - "accept" (canonical encoding of a valid
// signature, optionally followed by one hash-type byte), "either" (valid signature in a readable non-canonical
// encoding), "reject".
func refEcdsaVerdict(pk, sig, msg []byte) (verdict string, why string) {
	q, okq := ref.ParsePubKey(pk)
	judge := func(s ref.Sig) (bool, string) {
		switch {
		case !okq:
			return false, "key"
		case !ref.InRange(s.R):
			return false, "r-range"
		case !ref.InRange(s.S):
			return false, "s-range"
		case !ref.EcdsaVerify(q, msg, s):
			return false, "equation"
		}
		return true, ""
	}
	if s, ok := ref.ParseDERStrict(sig); ok {
		if v, w := judge(s); v {
			return "accept", ""
		} else {
			return "reject", w
		}
	}
	if len(sig) > 0 {
		if s, ok := ref.ParseDERStrict(sig[:len(sig)-1]); ok {
			if v, w := judge(s); v {
				return "accept", ""
			} else {
				return "reject", w
			}
		}
	}
	if s, ok := ref.ParseDERLax(sig); ok {
		if v, w := judge(s); v {
			return "either", ""
		} else {
			return "reject", w
		}
	}
	return "reject", "der"
}

// ---------------------------------------------------------------- rows

func rowKey(r *Row) string {
	return strings.Join([]string{r.Tab, r.Pk, r.Rc, r.Sc, fmt.Sprint(r.Eq), r.Der, r.X1, r.X2}, "|")
}

func replayRow(out *vio.Out, sum *Summary, r *Row, line []byte, rng *rand.Rand, inst int) {
	var err error
	switch r.Tab {
	case "ecdsa":
		err = rowEcdsa(out, sum, r, line, rng, inst)
	case "schnorr":
		err = rowSchnorr(out, sum, r, line, rng, inst)
	case "tweak":
		err = rowTweak(out, sum, r, line, rng, inst)
	case "parse", "parsexo":
		err = rowParse(out, sum, r, line, rng, inst)
	case "recover":
		err = rowRecover(out, sum, r, line, rng, inst)
	case "lows":
		err = rowLowS(out, sum, r, line, rng, inst)
	default:
		err = fmt.Errorf("unknown table %q", r.Tab)
	}
	if err != nil {
		sum.infra("%s: %v", rowKey(r), err)
		return
	}
	sum.inc(sum.Tabs, r.Tab)
	sum.inc(sum.Verdicts, r.Tab+":"+r.V)
	if len(r.Rules) <= 1 {
		sum.inc(sum.Distinct, rowKey(r))
	}
}

// refusedClass names a wrongly refused row by its first non-generic class (r, then s, then key form, then encoding),
// so that one defect gives one signature and not one per combination.
func refusedClass(r *Row) string {
	if r.Tab != "ecdsa" {
		return strings.Join([]string{r.Pk, r.Rc, r.Sc, r.Der, r.X1, r.X2}, ":")
	}
	switch {
	case r.Rc != "mid":
		return "r-" + r.Rc
	case r.Sc != "mid":
		return "s-" + r.Sc
	case r.Pk != "comp_even" && r.Pk != "comp_odd" && r.Pk != "uncomp":
		return "pk-" + r.Pk
	case r.Der != "strict":
		return "der-" + r.Der
	}
	return "generic"
}

// capture, when set (stress mode), receives every constructed case as a closure on the real code plus the verdict
// the table gives it, instead of the case being judged on the spot.
var capture func(r *Row, api string, want bool, call func() bool)

// judge compares the code's answer with the row's verdict; returns the number of failures reported.
func judge(out *vio.Out, sum *Summary, r *Row, api string, got bool, panicked string, line []byte, inst int, bts map[string]string) {
	sum.count(0, 1, 0)
	if panicked != "" {
		report(out, sum, "C03:"+r.Tab+":panic:"+api, fmt.Sprintf("%s panicked (%s) on a %s row", api, panicked, rowKey(r)), line, inst, bts, r.Rules)
		return
	}
	switch r.V {
	case "accept":
		if !got {
			report(out, sum, "C03:"+r.Tab+":refused:"+refusedClass(r),
				fmt.Sprintf("%s refuses a valid input of class %s", api, rowKey(r)), line, inst, bts, r.Rules)
		}
	case "reject":
		if got {
			report(out, sum, "C03:"+r.Tab+":accepted:"+strings.Join(r.Rules, "+"),
				fmt.Sprintf("%s accepts an input of class %s that breaks %v", api, rowKey(r), r.Rules), line, inst, bts, r.Rules)
		}
	case "either":
		sum.inc(sum.Either, fmt.Sprintf("%s:%v", r.Der, got))
	}
}

// rndMsg: a 32-byte digest; mostly generic, sometimes 0 or a value >= n (the verifier reduces it modulo n)
func rndMsg(rng *rand.Rand) []byte {
	switch rng.Intn(10) {
	case 0:
		return make([]byte, 32)
	case 1:
		return ref.B32(ref.N)
	case 2:
		return ref.B32(max256)
	case 3:
		return ref.B32(add(ref.N, rndBelow(rng, slackN)))
	}
	return rnd32(rng)
}

func rowEcdsa(out *vio.Out, sum *Summary, r *Row, line []byte, rng *rand.Rand, inst int) error {
	var pk, sig, msg []byte
	var q ref.Point
	var vr, vs *big.Int
	built := false
	var lastErr error
	for try := 0; try < 200 && !built; try++ {
		wantHighR := r.Der == "neg" && r.Rc == "mid"
		wantHighS := r.Der == "neg" && r.Sc == "mid"
		switch {
		case pkChosen(r.Pk) && r.Eq:
			// the point is prescribed: forge (m, r, s) for it from two scalars a, b: R = aG + bQ, r = x(R), s = r/b, m = a s
			if r.Pk == "uncomp_y_ge_p" {
				q = tinyYPoint(rng)
			} else {
				q = tinyXPoint(rng)
			}
			a, b := rndScalar(rng), rndScalar(rng)
			rp := ref.BaseMul(a).Add(q.Mul(b))
			if rp.Inf || rp.X.Cmp(ref.N) >= 0 || rp.X.Sign() == 0 {
				continue
			}
			r0 := rp.X
			s0 := ref.ModN(mul(r0, ref.InvN(b)))
			m := ref.ModN(mul(a, s0))
			vr, vs = r0, s0
			if r.Rc == "b33" {
				if r0.Cmp(slackN) < 0 {
					continue
				}
				vr = add(r0, ref.N)
			}
			if r.Sc == "b33" {
				if s0.Cmp(slackN) < 0 {
					continue
				}
				vs = add(s0, ref.N)
			}
			msg = ref.B32(m)
		default:
			rp, err := pickR(r.Rc, rng, wantHighR)
			if err != nil {
				return err
			}
			var s0 *big.Int
			vs, s0, err = pickS(r.Sc, rng, wantHighS)
			if err != nil {
				return err
			}
			vr = rp.V
			msg = rndMsg(rng)
			if r.Eq {
				if !rp.hasR || s0.Sign() == 0 {
					return fmt.Errorf("row asks for a valid equation with r class %s / s class %s", r.Rc, r.Sc)
				}
				// SEC 1 4.1.6: Q = r^-1 (s R - e G)
				ri := ref.InvN(rp.v0)
				q = rp.R.Mul(ref.ModN(mul(s0, ri))).Add(ref.BaseMul(ref.ModN(new(big.Int).Neg(mul(ref.HashToInt(msg), ri)))))
				if q.Inf {
					continue
				}
			} else {
				switch r.Pk {
				case "uncomp_y_ge_p":
					q = tinyYPoint(rng)
				case "comp_x_ge_p", "uncomp_x_ge_p":
					q = tinyXPoint(rng)
				default:
					q = rndPoint(rng)
				}
			}
		}
		if w := parityWanted(r.Pk); w >= 0 && q.YOdd() != (w == 1) {
			if r.Eq {
				continue // another message gives another key
			}
			q = q.Neg()
		}
		// the equation flag of the row must be what the reference computes for (r mod n, s mod n)
		if ref.EcdsaModEquation(q, msg, ref.Sig{R: vr, S: vs}) != r.Eq {
			if r.Eq {
				return fmt.Errorf("constructed signature does not satisfy the equation")
			}
			continue
		}
		var err error
		if pk, err = encodePk(r.Pk, q, rng); err != nil {
			return err
		}
		if sig, err = derEncode(r.Der, vr, vs, rng); err != nil {
			lastErr = err
			continue
		}
		built = true
	}
	if !built {
		return fmt.Errorf("no representative after 200 tries (%v)", lastErr)
	}
	// specification and reference must agree on these bytes
	rv, why := refEcdsaVerdict(pk, sig, msg)
	if rv != r.V && !trustSpec {
		return fmt.Errorf("specification says %s, reference says %s (%s) for pk=%x sig=%x msg=%x", r.V, rv, why, pk, sig, msg)
	}
	if capture != nil {
		if r.V != "either" {
			capture(r, "btc.EcdsaVerify", r.V == "accept", func() bool { return btc.EcdsaVerify(pk, sig, msg) })
		}
		return nil
	}
	var got, got2 bool
	p := safely(func() { got = btc.EcdsaVerify(pk, sig, msg) })
	bts := map[string]string{"pubkey": hx(pk), "sig": hx(sig), "msg": hx(msg), "r": vr.Text(16), "s": vs.Text(16)}
	sum.count(1, 0, 0)
	judge(out, sum, r, "btc.EcdsaVerify", got, p, line, inst, bts)
	// the library entry point below it (ParsePubkey + Signature.ParseBytes + Signature.Verify)
	p2 := safely(func() { got2 = secp256k1.Verify(pk, sig, msg) })
	if p == "" && (p2 != "" || got2 != got) {
		judge(out, sum, r, "secp256k1.Verify", got2, p2, line, inst, bts)
	}
	if inst == 0 && r.Eq && len(r.Rules) == 1 {
		sum.sample(map[string]interface{}{"row": rowKey(r), "verdict": r.V, "pubkey": hx(pk), "sig": hx(sig), "msg": hx(msg), "code": got})
	}
	return nil
}

// ---------------------------------------------------------------- BIP 340

func nonAbscissa(rng *rand.Rand) *big.Int {
	for {
		x := rndBelow(rng, ref.P)
		if !ref.IsQR(ref.CurveRHS(x)) {
			return x
		}
	}
}

func geP(rng *rand.Rand) *big.Int {
	switch rng.Intn(4) {
	case 0:
		return new(big.Int).Set(ref.P)
	case 1:
		return new(big.Int).Set(max256)
	}
	return add(ref.P, rndBelow(rng, slackP))
}

func rowSchnorr(out *vio.Out, sum *Summary, r *Row, line []byte, rng *rand.Rand, inst int) error {
	var sk, pk, msg, sig []byte
	for try := 0; ; try++ {
		if try > 200 {
			return fmt.Errorf("no honest signature with the wanted nonce parity")
		}
		sk = ref.B32(rndScalar(rng))
		msg = rnd32(rng)
		s, rOdd, err := ref.SchnorrSignEx(sk, msg, rnd32(rng), r.Rc == "odd")
		if err != nil {
			return err
		}
		if (r.Rc == "odd") != rOdd && r.Rc == "odd" {
			continue
		}
		sig = s
		pk, _, _ = ref.SchnorrPubKey(ref.FromBytes(sk))
		break
	}
	switch r.Pk {
	case "no_lift":
		pk = ref.B32(nonAbscissa(rng))
	case "ge_p":
		pk = ref.B32(geP(rng))
	}
	switch r.Rc {
	case "ge_p":
		copy(sig[:32], ref.B32(geP(rng)))
	case "not_x":
		copy(sig[:32], ref.B32(nonAbscissa(rng)))
	}
	switch r.Sc {
	case "zero":
		copy(sig[32:], make([]byte, 32))
	case "n":
		copy(sig[32:], ref.B32(ref.N))
	case "ge_n":
		if rng.Intn(3) == 0 {
			copy(sig[32:], ref.B32(max256))
		} else {
			copy(sig[32:], ref.B32(add(ref.N, rndBelow(rng, slackN))))
		}
	}
	honest := r.Pk == "lift_ok" && (r.Rc == "even" || r.Rc == "odd") && r.Sc == "mid"
	if honest && !r.Eq {
		b := rng.Intn(256)
		msg[b/8] ^= 1 << uint(b%8)
	}
	want := ref.SchnorrVerify(pk, msg, sig)
	if want != (r.V == "accept") && !trustSpec {
		return fmt.Errorf("specification says %s, reference says %v for pk=%x sig=%x msg=%x", r.V, want, pk, sig, msg)
	}
	if capture != nil {
		capture(r, "btc.SchnorrVerify", r.V == "accept", func() bool { return btc.SchnorrVerify(pk, sig, msg) })
		return nil
	}
	var got bool
	p := safely(func() { got = btc.SchnorrVerify(pk, sig, msg) })
	sum.count(1, 0, 0)
	judge(out, sum, r, "btc.SchnorrVerify", got, p, line, inst, map[string]string{"pubkey": hx(pk), "sig": hx(sig), "msg": hx(msg)})
	return nil
}

// ---------------------------------------------------------------- BIP 341

func rowTweak(out *vio.Out, sum *Summary, r *Row, line []byte, rng *rand.Rand, inst int) error {
	ik, tw, par, qm := r.Pk, r.Sc, r.X1, r.X2
	var p32 []byte
	var pt ref.Point // the point an implementation would add t*G to
	var d *big.Int   // its secret key when known (even-y representative)
	switch ik {
	case "lift_ok":
		var pk []byte
		pk, d, _ = ref.SchnorrPubKey(rndScalar(rng))
		p32 = pk
		pt, _ = ref.LiftXEven(ref.FromBytes(pk))
	case "ge_p":
		for {
			x := rndBelow(rng, slackP)
			if q, ok := ref.LiftXEven(x); ok {
				pt = q
				p32 = ref.B32(add(x, ref.P))
				break
			}
		}
	case "no_lift":
		// an implementation that does not notice that x^3+7 has no square root continues with the "candidate"
		// root c^((p+1)/4) (which squares to -(x^3+7)), made even
		x := nonAbscissa(rng)
		y := ref.FSqrtCandidate(ref.CurveRHS(x))
		if y.Bit(0) == 1 {
			y = ref.FNeg(y)
		}
		pt = ref.Point{X: x, Y: y}
		p32 = ref.B32(x)
	default:
		return fmt.Errorf("unknown internal key class %q", ik)
	}
	var t *big.Int
	for {
		switch tw {
		case "zero":
			t = bi(0)
		case "one":
			t = bi(1)
		case "mid":
			t = rndScalar(rng)
		case "nm1":
			t = nMinus1
		case "n":
			t = new(big.Int).Set(ref.N)
		case "npk":
			t = add(ref.N, rndBelow(rng, slackN))
		case "max":
			t = new(big.Int).Set(max256)
		case "cancel":
			t = sub(ref.N, d)
		default:
			return fmt.Errorf("unknown tweak class %q", tw)
		}
		if ik != "no_lift" {
			break
		}
		// the bogus point is added by the chord rule exactly once, to t*G, when the windowed digits of t at
		// position 0 vanish for both 128-bit halves: t even and bit 128 clear
		if t.Bit(0) == 0 && t.Bit(128) == 0 && t.Sign() != 0 {
			break
		}
	}
	tg := ref.BaseMul(ref.ModN(t))
	var q ref.Point
	if ik == "no_lift" {
		if tg.Inf || tg.X.Cmp(pt.X) == 0 {
			return fmt.Errorf("degenerate chord")
		}
		q = ref.Chord(tg, pt)
	} else {
		q = pt.Add(tg)
	}
	var q32 []byte
	parity := false
	t32 := ref.B32(t)
	if q.Inf {
		// lift_x(p) + t*G is the point at infinity: every (output key, parity bit) must be refused
		if tw != "cancel" {
			return fmt.Errorf("point at infinity outside the cancel class")
		}
		parity = par == "wrong"
		switch qm {
		case "self":
			q32 = ref.B32(pt.X) // = x(t*G)
		case "zero":
			q32 = make([]byte, 32)
		case "left":
			// whatever the library's own addition leaves behind in the key; it must also say that the addition failed
			var xy secp256k1.XY
			var tn secp256k1.Number
			added := false
			pn := safely(func() {
				xy.ParseXOnlyPubkey(p32)
				tn.SetBytes(t32)
				added = xy.ECPublicTweakAdd(&tn)
				xy.X.Normalize()
				q32 = make([]byte, 32)
				xy.X.GetB32(q32)
			})
			sum.count(0, 1, 0)
			if pn != "" || added {
				report(out, sum, "C03:tweak:ECPublicTweakAdd:infinity", "XY.ECPublicTweakAdd reports success although key + t*G is the point at infinity "+pn, line, inst,
					map[string]string{"internal_key": hx(p32), "tweak": hx(t32), "left_x": hx(q32)}, r.Rules)
			}
			if len(q32) != 32 {
				q32 = ref.B32(pt.X)
			}
		default:
			return fmt.Errorf("output key class %q with the point at infinity", qm)
		}
	} else {
		q32 = ref.B32(q.X)
		parity = q.YOdd()
		if qm == "differ" {
			b := rng.Intn(256)
			q32[b/8] ^= 1 << uint(b%8)
		} else if qm != "match" {
			return fmt.Errorf("output key class %q for a finite sum", qm)
		}
		if par == "wrong" {
			parity = !parity
		}
	}
	want := ref.TapTweakCheck(q32, p32, t32, parity)
	if want != (r.V == "accept") && !trustSpec {
		return fmt.Errorf("specification says %s, reference says %v for q=%x p=%x t=%x parity=%v", r.V, want, q32, p32, t32, parity)
	}
	if capture != nil {
		capture(r, "btc.CheckPayToContract", r.V == "accept", func() bool { return btc.CheckPayToContract(q32, p32, t32, parity) })
		return nil
	}
	var got bool
	p := safely(func() { got = btc.CheckPayToContract(q32, p32, t32, parity) })
	sum.count(1, 0, 0)
	judge(out, sum, r, "btc.CheckPayToContract", got, p, line, inst,
		map[string]string{"output_key": hx(q32), "internal_key": hx(p32), "tweak": hx(t32), "parity": fmt.Sprint(parity)})
	return nil
}

// ---------------------------------------------------------------- parsers

func rowParse(out *vio.Out, sum *Summary, r *Row, line []byte, rng *rand.Rand, inst int) error {
	if r.Tab == "parsexo" {
		var b []byte
		switch r.Pk {
		case "lift_ok":
			b = ref.B32(rndPoint(rng).X)
		case "no_lift":
			b = ref.B32(nonAbscissa(rng))
		case "ge_p":
			b = ref.B32(geP(rng))
		}
		_, want := ref.LiftXEven(ref.FromBytes(b))
		if want != (r.V == "accept") && !trustSpec {
			return fmt.Errorf("specification says %s, reference says %v for x-only key %x", r.V, want, b)
		}
		if capture != nil {
			capture(r, "XY.ParseXOnlyPubkey", r.V == "accept", func() bool { var xy secp256k1.XY; return xy.ParseXOnlyPubkey(b) })
			return nil
		}
		var got bool
		p := safely(func() {
			var xy secp256k1.XY
			got = xy.ParseXOnlyPubkey(b)
		})
		sum.count(1, 0, 0)
		judge(out, sum, r, "XY.ParseXOnlyPubkey", got, p, line, inst, map[string]string{"pubkey": hx(b)})
		return nil
	}
	var q ref.Point
	switch r.Pk {
	case "uncomp_y_ge_p":
		q = tinyYPoint(rng)
	case "comp_x_ge_p", "uncomp_x_ge_p":
		q = tinyXPoint(rng)
	default:
		q = rndPoint(rng)
	}
	if w := parityWanted(r.Pk); w >= 0 && q.YOdd() != (w == 1) {
		q = q.Neg()
	}
	b, err := encodePk(r.Pk, q, rng)
	if err != nil {
		return err
	}
	_, want := ref.ParsePubKey(b)
	if want != (r.V == "accept") && !trustSpec {
		return fmt.Errorf("specification says %s, reference says %v for key %x", r.V, want, b)
	}
	if capture != nil {
		capture(r, "btc.NewPublicKey", r.V == "accept", func() bool { k, e := btc.NewPublicKey(b); return e == nil && k != nil })
		return nil
	}
	var got, valid bool
	p := safely(func() {
		k, e := btc.NewPublicKey(b)
		got = e == nil && k != nil
		if got {
			valid = k.IsValid()
		}
	})
	sum.count(1, 0, 0)
	if got && !want {
		sum.inc(sum.Observed, fmt.Sprintf("parse:%s:IsValid=%v", r.Pk, valid))
	}
	judge(out, sum, r, "btc.NewPublicKey", got, p, line, inst, map[string]string{"pubkey": hx(b)})
	return nil
}

// ---------------------------------------------------------------- recovery

func rowRecover(out *vio.Out, sum *Summary, r *Row, line []byte, rng *rand.Rand, inst int) error {
	recid := int(r.X1[0] - '0')
	rp, err := pickR(r.Rc, rng, false)
	if err != nil {
		return err
	}
	vs, _, err := pickS(r.Sc, rng, false)
	if err != nil {
		return err
	}
	msg := rnd32(rng)
	sg := ref.Sig{R: rp.V, S: vs}
	wantKey, wantOk := ref.EcdsaRecover(msg, sg, recid)
	switch r.V {
	case "key":
		if !wantOk {
			return fmt.Errorf("specification promises a key, reference finds none (r=%x s=%x recid=%d)", sg.R, sg.S, recid)
		}
	case "none":
		if wantOk {
			return fmt.Errorf("specification promises no key, reference finds one (r=%x s=%x recid=%d)", sg.R, sg.S, recid)
		}
	}
	if wantOk && !ref.EcdsaVerify(wantKey, msg, sg) {
		return fmt.Errorf("reference: recovered key does not verify")
	}
	if capture != nil {
		var wu []byte
		if wantOk {
			wu = ref.SerializePubKey(wantKey, false)
		}
		capture(r, "Signature.RecoverPublicKey", true, func() bool {
			var s btc.Signature
			s.R.Set(sg.R)
			s.S.Set(sg.S)
			k := s.RecoverPublicKey(msg, recid)
			if k == nil {
				return !wantOk
			}
			return wantOk && bytes.Equal(k.Bytes(false), wu)
		})
		return nil
	}
	var gotC, gotU, normU []byte
	var got bool
	p := safely(func() {
		var s btc.Signature
		s.R.Set(sg.R)
		s.S.Set(sg.S)
		k := s.RecoverPublicKey(msg, recid)
		got = k != nil
		if got {
			gotC, gotU = k.Bytes(true), k.Bytes(false)
			k.X.Normalize()
			k.Y.Normalize()
			normU = k.Bytes(false)
		}
	})
	sum.count(1, 1, 0)
	bts := map[string]string{"r": sg.R.Text(16), "s": sg.S.Text(16), "msg": hx(msg), "recid": fmt.Sprint(recid)}
	cls := strings.Join([]string{r.Rc, r.Sc}, ":")
	switch {
	case p != "":
		report(out, sum, "C03:recover:panic", "Signature.RecoverPublicKey panicked: "+p, line, inst, bts, nil)
	case got && !wantOk:
		bts["got"] = hx(gotC)
		report(out, sum, "C03:recover:key-for-invalid:"+cls, "Signature.RecoverPublicKey returns a key for a signature with no key (class "+rowKey(r)+")", line, inst, bts, nil)
	case !got && wantOk:
		report(out, sum, "C03:recover:no-key:"+cls, "Signature.RecoverPublicKey returns nothing for class "+rowKey(r), line, inst, bts, nil)
	case got:
		wc, wu := ref.SerializePubKey(wantKey, true), ref.SerializePubKey(wantKey, false)
		if !bytes.Equal(gotC, wc) || !bytes.Equal(gotU, wu) {
			bts["got_compressed"], bts["got"], bts["want"] = hx(gotC), hx(gotU), hx(wu)
			if bytes.Equal(normU, wu) {
				report(out, sum, "C03:recover:key-bytes-unnormalised", "the key returned by Signature.RecoverPublicKey serialises (PublicKey.Bytes) to other bytes than the signer's key: its coordinates are not normalised", line, inst, bts, nil)
			} else {
				report(out, sum, "C03:recover:wrong-key", "Signature.RecoverPublicKey returns another key than SEC 1 4.1.6", line, inst, bts, nil)
			}
		}
	}
	return nil
}

// ---------------------------------------------------------------- IsLowS / Bytes

func rowLowS(out *vio.Out, sum *Summary, r *Row, line []byte, rng *rand.Rand, inst int) error {
	var s *big.Int
	half := ref.HalfN
	switch r.Sc {
	case "one":
		s = bi(1)
	case "half":
		s = new(big.Int).Set(half)
	case "half1":
		s = add(half, bi(1))
	case "nm1":
		s = nMinus1
	case "mid_low":
		s = add(bi(2), rndBelow(rng, sub(half, bi(3))))
	case "mid_high":
		s = add(add(half, bi(2)), rndBelow(rng, sub(half, bi(3))))
	default:
		return fmt.Errorf("unknown s class %q", r.Sc)
	}
	want := s.Cmp(ref.HalfN) <= 0
	if want != (r.V == "accept") && !trustSpec {
		return fmt.Errorf("specification says %s for s=%x, reference says %v", r.V, s, want)
	}
	rr := rndPointX(rng, rng.Intn(2) == 0, nil).X
	var got bool
	var enc []byte
	p := safely(func() {
		var sg btc.Signature
		sg.R.Set(rr)
		sg.S.Set(s)
		got = sg.IsLowS()
		enc = sg.Signature.Bytes()
	})
	sum.count(1, 1, 0)
	bts := map[string]string{"r": rr.Text(16), "s": s.Text(16)}
	judge(out, sum, r, "Signature.IsLowS", got, p, line, inst, bts)
	if p == "" {
		want := ref.EncodeDER(ref.Sig{R: rr, S: s})
		if !bytes.Equal(enc, want) || !ref.IsStrictDER(enc) {
			bts["got"], bts["want"] = hx(enc), hx(want)
			report(out, sum, "C03:der:bytes:"+r.Sc, "Signature.Bytes is not the canonical DER encoding", line, inst, bts, nil)
		}
	}
	return nil
}
