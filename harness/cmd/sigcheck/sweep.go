package main

import (
	"bytes"
	"fmt"
	"math/big"
	"sync"

	"github.com/piotrnar/gocoin/lib/btc"

	"verifharness/ref"
	"verifharness/vio"
)

// Sweeps: long arithmetic progressions of scalars, so that the reference needs one point addition per element
// (every chunk starts from a full scalar multiplication, which also cross-checks the additions of the previous
// chunk).  They reach what class tables cannot: events that depend on the internal representation of a result
// (a coordinate that happens to be left un-normalised) and therefore occur once in tens of thousands of keys.
//
//	derive   btc.PublicFromPrivate(d0 + i*delta, compressed / uncompressed)        = (d0 + i*delta) G
//	next     btc.DeriveNextPublic(pub, s0 + i)                                     = pub + (s0 + i) G
//	recover  Signature{r, s}.RecoverPublicKey(e0 - i*sigma*r, recid).Bytes(c / u)  = Q0 + i*sigma*G
const chunk = 2048

type sweepStat struct {
	mu       sync.Mutex
	n        int
	hits     map[string]int
	reported map[string]int
}

func (s *sweepStat) hit(out *vio.Out, sum *Summary, sig, what string, bts map[string]string) {
	s.mu.Lock()
	s.hits[sig]++
	s.mu.Unlock()
	report(out, sum, sig, what, []byte(`{"tab":"sweep"}`), 0, bts, nil)
}

func sweep(out *vio.Out, seed int64, n, workers int) {
	sum := newSummary()
	st := &sweepStat{hits: map[string]int{}, reported: map[string]int{}}
	rng := rngFor(seed, "sweep", 0)
	d0, delta := rndScalar(rng), rndScalar(rng)
	pub0 := rndPoint(rng)
	s0 := rndScalar(rng)
	// recovery: fixed (r, s), messages in progression
	kR := rndScalar(rng)
	rPt := ref.BaseMul(kR)
	for rPt.X.Cmp(ref.N) >= 0 {
		kR = rndScalar(rng)
		rPt = ref.BaseMul(kR)
	}
	rr, ss := rPt.X, rndScalar(rng)
	recid := 0
	if rPt.YOdd() {
		recid = 1
	}
	e0, sigma := rndScalar(rng), rndScalar(rng)
	sigmaR := ref.ModN(mul(sigma, rr))

	nchunks := (n + chunk - 1) / chunk
	jobs := make(chan []byte, nchunks)
	for c := 0; c < nchunks; c++ {
		jobs <- []byte(fmt.Sprint(c))
	}
	close(jobs)
	dG := ref.BaseMul(delta)
	sG := ref.BaseMul(sigma)
	vio.Pool(workers, jobs, func(w int, job []byte) {
		var c int
		fmt.Sscan(string(job), &c)
		lo := c * chunk
		hi := lo + chunk
		if hi > n {
			hi = n
		}
		bl := big.NewInt(int64(lo))
		// derive
		d := ref.ModN(add(d0, mul(bl, delta)))
		p := ref.BaseMul(d)
		// next
		sc := ref.ModN(add(s0, bl))
		np := pub0.Add(ref.BaseMul(sc))
		// recover
		e := ref.ModN(sub(e0, mul(bl, sigmaR)))
		q, okq := ref.EcdsaRecover(ref.B32(e), ref.Sig{R: rr, S: ss}, recid)
		if !okq {
			sum.infra("recover sweep: reference finds no key")
			return
		}
		pub0c := ref.SerializePubKey(pub0, true)
		for i := lo; i < hi; i++ {
			if d.Sign() != 0 && !p.Inf {
				d32 := ref.B32(d)
				wc, wu := ref.SerializePubKey(p, true), ref.SerializePubKey(p, false)
				var gc, gu []byte
				pn := safely(func() { gc, gu = btc.PublicFromPrivate(d32, true), btc.PublicFromPrivate(d32, false) })
				sum.count(2, 2, 0)
				bts := map[string]string{"seckey": hx(d32), "got_compressed": hx(gc), "want_compressed": hx(wc), "got_uncompressed": hx(gu), "want_uncompressed": hx(wu)}
				switch {
				case pn != "":
					st.hit(out, sum, "C03:pubkey:panic", "btc.PublicFromPrivate panicked: "+pn, bts)
				case !bytes.Equal(gu, wu):
					st.hit(out, sum, "C03:pubkey:uncompressed-wrong", "btc.PublicFromPrivate(priv, false) is not priv*G", bts)
				case !bytes.Equal(gc, wc) && len(gc) == 33 && bytes.Equal(gc[1:], wc[1:]):
					st.hit(out, sum, "C03:pubkey:compressed-prefix-parity", fmt.Sprintf("btc.PublicFromPrivate(priv, true) returns prefix %02x for a key whose y is %s (the uncompressed form of the same call is right)", gc[0], map[bool]string{true: "odd", false: "even"}[p.YOdd()]), bts)
				case !bytes.Equal(gc, wc):
					st.hit(out, sum, "C03:pubkey:compressed-wrong", "btc.PublicFromPrivate(priv, true) is not priv*G", bts)
				}
			}
			if !np.Inf {
				s32 := ref.B32(sc)
				want := ref.SerializePubKey(np, true)
				var got []byte
				pn := safely(func() { got = btc.DeriveNextPublic(pub0c, s32) })
				sum.count(1, 1, 0)
				bts := map[string]string{"pubkey": hx(pub0c), "secret": hx(s32), "got": hx(got), "want": hx(want)}
				switch {
				case pn != "":
					st.hit(out, sum, "C03:derive-next:panic", "btc.DeriveNextPublic panicked: "+pn, bts)
				case !bytes.Equal(got, want) && len(got) == 33 && bytes.Equal(got[1:], want[1:]):
					st.hit(out, sum, "C03:derive-next:compressed-prefix-parity", "btc.DeriveNextPublic returns the wrong parity prefix", bts)
				case !bytes.Equal(got, want):
					st.hit(out, sum, "C03:derive-next:wrong", "btc.DeriveNextPublic(pub, s) is not pub + s*G", bts)
				}
			}
			if !q.Inf {
				m32 := ref.B32(e)
				wc, wu := ref.SerializePubKey(q, true), ref.SerializePubKey(q, false)
				var gc, gu, nu []byte
				got := false
				pn := safely(func() {
					var s btc.Signature
					s.R.Set(rr)
					s.S.Set(ss)
					k := s.RecoverPublicKey(m32, recid)
					if k != nil {
						got = true
						gc, gu = k.Bytes(true), k.Bytes(false)
						k.X.Normalize()
						k.Y.Normalize()
						nu = k.Bytes(false)
					}
				})
				sum.count(1, 1, 0)
				bts := map[string]string{"r": rr.Text(16), "s": ss.Text(16), "msg": hx(m32), "recid": fmt.Sprint(recid), "got_compressed": hx(gc), "got_uncompressed": hx(gu), "want_compressed": hx(wc), "want_uncompressed": hx(wu)}
				switch {
				case pn != "":
					st.hit(out, sum, "C03:recover:panic", "Signature.RecoverPublicKey panicked: "+pn, bts)
				case !got:
					st.hit(out, sum, "C03:recover:no-key:mid:mid", "Signature.RecoverPublicKey returns nothing for a valid signature", bts)
				case bytes.Equal(gc, wc) && bytes.Equal(gu, wu):
				case bytes.Equal(nu, wu):
					st.hit(out, sum, "C03:recover:key-bytes-unnormalised", "the key returned by Signature.RecoverPublicKey serialises (PublicKey.Bytes) to other bytes than SEC 1 4.1.6's key: its coordinates are not normalised", bts)
				default:
					st.hit(out, sum, "C03:recover:wrong-key", "Signature.RecoverPublicKey returns another key than SEC 1 4.1.6", bts)
				}
			}
			// next element of each progression
			d = ref.ModN(add(d, delta))
			p = p.Add(dG)
			sc = ref.ModN(add(sc, bi(1)))
			np = np.Add(ref.G)
			e = ref.ModN(sub(e, sigmaR))
			q = q.Add(sG)
		}
		// the additions of this chunk against a fresh multiplication
		if !p.Equal(ref.BaseMul(d)) || !np.Equal(pub0.Add(ref.BaseMul(sc))) {
			sum.infra("sweep: incremental reference diverged in chunk %d", c)
		}
	})
	sum.Observed = st.hits
	sum.Tabs["sweep"] = n
	sum.NonTriv = n
	flushFails(out)
	out.Put(sum)
}
