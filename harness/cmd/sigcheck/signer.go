package main

import (
	"bytes"
	"fmt"
	"math/big"
	"math/rand"
	"sync"

	"github.com/piotrnar/gocoin/lib/btc"
	"github.com/piotrnar/gocoin/lib/secp256k1"

	"verifharness/ref"
	"verifharness/vio"
)

// btc.EcdsaSignWithRFC6979 is a package-level switch: calls that depend on it are serialised.
var signMu sync.Mutex

func keyOfClass(kc string, rng *rand.Rand) (*big.Int, error) {
	switch kc {
	case "one":
		return bi(1), nil
	case "two":
		return bi(2), nil
	case "nm1":
		return nMinus1, nil
	case "high":
		for {
			d := rndScalar(rng)
			if d.Bit(255) == 1 {
				return d, nil
			}
		}
	case "mid_even", "mid_odd":
		for {
			d := rndScalar(rng)
			if ref.BaseMul(d).YOdd() == (kc == "mid_odd") {
				return d, nil
			}
		}
	}
	return nil, fmt.Errorf("unknown key class %q", kc)
}

func bytesOfClass(c string, rng *rand.Rand) ([]byte, error) {
	switch c {
	case "zero":
		return make([]byte, 32), nil
	case "mid":
		return rnd32(rng), nil
	case "nm1":
		return ref.B32(nMinus1), nil
	case "n":
		return ref.B32(ref.N), nil
	case "max":
		return ref.B32(max256), nil
	}
	return nil, fmt.Errorf("unknown message / aux class %q", c)
}

// msgRange: is the message, read as an integer, below the group order?  (RFC 6979 reduces it, bits2octets)
func msgRange(mc string) string {
	if mc == "n" || mc == "max" {
		return "ge-n"
	}
	return "lt-n"
}

type signerState struct {
	kind     string
	d        *big.Int
	d32      []byte
	q        ref.Point
	pubC     []byte
	pubU     []byte
	xonly    []byte
	msg, aux []byte
	r, s     *big.Int // ECDSA
	sig64    []byte   // BIP 340
	// what is offered to the verifiers (differs from the above after a Tamper step)
	vmsg, vkeyC, vkeyU, vx []byte
	vr, vs                 *big.Int
	vsig64                 []byte
	tampered               bool
}

func replaySigner(out *vio.Out, sum *Summary, ln *SignerLine, line []byte, rng *rand.Rand, inst int) {
	d, err := keyOfClass(ln.Cls.Kc, rng)
	if err != nil {
		sum.infra("%v", err)
		return
	}
	st := &signerState{d: d, d32: ref.B32(d)}
	st.q = ref.BaseMul(d)
	st.pubC, st.pubU = ref.SerializePubKey(st.q, true), ref.SerializePubKey(st.q, false)
	st.xonly = ref.B32(st.q.X)
	if st.msg, err = bytesOfClass(ln.Cls.Mc, rng); err != nil {
		sum.infra("%v", err)
		return
	}
	if st.aux, err = bytesOfClass(ln.Cls.Ac, rng); err != nil {
		sum.infra("%v", err)
		return
	}
	cls := ln.Cls.Kc + "/" + ln.Cls.Mc + "/" + ln.Cls.Ac
	base := map[string]string{"seckey": hx(st.d32), "msg": hx(st.msg), "aux": hx(st.aux)}
	fail := func(sig, what string, extra map[string]string) {
		b := map[string]string{}
		for k, v := range base {
			b[k] = v
		}
		for k, v := range extra {
			b[k] = v
		}
		report(out, sum, sig, what+" (classes "+cls+")", line, inst, b, nil)
	}
	last := ""
	for i, step := range ln.Steps {
		lastStep := i == len(ln.Steps)-1
		switch step.A {
		case "Sign":
			if !doSign(sum, st, step, ln.Cls.Mc, fail) {
				return
			}
		case "Observe":
			doObserve(sum, st, step, ln.Cls.Mc, fail, rng)
		case "Tamper":
			if !doTamper(sum, st, step.X, rng) {
				return // no usable mutation for this instance (the reference still accepts): nothing to judge
			}
			doVerify(sum, st, step, fail)
		default:
			sum.infra("unknown signer action %q", step.A)
			return
		}
		if lastStep {
			last = step.A + ":" + step.X
		}
	}
	sum.count(1, 0, 0)
	sum.inc(sum.Tabs, "signer")
	sum.inc(sum.Distinct, "signer|"+string(bytes.TrimSpace(line)))
	_ = last
}

func (st *signerState) present() {
	st.vmsg, st.vkeyC, st.vkeyU, st.vx = st.msg, st.pubC, st.pubU, st.xonly
	st.vr, st.vs, st.vsig64 = st.r, st.s, st.sig64
	st.tampered = false
}

// guarded places b in the middle of a larger buffer filled with a pattern and returns the sub-slice (its capacity
// reaches to the end of the buffer, as for a key stored inside a bigger array) and a function telling whether any
// byte of the whole buffer - the operand or its surroundings - was changed.
func guarded(b []byte) ([]byte, func() string) {
	buf := make([]byte, 24+len(b)+104)
	for i := range buf {
		buf[i] = byte(0xC3 ^ i*7)
	}
	copy(buf[24:], b)
	orig := append([]byte(nil), buf...)
	return buf[24 : 24+len(b)], func() string {
		for i := range buf {
			if buf[i] != orig[i] {
				where := "the operand itself"
				if i < 24 {
					where = "memory before the operand"
				} else if i >= 24+len(b) {
					where = "memory behind the operand (within the capacity of the slice)"
				}
				return fmt.Sprintf("%s changed at offset %d: now %x", where, i-24, buf[24:24+len(b)+64])
			}
		}
		return ""
	}
}

func libEcdsaSign(rfc bool, d32, msg []byte) (r, s *big.Int, err error, p string) {
	r, s, err, p, _ = libEcdsaSignG(rfc, d32, msg)
	return
}

// libEcdsaSignG signs with key and digest passed as sub-slices of guarded buffers and signs a SECOND time with the
// very same slices; changed != "" when an operand or its surroundings were modified or the second signature of the
// deterministic mode differs / the second signature is not valid for the original key.
func libEcdsaSignG(rfc bool, d32, msg []byte) (r, s *big.Int, err error, p string, changed string) {
	signMu.Lock()
	defer signMu.Unlock()
	key, keyChk := guarded(d32)
	dig, digChk := guarded(msg)
	p = safely(func() {
		btc.EcdsaSignWithRFC6979 = rfc
		rr, ss, e := btc.EcdsaSign(key, dig)
		err = e
		if rr != nil && ss != nil {
			r, s = new(big.Int).Set(rr), new(big.Int).Set(ss)
		}
		if c := keyChk(); c != "" {
			changed = "secret key: " + c
		} else if c := digChk(); c != "" {
			changed = "digest: " + c
		}
		// the same key and digest objects again
		r2, s2, e2 := btc.EcdsaSign(key, dig)
		if changed == "" && e == nil && r != nil {
			q := ref.BaseMul(ref.FromBytes(d32))
			switch {
			case e2 != nil || r2 == nil:
				changed = "second signature with the same key object fails"
			case !ref.EcdsaVerify(q, msg, ref.Sig{R: r2, S: s2}):
				changed = fmt.Sprintf("second signature with the same key object is not valid for the key: r=%x s=%x", r2, s2)
			case rfc && (r2.Cmp(r) != 0 || s2.Cmp(s) != 0):
				changed = "second RFC 6979 signature with the same key object differs from the first"
			}
		}
	})
	return
}

func doSign(sum *Summary, st *signerState, step Step, mc string, fail func(string, string, map[string]string)) bool {
	st.kind = step.X
	k := st.kind
	switch k {
	case "rand", "rfc":
		r, s, err, p, changed := libEcdsaSignG(k == "rfc", st.d32, st.msg)
		sum.count(0, 2, 0)
		if p != "" || err != nil || r == nil {
			fail("C03:signer:"+k+":fails", fmt.Sprintf("btc.EcdsaSign fails: %v %s", err, p), nil)
			return false
		}
		if changed != "" {
			fail("C03:signer:"+k+":operand-changed", "btc.EcdsaSign does not leave its operands alone (key and digest passed as sub-slices of larger buffers, then used for a second signature): "+changed, nil)
		}
		st.r, st.s, st.sig64 = r, s, nil
		st.present()
		ex := map[string]string{"r": r.Text(16), "s": s.Text(16)}
		sum.count(0, 1, 0)
		if !ref.EcdsaVerify(st.q, st.msg, ref.Sig{R: r, S: s}) {
			fail("C03:signer:"+k+":invalid-signature", "a signature made by btc.EcdsaSign is not a valid ECDSA signature (SEC 1 4.1.4)", ex)
		}
		if step.P.LowS {
			var bs btc.Signature
			bs.R.Set(r)
			bs.S.Set(s)
			sum.count(0, 1, 0)
			if s.Cmp(ref.HalfN) > 0 || !bs.IsLowS() {
				fail("C03:signer:"+k+":high-s", "btc.EcdsaSign returns s > (n-1)/2", ex)
			}
		}
		if step.P.StrictDer {
			var bs btc.Signature
			bs.R.Set(r)
			bs.S.Set(s)
			bs.HashType = 1
			enc := bs.Bytes()
			sum.count(0, 1, 0)
			if len(enc) == 0 || !ref.IsStrictDER(enc[:len(enc)-1]) || !bytes.Equal(enc[:len(enc)-1], ref.EncodeDER(ref.Sig{R: r, S: s})) || enc[len(enc)-1] != 1 {
				ex["der"] = hx(enc)
				fail("C03:signer:"+k+":der-not-canonical", "Signature.Bytes of an own signature is not canonical DER + hash type", ex)
			}
		}
		if step.P.EqualsRef {
			want, _, e := ref.EcdsaSignRFC6979(st.d, st.msg)
			sum.count(0, 1, 0)
			if e != nil {
				sum.infra("reference signer: %v", e)
			} else if want.R.Cmp(r) != 0 || want.S.Cmp(s) != 0 {
				ex["want_r"], ex["want_s"] = want.R.Text(16), want.S.Text(16)
				fail("C03:signer:rfc:not-reference:msg-"+msgRange(mc), "btc.EcdsaSign with EcdsaSignWithRFC6979 differs from deterministic ECDSA (RFC 6979, SHA-256, low S)", ex)
			}
		}
	case "bip340":
		var sig, sig2 []byte
		gm, gmChk := guarded(st.msg)
		gk, gkChk := guarded(st.d32)
		ga, gaChk := guarded(st.aux)
		p := safely(func() {
			sig = secp256k1.SchnorrSign(gm, gk, ga)
			sig = append([]byte(nil), sig...)
			sig2 = secp256k1.SchnorrSign(gm, gk, ga)
		})
		sum.count(0, 2, 0)
		if p != "" || len(sig) != 64 {
			fail("C03:signer:bip340:fails", "secp256k1.SchnorrSign fails: "+p, nil)
			return false
		}
		for name, chk := range map[string]func() string{"message": gmChk, "secret key": gkChk, "aux": gaChk} {
			if c := chk(); c != "" {
				fail("C03:signer:bip340:operand-changed", "secp256k1.SchnorrSign does not leave its operands alone: "+name+": "+c, nil)
			}
		}
		if !bytes.Equal(sig, sig2) {
			fail("C03:signer:bip340:operand-changed", "a second BIP 340 signature with the same operand objects differs from the first", map[string]string{"sig": hx(sig), "again": hx(sig2)})
		}
		st.sig64, st.r, st.s = append([]byte(nil), sig...), nil, nil
		st.present()
		ex := map[string]string{"sig": hx(sig)}
		sum.count(0, 1, 0)
		if !ref.SchnorrVerify(st.xonly, st.msg, sig) {
			fail("C03:signer:bip340:invalid-signature", "a signature made by secp256k1.SchnorrSign fails BIP 340 verification", ex)
		}
		if step.P.EqualsRef {
			want, e := ref.SchnorrSign(st.d32, st.msg, st.aux)
			sum.count(0, 1, 0)
			if e != nil {
				sum.infra("reference signer: %v", e)
			} else if !bytes.Equal(want, sig) {
				ex["want"] = hx(want)
				fail("C03:signer:bip340:not-reference", "secp256k1.SchnorrSign differs from BIP 340 default signing", ex)
			}
		}
	default:
		sum.infra("unknown signer kind %q", k)
		return false
	}
	doVerify(sum, st, step, fail)
	return true
}

// doVerify offers the current (possibly tampered) triple to the library's verifiers.
func doVerify(sum *Summary, st *signerState, step Step, fail func(string, string, map[string]string)) {
	want := step.P.Verifies
	tag := "refused-own-signature"
	if !want {
		tag = "accepts-tampered"
	}
	switch st.kind {
	case "rand", "rfc":
		der := ref.EncodeDER(ref.Sig{R: st.vr, S: st.vs})
		for _, v := range []struct {
			name string
			key  []byte
			sig  []byte
		}{{"compressed", st.vkeyC, der}, {"uncompressed", st.vkeyU, append(append([]byte(nil), der...), 1)}} {
			var got bool
			p := safely(func() { got = btc.EcdsaVerify(v.key, v.sig, st.vmsg) })
			sum.count(0, 1, 0)
			if p != "" || got != want {
				fail("C03:signer:"+st.kind+":"+tag, fmt.Sprintf("btc.EcdsaVerify(%s key) = %v %s, expected %v", v.name, got, p, want),
					map[string]string{"pubkey": hx(v.key), "sig": hx(v.sig), "vmsg": hx(st.vmsg)})
			}
		}
	case "bip340":
		var got bool
		p := safely(func() { got = btc.SchnorrVerify(st.vx, st.vsig64, st.vmsg) })
		sum.count(0, 1, 0)
		if p != "" || got != want {
			fail("C03:signer:bip340:"+tag, fmt.Sprintf("btc.SchnorrVerify = %v %s, expected %v", got, p, want),
				map[string]string{"pubkey": hx(st.vx), "sig": hx(st.vsig64), "vmsg": hx(st.vmsg)})
		}
	}
}

func flipBit(b []byte, rng *rand.Rand, from int) []byte {
	o := append([]byte(nil), b...)
	i := from*8 + rng.Intn((len(b)-from)*8)
	o[i/8] ^= 1 << uint(i%8)
	return o
}

// doTamper flips one bit of the message, r, s or the key (x coordinate).  False = the reference still accepts.
func doTamper(sum *Summary, st *signerState, what string, rng *rand.Rand) bool {
	st.present()
	ecdsa := st.kind != "bip340"
	switch what {
	case "msg":
		st.vmsg = flipBit(st.msg, rng, 0)
	case "key":
		if ecdsa {
			x := flipBit(st.pubC[1:], rng, 0)
			st.vkeyC = cat(st.pubC[:1], x)
			st.vkeyU = cat(st.pubU[:1], x, st.pubU[33:])
		} else {
			st.vx = flipBit(st.xonly, rng, 0)
		}
	case "r":
		if ecdsa {
			st.vr = ref.FromBytes(flipBit(ref.B32(st.r), rng, 0))
		} else {
			st.vsig64 = cat(flipBit(st.sig64[:32], rng, 0), st.sig64[32:])
		}
	case "s":
		if ecdsa {
			st.vs = ref.FromBytes(flipBit(ref.B32(st.s), rng, 0))
		} else {
			st.vsig64 = cat(st.sig64[:32], flipBit(st.sig64[32:], rng, 0))
		}
	}
	st.tampered = true
	// the specification says a tampered triple is refused; make sure the reference agrees for these bytes
	still := false
	if ecdsa {
		for _, k := range [][]byte{st.vkeyC, st.vkeyU} {
			if q, ok := ref.ParsePubKey(k); ok && ref.EcdsaVerify(q, st.vmsg, ref.Sig{R: st.vr, S: st.vs}) {
				still = true
			}
		}
	} else {
		still = ref.SchnorrVerify(st.vx, st.vmsg, st.vsig64)
	}
	if still {
		sum.inc(sum.Observed, "tamper-still-valid")
		return false
	}
	return true
}

func doObserve(sum *Summary, st *signerState, step Step, mc string, fail func(string, string, map[string]string), rng *rand.Rand) {
	doVerify(sum, st, step, fail)
	if st.tampered {
		return
	}
	k := st.kind
	switch k {
	case "rand", "rfc":
		sg := ref.Sig{R: st.r, S: st.s}
		ex := map[string]string{"r": st.r.Text(16), "s": st.s.Text(16)}
		// recovery, all four ids, against SEC 1 4.1.6; the signer's key must be among them
		found := false
		for recid := 0; recid < 4; recid++ {
			wantKey, wantOk := ref.EcdsaRecover(st.msg, sg, recid)
			var got bool
			var gotU, normU []byte
			p := safely(func() {
				var s btc.Signature
				s.R.Set(st.r)
				s.S.Set(st.s)
				key := s.RecoverPublicKey(st.msg, recid)
				got = key != nil
				if got {
					gotU = key.Bytes(false)
					key.X.Normalize()
					key.Y.Normalize()
					normU = key.Bytes(false)
				}
			})
			sum.count(0, 1, 0)
			ex["recid"] = fmt.Sprint(recid)
			switch {
			case p != "":
				fail("C03:recover:panic", "Signature.RecoverPublicKey panicked: "+p, ex)
			case got != wantOk:
				fail("C03:signer:"+k+":recover-differs", fmt.Sprintf("Signature.RecoverPublicKey found a key: %v, SEC 1 4.1.6: %v", got, wantOk), ex)
			case got:
				wu := ref.SerializePubKey(wantKey, false)
				if !bytes.Equal(gotU, wu) {
					ex["got"], ex["want"] = hx(gotU), hx(wu)
					if bytes.Equal(normU, wu) {
						fail("C03:recover:key-bytes-unnormalised", "the key returned by Signature.RecoverPublicKey serialises (PublicKey.Bytes) to other bytes than the signer's key: its coordinates are not normalised", ex)
					} else {
						fail("C03:signer:"+k+":recover-wrong-key", "Signature.RecoverPublicKey returns another key than SEC 1 4.1.6", ex)
					}
				}
				if bytes.Equal(normU, st.pubU) {
					found = true
				}
			}
		}
		delete(ex, "recid")
		sum.count(0, 1, 0)
		if step.P.Recovers && !found {
			fail("C03:signer:"+k+":recover-not-signer", "no recovery id gives back the signer's public key", ex)
		}
		// DER round trip through NewSignature
		ht := byte(1 + rng.Intn(3))
		enc := append(ref.EncodeDER(sg), ht)
		var back *btc.Signature
		p := safely(func() { back, _ = btc.NewSignature(enc) })
		sum.count(0, 1, 0)
		if p != "" || back == nil || back.R.Cmp(st.r) != 0 || back.S.Cmp(st.s) != 0 || back.HashType != ht || !bytes.Equal(back.Bytes(), enc) {
			ex["der"] = hx(enc)
			fail("C03:signer:"+k+":der-roundtrip", "btc.NewSignature / Signature.Bytes do not round-trip an own signature "+p, ex)
		}
		// signing again
		r2, s2, err, p2 := libEcdsaSign(k == "rfc", st.d32, st.msg)
		sum.count(0, 1, 0)
		switch {
		case p2 != "" || err != nil || r2 == nil:
			fail("C03:signer:"+k+":fails", "btc.EcdsaSign fails when signing again "+p2, ex)
		case k == "rfc" && (r2.Cmp(st.r) != 0 || s2.Cmp(st.s) != 0):
			fail("C03:signer:rfc:not-deterministic", "two RFC 6979 signatures of the same message differ", ex)
		case !ref.EcdsaVerify(st.q, st.msg, ref.Sig{R: r2, S: s2}) || s2.Cmp(ref.HalfN) > 0:
			fail("C03:signer:"+k+":invalid-signature", "second signature invalid or high S", ex)
		}
		if k == "rfc" {
			// the low-level signer with the reference's nonce: same (r, s) and the recovery id of SEC 1 4.1.6
			nonce := ref.RFC6979Nonce(ref.N, st.d, st.msg, nil)
			want, wantId, e := ref.EcdsaSignWithNonce(st.d, st.msg, nonce)
			if e != nil {
				sum.infra("reference signer: %v", e)
				return
			}
			var sig secp256k1.Signature
			var sec, m, non secp256k1.Number
			recid := -1
			res := 0
			p := safely(func() {
				sec.SetBytes(st.d32)
				m.SetBytes(st.msg)
				non.SetBytes(ref.B32(nonce))
				res = sig.Sign(&sec, &m, &non, &recid)
			})
			sum.count(0, 1, 0)
			if p != "" || res != 1 || sig.R.Cmp(want.R) != 0 || sig.S.Cmp(want.S) != 0 {
				ex["nonce"] = nonce.Text(16)
				fail("C03:signer:sign:not-reference", "secp256k1.Signature.Sign with a given nonce differs from SEC 1 4.1.3 + low S "+p, ex)
			} else if recid != wantId {
				ex["nonce"], ex["got_recid"], ex["want_recid"] = nonce.Text(16), fmt.Sprint(recid), fmt.Sprint(wantId)
				fail("C03:signer:sign:recid", "secp256k1.Signature.Sign reports the wrong recovery id", ex)
			}
		}
	case "bip340":
		var again []byte
		p := safely(func() { again = secp256k1.SchnorrSign(st.msg, st.d32, st.aux) })
		sum.count(0, 1, 0)
		if p != "" || !bytes.Equal(again, st.sig64) {
			fail("C03:signer:bip340:not-deterministic", "two BIP 340 signatures with the same inputs differ "+p, map[string]string{"sig": hx(st.sig64), "again": hx(again)})
		}
	}
}
