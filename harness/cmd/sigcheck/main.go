// sigcheck: conformance driver binding spec/SigCheck.tla (decision tables written from SEC 1 / BIP 66 /
// BIP 340 / BIP 341 / RFC 6979 and the signer machine) to lib/btc and lib/secp256k1.
//
//	sigcheck selftest
//	    runs the self-test of the reference (harness/ref) against the published vectors and re-checks the
//	    facts about secp256k1 that the specification states (RIsAbscissa).
//	sigcheck replay -in <lines> -seed N -inst K -workers N
//	    every line is a table row {"tab":..,"pk":..,"rc":..,"sc":..,"eq":..,"der":..,"x1":..,"x2":..,"v":..,
//	    "rules":[..],"cons":..} or a signer transition {"cls":{kc,mc,ac},"steps":[{a,x,p}..]}.  For a row the
//	    driver builds -inst concrete representatives ALGEBRAICALLY with the reference (never with gocoin), asks
//	    the real code (btc.EcdsaVerify, btc.SchnorrVerify, btc.CheckPayToContract, btc.NewPublicKey,
//	    XY.ParseXOnlyPubkey, Signature.RecoverPublicKey, IsLowS, Bytes) and compares with the row's verdict.
//	    For a signer transition it replays the path on btc.EcdsaSign (both nonce modes), secp256k1.SchnorrSign,
//	    Signature.Sign and compares with the promise and with the reference signer.
//	sigcheck txsign -n N -seed N -workers N
//	    Tx.Sign / Tx.SignWitness over at least N seeded transactions (more until every r / s length class is reached).
//	sigcheck stress -in <rows> -seed N -inst K -workers G -rounds R -procs P
//	    concurrency stage: the representatives of the rows are built once, then G goroutines call the real code on
//	    them concurrently; every answer must be the table's verdict (also run under the race build).
//	sigcheck sweep -n N -seed N -workers N
//	    public-key derivation / recovery sweeps over arithmetic progressions of scalars, compared with the
//	    reference (which only needs one point addition per element).
//	sigcheck mutate -n N -flips K -seed N -workers N
//	    single-bit mutations of valid (key, signature, message) triples; verdict by the reference.
//
// Output: one JSON line per failure {"ok":false,"sig":<stable signature>,"what":..,"line":..,"inst":..,"bytes":{..}},
// then one summary line {"summary":true,...}.  A disagreement between the specification's verdict and the
// reference's verdict on the bytes that were built is reported as "infra" (broken machinery), never as a failure
// of the code.
package main

import (
	"crypto/sha256"
	"encoding/binary"
	"encoding/hex"
	"encoding/json"
	"flag"
	"fmt"
	"math/big"
	"math/rand"
	"os"
	"sort"
	"strings"
	"sync"

	"verifharness/ref"
	"verifharness/vio"
)

// ---------------------------------------------------------------- line formats

type Row struct {
	Tab   string   `json:"tab"`
	Pk    string   `json:"pk"`
	Rc    string   `json:"rc"`
	Sc    string   `json:"sc"`
	Eq    bool     `json:"eq"`
	Der   string   `json:"der"`
	X1    string   `json:"x1"`
	X2    string   `json:"x2"`
	V     string   `json:"v"`
	Rules []string `json:"rules"`
	Cons  bool     `json:"cons"`
}

type Promise struct {
	Verifies  bool `json:"verifies"`
	LowS      bool `json:"lowS"`
	StrictDer bool `json:"strictDer"`
	EqualsRef bool `json:"equalsRef"`
	Recovers  bool `json:"recovers"`
}

type Step struct {
	A string  `json:"a"`
	X string  `json:"x"`
	P Promise `json:"p"`
}

type SignerLine struct {
	Cls struct {
		Kc string `json:"kc"`
		Mc string `json:"mc"`
		Ac string `json:"ac"`
	} `json:"cls"`
	Steps []Step `json:"steps"`
}

type Line struct {
	Row
	SignerLine
}

// Fail is one reported disagreement between the real code and the specification.
type Fail struct {
	Ok    bool              `json:"ok"`
	Sig   string            `json:"sig"`
	What  string            `json:"what"`
	Line  json.RawMessage   `json:"line,omitempty"`
	Raw   string            `json:"raw,omitempty"` // the exported line verbatim (it seeds the representative's PRNG)
	Inst  int               `json:"inst"`
	Bytes map[string]string `json:"bytes,omitempty"`
	Rules []string          `json:"rules,omitempty"`
}

// ---------------------------------------------------------------- deterministic randomness

// rngFor derives the PRNG of one (seed, line, instance): the same case gives the same bytes on every run.
func rngFor(seed int64, key string, inst int) *rand.Rand {
	h := sha256.New()
	var b [16]byte
	binary.LittleEndian.PutUint64(b[:8], uint64(seed))
	binary.LittleEndian.PutUint64(b[8:], uint64(inst))
	h.Write(b[:])
	h.Write([]byte(key))
	s := h.Sum(nil)
	return rand.New(rand.NewSource(int64(binary.LittleEndian.Uint64(s[:8]))))
}

func rnd32(r *rand.Rand) []byte {
	b := make([]byte, 32)
	r.Read(b)
	return b
}

// rndScalar: uniform in [2, n-3] (a "generic" value: none of the named boundary values)
func rndScalar(r *rand.Rand) *big.Int {
	for {
		v := ref.FromBytes(rnd32(r))
		if v.Cmp(big.NewInt(2)) >= 0 && v.Cmp(new(big.Int).Sub(ref.N, big.NewInt(3))) <= 0 {
			return v
		}
	}
}

func bi(v int64) *big.Int { return big.NewInt(v) }

var (
	nMinus1 = new(big.Int).Sub(ref.N, bi(1))
	nMinus2 = new(big.Int).Sub(ref.N, bi(2))
	max256  = new(big.Int).Sub(ref.Two256, bi(1))
	slackP  = new(big.Int).Sub(ref.Two256, ref.P) // values below it can be written as v+p in 32 bytes
	slackN  = new(big.Int).Sub(ref.Two256, ref.N)
)

func hx(b []byte) string { return hex.EncodeToString(b) }

func add(a, b *big.Int) *big.Int { return new(big.Int).Add(a, b) }
func sub(a, b *big.Int) *big.Int { return new(big.Int).Sub(a, b) }
func mul(a, b *big.Int) *big.Int { return new(big.Int).Mul(a, b) }

// safely runs f and reports a panic as text ("" = no panic)
func safely(f func()) (p string) {
	defer func() {
		if e := recover(); e != nil {
			p = fmt.Sprint(e)
		}
	}()
	f()
	return ""
}

// ---------------------------------------------------------------- summary bookkeeping

type Summary struct {
	mu        sync.Mutex
	Lines     int            `json:"lines"`
	Cases     int            `json:"cases"`    // representatives judged on the real code
	Checks    int            `json:"checks"`   // individual comparisons
	Fail      int            `json:"fail"`     // failed comparisons
	Skipped   map[string]int `json:"skipped"`  // rows the specification marks as not constructible, by reason
	Infra     []string       `json:"infra"`    // machinery errors (spec and reference disagree, construction failed)
	Tabs      map[string]int `json:"tabs"`     // cases by table
	Verdicts  map[string]int `json:"verdicts"` // cases by model verdict
	Either    map[string]int `json:"either"`   // what the code did on rows whose verdict is "either"
	Distinct  map[string]int `json:"-"`
	NonTriv   int            `json:"distinct_nontrivial"`
	Observed  map[string]int `json:"observations,omitempty"`
	Samples   []interface{}  `json:"samples,omitempty"`
	IsSummary bool           `json:"summary"`
}

func newSummary() *Summary {
	return &Summary{Skipped: map[string]int{}, Tabs: map[string]int{}, Verdicts: map[string]int{}, Either: map[string]int{},
		Distinct: map[string]int{}, Observed: map[string]int{}, IsSummary: true}
}

func (s *Summary) inc(m map[string]int, k string) {
	s.mu.Lock()
	m[k]++
	s.mu.Unlock()
}

func (s *Summary) infra(f string, a ...interface{}) {
	s.mu.Lock()
	if len(s.Infra) < 20 {
		s.Infra = append(s.Infra, fmt.Sprintf(f, a...))
	}
	s.mu.Unlock()
}

func (s *Summary) count(cases, checks, fails int) {
	s.mu.Lock()
	s.Cases += cases
	s.Checks += checks
	s.Fail += fails
	s.mu.Unlock()
}

func (s *Summary) sample(v interface{}) {
	s.mu.Lock()
	if len(s.Samples) < 4 {
		s.Samples = append(s.Samples, v)
	}
	s.mu.Unlock()
}

// ---------------------------------------------------------------- main

func main() {
	if len(os.Args) < 2 {
		fmt.Fprintln(os.Stderr, "usage: sigcheck selftest|replay|sweep|mutate ...")
		os.Exit(2)
	}
	fs := flag.NewFlagSet(os.Args[1], flag.ExitOnError)
	in := fs.String("in", "-", "exported lines")
	seed := fs.Int64("seed", 1, "seed")
	inst := fs.Int("inst", 1, "representatives per row")
	workers := fs.Int("workers", 8, "workers")
	n := fs.Int("n", 1000, "sweep length / number of base triples")
	flips := fs.Int("flips", 64, "bit flips per base triple (0 = every bit)")
	fs.BoolVar(&trustSpec, "trustspec", false, "binding self-test only: do not cross-check the row's verdict with the reference")
	only := fs.Int("only", -1, "replay: only this instance number (for replaying one saved failure)")
	rounds := fs.Int("rounds", 20, "stress: rounds over all cases per goroutine")
	procs := fs.String("procs", "", "stress: comma-separated GOMAXPROCS settings, run one after the other (empty = default)")
	fs.Parse(os.Args[2:])
	out := vio.NewOut()
	defer out.Flush()
	switch os.Args[1] {
	case "selftest":
		selftest(out)
	case "replay":
		replay(out, *in, *seed, *inst, *only, *workers)
	case "txsign":
		txsign(out, *seed, *n, *workers)
	case "stress":
		stress(out, *in, *seed, *inst, *workers, *rounds, *procs)
	case "sweep":
		sweep(out, *seed, *n, *workers)
	case "mutate":
		mutate(out, *seed, *n, *flips, *workers)
	default:
		fmt.Fprintln(os.Stderr, "unknown command", os.Args[1])
		os.Exit(2)
	}
}

func selftest(out *vio.Out) {
	fails, n := ref.SelfTest()
	// the facts SigCheck.tla states about which named values are abscissae of curve points
	facts := map[string]struct {
		v    *big.Int
		want bool
	}{
		"one": {bi(1), true}, "nm2": {nMinus2, true}, "nm1": {nMinus1, false},
		"p (p-n)": {sub(ref.P, ref.N), true}, "max (2^256-1-n)": {sub(max256, ref.N), false},
		"npk 1": {bi(1), true}, "npk 2": {bi(2), true}, "npk 3": {bi(3), true}, "npk 4": {bi(4), true}, "npk 6": {bi(6), true},
	}
	for k, f := range facts {
		n++
		if _, ok := ref.LiftX(f.v, false); ok != f.want {
			fails = append(fails, "RIsAbscissa fact wrong for "+k)
		}
	}
	// p = 7 (mod 9): cube roots by one exponentiation (used to build points with a tiny y)
	n++
	if new(big.Int).Mod(ref.P, bi(9)).Int64() != 7 {
		fails = append(fails, "p mod 9 != 7")
	}
	sort.Strings(fails)
	out.Put(map[string]interface{}{"summary": true, "selftest": true, "checks": n, "fails": fails})
}

var trustSpec bool

func replay(out *vio.Out, in string, seed int64, inst, only, workers int) {
	sum := newSummary()
	jobs := make(chan []byte, 1024)
	go func() {
		err := vio.ReadLines(in, func(n int, line []byte) error {
			jobs <- append([]byte(nil), line...)
			return nil
		})
		if err != nil {
			sum.infra("reading %s: %v", in, err)
		}
		close(jobs)
	}()
	vio.Pool(workers, jobs, func(w int, job []byte) {
		var ln Line
		if err := json.Unmarshal(job, &ln); err != nil {
			sum.infra("bad line: %v", err)
			return
		}
		sum.mu.Lock()
		sum.Lines++
		sum.mu.Unlock()
		key := strings.TrimSpace(string(job))
		if len(ln.Steps) > 0 {
			for k := 0; k < inst; k++ {
				if only < 0 || k == only {
					replaySigner(out, sum, &ln.SignerLine, job, rngFor(seed, key, k), k)
				}
			}
			return
		}
		if !ln.Cons {
			sum.inc(sum.Skipped, ln.Tab+": needs a discrete logarithm")
			return
		}
		for k := 0; k < inst; k++ {
			if only < 0 || k == only {
				replayRow(out, sum, &ln.Row, job, rngFor(seed, key, k), k)
			}
		}
	})
	sum.mu.Lock()
	for range sum.Distinct {
		sum.NonTriv++
	}
	sum.mu.Unlock()
	flushFails(out)
	out.Put(sum)
}

var (
	failMu sync.Mutex
	fails  []Fail
)

// report records one failure; flushFails emits, per signature, the five smallest by (line, instance) so that the
// representatives written to the replay files do not depend on goroutine scheduling.
func report(out *vio.Out, sum *Summary, sig, what string, line []byte, inst int, bytes map[string]string, rules []string) {
	sum.count(0, 0, 1)
	t := strings.TrimSpace(string(line))
	failMu.Lock()
	fails = append(fails, Fail{Ok: false, Sig: sig, What: what, Line: json.RawMessage(t), Raw: t, Inst: inst, Bytes: bytes, Rules: rules})
	failMu.Unlock()
}

func flushFails(out *vio.Out) {
	failMu.Lock()
	defer failMu.Unlock()
	sort.SliceStable(fails, func(i, j int) bool {
		a, b := &fails[i], &fails[j]
		if a.Sig != b.Sig {
			return a.Sig < b.Sig
		}
		if a.Raw != b.Raw {
			return a.Raw < b.Raw
		}
		if a.Inst != b.Inst {
			return a.Inst < b.Inst
		}
		return a.What+fmt.Sprint(a.Bytes) < b.What+fmt.Sprint(b.Bytes)
	})
	n := 0
	for i := range fails {
		if i > 0 && fails[i].Sig == fails[i-1].Sig {
			n++
		} else {
			n = 0
		}
		if n < 5 {
			out.Put(fails[i])
		}
	}
	fails = nil
}
