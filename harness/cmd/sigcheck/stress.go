package main

import (
	"encoding/json"
	"fmt"
	"runtime"
	"strings"
	"sync"
	"sync/atomic"

	"verifharness/vio"
)

// stress: the concurrency stage.  Representatives of the given table rows are built single-threaded (with their
// verdicts), then G goroutines call the real code on them concurrently, in different orders, for a number of rounds;
// every answer must be the verdict of the table, exactly as when the call is made alone.  The verifiers, parsers and
// the recovery are pure functions of their arguments: block validation calls them from parallel goroutines.
// Run under the race build as well: a report with frames in lib/secp256k1 or lib/btc is judged by the check.
type stressCase struct {
	row  string
	api  string
	want bool
	call func() bool
	raw  string
}

func stress(out *vio.Out, in string, seed int64, inst, workers, rounds int, procsList string) {
	sum := newSummary()
	var procs []int
	for _, f := range strings.Split(procsList, ",") {
		var v int
		if _, e := fmt.Sscan(f, &v); e == nil && v > 0 {
			procs = append(procs, v)
		}
	}
	if len(procs) == 0 {
		procs = []int{runtime.GOMAXPROCS(0)}
	}
	var cases []stressCase
	var curRaw string
	capture = func(r *Row, api string, want bool, call func() bool) {
		cases = append(cases, stressCase{row: rowKey(r), api: api, want: want, call: call, raw: curRaw})
	}
	err := vio.ReadLines(in, func(n int, line []byte) error {
		var ln Line
		if e := json.Unmarshal(line, &ln); e != nil {
			return e
		}
		if len(ln.Steps) > 0 || !ln.Cons || ln.Tab == "lows" {
			return nil
		}
		curRaw = strings.TrimSpace(string(line))
		sum.Lines++
		for k := 0; k < inst; k++ {
			replayRow(out, sum, &ln.Row, line, rngFor(seed, curRaw, k), k)
		}
		return nil
	})
	capture = nil
	if err != nil {
		sum.infra("reading %s: %v", in, err)
	}
	// alone first: the verdicts must already be right single-threaded (else the table replay reports it)
	base := make([]bool, len(cases))
	for i := range cases {
		base[i] = cases[i].call() == cases[i].want
	}
	var calls, bad int64
	var mu sync.Mutex
	seen := map[string]bool{}
	perProcs := map[string]int{}
	for _, np := range procs {
		runtime.GOMAXPROCS(np)
		before := atomic.LoadInt64(&bad)
		var wg sync.WaitGroup
		for g := 0; g < workers; g++ {
			wg.Add(1)
			go func(g int) {
				defer wg.Done()
				rng := rngFor(seed, fmt.Sprintf("stress-%d", np), g)
				for round := 0; round < rounds; round++ {
					for _, i := range rng.Perm(len(cases)) {
						c := &cases[i]
						if !base[i] {
							continue
						}
						// the parsers take a microsecond: call them many times so that they overlap with each other
						reps := 1
						if c.api == "btc.NewPublicKey" || c.api == "XY.ParseXOnlyPubkey" {
							reps = 60
						}
						got, p := false, ""
						for k := 0; k < reps; k++ {
							p = safely(func() { got = c.call() })
							atomic.AddInt64(&calls, 1)
							if p != "" || got != c.want {
								break
							}
						}
						if p == "" && got == c.want {
							continue
						}
						atomic.AddInt64(&bad, 1)
						mu.Lock()
						first := !seen[c.api+c.row]
						seen[c.api+c.row] = true
						mu.Unlock()
						if first {
							verb := map[bool]string{true: "accepts", false: "refuses"}[got]
							report(out, sum, "C03:concurrent:"+c.api, fmt.Sprintf("%s %s an input of class %s when called from %d goroutines at once; alone it gives the verdict of the table (%v) %s",
								c.api, verb, c.row, workers, c.want, p), []byte(c.raw), 0, map[string]string{"goroutines": fmt.Sprint(workers), "gomaxprocs": fmt.Sprint(runtime.GOMAXPROCS(0))}, nil)
						}
					}
				}
			}(g)
		}
		wg.Wait()
		perProcs[fmt.Sprintf("wrong@gomaxprocs=%d", np)] = int(atomic.LoadInt64(&bad) - before)
	}
	for k, v := range perProcs {
		sum.Observed[k] = v
	}
	sum.Cases = int(calls)
	sum.Checks = int(calls)
	sum.Fail = int(bad)
	sum.Observed["stress_cases"] = len(cases)
	sum.Observed["goroutines"] = workers
	sum.NonTriv = len(cases)
	flushFails(out)
	out.Put(sum)
}
