package main

import (
	"bufio"
	"encoding/json"
	"flag"
	"fmt"
	"math/rand"
	"os"

	"github.com/piotrnar/gocoin/lib/btc"

	"verifharness/conc"
)

// ------------------------------------------------------------------ seeded random universes and histories

const (
	firstTx    = 201  // scenario transaction ids (1..BaseH are the base coinbases)
	firstBulky = 5001 // bulky transactions of the eviction tier
	firstChain = 7001 // a long chain of unconfirmed transactions (replacements with > 100 descendants)
	firstMotif = 400  // funding tx 400, then the motif groups (see makeMotifs)
	nMotif     = 8
	firstSig   = 6000 // the sigop family: funding tx, spenders 6001.., their children 6201..
	firstRank  = 8000 // the rank-run family: funding tx, anchor, tail, a run of insertions behind the anchor, two-parent children
	unknownTx  = 9000 // parents that never exist
	baseH      = 120
)

type genOut struct {
	id, vout int
	sat      uint64
	used     []int // scenario transactions spending it
}

type gen struct {
	rng  *rand.Rand
	sc   conc.Scenario
	outs []*genOut
	kids map[int][]int // tx -> transactions spending one of its outputs
	cbN  int           // next unused mature coinbase
}

func (g *gen) amt(sat uint64) conc.Amt { return conc.SatAmt(sat) }

func (g *gen) freshCoinbase() *genOut {
	if g.cbN >= 11 { // 12 funds the sigop family, 13 the motif transactions, 14 the rank-run family, 15 the long chain, 16..21 are left to the bulky transactions
		return nil
	}
	g.cbN++
	o := &genOut{id: g.cbN, vout: 1, sat: 50e8}
	g.outs = append(g.outs, o)
	return o
}

func (g *gen) unusedOut(recent bool) *genOut {
	var c []*genOut
	for _, o := range g.outs {
		if len(o.used) == 0 {
			c = append(c, o)
		}
	}
	if len(c) == 0 {
		return g.freshCoinbase()
	}
	if recent && len(c) > 4 {
		c = c[len(c)-4:]
	}
	return c[g.rng.Intn(len(c))]
}

func (g *gen) usedOut() *genOut {
	var c []*genOut
	for _, o := range g.outs {
		if len(o.used) > 0 {
			c = append(c, o)
		}
	}
	if len(c) == 0 {
		return nil
	}
	return c[g.rng.Intn(len(c))]
}

func (g *gen) descendants(t int) (res []int) {
	seen := map[int]bool{t: true}
	q := []int{t}
	for len(q) > 0 {
		x := q[0]
		q = q[1:]
		res = append(res, x)
		for _, k := range g.kids[x] {
			if !seen[k] {
				seen[k] = true
				q = append(q, k)
			}
		}
	}
	return
}

func (g *gen) makeTx(id int) {
	r := g.rng
	var ins []conc.InDef
	var insum uint64
	known := true
	take := func(o *genOut) {
		for _, in := range ins {
			if in.Tx == o.id && in.Vout == o.vout {
				return
			}
		}
		ins = append(ins, conc.InDef{Tx: o.id, Vout: o.vout, Ok: true})
		insum += o.sat
		o.used = append(o.used, id)
		if o.id >= firstTx {
			g.kids[o.id] = append(g.kids[o.id], id)
		}
	}
	rate := []uint64{2, 2, 3, 5, 8, 13, 21, 40}[r.Intn(8)]
	k := r.Intn(100)
	keepOrder := false
	switch {
	case k < 15: // double spend of something already used, usually paying more
		if o := g.usedOut(); o != nil {
			if r.Intn(5) < 2 {
				// a cheaper double spend (refused by the fee rule, kept in the reject cache with its data),
				// the contested output not being its first input
				rate = 2
				keepOrder = true
				for n := 1 + r.Intn(2); n > 0; n-- {
					if u := g.unusedOut(r.Intn(2) == 0); u != nil {
						take(u)
					}
				}
				take(o)
			} else {
				take(o)
				rate *= uint64(1 + r.Intn(4))
			}
		}
		if !keepOrder && r.Intn(2) == 0 {
			if o := g.unusedOut(true); o != nil {
				take(o)
			}
		}
	case k < 21: // spends what it replaces: a used outpoint and an output of (a descendant of) its spender
		if o := g.usedOut(); o != nil {
			x := o.used[r.Intn(len(o.used))]
			ds := g.descendants(x)
			d := ds[r.Intn(len(ds))]
			var c []*genOut
			for _, oo := range g.outs {
				if oo.id == d {
					c = append(c, oo)
				}
			}
			take(o)
			if len(c) > 0 {
				take(c[r.Intn(len(c))])
			}
			rate *= 5
		}
	case k < 25: // a parent that will never exist
		ins = append(ins, conc.InDef{Tx: unknownTx + id, Vout: 1, Ok: true})
		known = false
		if r.Intn(2) == 0 {
			if o := g.unusedOut(true); o != nil {
				take(o)
			}
		}
	case k < 27: // an output index its parent does not have
		if o := g.unusedOut(true); o != nil && o.id >= firstTx {
			ins = append(ins, conc.InDef{Tx: o.id, Vout: len(g.sc.Tx[o.id].Outs) + 1, Ok: true})
			g.kids[o.id] = append(g.kids[o.id], id)
			known = false
		}
	case k < 30: // a coinbase that is not mature yet (matures while the chain grows)
		h := 22 + r.Intn(8)
		ins = append(ins, conc.InDef{Tx: h, Vout: 1, Ok: true})
		insum += 50e8
	}
	if len(ins) == 0 || (known && !keepOrder && r.Intn(4) == 0 && len(ins) < 3) {
		var o *genOut
		if r.Intn(10) < 3 {
			o = g.freshCoinbase()
		}
		if o == nil {
			o = g.unusedOut(r.Intn(3) > 0)
		}
		if o != nil {
			take(o)
		}
		if r.Intn(4) == 0 { // joins (diamonds)
			if o := g.unusedOut(false); o != nil {
				take(o)
			}
		}
	}
	if len(ins) == 0 {
		ins = append(ins, conc.InDef{Tx: unknownTx + id, Vout: 1, Ok: true})
		known = false
	}
	if !keepOrder {
		r.Shuffle(len(ins), func(a, b int) { ins[a], ins[b] = ins[b], ins[a] })
	}
	if r.Intn(30) == 0 {
		ins[r.Intn(len(ins))].Ok = false
	}
	if !known && insum < 20000 {
		insum += 20000
	}
	nout := 1 + r.Intn(3)
	fee := rate * uint64(120+70*len(ins)+40*nout)
	switch r.Intn(40) {
	case 0:
		fee = 0
	case 1:
		fee = 50
	}
	if fee+uint64(nout)*2000 > insum {
		nout = 1
		if fee+1000 > insum {
			fee = insum / 2
		}
	}
	rest := insum - fee
	if known && r.Intn(40) == 0 {
		rest = insum + 1 + uint64(r.Intn(1000)) // spends more than it has
	}
	var outs []conc.OutDef
	for v := 0; v < nout; v++ {
		a := rest / uint64(nout-v)
		if v < nout-1 && a > 2000 {
			a = 1000 + uint64(r.Int63n(int64(a-1000)))
		}
		rest -= a
		st := []int{conc.StP2SH, conc.StP2SH, conc.StP2WSH, conc.StP2PKH, conc.StP2WPKH}[r.Intn(5)]
		outs = append(outs, conc.OutDef{Amt: g.amt(a), Addr: id*10 + v, St: st})
		g.outs = append(g.outs, &genOut{id: id, vout: v + 1, sat: a})
	}
	g.sc.Tx[id] = conc.TxDef{Ins: ins, Outs: outs, Ver: 2}
}

// Motif groups.  A funding tx (base coinbase 13, confirmed at the start of every history) gives each group four
// confirmed outputs a, b, c, d.  Per group (ids base .. base+9):
//
//	P  = [a]            two outputs            C1 = [P:1]  two outputs     C2 = [C1:1]     C3 = [C2:1]
//	Q  = [b]                                   G  = [C1:2, Q:1]   a grandchild of P with a second, unrelated parent
//	M  = [c, (d,) a]    cheaper double spend of P, the contested output being its LAST input (refused, kept with data)
//	R  = [a]            double spend of P that pays more than P and everything below it (accepted: depth 3 + diamond go)
//	B  = [P:2 with a script that does not satisfy it]                      BC = [B:1]  child of the bad one
const motifSize = 12

func motifIds(j int) (p, c1, c2, c3, q, gg, m, rr, b, bc int) {
	base := firstMotif + 10 + motifSize*j
	return base, base + 1, base + 2, base + 3, base + 4, base + 5, base + 6, base + 7, base + 8, base + 9
}

func (g *gen) makeMotifs() {
	const unit = 50000000
	sh := func(addr int, sat uint64) conc.OutDef {
		return conc.OutDef{Amt: g.amt(sat), Addr: addr, St: conc.StP2SH}
	}
	in := func(tx, vout int) conc.InDef { return conc.InDef{Tx: tx, Vout: vout, Ok: true} }
	f := conc.TxDef{Ins: []conc.InDef{in(13, 1)}, Ver: 2}
	for v := 0; v < 4*nMotif; v++ {
		f.Outs = append(f.Outs, sh(firstMotif*10+v, unit))
	}
	f.Outs = append(f.Outs, sh(firstMotif*10+4*nMotif, 50e8-4*nMotif*unit-50000))
	g.sc.Tx[firstMotif] = f
	for j := 0; j < nMotif; j++ {
		p, c1, c2, c3, q, gg, m, rr, b, bc := motifIds(j)
		a := 4*j + 1
		g.sc.Tx[p] = conc.TxDef{Ins: []conc.InDef{in(firstMotif, a)}, Outs: []conc.OutDef{sh(p*10, unit/2), sh(p*10+1, unit/2-20000)}, Ver: 2}
		g.sc.Tx[c1] = conc.TxDef{Ins: []conc.InDef{in(p, 1)}, Outs: []conc.OutDef{sh(c1*10, unit/4), sh(c1*10+1, unit/4-8000)}, Ver: 2}
		g.sc.Tx[c2] = conc.TxDef{Ins: []conc.InDef{in(c1, 1)}, Outs: []conc.OutDef{sh(c2*10, unit/4-6000)}, Ver: 2}
		g.sc.Tx[c3] = conc.TxDef{Ins: []conc.InDef{in(c2, 1)}, Outs: []conc.OutDef{sh(c3*10, unit/4-6000-7000)}, Ver: 2}
		g.sc.Tx[q] = conc.TxDef{Ins: []conc.InDef{in(firstMotif, a+1)}, Outs: []conc.OutDef{sh(q*10, unit-9000)}, Ver: 2}
		g.sc.Tx[gg] = conc.TxDef{Ins: []conc.InDef{in(c1, 2), in(q, 1)}, Outs: []conc.OutDef{sh(gg*10, unit/4-8000+unit-9000-12000)}, Ver: 2}
		ins := []conc.InDef{in(firstMotif, a+2)}
		sum := uint64(unit)
		if j%2 == 1 {
			ins = append(ins, in(firstMotif, a+3))
			sum += unit
		}
		ins = append(ins, in(firstMotif, a))
		sum += unit
		g.sc.Tx[m] = conc.TxDef{Ins: ins, Outs: []conc.OutDef{sh(m*10, sum-uint64(1500+100*j))}, Ver: 2}
		g.sc.Tx[rr] = conc.TxDef{Ins: []conc.InDef{in(firstMotif, a)}, Outs: []conc.OutDef{sh(rr*10, unit-600000)}, Ver: 2}
		g.sc.Tx[b] = conc.TxDef{Ins: []conc.InDef{{Tx: p, Vout: 2, Ok: false}}, Outs: []conc.OutDef{sh(b*10, unit/2-20000-9000)}, Ver: 2}
		g.sc.Tx[bc] = conc.TxDef{Ins: []conc.InDef{in(b, 1)}, Outs: []conc.OutDef{sh(bc*10, unit/2-20000-9000-9000)}, Ver: 2}
	}
}

// motifOps: one of the scripted situations, on a random group
func (g *gen) motifOps(ln *OpLine) {
	r := g.rng
	p, c1, c2, c3, q, gg, m, rr, b, bc := motifIds(r.Intn(nMotif))
	sub := func(ts ...int) {
		for _, t := range ts {
			ln.Ops = append(ln.Ops, Op{A: "Submit", T: t, Mode: "net"})
		}
	}
	switch r.Intn(4) {
	case 3:
		// a pooled family, a restart on a damaged pool file, then the same transactions and a double spend again
		sub(p, c1, c2, q, gg)
		mode := "cut"
		if r.Intn(5) == 0 {
			mode = "corrupt"
		}
		ln.Ops = append(ln.Ops, Op{A: "SaveCutLoad", Mode: mode, K: r.Intn(1 << 20)})
		switch r.Intn(3) {
		case 0:
			sub(rr, p, c1)
		case 1:
			sub(c1, c2, p, c1, rr)
		default:
			sub(p, c1, c2, q, gg)
		}
		ln.Ops = append(ln.Ops, Op{A: "Observe"}, Op{A: "MineListing", K: -1})
	case 0:
		// a transaction (and its child) is pooled, its cheaper double spend is refused but kept in the reject cache
		// (or: was pooled first and got replaced), and then somebody mines the double spend
		if r.Intn(3) == 0 {
			sub(m)
		}
		sub(p)
		if r.Intn(3) > 0 {
			sub(c1)
		}
		sub(m)
		if r.Intn(4) == 0 {
			ln.Ops = append(ln.Ops, Op{A: "SaveLoad"})
		}
		ln.Ops = append(ln.Ops, Op{A: "MineRejected", Txs: []int{m}})
	case 1:
		// a transaction with descendants three levels deep (and a grandchild that has a second, unrelated parent)
		// is replaced by a double spend paying more than all of them: every descendant has to leave with it
		sub(p, c1)
		switch r.Intn(4) {
		case 0:
			sub(c2)
		case 1:
			sub(c2, c3)
		case 2:
			sub(q, gg, c2, c3)
		default:
			sub(c2, q, gg)
		}
		if r.Intn(4) == 0 {
			ln.Ops = append(ln.Ops, Op{A: "SaveLoad"})
		}
		sub(rr)
		ln.Ops = append(ln.Ops, Op{A: "Observe"})
		if r.Intn(2) == 0 {
			ln.Ops = append(ln.Ops, Op{A: "MineListing", K: -1})
		}
	default:
		// a transaction whose script does not satisfy its unconfirmed parent's output, from the network: before
		// the parent (it waits as an orphan and is retried when the parent arrives) or after it; never pooled,
		// and nothing is built on it
		switch r.Intn(3) {
		case 0:
			sub(b, p)
		case 1:
			sub(bc, b, p)
		default:
			sub(p, b, bc)
		}
		sub(b, bc)
		ln.Ops = append(ln.Ops, Op{A: "Observe"})
		if r.Intn(2) == 0 {
			ln.Ops = append(ln.Ops, Op{A: "MineListing", K: -1})
		}
	}
}

// ancestorsOf: the scenario transactions t depends on, parents first
func (g *gen) ancestorsOf(t int) (res []int) {
	seen := map[int]bool{}
	var walk func(x int)
	walk = func(x int) {
		for _, in := range g.sc.Tx[x].Ins {
			if _, ok := g.sc.Tx[in.Tx]; ok && !seen[in.Tx] {
				seen[in.Tx] = true
				walk(in.Tx)
				res = append(res, in.Tx)
			}
		}
	}
	walk(t)
	return
}

func hasBadScript(d conc.TxDef) bool {
	for _, in := range d.Ins {
		if !in.Ok {
			return true
		}
	}
	return false
}

// makeChain: nchain transactions in a row on base coinbase 15, then two double spends: of the root's input
// (replaces the whole chain) and of the second link's input (replaces all but the root)
func (g *gen) makeChain(nchain int) {
	sat := uint64(50e8)
	prev, prevAddr := conc.InDef{Tx: 15, Vout: 1, Ok: true}, 0
	_ = prevAddr
	for i := 0; i < nchain; i++ {
		id := firstChain + i
		sat -= 500 + uint64(i%7)*100
		g.sc.Tx[id] = conc.TxDef{Ins: []conc.InDef{prev}, Outs: []conc.OutDef{{Amt: g.amt(sat), Addr: id * 10, St: conc.StP2SH}}, Ver: 2}
		prev = conc.InDef{Tx: id, Vout: 1, Ok: true}
	}
	g.sc.Tx[firstChain+nchain] = conc.TxDef{Ins: []conc.InDef{{Tx: 15, Vout: 1, Ok: true}},
		Outs: []conc.OutDef{{Amt: g.amt(50e8 - 3000000), Addr: (firstChain + nchain) * 10, St: conc.StP2WSH}}, Ver: 2}
	g.sc.Tx[firstChain+nchain+1] = conc.TxDef{Ins: []conc.InDef{{Tx: firstChain, Vout: 1, Ok: true}},
		Outs: []conc.OutDef{{Amt: g.amt(50e8 - 4000000), Addr: (firstChain + nchain + 1) * 10, St: conc.StP2SH}}, Ver: 2}
}

func (g *gen) makeOps(ntx, nops, nbulky, nchain, nrank, variant int) OpLine {
	r := g.rng
	ln := OpLine{Obs: []int{1, 1, 1, 2, 5, 1000}[r.Intn(6)]}
	ptr := 0
	bptr := 0
	pick := func() int {
		if nbulky > 0 && r.Intn(3) > 0 && bptr < nbulky {
			bptr++
			return firstBulky + bptr - 1
		}
		var i int
		if r.Intn(10) < 8 {
			i = ptr + r.Intn(6) - 2
			if r.Intn(4) > 0 {
				ptr++
			}
			if ptr >= ntx {
				ptr = r.Intn(ntx)
			}
		} else {
			i = r.Intn(ntx)
		}
		if i < 0 {
			i = 0
		}
		if i >= ntx {
			i = ntx - 1
		}
		return firstTx + i
	}
	var recent []int
	some := func(n int) (l []int) {
		for i := 0; i < n; i++ {
			if len(recent) > 0 && r.Intn(10) < 7 {
				k := len(recent) - 1 - r.Intn(12)
				if k < 0 {
					k = 0
				}
				l = append(l, recent[k])
			} else {
				l = append(l, firstTx+r.Intn(ntx))
			}
		}
		return
	}
	if nchain > 0 {
		return g.chainOps(ntx, nchain)
	}
	if nbulky > 0 {
		return g.bulkyOps(ntx, nbulky)
	}
	if nrank > 0 {
		return g.rankOps(ntx, nrank, variant)
	}
	// the funding transaction of the motif triples is confirmed first
	ln.Ops = append(ln.Ops, Op{A: "Submit", T: firstMotif, Mode: "net"}, Op{A: "MineListing", K: -1})
	for len(ln.Ops) < nops {
		if r.Intn(100) < 3 {
			g.motifOps(&ln)
			continue
		}
		k := r.Intn(100)
		switch {
		case k < 86:
			t := pick()
			mode := "net"
			if t >= firstChain+nchain && t < firstChain+nchain+2 && nchain > 0 {
				mode = []string{"net", "local", "trusted"}[r.Intn(3)] // > 100 descendants: only own / trusted replacements pass the limit
			} else if d, ok := g.sc.Tx[t]; ok && !hasBadScript(d) { // trusted / own transactions are assumed to carry valid scripts
				mode = []string{"net", "net", "net", "net", "trusted", "local"}[r.Intn(6)]
			}
			ln.Ops = append(ln.Ops, Op{A: "Submit", T: t, Mode: mode})
			recent = append(recent, t)
		case k < 90:
			ln.Ops = append(ln.Ops, Op{A: "MineListing", K: []int{-1, -1, 1, 2, 3, 5}[r.Intn(6)]})
		case k < 92:
			if r.Intn(2) == 0 {
				ln.Ops = append(ln.Ops, Op{A: "MineRejected", Txs: some(r.Intn(2))})
			} else {
				ln.Ops = append(ln.Ops, Op{A: "MineForeign", Txs: some(1 + r.Intn(4))})
			}
		case k < 94:
			ln.Ops = append(ln.Ops, Op{A: "Reorg", D: 1 + r.Intn(2), Blks: [][]int{some(r.Intn(3)), some(r.Intn(2))}})
		case k < 96:
			ln.Ops = append(ln.Ops, Op{A: "Tick"})
		case k < 98:
			ln.Ops = append(ln.Ops, Op{A: "Expire", Txs: some(1 + r.Intn(3))})
		default:
			if r.Intn(2) == 0 {
				ln.Ops = append(ln.Ops, Op{A: "SaveLoad"})
				break
			}
			// restart with a pool file that was cut short or damaged; then the peers offer the same transactions
			// again (double spends and children included)
			mode := "cut"
			if r.Intn(5) == 0 {
				mode = "corrupt"
			}
			ln.Ops = append(ln.Ops, Op{A: "SaveCutLoad", Mode: mode, K: r.Intn(1 << 20)})
			for i := len(recent) - 8; i < len(recent); i++ {
				if i >= 0 {
					ln.Ops = append(ln.Ops, Op{A: "Submit", T: recent[i], Mode: "net"})
				}
			}
			ln.Ops = append(ln.Ops, Op{A: "Observe"})
		}
	}
	return ln
}

// chainOps: the whole long chain enters the pool (a few links out of order, unrelated traffic in between), then
// the double spends are tried from a peer (more than 100 descendants: refused by policy), as the operator's own
// transaction and from a trusted peer (accepted: more than 100 transactions are replaced at once), with
// save/load, blocks from the listing and reorganisations around them.
func (g *gen) chainOps(ntx, nchain int) OpLine {
	r := g.rng
	ln := OpLine{Obs: []int{1, 3, 1000}[r.Intn(3)]}
	add := func(o Op) { ln.Ops = append(ln.Ops, o) }
	noise := func() {
		switch r.Intn(6) {
		case 0:
			add(Op{A: "Submit", T: firstTx + r.Intn(ntx), Mode: "net"})
		case 1:
			add(Op{A: "Tick"})
		case 2:
			add(Op{A: "Observe"})
		}
	}
	fill := func(from int) {
		for i := from; i < nchain; i++ {
			if i+1 < nchain && r.Intn(15) == 0 {
				add(Op{A: "Submit", T: firstChain + i + 1, Mode: "net"})
			}
			add(Op{A: "Submit", T: firstChain + i, Mode: []string{"net", "net", "trusted"}[r.Intn(3)]})
			noise()
		}
	}
	c1, c2 := firstChain+nchain, firstChain+nchain+1
	fill(0)
	add(Op{A: "Observe"})
	add(Op{A: "Submit", T: c2, Mode: "net"})
	add(Op{A: "SaveLoad"})
	switch r.Intn(3) {
	case 0:
		add(Op{A: "Submit", T: c2, Mode: "local"})
		add(Op{A: "Observe"})
		add(Op{A: "Submit", T: c1, Mode: "trusted"})
	case 1:
		add(Op{A: "Submit", T: c1, Mode: "local"})
		add(Op{A: "Observe"})
		add(Op{A: "Submit", T: c2, Mode: "trusted"})
	default:
		add(Op{A: "MineListing", K: 3 + r.Intn(20)})
		add(Op{A: "Submit", T: c2, Mode: "local"})
		add(Op{A: "Reorg", D: 1, Blks: [][]int{{c1}, {}}})
	}
	add(Op{A: "Observe"})
	add(Op{A: "Expire", Txs: []int{firstChain + r.Intn(nchain), c1, c2}})
	add(Op{A: "MineListing", K: -1})
	add(Op{A: "Reorg", D: 1 + r.Intn(2), Blks: [][]int{{firstChain, firstChain + 1}, {firstChain + 2}}})
	fill(3)
	add(Op{A: "SaveLoad"})
	add(Op{A: "MineListing", K: -1})
	return ln
}

// bulkyOps: the bulky transactions enter the pool in order (each chain's links after their parents) with
// unrelated traffic in between, no blocks: the pool passes 11 MB and the size-limit eviction fires; then
// blocks from the listing, a reorganisation, save/load, and the evicted ones are offered again.
func (g *gen) bulkyOps(ntx, nbulky int) OpLine {
	r := g.rng
	ln := OpLine{Obs: []int{1, 4, 1000}[r.Intn(3)]}
	add := func(o Op) { ln.Ops = append(ln.Ops, o) }
	for i := 0; i < nbulky; i++ {
		add(Op{A: "Submit", T: firstBulky + i, Mode: []string{"net", "net", "trusted", "local"}[r.Intn(4)]})
		switch r.Intn(8) {
		case 0:
			add(Op{A: "Submit", T: firstTx + r.Intn(ntx), Mode: "net"})
		case 1:
			add(Op{A: "Tick"})
		case 2:
			add(Op{A: "Observe"})
		}
	}
	add(Op{A: "Observe"})
	add(Op{A: "Tick"})
	add(Op{A: "SaveLoad"})
	add(Op{A: "MineListing", K: -1})
	add(Op{A: "MineListing", K: 5})
	add(Op{A: "Reorg", D: 1 + r.Intn(2), Blks: [][]int{{firstBulky, firstBulky + 1, firstBulky + 6}, {firstBulky + 2}}})
	for i := 0; i < nbulky; i += 1 + r.Intn(3) {
		add(Op{A: "Submit", T: firstBulky + i, Mode: "net"})
	}
	add(Op{A: "Expire", Txs: []int{firstBulky + 20 + r.Intn(20)}})
	add(Op{A: "MineListing", K: -1})
	add(Op{A: "Observe"})
	return ln
}

// The rank-run family.  The incrementally kept sorted list gives every transaction a rank between the ranks of
// its neighbours; a run of insertions that all land in the same gap uses that space up (it halves each time:
// about 42 insertions), which is where the list has to renumber.  F (confirmed first) funds everything;
// A is the anchor (best fee rate, many outputs), B the tail; T_i are independent transactions of identical
// shape whose fee rises (variant: falls) slowly, so each lands directly behind A (in front of B); after each
// T_i a child of A and T_i with a fee rate between theirs arrives (both input orders).  Nothing in the run
// rebuilds the list (no block, no reload); every listing must have parents before children and be minable.
func (g *gen) makeRank(n int) {
	sh := func(addr int) conc.OutDef { return conc.OutDef{Addr: addr, St: conc.StP2SH} }
	f := conc.TxDef{Ins: []conc.InDef{{Tx: 14, Vout: 1, Ok: true}}, Ver: 2}
	const unit = 40000000
	for v := 0; v < n+3; v++ {
		o := sh(firstRank*10 + v)
		o.Amt = g.amt(unit)
		f.Outs = append(f.Outs, o)
	}
	last := sh(firstRank*10 + n + 3)
	last.Amt = g.amt(50e8 - uint64(n+3)*unit - 100000)
	f.Outs = append(f.Outs, last)
	g.sc.Tx[firstRank] = f
	a := conc.TxDef{Ins: []conc.InDef{{Tx: firstRank, Vout: 1, Ok: true}}, Ver: 2}
	for v := 0; v < 2*n+1; v++ {
		o := sh((firstRank+1)*10 + v)
		o.Amt = g.amt(100000)
		a.Outs = append(a.Outs, o)
	}
	g.sc.Tx[firstRank+1] = a // fee: unit - (2n+1)*100000
	b := conc.TxDef{Ins: []conc.InDef{{Tx: firstRank, Vout: 2, Ok: true}}, Ver: 2}
	bo := sh((firstRank + 2) * 10)
	bo.Amt = g.amt(unit - 400)
	b.Outs = []conc.OutDef{bo}
	g.sc.Tx[firstRank+2] = b
	for i := 0; i < n; i++ {
		for variant := 0; variant < 2; variant++ { // rising run: 8100+i, falling run: 8500+i (same inputs: the two runs are alternatives)
			fee := uint64(3000 + 10*i)
			if variant == 1 {
				fee = uint64(3000 + 10*(n-i))
			}
			t := firstRank + 100 + 400*variant + i
			o1, o2 := sh(t*10), sh(t*10+1)
			o1.Amt, o2.Amt = g.amt(unit/2), g.amt(unit/2-fee)
			g.sc.Tx[t] = conc.TxDef{Ins: []conc.InDef{{Tx: firstRank, Vout: 3 + i, Ok: true}}, Outs: []conc.OutDef{o1, o2}, Ver: 2}
			for order := 0; order < 2; order++ { // child: (A, T_i) and (T_i, A)
				c := firstRank + 200 + 400*variant + 100*order + i
				ins := []conc.InDef{{Tx: firstRank + 1, Vout: 1 + 2*i + order, Ok: true}, {Tx: t, Vout: 1 + order, Ok: true}}
				val := uint64(100000 + unit/2)
				if order == 1 {
					ins[0], ins[1] = ins[1], ins[0]
					val = 100000 + unit/2 - fee
				}
				co := sh(c * 10)
				co.Amt = g.amt(val - 50000)
				g.sc.Tx[c] = conc.TxDef{Ins: ins, Outs: []conc.OutDef{co}, Ver: 2}
			}
		}
	}
}

func (g *gen) rankOps(ntx, n, variant int) OpLine {
	r := g.rng
	ln := OpLine{Obs: []int{10, 1000}[variant%2]}
	add := func(o Op) { ln.Ops = append(ln.Ops, o) }
	falling := (variant/2)%2 == 1
	add(Op{A: "Submit", T: firstRank, Mode: "net"})
	add(Op{A: "MineListing", K: -1})
	add(Op{A: "Submit", T: firstRank + 1, Mode: "net"})
	add(Op{A: "Submit", T: firstRank + 2, Mode: "net"})
	for i := 0; i < n; i++ {
		base := firstRank + 100
		if falling {
			base += 400
		}
		add(Op{A: "Submit", T: base + i, Mode: []string{"net", "net", "trusted"}[r.Intn(3)]})
		if variant < 2 && i < n/2 {
			continue // the first histories keep the pool small: children only in the second half of the run
		}
		// the child naming A first always arrives (a rank tie between A and T_i shows there), the one naming T_i
		// first before it, after it, or not at all
		switch r.Intn(3) {
		case 0:
			add(Op{A: "Submit", T: base + 100 + i, Mode: "net"}) // child (A, T_i)
		case 1:
			add(Op{A: "Submit", T: base + 200 + i, Mode: "net"}) // child (T_i, A)
			add(Op{A: "Submit", T: base + 100 + i, Mode: "net"})
		default:
			add(Op{A: "Submit", T: base + 100 + i, Mode: "net"})
			add(Op{A: "Submit", T: base + 200 + i, Mode: "net"})
		}
		// (no Tick here: after a listing it raises the fee floor to just under the worst listed rate - policy -
		// and the run would be refused)
	}
	add(Op{A: "Observe"})
	add(Op{A: "MineListing", K: 30})
	add(Op{A: "MineListing", K: -1})
	_ = ntx
	return ln
}

// The sigop family (built by the driver, see addSigops): a confirmed funding tx whose outputs are P2SH / P2WSH /
// P2SH-P2WSH scripts carrying signature operations in a branch that is never executed, and P2WPKH outputs; one
// spender per output (some with bare CHECKSIG outputs, some creating such an output again for a child).  Together
// they cost more than a block may carry (80000): the block assembled from the listing - cut on the pool's
// recorded cost - must connect, and every recorded cost must be the BIP141 cost.
func sigKind(i int) int {
	switch i % 8 {
	case 6:
		return conc.KindP2WSHSig
	case 7:
		if i%16 == 7 {
			return conc.KindP2SHP2WSH
		}
		return conc.KindP2WPKH
	}
	return conc.KindP2SHSig
}

func (g *gen) sigopsOps(n, variant int) OpLine {
	r := g.rng
	ln := OpLine{Obs: []int{7, 1000}[variant%2]}
	add := func(o Op) { ln.Ops = append(ln.Ops, o) }
	add(Op{A: "Submit", T: firstSig, Mode: "net"})
	add(Op{A: "MineListing", K: -1})
	for i := 0; i < n; i++ {
		add(Op{A: "Submit", T: firstSig + 1 + i, Mode: []string{"net", "net", "trusted", "local"}[r.Intn(4)]})
		if i%6 == 0 {
			add(Op{A: "Submit", T: firstSig + 201 + i, Mode: "net"})
		}
		if i == n/2 {
			add(Op{A: "SaveLoad"})
		}
	}
	add(Op{A: "Observe"})
	add(Op{A: "MineListing", K: -1}) // more than a block may carry: the assembly has to cut
	add(Op{A: "Reorg", D: 1, Blks: [][]int{{firstSig + 1, firstSig + 2}, {}}})
	add(Op{A: "Observe"})
	add(Op{A: "MineListing", K: -1})
	add(Op{A: "MineListing", K: -1})
	return ln
}

// addSigops registers the sigop family in the world (driver side).
func addSigops(w *conc.World, n int) {
	const unit = 30000000
	var fouts []conc.KindOut
	for i := 0; i < n; i++ {
		fouts = append(fouts, conc.KindOut{Kind: sigKind(i), Tag: firstSig*100 + i, N: 20, Sat: unit})
	}
	fouts = append(fouts, conc.KindOut{Kind: conc.KindPlainP2SH, Tag: firstSig*100 + n, Sat: 50e8 - uint64(n)*unit - 200000, BareSigs: 3})
	reg := func(id int, tx *btc.Tx, ins []conc.InDef, outs []conc.KindOut) {
		def := conc.TxDef{Ins: ins, Ver: 2}
		for _, o := range outs {
			def.Outs = append(def.Outs, conc.OutDef{Amt: conc.SatAmt(o.Sat)})
		}
		for _, o := range outs {
			if o.BareSigs > 0 {
				def.Outs = append(def.Outs, conc.OutDef{})
			}
		}
		w.RegisterTx(id, tx, &def)
	}
	ftx := w.KindTx(nil, nil, nil, 12, fouts)
	reg(firstSig, ftx, []conc.InDef{{Tx: 12, Vout: 1, Ok: true}}, fouts)
	for i := 0; i < n; i++ {
		id := firstSig + 1 + i
		o := conc.KindOut{Kind: conc.KindPlainP2SH, Tag: id * 10, Sat: unit - uint64(6000+50*i)}
		if i%6 == 0 {
			o.Kind, o.N = conc.KindP2SHSig, 5 // an unconfirmed output with sigops in its redeem script, spent by a child
		}
		if i%5 == 0 {
			o.BareSigs = 2
		}
		souts := []conc.KindOut{o}
		stx := w.KindTx(ftx, fouts, []int{i}, 0, souts)
		reg(id, stx, []conc.InDef{{Tx: firstSig, Vout: i + 1, Ok: true}}, souts)
		if i%6 == 0 {
			cid := firstSig + 201 + i
			couts := []conc.KindOut{{Kind: conc.KindPlainP2SH, Tag: cid * 10, Sat: o.Sat - 7000}}
			ctx := w.KindTx(stx, souts, []int{0}, 0, couts)
			reg(cid, ctx, []conc.InDef{{Tx: id, Vout: 1, Ok: true}}, couts)
		}
	}
}

func cmdGen(args []string) {
	fs := flag.NewFlagSet("gen", flag.ExitOnError)
	seed := fs.Int64("seed", 1, "")
	ntx := fs.Int("ntx", 40, "")
	traces := fs.Int("traces", 10, "")
	nops := fs.Int("ops", 60, "")
	nbulky := fs.Int("bulky", 0, "")
	nchain := fs.Int("longchain", 0, "")
	nrank := fs.Int("rankrun", 0, "")
	nsig := fs.Int("sigops", 0, "")
	scen := fs.String("scenario", "", "")
	opsout := fs.String("opsout", "", "")
	fs.Parse(args)
	g := &gen{rng: rand.New(rand.NewSource(*seed)), kids: map[int][]int{}}
	g.sc = conc.Scenario{Blk: conc.IntMap[conc.BlkDef]{}, Tx: conc.IntMap[conc.TxDef]{}, BaseH: baseH}
	for i := 0; i < *ntx; i++ {
		g.makeTx(firstTx + i)
	}
	g.makeMotifs()
	if *nchain > 0 {
		g.makeChain(*nchain)
	}
	if *nrank > 0 {
		g.makeRank(*nrank)
	}
	b, _ := json.Marshal(g.sc)
	if err := os.WriteFile(*scen, b, 0660); err != nil {
		fmt.Fprintln(os.Stderr, err)
		os.Exit(2)
	}
	f, err := os.Create(*opsout)
	if err != nil {
		fmt.Fprintln(os.Stderr, err)
		os.Exit(2)
	}
	w := bufio.NewWriter(f)
	for i := 0; i < *traces; i++ {
		ln := g.makeOps(*ntx, *nops, *nbulky, *nchain, *nrank, i)
		if *nsig > 0 {
			ln = g.sigopsOps(*nsig, i)
		}
		lb, _ := json.Marshal(ln)
		w.Write(lb)
		w.WriteByte('\n')
	}
	w.Flush()
	f.Close()
}

// addBulky registers the bulky transactions of the eviction tier: six chains (from base coinbases 16..21) of
// transactions carrying `bulk` bytes of unspendable padding each; ids firstBulky.., fees vary.
func addBulky(w *conc.World, bulk int) {
	const perChain = 22
	id := firstBulky
	for i := 0; i < perChain; i++ {
		for c := 0; c < 6; c++ {
			id = firstBulky + i*6 + c
			var in conc.InDef
			var insat uint64
			inAddr := 0
			if i == 0 {
				in = conc.InDef{Tx: 16 + c, Vout: 1, Ok: true}
				insat = 50e8
			} else {
				p := id - 6
				in = conc.InDef{Tx: p, Vout: 1, Ok: true}
				insat = w.Sc.Tx[p].Outs[0].Amt.Sat()
				inAddr = p * 10
			}
			fee := uint64(bulk+200) * uint64(1+(i*6+c)%7)
			out := insat - fee
			tx := w.BulkyTx(in, inAddr, out, id*10, bulk)
			def := conc.TxDef{Ins: []conc.InDef{in}, Outs: []conc.OutDef{{Amt: conc.SatAmt(out), Addr: id * 10, St: conc.StP2SH}, {Amt: conc.Amt{}, Addr: 0, St: 0}}, Ver: 2}
			w.RegisterTx(id, tx, &def)
		}
	}
}
