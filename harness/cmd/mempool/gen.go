package main

import (
	"bufio"
	"encoding/json"
	"flag"
	"fmt"
	"math/rand"
	"os"

	"verifharness/conc"
)

// ------------------------------------------------------------------ seeded random universes and histories

const (
	firstTx    = 201  // scenario transaction ids (1..BaseH are the base coinbases)
	firstBulky = 5001 // bulky transactions of the eviction tier
	firstChain = 7001 // a long chain of unconfirmed transactions (replacements with > 100 descendants)
	unknownTx  = 9000 // parents that never exist
	baseH      = 120
)

type genOut struct {
	id, vout int
	sat      uint64
	used     []int // scenario transactions spending it
}

type gen struct {
	rng  *rand.Rand
	sc   conc.Scenario
	outs []*genOut
	kids map[int][]int // tx -> transactions spending one of its outputs
	cbN  int           // next unused mature coinbase
}

func (g *gen) amt(sat uint64) conc.Amt { return conc.SatAmt(sat) }

func (g *gen) freshCoinbase() *genOut {
	if g.cbN >= 14 { // 15 funds the long chain, 16..21 are left to the bulky transactions
		return nil
	}
	g.cbN++
	o := &genOut{id: g.cbN, vout: 1, sat: 50e8}
	g.outs = append(g.outs, o)
	return o
}

func (g *gen) unusedOut(recent bool) *genOut {
	var c []*genOut
	for _, o := range g.outs {
		if len(o.used) == 0 {
			c = append(c, o)
		}
	}
	if len(c) == 0 {
		return g.freshCoinbase()
	}
	if recent && len(c) > 4 {
		c = c[len(c)-4:]
	}
	return c[g.rng.Intn(len(c))]
}

func (g *gen) usedOut() *genOut {
	var c []*genOut
	for _, o := range g.outs {
		if len(o.used) > 0 {
			c = append(c, o)
		}
	}
	if len(c) == 0 {
		return nil
	}
	return c[g.rng.Intn(len(c))]
}

func (g *gen) descendants(t int) (res []int) {
	seen := map[int]bool{t: true}
	q := []int{t}
	for len(q) > 0 {
		x := q[0]
		q = q[1:]
		res = append(res, x)
		for _, k := range g.kids[x] {
			if !seen[k] {
				seen[k] = true
				q = append(q, k)
			}
		}
	}
	return
}

func (g *gen) makeTx(id int) {
	r := g.rng
	var ins []conc.InDef
	var insum uint64
	known := true
	take := func(o *genOut) {
		for _, in := range ins {
			if in.Tx == o.id && in.Vout == o.vout {
				return
			}
		}
		ins = append(ins, conc.InDef{Tx: o.id, Vout: o.vout, Ok: true})
		insum += o.sat
		o.used = append(o.used, id)
		if o.id >= firstTx {
			g.kids[o.id] = append(g.kids[o.id], id)
		}
	}
	rate := []uint64{2, 2, 3, 5, 8, 13, 21, 40}[r.Intn(8)]
	k := r.Intn(100)
	switch {
	case k < 15: // double spend of something already used, usually paying more
		if o := g.usedOut(); o != nil {
			take(o)
			rate *= uint64(1 + r.Intn(4))
		}
		if r.Intn(3) == 0 {
			if o := g.unusedOut(true); o != nil {
				take(o)
			}
		}
	case k < 21: // spends what it replaces: a used outpoint and an output of (a descendant of) its spender
		if o := g.usedOut(); o != nil {
			x := o.used[r.Intn(len(o.used))]
			ds := g.descendants(x)
			d := ds[r.Intn(len(ds))]
			var c []*genOut
			for _, oo := range g.outs {
				if oo.id == d {
					c = append(c, oo)
				}
			}
			take(o)
			if len(c) > 0 {
				take(c[r.Intn(len(c))])
			}
			rate *= 5
		}
	case k < 25: // a parent that will never exist
		ins = append(ins, conc.InDef{Tx: unknownTx + id, Vout: 1, Ok: true})
		known = false
		if r.Intn(2) == 0 {
			if o := g.unusedOut(true); o != nil {
				take(o)
			}
		}
	case k < 27: // an output index its parent does not have
		if o := g.unusedOut(true); o != nil && o.id >= firstTx {
			ins = append(ins, conc.InDef{Tx: o.id, Vout: len(g.sc.Tx[o.id].Outs) + 1, Ok: true})
			g.kids[o.id] = append(g.kids[o.id], id)
			known = false
		}
	case k < 30: // a coinbase that is not mature yet (matures while the chain grows)
		h := 22 + r.Intn(8)
		ins = append(ins, conc.InDef{Tx: h, Vout: 1, Ok: true})
		insum += 50e8
	}
	if len(ins) == 0 || (known && r.Intn(4) == 0 && len(ins) < 3) {
		var o *genOut
		if r.Intn(10) < 3 {
			o = g.freshCoinbase()
		}
		if o == nil {
			o = g.unusedOut(r.Intn(3) > 0)
		}
		if o != nil {
			take(o)
		}
		if r.Intn(4) == 0 { // joins (diamonds)
			if o := g.unusedOut(false); o != nil {
				take(o)
			}
		}
	}
	if len(ins) == 0 {
		ins = append(ins, conc.InDef{Tx: unknownTx + id, Vout: 1, Ok: true})
		known = false
	}
	if r.Intn(30) == 0 {
		ins[r.Intn(len(ins))].Ok = false
	}
	if !known && insum < 20000 {
		insum += 20000
	}
	nout := 1 + r.Intn(3)
	fee := rate * uint64(120+70*len(ins)+40*nout)
	switch r.Intn(40) {
	case 0:
		fee = 0
	case 1:
		fee = 50
	}
	if fee+uint64(nout)*2000 > insum {
		nout = 1
		if fee+1000 > insum {
			fee = insum / 2
		}
	}
	rest := insum - fee
	if known && r.Intn(40) == 0 {
		rest = insum + 1 + uint64(r.Intn(1000)) // spends more than it has
	}
	var outs []conc.OutDef
	for v := 0; v < nout; v++ {
		a := rest / uint64(nout-v)
		if v < nout-1 && a > 2000 {
			a = 1000 + uint64(r.Int63n(int64(a-1000)))
		}
		rest -= a
		st := []int{conc.StP2SH, conc.StP2SH, conc.StP2WSH, conc.StP2PKH, conc.StP2WPKH}[r.Intn(5)]
		outs = append(outs, conc.OutDef{Amt: g.amt(a), Addr: id*10 + v, St: st})
		g.outs = append(g.outs, &genOut{id: id, vout: v + 1, sat: a})
	}
	g.sc.Tx[id] = conc.TxDef{Ins: ins, Outs: outs, Ver: 2}
}

func hasBadScript(d conc.TxDef) bool {
	for _, in := range d.Ins {
		if !in.Ok {
			return true
		}
	}
	return false
}

// makeChain: nchain transactions in a row on base coinbase 15, then two double spends: of the root's input
// (replaces the whole chain) and of the second link's input (replaces all but the root)
func (g *gen) makeChain(nchain int) {
	sat := uint64(50e8)
	prev, prevAddr := conc.InDef{Tx: 15, Vout: 1, Ok: true}, 0
	_ = prevAddr
	for i := 0; i < nchain; i++ {
		id := firstChain + i
		sat -= 500 + uint64(i%7)*100
		g.sc.Tx[id] = conc.TxDef{Ins: []conc.InDef{prev}, Outs: []conc.OutDef{{Amt: g.amt(sat), Addr: id * 10, St: conc.StP2SH}}, Ver: 2}
		prev = conc.InDef{Tx: id, Vout: 1, Ok: true}
	}
	g.sc.Tx[firstChain+nchain] = conc.TxDef{Ins: []conc.InDef{{Tx: 15, Vout: 1, Ok: true}},
		Outs: []conc.OutDef{{Amt: g.amt(50e8 - 3000000), Addr: (firstChain + nchain) * 10, St: conc.StP2WSH}}, Ver: 2}
	g.sc.Tx[firstChain+nchain+1] = conc.TxDef{Ins: []conc.InDef{{Tx: firstChain, Vout: 1, Ok: true}},
		Outs: []conc.OutDef{{Amt: g.amt(50e8 - 4000000), Addr: (firstChain + nchain + 1) * 10, St: conc.StP2SH}}, Ver: 2}
}

func (g *gen) makeOps(ntx, nops, nbulky, nchain int) OpLine {
	r := g.rng
	ln := OpLine{Obs: []int{1, 1, 1, 2, 5, 1000}[r.Intn(6)]}
	ptr := 0
	bptr := 0
	pick := func() int {
		if nbulky > 0 && r.Intn(3) > 0 && bptr < nbulky {
			bptr++
			return firstBulky + bptr - 1
		}
		var i int
		if r.Intn(10) < 8 {
			i = ptr + r.Intn(6) - 2
			if r.Intn(4) > 0 {
				ptr++
			}
			if ptr >= ntx {
				ptr = r.Intn(ntx)
			}
		} else {
			i = r.Intn(ntx)
		}
		if i < 0 {
			i = 0
		}
		if i >= ntx {
			i = ntx - 1
		}
		return firstTx + i
	}
	some := func(n int) (l []int) {
		for i := 0; i < n; i++ {
			l = append(l, firstTx+r.Intn(ntx))
		}
		return
	}
	if nchain > 0 {
		return g.chainOps(ntx, nchain)
	}
	if nbulky > 0 {
		return g.bulkyOps(ntx, nbulky)
	}
	for len(ln.Ops) < nops {
		k := r.Intn(100)
		switch {
		case k < 86:
			t := pick()
			mode := "net"
			if t >= firstChain+nchain && t < firstChain+nchain+2 && nchain > 0 {
				mode = []string{"net", "local", "trusted"}[r.Intn(3)] // > 100 descendants: only own / trusted replacements pass the limit
			} else if d, ok := g.sc.Tx[t]; ok && !hasBadScript(d) { // trusted / own transactions are assumed to carry valid scripts
				mode = []string{"net", "net", "net", "net", "trusted", "local"}[r.Intn(6)]
			}
			ln.Ops = append(ln.Ops, Op{A: "Submit", T: t, Mode: mode})
		case k < 90:
			ln.Ops = append(ln.Ops, Op{A: "MineListing", K: []int{-1, -1, 1, 2, 3, 5}[r.Intn(6)]})
		case k < 92:
			ln.Ops = append(ln.Ops, Op{A: "MineForeign", Txs: some(1 + r.Intn(4))})
		case k < 94:
			ln.Ops = append(ln.Ops, Op{A: "Reorg", D: 1 + r.Intn(2), Blks: [][]int{some(r.Intn(3)), some(r.Intn(2))}})
		case k < 96:
			ln.Ops = append(ln.Ops, Op{A: "Tick"})
		case k < 98:
			ln.Ops = append(ln.Ops, Op{A: "Expire", Txs: some(1 + r.Intn(3))})
		default:
			ln.Ops = append(ln.Ops, Op{A: "SaveLoad"})
		}
	}
	return ln
}

// chainOps: the whole long chain enters the pool (a few links out of order, unrelated traffic in between), then
// the double spends are tried from a peer (more than 100 descendants: refused by policy), as the operator's own
// transaction and from a trusted peer (accepted: more than 100 transactions are replaced at once), with
// save/load, blocks from the listing and reorganisations around them.
func (g *gen) chainOps(ntx, nchain int) OpLine {
	r := g.rng
	ln := OpLine{Obs: []int{1, 3, 1000}[r.Intn(3)]}
	add := func(o Op) { ln.Ops = append(ln.Ops, o) }
	noise := func() {
		switch r.Intn(6) {
		case 0:
			add(Op{A: "Submit", T: firstTx + r.Intn(ntx), Mode: "net"})
		case 1:
			add(Op{A: "Tick"})
		case 2:
			add(Op{A: "Observe"})
		}
	}
	fill := func(from int) {
		for i := from; i < nchain; i++ {
			if i+1 < nchain && r.Intn(15) == 0 {
				add(Op{A: "Submit", T: firstChain + i + 1, Mode: "net"})
			}
			add(Op{A: "Submit", T: firstChain + i, Mode: []string{"net", "net", "trusted"}[r.Intn(3)]})
			noise()
		}
	}
	c1, c2 := firstChain+nchain, firstChain+nchain+1
	fill(0)
	add(Op{A: "Observe"})
	add(Op{A: "Submit", T: c2, Mode: "net"})
	add(Op{A: "SaveLoad"})
	switch r.Intn(3) {
	case 0:
		add(Op{A: "Submit", T: c2, Mode: "local"})
		add(Op{A: "Observe"})
		add(Op{A: "Submit", T: c1, Mode: "trusted"})
	case 1:
		add(Op{A: "Submit", T: c1, Mode: "local"})
		add(Op{A: "Observe"})
		add(Op{A: "Submit", T: c2, Mode: "trusted"})
	default:
		add(Op{A: "MineListing", K: 3 + r.Intn(20)})
		add(Op{A: "Submit", T: c2, Mode: "local"})
		add(Op{A: "Reorg", D: 1, Blks: [][]int{{c1}, {}}})
	}
	add(Op{A: "Observe"})
	add(Op{A: "Expire", Txs: []int{firstChain + r.Intn(nchain), c1, c2}})
	add(Op{A: "MineListing", K: -1})
	add(Op{A: "Reorg", D: 1 + r.Intn(2), Blks: [][]int{{firstChain, firstChain + 1}, {firstChain + 2}}})
	fill(3)
	add(Op{A: "SaveLoad"})
	add(Op{A: "MineListing", K: -1})
	return ln
}

// bulkyOps: the bulky transactions enter the pool in order (each chain's links after their parents) with
// unrelated traffic in between, no blocks: the pool passes 11 MB and the size-limit eviction fires; then
// blocks from the listing, a reorganisation, save/load, and the evicted ones are offered again.
func (g *gen) bulkyOps(ntx, nbulky int) OpLine {
	r := g.rng
	ln := OpLine{Obs: []int{1, 4, 1000}[r.Intn(3)]}
	add := func(o Op) { ln.Ops = append(ln.Ops, o) }
	for i := 0; i < nbulky; i++ {
		add(Op{A: "Submit", T: firstBulky + i, Mode: []string{"net", "net", "trusted", "local"}[r.Intn(4)]})
		switch r.Intn(8) {
		case 0:
			add(Op{A: "Submit", T: firstTx + r.Intn(ntx), Mode: "net"})
		case 1:
			add(Op{A: "Tick"})
		case 2:
			add(Op{A: "Observe"})
		}
	}
	add(Op{A: "Observe"})
	add(Op{A: "Tick"})
	add(Op{A: "SaveLoad"})
	add(Op{A: "MineListing", K: -1})
	add(Op{A: "MineListing", K: 5})
	add(Op{A: "Reorg", D: 1 + r.Intn(2), Blks: [][]int{{firstBulky, firstBulky + 1, firstBulky + 6}, {firstBulky + 2}}})
	for i := 0; i < nbulky; i += 1 + r.Intn(3) {
		add(Op{A: "Submit", T: firstBulky + i, Mode: "net"})
	}
	add(Op{A: "Expire", Txs: []int{firstBulky + 20 + r.Intn(20)}})
	add(Op{A: "MineListing", K: -1})
	add(Op{A: "Observe"})
	return ln
}

func cmdGen(args []string) {
	fs := flag.NewFlagSet("gen", flag.ExitOnError)
	seed := fs.Int64("seed", 1, "")
	ntx := fs.Int("ntx", 40, "")
	traces := fs.Int("traces", 10, "")
	nops := fs.Int("ops", 60, "")
	nbulky := fs.Int("bulky", 0, "")
	nchain := fs.Int("longchain", 0, "")
	scen := fs.String("scenario", "", "")
	opsout := fs.String("opsout", "", "")
	fs.Parse(args)
	g := &gen{rng: rand.New(rand.NewSource(*seed)), kids: map[int][]int{}}
	g.sc = conc.Scenario{Blk: conc.IntMap[conc.BlkDef]{}, Tx: conc.IntMap[conc.TxDef]{}, BaseH: baseH}
	for i := 0; i < *ntx; i++ {
		g.makeTx(firstTx + i)
	}
	if *nchain > 0 {
		g.makeChain(*nchain)
	}
	b, _ := json.Marshal(g.sc)
	if err := os.WriteFile(*scen, b, 0660); err != nil {
		fmt.Fprintln(os.Stderr, err)
		os.Exit(2)
	}
	f, err := os.Create(*opsout)
	if err != nil {
		fmt.Fprintln(os.Stderr, err)
		os.Exit(2)
	}
	w := bufio.NewWriter(f)
	for i := 0; i < *traces; i++ {
		ln := g.makeOps(*ntx, *nops, *nbulky, *nchain)
		lb, _ := json.Marshal(ln)
		w.Write(lb)
		w.WriteByte('\n')
	}
	w.Flush()
	f.Close()
}

// addBulky registers the bulky transactions of the eviction tier: six chains (from base coinbases 16..21) of
// transactions carrying `bulk` bytes of unspendable padding each; ids firstBulky.., fees vary.
func addBulky(w *conc.World, bulk int) {
	const perChain = 22
	id := firstBulky
	for i := 0; i < perChain; i++ {
		for c := 0; c < 6; c++ {
			id = firstBulky + i*6 + c
			var in conc.InDef
			var insat uint64
			inAddr := 0
			if i == 0 {
				in = conc.InDef{Tx: 16 + c, Vout: 1, Ok: true}
				insat = 50e8
			} else {
				p := id - 6
				in = conc.InDef{Tx: p, Vout: 1, Ok: true}
				insat = w.Sc.Tx[p].Outs[0].Amt.Sat()
				inAddr = p * 10
			}
			fee := uint64(bulk+200) * uint64(1+(i*6+c)%7)
			out := insat - fee
			tx := w.BulkyTx(in, inAddr, out, id*10, bulk)
			def := conc.TxDef{Ins: []conc.InDef{in}, Outs: []conc.OutDef{{Amt: conc.SatAmt(out), Addr: id * 10, St: conc.StP2SH}, {Amt: conc.Amt{}, Addr: 0, St: 0}}, Ver: 2}
			w.RegisterTx(id, tx, &def)
		}
	}
}
