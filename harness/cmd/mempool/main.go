// mempool: conformance driver binding spec/Mempool.tla to client/txpool (C12).
//
//	mempool gen -seed S -ntx N -traces K -ops M -scenario <out.json> -opsout <out.ndjson> [-bulky B]
//	    seeded random universe of transactions (chains, diamonds, double spends, orphans, transactions that
//	    spend what they replace, bad inputs, overspends, low fees, bad scripts) and K random operation
//	    sequences over it.
//	mempool run -scenario <json> -ops <ndjson> -out <trace.ndjson> -model <scenario for TLC> -dir <scratch>
//	    every line of -ops is an operation sequence (TLC-exported or from gen); each is performed on a fresh
//	    copy of the base chain with a fresh pool (one pool per process at a time: client/txpool is global
//	    state); after each operation the outcome and the projection of the real pool are written as one
//	    ndjson event per specification action; traces are separated by Reset events.  R->V: the events are
//	    validated by spec/TraceMempool.tla.  The driver itself only reports what the model cannot see (raw
//	    size fields against its own BIP141 computation, unknown objects, a listing block refused by the chain).
package main

import (
	"bufio"
	"encoding/binary"
	"encoding/json"
	"flag"
	"fmt"
	"os"
	"path/filepath"
	"runtime"
	"runtime/debug"
	"sort"
	"strings"
	"sync/atomic"
	"syscall"
	"time"

	"github.com/piotrnar/gocoin/client/common"
	"github.com/piotrnar/gocoin/client/txpool"
	"github.com/piotrnar/gocoin/lib/btc"
	"github.com/piotrnar/gocoin/lib/chain"
	"github.com/piotrnar/gocoin/lib/utxo"

	"verifharness/conc"
	"verifharness/vio"
)

// ------------------------------------------------------------------ operations (outcome-agnostic)

type Op struct {
	A    string  `json:"a"`    // Submit | MineListing | MineForeign | MineRejected | Reorg | Tick | Expire | SaveLoad | SaveCutLoad | Observe
	T    int     `json:"t"`    // Submit: transaction
	Mode string  `json:"mode"` // Submit: net | trusted | local
	K    int     `json:"k"`    // MineListing: number of listing entries to mine (< 0: all)
	Txs  []int   `json:"txs"`  // MineForeign: candidate transactions (those valid on the chain are used); Expire: transactions to age
	D    int     `json:"d"`    // Reorg: number of blocks to disconnect (the competing branch has D+1 blocks)
	Blks [][]int `json:"blks"` // Reorg: candidate transactions of the blocks of the competing branch
}

type OpLine struct {
	Ops []Op `json:"ops"`
	Obs int  `json:"obs"` // the listing is requested after every Obs-th operation (and always before mining from it); 0 = 1
}

// ------------------------------------------------------------------ observations

type PoolEnt struct {
	T     int      `json:"t"`
	Fee   conc.Amt `json:"fee"`
	Vsize int      `json:"vsize"`
	Wt    int      `json:"weight"`
	Sops  int      `json:"sops"` // SigopsCost
	Vol   conc.Amt `json:"vol"`  // Volume
	Mem   []bool   `json:"mem"`
	Mic   int      `json:"mic"`
}

type SpentEnt struct {
	Tx   int `json:"tx"`
	Vout int `json:"vout"` // 1-based
	By   int `json:"by"`
}

type RejEnt struct {
	T    int    `json:"t"`
	Kind string `json:"kind"` // hard (no data kept) | soft (data kept) | orphan (waiting for W4)
	W4   int    `json:"w4"`
	Code int    `json:"code"`
}

type Obs struct {
	Pool   []PoolEnt  `json:"pool"`
	Spent  []SpentEnt `json:"spent"`
	Rej    []RejEnt   `json:"rej"`
	HasLst bool       `json:"haslst"`
	Lst    []int      `json:"lst"` // GetSortedMempoolRBF
	Srt    []int      `json:"srt"` // GetSortedMempool
	Mp     bool       `json:"mp"`  // txpool.MempoolCheck(): true = the package's own checker found an inconsistency
	MpText string     `json:"mptext"`
	Bad    []string   `json:"bad"` // what the driver itself found wrong (unknown objects, raw size fields, totals)
}

type Event struct {
	Ev   string `json:"ev"`
	I    int    `json:"i"` // index of the operation within its trace
	T    int    `json:"t"`
	Mode string `json:"mode"`
	Res  string `json:"res"`  // Submit: accepted | refused | orphaned | notneeded
	Code int    `json:"code"` // Submit: the package's reason code (information only)
	B    int    `json:"b"`    // block id
	Txs  []int  `json:"txs"`  // block contents (without the coinbase)
	Src  string `json:"src"`  // Deliver: listing | foreign | side
	Acc  bool   `json:"acc"`  // Deliver: accepted by the chain
	Aged []int  `json:"aged"` // Tick: pooled transactions made older than the expiry limit before the tick
	Exp  bool   `json:"exp"`  // Tick: the expiry pass was enabled
	What string `json:"what"` // Fail / Op: text
	Op   *Op    `json:"op,omitempty"`
	Obs  *Obs   `json:"obs,omitempty"`
}

// ------------------------------------------------------------------ BIP141 sizes from raw bytes (own parser)

func rdVar(b []byte, p int) (uint64, int) {
	switch b[p] {
	case 0xfd:
		return uint64(binary.LittleEndian.Uint16(b[p+1:])), p + 3
	case 0xfe:
		return uint64(binary.LittleEndian.Uint32(b[p+1:])), p + 5
	case 0xff:
		return binary.LittleEndian.Uint64(b[p+1:]), p + 9
	}
	return uint64(b[p]), p + 1
}

// sizes returns (total size, size without witness data) of a serialized transaction.
func sizes(raw []byte) (total, stripped int) {
	defer func() {
		if recover() != nil {
			total, stripped = -1, -1
		}
	}()
	p := 4
	segwit := raw[4] == 0 && raw[5] == 1
	if segwit {
		p = 6
	}
	nin, p2 := rdVar(raw, p)
	p = p2
	for i := uint64(0); i < nin; i++ {
		p += 36
		l, q := rdVar(raw, p)
		p = q + int(l) + 4
	}
	nout, p3 := rdVar(raw, p)
	p = p3
	for i := uint64(0); i < nout; i++ {
		p += 8
		l, q := rdVar(raw, p)
		p = q + int(l)
	}
	wstart := p
	if segwit {
		for i := uint64(0); i < nin; i++ {
			n, q := rdVar(raw, p)
			p = q
			for j := uint64(0); j < n; j++ {
				l, q := rdVar(raw, p)
				p = q + int(l)
			}
		}
	}
	wlen := p - wstart
	p += 4
	if p != len(raw) {
		return -1, -1
	}
	total = len(raw)
	stripped = total
	if segwit {
		stripped = total - 2 - wlen
	}
	return
}

func refWeight(raw []byte) (weight, vsize int) {
	t, s := sizes(raw)
	weight = 3*s + t
	vsize = (weight + 3) / 4
	return
}

// ------------------------------------------------------------------ BIP141 sigop cost (own counting)

// countSigops: CHECKSIG(VERIFY) = 1, CHECKMULTISIG(VERIFY) = the preceding OP_1..OP_16 when accurate, else 20
func countSigops(sc []byte, accurate bool) (n int) {
	last := byte(0xff)
	for p := 0; p < len(sc); {
		op := sc[p]
		p++
		switch {
		case op >= 1 && op <= 75:
			p += int(op)
		case op == 76:
			if p >= len(sc) {
				return
			}
			p += 1 + int(sc[p])
		case op == 77:
			if p+1 >= len(sc) {
				return
			}
			p += 2 + int(binary.LittleEndian.Uint16(sc[p:]))
		case op == 78:
			if p+3 >= len(sc) {
				return
			}
			p += 4 + int(binary.LittleEndian.Uint32(sc[p:]))
		}
		if p > len(sc) {
			return
		}
		switch op {
		case 0xac, 0xad:
			n++
		case 0xae, 0xaf:
			if accurate && last >= 0x51 && last <= 0x60 {
				n += int(last - 0x50)
			} else {
				n += 20
			}
		}
		last = op
	}
	return
}

// lastPush returns the data of the last push of a push-only script (ok = false: not push-only / malformed).
func lastPush(sc []byte) (data []byte, ok bool) {
	for p := 0; p < len(sc); {
		op := sc[p]
		p++
		l := 0
		switch {
		case op <= 75:
			l = int(op)
		case op == 76 && p < len(sc):
			l = int(sc[p])
			p++
		case op == 77 && p+1 < len(sc):
			l = int(binary.LittleEndian.Uint16(sc[p:]))
			p += 2
		case op == 78 && p+3 < len(sc):
			l = int(binary.LittleEndian.Uint32(sc[p:]))
			p += 4
		case op >= 0x4f && op <= 0x60:
			data = nil
			continue
		default:
			return nil, false
		}
		if p+l > len(sc) {
			return nil, false
		}
		data = sc[p : p+l]
		p += l
	}
	return data, true
}

func witnessSigops(prog []byte, wit [][]byte) int {
	if len(prog) >= 2 && prog[0] == 0 { // version 0
		if len(prog) == 22 {
			return 1
		}
		if len(prog) == 34 && len(wit) > 0 {
			return countSigops(wit[len(wit)-1], true)
		}
	}
	return 0
}

func isWitnessProgram(sc []byte) bool {
	return len(sc) >= 4 && len(sc) <= 42 && (sc[0] == 0 || (sc[0] >= 0x51 && sc[0] <= 0x60)) && int(sc[1]) == len(sc)-2
}

func isP2SH(sc []byte) bool { return len(sc) == 23 && sc[0] == 0xa9 && sc[1] == 20 && sc[22] == 0x87 }

// refSigopCost: legacy sigops of every scriptSig and output script x 4, P2SH redeem-script sigops x 4,
// witness sigops x 1 (native and P2SH-wrapped); spent[i] = the script of the output input i spends (nil: unknown)
func refSigopCost(tx *btc.Tx, spent [][]byte) int {
	legacy := 0
	for _, in := range tx.TxIn {
		legacy += countSigops(in.ScriptSig, false)
	}
	for _, o := range tx.TxOut {
		legacy += countSigops(o.Pk_script, false)
	}
	cost := 4 * legacy
	for i, in := range tx.TxIn {
		spk := spent[i]
		if spk == nil {
			continue
		}
		var wit [][]byte
		if len(tx.SegWit) > i {
			wit = tx.SegWit[i]
		}
		if isWitnessProgram(spk) {
			cost += witnessSigops(spk, wit)
			continue
		}
		if isP2SH(spk) {
			if redeem, ok := lastPush(in.ScriptSig); ok {
				cost += 4 * countSigops(redeem, true)
				if isWitnessProgram(redeem) {
					cost += witnessSigops(redeem, wit)
				}
			}
		}
	}
	return cost
}

// spentOf: scripts and total value of the outputs a scenario transaction spends (as far as they exist)
func spentOf(w *conc.World, id int) (scripts [][]byte, vol uint64) {
	for _, in := range w.Sc.Tx[id].Ins {
		var sc []byte
		if ptx := w.Tx(in.Tx); ptx != nil && in.Vout >= 1 && in.Vout <= len(ptx.TxOut) {
			sc = ptx.TxOut[in.Vout-1].Pk_script
			vol += ptx.TxOut[in.Vout-1].Value
		}
		scripts = append(scripts, sc)
	}
	return
}

// ------------------------------------------------------------------ the runner

type blk struct {
	id, parent, height int
	txs                []int
	hash               [32]byte
	ts                 uint32
	raw                []byte
}

type runner struct {
	w       *conc.World
	dir     string
	n       *conc.Node
	out     *bufio.Writer
	outf    *os.File
	blocks  map[int]*blk
	byHash  map[[32]byte]int
	active  []int // block ids above the base tip, bottom up
	nextB   int
	opI     int
	uidx    map[uint64][2]int // UIdx of every outpoint referred to by a scenario transaction -> (tx, vout 1-based)
	wantLst bool
	fails   int
}

func (r *runner) emit(e *Event) {
	e.I = r.opI
	if e.Txs == nil {
		e.Txs = []int{}
	}
	if e.Aged == nil {
		e.Aged = []int{}
	}
	b, err := json.Marshal(e)
	if err != nil {
		panic(err)
	}
	r.out.Write(b)
	r.out.WriteByte('\n')
	r.out.Flush()
}

func (r *runner) id(h [32]byte) int {
	if id, ok := r.w.TxID[h]; ok {
		return id
	}
	return -1
}

func (r *runner) idOfBidx(b btc.BIDX, o *Obs) int {
	// pool and reject-cache keys are the first 8 bytes of the hash
	for h, id := range r.w.TxID {
		if btc.BIdx(h[:]) == b {
			return id
		}
	}
	return -1
}

func satAmt(v uint64) conc.Amt { return conc.SatAmt(v) }

// observe projects the real pool to abstract ids.  TxMutex must NOT be held.
func (r *runner) observe(withLst bool) *Obs {
	o := &Obs{Pool: []PoolEnt{}, Spent: []SpentEnt{}, Rej: []RejEnt{}, Lst: []int{}, Srt: []int{}, Bad: []string{}}
	bad := func(f string, a ...interface{}) {
		if len(o.Bad) < 8 {
			o.Bad = append(o.Bad, fmt.Sprintf(f, a...))
		}
	}
	txpool.TxMutex.Lock()
	defer txpool.TxMutex.Unlock()
	o.Mp = r.mpCheck(o)
	if withLst {
		o.HasLst = true
		for _, t := range txpool.GetSortedMempoolRBF() {
			id := -1
			if t != nil {
				id = r.id(t.Hash.Hash)
			}
			if id < 0 {
				bad("listing holds an unknown transaction")
			}
			o.Lst = append(o.Lst, id)
		}
		for _, t := range txpool.GetSortedMempool() {
			id := -1
			if t != nil {
				id = r.id(t.Hash.Hash)
			}
			if id < 0 {
				bad("sorted list holds an unknown transaction")
			}
			o.Srt = append(o.Srt, id)
		}
		if r.mpCheck(o) {
			o.Mp = true
		}
	}
	bidx2id := map[btc.BIDX]int{}
	var totw, totf uint64
	for k, t := range txpool.TransactionsToSend {
		id := r.id(t.Hash.Hash)
		if id < 0 {
			bad("pool holds a transaction that was never submitted: %s", t.Hash.String())
			continue
		}
		if k != t.Hash.BIdx() {
			bad("pool key of tx %d does not match its hash", id)
		}
		bidx2id[k] = id
		e := PoolEnt{T: id, Fee: satAmt(t.Fee), Vsize: t.VSize(), Wt: t.Weight(), Sops: int(t.SigopsCost), Vol: satAmt(t.Volume),
			Mic: int(t.MemInputCnt), Mem: make([]bool, len(t.TxIn))}
		if t.MemInputs != nil {
			if len(t.MemInputs) != len(t.TxIn) {
				bad("tx %d: MemInputs has %d entries for %d inputs", id, len(t.MemInputs), len(t.TxIn))
			}
			copy(e.Mem, t.MemInputs)
		}
		tot, str := sizes(t.Raw)
		if int(t.Size) != tot || int(t.NoWitSize) != str {
			bad("tx %d: recorded Size/NoWitSize %d/%d, raw bytes give %d/%d", id, t.Size, t.NoWitSize, tot, str)
		}
		if rw, _ := refWeight(t.Raw); t.Weight() != rw {
			bad("tx %d: Weight() is %d, BIP141 weight of the raw bytes is %d", id, t.Weight(), rw)
		}
		totw += uint64(t.Weight())
		totf += uint64(t.Footprint)
		o.Pool = append(o.Pool, e)
	}
	if totw != txpool.TransactionsToSendWeight {
		bad("TransactionsToSendWeight is %d, the pooled transactions weigh %d", txpool.TransactionsToSendWeight, totw)
	}
	if totf != txpool.TransactionsToSendSize {
		bad("TransactionsToSendSize is %d, the footprints add up to %d", txpool.TransactionsToSendSize, totf)
	}
	sort.Slice(o.Pool, func(a, b int) bool { return o.Pool[a].T < o.Pool[b].T })
	for k, v := range txpool.SpentOutputs {
		by, ok := bidx2id[v]
		if !ok {
			by = r.idOfBidx(v, o)
		}
		op, known := r.uidx[k]
		if !known {
			bad("SpentOutputs holds a key that is no input of any known transaction")
			op = [2]int{-1, 0}
		}
		o.Spent = append(o.Spent, SpentEnt{Tx: op[0], Vout: op[1], By: by})
	}
	sort.Slice(o.Spent, func(a, b int) bool {
		if o.Spent[a].Tx != o.Spent[b].Tx {
			return o.Spent[a].Tx < o.Spent[b].Tx
		}
		return o.Spent[a].Vout < o.Spent[b].Vout
	})
	for _, tr := range txpool.TransactionsRejected {
		id := r.id(tr.Id.Hash)
		if id < 0 {
			bad("reject cache holds an unknown transaction")
			continue
		}
		e := RejEnt{T: id, Kind: "hard", Code: int(tr.Reason)}
		if tr.Tx != nil {
			e.Kind = "soft"
		}
		if tr.Waiting4 != nil {
			e.Kind = "orphan"
			e.W4 = r.id(tr.Waiting4.Hash)
			if e.W4 < 0 {
				e.W4 = r.missingID(tr.Waiting4.Hash)
			}
		}
		o.Rej = append(o.Rej, e)
	}
	sort.Slice(o.Rej, func(a, b int) bool { return o.Rej[a].T < o.Rej[b].T })
	return o
}

// mpCheck runs the package's own checker; what it prints is kept for the report.
func (r *runner) mpCheck(o *Obs) bool {
	save := os.Stdout
	f, err := os.Create(filepath.Join(r.dir, "mpcheck.txt"))
	if err == nil {
		os.Stdout = f
	}
	res := txpool.MempoolCheck()
	os.Stdout = save
	if err == nil {
		f.Close()
		if res && o.MpText == "" {
			b, _ := os.ReadFile(f.Name())
			if len(b) > 600 {
				b = b[:600]
			}
			o.MpText = string(b)
		}
	}
	return res
}

// missingID maps the hash of a never-existing parent back to the abstract id used by the scenario.
func (r *runner) missingID(h [32]byte) int {
	for _, d := range r.w.Sc.Tx {
		for _, in := range d.Ins {
			if _, def := r.w.Sc.Tx[in.Tx]; def || in.Tx <= r.w.Sc.BaseH || in.Tx > conc.CbBase {
				continue
			}
			if r.missHash(in.Tx) == h {
				return in.Tx
			}
		}
	}
	return -1
}

var missCache = map[int][32]byte{}

func (r *runner) missHash(t int) [32]byte {
	if h, ok := missCache[t]; ok {
		return h
	}
	// the concretiser derives the txid of an undefined parent from its id; recover it from any input that uses it
	for id, d := range r.w.Sc.Tx {
		for i, in := range d.Ins {
			if in.Tx == t {
				h := r.w.Tx(id).TxIn[i].Input.Hash
				missCache[t] = h
				return h
			}
		}
	}
	return [32]byte{}
}

func (r *runner) buildUidx() {
	r.uidx = map[uint64][2]int{}
	for id, d := range r.w.Sc.Tx {
		tx := r.w.Tx(id)
		for i, in := range d.Ins {
			r.uidx[tx.TxIn[i].Input.UIdx()] = [2]int{in.Tx, in.Vout}
		}
	}
}

// ------------------------------------------------------------------ chain handling

func (r *runner) tip() (hash [32]byte, ts uint32, height int) {
	if len(r.active) == 0 {
		h, t := r.w.BaseTip()
		return h, t, r.w.Sc.BaseH
	}
	b := r.blocks[r.active[len(r.active)-1]]
	return b.hash, b.ts, b.height
}

type outp struct{ tx, vout int }

// confirmed replays the active chain up to (and including) the first `upto` run-time blocks on the abstract
// level: unspent confirmed outputs -> height of the creating block.
func (r *runner) confirmed(upto int) map[outp]int {
	u := map[outp]int{}
	for h := 1; h <= r.w.Sc.BaseH; h++ {
		u[outp{h, 1}] = h
	}
	for _, b := range r.active[:upto] {
		bl := r.blocks[b]
		for _, t := range bl.txs {
			d := r.w.Sc.Tx[t]
			for _, in := range d.Ins {
				delete(u, outp{in.Tx, in.Vout})
			}
			for v := range d.Outs {
				u[outp{t, v + 1}] = bl.height
			}
		}
	}
	return u
}

// selectValid keeps, in order, the candidates that are valid on top of view u at the given height.
func (r *runner) selectValid(cands []int, u map[outp]int, height int) (sel []int) {
	seen := map[int]bool{}
	sigops := 400
	for _, t := range cands {
		d, ok := r.w.Sc.Tx[t]
		if !ok || seen[t] {
			continue
		}
		good := true
		var insum, outsum uint64
		used := map[outp]bool{}
		for _, in := range d.Ins {
			h, have := u[outp{in.Tx, in.Vout}]
			if !have || !in.Ok || used[outp{in.Tx, in.Vout}] {
				good = false
				break
			}
			if in.Tx <= r.w.Sc.BaseH && height-h < 100 {
				good = false
				break
			}
			used[outp{in.Tx, in.Vout}] = true
			insum += r.w.OutsOf(in.Tx)[in.Vout-1].Amt.Sat()
		}
		for _, o := range d.Outs {
			outsum += o.Amt.Sat()
		}
		if !good || outsum > insum {
			continue
		}
		if _, conf := u[outp{t, 1}]; conf {
			continue
		}
		scripts, _ := spentOf(r.w, t)
		if c := refSigopCost(r.w.Tx(t), scripts); sigops+c > 80000 {
			continue
		} else {
			sigops += c
		}
		seen[t] = true
		for _, in := range d.Ins {
			delete(u, outp{in.Tx, in.Vout})
		}
		for v := range d.Outs {
			u[outp{t, v + 1}] = height
		}
		sel = append(sel, t)
	}
	return
}

func (r *runner) feesOf(txs []int) (f uint64) {
	for _, t := range txs {
		d := r.w.Sc.Tx[t]
		var insum, outsum uint64
		for _, in := range d.Ins {
			insum += r.w.OutsOf(in.Tx)[in.Vout-1].Amt.Sat()
		}
		for _, o := range d.Outs {
			outsum += o.Amt.Sat()
		}
		f += insum - outsum
	}
	return
}

func (r *runner) newBlock(parent int, txs []int, cbSat uint64) *blk {
	var ph [32]byte
	var pt uint32
	var ht int
	if parent == 0 {
		ph, pt = r.w.BaseTip()
		ht = r.w.Sc.BaseH
	} else {
		p := r.blocks[parent]
		ph, pt, ht = p.hash, p.ts, p.height
	}
	r.nextB++
	b := &blk{id: r.nextB, parent: parent, height: ht + 1, txs: append([]int{}, txs...), ts: pt + 600 + uint32(r.nextB)}
	var real []*btc.Tx
	for _, t := range txs {
		real = append(real, r.w.FreshTx(t))
	}
	raw, _ := conc.BuildBlock(uint32(b.height), ph, b.ts, b.id, cbSat, real)
	b.raw = raw
	b.hash = btc.NewSha2Hash(raw[:80]).Hash
	r.blocks[b.id] = b
	r.byHash[b.hash] = b.id
	return b
}

// deliver hands a block to the chain the way client/main.go does.
func (r *runner) deliver(b *blk, src string) bool {
	checker := chain.TrustedTxChecker
	if src == "listing" {
		// a block assembled from the listing has to pass FULL validation: the pool's shortcut ("scripts of pooled
		// transactions were verified on entry") is switched off for it
		chain.TrustedTxChecker = nil
	}
	txpool.BlockCommitInProgress(true)
	acc, _, _ := r.n.Deliver(b.raw)
	txpool.BlockCommitInProgress(false)
	chain.TrustedTxChecker = checker
	common.Last.Mutex.Lock()
	common.Last.Block = r.n.Ch.LastBlock()
	common.Last.Mutex.Unlock()
	common.UpdateScriptFlags(0)
	r.emit(&Event{Ev: "Deliver", B: b.id, Txs: b.txs, Src: src, Acc: acc, Obs: r.observe(true)})
	return acc
}

func (r *runner) blockMinedCB(bl *btc.Block) {
	txpool.BlockMined(bl)
	id, ok := r.byHash[bl.Hash.Hash]
	if !ok {
		r.emit(&Event{Ev: "Fail", What: "BlockMined callback for an unknown block"})
		return
	}
	r.active = append(r.active, id)
	r.emit(&Event{Ev: "Mined", B: id, Txs: r.blocks[id].txs, Obs: r.observe(false)})
}

func (r *runner) blockUndoneCB(bl *btc.Block) {
	txpool.BlockUndone(bl)
	id, ok := r.byHash[bl.Hash.Hash]
	if !ok || len(r.active) == 0 || r.active[len(r.active)-1] != id {
		r.emit(&Event{Ev: "Fail", What: "BlockUndone callback for a block that is not the tip"})
		return
	}
	r.active = r.active[:len(r.active)-1]
	r.emit(&Event{Ev: "Undone", B: id, Txs: r.blocks[id].txs, Obs: r.observe(false)})
}

// ------------------------------------------------------------------ damaged pool files

// dumpLayout walks mempool.dmp (file version 9: tip hash | version | count | pooled records | count | rejected
// records | end marker) and returns the offsets of the two counts and of every record boundary.
func dumpLayout(b []byte) (counts []int, bounds []int) {
	defer func() { recover() }()
	vl := func(p int) (uint64, int) { return rdVar(b, p) }
	p := 32
	_, p = vl(p) // version
	counts = append(counts, p)
	n, q := vl(p)
	p = q
	bounds = append(bounds, p)
	for i := uint64(0); i < n; i++ {
		l, q := vl(p)
		p = q + int(l) + 56
		bounds = append(bounds, p)
	}
	counts = append(counts, p)
	n, q = vl(p)
	p = q
	bounds = append(bounds, p)
	for i := uint64(0); i < n; i++ {
		flags := binary.LittleEndian.Uint32(b[p+36:])
		p += 40
		if flags&(1<<23) != 0 {
			p += 32
		}
		if flags&(1<<22) != 0 {
			p += int(flags & (1<<22 - 1))
		}
		bounds = append(bounds, p)
	}
	return
}

// damageDump: mode "corrupt": one of the two record counts is changed; otherwise the file is cut at one of the
// interesting positions (0, inside the tip hash, inside the version, at every record boundary, in the middle of
// every record, just before / inside the end marker, one byte short), selected by sel.
func damageDump(b []byte, mode string, sel int) (string, []byte) {
	if sel < 0 {
		sel = -sel
	}
	counts, bounds := dumpLayout(b)
	if mode == "corrupt" && len(counts) > 0 {
		off := counts[sel%len(counts)]
		nb := append([]byte{}, b...)
		if (sel/2)%2 == 0 && nb[off] < 0xfc {
			nb[off]++
		} else if nb[off] > 0 {
			nb[off]--
		} else {
			nb[off] = 3
		}
		return fmt.Sprintf("count byte at %d changed from %d to %d", off, b[off], nb[off]), nb
	}
	pos := []int{0, 16, 33, len(b) - 11, len(b) - 5, len(b) - 1}
	for i, x := range bounds {
		pos = append(pos, x)
		if i > 0 {
			pos = append(pos, (bounds[i-1]+x)/2)
		}
	}
	cut := pos[sel%len(pos)]
	if cut < 0 {
		cut = 0
	}
	if cut > len(b) {
		cut = len(b)
	}
	return fmt.Sprintf("cut at %d of %d", cut, len(b)), b[:cut]
}

// ------------------------------------------------------------------ one trace

func (r *runner) reset() error {
	if r.n != nil {
		r.n.Close()
		r.n = nil
	}
	d := filepath.Join(r.dir, "node")
	if err := r.w.CloneBase(d); err != nil {
		return err
	}
	home := filepath.Join(r.dir, "home") + string(os.PathSeparator)
	os.RemoveAll(home)
	os.MkdirAll(home, 0770)
	common.GocoinHomeDir = home
	r.n = r.w.OpenNode(d, &chain.NewChanOpts{BlockMinedCB: r.blockMinedCB, BlockUndoneCB: r.blockUndoneCB})
	common.BlockChain = r.n.Ch
	common.Reset()
	txpool.InitMempool()
	for k := range txpool.TransactionsPending {
		delete(txpool.TransactionsPending, k)
	}
	txpool.CurrentFeeAdjustedSPKB = 0
	txpool.LastSortingDone = time.Time{}
	txpool.VerifSetNextExpire(time.Now().Add(time.Hour))
	common.Last.Mutex.Lock()
	common.Last.Block = r.n.Ch.LastBlock()
	common.Last.Mutex.Unlock()
	common.UpdateScriptFlags(0)
	r.blocks = map[int]*blk{}
	r.byHash = map[[32]byte]int{}
	r.active = nil
	r.nextB = 0
	return nil
}

func (r *runner) submit(op *Op) {
	tx := r.w.FreshTx(op.T)
	ev := &Event{Ev: "Submit", T: op.T, Mode: op.Mode}
	switch op.Mode {
	case "local":
		// client/usif.LoadRawTx
		txpool.TxMutex.Lock()
		txpool.DeleteRejectedByIdx(tx.Hash.BIdx(), false)
		txpool.TxMutex.Unlock()
		if why := txpool.NeedThisTxExt(&tx.Hash, nil); why != 0 {
			txpool.TxMutex.Lock()
			if t2s := txpool.TransactionsToSend[tx.Hash.BIdx()]; t2s != nil {
				t2s.Local = true
			}
			txpool.TxMutex.Unlock()
			ev.Res, ev.Code = "notneeded", why
			break
		}
		if txpool.SubmitLocalTx(tx, tx.Raw) {
			ev.Res = "accepted"
		} else {
			ev.Res = "refused"
			txpool.TxMutex.Lock()
			if rr := txpool.TransactionsRejected[tx.Hash.BIdx()]; rr != nil {
				ev.Code = int(rr.Reason)
				if rr.Reason == txpool.TX_REJECTED_NO_TXOU {
					ev.Res = "orphaned"
				}
			}
			txpool.TxMutex.Unlock()
		}
	default:
		// client/network ParseTxNet + the main loop
		queued := false
		why := txpool.NeedThisTxExt(&tx.Hash, func() {
			txpool.TransactionsPending[tx.Hash.BIdx()] = true
			queued = true
		})
		if !queued {
			ev.Res, ev.Code = "notneeded", why
			break
		}
		ntx := &txpool.TxRcvd{Tx: tx, Trusted: op.Mode == "trusted"}
		ntx.FeedbackCB = func(n *txpool.TxRcvd, t2s *txpool.OneTxToSend) { ev.Code = int(n.Result) }
		if txpool.HandleNetTx(ntx) {
			ev.Res = "accepted"
		} else if ev.Code == txpool.TX_REJECTED_NO_TXOU {
			ev.Res = "orphaned"
		} else {
			ev.Res = "refused"
		}
	}
	ev.Obs = r.observe(r.wantLst)
	r.emit(ev)
}

func (r *runner) runOp(op *Op) {
	switch op.A {
	case "Submit":
		if _, ok := r.w.Sc.Tx[op.T]; !ok {
			return
		}
		r.submit(op)
	case "MineListing":
		var ids []int
		var fees uint64
		func() {
			txpool.TxMutex.Lock()
			defer txpool.TxMutex.Unlock()
			// assembled the way client/rpcapi does it: the listing is cut where the pool's RECORDED weight / sigop
			// cost would pass the block limits
			weight := 4000 // header + coinbase, generously
			sigops := uint64(400)
			for i, t := range txpool.GetSortedMempoolRBF() {
				if op.K >= 0 && i >= op.K {
					break
				}
				if weight+t.Weight() > 4e6 || sigops+t.SigopsCost > btc.MAX_BLOCK_SIGOPS_COST {
					break
				}
				weight += t.Weight()
				sigops += t.SigopsCost
				ids = append(ids, r.id(t.Hash.Hash))
				fees += t.Fee
			}
		}()
		for _, id := range ids {
			if id < 0 {
				r.emit(&Event{Ev: "Fail", What: "listing holds an unknown transaction"})
				return
			}
		}
		r.emit(&Event{Ev: "Observe", Obs: r.observe(true)}) // the listing the block is assembled from
		par := 0
		if len(r.active) > 0 {
			par = r.active[len(r.active)-1]
		}
		b := r.newBlock(par, ids, 50e8+fees)
		r.deliver(b, "listing")
	case "MineForeign", "MineRejected":
		cands := op.Txs
		if op.A == "MineRejected" {
			// somebody mined what this node refused: every transaction the reject cache still holds with its
			// data (refused replacements, replaced ones, waiting orphans) that is valid on the chain, plus op.Txs
			cands = append([]int{}, op.Txs...)
			txpool.TxMutex.Lock()
			for _, tr := range txpool.TransactionsRejected {
				if tr.Tx != nil {
					if id := r.id(tr.Id.Hash); id > 0 {
						cands = append(cands, id)
					}
				}
			}
			// ... together with their pooled ancestors, so that the block is valid
			seen := map[int]bool{}
			var anc func(t int)
			anc = func(t int) {
				for _, in := range r.w.Sc.Tx[t].Ins {
					if tx := r.w.Tx(in.Tx); tx != nil && in.Tx > r.w.Sc.BaseH && !seen[in.Tx] {
						if _, pooled := txpool.TransactionsToSend[tx.Hash.BIdx()]; pooled {
							seen[in.Tx] = true
							cands = append(cands, in.Tx)
							anc(in.Tx)
						}
					}
				}
			}
			for _, t := range append([]int{}, cands...) {
				anc(t)
			}
			txpool.TxMutex.Unlock()
			sort.Ints(cands) // parents have smaller ids
		}
		_, _, h := r.tip()
		sel := r.selectValid(cands, r.confirmed(len(r.active)), h+1)
		par := 0
		if len(r.active) > 0 {
			par = r.active[len(r.active)-1]
		}
		b := r.newBlock(par, sel, 50e8+r.feesOf(sel))
		r.deliver(b, "foreign")
	case "Reorg":
		d := op.D
		if d > len(r.active) {
			d = len(r.active)
		}
		if d < 1 {
			return
		}
		keep := len(r.active) - d
		par := 0
		if keep > 0 {
			par = r.active[keep-1]
		}
		u := r.confirmed(keep)
		ph := r.w.Sc.BaseH + keep
		for i := 0; i <= d; i++ {
			var sel []int
			if i < len(op.Blks) {
				sel = r.selectValid(op.Blks[i], u, ph+1)
			}
			b := r.newBlock(par, sel, 50e8+r.feesOf(sel))
			src := "side"
			if i == d {
				src = "foreign"
			}
			r.deliver(b, src)
			par = b.id
			ph++
		}
	case "Observe":
		r.emit(&Event{Ev: "Observe", Obs: r.observe(true)})
	case "Tick":
		txpool.Tick()
		r.emit(&Event{Ev: "Tick", Aged: []int{}, Obs: r.observe(r.wantLst)})
	case "Expire":
		aged := []int{}
		txpool.TxMutex.Lock()
		for _, t := range op.Txs {
			if tx := r.w.Tx(t); tx != nil {
				if t2s := txpool.TransactionsToSend[tx.Hash.BIdx()]; t2s != nil {
					t2s.Lastseen = time.Now().Add(-common.Get(&common.TxExpireAfter) - time.Hour)
					aged = append(aged, t)
				}
			}
		}
		txpool.TxMutex.Unlock()
		txpool.VerifSetNextExpire(time.Now().Add(-time.Second))
		txpool.Tick()
		r.emit(&Event{Ev: "Tick", Aged: aged, Exp: true, Obs: r.observe(r.wantLst)})
	case "SaveCutLoad":
		// a restart on the same tip with a pool file that was cut short (crash while saving) or damaged
		txpool.MempoolSave(true)
		fn := common.GocoinHomeDir + txpool.MEMPOOL_FILE_NAME
		b, err := os.ReadFile(fn)
		if err != nil {
			r.emit(&Event{Ev: "Fail", What: "mempool.dmp not written: " + err.Error()})
			return
		}
		what, nb := damageDump(b, op.Mode, op.K)
		os.WriteFile(fn, nb, 0660)
		// the loader println()s raw bytes of the damaged file: keep them out of the driver's stderr
		saved, e1 := syscall.Dup(2)
		if devnull, e2 := os.OpenFile(os.DevNull, os.O_WRONLY, 0); e1 == nil && e2 == nil {
			syscall.Dup2(int(devnull.Fd()), 2)
			defer devnull.Close()
		}
		ok := txpool.MempoolLoad()
		if e1 == nil {
			syscall.Dup2(saved, 2)
			syscall.Close(saved)
		}
		r.emit(&Event{Ev: "SaveLoad", Acc: ok, Res: what, Obs: r.observe(true)})
	case "SaveLoad":
		txpool.MempoolSave(true)
		ok := txpool.MempoolLoad()
		e := &Event{Ev: "SaveLoad", Acc: ok, Obs: r.observe(r.wantLst)}
		r.emit(e)
	}
}

// watchdog: an operation of the pool normally takes about a millisecond.  When one does not return within
// `limit`, the main goroutine's stack is looked at twice: if it sits inside client/txpool both times the
// pool loops forever (reported as a Fail event, exit code 3); otherwise the machine is just slow (exit 2).
var opStart atomic.Int64

func mainStack() string {
	buf := make([]byte, 1<<20)
	n := runtime.Stack(buf, true)
	st := string(buf[:n])
	i := strings.Index(st, "goroutine 1 [")
	if i < 0 {
		return ""
	}
	st = st[i:]
	if j := strings.Index(st, "\n\n"); j > 0 {
		st = st[:j]
	}
	return st
}

func (r *runner) watchdog(limit time.Duration) {
	for {
		time.Sleep(200 * time.Millisecond)
		s := opStart.Load()
		if s == 0 || time.Since(time.Unix(0, s)) < limit {
			continue
		}
		st1 := mainStack()
		time.Sleep(2 * time.Second)
		st2 := mainStack()
		if opStart.Load() != s {
			continue
		}
		if !strings.Contains(st1, "gocoin/client/txpool.") || !strings.Contains(st2, "gocoin/client/txpool.") {
			fmt.Fprintln(os.Stderr, "watchdog: operation too slow, but not inside client/txpool\n", st2)
			os.Exit(2)
		}
		fn := "client/txpool"
		for _, ln := range strings.Split(st2, "\n") {
			if strings.Contains(ln, "gocoin/client/txpool.") && !strings.Contains(ln, ".go:") {
				fn = strings.TrimSpace(ln[strings.Index(ln, "gocoin/client/txpool."):])
				if k := strings.Index(fn, "("); k > 0 {
					fn = fn[:k]
				}
				if strings.Contains(fn, "txAccepted") || strings.Contains(fn, "BlockMined") || strings.Contains(fn, "HandleNetTx") || strings.Contains(fn, "Tick") {
					break
				}
			}
		}
		e := Event{Ev: "Fail", I: r.opI, Txs: []int{}, Aged: []int{}, What: "hang: the operation does not return (" + limit.String() + "), the main goroutine stays inside " + fn + "\n" + st2}
		b, _ := json.Marshal(&e)
		r.outf.Write(append(b, '\n'))
		r.outf.Sync()
		os.Exit(3)
	}
}

func (r *runner) runTrace(ln *OpLine) (err interface{}) {
	defer func() {
		opStart.Store(0)
		if e := recover(); e != nil {
			err = fmt.Sprint(e, "\n", string(debug.Stack()))
		}
	}()
	every := ln.Obs
	if every < 1 {
		every = 1
	}
	for i := range ln.Ops {
		r.opI = i + 1
		op := ln.Ops[i]
		r.wantLst = (i+1)%every == 0 || i == len(ln.Ops)-1
		r.emit(&Event{Ev: "Op", Op: &op})
		opStart.Store(time.Now().UnixNano())
		r.runOp(&op)
		opStart.Store(0)
	}
	return nil
}

// ------------------------------------------------------------------ model scenario for TLC

type mIn struct {
	Tx   int  `json:"tx"`
	Vout int  `json:"vout"`
	Ok   bool `json:"ok"`
}
type mOut struct {
	Amt conc.Amt `json:"amt"`
}
type mTx struct {
	Ins   []mIn  `json:"ins"`
	Outs  []mOut `json:"outs"`
	Vsize int    `json:"vsize"`
	Sops  int    `json:"sops"`
}

// writeModelScenario: the universe as TraceMempool.tla reads it (a table keyed by id: see the note there)
func writeModelScenario(w *conc.World, path string) error {
	var ids []int
	for id := range w.Sc.Tx {
		ids = append(ids, id)
	}
	sort.Ints(ids)
	txs := map[string]mTx{}
	for _, id := range ids {
		d := w.Sc.Tx[id]
		m := mTx{Ins: []mIn{}, Outs: []mOut{}}
		for _, in := range d.Ins {
			m.Ins = append(m.Ins, mIn{in.Tx, in.Vout, in.Ok})
		}
		for _, o := range d.Outs {
			m.Outs = append(m.Outs, mOut{o.Amt})
		}
		_, m.Vsize = refWeight(w.Tx(id).Raw)
		scripts, _ := spentOf(w, id)
		m.Sops = refSigopCost(w.Tx(id), scripts)
		txs[fmt.Sprint(id)] = m
	}
	b, _ := json.Marshal(map[string]interface{}{"baseh": w.Sc.BaseH, "ids": ids, "tx": txs})
	return os.WriteFile(path, b, 0660)
}

// ------------------------------------------------------------------ main

func setupCommon() {
	common.Testnet = true
	common.CFG.Testnet = true
	common.CFG.TXPool.Enabled = true
	common.CFG.TXPool.AllowMemInputs = true
	common.CFG.TXPool.MaxTxWeight = 400e3
	common.CFG.TXPool.MaxSizeMB = 10
	common.CFG.TXPool.RejectRecCnt = 100
	common.CFG.TXPool.MaxRejectMB = 0.3
	common.CFG.TXPool.MaxNoUtxoMB = 0.1
	common.CFG.TXPool.FeePerByte = 1.0
	common.CFG.TXPool.ExpireInDays = 1
	common.CFG.TXPool.SaveOnDisk = true
	common.CFG.Memory.GCPercTrshold = 100
	utxo.UTXO_WRITING_TIME_TARGET = 0
}

func cmdRun(args []string) {
	fs := flag.NewFlagSet("run", flag.ExitOnError)
	scen := fs.String("scenario", "", "")
	ops := fs.String("ops", "", "")
	outp := fs.String("out", "", "")
	model := fs.String("model", "", "")
	dir := fs.String("dir", os.TempDir(), "")
	bulk := fs.Int("bulk", 0, "bytes of padding of the bulky transactions (ids from 5001) - eviction tier")
	nsig := fs.Int("sigops", 0, "size of the sigop family (ids from 6000): transactions spending scripts that carry signature operations")
	skip := fs.Int("skip", 0, "operation sequences to skip (continuing after a panic of the pool)")
	appendOut := fs.Bool("append", false, "append to -out")
	hang := fs.Int("hang", 15, "seconds after which an operation that has not returned is examined by the watchdog")
	fs.Parse(args)
	var sc conc.Scenario
	b, err := os.ReadFile(*scen)
	if err == nil {
		err = json.Unmarshal(b, &sc)
	}
	if err != nil {
		fmt.Fprintln(os.Stderr, "scenario:", err)
		os.Exit(2)
	}
	if sc.Blk == nil {
		sc.Blk = conc.IntMap[conc.BlkDef]{}
	}
	setupCommon()
	real := os.Stdout
	devnull, _ := os.OpenFile(os.DevNull, os.O_WRONLY, 0)
	os.Stdout = devnull // the package reports its progress with fmt.Println
	w, err := conc.NewWorld(sc, *dir, false)
	if err != nil {
		fmt.Fprintln(os.Stderr, "world:", err)
		os.Exit(2)
	}
	if *bulk > 0 {
		addBulky(w, *bulk)
	}
	if *nsig > 0 {
		addSigops(w, *nsig)
	}
	if *model != "" {
		if err := writeModelScenario(w, *model); err != nil {
			fmt.Fprintln(os.Stderr, "model scenario:", err)
			os.Exit(2)
		}
	}
	flags := os.O_CREATE | os.O_WRONLY | os.O_TRUNC
	if *appendOut {
		flags = os.O_CREATE | os.O_WRONLY | os.O_APPEND
	}
	f, err := os.OpenFile(*outp, flags, 0660)
	if err != nil {
		fmt.Fprintln(os.Stderr, err)
		os.Exit(2)
	}
	r := &runner{w: w, dir: *dir, outf: f, out: bufio.NewWriterSize(f, 1<<16)}
	r.buildUidx()
	go r.watchdog(time.Duration(*hang) * time.Second)
	ntr, nops := 0, 0
	stopped := -1
	err = vio.ReadLines(*ops, func(n int, line []byte) error {
		if n < *skip || stopped >= 0 {
			return nil
		}
		var ln OpLine
		if e := json.Unmarshal(line, &ln); e != nil {
			return e
		}
		if e := r.reset(); e != nil {
			return e
		}
		r.opI = 0
		r.emit(&Event{Ev: "Reset"})
		if e := r.runTrace(&ln); e != nil {
			r.emit(&Event{Ev: "Fail", What: fmt.Sprint("panic: ", e)})
			r.fails++
			stopped = n // the pool's mutex may be left locked: the rest is run by a fresh process
		}
		ntr++
		nops += len(ln.Ops)
		return nil
	})
	if r.n != nil && stopped < 0 {
		r.n.Close()
	}
	r.out.Flush()
	f.Close()
	if err != nil {
		fmt.Fprintln(os.Stderr, "run:", err)
		os.Exit(2)
	}
	sum, _ := json.Marshal(map[string]interface{}{"summary": true, "traces": ntr, "ops": nops, "panics": r.fails, "stopped": stopped})
	fmt.Fprintln(real, string(sum))
}

func main() {
	if len(os.Args) < 2 {
		fmt.Fprintln(os.Stderr, "usage: mempool gen|run ...")
		os.Exit(2)
	}
	switch os.Args[1] {
	case "run":
		cmdRun(os.Args[2:])
	case "gen":
		cmdGen(os.Args[2:])
	default:
		fmt.Fprintln(os.Stderr, "usage: mempool gen|run ...")
		os.Exit(2)
	}
}
