// peersdb: conformance driver binding spec/PeersDB.tla to client/peersdb (the peers database kept in lib/others/qdb).
//
//	peersdb replay -in <lines> -opts <json> -workers N -dir <scratch> [-maxfail K]
//	    every line is a TLC-exported transition {"path":[..],"last":{..},"pred":{..}}: the path is replayed on the real
//	    package (peersdb.InitPeers on a fresh directory, PeerAddr methods, ExpirePeers, GetRecentPeers ...), every
//	    InitPeers happens in a FRESH PROCESS (ClosePeerDB / death of the process before it), and after the last call the
//	    whole database (Browse), the PeerAddr objects held and the answers of GetRecentPeers for the whole menu of
//	    (filter, limit, sorted) are compared with the model's prediction.
//	peersdb codec -seed S -n N
//	    encode/decode sweep: PeerAddr.Bytes() against a reference encoder written from the format comment of peerdb.go,
//	    NewPeer() against the reference decoder, NewPeer(Bytes()) = identity, UniqID = crc64(ip6|ip4|port), totality of
//	    NewPeer on every prefix and on mutated bytes.
//	peersdb phase   (internal) the calls of one line between two InitPeers, in a process of their own
//
// Time. The package reads time.Now(); nothing is hooked. A line is anchored at the wall-clock second r0 at which its
// replay starts: model minute m stands for r0 + 60*(m - now), where now is the model's clock. The code's own "now" is
// r0 + e with e the few seconds the line has been running; every comparison of the code is, in the model, at least one
// minute away from its boundary (invariant NoKnifeEdge of PeersDB.tla), so e < 30 s cannot change a verdict; a line that
// ran longer is replayed again. Tick(d) is realised by ageing: every stored record of a model peer and every PeerAddr
// held is moved d minutes into the past (Time, Banned, lastSaved) and synced.
//
// Size. MinPeersInDB / MaxPeersInDB are constants of the package (2500 / 70000). Bulk records (private addresses, never
// offered by GetRecentPeers) bring the database to those sizes: "new" (seen alive, Time in 2097), "keep" (seen alive,
// ancient, banned in 2097: never expirable), "dead" (never alive, ancient: expirable). A directory with them is built
// once per replay run through PeerAddr.Save()/ClosePeerDB() and copied for every line.
package main

import (
	"bytes"
	"encoding/binary"
	"encoding/json"
	"flag"
	"fmt"
	"hash/crc64"
	"io"
	"math/rand"
	"os"
	"os/exec"
	"path/filepath"
	"reflect"
	"regexp"
	"sort"
	"strconv"
	"strings"
	"sync"
	"sync/atomic"
	"time"
	"unsafe"

	"github.com/piotrnar/gocoin/client/common"
	"github.com/piotrnar/gocoin/client/peersdb"
	"github.com/piotrnar/gocoin/lib/btc"
	"github.com/piotrnar/gocoin/lib/others/qdb"

	"verifharness/vio"
)

const (
	tcpPort   = 18444 // common.DefaultTcpPort for the run: no DNS seeding, NewIncommingConnection maps to the same key
	farFuture = 0xF0000000
	maxLineS  = 25 // a line must be replayed within this many seconds of its anchor
)

type Opts struct {
	Salt     int64 `json:"salt"`
	FillNew  int   `json:"fillnew"`
	FillKeep int   `json:"fillkeep"`
	FillDead int   `json:"filldead"`
}

type Step struct {
	A string `json:"a"`
	P int    `json:"p"`
	X int    `json:"x"`
	F int    `json:"f"`
	B bool   `json:"b"`
}

type Rec struct {
	In  bool `json:"in"`
	T   int  `json:"t"`
	Al  bool `json:"al"`
	Ban int  `json:"ban"`
	Rs  int  `json:"rs"`
	Fr  int  `json:"fr"`
	Ag  int  `json:"ag"`
	Sv  int  `json:"sv"`
	Ls  int  `json:"ls"`
	Bh  bool `json:"bh"`
}

type Query struct {
	F    string `json:"f"`
	Lim  int    `json:"lim"`
	Srt  bool   `json:"srt"`
	N    int    `json:"n"`
	Must []int  `json:"must"`
	May  []int  `json:"may"`
}

type Fill struct {
	New  int `json:"new"`
	Keep int `json:"keep"`
	Dead int `json:"dead"`
}

type Pred struct {
	Now  int     `json:"now"`
	Open bool    `json:"open"`
	Ret  int     `json:"ret"`
	Db   []Rec   `json:"db"`
	Hnd  []Rec   `json:"hnd"`
	Fill Fill    `json:"fill"`
	Q    []Query `json:"q"`
}

type Line struct {
	Path  []Step `json:"path"`
	Last  Step   `json:"last"`
	Pred  Pred   `json:"pred"`
	Peers []int  `json:"peers"` // optional: sorted peer ids (default 1..len(pred.db))
}

// request / response of one phase process
type PhaseReq struct {
	Dir   string `json:"dir"`
	O     Opts   `json:"o"`
	R0    int64  `json:"r0"`
	Now   int    `json:"now"` // model clock when the phase starts
	Steps []Step `json:"steps"`
	First int    `json:"first"`
	Check int    `json:"check"` // index of the step whose prediction is compared (-1: none in this phase)
	Pred  *Pred  `json:"pred"`
	Peers []int  `json:"peers"`
}

type PhaseResp struct {
	Next   int      `json:"next"` // next step to run (len(steps) when done)
	Now    int      `json:"now"`
	Fails  []string `json:"fails"`
	Assume string   `json:"assume"` // an assumption of the model's durability abstraction did not hold (not a verdict)
	Quirks []string `json:"quirks"`
}

const baseNow = 30000 // PeersDB!Base

// ---------------------------------------------------------------- reference codec (from the format comment in peerdb.go)

type RefRec struct {
	Time     uint32
	Services uint64
	Ip6      [12]byte
	Ip4      [4]byte
	Port     uint16
	Alive    bool
	Banned   uint32
	Reason   []byte // nil: absent
	From     []byte
	Agent    []byte
	HasWord  bool
}

// refDecode: [0:4] time LE, [4:12] services LE, [12:24] ip6, [24:28] ip4, [28:30] port BE, [30:34] optional word
// (bit 31 seen alive, low 31 bits banned/2), [34] optional flags, then one length-prefixed field per set flag bit 0..2
func refDecode(v []byte) (r RefRec, ok bool) {
	if len(v) < 30 {
		return r, false
	}
	r.Time = binary.LittleEndian.Uint32(v[0:4])
	r.Services = binary.LittleEndian.Uint64(v[4:12])
	copy(r.Ip6[:], v[12:24])
	copy(r.Ip4[:], v[24:28])
	r.Port = binary.BigEndian.Uint16(v[28:30])
	if len(v) < 34 {
		return r, true
	}
	r.HasWord = true
	xd := binary.LittleEndian.Uint32(v[30:34])
	r.Alive = xd&0x80000000 != 0
	r.Banned = (xd & 0x7fffffff) << 1
	if len(v) < 35 {
		return r, true
	}
	fl := v[34]
	rest := v[35:]
	for bit := 0; bit < 8; bit++ {
		if fl&(1<<uint(bit)) == 0 {
			continue
		}
		if len(rest) < 1 || len(rest) < 1+int(rest[0]) {
			return r, true // truncated extra field: the fields read so far stand
		}
		d := append([]byte{}, rest[1:1+int(rest[0])]...)
		rest = rest[1+int(rest[0]):]
		switch bit {
		case 0:
			r.Reason = d
		case 1:
			r.From = d
		case 2:
			r.Agent = d
		}
	}
	return r, true
}

// refEncode: the optional word is present iff it carries something or a later part follows; the flags byte iff an extra field follows
func refEncode(r RefRec) []byte {
	b := new(bytes.Buffer)
	binary.Write(b, binary.LittleEndian, r.Time)
	binary.Write(b, binary.LittleEndian, r.Services)
	b.Write(r.Ip6[:])
	b.Write(r.Ip4[:])
	binary.Write(b, binary.BigEndian, r.Port)
	var fl byte
	if r.Reason != nil {
		fl |= 1
	}
	if r.From != nil {
		fl |= 2
	}
	if r.Agent != nil {
		fl |= 4
	}
	if r.Alive || fl != 0 || r.HasWord {
		xd := r.Banned >> 1
		if r.Alive {
			xd |= 0x80000000
		}
		binary.Write(b, binary.LittleEndian, xd)
	}
	if fl != 0 {
		b.WriteByte(fl)
		for _, d := range [][]byte{r.Reason, r.From, r.Agent} {
			if d != nil {
				n := len(d)
				if n > 255 {
					n = 255
				}
				b.WriteByte(byte(n))
				b.Write(d[:n])
			}
		}
	}
	return b.Bytes()
}

var crcTab = crc64.MakeTable(crc64.ISO)

func refKey(ip6 [12]byte, ip4 [4]byte, port uint16) uint64 {
	h := crc64.New(crcTab)
	h.Write(ip6[:])
	h.Write(ip4[:])
	h.Write([]byte{byte(port >> 8), byte(port)})
	return h.Sum64()
}

var v4prefix = [12]byte{0, 0, 0, 0, 0, 0, 0, 0, 0, 0, 0xff, 0xff}

// ---------------------------------------------------------------- concretisation

type world struct {
	o     Opts
	peers []int
	ip    map[int][4]byte
	key   map[int]uint64
	pid   map[uint64]int
}

func newWorld(o Opts, peers []int) *world {
	w := &world{o: o, peers: peers, ip: map[int][4]byte{}, key: map[int]uint64{}, pid: map[uint64]int{}}
	r := rand.New(rand.NewSource(o.Salt*7919 + 13))
	a, b := byte(1+r.Intn(200)), byte(r.Intn(256))
	for _, p := range peers {
		var ip [4]byte
		if p%4 == 0 {
			ip = [4]byte{192, 168, a, byte(p)} // RFC1918: sys.ValidIp4 is false
		} else {
			ip = [4]byte{45, a, b, byte(p)}
		}
		w.ip[p] = ip
		k := refKey(v4prefix, ip, tcpPort)
		w.key[p] = k
		w.pid[k] = p
	}
	return w
}

func (w *world) ipstr(p int) string {
	ip := w.ip[p]
	return fmt.Sprintf("%d.%d.%d.%d:%d", ip[0], ip[1], ip[2], ip[3], tcpPort)
}

func svcReal(c int) uint64 {
	switch c {
	case 1:
		return 0x1 // NODE_NETWORK only: lacks SEGWIT
	case 2:
		return 0x409 // NETWORK | SEGWIT | NETWORK_LIMITED
	}
	return 0
}

func svcClass(s uint64) int {
	switch s {
	case 0x1:
		return 1
	case 0x409:
		return 2
	}
	return -1
}

func svcOf(p int) int {
	if p%2 == 1 {
		return 2
	}
	return 1
}

func reasonStr(r int) string {
	if r == 0 {
		return ""
	}
	return "BadTx" + strconv.Itoa(r)
}

func reasonClass(s []byte) int {
	if len(s) == 0 {
		return 0
	}
	if strings.HasPrefix(string(s), "BadTx") {
		if n, e := strconv.Atoi(string(s[5:])); e == nil {
			return n
		}
	}
	return -1
}

func fromIP(f int) []byte {
	if f == 0 {
		return nil
	}
	return []byte{77, 88, 99, byte(f)}
}

func fromClass(b []byte) int {
	if b == nil {
		return 0
	}
	if len(b) == 4 && b[0] == 77 && b[1] == 88 && b[2] == 99 {
		return int(b[3])
	}
	return -1
}

const agentStr = "/Satoshi:27.0.0/"

func agentClass(b []byte) int {
	if len(b) == 0 {
		return 0
	}
	if string(b) == agentStr {
		return 1
	}
	return -1
}

// bulk records
func fillerRec(g, i int) RefRec {
	r := RefRec{Services: 0x409, Ip6: v4prefix, Ip4: [4]byte{10, byte(g), byte(i >> 8), byte(i)}, Port: uint16(20000 + (i >> 16))}
	switch g {
	case 1:
		r.Time, r.Alive = farFuture, true
	case 2:
		r.Time, r.Alive, r.Banned = 2000, true, farFuture
	case 3:
		r.Time = 1000
	}
	return r
}

func setFromRef(p *peersdb.PeerAddr, r RefRec) {
	p.Time, p.Services, p.Ip6, p.Ip4, p.Port = r.Time, r.Services, r.Ip6, r.Ip4, r.Port
	p.SeenAlive, p.Banned = r.Alive, r.Banned
	p.BanReason, p.NodeAgent = string(r.Reason), string(r.Agent)
	p.CameFromIP = r.From
}

func setup() {
	common.DefaultTcpPort = tcpPort
	peersdb.Services = 1
	peersdb.ConnectOnly = ""
}

func wait() { peersdb.PeerDB.Count() } // DB.Mutex is held by the goroutines of Sync / Defrag until they are done

// ---------------------------------------------------------------- phase

var reCnt = regexp.MustCompile(`(\w+)=(\d+)`)

func stats() map[string]int {
	m := map[string]int{}
	for _, x := range reCnt.FindAllStringSubmatch(peersdb.PeerDB.GetStats(), -1) {
		n, _ := strconv.Atoi(x[2])
		m[x[1]] = n
	}
	return m
}

func lastSavedPtr(p *peersdb.PeerAddr) *int64 {
	f := reflect.ValueOf(p).Elem().FieldByName("lastSaved")
	if !f.IsValid() || f.Kind() != reflect.Int64 {
		fmt.Fprintln(os.Stderr, "peersdb.PeerAddr has no int64 field lastSaved")
		os.Exit(2)
	}
	return (*int64)(unsafe.Pointer(f.UnsafeAddr()))
}

type phase struct {
	w     *world
	rq    *PhaseReq
	now   int
	hnd   map[int]*peersdb.PeerAddr
	ret   int
	fails []string
	quirk []string
}

func (ph *phase) failf(f string, a ...interface{}) { ph.fails = append(ph.fails, fmt.Sprintf(f, a...)) }

// model minute -> wall-clock second, and back (0 stays 0 for Banned / lastSaved)
func (ph *phase) real(m int) uint32 { return uint32(ph.rq.R0 + int64(m-ph.now)*60) }
func (ph *phase) minute(t int64) int {
	d := t - ph.rq.R0 + 30
	q := d / 60
	if d%60 < 0 {
		q--
	}
	return ph.now + int(q) // nearest minute
}

func filterFor(name string) func(*peersdb.PeerAddr) bool {
	mask := uint64(btc.SERVICE_SEGWIT | btc.SERVICE_NETWORK)
	switch name {
	case "getaddr": // client/network/addr.go HandleGetaddr
		return func(p *peersdb.PeerAddr) bool { return p.Banned != 0 || !p.SeenAlive }
	case "conn_alive": // client/network/tick.go NetworkTick, first call (no connection is open here)
		return func(ad *peersdb.PeerAddr) bool {
			return ad.Banned != 0 || !ad.SeenAlive || (ad.Services&mask) != mask
		}
	case "conn_new": // second call
		return func(ad *peersdb.PeerAddr) bool {
			return ad.Banned != 0 || ad.SeenAlive || (ad.Services&mask) != mask
		}
	}
	return nil
}

func (ph *phase) do(s Step) (ends bool) {
	w := ph.w
	ph.ret = 0
	h := ph.hnd[s.P]
	needH := func() bool {
		if h == nil {
			ph.failf("driver: %s(%d) without a handle", s.A, s.P)
			return false
		}
		return true
	}
	switch s.A {
	case "Connect":
		ad, e := peersdb.NewAddrFromString(w.ipstr(s.P), false)
		if e != nil || ad == nil {
			ph.failf("NewAddrFromString(%s) failed: %v", w.ipstr(s.P), e)
			return
		}
		ph.hnd[s.P] = ad
	case "Incoming":
		ad, e := peersdb.NewIncommingConnection(w.ipstr(s.P), true)
		if e == nil && ad != nil {
			ph.hnd[s.P] = ad
			ph.ret = 1
		} else if ad != nil {
			ph.failf("Incoming:both: NewIncommingConnection(peer %d) returned both a PeerAddr and the error %q", s.P, e.Error())
		}
	case "Alive":
		if needH() {
			if s.B {
				h.Services = svcReal(svcOf(s.P))
				h.NodeAgent = agentStr
			}
			h.Alive()
		}
	case "Dead":
		if needH() {
			h.Dead()
		}
	case "Ban":
		if needH() {
			h.Ban(reasonStr(s.X))
		}
	case "Save":
		if needH() {
			if s.B {
				h.Time = uint32(time.Now().Unix()) // textui add_peer
			}
			h.Save()
		}
	case "Drop":
		delete(ph.hnd, s.P)
	case "NewPeer":
		// one entry of an addr message, as client/network/addr.go ParseAddr stores it
		wire := refEncode(RefRec{Time: ph.real(ph.now - s.X), Services: svcReal(svcOf(s.P)), Ip6: v4prefix, Ip4: w.ip[s.P], Port: tcpPort})
		a := peersdb.NewPeer(wire[:30])
		k := qdb.KeyType(a.UniqID())
		peersdb.Lock()
		if v := peersdb.PeerDB.Get(k); v != nil {
			op := peersdb.NewPeer(v)
			if !op.SeenAlive && a.Time > op.Time {
				op.Time = a.Time
			}
			a = op
		} else {
			a.CameFromIP = fromIP(s.F)
		}
		peersdb.PeerDB.Put(k, a.Bytes())
		peersdb.Unlock()
	case "Seed":
		// a PeerAddr built field by field and saved (PeersDB!SeedRec: code 100*b + 10*a + g)
		ages := []int{0, 0, 2000, 5000, 11000}
		g, al, b := s.X%10, (s.X/10)%10, s.X/100
		ad := peersdb.NewPeer(nil)
		ad.Ip6, ad.Ip4, ad.Port = v4prefix, w.ip[s.P], tcpPort
		ad.Services = svcReal(svcOf(s.P))
		ad.Time = ph.real(ph.now - ages[g])
		ad.SeenAlive = al == 1
		if b != 0 {
			ad.Banned = ph.real(ph.now - ages[b])
			ad.BanReason = reasonStr(1)
		}
		ad.Save()
	case "Unban":
		// client/usif UnbanPeer
		var keys []qdb.KeyType
		var vals [][]byte
		want := w.ipstr(s.P)
		peersdb.PeerDB.Browse(func(k qdb.KeyType, v []byte) uint32 {
			peer := peersdb.NewPeer(v)
			if peer.Banned != 0 && peer.Ip() == want {
				peer.Banned = 0
				keys = append(keys, k)
				vals = append(vals, peer.Bytes())
			}
			return 0
		})
		for i := range keys {
			peersdb.PeerDB.Put(keys[i], vals[i])
		}
	case "DeleteFromIP":
		ph.ret = peersdb.DeleteFromIP(fromIP(s.F))
	case "Expire":
		peersdb.ExpirePeers()
		wait()
	case "Sync":
		peersdb.PeerDB.Sync()
		wait()
	case "Tick":
		ph.tick(s.X)
	case "Close":
		peersdb.ClosePeerDB()
		return true
	case "Crash":
		wait() // no file operation in flight: what is on disk is what the last Sync left
		return true
	default:
		ph.failf("driver: unknown action %q", s.A)
	}
	return false
}

// time passes: age what is stored and what is held, then make it durable
func (ph *phase) tick(d int) {
	sh := uint32(d * 60)
	type kv struct {
		k qdb.KeyType
		v []byte
	}
	var todo []kv
	peersdb.Lock()
	peersdb.PeerDB.Browse(func(k qdb.KeyType, v []byte) uint32 {
		if _, ok := ph.w.pid[uint64(k)]; !ok {
			return 0
		}
		n := append([]byte{}, v...)
		binary.LittleEndian.PutUint32(n[0:4], binary.LittleEndian.Uint32(n[0:4])-sh)
		if len(n) >= 34 {
			xd := binary.LittleEndian.Uint32(n[30:34])
			if b := (xd & 0x7fffffff) << 1; b != 0 {
				xd = xd&0x80000000 | (b-sh)>>1
				binary.LittleEndian.PutUint32(n[30:34], xd)
			}
		}
		todo = append(todo, kv{k, n})
		return 0
	})
	for _, x := range todo {
		peersdb.PeerDB.Put(x.k, x.v)
	}
	peersdb.Unlock()
	for _, h := range ph.hnd {
		h.Time -= sh
		if h.Banned != 0 {
			h.Banned -= sh
		}
		if ls := lastSavedPtr(h); *ls != 0 {
			*ls -= int64(sh)
		}
	}
	peersdb.PeerDB.Sync()
	wait()
	ph.now += d
}

func (ph *phase) recOf(r RefRec) Rec {
	x := Rec{In: true, T: ph.minute(int64(r.Time)), Al: r.Alive, Rs: reasonClass(r.Reason), Fr: fromClass(r.From), Ag: agentClass(r.Agent), Sv: svcClass(r.Services)}
	if r.Banned != 0 {
		x.Ban = ph.minute(int64(r.Banned))
	}
	return x
}

func refOfPeer(p *peersdb.PeerAddr) RefRec {
	r := RefRec{Time: p.Time, Services: p.Services, Ip6: p.Ip6, Ip4: p.Ip4, Port: p.Port, Alive: p.SeenAlive, Banned: p.Banned, From: p.CameFromIP}
	if p.BanReason != "" {
		r.Reason = []byte(p.BanReason)
	}
	if p.NodeAgent != "" {
		r.Agent = []byte(p.NodeAgent)
	}
	return r
}

func recEq(a, b Rec) bool {
	return a.In == b.In && (!a.In || a.T == b.T && a.Al == b.Al && a.Ban == b.Ban && a.Rs == b.Rs && a.Fr == b.Fr && a.Ag == b.Ag && a.Sv == b.Sv)
}

func recStr(r Rec) string {
	if !r.In {
		return "absent"
	}
	return fmt.Sprintf("{t=%s alive=%v ban=%s reason=%d from=%d agent=%d svc=%d}", banRel(r.T), r.Al, banRel(r.Ban), r.Rs, r.Fr, r.Ag, r.Sv)
}

// a model time, in minutes relative to the start of the line's clock; "never" for 0
func banRel(b int) string {
	if b == 0 {
		return "never"
	}
	return fmt.Sprintf("%+dmin", b-baseNow)
}

// compare the real package with the prediction of the checked step
func (ph *phase) check(last Step, pr *Pred) {
	w := ph.w
	if ph.now != pr.Now {
		ph.failf("driver: clock %d, model %d", ph.now, pr.Now)
	}
	if (last.A == "Incoming" || last.A == "DeleteFromIP") && ph.ret != pr.Ret {
		if last.A == "Incoming" {
			ph.failf("Incoming:ret: NewIncommingConnection(peer %d) %s, model says %s", last.P, map[int]string{0: "refused", 1: "accepted"}[ph.ret], map[int]string{0: "refused", 1: "accepted"}[pr.Ret])
		} else {
			ph.failf("DeleteFromIP:ret: returned %d, model says %d", ph.ret, pr.Ret)
		}
	}
	if !pr.Open {
		return // Close / Crash: the next InitPeers shows what is there
	}
	// ---- the whole database
	got := map[int]Rec{}
	raw := map[int][]byte{}
	var fill Fill
	n := 0
	peersdb.Lock()
	peersdb.PeerDB.Browse(func(k qdb.KeyType, v []byte) uint32 {
		n++
		r, ok := refDecode(v)
		if !ok {
			ph.failf("db:short: record of %d bytes under key %016x", len(v), uint64(k))
			return 0
		}
		if refKey(r.Ip6, r.Ip4, r.Port) != uint64(k) {
			ph.failf("db:key: record %d.%d.%d.%d:%d stored under key %016x", r.Ip4[0], r.Ip4[1], r.Ip4[2], r.Ip4[3], r.Port, uint64(k))
		}
		if p, ok := w.pid[uint64(k)]; ok {
			got[p] = ph.recOf(r)
			raw[p] = append([]byte{}, v...)
			// NewPeer decodes what the reference decoder decodes
			if d := ph.recOf(refOfPeer(peersdb.NewPeer(v))); !recEq(d, got[p]) {
				ph.failf("codec:NewPeer: peer %d: NewPeer(stored bytes) = %s, the format says %s", p, recStr(d), recStr(got[p]))
			}
			return 0
		}
		if r.Ip4[0] == 10 && r.Ip4[1] >= 1 && r.Ip4[1] <= 3 {
			g := int(r.Ip4[1])
			i := int(r.Ip4[2])<<8 | int(r.Ip4[3]) | int(r.Port-20000)<<16
			if !bytes.Equal(v, refEncode(fillerRec(g, i))) {
				ph.failf("db:bulk: bulk record %d/%d changed", g, i)
			}
			switch g {
			case 1:
				fill.New++
			case 2:
				fill.Keep++
			case 3:
				fill.Dead++
			}
			return 0
		}
		ph.failf("db:foreign: a record that was never written: key %016x", uint64(k))
		return 0
	})
	peersdb.Unlock()
	if c := peersdb.PeerDB.Count(); c != n {
		ph.failf("db:count: Count() = %d, Browse shows %d records", c, n)
	}
	for i, p := range w.peers {
		want := pr.Db[i]
		if g := got[p]; !recEq(g, want) {
			ph.failf("%s:db: peer %d after %s: stored record %s, model says %s", last.A, p, stepStr(last), recStr(g), recStr(want))
		}
	}
	if fill != pr.Fill {
		ph.failf("%s:bulk: bulk records left new/keep/dead = %d/%d/%d, model says %d/%d/%d", last.A, fill.New, fill.Keep, fill.Dead, pr.Fill.New, pr.Fill.Keep, pr.Fill.Dead)
	}
	// ---- the PeerAddr objects held
	for i, p := range w.peers {
		want := pr.Hnd[i]
		h := ph.hnd[p]
		if (h != nil) != want.In {
			ph.failf("%s:handle: peer %d: driver holds a PeerAddr: %v, model: %v", last.A, p, h != nil, want.In)
			continue
		}
		if h == nil {
			continue
		}
		g := ph.recOf(refOfPeer(h))
		if !recEq(g, want) {
			ph.failf("%s:handle: peer %d after %s: PeerAddr %s, model says %s", last.A, p, stepStr(last), recStr(g), recStr(want))
		}
		ls := 0
		if v := *lastSavedPtr(h); v != 0 {
			ls = ph.minute(v)
		}
		if ls != want.Ls {
			ph.failf("%s:handle: peer %d after %s: lastSaved %s, model says %s", last.A, p, stepStr(last), banRel(ls), banRel(want.Ls))
		}
		// Bytes() ; NewPeer() gives the same PeerAddr back (the model's own Enc says where it may not: Q1)
		if back := ph.recOf(refOfPeer(peersdb.NewPeer(h.Bytes()))); !recEq(back, g) {
			ph.quirk = append(ph.quirk, fmt.Sprintf("peer %d: NewPeer(Bytes()) = %s for PeerAddr %s", p, recStr(back), recStr(g)))
		}
	}
	// ---- GetRecentPeers, the whole menu
	for _, q := range pr.Q {
		res := peersdb.GetRecentPeers(uint(q.Lim), q.Srt, filterFor(q.F))
		name := fmt.Sprintf("GetRecentPeers(%d, %v, %s) after %s", q.Lim, q.Srt, q.F, stepStr(last))
		lo := q.N
		if q.Lim == 0 && !q.Srt {
			lo = 0 // Q4: the property does not say what limit 0 means for an unsorted query
			if len(res) > 0 {
				ph.quirk = append(ph.quirk, "GetRecentPeers(0, false) returned a record")
			}
		}
		if len(res) < lo || len(res) > q.N {
			ph.failf("GetRecent:len: %s returned %d records, model says %d", name, len(res), q.N)
			continue
		}
		seen := map[int]bool{}
		may := map[int]bool{}
		for _, p := range q.May {
			may[p] = true
		}
		var prev uint32
		for j, ad := range res {
			p, ok := w.pid[ad.UniqID()]
			if !ok {
				ph.failf("GetRecent:foreign: %s returned %s, not a record of a model peer", name, ad.Ip())
				continue
			}
			if seen[p] {
				ph.failf("GetRecent:dup: %s returned peer %d twice", name, p)
			}
			seen[p] = true
			if !may[p] {
				why := "is not eligible"
				if ix := indexOf(w.peers, p); ix >= 0 && pr.Db[ix].In && pr.Db[ix].Ban != 0 && q.F != "none" {
					why = "is banned"
				}
				ph.failf("GetRecent:%s: %s returned peer %d, which %s (allowed: %v)", q.F, name, p, why, q.May)
			}
			if g, ok := got[p]; ok && !recEq(ph.recOf(refOfPeer(ad)), g) {
				ph.failf("GetRecent:rec: %s returned %s for peer %d, stored is %s", name, recStr(ph.recOf(refOfPeer(ad))), p, recStr(g))
			}
			if q.Srt && j > 0 && ad.Time > prev {
				ph.failf("GetRecent:order: %s is not sorted newest first", name)
			}
			prev = ad.Time
		}
		if len(res) == q.N {
			for _, p := range q.Must {
				if !seen[p] {
					ph.failf("GetRecent:miss: %s does not contain peer %d (returned %v, must contain %v)", name, p, keysOf(seen), q.Must)
				}
			}
		}
	}
}

func indexOf(a []int, x int) int {
	for i, v := range a {
		if v == x {
			return i
		}
	}
	return -1
}

func keysOf(m map[int]bool) []int {
	var r []int
	for k := range m {
		r = append(r, k)
	}
	sort.Ints(r)
	return r
}

func stepStr(s Step) string {
	switch s.A {
	case "Alive", "Save":
		return fmt.Sprintf("%s(%d,%v)", s.A, s.P, s.B)
	case "Seed":
		return fmt.Sprintf("Seed(%d,class %d)", s.P, s.X)
	case "Ban":
		return fmt.Sprintf("Ban(%d,%q)", s.P, reasonStr(s.X))
	case "NewPeer":
		return fmt.Sprintf("NewPeer(%d,age %d min,from %d)", s.P, s.X, s.F)
	case "DeleteFromIP":
		return fmt.Sprintf("DeleteFromIP(%d)", s.F)
	case "Tick":
		return fmt.Sprintf("Tick(%d min)", s.X)
	case "Expire", "Sync", "Close", "Crash", "Reopen":
		return s.A
	}
	return fmt.Sprintf("%s(%d)", s.A, s.P)
}

func runPhase() {
	var rq PhaseReq
	in, _ := io.ReadAll(os.Stdin)
	if e := json.Unmarshal(in, &rq); e != nil {
		fmt.Fprintln(os.Stderr, "bad phase request:", e)
		os.Exit(2)
	}
	setup()
	ph := &phase{w: newWorld(rq.O, rq.Peers), rq: &rq, now: rq.Now, hnd: map[int]*peersdb.PeerAddr{}}
	peersdb.InitPeers(rq.Dir + string(os.PathSeparator))
	if peersdb.PeerDB == nil {
		fmt.Fprintln(os.Stderr, "InitPeers left no database")
		os.Exit(2)
	}
	resp := PhaseResp{}
	i := rq.First
	if i < len(rq.Steps) && rq.Steps[i].A == "Reopen" {
		if rq.Check == i {
			ph.check(rq.Steps[i], rq.Pred)
		}
		i++
	}
	for ; i < len(rq.Steps); i++ {
		s := rq.Steps[i]
		if s.A == "Reopen" {
			ph.failf("driver: Reopen while open")
			break
		}
		before := stats()
		ends := ph.do(s)
		if !ends {
			// the durability abstraction of the model: contents reach the disk at Sync / Close only
			after := stats()
			for _, c := range []string{"SyncNeedSmall", "SyncNeedBig"} {
				if after[c] != before[c] {
					resp.Assume = "the store synced by itself during " + stepStr(s) + " (" + c + ")"
				}
			}
			if s.A != "Sync" && s.A != "Tick" && (after["DefragYes"] != before["DefragYes"] || after["DefragNow"] != before["DefragNow"]) {
				resp.Assume = "the store defragmented during " + stepStr(s)
			}
		}
		if rq.Check == i {
			ph.check(s, rq.Pred)
		}
		if ends {
			i++
			break
		}
	}
	resp.Next, resp.Now, resp.Fails, resp.Quirks = i, ph.now, ph.fails, ph.quirk
	b, _ := json.Marshal(resp)
	os.Stdout.Write(b)
	os.Stdout.Write([]byte("\n"))
	// a phase that ends with Crash (or with the end of the line) ends here, without ClosePeerDB
	os.Exit(0)
}

// ---------------------------------------------------------------- replay

func copyDir(src, dst string) error {
	if e := os.MkdirAll(dst, 0770); e != nil {
		return e
	}
	ents, e := os.ReadDir(src)
	if e != nil {
		return e
	}
	for _, en := range ents {
		b, e := os.ReadFile(filepath.Join(src, en.Name()))
		if e != nil {
			return e
		}
		if e = os.WriteFile(filepath.Join(dst, en.Name()), b, 0660); e != nil {
			return e
		}
	}
	return nil
}

func mkbase(dir string, o Opts) {
	setup()
	peersdb.InitPeers(dir + string(os.PathSeparator))
	for g, n := range []int{o.FillNew, o.FillKeep, o.FillDead} {
		for i := 0; i < n; i++ {
			p := peersdb.NewPeer(nil)
			setFromRef(p, fillerRec(g+1, i))
			p.Save()
		}
	}
	peersdb.ClosePeerDB()
}

type result struct {
	Line   int      `json:"line"`
	Ok     bool     `json:"ok"`
	What   string   `json:"what,omitempty"`
	All    []string `json:"all,omitempty"`
	Infra  string   `json:"infra,omitempty"`
	Assume string   `json:"assume,omitempty"`
}

func phaseProc(self string, rq *PhaseReq) (*PhaseResp, string) {
	in, _ := json.Marshal(rq)
	cmd := exec.Command(self, "phase")
	cmd.Stdin = bytes.NewReader(in)
	var out, errb bytes.Buffer
	cmd.Stdout, cmd.Stderr = &out, &errb
	e := cmd.Run()
	var resp PhaseResp
	if e != nil || json.Unmarshal(bytes.TrimSpace(out.Bytes()), &resp) != nil {
		tail := errb.String()
		if len(tail) > 1500 {
			tail = tail[len(tail)-1500:]
		}
		return nil, fmt.Sprintf("the process died: %v | %s | %s", e, strings.TrimSpace(out.String()), tail)
	}
	return &resp, ""
}

func replayLine(self, base, dir string, o Opts, ln *Line) (fails []string, assume, infra string, quirks []string, slow bool) {
	os.RemoveAll(dir)
	defer os.RemoveAll(dir)
	if base != "" {
		if e := copyDir(filepath.Join(base, "peers3"), filepath.Join(dir, "peers3")); e != nil {
			return nil, "", "copy of the base directory: " + e.Error(), nil, false
		}
	} else {
		os.MkdirAll(dir, 0770)
	}
	steps := append(append([]Step{}, ln.Path...), ln.Last)
	peers := ln.Peers
	if peers == nil {
		for i := range ln.Pred.Db {
			peers = append(peers, i+1)
		}
	}
	r0 := time.Now().Unix()
	now := baseNow
	for i := 0; i < len(steps); {
		rq := &PhaseReq{Dir: dir, O: o, R0: r0, Now: now, Steps: steps, First: i, Check: -1, Peers: peers}
		rq.Check, rq.Pred = len(steps)-1, &ln.Pred
		resp, died := phaseProc(self, rq)
		if resp == nil {
			return []string{"died: " + died}, "", "", nil, false
		}
		quirks = append(quirks, resp.Quirks...)
		if resp.Assume != "" {
			assume = resp.Assume
		}
		if len(resp.Fails) > 0 {
			fails = append(fails, resp.Fails...)
			break
		}
		if resp.Next <= i {
			return nil, "", "phase made no progress", nil, false
		}
		i, now = resp.Next, resp.Now
		// a Close / Crash that ends the line: the property speaks about what a new process finds; nothing more to run
	}
	if time.Now().Unix()-r0 > maxLineS {
		slow = true
	}
	return
}

func runReplay(args []string) {
	fs := flag.NewFlagSet("replay", flag.ExitOnError)
	in := fs.String("in", "-", "exported lines")
	optsS := fs.String("opts", "{}", "options")
	workers := fs.Int("workers", 8, "parallel lines")
	dir := fs.String("dir", "", "scratch directory")
	maxfail := fs.Int("maxfail", 5, "stop reporting after this many failing lines")
	fs.Parse(args)
	var o Opts
	if e := json.Unmarshal([]byte(*optsS), &o); e != nil {
		fmt.Fprintln(os.Stderr, "bad -opts:", e)
		os.Exit(2)
	}
	self, _ := os.Executable()
	os.MkdirAll(*dir, 0770)
	base := ""
	if o.FillNew+o.FillKeep+o.FillDead > 0 {
		base = filepath.Join(*dir, "base")
		os.RemoveAll(base)
		cmd := exec.Command(self, "mkbase", "-dir", base, "-opts", *optsS)
		cmd.Stderr = os.Stderr
		if e := cmd.Run(); e != nil {
			fmt.Fprintln(os.Stderr, "mkbase failed:", e)
			os.Exit(2)
		}
	}
	out := vio.NewOut()
	jobs := make(chan []byte, 256)
	var nlines, nfail, nsteps, nslow, ninfra, nassume int64
	var mu sync.Mutex
	quirks := map[string]int{}
	var lineNo int64
	go func() {
		vio.ReadLines(*in, func(n int, line []byte) error {
			jobs <- append([]byte{}, line...)
			return nil
		})
		close(jobs)
	}()
	vio.Pool(*workers, jobs, func(wk int, job []byte) {
		n := int(atomic.AddInt64(&lineNo, 1)) - 1
		var ln Line
		if e := json.Unmarshal(job, &ln); e != nil {
			atomic.AddInt64(&ninfra, 1)
			out.Put(result{Line: n, Ok: true, Infra: "bad line: " + e.Error()})
			return
		}
		if atomic.LoadInt64(&nfail) >= int64(*maxfail) {
			return
		}
		d := filepath.Join(*dir, fmt.Sprintf("w%d", wk))
		var fails, qk []string
		var assume, infra string
		for try := 0; try < 3; try++ {
			var slow bool
			fails, assume, infra, qk, slow = replayLine(self, base, d, o, &ln)
			if !slow {
				break
			}
			atomic.AddInt64(&nslow, 1)
			if try == 2 {
				infra = "line not replayed within the time window three times"
			}
		}
		atomic.AddInt64(&nlines, 1)
		atomic.AddInt64(&nsteps, int64(len(ln.Path)+1))
		mu.Lock()
		for _, q := range qk {
			quirks[regexp.MustCompile(`\d+`).ReplaceAllString(q, "N")]++
		}
		mu.Unlock()
		if infra != "" {
			atomic.AddInt64(&ninfra, 1)
			out.Put(result{Line: n, Ok: true, Infra: infra})
			return
		}
		if assume != "" {
			atomic.AddInt64(&nassume, 1)
			out.Put(result{Line: n, Ok: true, Assume: assume})
			return
		}
		if len(fails) > 0 {
			atomic.AddInt64(&nfail, 1)
			out.Put(map[string]interface{}{"line": n, "ok": false, "what": fails[0], "all": fails, "src": json.RawMessage(job)})
		}
	})
	out.Put(map[string]interface{}{"summary": true, "lines": nlines, "steps": nsteps, "fail": nfail, "slow_retries": nslow,
		"infra": ninfra, "assume": nassume, "quirks": quirks})
	out.Flush()
}

// ---------------------------------------------------------------- codec sweep

func peerEq(p *peersdb.PeerAddr, r RefRec) string {
	switch {
	case p.Time != r.Time:
		return "Time"
	case p.Services != r.Services:
		return "Services"
	case p.Ip6 != r.Ip6 || p.Ip4 != r.Ip4 || p.Port != r.Port:
		return "address"
	case p.SeenAlive != r.Alive:
		return "SeenAlive"
	case p.Banned != r.Banned:
		return "Banned"
	case p.BanReason != string(r.Reason):
		return "BanReason"
	case p.NodeAgent != string(r.Agent):
		return "NodeAgent"
	case !bytes.Equal(p.CameFromIP, r.From) || (p.CameFromIP == nil) != (r.From == nil):
		return "CameFromIP"
	}
	return ""
}

func runCodec(args []string) {
	fs := flag.NewFlagSet("codec", flag.ExitOnError)
	seed := fs.Int64("seed", 1, "seed")
	num := fs.Int("n", 2000, "random records on top of the class product")
	fs.Parse(args)
	rng := rand.New(rand.NewSource(*seed*104729 + 7))
	out := vio.NewOut()
	str := func(n int) []byte {
		b := make([]byte, n)
		for i := range b {
			b[i] = byte(32 + rng.Intn(90))
		}
		return b
	}
	times := []uint32{0, 1, 0x7fffffff, 0x80000000, 0xffffffff, uint32(time.Now().Unix())}
	bans := []uint32{0, 2, 1700000000, 1700000001, 0xfffffffe, 0xffffffff}
	svcs := []uint64{0, 1, 0x409, 0xffffffffffffffff}
	lens := []int{-1, 1, 7, 254, 255, 256, 300}
	froms := [][]byte{nil, {1, 2, 3, 4}, {}, bytes.Repeat([]byte{9}, 16)}
	var evals, ident, failsN, lossNoWord, lossBit, lossTrunc int
	classes := map[string]bool{}
	fail := func(sig, what string) {
		failsN++
		if failsN <= 10 {
			out.Put(map[string]interface{}{"ok": false, "sig": sig, "what": what})
		}
	}
	one := func(r RefRec) {
		evals++
		p := peersdb.NewPeer(nil)
		setFromRef(p, r)
		b := p.Bytes()
		// 1. the bytes are the documented layout of this PeerAddr
		want := refEncode(RefRec{Time: r.Time, Services: r.Services, Ip6: r.Ip6, Ip4: r.Ip4, Port: r.Port, Alive: r.Alive,
			Banned: r.Banned, Reason: condBytes(r.Banned != 0 && len(r.Reason) > 0, r.Reason), From: r.From, Agent: condBytes(len(r.Agent) > 0, r.Agent)})
		if !bytes.Equal(b, want) {
			fail("codec:bytes", fmt.Sprintf("Bytes() = %x, the documented layout of the same fields is %x", b, want))
		}
		// 2. NewPeer reads what the format says
		d, ok := refDecode(b)
		back := peersdb.NewPeer(b)
		if !ok {
			fail("codec:short", fmt.Sprintf("Bytes() gave %d bytes", len(b)))
			return
		}
		if f := peerEq(back, d); f != "" {
			fail("codec:NewPeer:"+f, fmt.Sprintf("NewPeer(%x) reads %s differently from the format", b, f))
		}
		// 3. identity, where the format can hold the record
		exp := r
		cls := ""
		if r.Banned&1 != 0 {
			exp.Banned &^= 1
			lossBit++
			cls += "b"
		}
		for _, f := range []*[]byte{&exp.Reason, &exp.Agent, &exp.From} {
			if len(*f) > 255 {
				*f = (*f)[:255]
				lossTrunc++
				cls += "t"
			}
		}
		if r.Banned == 0 || len(exp.Reason) == 0 {
			exp.Reason = nil // a reason without a ban is not kept
		}
		if len(exp.Agent) == 0 {
			exp.Agent = nil
		}
		noWord := !r.Alive && exp.Reason == nil && r.From == nil && exp.Agent == nil && r.Banned != 0
		if noWord {
			// Q1: Banned without SeenAlive / extra fields: whatever the code does is recorded, not judged here
			if back.Banned == 0 {
				lossNoWord++
			}
			exp.Banned = back.Banned
			cls += "w"
		}
		if f := peerEq(back, exp); f != "" {
			fail("codec:identity:"+f, fmt.Sprintf("NewPeer(Bytes()) changed %s: record %+v came back as %+v", f, r, refOfPeer(back)))
		} else if cls == "" {
			ident++
		}
		classes[fmt.Sprintf("%v/%v/%v/%v/%v/%s", r.Alive, r.Banned != 0, r.Reason != nil, r.From != nil, r.Agent != nil, cls)] = true
		// 4. the key depends on the address only
		if back.UniqID() != refKey(r.Ip6, r.Ip4, r.Port) {
			fail("codec:key", "UniqID is not crc64(ip6|ip4|port)")
		}
		// 5. totality: every prefix, and a few corrupted copies, decode without panic and agree with the format on the fixed part
		for n := 0; n <= len(b); n++ {
			if n > 40 && n < len(b)-3 && n%17 != 0 {
				continue
			}
			x := peersdb.NewPeer(b[:n])
			evals++
			if n >= 30 {
				dd, _ := refDecode(b[:n])
				if f := peerEq(x, dd); f != "" {
					fail("codec:prefix:"+f, fmt.Sprintf("NewPeer(%x) (prefix of %d bytes) reads %s differently from the format", b[:n], n, f))
				}
			}
		}
		for k := 0; k < 3 && len(b) > 34; k++ {
			m := append([]byte{}, b...)
			m[30+rng.Intn(len(m)-30)] ^= byte(1 << uint(rng.Intn(8)))
			x := peersdb.NewPeer(m)
			dd, _ := refDecode(m)
			evals++
			if f := peerEq(x, dd); f != "" {
				fail("codec:mutated:"+f, fmt.Sprintf("NewPeer(%x) reads %s differently from the format", m, f))
			}
		}
	}
	mk := func(t uint32, sv uint64, al bool, bn uint32, rl, al2 int, fr []byte) RefRec {
		r := RefRec{Time: t, Services: sv, Ip6: v4prefix, Ip4: [4]byte{byte(1 + rng.Intn(223)), byte(rng.Intn(256)), byte(rng.Intn(256)), byte(rng.Intn(256))},
			Port: uint16(rng.Intn(65536)), Alive: al, Banned: bn, From: fr}
		if rl >= 0 {
			r.Reason = str(rl)
		}
		if al2 >= 0 {
			r.Agent = str(al2)
		}
		if rng.Intn(4) == 0 {
			rng.Read(r.Ip6[:])
		}
		return r
	}
	defer func() {
		if x := recover(); x != nil {
			out.Put(map[string]interface{}{"ok": false, "sig": "codec:panic", "what": fmt.Sprint("panic in the codec: ", x)})
			out.Put(map[string]interface{}{"summary": true, "evaluations": evals, "fail": failsN + 1})
			out.Flush()
			os.Exit(0)
		}
	}()
	for _, al := range []bool{false, true} {
		for _, bn := range bans {
			for _, rl := range lens {
				for _, al2 := range []int{-1, 16, 255, 256} {
					for _, fr := range froms {
						one(mk(times[rng.Intn(len(times))], svcs[rng.Intn(len(svcs))], al, bn, rl, al2, fr))
					}
				}
			}
		}
	}
	for i := 0; i < *num; i++ {
		one(mk(rng.Uint32(), rng.Uint64(), rng.Intn(2) == 0, []uint32{0, rng.Uint32()}[rng.Intn(2)], lens[rng.Intn(len(lens))]+rng.Intn(1)*0,
			[]int{-1, rng.Intn(256)}[rng.Intn(2)], froms[rng.Intn(len(froms))]))
	}
	out.Put(map[string]interface{}{"summary": true, "evaluations": evals, "identity_exact": ident, "distinct_classes": len(classes), "fail": failsN,
		"banned_lsb_dropped": lossBit, "truncated_to_255": lossTrunc, "ban_without_word_lost": lossNoWord})
	out.Flush()
}

func condBytes(c bool, b []byte) []byte {
	if c {
		return b
	}
	return nil
}

func main() {
	if len(os.Args) < 2 {
		fmt.Fprintln(os.Stderr, "usage: peersdb replay|codec|phase|mkbase ...")
		os.Exit(2)
	}
	switch os.Args[1] {
	case "replay":
		runReplay(os.Args[2:])
	case "phase":
		runPhase()
	case "codec":
		runCodec(os.Args[2:])
	case "mkbase":
		fs := flag.NewFlagSet("mkbase", flag.ExitOnError)
		dir := fs.String("dir", "", "directory")
		optsS := fs.String("opts", "{}", "options")
		fs.Parse(os.Args[2:])
		var o Opts
		json.Unmarshal([]byte(*optsS), &o)
		mkbase(*dir, o)
	default:
		fmt.Fprintln(os.Stderr, "unknown command", os.Args[1])
		os.Exit(2)
	}
}
