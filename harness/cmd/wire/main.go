// Command wire: conformance driver for spec/Wire.tla (property C09) against lib/btc's decoders.
//
//	wire replay -in cases.ndjson -seed N [-workers W] [-mut N] [-rlimit MB]
//	    coordinator: every case exported by WireGen (layout + predicted verdict) is concretised to bytes
//	    (random content for the opaque parts, per seed) and run on btc.NewTx / Tx.SetHash / Serialize /
//	    SerializeNew / Weight / VSize / TxSize, btc.NewBlock + BuildTxList(Ext), VLen & co; then seeded
//	    byte-level mutations (truncations, single-byte changes, both) of valid encodings are judged by
//	    the reference decoder below.  The cases run in child processes (wire worker) under an address
//	    space limit, so that a decoder that allocates by a claimed count, or dies, is observed instead of
//	    taking the driver down.
//	wire worker ...   child: units on stdin, results on stdout
//	wire one -kind tx|block -hex H   judge one byte string with the reference decoder (replay of a finding)
//
// The reference decoder / serialiser in this file is written from BIP141/BIP144 and Bitcoin Core's
// serialize.h rules as stated in spec/Wire.tla (RdCS, RdTx, DecodeBlock); it uses nothing of gocoin.
// Every definite verdict of the specification is compared with it (a disagreement is reported as
// "infra", never as a finding) and it is the judge where the specification says "dep".
package main

import (
	"bufio"
	"bytes"
	"crypto/sha256"
	"encoding/binary"
	"encoding/hex"
	"encoding/json"
	"flag"
	"fmt"
	"io"
	"math/rand"
	"os"
	"os/exec"
	"runtime"
	"runtime/debug"
	"sort"
	"strings"
	"sync"
	"sync/atomic"
	"syscall"
	"time"

	"github.com/piotrnar/gocoin/lib/btc"
)

// ---------------------------------------------------------------------------------------------
// reference decoder / serialiser (BIP144, serialize.h)
// ---------------------------------------------------------------------------------------------

const maxSize = 0x02000000 // serialize.h MAX_SIZE

type rIn struct {
	prev   []byte // 36
	script []byte
	seq    []byte // 4
}
type rOut struct {
	value []byte // 8
	pk    []byte
}
type rTx struct {
	ver    []byte
	ins    []rIn
	outs   []rOut
	wit    [][][]byte // one stack per input when hasWit
	hasWit bool
	lock   []byte
	csPos  []int // offsets (relative to the start of the tx) of the length prefixes / marker / flag that were read
}

type reader struct {
	b   []byte
	p   int
	why string
	cs  []int
}

func (r *reader) fixed(n uint64) []byte {
	if r.why != "" {
		return nil
	}
	if uint64(len(r.b)-r.p) < n {
		r.why = "truncated"
		return nil
	}
	x := r.b[r.p : r.p+int(n)]
	r.p += int(n)
	return x
}

// ReadCompactSize with range check: end of data, then canonicity, then range
func (r *reader) csize() uint64 {
	if r.why != "" {
		return 0
	}
	r.cs = append(r.cs, r.p)
	f := r.fixed(1)
	if f == nil {
		return 0
	}
	var v uint64
	switch f[0] {
	case 0xfd:
		x := r.fixed(2)
		if x == nil {
			return 0
		}
		v = uint64(binary.LittleEndian.Uint16(x))
		if v < 253 {
			r.why = "nonminimal"
			return 0
		}
	case 0xfe:
		x := r.fixed(4)
		if x == nil {
			return 0
		}
		v = uint64(binary.LittleEndian.Uint32(x))
		if v < 0x10000 {
			r.why = "nonminimal"
			return 0
		}
	case 0xff:
		x := r.fixed(8)
		if x == nil {
			return 0
		}
		v = binary.LittleEndian.Uint64(x)
		if v < 0x100000000 {
			r.why = "nonminimal"
			return 0
		}
	default:
		v = uint64(f[0])
	}
	if v > maxSize {
		r.why = "oversize"
		return 0
	}
	return v
}

func (r *reader) vecIns() (ins []rIn) {
	n := r.csize()
	for i := uint64(0); i < n && r.why == ""; i++ {
		var in rIn
		in.prev = r.fixed(36)
		in.script = r.fixed(r.csize())
		in.seq = r.fixed(4)
		if r.why == "" {
			ins = append(ins, in)
		}
	}
	return
}

func (r *reader) vecOuts() (outs []rOut) {
	n := r.csize()
	for i := uint64(0); i < n && r.why == ""; i++ {
		var o rOut
		o.value = r.fixed(8)
		o.pk = r.fixed(r.csize())
		if r.why == "" {
			outs = append(outs, o)
		}
	}
	return
}

// UnserializeTransaction with witness allowed
func (r *reader) tx() *rTx {
	t := new(rTx)
	start := r.p
	cs0 := len(r.cs)
	t.ver = r.fixed(4)
	t.ins = r.vecIns()
	flags := byte(0)
	if r.why == "" && len(t.ins) == 0 {
		r.cs = append(r.cs, r.p)
		f := r.fixed(1)
		if f != nil {
			flags = f[0]
			if flags&^1 != 0 {
				// whatever follows, a flag byte with unknown bits ends in a refusal (Wire.tla: "badflag")
				r.why = "badflag"
			} else if flags != 0 {
				t.ins = r.vecIns()
				t.outs = r.vecOuts()
			}
		}
	} else {
		t.outs = r.vecOuts()
	}
	if r.why == "" && flags&1 != 0 {
		flags ^= 1
		t.hasWit = true
		any := false
		for range t.ins {
			n := r.csize()
			var st [][]byte
			for i := uint64(0); i < n && r.why == ""; i++ {
				it := r.fixed(r.csize())
				if r.why == "" {
					st = append(st, it)
				}
			}
			if len(st) > 0 {
				any = true
			}
			t.wit = append(t.wit, st)
		}
		if r.why == "" && !any {
			r.why = "superfluous"
		}
	}
	t.lock = r.fixed(4)
	if r.why != "" {
		return nil
	}
	for _, p := range r.cs[cs0:] {
		t.csPos = append(t.csPos, p-start)
	}
	return t
}

func refDecodeTx(b []byte) (*rTx, int, string) {
	r := &reader{b: b}
	t := r.tx()
	if t == nil {
		return nil, 0, r.why
	}
	return t, r.p, ""
}

type rBlock struct {
	txs  []*rTx
	offs []int // start offset of each tx, plus the end offset
	cs   []int
}

func refDecodeBlock(b []byte) (*rBlock, int, string) {
	r := &reader{b: b}
	r.fixed(80)
	n := r.csize()
	bl := new(rBlock)
	for i := uint64(0); i < n && r.why == ""; i++ {
		st := r.p
		t := r.tx()
		if t != nil {
			bl.txs = append(bl.txs, t)
			bl.offs = append(bl.offs, st)
		}
	}
	if r.why != "" {
		lastFail = len(bl.txs) // index of the transaction the reader gave up in
		return nil, 0, r.why
	}
	bl.offs = append(bl.offs, r.p)
	bl.cs = r.cs
	return bl, r.p, ""
}

// index of the transaction in which the last refDecodeBlock that refused gave up (single-threaded workers)
var lastFail int

func putCS(w *bytes.Buffer, v uint64) {
	switch {
	case v < 253:
		w.WriteByte(byte(v))
	case v < 0x10000:
		w.WriteByte(0xfd)
		w.Write([]byte{byte(v), byte(v >> 8)})
	case v < 0x100000000:
		w.WriteByte(0xfe)
		w.Write([]byte{byte(v), byte(v >> 8), byte(v >> 16), byte(v >> 24)})
	default:
		w.WriteByte(0xff)
		var x [8]byte
		binary.LittleEndian.PutUint64(x[:], v)
		w.Write(x[:])
	}
}

// ser: BIP144 serialisation; withWit = false gives the original format (the txid preimage)
func (t *rTx) ser(withWit bool) []byte {
	w := new(bytes.Buffer)
	w.Write(t.ver)
	if withWit && t.hasWit {
		w.Write([]byte{0, 1})
	}
	putCS(w, uint64(len(t.ins)))
	for _, in := range t.ins {
		w.Write(in.prev)
		putCS(w, uint64(len(in.script)))
		w.Write(in.script)
		w.Write(in.seq)
	}
	putCS(w, uint64(len(t.outs)))
	for _, o := range t.outs {
		w.Write(o.value)
		putCS(w, uint64(len(o.pk)))
		w.Write(o.pk)
	}
	if withWit && t.hasWit {
		for _, st := range t.wit {
			putCS(w, uint64(len(st)))
			for _, it := range st {
				putCS(w, uint64(len(it)))
				w.Write(it)
			}
		}
	}
	w.Write(t.lock)
	return w.Bytes()
}

func sha256d(b []byte) (h [32]byte) {
	a := sha256.Sum256(b)
	return sha256.Sum256(a[:])
}

// ---------------------------------------------------------------------------------------------
// cases exported by WireGen
// ---------------------------------------------------------------------------------------------

type Pert struct {
	K    string `json:"k"`
	I    int    `json:"i"`
	A    int64  `json:"a"`
	Role string `json:"role"`
}
type TxJ struct {
	Wit bool `json:"wit"`
	Ins []struct {
		S int   `json:"s"`
		W []int `json:"w"`
	} `json:"ins"`
	Outs []int `json:"outs"`
}
type TxSz struct {
	Size  int `json:"size"`
	Nowit int `json:"nowit"`
	Dec   TxJ `json:"dec"`
}
type Expect struct {
	V      string `json:"v"`
	Why    string `json:"why"`
	Strict bool   `json:"strict"`
	N      int    `json:"n"`
	Dec    *TxJ   `json:"dec"`
	Size   int    `json:"size"`
	Nowit  int    `json:"nowit"`
	Weight int    `json:"weight"`
	Vsize  int    `json:"vsize"`
	Txs    []TxSz `json:"txs"`
	Bw     int    `json:"bw"`
}
type Case struct {
	T  string            `json:"t"`
	Sh json.RawMessage   `json:"sh"`
	P  Pert              `json:"p"`
	S  []json.RawMessage `json:"s"`
	E  Expect            `json:"e"`
}

// values >= 2^31 are named by negative codes in the specification
func value(v int64) uint64 {
	switch v {
	case -1:
		return 0xffffffff
	case -2:
		return 1 << 32
	case -3:
		return 1<<63 - 1
	case -4:
		return 1 << 63
	case -5:
		return ^uint64(0)
	}
	return uint64(v)
}

func encForm(f int, v uint64) []byte {
	switch f {
	case 1:
		return []byte{byte(v)}
	case 3:
		return []byte{0xfd, byte(v), byte(v >> 8)}
	case 5:
		return []byte{0xfe, byte(v), byte(v >> 8), byte(v >> 16), byte(v >> 24)}
	}
	x := make([]byte, 9)
	x[0] = 0xff
	binary.LittleEndian.PutUint64(x[1:], v)
	return x
}

// concretise a layout: O(n) -> n random bytes, C(f, v, have) -> the first `have` bytes of v in form f
func concretise(c *Case, rng *rand.Rand) ([]byte, error) {
	w := new(bytes.Buffer)
	for _, raw := range c.S {
		if len(raw) > 0 && raw[0] == '[' {
			var t []int64
			if err := json.Unmarshal(raw, &t); err != nil || len(t) != 3 {
				return nil, fmt.Errorf("bad token %s", raw)
			}
			e := encForm(int(t[0]), value(t[1]))
			w.Write(e[:t[2]])
		} else {
			var n int
			if err := json.Unmarshal(raw, &n); err != nil {
				return nil, fmt.Errorf("bad token %s", raw)
			}
			x := make([]byte, n)
			rng.Read(x)
			w.Write(x)
		}
	}
	return exact(w.Bytes()), nil
}

func exact(b []byte) []byte { // capacity == length: reads past the end must fault, not see stale bytes
	x := make([]byte, len(b))
	copy(x, b)
	return x
}

// ---------------------------------------------------------------------------------------------
// guarded calls into gocoin
// ---------------------------------------------------------------------------------------------

type guard struct {
	Panic string
	Alloc uint64
	Dur   time.Duration
}

var crumb []byte // shared page: [unit id, sub index], survives a crash of this process

var curFn atomic.Value // name of the gocoin call in progress

func guarded(name string, fn func()) (g guard) {
	curFn.Store(name)
	if crumb != nil {
		copy(crumb[16:48], make([]byte, 32))
		copy(crumb[16:48], name)
	}
	var m1, m2 runtime.MemStats
	runtime.ReadMemStats(&m1)
	t0 := time.Now()
	func() {
		defer func() {
			if r := recover(); r != nil {
				g.Panic = fmt.Sprint(r)
			}
		}()
		fn()
	}()
	g.Dur = time.Since(t0)
	runtime.ReadMemStats(&m2)
	g.Alloc = m2.TotalAlloc - m1.TotalAlloc
	return
}

func allocBound(n int) uint64 { return 4<<20 + 128*uint64(n) }

const timeBound = 10 * time.Second

type Fail struct {
	Sig  string `json:"sig"`
	What string `json:"what"`
	Kind string `json:"kind"`
	Hex  string `json:"hex"`
	Li   int    `json:"li"`
	Sub  int    `json:"sub"`
	P    *Pert  `json:"p,omitempty"`
}

type judge struct {
	kind  string
	b     []byte
	fails []Fail
	infra []string
	li    int
	sub   int
	p     *Pert
}

func (j *judge) fail(sig, what string) {
	j.fails = append(j.fails, Fail{Sig: j.kind + ":" + sig, What: what, Kind: j.kind, Hex: hex.EncodeToString(j.b), Li: j.li, Sub: j.sub, P: j.p})
}

func (j *judge) totality(fn string, g guard) bool {
	ok := true
	if g.Panic != "" {
		j.fail("panic:"+fn, fmt.Sprintf("%s panicked on a %d-byte input: %s", fn, len(j.b), g.Panic))
		ok = false
	}
	if g.Alloc > allocBound(len(j.b)) {
		j.fail("alloc", fmt.Sprintf("%s allocated %d bytes for a %d-byte input (bound %d)", fn, g.Alloc, len(j.b), allocBound(len(j.b))))
		debug.FreeOSMemory()
	}
	if g.Dur > timeBound {
		j.fail("time:"+fn, fmt.Sprintf("%s took %v on a %d-byte input", fn, g.Dur, len(j.b)))
	}
	return ok
}

type txWant struct {
	accept bool
	strict bool
	why    string
	n      int
	rt     *rTx
	size   int
	nowit  int
	weight int
	vsize  int
}

func wantFromRef(b []byte) (w txWant) {
	rt, n, why := refDecodeTx(b)
	w.strict = true
	if rt == nil {
		w.why = why
		return
	}
	w.accept, w.n, w.rt = true, n, rt
	w.nowit = len(rt.ser(false))
	w.size = n
	w.weight = 3*w.nowit + w.size
	w.vsize = (w.weight + 3) / 4
	return
}

func eqTx(tx *btc.Tx, rt *rTx) string {
	if tx.Version != binary.LittleEndian.Uint32(rt.ver) {
		return "version"
	}
	if tx.Lock_time != binary.LittleEndian.Uint32(rt.lock) {
		return "lock_time"
	}
	if len(tx.TxIn) != len(rt.ins) {
		return fmt.Sprintf("input count %d, expected %d", len(tx.TxIn), len(rt.ins))
	}
	if len(tx.TxOut) != len(rt.outs) {
		return fmt.Sprintf("output count %d, expected %d", len(tx.TxOut), len(rt.outs))
	}
	for i, in := range tx.TxIn {
		if in == nil {
			return fmt.Sprintf("input %d is nil", i)
		}
		r := rt.ins[i]
		if !bytes.Equal(in.Input.Hash[:], r.prev[:32]) || in.Input.Vout != binary.LittleEndian.Uint32(r.prev[32:]) {
			return fmt.Sprintf("input %d prevout", i)
		}
		if !bytes.Equal(in.ScriptSig, r.script) {
			return fmt.Sprintf("input %d scriptSig (%d bytes, expected %d)", i, len(in.ScriptSig), len(r.script))
		}
		if in.Sequence != binary.LittleEndian.Uint32(r.seq) {
			return fmt.Sprintf("input %d sequence", i)
		}
	}
	for i, o := range tx.TxOut {
		if o == nil {
			return fmt.Sprintf("output %d is nil", i)
		}
		r := rt.outs[i]
		if o.Value != binary.LittleEndian.Uint64(r.value) {
			return fmt.Sprintf("output %d value", i)
		}
		if !bytes.Equal(o.Pk_script, r.pk) {
			return fmt.Sprintf("output %d pk_script (%d bytes, expected %d)", i, len(o.Pk_script), len(r.pk))
		}
	}
	if rt.hasWit != (tx.SegWit != nil) {
		return fmt.Sprintf("witness presence %v, expected %v", tx.SegWit != nil, rt.hasWit)
	}
	if rt.hasWit {
		if len(tx.SegWit) != len(rt.wit) {
			return "witness stack count"
		}
		for i := range rt.wit {
			if len(tx.SegWit[i]) != len(rt.wit[i]) {
				return fmt.Sprintf("witness stack %d has %d items, expected %d", i, len(tx.SegWit[i]), len(rt.wit[i]))
			}
			for k := range rt.wit[i] {
				if !bytes.Equal(tx.SegWit[i][k], rt.wit[i][k]) {
					return fmt.Sprintf("witness item %d/%d", i, k)
				}
			}
		}
	}
	return ""
}

// howDecoded names, from the decoded structure, as what the decoder took an encoding it should have refused
func howDecoded(tx *btc.Tx) string {
	switch {
	case tx == nil:
		return "nothing"
	case tx.SegWit != nil:
		return "as-witness"
	case len(tx.TxIn) == 0:
		return "legacy-noinputs"
	}
	return "legacy"
}

// fromDecoded turns what gocoin decoded into the harness' own transaction type (for its own serialiser)
func fromDecoded(tx *btc.Tx) (*rTx, string) {
	le32 := func(v uint32) []byte { x := make([]byte, 4); binary.LittleEndian.PutUint32(x, v); return x }
	rt := &rTx{ver: le32(tx.Version), lock: le32(tx.Lock_time), hasWit: tx.SegWit != nil}
	for i, in := range tx.TxIn {
		if in == nil {
			return nil, fmt.Sprintf("input %d is nil", i)
		}
		rt.ins = append(rt.ins, rIn{prev: append(append([]byte{}, in.Input.Hash[:]...), le32(in.Input.Vout)...), script: in.ScriptSig, seq: le32(in.Sequence)})
	}
	for i, o := range tx.TxOut {
		if o == nil {
			return nil, fmt.Sprintf("output %d is nil", i)
		}
		v := make([]byte, 8)
		binary.LittleEndian.PutUint64(v, o.Value)
		rt.outs = append(rt.outs, rOut{value: v, pk: o.Pk_script})
	}
	if rt.hasWit {
		if len(tx.SegWit) != len(tx.TxIn) {
			return nil, fmt.Sprintf("%d witness stacks for %d inputs", len(tx.SegWit), len(tx.TxIn))
		}
		rt.wit = tx.SegWit
	}
	return rt, ""
}

// sameModuloForms: raw is the BIP144 serialisation `ser` of the decoded transaction except that some CompactSize
// is written in a longer form (ok, nonmin = true, true) - or it is something else (ok = false)
func sameModuloForms(raw []byte, rt *rTx) (ok, nonmin bool) {
	p := 0
	fixed := func(x []byte) bool {
		if p+len(x) > len(raw) || !bytes.Equal(raw[p:p+len(x)], x) {
			return false
		}
		p += len(x)
		return true
	}
	cs := func(v int) bool {
		if p >= len(raw) {
			return false
		}
		var got uint64
		sz := 1
		switch raw[p] {
		case 0xfd:
			sz = 3
		case 0xfe:
			sz = 5
		case 0xff:
			sz = 9
		}
		if p+sz > len(raw) {
			return false
		}
		switch sz {
		case 1:
			got = uint64(raw[p])
		case 3:
			got = uint64(binary.LittleEndian.Uint16(raw[p+1:]))
		case 5:
			got = uint64(binary.LittleEndian.Uint32(raw[p+1:]))
		default:
			got = binary.LittleEndian.Uint64(raw[p+1:])
		}
		if got != uint64(v) {
			return false
		}
		var m bytes.Buffer
		putCS(&m, got)
		if m.Len() != sz {
			nonmin = true
		}
		p += sz
		return true
	}
	if !fixed(rt.ver) || (rt.hasWit && !fixed([]byte{0, 1})) || !cs(len(rt.ins)) {
		return false, false
	}
	for _, in := range rt.ins {
		if !fixed(in.prev) || !cs(len(in.script)) || !fixed(in.script) || !fixed(in.seq) {
			return false, false
		}
	}
	if !cs(len(rt.outs)) {
		return false, false
	}
	for _, o := range rt.outs {
		if !fixed(o.value) || !cs(len(o.pk)) || !fixed(o.pk) {
			return false, false
		}
	}
	if rt.hasWit {
		for _, st := range rt.wit {
			if !cs(len(st)) {
				return false, false
			}
			for _, it := range st {
				if !cs(len(it)) || !fixed(it) {
					return false, false
				}
			}
		}
	}
	if !fixed(rt.lock) || p != len(raw) {
		return false, false
	}
	return true, nonmin
}

// selfCheck: the decoder accepted `raw` although the rules refuse it.  The first clause of the property holds for
// whatever is accepted: the decoded transaction must re-encode to exactly the bytes consumed, and the reported
// hashes and sizes must be those of that transaction (BIP144 serialisations by the harness' own serialiser).
// hashed: Hash / wTxID / Size are already set (block path); otherwise SetHash(raw) is called first.
// A re-encoding that differs only in CompactSize forms is the acceptance of a non-minimal length.
func (j *judge) selfCheck(who string, tx *btc.Tx, raw []byte, hashed, coinbase bool) {
	rt, bad := fromDecoded(tx)
	if rt == nil {
		j.fail("fields", who+": accepted transaction is malformed: "+bad)
		return
	}
	full, nowit := rt.ser(true), rt.ser(false)
	if !bytes.Equal(full, raw) {
		if ok, nonmin := sameModuloForms(raw, rt); ok && nonmin {
			j.fail("accepted:nonminimal", who+": accepted an encoding with a non-minimal CompactSize")
			return
		}
		j.fail("reencode", fmt.Sprintf("%s: accepted %d bytes (taken %s) but the decoded transaction serialises to %d different bytes", who, len(raw), howDecoded(tx), len(full)))
	}
	same := bytes.Equal(full, raw)
	var s1, s2 []byte
	var weight, vsize int
	var gotW [32]byte
	g := guarded("SetHash/Serialize", func() {
		if !hashed {
			tx.SetHash(raw)
		}
		gotW = tx.WTxID().Hash
		weight, vsize = tx.Weight(), tx.VSize()
		s1 = tx.Serialize()
		s2 = tx.SerializeNew()
	})
	if !j.totality("SetHash/Serialize", g) {
		return
	}
	txid := sha256d(nowit)
	wtxid := txid
	if rt.hasWit {
		wtxid = sha256d(full)
	}
	if tx.Hash.Hash != txid {
		j.fail("txid", fmt.Sprintf("%s: txid %x, expected %x", who, tx.Hash.Hash, txid))
	}
	if gotW != wtxid && !(coinbase && gotW == [32]byte{}) {
		j.fail("wtxid", fmt.Sprintf("%s: wtxid %x, expected %x", who, gotW, wtxid))
	}
	if int(tx.Size) != len(raw) || int(tx.NoWitSize) != len(nowit) {
		j.fail("size", fmt.Sprintf("%s: Size/NoWitSize %d/%d, expected %d/%d", who, tx.Size, tx.NoWitSize, len(raw), len(nowit)))
	}
	if weight != 3*len(nowit)+len(raw) || vsize != (3*len(nowit)+len(raw)+3)/4 {
		j.fail("weight", fmt.Sprintf("%s: Weight()/VSize() %d/%d for nowit %d, size %d", who, weight, vsize, len(nowit), len(raw)))
	}
	if !bytes.Equal(s1, nowit) {
		j.fail("serialize", who+": Serialize() is not the original-format serialisation of the decoded transaction")
	}
	if same && !bytes.Equal(s2, raw) {
		j.fail("reencode", fmt.Sprintf("%s: SerializeNew() (%d bytes) differs from the %d bytes consumed", who, len(s2), len(raw)))
	}
}

// sigAccepted: the signature of "accepted although it must be refused" says, for a bad flag byte, as what the
// decoder took the transaction - two decoders that are wrong in different ways must not share a signature
func sigAccepted(why string, tx *btc.Tx) string {
	if why == "badflag" {
		return "accepted:" + why + ":" + howDecoded(tx)
	}
	return "accepted:" + why
}

// judgeTx runs the transaction decoder and everything that reports on its result
func (j *judge) judgeTx(w txWant) {
	b := j.b
	keep := append([]byte(nil), b...)
	var tx *btc.Tx
	var n int
	g := guarded("NewTx", func() { tx, n = btc.NewTx(b) })
	if !j.totality("NewTx", g) {
		return
	}
	if !bytes.Equal(keep, b) {
		j.fail("input-modified", "NewTx modified its input buffer")
	}
	txsz := 0
	g = guarded("TxSize", func() { txsz = btc.TxSize(b) })
	j.totality("TxSize", g)
	if txsz > len(b) {
		j.fail("txsize:beyond", fmt.Sprintf("TxSize returned %d for a %d-byte input", txsz, len(b)))
	} else if !w.accept && (w.why == "truncated" || w.why == "short") && txsz != 0 {
		j.fail("txsize:truncated", fmt.Sprintf("TxSize returned %d for a %d-byte input that ends before the transaction does", txsz, len(b)))
	}
	if !w.accept {
		if tx != nil {
			j.fail(sigAccepted(w.why, tx), fmt.Sprintf("NewTx accepted (consumed %d of %d bytes, taken %s) an encoding that must be refused: %s", n, len(b), howDecoded(tx), w.why))
			if w.why != "nonminimal" && n >= 0 && n <= len(b) { // (a non-minimal length cannot re-encode to itself: same finding)
				j.selfCheck("NewTx", tx, b[:n], false, false)
			}
		}
		return
	}
	if tx == nil {
		if w.strict {
			j.fail("refused-valid", fmt.Sprintf("NewTx refused a valid encoding (%d bytes, %d to be consumed)", len(b), w.n))
		}
		return
	}
	if n != w.n {
		j.fail("consumed", fmt.Sprintf("NewTx consumed %d bytes, expected %d (of %d)", n, w.n, len(b)))
		return
	}
	if d := eqTx(tx, w.rt); d != "" {
		j.fail("fields", "decoded transaction differs: "+d)
		return
	}
	if int(tx.NoWitSize) != w.nowit {
		j.fail("nowitsize", fmt.Sprintf("NewTx set NoWitSize %d, expected %d", tx.NoWitSize, w.nowit))
	}
	if txsz != w.n {
		j.fail("txsize", fmt.Sprintf("TxSize returned %d, expected %d", txsz, w.n))
	}
	raw := b[:n]
	nowitSer := w.rt.ser(false)
	fullSer := w.rt.ser(true)
	txid := sha256d(nowitSer)
	wtxid := txid
	if w.rt.hasWit {
		wtxid = sha256d(fullSer)
	}
	var s1, s2 []byte
	var weight, vsize int
	var gotW [32]byte
	g = guarded("SetHash/Serialize", func() {
		tx.SetHash(raw)
		gotW = tx.WTxID().Hash
		weight, vsize = tx.Weight(), tx.VSize()
		s1 = tx.Serialize()
		s2 = tx.SerializeNew()
	})
	if !j.totality("SetHash/Serialize", g) {
		return
	}
	if tx.Hash.Hash != txid {
		j.fail("txid", fmt.Sprintf("txid %x, expected %x", tx.Hash.Hash, txid))
	}
	if gotW != wtxid {
		j.fail("wtxid", fmt.Sprintf("wtxid %x, expected %x", gotW, wtxid))
	}
	if int(tx.Size) != w.size || int(tx.NoWitSize) != w.nowit {
		j.fail("size", fmt.Sprintf("Size/NoWitSize %d/%d, expected %d/%d", tx.Size, tx.NoWitSize, w.size, w.nowit))
	}
	if weight != w.weight {
		j.fail("weight", fmt.Sprintf("Weight() %d, expected %d (nowit %d, size %d)", weight, w.weight, w.nowit, w.size))
	}
	if vsize != w.vsize {
		j.fail("vsize", fmt.Sprintf("VSize() %d, expected %d (weight %d)", vsize, w.vsize, w.weight))
	}
	if !bytes.Equal(s1, nowitSer) {
		j.fail("serialize", fmt.Sprintf("Serialize() (%d bytes) is not the original-format serialisation (%d bytes)", len(s1), len(nowitSer)))
	}
	if !bytes.Equal(s2, raw) {
		j.fail("reencode", fmt.Sprintf("SerializeNew() (%d bytes) differs from the %d bytes consumed", len(s2), len(raw)))
	}
	if j.p != nil && len(j.fails) == 0 { // exported cases (not every mutation sub-case): the decoded object is edited and re-hashed
		j.editStage(raw)
	}
}

// ---------------------------------------------------------------------------------------------
// mutate after decode: a decoded Tx is edited through its public fields (as the wallet does when it signs)
// and the public recomputation entry points are called again; whatever they report must be that of the
// EDITED transaction (reference: the harness' serialiser and hashes over the edited structure).
// Contract of lib/btc, as its callers use it (wallet/signtx.go, client/rpcapi/mining.go): after an edit the
// caller serialises again and calls SetHash(tx.SerializeNew()); SetHash(nil) re-hashes tx.Raw, i.e. the bytes
// last given to it - calling it right after an edit, with a stale Raw, is not judged.
// ---------------------------------------------------------------------------------------------

type txEdit struct {
	name  string
	apply func(tx *btc.Tx, rng *rand.Rand) bool // false: not applicable to this transaction
}

func anyWitness(tx *btc.Tx) bool {
	for _, st := range tx.SegWit {
		if len(st) > 0 {
			return true
		}
	}
	return false
}

var txEdits = []txEdit{
	{"scriptsig+23", func(tx *btc.Tx, rng *rand.Rand) bool { // P2SH-P2WPKH signing adds a 23-byte scriptSig
		if len(tx.TxIn) == 0 {
			return false
		}
		tx.TxIn[0].ScriptSig = append(append([]byte{}, tx.TxIn[0].ScriptSig...), rbytes(rng, 23)...)
		return true
	}},
	{"scriptsig+1", func(tx *btc.Tx, rng *rand.Rand) bool {
		if len(tx.TxIn) == 0 {
			return false
		}
		i := len(tx.TxIn) - 1
		tx.TxIn[i].ScriptSig = append(append([]byte{}, tx.TxIn[i].ScriptSig...), 0x51)
		return true
	}},
	{"scriptsig-1", func(tx *btc.Tx, rng *rand.Rand) bool {
		if len(tx.TxIn) == 0 || len(tx.TxIn[0].ScriptSig) == 0 {
			return false
		}
		tx.TxIn[0].ScriptSig = tx.TxIn[0].ScriptSig[1:]
		return true
	}},
	{"scriptsig-empty", func(tx *btc.Tx, rng *rand.Rand) bool {
		if len(tx.TxIn) == 0 || len(tx.TxIn[0].ScriptSig) == 0 {
			return false
		}
		tx.TxIn[0].ScriptSig = []byte{}
		return true
	}},
	{"input+", func(tx *btc.Tx, rng *rand.Rand) bool {
		in := &btc.TxIn{ScriptSig: rbytes(rng, rng.Intn(30)), Sequence: rng.Uint32()}
		rng.Read(in.Input.Hash[:])
		tx.TxIn = append(tx.TxIn, in)
		if tx.SegWit != nil {
			tx.SegWit = append(tx.SegWit, [][]byte{})
		}
		return tx.SegWit == nil || anyWitness(tx)
	}},
	{"input-", func(tx *btc.Tx, rng *rand.Rand) bool {
		if len(tx.TxIn) < 2 {
			return false
		}
		tx.TxIn = tx.TxIn[:len(tx.TxIn)-1]
		if tx.SegWit != nil {
			tx.SegWit = tx.SegWit[:len(tx.SegWit)-1]
		}
		return tx.SegWit == nil || anyWitness(tx)
	}},
	{"output+", func(tx *btc.Tx, rng *rand.Rand) bool {
		if len(tx.TxIn) == 0 {
			return false
		}
		tx.TxOut = append(tx.TxOut, &btc.TxOut{Value: rng.Uint64(), Pk_script: rbytes(rng, rng.Intn(40))})
		return true
	}},
	{"output-", func(tx *btc.Tx, rng *rand.Rand) bool {
		if len(tx.TxOut) == 0 {
			return false
		}
		tx.TxOut = tx.TxOut[:len(tx.TxOut)-1]
		return true
	}},
	{"pkscript+1", func(tx *btc.Tx, rng *rand.Rand) bool { // 252 -> 253: the length prefix grows too
		if len(tx.TxOut) == 0 {
			return false
		}
		tx.TxOut[0].Pk_script = append(append([]byte{}, tx.TxOut[0].Pk_script...), 0x6a)
		return true
	}},
	{"witness-item+", func(tx *btc.Tx, rng *rand.Rand) bool {
		if tx.SegWit == nil {
			return false
		}
		i := len(tx.SegWit) - 1
		tx.SegWit[i] = append(tx.SegWit[i], rbytes(rng, 1+rng.Intn(72)))
		return true
	}},
	{"witness-item-", func(tx *btc.Tx, rng *rand.Rand) bool {
		for i := range tx.SegWit {
			if len(tx.SegWit[i]) > 0 {
				tx.SegWit[i] = tx.SegWit[i][:len(tx.SegWit[i])-1]
				return anyWitness(tx)
			}
		}
		return false
	}},
	{"witness-emptied", func(tx *btc.Tx, rng *rand.Rand) bool { // no witness left: the transaction is a legacy one again
		if tx.SegWit == nil {
			return false
		}
		tx.SegWit = nil
		return true
	}},
	{"segwit-nil-and-back", func(tx *btc.Tx, rng *rand.Rand) bool { // hashed as a legacy transaction in between
		if tx.SegWit == nil {
			return false
		}
		sw := tx.SegWit
		tx.SegWit = nil
		tx.SetHash(tx.SerializeNew())
		_ = tx.WTxID()
		tx.SegWit = sw
		return true
	}},
	{"witness-added", func(tx *btc.Tx, rng *rand.Rand) bool { // a legacy transaction gets its first witness
		if tx.SegWit != nil || len(tx.TxIn) == 0 {
			return false
		}
		tx.SegWit = make([][][]byte, len(tx.TxIn))
		tx.SegWit[0] = [][]byte{rbytes(rng, 72), rbytes(rng, 33)}
		return true
	}},
	{"locktime", func(tx *btc.Tx, rng *rand.Rand) bool { tx.Lock_time ^= 0x01020304; return true }},
	{"sequence", func(tx *btc.Tx, rng *rand.Rand) bool {
		if len(tx.TxIn) == 0 {
			return false
		}
		tx.TxIn[0].Sequence ^= 0x80000001
		return true
	}},
}

type txReport struct {
	s1, s2        []byte
	hash, wtxid   [32]byte
	size, nowit   int
	weight, vsize int
}

// the recomputation entry points, in three orders
func recompute(tx *btc.Tx, order int) (r txReport) {
	switch order {
	case 0:
		r.s2 = tx.SerializeNew()
		r.s1 = tx.Serialize()
		tx.SetHash(r.s2)
	case 1:
		tx.SetHash(tx.SerializeNew())
		r.wtxid = tx.WTxID().Hash
		r.s1 = tx.Serialize()
		r.s2 = tx.SerializeNew()
	default:
		r.s1 = tx.Serialize()
		tx.SetHash(tx.SerializeNew())
		tx.SetHash(nil) // Raw is current: must change nothing
		r.s2 = tx.SerializeNew()
	}
	r.hash, r.wtxid = tx.Hash.Hash, tx.WTxID().Hash
	r.size, r.nowit = int(tx.Size), int(tx.NoWitSize)
	r.weight, r.vsize = tx.Weight(), tx.VSize()
	return
}

func (j *judge) compareEdited(what string, tx *btc.Tx, r txReport) {
	rt, bad := fromDecoded(tx)
	if rt == nil {
		j.infra = append(j.infra, "edit stage: "+bad)
		return
	}
	full, nowit := rt.ser(true), rt.ser(false)
	txid := sha256d(nowit)
	wtxid := txid
	if rt.hasWit {
		wtxid = sha256d(full)
	}
	if !bytes.Equal(r.s2, full) {
		j.fail("edit:reencode", what+": SerializeNew() is not the serialisation of the edited transaction")
	}
	if !bytes.Equal(r.s1, nowit) {
		j.fail("edit:serialize", what+": Serialize() is not the original-format serialisation of the edited transaction")
	}
	if r.hash != txid {
		j.fail("edit:txid", fmt.Sprintf("%s: txid %x, the edited transaction has %x", what, r.hash, txid))
	}
	if r.wtxid != wtxid {
		j.fail("edit:wtxid", fmt.Sprintf("%s: wtxid %x, the edited transaction has %x", what, r.wtxid, wtxid))
	}
	if r.size != len(full) || r.nowit != len(nowit) {
		j.fail("edit:size", fmt.Sprintf("%s: Size/NoWitSize %d/%d, the edited transaction has %d/%d", what, r.size, r.nowit, len(full), len(nowit)))
	}
	if r.weight != 3*len(nowit)+len(full) || r.vsize != (3*len(nowit)+len(full)+3)/4 {
		j.fail("edit:weight", fmt.Sprintf("%s: Weight()/VSize() %d/%d, the edited transaction has nowit %d, size %d", what, r.weight, r.vsize, len(nowit), len(full)))
	}
	// the same bytes decoded afresh must report the same txid
	if t2, n2 := btc.NewTx(exact(full)); t2 != nil && n2 == len(full) {
		t2.SetHash(full)
		if t2.Hash.Hash != r.hash || t2.WTxID().Hash != r.wtxid {
			j.fail("edit:fresh", what+": txid / wtxid of the edited object differ from those of its serialisation decoded afresh")
		}
	}
}

func (j *judge) editStage(raw []byte) {
	rng := rand.New(rand.NewSource(int64(j.li)*7 + int64(len(raw))))
	for _, e := range txEdits {
		for order := 0; order < 3; order++ {
			for pre := 0; pre < 2; pre++ { // pre = 1: the getters are called before the edit too (every cache is warm)
				what := fmt.Sprintf("after edit %s (order %d, warm %d)", e.name, order, pre)
				var tx *btc.Tx
				var rep txReport
				ok := true
				g := guarded("edit:"+e.name, func() {
					tx, _ = btc.NewTx(exact(raw))
					if tx == nil {
						ok = false
						return
					}
					if pre == 1 {
						recompute(tx, order)
					}
					if ok = e.apply(tx, rng); !ok {
						return
					}
					rep = recompute(tx, order)
				})
				if !j.totality("edit:"+e.name, g) || !ok {
					continue
				}
				j.compareEdited(what, tx, rep)
				if e.name == "witness-emptied" || e.name == "scriptsig+23" { // ... and a second edit on the same object
					g = guarded("edit:second", func() {
						if txEdits[len(txEdits)-2].apply(tx, rng) { // locktime
							rep = recompute(tx, (order+1)%3)
						}
					})
					if j.totality("edit:second", g) {
						j.compareEdited(what+" then locktime", tx, rep)
					}
				}
				if len(j.fails) > 6 {
					return
				}
			}
		}
	}
}

type blWant struct {
	failIdx int // refused: the transaction in which the reference reader gave up
	accept  bool
	strict  bool
	why     string
	n       int
	rb      *rBlock
	sizes   [][2]int // size, nowit
	bw      int
}

func blWantFromRef(b []byte) (w blWant) {
	rb, n, why := refDecodeBlock(b)
	w.strict = true
	if rb == nil {
		w.why = why
		w.failIdx = lastFail
		return
	}
	w.accept, w.n, w.rb = true, n, rb
	cs := 1
	if len(rb.txs) >= 253 {
		cs = 3
	}
	w.bw = 4 * (80 + cs)
	for i, t := range rb.txs {
		sz := rb.offs[i+1] - rb.offs[i]
		nw := len(t.ser(false))
		w.sizes = append(w.sizes, [2]int{sz, nw})
		w.bw += 3*nw + sz
	}
	if len(rb.txs) == 0 || n < len(b) {
		w.strict = false
	}
	return
}

func (j *judge) judgeBlock(w blWant) {
	b := j.b
	cs := 1
	if w.rb != nil && len(w.rb.txs) >= 253 {
		cs = 3
	}
	for pass := 0; pass < 2; pass++ {
		fn := "BuildTxList"
		if pass == 1 {
			fn = "BuildTxListExt(false)"
		}
		var bl *btc.Block
		var er error
		g := guarded("NewBlock+"+fn, func() {
			bl, er = btc.NewBlock(b)
			if er == nil {
				if pass == 0 {
					er = bl.BuildTxList()
				} else {
					er = bl.BuildTxListExt(false)
				}
			}
		})
		if !j.totality("NewBlock+"+fn, g) {
			return
		}
		if !w.accept {
			if er == nil {
				var ftx *btc.Tx // the transaction the reference reader refused, as this decoder took it
				if w.failIdx < len(bl.Txs) {
					ftx = bl.Txs[w.failIdx]
				}
				j.fail(sigAccepted(w.why, ftx), fmt.Sprintf("NewBlock+%s accepted a %d-byte block that must be refused: %s (transaction %d taken %s)", fn, len(b), w.why, w.failIdx, howDecoded(ftx)))
				if w.why != "nonminimal" && pass == 0 {
					for i, tx := range bl.Txs {
						if tx != nil {
							j.selfCheck(fmt.Sprintf("%s Txs[%d]", fn, i), tx, tx.Raw, true, i == 0)
						}
					}
				}
			}
			continue
		}
		if er != nil {
			if w.strict {
				j.fail("refused-valid", fmt.Sprintf("NewBlock+%s refused a valid block: %v", fn, er))
			}
			continue
		}
		if bl.TxCount != len(w.rb.txs) || len(bl.Txs) != len(w.rb.txs) {
			j.fail("txcount", fmt.Sprintf("%s: TxCount %d, len(Txs) %d, expected %d", fn, bl.TxCount, len(bl.Txs), len(w.rb.txs)))
			continue
		}
		bad := false
		for i, tx := range bl.Txs {
			rt := w.rb.txs[i]
			if tx == nil {
				j.fail("fields", fmt.Sprintf("%s: Txs[%d] is nil", fn, i))
				bad = true
				break
			}
			if !bytes.Equal(tx.Raw, b[w.rb.offs[i]:w.rb.offs[i+1]]) {
				j.fail("consumed", fmt.Sprintf("%s: Txs[%d].Raw is not bytes %d..%d of the block", fn, i, w.rb.offs[i], w.rb.offs[i+1]))
				bad = true
				break
			}
			if d := eqTx(tx, rt); d != "" {
				j.fail("fields", fmt.Sprintf("%s: Txs[%d] differs: %s", fn, i, d))
				bad = true
				break
			}
			if int(tx.Size) != w.sizes[i][0] || int(tx.NoWitSize) != w.sizes[i][1] {
				j.fail("size", fmt.Sprintf("%s: Txs[%d] Size/NoWitSize %d/%d, expected %d/%d", fn, i, tx.Size, tx.NoWitSize, w.sizes[i][0], w.sizes[i][1]))
			}
			if pass == 0 {
				txid := sha256d(rt.ser(false))
				if tx.Hash.Hash != txid {
					j.fail("txid", fmt.Sprintf("Txs[%d].Hash %x, expected %x", i, tx.Hash.Hash, txid))
				}
				wtxid := txid
				if rt.hasWit {
					wtxid = sha256d(rt.ser(true))
				}
				// BIP141 defines the coinbase's wtxid as zero in the witness commitment: either answer is taken there
				got := tx.WTxID().Hash
				if got != wtxid && !(i == 0 && got == [32]byte{}) {
					j.fail("wtxid", fmt.Sprintf("Txs[%d].WTxID %x, expected %x", i, got, wtxid))
				}
			}
		}
		if bad {
			continue
		}
		if int(bl.BlockWeight) != w.bw {
			j.fail("blockweight", fmt.Sprintf("%s: BlockWeight %d, expected %d", fn, bl.BlockWeight, w.bw))
		}
		// GetUserInfo sums the same sizes once more: block size without witnesses, weight of the paying transactions
		var ui *btc.BlockUserInfo
		g = guarded("GetUserInfo", func() { ui = bl.GetUserInfo() })
		if j.totality("GetUserInfo", g) && ui != nil {
			base, paid := 80+cs, 0
			for i, sz := range w.sizes {
				base += sz[1]
				if i > 0 {
					paid += 3*sz[1] + sz[0]
				}
			}
			if ui.NoWitnessSize != base || int(ui.PaidTxsWeight) != paid {
				j.fail("userinfo", fmt.Sprintf("%s: GetUserInfo NoWitnessSize %d PaidTxsWeight %d, expected %d %d", fn, ui.NoWitnessSize, ui.PaidTxsWeight, base, paid))
			}
		}
	}
}

// stand-alone CompactSize: VLen / VULe / ReadVLen read it, PutULe / PutVlen / WriteVlen / VLenSize write the minimal form
func (j *judge) judgeCS(c *Case) {
	var t []int64
	if len(c.S) == 1 {
		json.Unmarshal(c.S[0], &t)
	}
	if len(c.S) > 1 || (len(c.S) == 1 && len(t) != 3) {
		j.infra = append(j.infra, "bad cs case")
		return
	}
	b := j.b
	var sh struct {
		V int64 `json:"v"`
		F int   `json:"f"`
	}
	json.Unmarshal(c.Sh, &sh)
	v := value(sh.V)
	full := len(b) == sh.F
	var le, n1, n2 int
	var ule, rv uint64
	var er error
	g := guarded("VLen/VULe/ReadVLen", func() {
		le, n1 = btc.VLen(b)
		ule, n2 = btc.VULe(b)
		rv, er = btc.ReadVLen(bytes.NewReader(b))
	})
	if !j.totality("VLen/VULe/ReadVLen", g) {
		return
	}
	if !full {
		if c.E.V != "refuse" {
			j.infra = append(j.infra, "cs case: truncated but not refused by the specification")
		}
		if n1 != 0 || n2 != 0 || er == nil {
			j.fail("truncated", fmt.Sprintf("truncated CompactSize %x: VLen n=%d, VULe n=%d, ReadVLen err=%v", b, n1, n2, er))
		}
		return
	}
	if n1 != sh.F || uint64(le) != v || n2 != sh.F || ule != v || er != nil || rv != v {
		j.fail("value", fmt.Sprintf("CompactSize %x: VLen (%d,%d) VULe (%d,%d) ReadVLen (%d,%v), expected value %d size %d", b, le, n1, ule, n2, rv, er, v, sh.F))
	}
	if c.E.V == "accept" { // the minimal form: the writers must produce exactly it
		var p1 [9]byte
		var n3 int
		var w bytes.Buffer
		var sz int
		g = guarded("PutULe/WriteVlen/VLenSize", func() {
			n3 = btc.PutULe(p1[:], v)
			btc.WriteVlen(&w, v)
			sz = btc.VLenSize(v)
		})
		if !j.totality("PutULe/WriteVlen/VLenSize", g) {
			return
		}
		if n3 != sh.F || !bytes.Equal(p1[:n3], b) || !bytes.Equal(w.Bytes(), b) || sz != sh.F {
			j.fail("write", fmt.Sprintf("value %d: PutULe %x WriteVlen %x VLenSize %d, expected %x", v, p1[:n3], w.Bytes(), sz, b))
		}
		if v < 1<<31 {
			var p2 [9]byte
			n4 := btc.PutVlen(p2[:], int(v))
			if int(n4) != sh.F || !bytes.Equal(p2[:n4], b) {
				j.fail("write", fmt.Sprintf("value %d: PutVlen %x, expected %x", v, p2[:n4], b))
			}
		}
	}
}

// "short" (a count that cannot fit in the bytes left) is a refusal whatever the content is; which rule the
// byte-level reader trips over first depends on the content
func wildcard(why string) bool { return why == "short" }

func lensOf(rt *rTx) (x TxJ) {
	x.Wit = rt.hasWit
	for i, in := range rt.ins {
		var e struct {
			S int   `json:"s"`
			W []int `json:"w"`
		}
		e.S = len(in.script)
		e.W = []int{}
		if rt.hasWit {
			for _, it := range rt.wit[i] {
				e.W = append(e.W, len(it))
			}
		}
		x.Ins = append(x.Ins, e)
	}
	x.Outs = []int{}
	for _, o := range rt.outs {
		x.Outs = append(x.Outs, len(o.pk))
	}
	return
}

func sameShape(a, b TxJ) bool {
	x, _ := json.Marshal(a)
	y, _ := json.Marshal(b)
	if len(a.Ins) == 0 && len(b.Ins) == 0 {
		a.Ins, b.Ins = nil, nil
		x, _ = json.Marshal(a)
		y, _ = json.Marshal(b)
	}
	return bytes.Equal(x, y)
}

func normTxJ(t TxJ) TxJ {
	if t.Outs == nil {
		t.Outs = []int{}
	}
	for i := range t.Ins {
		if t.Ins[i].W == nil {
			t.Ins[i].W = []int{}
		}
	}
	return t
}

// runCase: concretise one exported case, bind the reference decoder to the specification's verdict, judge gocoin
func runCase(c *Case, li int, seed int64, dry bool) (j *judge) {
	rng := rand.New(rand.NewSource(seed*1000003 + int64(li)))
	b, err := concretise(c, rng)
	p := c.P
	j = &judge{kind: c.T, b: b, li: li, p: &p}
	if err != nil {
		j.infra = append(j.infra, err.Error())
		return
	}
	if dry {
		return
	}
	mismatch := func(f string, a ...interface{}) {
		j.infra = append(j.infra, fmt.Sprintf("line %d: reference decoder and Wire.tla disagree: ", li)+fmt.Sprintf(f, a...))
	}
	switch c.T {
	case "tx":
		w := wantFromRef(b)
		switch c.E.V {
		case "accept":
			if !w.accept || w.n != c.E.N {
				mismatch("spec accepts %d bytes, reference: accept=%v n=%d why=%s", c.E.N, w.accept, w.n, w.why)
				return
			}
			if c.E.Dec == nil || !sameShape(normTxJ(*c.E.Dec), lensOf(w.rt)) {
				mismatch("decoded structure differs")
				return
			}
			if !bytes.Equal(w.rt.ser(true), b[:w.n]) {
				mismatch("reference re-serialisation differs from the consumed bytes")
				return
			}
			if w.size != c.E.Size || w.nowit != c.E.Nowit {
				mismatch("sizes: spec %d/%d reference %d/%d", c.E.Size, c.E.Nowit, w.size, w.nowit)
				return
			}
			// the specification's numbers are the oracle
			w.size, w.nowit, w.weight, w.vsize = c.E.Size, c.E.Nowit, c.E.Weight, c.E.Vsize
		case "refuse":
			if w.accept || (!wildcard(c.E.Why) && c.E.Why != w.why) {
				mismatch("spec refuses (%s), reference: accept=%v why=%s", c.E.Why, w.accept, w.why)
				return
			}
			if wildcard(c.E.Why) {
				w.why = c.E.Why
			}
		case "dep": // content dependent: the reference decoder is the judge
		default:
			mismatch("unknown verdict %q", c.E.V)
			return
		}
		j.judgeTx(w)
	case "block":
		w := blWantFromRef(b)
		switch c.E.V {
		case "accept":
			if !w.accept || w.n != c.E.N || len(w.sizes) != len(c.E.Txs) || w.bw != c.E.Bw {
				mismatch("spec accepts block n=%d bw=%d, reference: accept=%v n=%d bw=%d why=%s", c.E.N, c.E.Bw, w.accept, w.n, w.bw, w.why)
				return
			}
			for i := range w.sizes {
				if w.sizes[i] != [2]int{c.E.Txs[i].Size, c.E.Txs[i].Nowit} || !sameShape(normTxJ(c.E.Txs[i].Dec), lensOf(w.rb.txs[i])) {
					mismatch("block tx %d differs", i)
					return
				}
			}
			if w.strict != c.E.Strict {
				mismatch("strictness of block case")
				return
			}
		case "refuse":
			if w.accept || (!wildcard(c.E.Why) && c.E.Why != w.why) {
				mismatch("spec refuses block (%s), reference: accept=%v why=%s", c.E.Why, w.accept, w.why)
				return
			}
			if wildcard(c.E.Why) {
				w.why = c.E.Why
			}
		case "dep":
		default:
			mismatch("unknown verdict %q", c.E.V)
			return
		}
		j.judgeBlock(w)
	case "cs":
		j.judgeCS(c)
	default:
		j.infra = append(j.infra, "unknown case type "+c.T)
	}
	return
}

// ---------------------------------------------------------------------------------------------
// byte-level mutations of a valid encoding, judged by the reference decoder
// ---------------------------------------------------------------------------------------------

var interesting = []byte{0x00, 0x01, 0x02, 0xfc, 0xfd, 0xfe, 0xff}

type mutation struct {
	pos int  // byte changed (-1: none)
	val byte // new value
	cut int  // length kept (-1: all)
}

// the mutation list of a unit is a pure function of (base, family, seed): a crashed unit can be resumed
func mutations(kind string, base []byte, fam string, rng *rand.Rand) (ms []mutation) {
	n := len(base)
	var cs []int
	if kind == "tx" {
		if rt, _, _ := refDecodeTx(base); rt != nil {
			cs = rt.csPos
		}
	} else if rb, _, _ := refDecodeBlock(base); rb != nil {
		cs = rb.cs
	}
	var pos []int // byte positions worth changing: all of a short input, the structural ones of a long one
	if n <= 400 {
		for i := 0; i < n; i++ {
			pos = append(pos, i)
		}
	} else {
		seen := map[int]bool{}
		add := func(i int) {
			if i >= 0 && i < n && !seen[i] {
				seen[i] = true
				pos = append(pos, i)
			}
		}
		for _, c := range cs {
			for d := -2; d <= 9; d++ {
				add(c + d)
			}
		}
		for i := 0; i < 12; i++ {
			add(i)
			add(n - 1 - i)
		}
		for i := 0; i < 100; i++ {
			add(rng.Intn(n))
		}
		if len(pos) > 500 { // a seeded selection: a long block has thousands of structural positions
			rng.Shuffle(len(pos), func(i, k int) { pos[i], pos[k] = pos[k], pos[i] })
			pos = pos[:500]
		}
		sort.Ints(pos)
	}
	switch fam {
	case "trunc":
		if n <= 3000 {
			for l := 0; l < n; l++ {
				ms = append(ms, mutation{-1, 0, l})
			}
		} else {
			for _, p := range pos {
				ms = append(ms, mutation{-1, 0, p}, mutation{-1, 0, p + 1})
			}
		}
	case "byte":
		for _, p := range pos {
			o := base[p]
			vals := append([]byte{}, interesting...)
			vals = append(vals, o+1, o-1, ^o, byte(rng.Intn(256)))
			seen := map[byte]bool{o: true}
			for _, v := range vals {
				if !seen[v] {
					seen[v] = true
					ms = append(ms, mutation{p, v, -1})
				}
			}
		}
	case "double": // one byte changed and the result truncated
		if n > 200 {
			return
		}
		for _, p := range pos {
			for _, v := range []byte{0x00, 0x01, 0xfd, 0xff} {
				if v == base[p] {
					continue
				}
				for l := p + 1; l < n; l++ {
					ms = append(ms, mutation{p, v, l})
				}
			}
		}
	}
	return
}

func applyMut(base []byte, m mutation) []byte {
	l := len(base)
	if m.cut >= 0 && m.cut < l {
		l = m.cut
	}
	x := make([]byte, l)
	copy(x, base)
	if m.pos >= 0 && m.pos < l {
		x[m.pos] = m.val
	}
	return x
}

// ---------------------------------------------------------------------------------------------
// worker: units on stdin, one result line per unit on stdout
// ---------------------------------------------------------------------------------------------

type Unit struct {
	ID   int             `json:"id"`
	U    string          `json:"u"` // "case" | "mut"
	Li   int             `json:"li"`
	C    json.RawMessage `json:"c,omitempty"`
	Kind string          `json:"kind,omitempty"`
	Hex  string          `json:"hex,omitempty"`
	Fam  string          `json:"fam,omitempty"`
	From int             `json:"from,omitempty"` // resume a mutation unit at this sub index
	To   int             `json:"to,omitempty"`   // ... and stop before this one (0 = run to the end)
	Dry  bool            `json:"dry,omitempty"`  // do not run: return the input bytes of (unit, from)
}

type Result struct {
	ID       int      `json:"id"`
	Evals    int      `json:"evals"`
	Distinct int      `json:"distinct"`
	Accepts  int      `json:"accepts"`
	Fails    []Fail   `json:"fails,omitempty"`
	Infra    []string `json:"infra,omitempty"`
	Hex      string   `json:"hex,omitempty"`
	Subs     int      `json:"subs"`
}

func setCrumb(id, sub int) {
	if crumb != nil {
		binary.LittleEndian.PutUint64(crumb[0:], uint64(id))
		binary.LittleEndian.PutUint64(crumb[8:], uint64(sub))
	}
}

func doUnit(u *Unit, seed int64) (r Result) {
	r.ID = u.ID
	switch u.U {
	case "case":
		var c Case
		if err := json.Unmarshal(u.C, &c); err != nil {
			r.Infra = append(r.Infra, "bad case line: "+err.Error())
			return
		}
		setCrumb(u.ID, 0)
		j := runCase(&c, u.Li, seed, u.Dry)
		if u.Dry {
			r.Hex = hex.EncodeToString(j.b)
			return
		}
		r.Evals, r.Subs = 1, 1
		if len(j.b) > 0 {
			r.Distinct = 1
		}
		r.Fails, r.Infra = j.fails, j.infra
	case "mut":
		base, err := hex.DecodeString(u.Hex)
		if err != nil {
			r.Infra = append(r.Infra, "bad hex")
			return
		}
		rng := rand.New(rand.NewSource(seed*7919 + int64(u.Li)*31 + int64(len(u.Fam))))
		ms := mutations(u.Kind, base, u.Fam, rng)
		r.Subs = len(ms)
		if u.Dry {
			if u.From < len(ms) {
				r.Hex = hex.EncodeToString(applyMut(base, ms[u.From]))
			}
			return
		}
		seen := map[[32]byte]bool{}
		sigs := map[string]int{}
		end := len(ms)
		if u.To > 0 && u.To < end {
			end = u.To
		}
		for k := u.From; k < end; k++ {
			b := applyMut(base, ms[k])
			setCrumb(u.ID, k)
			j := &judge{kind: u.Kind, b: b, li: u.Li, sub: k}
			if u.Kind == "tx" {
				w := wantFromRef(b)
				if w.accept {
					r.Accepts++
				}
				j.judgeTx(w)
			} else {
				w := blWantFromRef(b)
				if w.accept {
					r.Accepts++
				}
				j.judgeBlock(w)
			}
			r.Evals++
			if len(b) > 0 {
				h := sha256.Sum256(b)
				if !seen[h] {
					seen[h] = true
					r.Distinct++
				}
			}
			for _, f := range j.fails { // a few examples per signature and unit are enough
				sigs[f.Sig]++
				if sigs[f.Sig] <= 2 {
					f.What = "mutation of a valid encoding (" + u.Fam + "): " + f.What
					r.Fails = append(r.Fails, f)
				}
			}
		}
	default:
		r.Infra = append(r.Infra, "unknown unit "+u.U)
	}
	return
}

func cmdWorker(args []string) {
	fs := flag.NewFlagSet("worker", flag.ExitOnError)
	seed := fs.Int64("seed", 1, "seed")
	rl := fs.Int("rlimit", 0, "address space limit in MiB above the current size (0 = none)")
	cr := fs.String("crumb", "", "breadcrumb file")
	fs.Parse(args)
	if *cr != "" {
		f, err := os.OpenFile(*cr, os.O_RDWR|os.O_CREATE, 0600)
		if err == nil {
			f.Truncate(4096)
			crumb, err = syscall.Mmap(int(f.Fd()), 0, 4096, syscall.PROT_READ|syscall.PROT_WRITE, syscall.MAP_SHARED)
			if err != nil {
				crumb = nil
			}
			f.Close()
		}
	}
	debug.SetGCPercent(50)
	if *rl > 0 {
		cur := vmSize()
		lim := cur + uint64(*rl)<<20
		syscall.Setrlimit(syscall.RLIMIT_AS, &syscall.Rlimit{Cur: lim, Max: lim})
	}
	in := bufio.NewReaderSize(os.Stdin, 1<<20)
	out := bufio.NewWriterSize(os.Stdout, 1<<20)
	for {
		line, err := in.ReadBytes('\n')
		if len(line) > 1 {
			var u Unit
			var r Result
			if e := json.Unmarshal(line, &u); e != nil {
				r.Infra = append(r.Infra, "bad unit: "+e.Error())
			} else {
				r = doUnit(&u, *seed)
			}
			bb, _ := json.Marshal(r)
			out.Write(bb)
			out.WriteByte('\n')
			out.Flush()
		}
		if err != nil {
			return
		}
	}
}

func vmSize() uint64 {
	b, err := os.ReadFile("/proc/self/statm")
	if err != nil {
		return 2 << 30
	}
	var pages uint64
	fmt.Sscan(string(b), &pages)
	return pages * uint64(os.Getpagesize())
}

// ---------------------------------------------------------------------------------------------
// coordinator
// ---------------------------------------------------------------------------------------------

type child struct {
	cmd    *exec.Cmd
	in     io.WriteCloser
	out    *bufio.Reader
	errbuf *tailBuf
	crumb  string
}

type tailBuf struct {
	mu sync.Mutex
	b  []byte
}

func (t *tailBuf) Write(p []byte) (int, error) {
	t.mu.Lock()
	t.b = append(t.b, p...)
	if len(t.b) > 16384 {
		t.b = t.b[len(t.b)-8192:]
	}
	t.mu.Unlock()
	return len(p), nil
}
func (t *tailBuf) String() string { t.mu.Lock(); defer t.mu.Unlock(); return string(t.b) }

func spawn(self string, seed int64, rlimit int, crumb string) (*child, error) {
	c := &child{crumb: crumb, errbuf: new(tailBuf)}
	c.cmd = exec.Command(self, "worker", "-seed", fmt.Sprint(seed), "-rlimit", fmt.Sprint(rlimit), "-crumb", crumb)
	c.cmd.Env = append(os.Environ(), "GOMAXPROCS=4")
	c.cmd.Stderr = c.errbuf
	var err error
	if c.in, err = c.cmd.StdinPipe(); err != nil {
		return nil, err
	}
	so, err := c.cmd.StdoutPipe()
	if err != nil {
		return nil, err
	}
	c.out = bufio.NewReaderSize(so, 1<<20)
	if err = c.cmd.Start(); err != nil {
		return nil, err
	}
	return c, nil
}

func (c *child) kill() {
	c.in.Close()
	c.cmd.Process.Kill()
	c.cmd.Wait()
}

// ask sends one unit and waits for its result; died = the child is gone (crash) or makes no progress:
// the breadcrumb (unit, sub index) has not moved for `wait` (a sub-case normally takes micro- to milliseconds)
func (c *child) ask(u *Unit, wait time.Duration) (r *Result, died string) {
	bb, _ := json.Marshal(u)
	bb = append(bb, '\n')
	if _, err := c.in.Write(bb); err != nil {
		return nil, "write: " + err.Error()
	}
	type resp struct {
		line []byte
		err  error
	}
	ch := make(chan resp, 1)
	go func() {
		l, e := c.out.ReadBytes('\n')
		ch <- resp{l, e}
	}()
	tick := time.NewTicker(500 * time.Millisecond)
	defer tick.Stop()
	last, lastAt := "", time.Now()
	for {
		select {
		case x := <-ch:
			if x.err != nil || len(x.line) < 2 {
				c.cmd.Wait()
				return nil, "exit"
			}
			r = new(Result)
			if e := json.Unmarshal(x.line, r); e != nil {
				return nil, "garbled result: " + e.Error()
			}
			return r, ""
		case <-tick.C:
			cb, _ := os.ReadFile(c.crumb)
			if len(cb) >= 16 && string(cb[:16]) != last {
				last, lastAt = string(cb[:16]), time.Now()
			}
			if time.Since(lastAt) > wait {
				return nil, "hang"
			}
		}
	}
}

func readCrumb(path string, id int) (sub int, fn string) {
	cb, err := os.ReadFile(path)
	if err == nil && len(cb) >= 48 && int(binary.LittleEndian.Uint64(cb)) == id {
		sub = int(binary.LittleEndian.Uint64(cb[8:]))
		fn = strings.TrimRight(string(cb[16:48]), "\x00")
	}
	return
}

type agg struct {
	mu       sync.Mutex
	evals    int
	distinct int
	accepts  int
	units    int
	crashes  int
	bySig    map[string]int
	examples map[string][]Fail
	infra    []string
	perKind  map[string]int
}

func (a *agg) addFail(f Fail) {
	a.bySig[f.Sig]++
	ex := a.examples[f.Sig]
	if len(ex) < 3 {
		a.examples[f.Sig] = append(ex, f)
	} else if len(f.Hex) < len(ex[0].Hex) { // keep the shortest example first
		ex[0] = f
	}
}

func cmdReplay(args []string) {
	fs := flag.NewFlagSet("replay", flag.ExitOnError)
	inp := fs.String("in", "", "cases (ndjson from WireGen)")
	seed := fs.Int64("seed", 1, "seed for the opaque content and the mutations")
	workers := fs.Int("workers", 8, "child processes")
	nmut := fs.Int("mut", 0, "number of valid encodings to mutate (0 = no mutation tier)")
	rlimit := fs.Int("rlimit", 256, "address space headroom of a child in MiB")
	dir := fs.String("dir", os.TempDir(), "scratch directory (breadcrumb files)")
	wait := fs.Int("wait", 10, "seconds without progress before a child counts as hung")
	fs.Parse(args)
	self, _ := os.Executable()

	a := &agg{bySig: map[string]int{}, examples: map[string][]Fail{}, perKind: map[string]int{}}
	units := make(chan *Unit, 256)

	go func() {
		id := 0
		var bases []*Unit
		li := 0
		f, err := os.Open(*inp)
		if err != nil {
			a.mu.Lock()
			a.infra = append(a.infra, err.Error())
			a.mu.Unlock()
			close(units)
			return
		}
		br := bufio.NewReaderSize(f, 1<<20)
		for {
			line, err := br.ReadBytes('\n')
			if len(line) > 1 {
				id++
				l := append([]byte(nil), bytes.TrimSpace(line)...)
				units <- &Unit{ID: id, U: "case", Li: li, C: l}
				if *nmut > 0 && bytes.Contains(l, []byte(`"p":{"k":"none"`)) && bytes.Contains(l, []byte(`"e":{"v":"accept"`)) &&
					!bytes.Contains(l, []byte(`"t":"cs"`)) {
					bases = append(bases, &Unit{Li: li, C: l})
				}
				li++
			}
			if err != nil {
				break
			}
		}
		f.Close()
		if *nmut > 0 {
			// bases: valid encodings exported by the specification (a seeded selection) and random ones
			rng := rand.New(rand.NewSource(*seed))
			rng.Shuffle(len(bases), func(i, k int) { bases[i], bases[k] = bases[k], bases[i] })
			if len(bases) > *nmut/2 {
				bases = bases[:*nmut/2]
			}
			var mb []*Unit
			for _, b := range bases {
				var c Case
				if json.Unmarshal(b.C, &c) != nil {
					continue
				}
				bb, err := concretise(&c, rand.New(rand.NewSource(*seed*1000003+int64(b.Li))))
				if err != nil || len(bb) > 100000 { // thousands of decodes per base: the very long blocks are left out here
					continue
				}
				mb = append(mb, &Unit{Li: b.Li, Kind: c.T, Hex: hex.EncodeToString(bb)})
			}
			for i := len(mb); i < *nmut; i++ {
				kind := "tx"
				var bb []byte
				if i%5 == 4 {
					kind = "block"
					bb = randomBlock(rng)
				} else {
					bb = randomTx(rng, i%7 == 0).ser(true)
				}
				mb = append(mb, &Unit{Li: 1000000 + i, Kind: kind, Hex: hex.EncodeToString(bb)})
			}
			for _, m := range mb {
				for _, fam := range []string{"trunc", "byte", "double"} {
					if fam == "double" && len(m.Hex) > 2*130 {
						continue
					}
					id++
					units <- &Unit{ID: id, U: "mut", Li: m.Li, Kind: m.Kind, Hex: m.Hex, Fam: fam}
				}
			}
		}
		close(units)
	}()

	var wg sync.WaitGroup
	for w := 0; w < *workers; w++ {
		wg.Add(1)
		go func(w int) {
			defer wg.Done()
			crumb := fmt.Sprintf("%s/wire-crumb-%d-%d", *dir, os.Getpid(), w)
			defer os.Remove(crumb)
			var c *child
			get := func() *child {
				if c == nil {
					var err error
					if c, err = spawn(self, *seed, *rlimit, crumb); err != nil {
						a.mu.Lock()
						a.infra = append(a.infra, "cannot start worker: "+err.Error())
						a.mu.Unlock()
						return nil
					}
				}
				return c
			}
			for u0 := range units {
				// a unit whose child died is split: the part before the fatal sub-case is run again (its findings
				// died with the child), the fatal sub-case is recorded, the rest is resumed
				todo := []*Unit{u0}
				for len(todo) > 0 {
					u := todo[0]
					todo = todo[1:]
					ch := get()
					if ch == nil {
						break
					}
					r, died := ch.ask(u, time.Duration(*wait)*time.Second)
					if died == "" {
						a.mu.Lock()
						a.evals += r.Evals
						a.distinct += r.Distinct
						a.accepts += r.Accepts
						a.perKind[u.U+":"+u.Kind+u.Fam] += r.Evals
						for _, f := range r.Fails {
							a.addFail(f)
						}
						a.infra = append(a.infra, r.Infra...)
						a.mu.Unlock()
						continue
					}
					stderr := ch.errbuf.String()
					ch.kill()
					c = nil
					sub, fn := readCrumb(crumb, u.ID)
					if fn == "" {
						fn = "decoder"
					}
					if sub < u.From {
						sub = u.From
					}
					dry := *u
					dry.Dry, dry.From = true, sub
					hx := ""
					if c2 := get(); c2 != nil {
						if r2, d2 := c2.ask(&dry, 60*time.Second); d2 == "" {
							hx = r2.Hex
						} else {
							c2.kill()
							c = nil
						}
					}
					kind := u.Kind
					var pp *Pert
					if u.U == "case" {
						var cc Case
						json.Unmarshal(u.C, &cc)
						kind = cc.T
						pp = &cc.P
					}
					first := ""
					for _, l := range strings.Split(stderr, "\n") {
						if strings.HasPrefix(l, "fatal error") || strings.HasPrefix(l, "panic") || strings.HasPrefix(l, "runtime:") {
							first = l
							break
						}
					}
					sig, what := "", ""
					switch {
					case died == "hang":
						sig = kind + ":time:" + fn
						what = fmt.Sprintf("%s did not return within %d s on a %d-byte input", fn, *wait, len(hx)/2)
					case strings.Contains(stderr, "out of memory") || strings.Contains(stderr, "cannot allocate memory"):
						sig = kind + ":alloc"
						what = fmt.Sprintf("%s on a %d-byte input aborted the process: allocation beyond the %d MiB address-space headroom (%s)", fn, len(hx)/2, *rlimit, first)
					default:
						sig = kind + ":crash:" + fn
						what = fmt.Sprintf("%s on a %d-byte input killed the process (%s): %s", fn, len(hx)/2, died, first)
					}
					a.mu.Lock()
					a.crashes++
					a.evals++
					if hx != "" {
						a.distinct++
					}
					a.addFail(Fail{Sig: sig, What: what, Kind: kind, Hex: hx, Li: u.Li, Sub: sub, P: pp})
					a.mu.Unlock()
					if u.U == "mut" {
						var more []*Unit
						if sub > u.From {
							pre := *u
							pre.To = sub
							more = append(more, &pre)
						}
						post := *u
						post.From = sub + 1
						if u.To == 0 || post.From < u.To {
							more = append(more, &post)
						}
						todo = append(more, todo...)
					}
				}
				a.mu.Lock()
				a.units++
				a.mu.Unlock()
			}
			if c != nil {
				c.in.Close()
				c.cmd.Wait()
			}
		}(w)
	}
	wg.Wait()

	out := bufio.NewWriter(os.Stdout)
	enc := json.NewEncoder(out)
	sigs := make([]string, 0, len(a.bySig))
	for s := range a.bySig {
		sigs = append(sigs, s)
	}
	sort.Strings(sigs)
	for _, s := range sigs {
		ex := a.examples[s]
		sort.SliceStable(ex, func(i, k int) bool { return len(ex[i].Hex) < len(ex[k].Hex) })
		enc.Encode(map[string]interface{}{"ok": false, "sig": s, "count": a.bySig[s], "examples": ex})
	}
	if len(a.infra) > 20 {
		a.infra = append(a.infra[:20], fmt.Sprintf("... and %d more", len(a.infra)-20))
	}
	enc.Encode(map[string]interface{}{"summary": true, "units": a.units, "evals": a.evals, "distinct": a.distinct,
		"ref_accepts_in_mutations": a.accepts, "crashes": a.crashes, "signatures": len(sigs), "infra": a.infra, "per": a.perKind})
	out.Flush()
}

// ---------------------------------------------------------------------------------------------
// random valid encodings for the mutation tier (wider than the specification's shapes)
// ---------------------------------------------------------------------------------------------

func rbytes(rng *rand.Rand, n int) []byte { x := make([]byte, n); rng.Read(x); return x }

func rlen(rng *rand.Rand, big bool) int {
	switch k := rng.Intn(20); {
	case k < 4:
		return 0
	case k < 12:
		return 1 + rng.Intn(40)
	case k < 15:
		return 100 + rng.Intn(160) // around the 252/253 boundary
	case k == 15:
		return 252
	case k == 16:
		return 253
	case big && k == 17:
		return 10000
	case big && k == 18:
		return 65535 + rng.Intn(2)
	}
	return rng.Intn(600)
}

func randomTx(rng *rand.Rand, big bool) *rTx {
	t := &rTx{ver: rbytes(rng, 4), lock: rbytes(rng, 4)}
	nin := 1 + rng.Intn(4)
	if rng.Intn(10) == 0 {
		nin = 0
	}
	nout := rng.Intn(4)
	if nin == 0 {
		nout = 0 // the only transaction without inputs that has an unambiguous encoding
	}
	for i := 0; i < nin; i++ {
		t.ins = append(t.ins, rIn{prev: rbytes(rng, 36), script: rbytes(rng, rlen(rng, big)), seq: rbytes(rng, 4)})
	}
	for i := 0; i < nout; i++ {
		t.outs = append(t.outs, rOut{value: rbytes(rng, 8), pk: rbytes(rng, rlen(rng, big))})
	}
	if nin > 0 && rng.Intn(2) == 0 {
		t.hasWit = true
		some := false
		for i := 0; i < nin; i++ {
			var st [][]byte
			for k := rng.Intn(4); k > 0; k-- {
				st = append(st, rbytes(rng, rlen(rng, false)))
				some = true
			}
			t.wit = append(t.wit, st)
		}
		if !some {
			t.wit[0] = [][]byte{rbytes(rng, 1+rng.Intn(72))}
		}
	}
	return t
}

func randomBlock(rng *rand.Rand) []byte {
	w := new(bytes.Buffer)
	w.Write(rbytes(rng, 80))
	n := 1 + rng.Intn(4)
	big := false
	switch rng.Intn(4) { // a decoder may batch the transactions of a block: long blocks, and a few large transactions
	case 0:
		n = 20 + rng.Intn(280)
	case 1:
		n, big = 2+rng.Intn(6), true
	}
	putCS(w, uint64(n))
	for i := 0; i < n; i++ {
		t := randomTx(rng, false)
		if big && len(t.ins) > 0 {
			t.ins[0].script = rbytes(rng, 2000+rng.Intn(4000))
		}
		w.Write(t.ser(true))
	}
	return w.Bytes()
}

// ---------------------------------------------------------------------------------------------

func cmdOne(args []string) {
	fs := flag.NewFlagSet("one", flag.ExitOnError)
	kind := fs.String("kind", "tx", "tx | block")
	hx := fs.String("hex", "", "input bytes")
	hf := fs.String("hexfile", "", "file holding the input bytes in hex")
	rl := fs.Int("rlimit", 256, "address space headroom in MiB")
	fs.Parse(args)
	if *hf != "" {
		d, _ := os.ReadFile(*hf)
		*hx = strings.TrimSpace(string(d))
	}
	b, err := hex.DecodeString(*hx)
	if err != nil {
		fmt.Println(`{"infra":"bad hex"}`)
		os.Exit(2)
	}
	if *rl > 0 {
		lim := vmSize() + uint64(*rl)<<20
		syscall.Setrlimit(syscall.RLIMIT_AS, &syscall.Rlimit{Cur: lim, Max: lim})
	}
	j := &judge{kind: *kind, b: exact(b)}
	go func() { // a call that hangs is a finding too
		time.Sleep(20 * time.Second)
		fn, _ := curFn.Load().(string)
		json.NewEncoder(os.Stdout).Encode(Fail{Sig: *kind + ":time:" + fn, What: fn + " did not return within 20 s", Kind: *kind})
		json.NewEncoder(os.Stdout).Encode(map[string]interface{}{"summary": true, "fail": 1})
		os.Exit(0)
	}()
	if *kind == "tx" {
		w := wantFromRef(j.b)
		fmt.Fprintf(os.Stderr, "reference: accept=%v consumed=%d why=%q\n", w.accept, w.n, w.why)
		j.judgeTx(w)
	} else {
		w := blWantFromRef(j.b)
		fmt.Fprintf(os.Stderr, "reference: accept=%v consumed=%d why=%q\n", w.accept, w.n, w.why)
		j.judgeBlock(w)
	}
	enc := json.NewEncoder(os.Stdout)
	for _, f := range j.fails {
		f.Hex = ""
		enc.Encode(f)
	}
	enc.Encode(map[string]interface{}{"summary": true, "fail": len(j.fails)})
}

func main() {
	if len(os.Args) < 2 {
		fmt.Fprintln(os.Stderr, "usage: wire replay|worker|one ...")
		os.Exit(2)
	}
	switch os.Args[1] {
	case "replay":
		cmdReplay(os.Args[2:])
	case "worker":
		cmdWorker(os.Args[2:])
	case "one":
		cmdOne(os.Args[2:])
	default:
		fmt.Fprintln(os.Stderr, "unknown command", os.Args[1])
		os.Exit(2)
	}
}
