// collide.go: two orphan transactions whose BIP152 short ids collide under the key of one compact block.
//
// The short id of a transaction is siphash-2-4(k0, k1, (w)txid) & 0xffffffffffff with k0/k1 taken from
// sha256(header || nonce): the sender of a cmpctblock fixes the key and is free to craft transactions, so a birthday
// search over ~2^24 crafted txids gives it two transactions with the same short id. The harness chain is
// deterministic, so the pair found once is kept as a hint and only verified at start-up; if the header ever changes
// the search runs again (seconds on a few cores).
package main

import (
	"crypto/sha256"
	"encoding/binary"
	"slices"
	"sync"

	"github.com/piotrnar/gocoin/lib/btc"
	"github.com/piotrnar/gocoin/lib/others/siphash"
)

var orphanNonce = []byte{0x43, 0x31, 0x38, 0x2d, 0x73, 0x69, 0x64, 0x21}

// lock times of the colliding pair for the deterministic harness chain (verified by collidingOrphans)
var collideHint = [2]uint32{15086395, 29862052}

// orphanTx: a non-segwit transaction (txid = wtxid) spending an output nobody knows; lock_time is the free parameter.
func (w *World) orphanRaw(lt uint32) []byte {
	b := make([]byte, 0, 82)
	b = append(b, 2, 0, 0, 0, 1)
	b = append(b, w.unkHash[1][:]...)
	b = append(b, 0, 0, 0, 0, 0, 0xfe, 0xff, 0xff, 0xff, 1)
	b = append(b, le64(1000)...)
	b = append(b, byte(len(w.wpk)))
	b = append(b, w.wpk...)
	return append(b, le32(lt)...)
}

func sidKeys(hdr, nonce []byte) (k0, k1 uint64) {
	h := sha256.New()
	h.Write(hdr)
	h.Write(nonce)
	kk := h.Sum(nil)
	return binary.LittleEndian.Uint64(kk[0:8]), binary.LittleEndian.Uint64(kk[8:16])
}

func (w *World) orphanSid(k0, k1 uint64, lt uint32) uint64 {
	h := btc.Sha2Sum(w.orphanRaw(lt))
	return siphash.Hash(k0, k1, h[:]) & 0xffffffffffff
}

// collidingOrphans returns the two lock times and the common short id.
func (w *World) collidingOrphans() (a, b uint32, sid uint64) {
	k0, k1 := sidKeys(w.b1[:80], orphanNonce)
	if collideHint[0] != collideHint[1] && w.orphanSid(k0, k1, collideHint[0]) == w.orphanSid(k0, k1, collideHint[1]) {
		return collideHint[0], collideHint[1], w.orphanSid(k0, k1, collideHint[0])
	}
	const total = 1 << 25 // 2^25 candidates: a collision among them with probability ~86 %; otherwise the next window
	for base := uint32(0); ; base += total {
		tab := make([]uint64, total) // sid << 16 | top 16 bits of the 25-bit index
		var wg sync.WaitGroup
		const parts = 16
		for p := 0; p < parts; p++ {
			wg.Add(1)
			go func(p int) {
				defer wg.Done()
				for i := p * (total / parts); i < (p+1)*(total/parts); i++ {
					tab[i] = w.orphanSid(k0, k1, base+uint32(i))<<16 | uint64(i>>9)
				}
			}(p)
		}
		wg.Wait()
		slices.Sort(tab)
		for i := 1; i < len(tab); i++ {
			if tab[i]>>16 == tab[i-1]>>16 {
				s := tab[i] >> 16
				var hit []uint32
				for _, t := range []uint64{tab[i-1], tab[i]} {
					for j := uint32(0); j < 512; j++ {
						lt := base + uint32(t&0xffff)<<9 + j
						if w.orphanSid(k0, k1, lt) == s && (len(hit) == 0 || hit[0] != lt) {
							hit = append(hit, lt)
							break
						}
					}
				}
				if len(hit) == 2 {
					return hit[0], hit[1], s
				}
			}
		}
	}
}
